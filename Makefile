# /verif build: Coq development (full .vo build), extraction, OCaml model driver, Go harness.
SHELL := /bin/bash
export GOFLAGS := -mod=mod
export GOPROXY := off
export GOSUMDB := off
export GOTOOLCHAIN := local

.PHONY: setup coq extract driver harness clean

setup: coq extract driver harness

coq:
	cd coq && coq_makefile -f _CoqProject -o Makefile.coq >/dev/null && timeout 3000 $(MAKE) -f Makefile.coq -j16

extract: coq
	mkdir -p ocaml/gen && cd ocaml/gen && timeout 600 coqc -Q ../../coq Gokrb5 ../../coq/extract/Extract.v && rm -f Extract.vo Extract.glob Extract.vok Extract.vos .Extract.aux

driver: extract
	cd ocaml && cp gen/model.ml gen/model.mli . && ocamlfind ocamlopt -w -a -o model_driver model.mli model.ml driver.ml

harness:
	cd harness && cp /repo/v8/go.sum . && go build -tags verif -o ../bin/vrun ./cmd/run && go build -o ../bin/vgen-diag ./cmd/gendiag && go build -o ../bin/vgen-access ./cmd/genaccess && go build -o ../bin/vgen-sites ./cmd/gensites && go build -o ../bin/vgen-log ./cmd/genlog && go build -o ../bin/vgen-tables ./cmd/gentables && go build -tags verif -o ../bin/vgen-schemas ./cmd/gen

clean:
	cd coq && (test -f Makefile.coq && $(MAKE) -f Makefile.coq clean || true); rm -f coq/Makefile.coq coq/Makefile.coq.conf
	rm -rf ocaml/gen ocaml/model.ml ocaml/model.mli ocaml/*.cm* ocaml/*.o ocaml/model_driver bin/vrun
