# Per-property configuration of bin/check and bin/mkmanifest.
GO_EXT = 'external Go code not in /repo is trusted: Go runtime and standard library'
PRIMS = 'Gallina primitives prim/*.v (SHA-1/256/384, MD4, MD5, HMAC, PBKDF2, AES, DES/3DES, RC4, CBC) written from FIPS/RFC text, closed by published vectors (vm_compute Examples) and compared with Go crypto on every run through the streams'
CIPHER_HYP = 'block ciphers as permutations: AES/3DES decrypt(encrypt b) = b is a hypothesis of the round-trip theorems (validated by vectors and by the streams, not proved)'
MAC_ASSUMP = 'computational assumption, stated not proved: HMAC unforgeability / collision resistance (a different byte string is not in the accepted set) — decided per concrete tampered input by evaluation'
TECH = 'Coq proof over hand-written Gallina model + differential correspondence (extracted model vs implementation) + direct oracle'

CFG = {
 'C01': {
  'level': 'Theorem apreq_accept_iff: the code-shaped model of APReq.Verify + VerifyAPREQ returns success if and only if the RFC 4120 3.2.3 conjunction holds (keytab key selected by realm/kvno/etype for the service or override principal decrypts the ticket with usage 2; validity window with skew and INVALID flag; address containment / RequireHostAddr; authenticator decrypts under the session key with usage 11 (7 for krbtgt), same client name and realm, timestamp within skew; not in the replay cache), and the reported name, realm and expiry are projections of the decrypted EncTicketPart; a rejected request leaves the replay cache untouched; no panic. Decryption, keytab look-up and replay cache are the models proved for C06/C14/C02. Tie: AP-REQs minted for all six etypes with every single and sampled pairs of 26 catalogue defects under 48 settings combinations; accept/reject and the reported identity are compared with the extracted model, which decrypts the transmitted bytes itself.',
  'note': 'Partial: the ASN.1 decoding of EncTicketPart and Authenticator (external gofork asn1) is a section variable of the theorems; in the correspondence the harness states what it sealed (sealed-content mode) and the model decides decryption on the real bytes. PAC verification when enabled is C19. Exact-instant boundary behaviour (> vs >= at nanosecond equality) is outside the explored range (bounds are placed 3 s inside / outside each window).',
  'rule': 'six etypes x {valid under 48 settings (3 skews x RequireHostAddr x ClientAddress x keytab principal override x PAC decoding) x 4 ticket address variants; each of 26 catalogue defects alone under the base settings and under random settings; sampled pairs of defects (all pairs in thorough)}; every accepted request is presented a second time (replay); empty ticket sname.',
  'trusted': [GO_EXT, PRIMS, 'gofork asn1 decoding of the encrypted parts (external; section variable)', 'the process-wide replay cache singleton is shared by all cases of a run: authenticators are made unique'],
  'assumptions': ['time.Now() is read several times during one verification: bounds are kept 3 s away from each window edge'],
  'partial': 'ASN.1 decoding abstracted; PAC in C19',
 },
 'C02': {
  'level': 'Theorems over every history of presentations, clean-ups and clock advances (no bound on length): an accepted authenticator is rejected as a replay for as long as its timestamp passes the skew check; a replay verdict implies the same (client, client time, service) was accepted before; distinct authenticators are independent; n presentations of one authenticator in any order yield at most one acceptance. Tie to the code: bounded-exhaustive and long random histories on a private cache (verdict and cache size after every operation vs the extracted model), every interleaving of 2-3 concurrent verifications and a clean-up over the build-tag yield points (including one inside IsReplay between look-up and insert), and 16-goroutine free-running stress.',
  'note': 'Partial where the truth lives in the runtime: mutual exclusion of sync.RWMutex and the Go memory model are trusted; the interleaving enumeration and the stress runs are search, not proof. The model flattens client-name -> time -> services maps to a list; client names are the "/"-joined string the code uses as key. One skew value per process is assumed (the clean-up period is fixed by the first caller).',
  'rule': 'histories over 2 clients x 2 timestamps x 2 services + clean-up + 2 clock advances: all of length <= 4 starting with a presentation (quick; 5 thorough); 300 random histories of length 5..200 with fresh and repeated authenticators across the whole skew window, other-service variants, clean-ups and advances; schedules: every interleaving over the yield points for 5-6 scenarios x 2-3 pre-states; 2000 free-running trials of 16 goroutines.',
  'trusted': [GO_EXT + ' (sync.RWMutex, time)', 'verif-tagged hooks in /repo/v8/service (yield points, private cache, simulated clock advance by shifting stored times)'],
  'assumptions': ['the wall clock is non-decreasing', 'the skew test of APReq.Verify runs before the cache is consulted (C01)'],
  'partial': 'linearizability rests on the mutex (trusted) + exhaustive schedule enumeration over hook points',
 },
 'C05': {
  'level': 'Theorems: RFC 4757 message-type encoding is the 4-byte little-endian alias map and is injective on non-aliased usages over the whole 32-bit range. The RFC implementation of all six etypes is the Coq model itself (Crypto.v on Gallina primitives); interoperability in both directions is decided on every run: the model decrypts the library\'s ciphertexts to the same plaintext, recovers the confounder and reproduces the ciphertext byte for byte (so the library decrypts what the model encrypts), for every plaintext length and the usage set.',
  'note': 'Partial: the decrypt-after-encrypt theorem for every length/usage/key (CTS and CBC round trip over a cipher hypothesis) is in progress; until then dec(enc m) = m is exercised, not proved. Trusted: Coq kernel, extraction, harness, Gallina primitives validated by vectors.',
  'rule': 'every etype x plaintext length 0..130 (quick: block-boundary lengths + sample) x library usages {1,2,3,6,7,8,9,11,13,17,22..25,56} and boundary usages {127,128,255,256,1024,2^31} x random keys; per case: model decrypts Go ciphertext, recovers confounder, re-encrypts to identical bytes; Go round trip; two encryptions differ; ciphertext length.',
  'trusted': [GO_EXT, PRIMS, CIPHER_HYP],
  'assumptions': ['confounder randomness comes from crypto/rand (distinctness of two encryptions is observed, not proved)'],
  'partial': 'dec_enc for all inputs not yet a theorem',
 },
 'C06': {
  'level': 'Theorems: every input shorter than confounder + MAC yields an error for all six etypes, and decryption never panics on any byte string (model). The acceptance set is exercised exhaustively on the implementation: every single-bit flip, truncation, extension, block swap, every other usage of the usage set (modulo RFC 4757 aliases) and unrelated keys must be rejected, and the extracted model must agree on each sampled case and on every case the implementation accepts.',
  'note': 'Partial: "accepted implies image of encryption under the same key and usage" is a theorem only up to the MAC comparison (computational assumption for the rest). Trusted: Coq kernel, extraction, harness, primitives.',
  'rule': 'every etype x plaintext lengths 0..64 (quick: boundary lengths): every single-bit flip of the ciphertext (exhaustive), every truncation length, appended/prepended bytes, swapped blocks, every other usage (modulo 3,9->8 and 23->13 for rc4), 3 random keys and one key bit flip; genuine ciphertext accepted; RFC 4757 aliases decrypt each other.',
  'trusted': [GO_EXT, PRIMS, MAC_ASSUMP],
  'assumptions': [MAC_ASSUMP],
  'partial': 'exact acceptance-set theorem pending; MAC unforgeability is an assumption',
 },
 'C07': {
  'level': 'Theorems: verification is true exactly for the RFC value (verify_iff), the value has the length the checksum type prescribes (so no prefix or extension verifies), checksum type ids map to exactly the IANA-assigned encryption families, RFC 4757 message types are injective on non-aliased usages. The RFC value is computed by the Coq model (independent implementation) and compared with GetChecksumHash for every type, data length and usage on every run.',
  'note': 'Trusted: Coq kernel, extraction, harness, Gallina primitives validated by vectors. "Other data/key/usage does not verify" is HMAC collision resistance: decided per concrete case by evaluation.',
  'rule': 'every checksum type {12,15,16,19,20,-138} x data lengths 0..200 (quick: boundary lengths around the hash block + sample) x usage set x random keys: GetChecksumHash vs model; VerifyChecksum on the exact value, every truncation, three one-byte extensions, every single-bit flip, other data, other key, every other usage.',
  'trusted': [GO_EXT, PRIMS, MAC_ASSUMP],
  'assumptions': [MAC_ASSUMP],
 },
 'C08': {
  'level': 'Theorems: DES3 random-to-key yields 24 bytes with odd parity in every byte (all 256 byte values); UTF-16LE conversion handles every code point incl. supplementary planes; a less specific PA-data hint never overrides a more specific one and the derived key is independent of the order of the hints (all permutations, by commutation of the per-hint step); every key of the length gokrb5 generates is accepted by encryption for all six etypes. string-to-key, DK, KDF-HMAC-SHA2, n-fold and random-to-key are computed by the Coq model (written from the RFCs) and compared with gokrb5 on every run.',
  'note': 'Partial: n-fold is the RFC definition in Z arithmetic validated differentially and by RFC vectors, not proved equal to the bit-serial Go code; PBKDF2 iteration counts above 300 are covered by one default-count case (4096) because the extracted SHA is slow. n-fold of the empty string is undefined (gokrb5 divides by zero for des3 with empty password and salt): excluded. Order-independence is proved for hints naming the requested etype.',
  'rule': 'every etype x 12 passwords (empty, ASCII, Latin-1, Cyrillic, CJK, supplementary-plane, >64 bytes) x 5 salts x iteration counts {1,2,3,5,16,100} (+30 random <=300 in thorough, SHA-2 capped) + malformed s2kparams + default count; n-fold for input lengths 1..64 x sizes {64,128,168,192,256}; DeriveKey with constants of length 1..16; DES3 random-to-key incl. inputs that stretch to each weak key; GetKeyFromPassword under every subset and permutation of PA-PW-SALT / ETYPE-INFO / ETYPE-INFO2 with differing salts (+ unrelated entries, empty sequences); generated keys and subkeys used for an encrypt/decrypt round trip.',
  'trusted': [GO_EXT, PRIMS, 'gofork asn1 decoding of ETYPE-INFO(2) (external; the model starts from the decoded hints)'],
  'assumptions': ['hints that carry an etype name the requested etype (theorem hypothesis hints_simple)'],
  'partial': 'nfold_impl_spec not proved; large iteration counts sampled',
 },
 'C12': {
  'level': 'Theorems for every behaviour assignment, every number of KDCs, every server order and all three transport preferences: fail-over completeness (a working endpoint over a permitted transport + all others dead => an answer is returned), KRB-ERROR surfacing (first live endpoint of the first transport; only response-too-big over UDP falls back to TCP), soundness of surfaced codes, failure when nothing works, and at most one attempt per endpoint. Tie to the code: real loopback UDP/TCP endpoints with the six behaviours per (KDC, transport); result class, reply identity and the attempts seen by the endpoints are compared with the extracted model under the server order recovered from the observed attempts.',
  'note': 'Partial: socket time-outs, short reads of the 4-byte TCP header and DNS SRV look-up are runtime behaviour the model cannot exhibit (the 5 s deadlines are exercised by the silent endpoints). sendToKDC is reached through a verif-tagged export.',
  'rule': 'every assignment of {answers, refuses, closes early / empty datagram (two TCP variants), silent, KRB-ERROR 6/24, response-too-big on UDP} to the UDP and TCP endpoint of 1 KDC x 3 modes of udp_preference_limit {1, >= request, < request} (silent+silent skipped in quick), 140 sampled assignments for 2 KDCs and 40 for 3 (<=1 silent endpoint each in quick); thorough: 1500 + 400 with <= 2 silent.',
  'trusted': [GO_EXT + ' (net, time)', 'loopback endpoint simulator in harness/cmd/run/c12.go', 'verif-tagged export client.VerifSendToKDC'],
  'assumptions': ['a refused connection is not observable by the simulator: attempts are compared on the visible endpoints'],
  'partial': 'socket timing is exercised, not modelled',
  'timeout': 600,
 },
 'C14': {
  'level': 'Theorems (coq/props/C14.v): the parser reads every file of the MIT keytab grammar (both versions, holes, optional 32-bit kvno) to exactly the entries written; Unmarshal(Marshal kt) = kt for every representable keytab; key look-up is sound, complete and prefers the newest entry; the parser is total. The model is tied to the code by running the extracted model and the implementation on the same generated files, keytabs and look-ups on every run.',
  'note': 'Trusted: Coq kernel, extraction (ExtrOcamlBasic), the harness and its independent keytab writer; the model is hand-written and validated by the correspondence stream, not generated. Version 1 byte order is little-endian as on this platform.',
  'rule': 'keytab files rendered by the independent writer of harness/cmd/run/c14.go from generated models (versions 1-2, 0-8 entries, 0-4 components, empty/255+ byte/binary names, etype ids over the int16 range, 8-bit and 32-bit kvno, holes, timestamps over the int32 range) -> Unmarshal; Marshal of parsed and field-mutated keytabs; present and near-miss look-ups (8 kinds); truncations and byte substitutions. A case is one (function, input, observable) line; distinct = distinct lines.',
  'trusted': [GO_EXT + ' (encoding/binary, time.Unix)', 'native byte order assumed little-endian (amd64/arm64) for version 1 files; file length < 2^31'],
  'assumptions': ['get_key_complete assumes no entry has an empty key value (GetEncryptionKey treats an empty key as not found)'],
 },
 'C17': {
  'level': 'Theorems (coq/props/C17.v): Marshal of both tokens is exactly the RFC 4121 4.2.6 layout; Unmarshal(Marshal t) = t; Marshal is injective; the signed data is { payload | header with EC/RRC zeroed } and determines payload, flags and sequence number (every transmitted bit except EC/RRC is bound); Verify is true exactly when the carried checksum is the keyed checksum of that data under the presented key and usage (for every checksum function; C07 characterises the concrete one); decoding rejects wrong id, filler, direction, short input. Correspondence: token bytes, decoded fields and Verify verdicts (with the RFC checksum computed by the Coq crypto model) for every etype on every run.',
  'note': 'Trusted: Coq kernel, extraction, harness, Gallina primitives. "A changed field does not verify" beyond injectivity of the signed data is HMAC collision resistance (assumption, decided per case by evaluation).',
  'rule': 'every etype x payload lengths 0..300 (quick: 19 lengths) x flags 0..7 x sequence numbers {0,1,2^32,2^64-1} x usages 22..25 x both expected directions: Marshal bytes, Unmarshal fields, Verify verdict vs model; 8 mutations between checksum and verification; every single-bit flip of marshalled tokens (exhaustive for the first tokens per etype) must verify iff the bit is in RRC; every truncation.',
  'trusted': [GO_EXT, PRIMS, MAC_ASSUMP],
  'assumptions': [MAC_ASSUMP],
 },
}
