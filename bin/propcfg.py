# Per-property configuration of bin/check: generated obligations, trusted-base additions, evidence texts.
GO_EXT = 'external Go code not in /repo is trusted: Go runtime and standard library'

CFG = {
 'C14': {
  'rule': 'keytab files rendered by the independent writer of harness/cmd/run/c14.go from generated models (versions 1-2, 0-8 entries, 0-4 components, empty/255+ byte/binary names, etype ids over the int16 range, 8-bit and 32-bit kvno, holes, timestamps over the int32 range) -> Unmarshal; Marshal of parsed and field-mutated keytabs; present and near-miss look-ups (8 kinds); truncations and byte substitutions. A case is one (function, input, observable) line; distinct = distinct lines.',
  'trusted': [GO_EXT + ' (encoding/binary, time.Unix)', 'native byte order assumed little-endian (amd64/arm64) for version 1 files; file length < 2^31'],
  'assumptions': ['get_key_complete assumes no entry has an empty key value (GetEncryptionKey treats an empty key as not found)'],
 },
}
