(* Line-oriented driver for the extracted model.
   input line : <fn> TAB <jv input> TAB <jv observed by the implementation>
   output     : one line per mismatch "MISMATCH <lineno> <fn> <model jv>", then "DONE <cases> <mismatches>"
   with -print: prints the model output for every line instead (used by replay). *)
open Model

let rec pos_of_int n = if n = 1 then XH else if n land 1 = 1 then XI (pos_of_int (n lsr 1)) else XO (pos_of_int (n lsr 1))
let z_of_int n = if n = 0 then Z0 else if n > 0 then Zpos (pos_of_int n) else Zneg (pos_of_int (-n))
let rec int_of_pos = function XH -> 1 | XO p -> 2 * int_of_pos p | XI p -> 2 * int_of_pos p + 1
let int_of_z = function Z0 -> 0 | Zpos p -> int_of_pos p | Zneg p -> - (int_of_pos p)

let byte_tbl = Array.init 256 z_of_int

let hexval c = match c with
  | '0'..'9' -> Char.code c - 48 | 'a'..'f' -> Char.code c - 87 | 'A'..'F' -> Char.code c - 55
  | _ -> failwith "hex"

let bytes_of_hex s =
  let n = String.length s / 2 in
  let rec go i acc = if i < 0 then acc else go (i-1) (byte_tbl.(hexval s.[2*i] * 16 + hexval s.[2*i+1]) :: acc) in
  go (n-1) []

let hex_of_bytes l =
  let b = Buffer.create 64 in
  List.iter (fun z -> Buffer.add_string b (Printf.sprintf "%02x" ((int_of_z z) land 255))) l;
  Buffer.contents b

(* tokens: "(" ")" "i<dec>" "x<hex>" separated by spaces *)
let parse_jv (s : string) : jv =
  let toks = List.filter (fun t -> t <> "") (String.split_on_char ' ' s) in
  let rec one = function
    | "(" :: r -> let (l, r') = many r [] in (JL l, r')
    | t :: r when String.length t >= 1 && t.[0] = 'i' -> (JI (z_of_int (int_of_string (String.sub t 1 (String.length t - 1)))), r)
    | t :: r when String.length t >= 1 && t.[0] = 'x' -> (JB (bytes_of_hex (String.sub t 1 (String.length t - 1))), r)
    | _ -> failwith "parse_jv"
  and many toks acc = match toks with
    | ")" :: r -> (List.rev acc, r)
    | [] -> failwith "parse_jv: eof"
    | _ -> let (v, r) = one toks in many r (v :: acc)
  in
  let (v, _) = one toks in v

let rec print_jv b = function
  | JI z -> Buffer.add_char b 'i'; Buffer.add_string b (string_of_int (int_of_z z))
  | JB l -> Buffer.add_char b 'x'; Buffer.add_string b (hex_of_bytes l)
  | JL l -> Buffer.add_string b "("; List.iter (fun v -> Buffer.add_char b ' '; print_jv b v) l; Buffer.add_string b " )"

let show v = let b = Buffer.create 256 in print_jv b v; Buffer.contents b

let dispatch (fn : string) : jv -> jv = match fn with
  | "kt_unmarshal" -> kt_unmarshal_j
  | "kt_marshal" -> kt_marshal_j
  | "kt_getkey" -> kt_getkey_j
  | "wrap_marshal" -> wrap_marshal_j
  | "wrap_unmarshal" -> wrap_unmarshal_j
  | "mic_marshal" -> mic_marshal_j
  | "mic_unmarshal" -> mic_unmarshal_j
  | "wrap_verify" -> wrap_verify_j
  | "mic_verify" -> mic_verify_j
  | "nfold" -> nfold_j
  | "derive_key" -> derive_key_j
  | "checksum" -> checksum_j
  | "verify_checksum" -> verify_checksum_j
  | "decrypt" -> decrypt_j
  | "crypt_check" -> crypt_check_j
  | "encrypt_with" -> encrypt_with_j
  | "string_to_key" -> string_to_key_j
  | "des3_random_to_key" -> des3_random_to_key_j
  | "key_from_password" -> key_from_password_j
  | "replay_run" -> replay_run_j
  | "replay_conc" -> replay_conc_j
  | "send_to_kdc" -> send_to_kdc_j
  | "verify_apreq" -> verify_apreq_j
  | "spnego_serve" -> serve_j
  | "http_do" -> http_do_j
  | "asrep_verify" -> asrep_verify_j
  | "marshal_len" -> marshal_len_j
  | "get_length" -> get_length_j
  | "len_hdr_bytes" -> len_hdr_bytes_j
  | "add_app_tag" -> add_app_tag_j
  | "set_flag" -> set_flag_j
  | "unset_flag" -> unset_flag_j
  | "is_flag_set" -> is_flag_set_j
  | "is_flag_set_orig" -> is_flag_set_orig_j
  | "kdc_options_widen" -> kdc_options_widen_j
  | "choice_encode" -> choice_encode_j
  | "choice_decode" -> choice_decode_j
  | "gss_frame" -> gss_frame_j
  | "gss_unframe" -> gss_unframe_j
  | "krb5_token" -> krb5_token_j
  | "krb5_untoken" -> krb5_untoken_j
  | "spnego_serve_bytes" -> spnego_serve_bytes_j
  | "spnego_accept_bytes" -> spnego_accept_bytes_j
  | "spnego_decode" -> spnego_decode_j
  | "asrep_verify_bytes" -> asrep_verify_bytes_j
  | "tgsrep_verify_bytes" -> tgsrep_verify_bytes_j
  | "parse_kdc_rep" -> parse_kdc_rep_j
  | "dec_enc_der" -> dec_enc_der_j
  | "verify_apreq_bytes" -> verify_apreq_bytes_j
  | "apreq_decode" -> apreq_decode_j
  | "pac_process" -> pac_process_j
  | "pac_unmarshal" -> pac_unmarshal_j
  | "sig_unmarshal" -> sig_unmarshal_j
  | "client_info" -> client_info_j
  | "c16_parse" -> c16_parse_j
  | "c16_resolve" -> c16_resolve_j
  | "c16_bool" -> c16_bool_j
  | "c16_dur" -> c16_dur_j
  | "c16_etypes" -> c16_etypes_j
  | "c16_auf" -> c16_auf_j
  | "c16_rso" -> c16_rso_j
  | "c16_getkdcs" -> c16_getkdcs_j
  | "c16_getkpasswd" -> c16_getkpasswd_j
  | "client_run" -> client_run_j
  | "client_pairs" -> client_pairs_j
  | "as_exchange" -> as_exchange_j
  | "new_as_req" -> new_as_req_j
  | "referrals" -> referrals_j
  | "cc_unmarshal" -> cc_unmarshal_j
  | "cc_getentry" -> cc_getentry_j
  | "cc_contains" -> cc_contains_j
  | "cc_getentries" -> cc_getentries_j
  | "cc_client" -> cc_client_j
  | "der_encode" -> der_encode_j
  | "der_decode" -> der_decode_j
  | "der_len" -> der_len_j
  | "parse_len" -> parse_len_j
  | "enc_int" -> enc_int_j
  | "dec_int" -> dec_int_j
  | "enc_time" -> enc_time_j
  | "dec_time" -> dec_time_j
  | "tgsrep_verify" -> tgsrep_verify_j
  | "spnego_accept" -> accept_sec_context_j
  | "send_to_kdc_visible" -> send_to_kdc_visible_j
  | _ -> failwith ("unknown model function " ^ fn)

let () =
  let print_mode = Array.length Sys.argv > 1 && Sys.argv.(1) = "-print" in
  let n = ref 0 and bad = ref 0 in
  (try
    while true do
      let line = input_line stdin in
      if line <> "" then begin
        incr n;
        match String.split_on_char '\t' line with
        | fn :: inp :: rest ->
          let out = (try show (dispatch fn (parse_jv inp)) with Failure m -> "FAIL:" ^ m | Stack_overflow -> "FAIL:stack") in
          if print_mode then print_endline out
          else begin
            let obs = (match rest with o :: _ -> String.trim o | [] -> "") in
            (* normalise observed text through the same printer *)
            let obs' = (try show (parse_jv obs) with _ -> obs) in
            if out <> obs' then begin incr bad; Printf.printf "MISMATCH %d %s %s\n" !n fn out end
          end
        | _ -> incr bad; Printf.printf "MISMATCH %d ? malformed-line\n" !n
      end
    done
  with End_of_file -> ());
  Printf.printf "DONE %d %d\n" !n !bad
