// Package c19 is the correspondence harness of property C19: "A PAC is accepted only with a valid server
// signature and is reported faithfully".
//
// Every sample PAC of the repository's test data (and PACs assembled from its sample buffers) is RE-SIGNED
// by an independent PAC writer under every checksum type with random keys, using gokrb5's own etype
// GetChecksumHash, and then run through the real pac.PACType.Unmarshal + ProcessPACInfoBuffers (and through
// Ticket.GetPACType / service.VerifyAPREQ).  Direct oracles decide every single-bit flip, buffer removal /
// duplication / permutation, RODC identifier, wrong key and wrong declared type; the extracted Coq model
// (coq/model/PAC.v) is compared on every accepted case and on a sample of the rejected ones, and on the
// crypto-free malformed stream.
//
// Structure mode: KERB_VALIDATION_INFO and the other NDR / UPN_DNS_INFO buffers are decoded by code the model
// does not re-implement (rpc/v2); the harness passes the model one flag per table entry: did the stand-alone
// decoder of that ulType succeed on the bytes of that buffer.
package c19

import (
	"bufio"
	"bytes"
	"encoding/binary"
	"encoding/hex"
	"fmt"
	"io"
	"log"
	"os"
	"os/exec"
	"reflect"
	"runtime"
	"sort"
	"strconv"
	"strings"

	"github.com/jcmturner/rpc/v2/mstypes"
	"sync"
	"sync/atomic"
	"syscall"
	"time"

	"github.com/jcmturner/gofork/encoding/asn1"
	"github.com/jcmturner/gokrb5/v8/asn1tools"
	"github.com/jcmturner/gokrb5/v8/crypto"
	"github.com/jcmturner/gokrb5/v8/iana"
	"github.com/jcmturner/gokrb5/v8/iana/adtype"
	"github.com/jcmturner/gokrb5/v8/iana/asnAppTag"
	"github.com/jcmturner/gokrb5/v8/iana/keyusage"
	"github.com/jcmturner/gokrb5/v8/iana/nametype"
	"github.com/jcmturner/gokrb5/v8/keytab"
	"github.com/jcmturner/gokrb5/v8/messages"
	"github.com/jcmturner/gokrb5/v8/pac"
	"github.com/jcmturner/gokrb5/v8/service"
	"github.com/jcmturner/gokrb5/v8/test/testdata"
	"github.com/jcmturner/gokrb5/v8/types"
	"verif/harness/internal/hctx"
	"verif/harness/internal/jv"
)

// ---------------------------------------------------------------------------------------------------
// independent reader / writer of the PACTYPE layout (written from MS-PAC 2.3, 2.4, 2.8)
// ---------------------------------------------------------------------------------------------------

type pbuf struct {
	typ  uint32
	data []byte
}

func cloneBufs(bs []pbuf) []pbuf {
	out := make([]pbuf, len(bs))
	for i, b := range bs {
		out[i] = pbuf{b.typ, append([]byte{}, b.data...)}
	}
	return out
}

// splitPAC is used on the well-formed samples only.
func splitPAC(b []byte) []pbuf {
	n := int(binary.LittleEndian.Uint32(b[0:4]))
	out := make([]pbuf, n)
	for i := 0; i < n; i++ {
		e := b[8+16*i:]
		ty := binary.LittleEndian.Uint32(e[0:4])
		sz := int(binary.LittleEndian.Uint32(e[4:8]))
		off := int(binary.LittleEndian.Uint64(e[8:16]))
		out[i] = pbuf{ty, append([]byte{}, b[off:off+sz]...)}
	}
	return out
}

// buildPAC lays out header, table (in the order of bufs) and the buffers (in dataOrder, 8-byte aligned).
func buildPAC(bufs []pbuf, dataOrder []int) (out []byte, offs []int) {
	n := len(bufs)
	if dataOrder == nil {
		dataOrder = make([]int, n)
		for i := range dataOrder {
			dataOrder[i] = i
		}
	}
	offs = make([]int, n)
	pos := 8 + 16*n
	for _, i := range dataOrder {
		for pos%8 != 0 {
			pos++
		}
		offs[i] = pos
		pos += len(bufs[i].data)
	}
	for pos%8 != 0 {
		pos++
	}
	out = make([]byte, pos)
	binary.LittleEndian.PutUint32(out[0:], uint32(n))
	for i, b := range bufs {
		e := out[8+16*i:]
		binary.LittleEndian.PutUint32(e[0:], b.typ)
		binary.LittleEndian.PutUint32(e[4:], uint32(len(b.data)))
		binary.LittleEndian.PutUint64(e[8:], uint64(offs[i]))
		copy(out[offs[i]:], b.data)
	}
	return
}

// checksum types gokrb5 can map to an etype; 12 (des3) has no entry in the PAC signature-length table.
var pacTypes = []int32{15, 16, 19, 20, -138}

func macLen(ct int32) int {
	switch ct {
	case 15, 16:
		return 12
	case 19, -138:
		return 16
	case 20:
		return 24
	case 12:
		return 20
	}
	return 0
}
func keyLen(ct int32) int {
	switch ct {
	case 15, 19, -138:
		return 16
	case 16, 20:
		return 32
	case 12:
		return 24
	}
	return 16
}
func etypeOf(ct int32) int32 {
	switch ct {
	case 15:
		return 17
	case 16:
		return 18
	case 19:
		return 19
	case 20:
		return 20
	case -138:
		return 23
	case 12:
		return 16
	}
	return 0
}

func sigBuf(ct int32, rodc int) []byte {
	b := make([]byte, 4+macLen(ct))
	binary.LittleEndian.PutUint32(b, uint32(ct))
	if rodc >= 0 {
		b = append(b, byte(rodc), byte(rodc>>8))
	}
	return b
}

func firstOf(bufs []pbuf, ty uint32) int {
	for i, b := range bufs {
		if b.typ == ty {
			return i
		}
	}
	return -1
}

type signed struct {
	b              []byte
	bufs           []pbuf
	offs           []int
	srvLo, srvHi   int // value field of the first server signature
	kdcLo, kdcHi   int // value field of the first KDC signature
	srvCT          int32
	srvKey, kdcKey []byte
}

func kchecksum(ct int32, key, data []byte) []byte {
	et, err := crypto.GetChksumEtype(ct)
	if err != nil {
		panic(err)
	}
	h, err := et.GetChecksumHash(key, data, keyusage.KERB_NON_KERB_CKSUM_SALT)
	if err != nil {
		panic(err)
	}
	return h
}

// signPAC computes both signatures as MS-PAC 2.8 prescribes: server signature over the whole PAC with both
// signature values zeroed, KDC signature over the server signature value.  Signature buffers must already
// have their type (and RODC id) set and the right size for their type.
func signPAC(bufs []pbuf, dataOrder []int, srvKey, kdcKey []byte) signed {
	bufs = cloneBufs(bufs)
	i6, i7 := firstOf(bufs, 6), firstOf(bufs, 7)
	s := signed{bufs: bufs, srvKey: srvKey, kdcKey: kdcKey}
	var ct6, ct7 int32
	if i6 >= 0 {
		ct6 = int32(binary.LittleEndian.Uint32(bufs[i6].data))
		for j := 4; j < 4+macLen(ct6); j++ {
			bufs[i6].data[j] = 0
		}
	}
	if i7 >= 0 {
		ct7 = int32(binary.LittleEndian.Uint32(bufs[i7].data))
		for j := 4; j < 4+macLen(ct7); j++ {
			bufs[i7].data[j] = 0
		}
	}
	s.b, s.offs = buildPAC(bufs, dataOrder)
	s.srvCT = ct6
	if i6 >= 0 {
		sum := kchecksum(ct6, srvKey, s.b)
		s.srvLo, s.srvHi = s.offs[i6]+4, s.offs[i6]+4+macLen(ct6)
		if i7 >= 0 {
			ksum := kchecksum(ct7, kdcKey, sum)
			s.kdcLo, s.kdcHi = s.offs[i7]+4, s.offs[i7]+4+macLen(ct7)
			copy(s.b[s.kdcLo:s.kdcHi], ksum)
			copy(bufs[i7].data[4:], ksum)
		}
		copy(s.b[s.srvLo:s.srvHi], sum)
		copy(bufs[i6].data[4:], sum)
	}
	return s
}

// withSigTypes replaces the signature buffers of a sample by fresh ones of the given types.
func withSigTypes(bufs []pbuf, srvCT, kdcCT int32, rodc int) []pbuf {
	out := cloneBufs(bufs)
	for i := range out {
		if out[i].typ == 6 {
			out[i].data = sigBuf(srvCT, rodc)
		} else if out[i].typ == 7 {
			out[i].data = sigBuf(kdcCT, rodc)
		}
	}
	return out
}

// ---------------------------------------------------------------------------------------------------
// running the implementation and projecting what the property speaks about
// ---------------------------------------------------------------------------------------------------

type runRes struct {
	panicked bool
	pval     interface{}
	uerr     error
	perr     error
	p        *pac.PACType
}

func (r runRes) accepted() bool { return !r.panicked && r.uerr == nil && r.perr == nil }

func runPAC(b []byte, key []byte, l *log.Logger) runRes {
	var r runRes
	p := new(pac.PACType)
	r.p = p
	data := append([]byte{}, b...)
	r.panicked, r.pval = hctx.Guard(func() {
		r.uerr = p.Unmarshal(data)
		if r.uerr != nil {
			return
		}
		r.perr = p.ProcessPACInfoBuffers(types.EncryptionKey{KeyType: 0, KeyValue: key}, l)
	})
	return r
}

// standalone decodes every buffer of the table as parsed by the implementation with the decoder of its
// ulType: flag 1 = decoded, 0 = error / not applicable, 2 = the external decoder panicked.
func standalone(b []byte) (flags []int64, dec []interface{}) {
	var p pac.PACType
	var err error
	if pk, _ := hctx.Guard(func() { err = p.Unmarshal(append([]byte{}, b...)) }); pk || err != nil {
		return nil, nil
	}
	flags = make([]int64, len(p.Buffers))
	dec = make([]interface{}, len(p.Buffers))
	for i, bf := range p.Buffers {
		if bf.Offset > uint64(len(b)) || uint64(bf.CBBufferSize) > uint64(len(b))-bf.Offset {
			continue
		}
		d := append([]byte{}, b[bf.Offset:bf.Offset+uint64(bf.CBBufferSize)]...)
		var v interface{}
		var e error
		pk, _ := hctx.Guard(func() {
			switch bf.ULType {
			case 1:
				var k pac.KerbValidationInfo
				e = k.Unmarshal(d)
				v = k
			case 10:
				var k pac.ClientInfo
				e = k.Unmarshal(d)
				v = k
			case 11:
				var k pac.S4UDelegationInfo
				e = k.Unmarshal(d)
				v = k
			case 12:
				var k pac.UPNDNSInfo
				e = k.Unmarshal(d)
				v = k
			case 13:
				var k pac.ClientClaimsInfo
				e = k.Unmarshal(d)
				v = k
			case 14:
				var k pac.DeviceInfo
				e = k.Unmarshal(d)
				v = k
			case 15:
				var k pac.DeviceClaimsInfo
				e = k.Unmarshal(d)
				v = k
			default:
				e = fmt.Errorf("n/a")
			}
		})
		switch {
		case pk:
			flags[i] = 2
		case e == nil:
			flags[i] = 1
			dec[i] = v
		}
	}
	return
}

func idxOf(p *pac.PACType, ty uint32, got interface{}, dec []interface{}) int64 {
	for i, bf := range p.Buffers {
		if bf.ULType == ty && dec[i] != nil && reflect.DeepEqual(dec[i], got) {
			return int64(i)
		}
	}
	return -9
}

func jsig(s *pac.SignatureData) jv.V {
	return jv.L(jv.I(int64(s.SignatureType)), jv.B(s.Signature), jv.I(int64(s.RODCIdentifier)))
}

func obsOf(r runRes, dec []interface{}) jv.V {
	if r.panicked {
		return jv.Panic()
	}
	if !r.accepted() {
		return jv.Err()
	}
	p := r.p
	opt := func(ty uint32, isNil bool, v interface{}) jv.V {
		if isNil {
			return jv.I(-1)
		}
		return jv.I(idxOf(p, ty, v, dec))
	}
	deref := func(v interface{}) interface{} {
		rv := reflect.ValueOf(v)
		if rv.IsNil() {
			return nil
		}
		return rv.Elem().Interface()
	}
	ci := p.ClientInfo
	return jv.Ok(
		jv.I(idxOf(p, 1, *p.KerbValidationInfo, dec)),
		jsig(p.ServerChecksum), jsig(p.KDCChecksum),
		jv.I(idxOf(p, 10, *ci, dec)),
		jv.L(jv.I(int64(ci.ClientID.LowDateTime)), jv.I(int64(ci.ClientID.HighDateTime)), jv.I(int64(ci.NameLength)), jv.S(ci.Name)),
		jv.L(opt(11, p.S4UDelegationInfo == nil, deref(p.S4UDelegationInfo)),
			opt(12, p.UPNDNSInfo == nil, deref(p.UPNDNSInfo)),
			opt(13, p.ClientClaimsInfo == nil, deref(p.ClientClaimsInfo)),
			opt(14, p.DeviceInfo == nil, deref(p.DeviceInfo)),
			opt(15, p.DeviceClaimsInfo == nil, deref(p.DeviceClaimsInfo))),
		jv.B(p.ZeroSigData),
	)
}

type st struct {
	c      *hctx.Ctx
	logBuf bytes.Buffer
	logger *log.Logger
	nAuth  int
	slow   time.Duration
	ws     [nPool]*worker
}

func (s *st) pickLogger() *log.Logger {
	// service.Settings.Logger() is nil by default: that is the common case
	if s.c.R.Intn(4) == 0 {
		s.logBuf.Reset()
		return s.logger
	}
	return nil
}

// exec runs the implementation, records the universal no-panic oracle and (if toModel) a model case.
func (s *st) exec(kind string, b, key []byte, toModel bool) runRes {
	c := s.c
	r := runPAC(b, key, s.pickLogger())
	c.Check(!r.panicked, "no-panic", "C19:panic:"+kind, fmt.Sprintf("panic %v", r.pval), hex.EncodeToString(b))
	c.Count("run:" + kind)
	if r.accepted() {
		c.Count("accepted:" + kind)
	}
	if toModel || r.accepted() {
		flags, dec := standalone(b)
		fl := make([]jv.V, len(flags))
		for i, f := range flags {
			if f == 2 {
				c.Count("skip:external-decoder-panic")
				return r
			}
			fl[i] = jv.I(f)
		}
		c.Case("pac_process", jv.L(jv.B(b), jv.B(key), jv.L(fl...)), obsOf(r, dec))
		c.Count("model:" + kind)
	}
	return r
}

// ---------------------------------------------------------------------------------------------------
// crash isolation.  Inputs whose NDR buffers are not genuine (re-typed / shifted / garbage buffers, flips
// that set a high bit of a 32-bit word inside an NDR buffer) are run in a worker process: the external NDR
// decoder (rpc/v2) allocates by unchecked conformant-array counts and a single flipped bit can ask for
// tens of GiB, which is a FATAL (unrecoverable) out-of-memory error of the Go runtime.  The same isolation
// lets the harness survive - and report - the unbounded `make` of an unrepaired PACType.Unmarshal.
// The worker is this very binary re-executed with VERIF_C19_WORKER=1 (see init).
// ---------------------------------------------------------------------------------------------------

func init() {
	if os.Getenv("VERIF_C19_WORKER") == "1" {
		workerMain()
		os.Exit(0)
	}
}

func hexOrDash(b []byte) string {
	if len(b) == 0 {
		return "-"
	}
	return hex.EncodeToString(b)
}

func flagsJV(flags []int64) (jv.V, bool) {
	fl := make([]jv.V, len(flags))
	for i, f := range flags {
		if f == 2 {
			return "", false
		}
		fl[i] = jv.I(f)
	}
	return jv.L(fl...), true
}

func workerMain() {
	// a data-segment limit makes the multi-GiB allocations of the external decoder fail at once
	// instead of mapping (and paying for) gigabytes
	lim := syscall.Rlimit{Cur: 128 << 20, Max: 128 << 20}
	syscall.Setrlimit(syscall.RLIMIT_DATA, &lim)
	in := bufio.NewReaderSize(os.Stdin, 1<<22)
	out := bufio.NewWriter(os.Stdout)
	for {
		line, err := in.ReadString('\n')
		if err != nil {
			return
		}
		f := strings.Fields(line)
		if len(f) != 3 {
			return
		}
		var b, key []byte
		if f[1] != "-" {
			b, _ = hex.DecodeString(f[1])
		}
		if f[2] != "-" {
			key, _ = hex.DecodeString(f[2])
		}
		var d uint64
		if f[0] == "m" {
			// bytes allocated by PACType.Unmarshal alone (the decoders of the info buffers are external)
			d = allocDelta(func() {
				hctx.Guard(func() {
					var p pac.PACType
					p.Unmarshal(append([]byte{}, b...))
				})
			})
		}
		r := runPAC(b, key, nil)
		flags, dec := standalone(b)
		status := "err"
		switch {
		case r.panicked:
			status = "panic:" + strings.ReplaceAll(fmt.Sprint(r.pval), "\t", " ")
		case r.accepted():
			status = "ok"
		}
		fj, okf := flagsJV(flags)
		if !okf {
			fj = "decoder-panic"
		}
		fmt.Fprintf(out, "%s\t%s\t%s\t%d\n", status, obsOf(r, dec), fj, d)
		out.Flush()
	}
}

type worker struct {
	cmd    *exec.Cmd
	in     io.WriteCloser
	out    *bufio.Reader
	errBuf *bytes.Buffer
}

const nPool = 8 // worker processes (each is limited to 128 MiB of data)

func startWorker() *worker {
	exe, err := os.Executable()
	if err != nil {
		panic(err)
	}
	cmd := exec.Command(exe)
	cmd.Env = append(os.Environ(), "VERIF_C19_WORKER=1", "GOTRACEBACK=single", "GOMAXPROCS=1")
	w := &worker{cmd: cmd, errBuf: new(bytes.Buffer)}
	w.in, _ = cmd.StdinPipe()
	op, _ := cmd.StdoutPipe()
	w.out = bufio.NewReaderSize(op, 1<<22)
	cmd.Stderr = w.errBuf
	if err := cmd.Start(); err != nil {
		panic(err)
	}
	return w
}

func (s *st) stopWorkers() {
	for i, w := range s.ws {
		if w != nil {
			w.in.Close()
			w.cmd.Wait()
			s.ws[i] = nil
		}
	}
}

type isoJob struct {
	kind    string
	b, key  []byte
	toModel bool
}

type isoRes struct {
	status string // ok | err | panic:<value> | crash-external | crash:<frame> | timeout
	obs    string
	flags  string
	alloc  uint64
	slow   time.Duration
}

func (r isoRes) accepted() bool { return r.status == "ok" }

// crashOwner attributes a fatal out-of-memory error of the worker.  It is charged to gokrb5 only when the
// failing allocation was requested by a gokrb5 frame (no external decoder frame on the stack) AND is large
// (> 32 MiB); a small allocation that fails anywhere is collateral damage of the memory the external NDR
// decoder took just before (the worker runs under a 128 MiB data limit).
func crashOwner(stderr string) string {
	i := strings.Index(stderr, "goroutine 1 ")
	if i < 0 {
		return "unknown"
	}
	var size uint64
	own := ""
	for _, ln := range strings.Split(stderr[i:], "\n")[1:] {
		if ln == "" {
			break
		}
		if strings.HasPrefix(ln, "runtime.mallocgc(0x") && size == 0 {
			h := ln[len("runtime.mallocgc(0x"):]
			if j := strings.IndexAny(h, ",?)"); j > 0 {
				size, _ = strconv.ParseUint(h[:j], 16, 64)
			}
		}
		if strings.HasPrefix(ln, "github.com/jcmturner/rpc/") {
			return "external"
		}
		if own == "" && strings.HasPrefix(ln, "github.com/jcmturner/gokrb5/") {
			own = strings.TrimPrefix(ln, "github.com/jcmturner/gokrb5/v8/")
			if j := strings.LastIndex(own, "("); j > 0 {
				own = own[:j]
			}
		}
	}
	if own == "" || size <= 32<<20 {
		return "external"
	}
	return fmt.Sprintf("%s:alloc>32MiB", own)
}

func measured(kind string) bool {
	return kind == "cbuffers" || kind == "cbuffers-header-only"
}

// runOn executes one job on the worker process of a slot (started on demand, restarted after a crash).
func (s *st) runOn(slot int, j isoJob) isoRes {
	t0 := time.Now()
	if s.ws[slot] == nil {
		s.ws[slot] = startWorker()
	}
	w := s.ws[slot]
	timedOut := false
	tmr := time.AfterFunc(60*time.Second, func() { timedOut = true; w.cmd.Process.Kill() })
	mode := "n"
	if measured(j.kind) {
		mode = "m"
	}
	fmt.Fprintf(w.in, "%s %s %s\n", mode, hexOrDash(j.b), hexOrDash(j.key))
	line, err := w.out.ReadString('\n')
	tmr.Stop()
	var r isoRes
	switch {
	case err != nil:
		w.cmd.Wait()
		s.ws[slot] = nil
		if timedOut {
			r = isoRes{status: "timeout"}
		} else if owner := crashOwner(w.errBuf.String()); owner == "external" {
			r = isoRes{status: "crash-external"}
		} else {
			r = isoRes{status: "crash:" + owner}
		}
	default:
		f := strings.Split(strings.TrimRight(line, "\n"), "\t")
		if len(f) != 4 {
			r = isoRes{status: "crash:protocol"}
		} else {
			a, _ := strconv.ParseUint(f[3], 10, 64)
			r = isoRes{status: f[0], obs: f[1], flags: f[2], alloc: a}
		}
	}
	r.slow = time.Since(t0)
	return r
}

// isoBatch runs the jobs on the pool and records them in job order (the output is deterministic).
func (s *st) isoBatch(jobs []isoJob) []isoRes {
	res := make([]isoRes, len(jobs))
	next := int64(-1)
	var wg sync.WaitGroup
	for k := 0; k < nPool; k++ {
		wg.Add(1)
		go func(slot int) {
			defer wg.Done()
			for {
				i := int(atomic.AddInt64(&next, 1))
				if i >= len(jobs) {
					return
				}
				res[i] = s.runOn(slot, jobs[i])
			}
		}(k)
	}
	wg.Wait()
	for i, j := range jobs {
		s.recordIso(j, res[i])
	}
	return res
}

func (s *st) recordIso(j isoJob, r isoRes) {
	c := s.c
	kind, b, key := j.kind, j.b, j.key
	if os.Getenv("VERIF_C19_TIMING") != "" {
		b := "<1ms"
		switch {
		case r.slow > 100*time.Millisecond:
			b = ">100ms"
		case r.slow > 20*time.Millisecond:
			b = "20-100ms"
		case r.slow > 5*time.Millisecond:
			b = "5-20ms"
		case r.slow > time.Millisecond:
			b = "1-5ms"
		}
		c.Count("timing:" + b + ":" + strings.SplitN(r.status, ":", 2)[0])
	}
	if r.slow > 20*time.Millisecond {
		s.slow += r.slow
	}
	c.Count("run:" + kind)
	switch {
	case r.status == "crash-external":
		// not gokrb5 code: the external NDR decoder died allocating by an unchecked count
		c.Count("skip:external-ndr-fatal-oom:" + kind)
		return
	case strings.HasPrefix(r.status, "crash") || r.status == "timeout":
		c.Check(false, "no-crash", "C19:"+r.status+":"+kind, "the process died or hung ("+r.status+")", hex.EncodeToString(b))
		return
	}
	c.Check(!strings.HasPrefix(r.status, "panic"), "no-panic", "C19:panic:"+kind, r.status, hex.EncodeToString(b))
	if r.accepted() {
		c.Count("accepted:" + kind)
	}
	if j.toModel || r.accepted() {
		if r.flags == "decoder-panic" {
			c.Count("skip:external-decoder-panic")
			return
		}
		c.CaseS("pac_process", jv.L(jv.B(b), jv.B(key), jv.V(r.flags)).String(), r.obs)
		c.Count("model:" + kind)
	}
}

// execIso = exec for one input that may carry non-genuine NDR buffers.
func (s *st) execIso(kind string, b, key []byte, toModel bool) isoRes {
	j := isoJob{kind, b, key, toModel}
	r := s.runOn(0, j)
	s.recordIso(j, r)
	return r
}

func (s *st) randKey(n int) []byte {
	k := make([]byte, n)
	s.c.R.Read(k)
	return k
}

// ---------------------------------------------------------------------------------------------------
// samples
// ---------------------------------------------------------------------------------------------------

type attrs struct {
	eff, full             string
	uid, pgid             uint32
	server, domain, domID string
	logon, pwdLastSet     time.Time
	logoff                time.Time // zero: not checked (the shipped samples all say "never" for LogoffTime and KickOffTime alike)
	sidsExact             []string  // exact GetGroupMembershipSIDs, or
	sidsContain           []string  // a subset that must be present
	minSIDs               int
}

type sample struct {
	name    string
	bufs    []pbuf
	want    *attrs
	ciName  string
	ciTime  time.Time
	hasUPN  bool
	claimsN int // expected number of claims arrays in the first type-13 buffer (-1: none / undecodable)
}

func mustHex(s string) []byte {
	b, err := hex.DecodeString(s)
	if err != nil {
		panic(err)
	}
	return b
}

var attrsGOKRB5 = &attrs{eff: "testuser1", full: "Test1 User1", uid: 1105, pgid: 513, server: "ADDC", domain: "TEST",
	domID: "S-1-5-21-3167651404-3865080224-2280184895",
	logon: time.Date(2017, 5, 6, 15, 53, 11, 825766900, time.UTC), pwdLastSet: time.Date(2017, 5, 6, 7, 23, 8, 968750000, time.UTC),
	sidsExact: []string{"S-1-5-21-3167651404-3865080224-2280184895-513", "S-1-5-21-3167651404-3865080224-2280184895-1108",
		"S-1-5-21-3167651404-3865080224-2280184895-1109", "S-1-5-21-3167651404-3865080224-2280184895-1115",
		"S-1-5-21-3167651404-3865080224-2280184895-1116", "S-1-5-21-3167651404-3865080224-2280184895-1114",
		"S-1-5-21-3167651404-3865080224-2280184895-1111"}}
var attrsMS = &attrs{eff: "lzhu", full: "Liqiang(Larry) Zhu", uid: 2914711, pgid: 513, server: "NTDEV-DC-05", domain: "NTDEV",
	domID: "S-1-5-21-397955417-626881126-188441444",
	logon: time.Date(2006, 4, 28, 1, 42, 50, 925640100, time.UTC), pwdLastSet: time.Date(2006, 3, 18, 10, 44, 54, 837147900, time.UTC),
	sidsContain: []string{"S-1-5-21-397955417-626881126-188441444-3392609", "S-1-5-21-397955417-626881126-188441444-513",
		"S-1-5-21-397955417-626881126-188441444-3018354", "S-1-5-21-773533881-1816936887-355810188-513",
		"S-1-5-21-397955417-626881126-188441444-3101812", "S-1-5-21-397955417-626881126-188441444-3248111"},
	minSIDs: 26 + 12}
var attrsTrust = &attrs{eff: "testuser1", full: "Test1 User1", uid: 1106, pgid: 513, server: "UDC", domain: "USER",
	domID: "S-1-5-21-2284869408-3503417140-1141177250",
	logon: time.Date(2017, 10, 14, 12, 3, 41, 52409900, time.UTC), pwdLastSet: time.Date(2017, 10, 10, 20, 42, 56, 220282300, time.UTC),
	sidsExact: []string{"S-1-5-21-2284869408-3503417140-1141177250-1110", "S-1-5-21-2284869408-3503417140-1141177250-513",
		"S-1-5-21-2284869408-3503417140-1141177250-1109", "S-1-18-1",
		"S-1-5-21-3062750306-1230139592-1973306805-1107", "S-1-5-21-3062750306-1230139592-1973306805-1108"}}

func clientInfoBuf(t time.Time, name string) []byte {
	// FILETIME: 100ns ticks since 1601-01-01
	ft := uint64(t.Unix()+11644473600)*10000000 + uint64(t.Nanosecond()/100)
	b := make([]byte, 10)
	binary.LittleEndian.PutUint64(b, ft)
	rs := []rune(name)
	binary.LittleEndian.PutUint16(b[8:], uint16(2*len(rs)))
	for _, r := range rs {
		b = append(b, byte(r), byte(r>>8))
	}
	return b
}

func samples() []sample {
	var out []sample
	ciT := time.Date(2017, 5, 6, 15, 53, 11, 0, time.UTC)
	w2k := splitPAC(mustHex(testdata.MarshaledPAC_AD_WIN2K_PAC))
	out = append(out, sample{name: "win2k-gokrb5", bufs: w2k, want: attrsGOKRB5, ciName: "testuser1", ciTime: ciT, hasUPN: true, claimsN: -1})
	// the MS-PAC documentation sample
	// (the vector is the inner AuthorizationData { AD-WIN2K-PAC } without the AD-IF-RELEVANT wrapper)
	var a types.AuthorizationData
	if err := a.Unmarshal(mustHex(testdata.MarshaledPAC_AuthorizationData_MS)); err != nil || a[0].ADType != adtype.ADWin2KPAC {
		panic(fmt.Sprint("MS sample: ", err))
	}
	ms := splitPAC(a[0].ADData)
	out = append(out, sample{name: "ms-doc", bufs: ms, want: attrsMS, ciName: "lzhu", ciTime: time.Date(2006, 4, 28, 1, 42, 50, 0, time.UTC), claimsN: -1})
	// PACs assembled from the stand-alone sample buffers
	sig6, sig7 := mustHex(testdata.MarshaledPAC_Server_Signature), mustHex(testdata.MarshaledPAC_KDC_Signature)
	ci := mustHex(testdata.MarshaledPAC_Client_Info)
	upn := mustHex(testdata.MarshaledPAC_UPN_DNS_Info)
	out = append(out, sample{name: "trust", want: attrsTrust, ciName: "testuser1", ciTime: ciT, hasUPN: true, claimsN: -1,
		bufs: []pbuf{{1, mustHex(testdata.MarshaledPAC_Kerb_Validation_Info_Trust)}, {10, ci}, {12, upn}, {6, sig6}, {7, sig7}}})
	out = append(out, sample{name: "ms-kvi-min", want: attrsMS, ciName: "lzhu", ciTime: time.Date(2006, 4, 28, 1, 42, 50, 0, time.UTC), claimsN: -1,
		bufs: []pbuf{{1, mustHex(testdata.MarshaledPAC_Kerb_Validation_Info_MS)}, {10, clientInfoBuf(time.Date(2006, 4, 28, 1, 42, 50, 0, time.UTC), "lzhu")}, {6, sig6}, {7, sig7}}})
	claims := []struct {
		n   string
		hex string
		cnt int
	}{
		{"claims-str", testdata.MarshaledPAC_ClientClaimsInfoStr, 1},
		{"claims-int", testdata.MarshaledPAC_ClientClaimsInfoInt, 1},
		{"claims-multi", testdata.MarshaledPAC_ClientClaimsInfoMulti, 1},
		{"claims-multi-uint", testdata.MarshaledPAC_ClientClaimsInfoMultiUint, 1},
		{"claims-multi-str", testdata.MarshaledPAC_ClientClaimsInfoMultiStr, 1},
		{"claims-xpress-huff", testdata.MarshaledPAC_ClientClaimsInfo_XPRESS_HUFF, -1},
	}
	for _, cl := range claims {
		out = append(out, sample{name: cl.n, want: attrsGOKRB5, ciName: "testuser1", ciTime: ciT, hasUPN: true, claimsN: cl.cnt,
			bufs: []pbuf{{1, mustHex(testdata.MarshaledPAC_Kerb_Validation_Info)}, {10, ci}, {12, upn}, {13, mustHex(cl.hex)}, {6, sig6}, {7, sig7}}})
	}
	return out
}

func sameStrings(a, b []string) bool {
	if len(a) != len(b) {
		return false
	}
	for i := range a {
		if a[i] != b[i] {
			return false
		}
	}
	return true
}

func contains(l []string, s string) bool {
	for _, x := range l {
		if x == s {
			return true
		}
	}
	return false
}

// checkAttrs: attribute faithfulness against the known contents of the sample (test level, partial).
func (s *st) checkAttrs(sm sample, p *pac.PACType, where string) {
	c := s.c
	k := p.KerbValidationInfo
	w := sm.want
	bad := ""
	note := func(f string, ok bool) {
		if !ok && bad == "" {
			bad = f
		}
	}
	note("EffectiveName", k.EffectiveName.Value == w.eff)
	note("FullName", k.FullName.Value == w.full)
	note("UserID", k.UserID == w.uid)
	note("PrimaryGroupID", k.PrimaryGroupID == w.pgid)
	note("LogonServer", k.LogonServer.Value == w.server)
	note("LogonDomainName", k.LogonDomainName.Value == w.domain)
	note("LogonDomainID", k.LogonDomainID.String() == w.domID)
	note("LogOnTime", k.LogOnTime.Time().Equal(w.logon))
	note("PasswordLastSet", k.PasswordLastSet.Time().Equal(w.pwdLastSet))
	if !w.logoff.IsZero() {
		note("LogOffTime", k.LogOffTime.Time().Equal(w.logoff))
	}
	sids := k.GetGroupMembershipSIDs()
	note("GroupMembershipSIDs.independent", sameStrings(sids, expectedSIDs(k)))
	if w.sidsExact != nil {
		note("GroupMembershipSIDs", sameStrings(sids, w.sidsExact))
	} else {
		note("GroupMembershipSIDs.count", len(sids) >= w.minSIDs)
		for _, x := range w.sidsContain {
			note("GroupMembershipSIDs.contains", contains(sids, x))
		}
	}
	c.Check(bad == "", "attrs-match-sample", "C19:attrs:"+where+":"+bad, sm.name+" field "+bad, sm.name)
	ci := p.ClientInfo
	okci := ci.Name == sm.ciName && ci.ClientID.Time().Equal(sm.ciTime) && int(ci.NameLength) == 2*len(sm.ciName)
	c.Check(okci, "clientinfo-match-sample", "C19:attrs:"+where+":clientinfo", fmt.Sprintf("%s: %q %v", sm.name, ci.Name, ci.ClientID.Time()), sm.name)
	if sm.hasUPN {
		u := p.UPNDNSInfo
		c.Check(u != nil && u.UPN == "testuser1@test.gokrb5" && u.DNSDomain == "TEST.GOKRB5", "upn-match-sample", "C19:attrs:"+where+":upn", sm.name, sm.name)
	}
	if sm.claimsN >= 0 {
		cl := p.ClientClaimsInfo
		c.Check(cl != nil && len(cl.ClaimsSet.ClaimsArrays) == sm.claimsN, "claims-match-sample", "C19:attrs:"+where+":claims", sm.name, sm.name)
	} else {
		c.Check(p.ClientClaimsInfo == nil, "claims-absent", "C19:attrs:"+where+":claims-absent", sm.name, sm.name)
	}
}

// ---------------------------------------------------------------------------------------------------
// streams
// ---------------------------------------------------------------------------------------------------

// Run is the entry point of the C19 stream.
func Run(c *hctx.Ctx) {
	s := &st{c: c}
	s.logger = log.New(&s.logBuf, "", 0)
	sms := samples()
	c.Notes = append(c.Notes,
		"structure mode: decode-ok flags of NDR/UPN buffers come from the implementation's own stand-alone decoders (rpc/v2)",
		"a bit flip inside the KDC signature VALUE is not detected by the service (it has no KDC key): MS-PAC behaviour, expected accept",
		"checksum type 12 (des3) maps to an etype but has no entry in the PAC signature-length table: always rejected",
		"attribute comparison against the known contents of the samples is test-level (partial)")

	tm := map[string]time.Duration{}
	timed := func(name string, f func()) {
		t0 := time.Now()
		f()
		tm[name] += time.Since(t0)
	}
	s.streamOriginal()
	for si, sm := range sms {
		timed("genuine", func() { s.streamGenuine(sm) })
		timed("genuine", func() { s.streamDupSIDs(sm) })
		timed("structure", func() { s.streamStructure(sm, si) })
		timed("flips", func() { s.streamFlips(sm, si) })
	}
	timed("malformed", func() { s.streamMalformed(sms) })
	s.stopWorkers()
	timed("parts", func() { s.streamParts() })
	timed("ticket", func() { s.streamTicket(sms) })
	c.Notes = append(c.Notes, fmt.Sprintf("isolated runs slower than 20 ms took %.1fs in total", s.slow.Seconds()))
	c.Notes = append(c.Notes, fmt.Sprintf("stream wall times: genuine %.1fs structure %.1fs flips %.1fs malformed %.1fs parts %.1fs ticket %.1fs",
		tm["genuine"].Seconds(), tm["structure"].Seconds(), tm["flips"].Seconds(), tm["malformed"].Seconds(), tm["parts"].Seconds(), tm["ticket"].Seconds()))
}

// the sample as it is in the repository, with the repository's key (no re-signing)
func (s *st) streamOriginal() {
	c := s.c
	b := mustHex(testdata.MarshaledPAC_AD_WIN2K_PAC)
	kt := keytab.New()
	kt.Unmarshal(mustHex(testdata.KEYTAB_SYSHTTP_TEST_GOKRB5))
	pn, _ := types.ParseSPNString("sysHTTP")
	key, _, err := kt.GetEncryptionKey(pn, "TEST.GOKRB5", 2, 18)
	if err != nil {
		panic(err)
	}
	r := s.exec("original", b, key.KeyValue, true)
	c.Check(r.accepted(), "genuine-accepted", "C19:original-rejected", fmt.Sprint(r.uerr, r.perr), "MarshaledPAC_AD_WIN2K_PAC")
	// our independent signer reproduces the KDC's server signature of the sample bit for bit
	sg := signPAC(splitPAC(b), nil, key.KeyValue, make([]byte, 16))
	c.Check(bytes.Equal(sg.b[sg.srvLo:sg.srvHi], b[sg.srvLo:sg.srvHi]) && len(sg.b) == len(b), "signer-reproduces-sample",
		"C19:signer", "independent signer differs from the sample's server signature", "")
}

func (s *st) signSample(sm sample, srvCT, kdcCT int32, rodc int) signed {
	return signPAC(withSigTypes(sm.bufs, srvCT, kdcCT, rodc), nil, s.randKey(keyLen(srvCT)), s.randKey(keyLen(kdcCT)))
}

// expectedSIDs is an independent statement of MS-PAC group membership: the SIDs of GroupIds (under the logon domain),
// of ExtraSids and of ResourceGroupIds (under the resource group domain), each once, in order of first appearance.
func expectedSIDs(k *pac.KerbValidationInfo) []string {
	var out []string
	seen := map[string]bool{}
	add := func(x string) {
		if !seen[x] {
			seen[x] = true
			out = append(out, x)
		}
	}
	dom := k.LogonDomainID.String()
	for _, g := range k.GroupIDs {
		// GroupIds are not de-duplicated by the implementation: keep its documented behaviour for these
		out = append(out, fmt.Sprintf("%s-%d", dom, g.RelativeID))
		seen[fmt.Sprintf("%s-%d", dom, g.RelativeID)] = true
	}
	for _, e := range k.ExtraSIDs {
		add(e.SID.String())
	}
	rdom := k.ResourceGroupDomainSID.String()
	for _, g := range k.ResourceGroupIDs {
		add(fmt.Sprintf("%s-%d", rdom, g.RelativeID))
	}
	return out
}

// sidImage is the NDR image of an RPC_SID without its conformance count: revision, count, authority, sub-authorities
func sidImage(sid mstypes.RPCSID) []byte {
	b := []byte{sid.Revision, sid.SubAuthorityCount}
	b = append(b, sid.IdentifierAuthority[:]...)
	for _, sa := range sid.SubAuthority {
		b = binary.LittleEndian.AppendUint32(b, sa)
	}
	return b
}

// streamDupSIDs re-signs every sample whose KERB_VALIDATION_INFO carries extra SIDs after making one extra SID a
// duplicate (of a group of the logon domain, or of the extra SID before it): the membership reported must still be
// every distinct SID of the signed PAC - nothing after the duplicate may be dropped.
func (s *st) streamDupSIDs(sm sample) {
	c := s.c
	i1 := firstOf(sm.bufs, 1)
	if i1 < 0 {
		return
	}
	var k pac.KerbValidationInfo
	if p, _ := hctx.Guard(func() { k.Unmarshal(append([]byte{}, sm.bufs[i1].data...)) }); p || len(k.ExtraSIDs) == 0 {
		return
	}
	type variant struct {
		name     string
		old, new []byte
	}
	var vs []variant
	e0 := k.ExtraSIDs[0].SID
	if len(k.GroupIDs) > 0 && len(e0.SubAuthority) > 0 && e0.String()[:strings.LastIndex(e0.String(), "-")] == k.LogonDomainID.String() {
		n := e0
		n.SubAuthority = append(append([]uint32{}, e0.SubAuthority[:len(e0.SubAuthority)-1]...), k.GroupIDs[len(k.GroupIDs)-1].RelativeID)
		vs = append(vs, variant{"extra0=group", sidImage(e0), sidImage(n)})
	}
	if len(k.ExtraSIDs) >= 2 && len(sidImage(k.ExtraSIDs[1].SID)) == len(sidImage(e0)) {
		vs = append(vs, variant{"extra1=extra0", sidImage(k.ExtraSIDs[1].SID), sidImage(e0)})
	}
	for _, v := range vs {
		data := sm.bufs[i1].data
		at := bytes.LastIndex(data, v.old)
		if at < 0 || bytes.Equal(v.old, v.new) {
			continue
		}
		nb := cloneBufs(sm.bufs)
		nd := append([]byte{}, data...)
		copy(nd[at:], v.new)
		nb[i1].data = nd
		var k2 pac.KerbValidationInfo
		if p, _ := hctx.Guard(func() { k2.Unmarshal(append([]byte{}, nd...)) }); p {
			continue
		}
		want := expectedSIDs(&k2)
		if len(want) >= len(expectedSIDs(&k)) && v.name != "extra0=group" {
			continue // the edit did not create a duplicate
		}
		for _, ct := range pacTypes {
			sg := signPAC(withSigTypes(nb, ct, ct, -1), nil, s.randKey(keyLen(ct)), s.randKey(keyLen(ct)))
			r := s.exec("dup-sid", sg.b, sg.srvKey, false)
			c.Check(r.accepted(), "genuine-accepted", fmt.Sprintf("C19:genuine-rejected:type%d", ct), fmt.Sprint(sm.name, " dup-sid ", v.name, " ", r.uerr, r.perr), hex.EncodeToString(sg.b))
			if !r.accepted() || r.p.KerbValidationInfo == nil {
				continue
			}
			got := r.p.KerbValidationInfo.GetGroupMembershipSIDs()
			c.Check(sameStrings(got, want), "membership-is-every-distinct-sid", "C19:attrs:dup-sid:"+v.name,
				fmt.Sprintf("%s: reported %d SIDs, the signed PAC names %d distinct ones", sm.name, len(got), len(want)), hex.EncodeToString(sg.b))
			c.Count("dup-sid:" + v.name)
		}
	}
}

func (s *st) streamGenuine(sm sample) {
	c := s.c
	for _, ct := range pacTypes {
		for _, rodc := range []int{-1, int(c.R.Intn(65536))} {
			kdcCT := pacTypes[c.R.Intn(len(pacTypes))]
			sg := s.signSample(sm, ct, kdcCT, rodc)
			r := s.exec("genuine", sg.b, sg.srvKey, true)
			c.Check(r.accepted(), "genuine-accepted", fmt.Sprintf("C19:genuine-rejected:type%d", ct), fmt.Sprint(sm.name, " ", r.uerr, r.perr), hex.EncodeToString(sg.b))
			if !r.accepted() {
				continue
			}
			s.checkAttrs(sm, r.p, "process")
			wantRODC := 0
			if rodc >= 0 {
				wantRODC = rodc
			}
			c.Check(int(r.p.ServerChecksum.RODCIdentifier) == wantRODC && int(r.p.KDCChecksum.RODCIdentifier) == wantRODC &&
				bytes.Equal(r.p.ServerChecksum.Signature, sg.b[sg.srvLo:sg.srvHi]) && int32(r.p.ServerChecksum.SignatureType) == ct &&
				bytes.Equal(r.p.KDCChecksum.Signature, sg.b[sg.kdcLo:sg.kdcHi]) && int32(r.p.KDCChecksum.SignatureType) == kdcCT,
				"signature-fields-reported", "C19:sigfields", sm.name, hex.EncodeToString(sg.b))
			// the zeroed image the implementation signs is the PAC with exactly the two value fields zeroed
			z := append([]byte{}, sg.b...)
			for i := sg.srvLo; i < sg.srvHi; i++ {
				z[i] = 0
			}
			for i := sg.kdcLo; i < sg.kdcHi; i++ {
				z[i] = 0
			}
			c.Check(bytes.Equal(z, r.p.ZeroSigData), "zeroed-image", "C19:zeroed-image", sm.name, hex.EncodeToString(sg.b))

			// wrong key: another random key, and the right key with one bit flipped
			wk := s.randKey(len(sg.srvKey))
			r2 := s.exec("wrong-key", sg.b, wk, c.R.Intn(4) == 0)
			c.Check(!r2.accepted(), "wrong-key-rejected", "C19:wrong-key-accepted", sm.name, hex.EncodeToString(sg.b))
			nbits := 8 * len(sg.srvKey)
			for bit := 0; bit < nbits; bit++ {
				if c.Quick() && bit%8 != c.R.Intn(8) {
					continue
				}
				fk := append([]byte{}, sg.srvKey...)
				fk[bit/8] ^= 1 << uint(bit%8)
				r3 := s.exec("key-bit-flip", sg.b, fk, c.R.Intn(50) == 0)
				c.Check(!r3.accepted(), "wrong-key-rejected", "C19:key-bitflip-accepted", sm.name, hex.EncodeToString(sg.b))
			}
			// wrong declared type: keep the signature, declare every other type (sizes adjusted so that the
			// buffer still parses), and declare another type for a signature made under that other type's
			// algorithm with the same key bytes
			for _, other := range append(append([]int32{}, pacTypes...), 12, 0, 7, 17, -137, 32771) {
				if other == ct {
					continue
				}
				m := append([]byte{}, sg.b...)
				i6 := firstOf(sg.bufs, 6)
				binary.LittleEndian.PutUint32(m[sg.offs[i6]:], uint32(other))
				r4 := s.exec("wrong-type", m, sg.srvKey, c.R.Intn(8) == 0)
				c.Check(!r4.accepted(), "wrong-type-rejected", fmt.Sprintf("C19:wrong-type-accepted:%d-as-%d", ct, other), sm.name, hex.EncodeToString(m))
			}
		}
	}
	// des3: a correctly computed 20-byte HMAC-SHA1-DES3-KD signature is still rejected (no length entry)
	sg := s.signSample(sm, 12, 16, -1)
	r := s.exec("des3-declared", sg.b, sg.srvKey, true)
	c.Check(!r.accepted(), "des3-declared-rejected", "C19:des3-accepted", sm.name, hex.EncodeToString(sg.b))
}

func perm(c *hctx.Ctx, n int) []int { return c.R.Perm(n) }

func (s *st) streamStructure(sm sample, si int) {
	c := s.c
	cts := pacTypes
	if c.Quick() {
		cts = []int32{pacTypes[si%len(pacTypes)]}
	}
	for _, ct := range cts {
		kdcCT := pacTypes[c.R.Intn(len(pacTypes))]
		base := withSigTypes(sm.bufs, ct, kdcCT, -1)
		srvKey, kdcKey := s.randKey(keyLen(ct)), s.randKey(keyLen(kdcCT))
		orig := signPAC(base, nil, srvKey, kdcKey)
		n := len(base)

		// removal of each buffer: re-signed, and not re-signed (old signature values kept)
		for i := 0; i < n; i++ {
			rem := append(cloneBufs(orig.bufs[:i]), cloneBufs(orig.bufs[i+1:])...)
			mandatory := base[i].typ == 1 || base[i].typ == 6 || base[i].typ == 7 || base[i].typ == 10
			sg := signPAC(rem, nil, srvKey, kdcKey)
			r := s.exec("remove-resigned", sg.b, srvKey, true)
			if mandatory {
				c.Check(!r.accepted(), "removed-mandatory-rejected", fmt.Sprintf("C19:missing-%d-accepted", base[i].typ), sm.name, hex.EncodeToString(sg.b))
			} else {
				c.Check(r.accepted(), "removed-optional-resigned-accepted", fmt.Sprintf("C19:missing-optional-%d-rejected", base[i].typ), sm.name, hex.EncodeToString(sg.b))
			}
			raw, _ := buildPAC(rem, nil)
			r = s.exec("remove-unsigned", raw, srvKey, true)
			c.Check(!r.accepted(), "unresigned-change-rejected", "C19:remove-unsigned-accepted", sm.name, hex.EncodeToString(raw))
		}
		// duplication of each buffer: the copy is altered (so that "first of its type wins" is visible),
		// placed after the original or before it
		for i := 0; i < n; i++ {
			for _, before := range []bool{false, true} {
				dup := pbuf{base[i].typ, append([]byte{}, orig.bufs[i].data...)}
				switch dup.typ {
				case 1:
					// the duplicate is a different user's KERB_VALIDATION_INFO
					if sm.want == attrsTrust {
						dup.data = mustHex(testdata.MarshaledPAC_Kerb_Validation_Info)
					} else {
						dup.data = mustHex(testdata.MarshaledPAC_Kerb_Validation_Info_Trust)
					}
				case 10:
					dup.data = clientInfoBuf(time.Date(2020, 1, 2, 3, 4, 5, 0, time.UTC), "someoneelse")
				case 6, 7:
					dup.data[4] ^= 0x55
				}
				var bs []pbuf
				if before {
					bs = append(append(cloneBufs(base[:i]), dup), cloneBufs(base[i:])...)
				} else {
					bs = append(append(cloneBufs(base[:i+1]), dup), cloneBufs(base[i+1:])...)
				}
				// the signer signs the first buffer of each signature type: if the altered signature copy comes
				// first it is the one that counts, and it is (re)computed by the signer, so the PAC is valid
				sg := signPAC(bs, nil, srvKey, kdcKey)
				r := s.exec("dup-resigned", sg.b, srvKey, true)
				c.Check(r.accepted(), "dup-resigned-accepted", fmt.Sprintf("C19:dup-%d-rejected", dup.typ), sm.name, hex.EncodeToString(sg.b))
				if r.accepted() {
					k := r.p.KerbValidationInfo
					ci := r.p.ClientInfo
					switch {
					case dup.typ == 1 && before:
						// the altered copy is first: it is the one reported
						c.Check(k.UserID != sm.want.uid, "first-of-type-wins", "C19:dup-kvi-order", sm.name, hex.EncodeToString(sg.b))
					case dup.typ == 10 && before:
						c.Check(ci.Name == "someoneelse", "first-of-type-wins", "C19:dup-ci-order", sm.name, hex.EncodeToString(sg.b))
					default:
						c.Check(k.UserID == sm.want.uid && ci.Name == sm.ciName, "first-of-type-wins", "C19:dup-order", sm.name, hex.EncodeToString(sg.b))
					}
				}
				// not re-signed: the old signature values are kept
				old := cloneBufs(bs)
				for j := range old {
					if old[j].typ == 6 {
						copy(old[j].data[4:], orig.b[orig.srvLo:orig.srvHi])
					}
					if old[j].typ == 7 {
						copy(old[j].data[4:], orig.b[orig.kdcLo:orig.kdcHi])
					}
				}
				raw, _ := buildPAC(old, nil)
				r = s.exec("dup-unsigned", raw, srvKey, c.R.Intn(3) == 0)
				c.Check(!r.accepted(), "unresigned-change-rejected", "C19:dup-unsigned-accepted", sm.name, hex.EncodeToString(raw))
			}
		}
		// permuted table order and permuted data order
		np := 6
		if c.Quick() {
			np = 2
		}
		for k := 0; k < np; k++ {
			tp := perm(c, n)
			bs := make([]pbuf, n)
			for i, j := range tp {
				bs[i] = pbuf{base[j].typ, append([]byte{}, base[j].data...)}
			}
			var dord []int
			if k%2 == 1 {
				dord = perm(c, n)
			}
			sg := signPAC(bs, dord, srvKey, kdcKey)
			r := s.exec("perm-resigned", sg.b, srvKey, true)
			c.Check(r.accepted(), "perm-resigned-accepted", "C19:perm-rejected", sm.name, hex.EncodeToString(sg.b))
			if r.accepted() {
				s.checkAttrs(sm, r.p, "perm")
			}
			// same permutation with the signature values of the unpermuted PAC
			old := cloneBufs(bs)
			same := dord == nil
			for i, j := range tp {
				if i != j {
					same = false
				}
				if old[i].typ == 6 {
					copy(old[i].data[4:], orig.b[orig.srvLo:orig.srvHi])
				}
				if old[i].typ == 7 {
					copy(old[i].data[4:], orig.b[orig.kdcLo:orig.kdcHi])
				}
			}
			raw, _ := buildPAC(old, dord)
			if !same && !bytes.Equal(raw, orig.b) {
				r = s.exec("perm-unsigned", raw, srvKey, c.R.Intn(3) == 0)
				c.Check(!r.accepted(), "unresigned-change-rejected", "C19:perm-unsigned-accepted", sm.name, hex.EncodeToString(raw))
			}
		}
	}
}

// streamFlips: every single-bit flip of the signed PAC.  Expected: rejected, except inside the KDC signature
// VALUE (the service cannot verify it: accepted, by MS-PAC design).  A flip in the server signature value is
// rejected like every other one.
func (s *st) streamFlips(sm sample, si int) {
	c := s.c
	cts := pacTypes
	if c.Quick() {
		// every sample under one type: all five types occur (twice)
		cts = []int32{pacTypes[si%len(pacTypes)]}
	}
	if !c.Quick() && si >= 4 {
		// thorough: all five types for the four distinct KVI samples, one type for the claims samples
		cts = []int32{pacTypes[si%len(pacTypes)]}
	}
	for cti, ct := range cts {
		kdcCT := pacTypes[c.R.Intn(len(pacTypes))]
		sg := s.signSample(sm, ct, kdcCT, -1)
		i6, i7 := firstOf(sg.bufs, 6), firstOf(sg.bufs, 7)
		structural := func(pos int) bool {
			return pos < 8+16*len(sg.bufs) ||
				(pos >= sg.offs[i6] && pos < sg.offs[i6]+4) ||
				(pos >= sg.offs[i7] && pos < sg.offs[i7]+4)
		}
		type flipJob struct {
			pos, bit int
			kind     string
			inKDC    bool
		}
		var fj []flipJob
		var jobs []isoJob
		inNDR := func(pos int) bool {
			for i, bf := range sg.bufs {
				switch bf.typ {
				case 1, 11, 13, 14, 15:
					if pos >= sg.offs[i] && pos < sg.offs[i]+len(bf.data) {
						return true
					}
				}
			}
			return false
		}
		for pos := 0; pos < len(sg.b); pos++ {
			if c.Quick() && inNDR(pos) && sg.bufs[0].typ == 1 && pos >= sg.offs[0] && pos < sg.offs[0]+len(sg.bufs[0].data) && (cti > 0 || si >= 3) {
				// quick tier: the KERB_VALIDATION_INFO bytes are flipped once per distinct KVI (sample 3 carries
				// the KVI of sample 1, samples 4.. the KVI of sample 0); every such flip costs a worker round
				// trip and, for many, a large allocation of the external decoder
				continue
			}
			pick, pick2 := -1, -1
			if c.Quick() {
				pick = c.R.Intn(8)
				if structural(pos) {
					pick2 = c.R.Intn(8) // header, table and declared types: two bits per byte
				}
			}
			for bit := 0; bit < 8; bit++ {
				if pick >= 0 && bit != pick && bit != pick2 {
					continue
				}
				m := append([]byte{}, sg.b...)
				m[pos] ^= 1 << uint(bit)
				inKDC := pos >= sg.kdcLo && pos < sg.kdcHi
				inSrv := pos >= sg.srvLo && pos < sg.srvHi
				kind := "flip"
				switch {
				case inKDC:
					kind = "flip-kdc-value"
				case inSrv:
					kind = "flip-srv-value"
				case structural(pos):
					kind = "flip-structure"
				}
				fj = append(fj, flipJob{pos, bit, kind, inKDC})
				jobs = append(jobs, isoJob{kind, m, sg.srvKey, c.R.Intn(50) == 0})
			}
		}
		// every flip runs in a worker process: a flipped pointer or count inside an NDR buffer (or a table
		// entry that now points an NDR decoder at other bytes) derails the external decoder, which then
		// allocates by whatever it reads next
		res := s.isoBatch(jobs)
		for i, f := range fj {
			r, m := res[i], jobs[i].b
			where := fmt.Sprintf("%s@%d.%d", hex.EncodeToString(sg.b), f.pos, f.bit)
			if r.status == "crash-external" {
				// the external NDR decoder died before the signature was looked at: show at least that the
				// signature no longer matches (signature fields are where they were: the flip is elsewhere)
				if !structural(f.pos) && !f.inKDC { // a flipped KDC signature VALUE leaves the server signature valid by design
					z := append([]byte{}, m...)
					for i := sg.srvLo; i < sg.srvHi; i++ {
						z[i] = 0
					}
					for i := sg.kdcLo; i < sg.kdcHi; i++ {
						z[i] = 0
					}
					et, _ := crypto.GetChksumEtype(ct)
					c.Check(!et.VerifyChecksum(sg.srvKey, z, m[sg.srvLo:sg.srvHi], keyusage.KERB_NON_KERB_CKSUM_SALT),
						"bit-flip-signature-mismatch(processing died in external decoder)", "C19:bitflip-sig-still-valid", sm.name, where)
				}
				continue
			}
			if strings.HasPrefix(r.status, "crash") || r.status == "timeout" {
				continue // already recorded as a no-crash failure
			}
			if f.inKDC {
				c.Check(r.accepted(), "kdc-signature-value-not-checked-by-service", "C19:kdc-flip-rejected", sm.name, where)
			} else {
				c.Check(!r.accepted(), "bit-flip-rejected", fmt.Sprintf("C19:bitflip-accepted:%s", f.kind), fmt.Sprintf("%s type %d byte %d bit %d", sm.name, ct, f.pos, f.bit), where)
			}
		}
	}
}

func allocDelta(f func()) uint64 {
	var m0, m1 runtime.MemStats
	runtime.ReadMemStats(&m0)
	f()
	runtime.ReadMemStats(&m1)
	return m1.TotalAlloc - m0.TotalAlloc
}

// streamMalformed: table fields at and around every boundary, truncations, random garbage.
func (s *st) streamMalformed(sms []sample) {
	c := s.c
	nS := len(sms)
	if c.Quick() {
		nS = 2
	}
	for si := 0; si < nS; si++ {
		sm := sms[si]
		ct := pacTypes[c.R.Intn(len(pacTypes))]
		sg := s.signSample(sm, ct, ct, -1)
		L := uint64(len(sg.b))
		n := len(sg.bufs)
		// every truncation
		for l := 0; l <= len(sg.b); l++ {
			if c.Quick() && l > 8+16*n+8 && l%7 != 0 && l < len(sg.b)-40 {
				continue
			}
			s.execIso("truncated", sg.b[:l], sg.srvKey, true)
		}
		// the buffer count
		for _, cb := range []uint64{0, 1, uint64(n - 1), uint64(n + 1), (L - 8) / 16, (L-8)/16 + 1, 0xffff, 0x0fffffff, 0x7fffffff, 0x80000000, 0xffffffff} {
			m := append([]byte{}, sg.b...)
			binary.LittleEndian.PutUint32(m, uint32(cb))
			r := s.execIso("cbuffers", m, sg.srvKey, true)
			c.Check(r.alloc < 64*L+(1<<20), "allocation-bounded-by-input", "C19:alloc:cbuffers", fmt.Sprintf("cBuffers=%d: Unmarshal allocated %d bytes for a %d byte PAC", cb, r.alloc, L), hex.EncodeToString(m[:8]))
			// header only
			h := append([]byte{}, m[:8]...)
			r = s.execIso("cbuffers-header-only", h, sg.srvKey, true)
			c.Check(r.alloc < (1<<20), "allocation-bounded-by-input", "C19:alloc:cbuffers", fmt.Sprintf("cBuffers=%d: Unmarshal allocated %d bytes for an 8 byte PAC", cb, r.alloc), hex.EncodeToString(h))
		}
		// offsets and sizes of every table entry
		for i := 0; i < n; i++ {
			off, sz := uint64(sg.offs[i]), uint64(len(sg.bufs[i].data))
			offs := []uint64{0, 8, off - 1, off + 1, L - sz, L - sz + 1, L - 1, L, L + 1, 0xffffffff, 1 << 32, 1<<63 - 1, 1 << 63, ^uint64(0) - sz + 1, ^uint64(0)}
			for _, o := range offs {
				m := append([]byte{}, sg.b...)
				binary.LittleEndian.PutUint64(m[8+16*i+8:], o)
				s.execIso("offset", m, sg.srvKey, true)
			}
			sizes := []uint64{0, 1, 3, 4, 5, sz - 1, sz + 1, L - off, L - off + 1, L, 0x7fffffff, 0x80000000, 0xffffffff}
			for _, z := range sizes {
				m := append([]byte{}, sg.b...)
				binary.LittleEndian.PutUint32(m[8+16*i+4:], uint32(z))
				// (an unchecked make([]byte, CBBufferSize) shows as a crash of the 128 MiB worker or as a panic)
				s.execIso("size", m, sg.srvKey, true)
			}
			// every other ulType 0..20 for this entry (re-typed buffers: decoders see foreign bytes)
			for ty := uint32(0); ty <= 20; ty++ {
				m := append([]byte{}, sg.b...)
				binary.LittleEndian.PutUint32(m[8+16*i:], ty)
				s.execIso("retyped", m, sg.srvKey, true)
			}
		}
		// signature buffers overlapping each other, the table, or other buffers
		i6, i7 := firstOf(sg.bufs, 6), firstOf(sg.bufs, 7)
		for k := 0; k < 40; k++ {
			m := append([]byte{}, sg.b...)
			e := []int{i6, i7}[c.R.Intn(2)]
			o := uint64(c.R.Intn(len(m)))
			if c.R.Intn(2) == 0 {
				o = uint64(sg.offs[i6] + c.R.Intn(40) - 10)
			}
			binary.LittleEndian.PutUint64(m[8+16*e+8:], o)
			s.execIso("overlap", m, sg.srvKey, true)
		}
		// random byte substitutions in header + table
		nr := 300
		if c.Quick() {
			nr = 60
		}
		for k := 0; k < nr; k++ {
			m := append([]byte{}, sg.b...)
			for j := 0; j < 1+c.R.Intn(3); j++ {
				m[c.R.Intn(8+16*n)] = byte(c.R.Intn(256))
			}
			s.execIso("table-garbage", m, sg.srvKey, true)
		}
	}
	// pure garbage
	ng := 2000
	if c.Quick() {
		ng = 300
	}
	for k := 0; k < ng; k++ {
		m := make([]byte, c.R.Intn(120))
		c.R.Read(m)
		if len(m) >= 4 && c.R.Intn(2) == 0 {
			binary.LittleEndian.PutUint32(m, uint32(c.R.Intn(6)))
		}
		s.execIso("garbage", m, s.randKey(16), true)
	}
}

// streamParts: PACType.Unmarshal, SignatureData.Unmarshal and ClientInfo.Unmarshal on their own (no crypto
// on the model side).
func (s *st) streamParts() {
	c := s.c
	// header + table: counts around what the input can hold (larger counts go through the worker process in
	// streamMalformed: an unrepaired Unmarshal would allocate gigabytes for them)
	nu := 3000
	if c.Quick() {
		nu = 600
	}
	for k := 0; k < nu; k++ {
		n := c.R.Intn(7)
		l := 8 + 16*n + c.R.Intn(20) - 4
		if c.R.Intn(4) == 0 {
			l = c.R.Intn(12)
		}
		if l < 0 {
			l = 0
		}
		b := make([]byte, l)
		c.R.Read(b)
		if l >= 4 {
			cb := n
			if c.R.Intn(3) == 0 {
				cb = n + c.R.Intn(5) - 2
			}
			if cb < 0 {
				cb = 0
			}
			binary.LittleEndian.PutUint32(b, uint32(cb))
		}
		var p pac.PACType
		var err error
		pk, pv := hctx.Guard(func() { err = p.Unmarshal(append([]byte{}, b...)) })
		c.Check(!pk, "no-panic", "C19:panic:PACType.Unmarshal", fmt.Sprint(pv), hex.EncodeToString(b))
		obs := jv.Err()
		if pk {
			obs = jv.Panic()
		} else if err == nil {
			es := make([]jv.V, len(p.Buffers))
			okl := int(p.CBuffers) == len(p.Buffers) && 8+16*len(p.Buffers) <= len(b)
			for i, e := range p.Buffers {
				es[i] = jv.L(jv.I(int64(e.ULType)), jv.I(int64(e.CBBufferSize)), jv.B(binary.LittleEndian.AppendUint64(nil, e.Offset)))
				okl = okl && e.ULType == binary.LittleEndian.Uint32(b[8+16*i:]) && e.CBBufferSize == binary.LittleEndian.Uint32(b[8+16*i+4:]) &&
					e.Offset == binary.LittleEndian.Uint64(b[8+16*i+8:])
			}
			c.Check(okl, "table-read-at-fixed-positions", "C19:table-layout", "", hex.EncodeToString(b))
			obs = jv.Ok(jv.I(int64(p.CBuffers)), jv.I(int64(p.Version)), jv.L(es...))
		} else if l >= 8 {
			c.Check(8+16*int(binary.LittleEndian.Uint32(b)) > l, "table-parse-complete", "C19:table-parse", "a table that fits was rejected", hex.EncodeToString(b))
		}
		c.Case("pac_unmarshal", jv.B(b), obs)
		c.Count("parts:unmarshal")
	}
	types_ := []uint32{15, 16, 19, 20, 0xffffff76, 12, 0, 1, 7, 17, 18, 0xffffff75, 0xffffff77, 0x8003, 0xffffffff}
	for _, ty := range types_ {
		for l := 0; l <= 34; l++ {
			b := make([]byte, l)
			c.R.Read(b)
			if l >= 4 {
				binary.LittleEndian.PutUint32(b, ty)
			} else {
				copy(b, []byte{byte(ty), byte(ty >> 8), byte(ty >> 16)}[:l])
			}
			var k pac.SignatureData
			var zb []byte
			var err error
			pk, pv := hctx.Guard(func() { zb, err = k.Unmarshal(append([]byte{}, b...)) })
			c.Check(!pk, "no-panic", "C19:panic:SignatureData.Unmarshal", fmt.Sprint(pv), hex.EncodeToString(b))
			obs := jv.Err()
			if pk {
				obs = jv.Panic()
			} else if err == nil {
				obs = jv.Ok(jsig(&k), jv.B(zb))
				// direct oracle: length by declared type; zeroed copy differs from the input only in the value
				want := macLen(int32(ty))
				if ty == 12 {
					want = 0
				}
				okz := len(zb) == len(b) && len(k.Signature) == want
				for i := range zb {
					if i >= 4 && i < 4+want {
						okz = okz && zb[i] == 0
					} else {
						okz = okz && zb[i] == b[i]
					}
				}
				c.Check(okz, "signature-length-by-declared-type", "C19:siglen", fmt.Sprintf("type %d len %d", int32(ty), l), hex.EncodeToString(b))
			} else {
				c.Check(l < 4+macLen(int32(ty)) || l < 4, "signature-parse-complete", "C19:sig-parse", fmt.Sprintf("type %d len %d rejected", int32(ty), l), hex.EncodeToString(b))
			}
			c.Case("sig_unmarshal", jv.B(b), obs)
			c.Count("parts:sig")
		}
	}
	// PAC_CLIENT_INFO
	names := []string{"", "a", "testuser1", "Ünïcödé-ユーザー", "x߿yࠀz￿", string(make([]rune, 300))}
	nci := 1500
	if c.Quick() {
		nci = 400
	}
	for k := 0; k < nci; k++ {
		var b []byte
		switch k % 4 {
		case 0:
			b = clientInfoBuf(time.Unix(int64(c.R.Uint32()), 0), names[c.R.Intn(len(names))])
		case 1: // raw 16-bit units including surrogate halves
			n := c.R.Intn(12)
			b = make([]byte, 10+2*n)
			c.R.Read(b)
			binary.LittleEndian.PutUint16(b[8:], uint16(2*n))
			for i := 0; i < n; i++ {
				if c.R.Intn(3) == 0 {
					binary.LittleEndian.PutUint16(b[10+2*i:], uint16(0xd7fe+c.R.Intn(0x805)))
				}
			}
		case 2: // length field disagrees with the data
			b = clientInfoBuf(time.Unix(0, 0), names[c.R.Intn(3)])
			binary.LittleEndian.PutUint16(b[8:], uint16(int(binary.LittleEndian.Uint16(b[8:]))+c.R.Intn(7)-3))
		default:
			b = make([]byte, c.R.Intn(24))
			c.R.Read(b)
		}
		if c.R.Intn(5) == 0 && len(b) > 0 {
			b = b[:c.R.Intn(len(b))]
		}
		var ci pac.ClientInfo
		var err error
		pk, pv := hctx.Guard(func() { err = ci.Unmarshal(append([]byte{}, b...)) })
		c.Check(!pk, "no-panic", "C19:panic:ClientInfo.Unmarshal", fmt.Sprint(pv), hex.EncodeToString(b))
		obs := jv.Err()
		if pk {
			obs = jv.Panic()
		} else if err == nil {
			obs = jv.Ok(jv.L(jv.I(int64(ci.ClientID.LowDateTime)), jv.I(int64(ci.ClientID.HighDateTime)), jv.I(int64(ci.NameLength)), jv.S(ci.Name)))
		}
		c.Case("client_info", jv.B(b), obs)
		c.Count("parts:clientinfo")
	}
	// UPN_DNS_INFO: no panic for any offsets / lengths (fix-2); not modelled
	upn := mustHex(testdata.MarshaledPAC_UPN_DNS_Info)
	vals := []uint16{0, 1, 2, 15, 16, 17, 41, 42, 43, 64, 86, 87, 88, 89, 0x7fff, 0x8000, 0xfff0, 0xffff}
	for f := 0; f < 4; f++ {
		for _, v := range vals {
			for _, v2 := range vals {
				if c.Quick() && c.R.Intn(3) != 0 {
					continue
				}
				m := append([]byte{}, upn...)
				binary.LittleEndian.PutUint16(m[2*f:], v)
				binary.LittleEndian.PutUint16(m[2*((f+1)%4):], v2)
				var k pac.UPNDNSInfo
				pk, pv := hctx.Guard(func() { k.Unmarshal(m) })
				c.Check(!pk, "no-panic", "C19:panic:UPNDNSInfo.Unmarshal", fmt.Sprint(pv), hex.EncodeToString(m[:12]))
				c.Count("parts:upn")
			}
		}
	}
	// a > 64 KiB UPN_DNS_INFO buffer: 16-bit offset + length must not wrap
	big := append(append([]byte{}, upn...), make([]byte, 70000)...)
	binary.LittleEndian.PutUint16(big[0:], 0xffff)
	binary.LittleEndian.PutUint16(big[2:], 0x8000)
	var k pac.UPNDNSInfo
	pk, pv := hctx.Guard(func() { k.Unmarshal(big) })
	c.Check(!pk, "no-panic", "C19:panic:UPNDNSInfo.Unmarshal", fmt.Sprint(pv), "70KiB buffer, offset 0x8000 length 0xffff")
}

// ---------------------------------------------------------------------------------------------------
// Ticket.GetPACType and service.VerifyAPREQ with PAC-bearing tickets minted with gokrb5's own types
// ---------------------------------------------------------------------------------------------------

func adIfRelevantPAC(pacBytes []byte) types.AuthorizationData {
	inner := types.AuthorizationData{{ADType: adtype.ADWin2KPAC, ADData: pacBytes}}
	ib, err := asn1.Marshal(inner)
	if err != nil {
		panic(err)
	}
	return types.AuthorizationData{{ADType: adtype.ADIfRelevant, ADData: ib}}
}

// withEditedTimes: the sample with LogoffTime and KickOffTime of its KERB_VALIDATION_INFO rewritten to two different
// moments (logon hours restricted, no forced logoff), so that what is reported as logoff time can only come from the
// LogoffTime field.  The FILETIME fields follow the 20 bytes of NDR headers and top-level pointer: LogonTime,
// LogoffTime, KickOffTime, ...
func withEditedTimes(sm sample) (sample, bool) {
	i1 := firstOf(sm.bufs, 1)
	if i1 < 0 || len(sm.bufs[i1].data) < 44 || sm.want == nil {
		return sm, false
	}
	var k pac.KerbValidationInfo
	if p, _ := hctx.Guard(func() { k.Unmarshal(append([]byte{}, sm.bufs[i1].data...)) }); p {
		return sm, false
	}
	img := make([]byte, 8)
	binary.LittleEndian.PutUint32(img, k.LogOffTime.LowDateTime)
	binary.LittleEndian.PutUint32(img[4:], k.LogOffTime.HighDateTime)
	if !bytes.Equal(sm.bufs[i1].data[28:36], img) {
		return sm, false // not where this sample keeps it
	}
	ft := func(t time.Time) []byte {
		v := uint64(t.Unix())*10000000 + 116444736000000000
		b := make([]byte, 8)
		binary.LittleEndian.PutUint64(b, v)
		return b
	}
	logoff := time.Date(2024, 3, 4, 18, 0, 0, 0, time.UTC)
	nb := cloneBufs(sm.bufs)
	nd := append([]byte{}, sm.bufs[i1].data...)
	copy(nd[28:36], ft(logoff))
	copy(nd[36:44], ft(time.Date(2031, 1, 1, 0, 0, 0, 0, time.UTC)))
	nb[i1].data = nd
	w := *sm.want
	w.logoff = logoff
	out := sm
	out.name, out.bufs, out.want = sm.name+"+times", nb, &w
	return out, true
}

func (s *st) streamTicket(sms []sample) {
	c := s.c
	for _, sm := range sms[:2] {
		if e, ok := withEditedTimes(sm); ok {
			sms = append([]sample{e}, sms...)
			c.Count("ticket:sample-with-edited-times")
		}
	}
	sname := types.PrincipalName{NameType: nametype.KRB_NT_PRINCIPAL, NameString: []string{"HTTP", "host.test.gokrb5"}}
	cname := types.PrincipalName{NameType: nametype.KRB_NT_PRINCIPAL, NameString: []string{"testuser1"}}
	realm := "TEST.GOKRB5"
	for _, ct := range pacTypes {
		et := etypeOf(ct)
		kt := keytab.New()
		pw := hex.EncodeToString(s.randKey(8))
		if err := kt.AddEntry("HTTP/host.test.gokrb5", realm, pw, time.Now(), 1, et); err != nil {
			c.Count("ticket:skip-addentry")
			continue
		}
		skey, _, err := kt.GetEncryptionKey(sname, realm, 1, et)
		if err != nil {
			c.Count("ticket:skip-getkey")
			continue
		}
		nS := len(sms)
		if c.Quick() {
			nS = 4
		}
		for si := 0; si < nS; si++ {
			sm := sms[si]
			sg := signPAC(withSigTypes(sm.bufs, ct, ct, -1), nil, skey.KeyValue, s.randKey(keyLen(ct)))
			variants := []struct {
				name   string
				ad     types.AuthorizationData
				isPAC  bool
				accept bool
			}{
				{"valid", adIfRelevantPAC(sg.b), true, true},
				{"flipped", adIfRelevantPAC(func() []byte { m := append([]byte{}, sg.b...); m[sg.offs[firstOf(sg.bufs, 10)]+2] ^= 4; return m }()), true, false},
				{"srvsig-flipped", adIfRelevantPAC(func() []byte { m := append([]byte{}, sg.b...); m[sg.srvLo] ^= 1; return m }()), true, false},
				{"truncated", adIfRelevantPAC(sg.b[:len(sg.b)-30]), true, false},
				{"bad-offset", adIfRelevantPAC(func() []byte { m := append([]byte{}, sg.b...); m[8+8+3] = 0x40; return m }()), true, false},
				// the PACTYPE header itself does not decode: still a PAC, and the request is refused
				{"header-count-flipped", adIfRelevantPAC(func() []byte { m := append([]byte{}, sg.b...); m[2] ^= 0x10; return m }()), true, false},
				{"truncated-in-header", adIfRelevantPAC(sg.b[:6]), true, false},
				{"truncated-in-table", adIfRelevantPAC(sg.b[:8+16+5]), true, false},
				{"no-pac", nil, false, true},
				{"empty-if-relevant", types.AuthorizationData{{ADType: adtype.ADIfRelevant, ADData: []byte{0x30, 0x00}}}, false, true},
				{"garbage-if-relevant", types.AuthorizationData{{ADType: adtype.ADIfRelevant, ADData: []byte{0x04, 0x01, 0x00}}}, false, true},
				{"other-adtype-first", append(types.AuthorizationData{{ADType: 999, ADData: []byte{1, 2, 3}}}, adIfRelevantPAC(sg.b)...), true, true},
			}
			for _, v := range variants {
				// --- Ticket.GetPACType on a decrypted ticket
				tkt := messages.Ticket{TktVNO: iana.PVNO, Realm: realm, SName: sname,
					EncPart:          types.EncryptedData{EType: et, KVNO: 1},
					DecryptedEncPart: messages.EncTicketPart{AuthorizationData: v.ad}}
				var isPAC bool
				var p pac.PACType
				var gerr error
				pk, pv := hctx.Guard(func() { isPAC, p, gerr = tkt.GetPACType(kt, nil, s.pickLogger()) })
				c.Check(!pk, "no-panic", "C19:panic:GetPACType:"+v.name, fmt.Sprint(pv), v.name)
				c.Count("ticket:getpactype:" + v.name)
				if !pk {
					c.Check(isPAC == v.isPAC && (gerr == nil) == v.accept, "getpactype-verdict", "C19:getpactype:"+v.name,
						fmt.Sprintf("%s type %d: isPAC=%v err=%v", sm.name, ct, isPAC, gerr), v.name)
					if isPAC && gerr == nil && v.isPAC {
						s.checkAttrs(sm, &p, "getpactype")
					}
				}
				// --- service.VerifyAPREQ with a real encrypted ticket and authenticator
				s.verifyAPREQ(sm, v.name, v.ad, v.isPAC, v.accept, kt, skey, cname, sname, realm, et)
			}
		}
	}
}

func (s *st) verifyAPREQ(sm sample, vname string, ad types.AuthorizationData, isPAC, accept bool, kt *keytab.Keytab,
	skey types.EncryptionKey, cname, sname types.PrincipalName, realm string, et int32) {
	c := s.c
	etyp, err := crypto.GetEtype(et)
	if err != nil {
		return
	}
	sessionKey, err := types.GenerateEncryptionKey(etyp)
	if err != nil {
		return
	}
	now := time.Now().UTC()
	etp := messages.EncTicketPart{Flags: types.NewKrbFlags(), Key: sessionKey, CRealm: realm, CName: cname,
		Transited: messages.TransitedEncoding{}, AuthTime: now, StartTime: now, EndTime: now.Add(24 * time.Hour),
		RenewTill: now.Add(48 * time.Hour), AuthorizationData: ad}
	b, err := asn1.Marshal(etp)
	if err != nil {
		c.Count("ticket:skip-marshal")
		return
	}
	b = asn1tools.AddASNAppTag(b, asnAppTag.EncTicketPart)
	ed, err := crypto.GetEncryptedData(b, skey, keyusage.KDC_REP_TICKET, 1)
	if err != nil {
		c.Count("ticket:skip-encrypt")
		return
	}
	tkt := messages.Ticket{TktVNO: iana.PVNO, Realm: realm, SName: sname, EncPart: ed}
	auth, _ := types.NewAuthenticator(realm, cname)
	// distinct (ctime, cusec) per request so that the service's replay cache never sees two equal authenticators
	s.nAuth++
	auth.CTime = now.Truncate(time.Second)
	auth.Cusec = s.nAuth % 1000000
	auth.GenerateSeqNumberAndSubKey(et, etyp.GetKeyByteSize())
	apreq, err := messages.NewAPReq(tkt, sessionKey, auth)
	if err != nil {
		c.Count("ticket:skip-apreq")
		return
	}
	var settings *service.Settings
	if c.R.Intn(2) == 0 {
		settings = service.NewSettings(kt) // default: no logger configured
	} else {
		s.logBuf.Reset()
		settings = service.NewSettings(kt, service.Logger(s.logger))
	}
	var ok bool
	var verr error
	pk, pv := hctx.Guard(func() {
		var ok2 bool
		ok2, creds, e := service.VerifyAPREQ(&apreq, settings)
		ok, verr = ok2, e
		if ok2 && e == nil && isPAC {
			adc := creds.GetADCredentials()
			w := sm.want
			good := adc.EffectiveName == w.eff && adc.FullName == w.full && adc.UserID == int(w.uid) && adc.PrimaryGroupID == int(w.pgid) &&
				adc.LogonServer == w.server && adc.LogonDomainName == w.domain && adc.LogonDomainID == w.domID &&
				adc.LogOnTime.Equal(w.logon) && adc.PasswordLastSet.Equal(w.pwdLastSet)
			if w.sidsExact != nil {
				good = good && sameStrings(adc.GroupMembershipSIDs, w.sidsExact)
				az := append([]string{}, creds.AuthzAttributes()...)
				sort.Strings(az)
				ex := append([]string{}, w.sidsExact...)
				sort.Strings(ex)
				good = good && sameStrings(az, ex)
			} else {
				good = good && len(adc.GroupMembershipSIDs) >= w.minSIDs
				for _, x := range w.sidsContain {
					good = good && contains(adc.GroupMembershipSIDs, x)
				}
			}
			good = good && creds.UserName() == w.eff && creds.DisplayName() == w.full
			if !w.logoff.IsZero() {
				good = good && adc.LogOffTime.Equal(w.logoff)
			}
			c.Check(good, "adcredentials-match-sample", "C19:attrs:verifyapreq", sm.name, vname)
		}
		if ok2 && e == nil && !isPAC {
			adc := creds.GetADCredentials()
			c.Check(adc.EffectiveName == "" && len(adc.GroupMembershipSIDs) == 0 && len(creds.AuthzAttributes()) == 0,
				"no-pac-no-attributes", "C19:attrs:no-pac", sm.name, vname)
		}
	})
	c.Check(!pk, "no-panic", "C19:panic:VerifyAPREQ:"+vname, fmt.Sprint(pv), vname)
	c.Count("ticket:verifyapreq:" + vname)
	if !pk {
		c.Check((ok && verr == nil) == accept, "verifyapreq-verdict", "C19:verifyapreq:"+vname,
			fmt.Sprintf("%s etype %d: ok=%v err=%v want accept=%v", sm.name, et, ok, verr, accept), vname)
	}
}

// SignedPAC: the first sample PAC signed for a service whose key is srvKey of encryption type et (server checksum of the
// checksum type that belongs to et; the KDC checksum under a random key of the same type); rodc >= 0 appends that
// RODCIdentifier to both signature buffers ([MS-PAC] 2.8.1); tamper flips a bit inside the client-info buffer after
// signing.  ok = false when et has no PAC checksum type.  For the streams of other properties that need a ticket
// carrying a PAC (C01).
func SignedPAC(c *hctx.Ctx, et int32, srvKey []byte, rodc int, tamper bool) (b []byte, ok bool) {
	var ct int32
	for _, t := range pacTypes {
		if etypeOf(t) == et {
			ct, ok = t, true
		}
	}
	if !ok {
		return nil, false
	}
	sm := samples()[0]
	kdcKey := make([]byte, keyLen(ct))
	c.R.Read(kdcKey)
	sg := signPAC(withSigTypes(sm.bufs, ct, ct, rodc), nil, srvKey, kdcKey)
	out := append([]byte{}, sg.b...)
	if tamper {
		if i := firstOf(sg.bufs, 10); i >= 0 {
			out[sg.offs[i]+2] ^= 4
		} else {
			out[len(out)/2] ^= 4
		}
	}
	return out, true
}

// ADIfRelevantPAC wraps PAC bytes as AD-IF-RELEVANT { AD-WIN2K-PAC }.
func ADIfRelevantPAC(pacBytes []byte) types.AuthorizationData { return adIfRelevantPAC(pacBytes) }
