// Package c15 is the correspondence stream of property C15 — "Credential cache files of every format
// version parse to what was written".
//
// An independent writer (refWrite, written from the MIT "Credential cache file format" document and
// not from gokrb5) renders generated cache models in format versions 1 to 4; the real
// credentials.CCache.Unmarshal / GetEntry / GetEntries / Contains and client.NewFromCCache run on the
// bytes; every call is a case for the Coq model (coq/model/CCache.v) and is judged by a direct oracle
// that needs no model (the parsed cache equals the model that was written; look-ups equal an
// independent selection over the written model; malformed files give "error or value", never a panic,
// a hang or an allocation blow-up).
package c15

import (
	"bufio"
	"bytes"
	"encoding/binary"
	"encoding/hex"
	"fmt"
	"os"
	"os/exec"
	"reflect"
	"sort"
	"strings"
	"time"

	"github.com/jcmturner/gokrb5/v8/client"
	"github.com/jcmturner/gokrb5/v8/credentials"
	"github.com/jcmturner/gokrb5/v8/messages"
	"github.com/jcmturner/gokrb5/v8/types"
	"verif/harness/internal/hctx"
	"verif/harness/internal/jv"
)

// ---- the independent model of a ccache file ----

type ccPrinc struct {
	NType int32
	Realm string
	Comps []string
}
type ccTagged struct {
	T int16
	D []byte
}
type ccCred struct {
	Client, Server          ccPrinc
	KType                   int16
	Key                     []byte
	Auth, Start, End, Renew int32
	SKey                    bool
	Flags                   uint32 // krb5 ticket flags as an integer: bit 0 of KerberosFlags is the MSB
	Addrs, AD               []ccTagged
	Ticket, Ticket2         []byte
	conf                    bool   // written as a configuration entry (realm "X-CACHECONF:")
	tktSPN                  string // SName of the Ticket in .Ticket when it is one ("" + tktOK=false otherwise)
	tktOK                   bool
}
type ccHField struct {
	Tag uint16
	Val []byte
}
type ccFile struct {
	V      int
	Header []ccHField
	Princ  ccPrinc
	Creds  []ccCred
}

// a 32-bit field of the rendered file that holds a count or a length
type ccField struct {
	Off  int
	Kind string // "count" (addresses / authdata), "ncomp", "len"
}

func ccOrder(v int) binary.ByteOrder {
	if v <= 2 {
		return binary.LittleEndian // "native byte order"; every supported platform of the check is little endian
	}
	return binary.BigEndian
}

// refWrite renders a cache in format version f.V.  Layout (MIT krb5 doc/formats/ccache_file_format):
//
//	file       ::= 0x05 version [header (v4)] principal credential*
//	header     ::= length(16) { tag(16) length(16) value }*          (always big endian: v4)
//	principal  ::= [name type(32) (not in v1)] count(32) (v1: +1 for the realm) realm(data) component(data)*
//	data       ::= length(32) bytes
//	credential ::= client server keyblock authtime(32) starttime(32) endtime(32) renew_till(32)
//	               is_skey(8) ticket_flags(32) addresses authdata ticket(data) second_ticket(data)
//	keyblock   ::= enctype(16) [repeated in v3] data
//	addresses  ::= count(32) { addrtype(16) data }*      authdata ::= count(32) { ad_type(16) data }*
//
// integers in native order for v1/v2, big endian for v3/v4.
func refWrite(f ccFile) ([]byte, []ccField) {
	o := ccOrder(f.V)
	var w bytes.Buffer
	var fields []ccField
	u16 := func(x uint16) { var t [2]byte; o.PutUint16(t[:], x); w.Write(t[:]) }
	u32 := func(x uint32) { var t [4]byte; o.PutUint32(t[:], x); w.Write(t[:]) }
	mark := func(kind string) { fields = append(fields, ccField{w.Len(), kind}) }
	data := func(d []byte) { mark("len"); u32(uint32(len(d))); w.Write(d) }
	princ := func(p ccPrinc) {
		if f.V != 1 {
			u32(uint32(p.NType))
		}
		n := len(p.Comps)
		if f.V == 1 {
			n++
		}
		mark("ncomp")
		u32(uint32(n))
		data([]byte(p.Realm))
		for _, c := range p.Comps {
			data([]byte(c))
		}
	}
	tagged := func(l []ccTagged) {
		mark("count")
		u32(uint32(len(l)))
		for _, a := range l {
			u16(uint16(a.T))
			data(a.D)
		}
	}
	w.Write([]byte{5, byte(f.V)})
	if f.V == 4 {
		n := 0
		for _, h := range f.Header {
			n += 4 + len(h.Val)
		}
		u16(uint16(n))
		for _, h := range f.Header {
			u16(h.Tag)
			u16(uint16(len(h.Val)))
			w.Write(h.Val)
		}
	}
	princ(f.Princ)
	for _, c := range f.Creds {
		princ(c.Client)
		princ(c.Server)
		u16(uint16(c.KType))
		if f.V == 3 {
			u16(uint16(c.KType))
		}
		data(c.Key)
		u32(uint32(c.Auth))
		u32(uint32(c.Start))
		u32(uint32(c.End))
		u32(uint32(c.Renew))
		if c.SKey {
			w.WriteByte(1)
		} else {
			w.WriteByte(0)
		}
		u32(c.Flags)
		tagged(c.Addrs)
		tagged(c.AD)
		data(c.Ticket)
		data(c.Ticket2)
	}
	return w.Bytes(), fields
}

// ---- expected observable of a well-formed file, computed from the written model only ----

func wantPrinc(v int, p ccPrinc) jv.V {
	nt := int64(p.NType)
	if v == 1 {
		nt = 0
	}
	return jv.L(jv.I(nt), jv.S(p.Realm), jv.Strs(p.Comps))
}
func wantTagged(l []ccTagged) jv.V {
	vs := make([]jv.V, len(l))
	for i, a := range l {
		vs[i] = jv.L(jv.I(int64(a.T)), jv.B(a.D))
	}
	return jv.L(vs...)
}
func wantCred(v int, c ccCred) jv.V {
	var fl [4]byte
	binary.BigEndian.PutUint32(fl[:], c.Flags)
	return jv.L(wantPrinc(v, c.Client), wantPrinc(v, c.Server), jv.I(int64(c.KType)), jv.B(c.Key),
		jv.I(int64(c.Auth)), jv.I(int64(c.Start)), jv.I(int64(c.End)), jv.I(int64(c.Renew)), jv.Bool(c.SKey),
		jv.B(fl[:]), wantTagged(c.Addrs), wantTagged(c.AD), jv.B(c.Ticket), jv.B(c.Ticket2))
}
func wantCreds(v int, cs []ccCred) jv.V {
	vs := make([]jv.V, len(cs))
	for i, c := range cs {
		vs[i] = wantCred(v, c)
	}
	return jv.L(vs...)
}
func wantFile(f ccFile) jv.V {
	hl := 0
	var hs []jv.V
	if f.V == 4 {
		for _, h := range f.Header {
			hl += 4 + len(h.Val)
			hs = append(hs, jv.L(jv.I(int64(h.Tag)), jv.I(int64(len(h.Val))), jv.B(h.Val)))
		}
	}
	return jv.Ok(jv.I(int64(f.V)), jv.I(int64(hl)), jv.L(hs...), wantPrinc(f.V, f.Princ), wantCreds(f.V, f.Creds))
}

// ---- projection of the implementation's result ----

func projPrinc(realm string, pn types.PrincipalName) jv.V {
	return jv.L(jv.I(int64(pn.NameType)), jv.S(realm), jv.Strs(pn.NameString))
}
func projCred(c *credentials.Credential) jv.V {
	as := make([]jv.V, len(c.Addresses))
	for i, a := range c.Addresses {
		as[i] = jv.L(jv.I(int64(a.AddrType)), jv.B(a.Address))
	}
	ads := make([]jv.V, len(c.AuthData))
	for i, a := range c.AuthData {
		ads[i] = jv.L(jv.I(int64(a.ADType)), jv.B(a.ADData))
	}
	return jv.L(projPrinc(c.Client.Realm, c.Client.PrincipalName), projPrinc(c.Server.Realm, c.Server.PrincipalName),
		jv.I(int64(c.Key.KeyType)), jv.B(c.Key.KeyValue),
		jv.I(c.AuthTime.Unix()), jv.I(c.StartTime.Unix()), jv.I(c.EndTime.Unix()), jv.I(c.RenewTill.Unix()),
		jv.Bool(c.IsSKey), jv.B(c.TicketFlags.Bytes), jv.L(as...), jv.L(ads...), jv.B(c.Ticket), jv.B(c.SecondTicket))
}
func projCreds(cs []*credentials.Credential) jv.V {
	vs := make([]jv.V, len(cs))
	for i, c := range cs {
		vs[i] = projCred(c)
	}
	return jv.L(vs...)
}

// the header has unexported fields; reading (not setting) them through reflect is permitted
func projHeader(cc *credentials.CCache) (jv.V, jv.V) {
	h := reflect.ValueOf(cc).Elem().FieldByName("Header")
	hl := int64(h.FieldByName("length").Uint())
	fs := h.FieldByName("fields")
	vs := make([]jv.V, fs.Len())
	for i := 0; i < fs.Len(); i++ {
		f := fs.Index(i)
		vs[i] = jv.L(jv.I(int64(f.FieldByName("tag").Uint())), jv.I(int64(f.FieldByName("length").Uint())),
			jv.B(append([]byte{}, f.FieldByName("value").Bytes()...)))
	}
	return jv.I(hl), jv.L(vs...)
}
func projCCache(cc *credentials.CCache) jv.V {
	hl, hf := projHeader(cc)
	return jv.Ok(jv.I(int64(cc.Version)), hl, hf, projPrinc(cc.DefaultPrincipal.Realm, cc.DefaultPrincipal.PrincipalName),
		projCreds(cc.Credentials))
}

// exact copies a slice so that cap == len: the unrepaired readers are only stopped by the capacity
func exact(b []byte) []byte {
	c := make([]byte, len(b))
	copy(c, b)
	return c
}

type unmarshalObs struct {
	obs   jv.V
	cc    *credentials.CCache
	err   error
	pval  interface{}
	took  time.Duration
	items int // number of credentials + addresses + authdata entries + components in the result
}

func obsUnmarshal(file []byte) unmarshalObs {
	var r unmarshalObs
	cc := new(credentials.CCache)
	b := exact(file)
	t0 := time.Now()
	p, pv := hctx.Guard(func() { r.err = cc.Unmarshal(b) })
	r.took = time.Since(t0)
	switch {
	case p:
		r.obs, r.pval = jv.Panic(), pv
	case r.err != nil:
		r.obs = jv.Err()
	default:
		r.cc = cc
		r.obs = projCCache(cc)
		for _, c := range cc.Credentials {
			r.items += 1 + len(c.Addresses) + len(c.AuthData) + len(c.Client.PrincipalName.NameString) + len(c.Server.PrincipalName.NameString)
		}
	}
	return r
}

// ---- probing in a child process ----
// A corrupted address / authdata count is passed to make() by the unrepaired code: 0x7fffffff elements
// are tens of gigabytes and the Go runtime dies with a fatal (unrecoverable) error.  Such files are
// first parsed in a child process (this binary, re-executed with VERIF_C15_PROBE set; see init), so that
// a blow-up is a failed oracle check of that case and not the death of the whole run.

func init() {
	if os.Getenv("VERIF_C15_PROBE") == "" {
		return
	}
	sc := bufio.NewScanner(os.Stdin)
	sc.Buffer(make([]byte, 1<<20), 1<<26)
	out := bufio.NewWriter(os.Stdout)
	for sc.Scan() {
		b, err := hex.DecodeString(strings.TrimSpace(sc.Text()))
		if err != nil {
			fmt.Fprintln(out, "bad")
			continue
		}
		r := obsUnmarshal(b)
		switch {
		case r.obs == jv.Panic():
			fmt.Fprintln(out, "panic")
		case r.err != nil:
			fmt.Fprintln(out, "err")
		default:
			fmt.Fprintln(out, "ok")
		}
		out.Flush()
	}
	os.Exit(0)
}

// prober is the (persistent) child process: one hex line in, one verdict line out
type prober struct {
	cmd *exec.Cmd
	in  *bufio.Writer
	out chan string
	se  *bytes.Buffer
}

var child *prober

func (p *prober) stop() {
	if p.cmd != nil && p.cmd.Process != nil {
		p.cmd.Process.Kill()
		p.cmd.Wait()
	}
}

func startProber() *prober {
	exe, err := os.Executable()
	if err != nil {
		return nil
	}
	p := &prober{cmd: exec.Command(exe), out: make(chan string, 1), se: new(bytes.Buffer)}
	p.cmd.Env = append(os.Environ(), "VERIF_C15_PROBE=1")
	wi, err1 := p.cmd.StdinPipe()
	ro, err2 := p.cmd.StdoutPipe()
	p.cmd.Stderr = p.se
	if err1 != nil || err2 != nil || p.cmd.Start() != nil {
		return nil
	}
	p.in = bufio.NewWriter(wi)
	go func() {
		sc := bufio.NewScanner(ro)
		for sc.Scan() {
			p.out <- sc.Text()
		}
		close(p.out)
	}()
	return p
}

// probe returns "ok", "err", "panic", "crash: ..." or "noprobe" for one file parsed in the child process
func probe(file []byte) string {
	if child == nil {
		if child = startProber(); child == nil {
			return "noprobe"
		}
	}
	p := child
	p.in.WriteString(hex.EncodeToString(file) + "\n")
	p.in.Flush()
	select {
	case res, ok := <-p.out:
		if ok {
			return res
		}
		p.stop()
		child = nil
		msg := p.se.String()
		if i := strings.IndexByte(msg, '\n'); i > 0 {
			msg = msg[:i]
		}
		return "crash: " + msg
	case <-time.After(20 * time.Second):
		p.stop()
		child = nil
		return "crash: no answer within 20 s"
	}
}

// ---- generators ----

var ccNames = []string{"HTTP", "host", "user1", "krbtgt", "TEST.GOKRB5", "host.test.gokrb5", "a", "b", "ab", "EXAMPLE.COM", "testuser1", "cifs"}

func genName(c *hctx.Ctx) string {
	switch c.R.Intn(12) {
	case 0:
		return ""
	case 1:
		b := make([]byte, 255+c.R.Intn(80))
		for i := range b {
			b[i] = byte('a' + c.R.Intn(26))
		}
		return string(b)
	case 2:
		b := make([]byte, 1+c.R.Intn(6))
		c.R.Read(b)
		return string(b)
	default:
		return ccNames[c.R.Intn(len(ccNames))]
	}
}

func genI32(c *hctx.Ctx) int32 {
	switch c.R.Intn(8) {
	case 0:
		return 0
	case 1:
		return -0x80000000
	case 2:
		return 0x7fffffff
	case 3:
		return -1
	case 4:
		return 1
	default:
		return int32(c.R.Uint32())
	}
}

func genPrinc(c *hctx.Ctx) ccPrinc {
	p := ccPrinc{Realm: genName(c)}
	p.NType = []int32{1, 2, 3, 0, -1, 0x7fffffff, -0x80000000, 10}[c.R.Intn(8)]
	n := c.R.Intn(4)
	for i := 0; i < n; i++ {
		p.Comps = append(p.Comps, genName(c))
	}
	return p
}

func genBytes(c *hctx.Ctx, n int) []byte {
	b := make([]byte, n)
	c.R.Read(b)
	return b
}

func genTagged(c *hctx.Ctx) []ccTagged {
	n := c.R.Intn(4)
	var l []ccTagged
	for i := 0; i < n; i++ {
		t := []int16{2, 24, 1, 0, -1, 0x7fff, -0x8000, 128}[c.R.Intn(8)]
		l = append(l, ccTagged{t, genBytes(c, []int{0, 4, 16, 1, 40}[c.R.Intn(5)])})
	}
	return l
}

var ccEtypes = []int16{17, 18, 19, 20, 23, 16, 1, 3, 0, -1, 24, 0x7fff, -0x8000}

func genCred(c *hctx.Ctx, dflt ccPrinc) ccCred {
	var cr ccCred
	if c.R.Intn(3) == 0 {
		cr.Client = genPrinc(c)
	} else {
		cr.Client = dflt
	}
	cr.Server = genPrinc(c)
	cr.KType = ccEtypes[c.R.Intn(len(ccEtypes))]
	cr.Key = genBytes(c, []int{0, 16, 32, 24, 1, 8, 64, c.R.Intn(65)}[c.R.Intn(8)])
	cr.Auth, cr.Start, cr.End, cr.Renew = genI32(c), genI32(c), genI32(c), genI32(c)
	cr.SKey = c.R.Intn(4) == 0
	cr.Flags = []uint32{0, 0x40000000, 0x50e10000, 0x00000001, 0x80000000, 0xffffffff, c.R.Uint32()}[c.R.Intn(7)]
	cr.Addrs = genTagged(c)
	cr.AD = genTagged(c)
	cr.Ticket = genBytes(c, []int{0, 1, 30, 200, 700}[c.R.Intn(5)])
	if c.R.Intn(4) == 0 {
		cr.Ticket2 = genBytes(c, []int{1, 30, 200}[c.R.Intn(3)])
	}
	return cr
}

// a configuration entry: krb5_ccache_conf_data/<key>[/<principal>]@X-CACHECONF: with the value in the ticket field
func genConf(c *hctx.Ctx, dflt ccPrinc) ccCred {
	cr := ccCred{Client: dflt, conf: true}
	cr.Server = ccPrinc{NType: 0, Realm: "X-CACHECONF:", Comps: []string{"krb5_ccache_conf_data", []string{"fast_avail", "pa_type", "proxy_impersonator", "refresh_time"}[c.R.Intn(4)]}}
	if c.R.Intn(2) == 0 {
		cr.Server.Comps = append(cr.Server.Comps, "krbtgt/TEST.GOKRB5@TEST.GOKRB5")
	}
	cr.Ticket = []byte([]string{"yes", "2", "", "1700000000"}[c.R.Intn(4)])
	return cr
}

func genHeader(c *hctx.Ctx) []ccHField {
	var hs []ccHField
	n := c.R.Intn(3)
	for i := 0; i < n; i++ {
		if c.R.Intn(4) == 0 { // a field with a tag no reader knows; to be ignored
			hs = append(hs, ccHField{uint16([]int{0, 2, 3, 0x7fff, 0xffff, 256}[c.R.Intn(6)]), genBytes(c, c.R.Intn(7))})
		} else { // KDC time offset: seconds and microseconds
			hs = append(hs, ccHField{1, genBytes(c, 8)})
		}
	}
	return hs
}

func genFile(c *hctx.Ctx, v int, ncred int) ccFile {
	f := ccFile{V: v, Princ: genPrinc(c)}
	if v == 4 {
		f.Header = genHeader(c)
	}
	withConf := c.R.Intn(2) == 0
	for i := 0; i < ncred; i++ {
		var cr ccCred
		switch {
		case withConf && c.R.Intn(3) == 0:
			cr = genConf(c, f.Princ)
		default:
			cr = genCred(c, f.Princ)
			// make look-ups interesting: repeat an earlier server name sometimes
			if len(f.Creds) > 0 && c.R.Intn(4) == 0 {
				cr.Server.Comps = f.Creds[c.R.Intn(len(f.Creds))].Server.Comps
			}
			if c.R.Intn(12) == 0 {
				cr.Server.Realm = "X-CACHECONF" // the prefix the code filters on, without the colon
			}
		}
		f.Creds = append(f.Creds, cr)
	}
	return f
}

func sameStrs(a, b []string) bool {
	if len(a) != len(b) {
		return false
	}
	for i := range a {
		if a[i] != b[i] {
			return false
		}
	}
	return true
}

func hexIn(file []byte, extra map[string]interface{}) map[string]interface{} {
	m := map[string]interface{}{"file": hex.EncodeToString(file)}
	for k, v := range extra {
		m[k] = v
	}
	return m
}

func clip(s string) string {
	if len(s) > 200 {
		return s[:200]
	}
	return s
}

// check records a direct-oracle verdict; failures are also counted per signature in the histogram
// (the context keeps only the first 200 failures in full)
func check(c *hctx.Ctx, ok bool, oracle, sig, detail string, input interface{}) {
	if !ok {
		c.Count("oracle-fail:" + sig)
	}
	c.Check(ok, oracle, sig, detail, input)
}

// ---- the stream ----

func Run(c *hctx.Ctx) {
	nFiles, nExh, nClient := 260, 5, 120
	if !c.Quick() {
		nFiles, nExh, nClient = 5000, 60, 2500
	}
	var pool []ccFile // files kept for the malformed stream
	for fi := 0; fi < nFiles; fi++ {
		v := 1 + fi%4
		ncred := c.R.Intn(7)
		if fi < 8 {
			ncred = 0
		}
		f := genFile(c, v, ncred)
		file, _ := refWrite(f)
		c.Count(fmt.Sprintf("file:v%d", v))
		c.Count(fmt.Sprintf("file:creds=%d", ncred))
		if v == 4 {
			c.Count(fmt.Sprintf("file:hdrfields=%d", len(f.Header)))
			for _, h := range f.Header {
				if h.Tag != 1 {
					c.Count("file:hdr-unknown-tag")
				}
			}
		}
		for _, cr := range f.Creds {
			c.Count(fmt.Sprintf("cred:comps=%d", len(cr.Server.Comps)))
			c.Count(fmt.Sprintf("cred:addrs=%d", len(cr.Addrs)))
			c.Count(fmt.Sprintf("cred:authdata=%d", len(cr.AD)))
			if cr.conf {
				c.Count("cred:conf")
			}
			c.Count(fmt.Sprintf("cred:keylen<=%d", (len(cr.Key)+15)/16*16))
		}
		if len(pool) < 400 {
			pool = append(pool, f)
		}
		wellFormed(c, f, file)
	}
	clientStream(c, nClient)
	malformedStream(c, pool, nExh)
	if child != nil {
		child.stop()
		child = nil
	}
}

func wellFormed(c *hctx.Ctx, f ccFile, file []byte) {
	v := f.V
	// (1) parse what the independent writer wrote
	r := obsUnmarshal(file)
	c.Case("cc_unmarshal", jv.B(file), r.obs)
	want := wantFile(f)
	ok := r.obs == want
	detail, sig := "", "parse-wellformed"
	switch {
	case r.obs == jv.Panic():
		detail, sig = clip(fmt.Sprint("panic: ", r.pval)), "parse-wellformed:panic"
	case r.err != nil:
		detail = clip("error: " + r.err.Error())
		sig = "parse-wellformed:error"
		for _, h := range f.Header {
			if h.Tag != 1 {
				sig = "parse-wellformed:header-unknown-tag"
			}
		}
	case !ok:
		detail = "parsed cache differs from the written model"
		// classify: only the flags of a v1/v2 file differ?
		if v <= 2 && len(r.cc.Credentials) == len(f.Creds) {
			only := true
			for i, cr := range r.cc.Credentials {
				g := *cr
				var fl [4]byte
				binary.BigEndian.PutUint32(fl[:], f.Creds[i].Flags)
				g.TicketFlags.Bytes = fl[:]
				if projCred(&g) != wantCred(v, f.Creds[i]) {
					only = false
				}
			}
			if only {
				sig, detail = "parse-wellformed:flags-byte-order-v1v2", "ticket flags of a native-order file come out byte-reversed"
			}
		}
	}
	check(c, ok, "Unmarshal(independent writer(m)) = m", sig, detail, hexIn(file, map[string]interface{}{"version": v}))
	if r.cc == nil {
		return
	}
	cc := r.cc

	// (1b) the parsed cache owns what it holds: overwriting the buffer handed to Unmarshal afterwards (reuse
	// for the next file, zeroing of key material) changes no name, key, time, flag, address or ticket byte
	{
		buf := exact(file)
		cc2 := new(credentials.CCache)
		var e2 error
		if p2, _ := hctx.Guard(func() { e2 = cc2.Unmarshal(buf) }); !p2 && e2 == nil {
			// (the values of the header fields are views of the input - ccache.go, parseHeader - but they are
			// unexported and nothing reads them after parsing, so no user of the cache can observe that; only
			// what the API exposes is compared)
			own := func() jv.V {
				return jv.L(projPrinc(cc2.DefaultPrincipal.Realm, cc2.DefaultPrincipal.PrincipalName), projCreds(cc2.Credentials))
			}
			snap := own()
			for i := range buf {
				buf[i] ^= 0xA5
			}
			check(c, own() == snap, "a parsed cache does not change when the caller reuses the input buffer", "parse-aliases-input", "cache changed after the input buffer was overwritten", hexIn(file, map[string]interface{}{"version": v}))
			c.Count("buffer-independence")
		}
	}

	// (2) GetEntries: everything but the configuration entries
	var ge []*credentials.Credential
	p, _ := hctx.Guard(func() { ge = cc.GetEntries() })
	if p {
		c.Case("cc_getentries", jv.B(file), jv.Panic())
	} else {
		c.Case("cc_getentries", jv.B(file), jv.Ok(projCreds(ge)))
	}
	var wantGE []ccCred
	for _, cr := range f.Creds {
		if !strings.HasPrefix(cr.Server.Realm, "X-CACHECONF") {
			wantGE = append(wantGE, cr)
		}
	}
	check(c, !p && projCreds(ge) == wantCreds(v, wantGE), "GetEntries = written credentials without the X-CACHECONF ones", "getentries", "",
		hexIn(file, nil))

	// (3) GetEntry / Contains: present and near-miss server names
	for li := 0; li < 4; li++ {
		var names []string
		kind := c.R.Intn(7)
		if len(f.Creds) == 0 {
			kind = 5 + c.R.Intn(2)
		}
		switch kind {
		case 0, 1, 2:
			names = append([]string{}, f.Creds[c.R.Intn(len(f.Creds))].Server.Comps...)
		case 3: // a prefix or an extension of a present name
			names = append([]string{}, f.Creds[c.R.Intn(len(f.Creds))].Server.Comps...)
			if len(names) > 0 && c.R.Intn(2) == 0 {
				names = names[:len(names)-1]
			} else {
				names = append(names, "x")
			}
		case 4: // a client name
			names = append([]string{}, f.Creds[c.R.Intn(len(f.Creds))].Client.Comps...)
		case 5:
			names = nil
		default:
			names = []string{genName(c), genName(c)}
		}
		c.Count(fmt.Sprintf("lookup:kind=%d", kind))
		pn := types.PrincipalName{NameType: int32(c.R.Intn(4)), NameString: names}
		in := jv.L(jv.B(file), jv.Strs(names))
		var got *credentials.Credential
		var found, has bool
		p1, _ := hctx.Guard(func() { got, found = cc.GetEntry(pn) })
		p2, _ := hctx.Guard(func() { has = cc.Contains(pn) })
		wi := -1
		for i, cr := range f.Creds {
			if sameStrs(cr.Server.Comps, names) {
				wi = i
				break
			}
		}
		switch {
		case p1:
			c.Case("cc_getentry", in, jv.Panic())
		case found:
			c.Case("cc_getentry", in, jv.Ok(jv.I(1), projCred(got)))
		default:
			c.Case("cc_getentry", in, jv.Ok(jv.I(0)))
		}
		if p2 {
			c.Case("cc_contains", in, jv.Panic())
		} else {
			c.Case("cc_contains", in, jv.Ok(jv.Bool(has)))
		}
		good := !p1 && found == (wi >= 0) && (wi < 0 || projCred(got) == wantCred(v, f.Creds[wi]))
		check(c, good, "GetEntry = first written credential with that server name, else not found", "getentry", fmt.Sprintf("kind=%d", kind),
			hexIn(file, map[string]interface{}{"names": names}))
		check(c, !p2 && has == (wi >= 0), "Contains = some written credential has that server name", "contains", fmt.Sprintf("kind=%d", kind),
			hexIn(file, map[string]interface{}{"names": names}))
	}
}

// ---- client.NewFromCCache ----

func mkTicket(c *hctx.Ctx, realm string, sname []string) []byte {
	t := messages.Ticket{TktVNO: 5, Realm: realm,
		SName:   types.PrincipalName{NameType: 2, NameString: sname},
		EncPart: types.EncryptedData{EType: 18, KVNO: 1 + c.R.Intn(5), Cipher: genBytes(c, 24+c.R.Intn(40))}}
	b, err := t.Marshal()
	if err != nil {
		panic(err)
	}
	return b
}

type cliEntry struct {
	auth, start, end, renew int64
	ktype                   int32
	key, tkt                []byte
}

func (e cliEntry) proj(found bool) jv.V {
	if !found {
		return jv.L(jv.I(0))
	}
	return jv.L(jv.I(1), jv.I(e.auth), jv.I(e.start), jv.I(e.end), jv.I(e.renew), jv.I(int64(e.ktype)), jv.B(e.key), jv.B(e.tkt))
}

func clientStream(c *hctx.Ctx, n int) {
	now := time.Now().Unix()
	for i := 0; i < n; i++ {
		v := 1 + c.R.Intn(4)
		realm := []string{"TEST.GOKRB5", "EXAMPLE.COM", "R"}[c.R.Intn(3)]
		// the default principal comes in every legal form, not only the plain user name
		f := ccFile{V: v, Princ: []ccPrinc{
			{NType: 1, Realm: realm, Comps: []string{"testuser1"}},
			{NType: 10, Realm: realm, Comps: []string{"user@corp.example"}},
			{NType: 3, Realm: realm, Comps: []string{"host", "client.test.gokrb5"}},
			{NType: 2, Realm: realm, Comps: []string{"svc", "instance"}},
			{NType: 1, Realm: realm, Comps: []string{"odd/name"}},
		}[i%5]}
		if v == 4 && c.R.Intn(2) == 0 {
			f.Header = []ccHField{{1, genBytes(c, 8)}}
		}
		shape := c.R.Intn(10) // 0: no TGT, 1: TGT bytes are no ticket, 2: a service ticket is no ticket, else fine
		services := [][]string{{"HTTP", "host.test.gokrb5"}, {"cifs", "fs.test.gokrb5"}, {"host", "a"}, {"ldap"}, {"krbtgt", "OTHER.REALM"}}
		ncred := 1 + c.R.Intn(6)
		tgtAt := c.R.Intn(ncred)
		for k := 0; k < ncred; k++ {
			cr := genCred(c, f.Princ)
			cr.Client = f.Princ
			cr.Addrs, cr.AD = nil, nil
			var sn []string
			switch {
			case k == tgtAt && shape != 0:
				sn = []string{"krbtgt", realm}
			case c.R.Intn(5) == 0:
				cr = genConf(c, f.Princ)
			default:
				sn = services[c.R.Intn(len(services))]
			}
			if !cr.conf {
				cr.Server = ccPrinc{NType: 2, Realm: realm, Comps: sn}
				tsn := sn
				if c.R.Intn(8) == 0 { // the ticket names another service than the cache entry does
					tsn = services[c.R.Intn(len(services))]
				}
				cr.Ticket, cr.tktSPN, cr.tktOK = mkTicket(c, realm, tsn), strings.Join(tsn, "/"), true
				if (shape == 1 && k == tgtAt) || (shape == 2 && k != tgtAt && c.R.Intn(2) == 0) {
					cr.Ticket, cr.tktOK = genBytes(c, 20), false
				}
				// validity relative to the wall clock, away from the boundaries: valid now / expired and not renewable / anything
				switch c.R.Intn(3) {
				case 0:
					cr.Start, cr.End, cr.Renew = int32(now-86400*int64(1+c.R.Intn(300))), int32(now+86400*int64(1+c.R.Intn(300))), genI32(c)
				case 1:
					cr.Start, cr.End, cr.Renew = int32(now-86400*400), int32(now-86400*int64(2+c.R.Intn(300))), int32(now-86400*int64(1+c.R.Intn(300)))
				}
			}
			f.Creds = append(f.Creds, cr)
		}
		c.Count(fmt.Sprintf("client:shape=%d", shape))
		file, _ := refWrite(f)
		r := obsUnmarshal(file)
		if r.cc == nil {
			c.Case("cc_unmarshal", jv.B(file), r.obs)
			check(c, false, "Unmarshal(independent writer(m)) = m", "parse-wellformed:client-stream", clip(fmt.Sprint(r.err, r.pval)), hexIn(file, nil))
			continue
		}
		// oracle input of the model: what the (external) ASN.1 decoder makes of every ticket field
		dec := make([]jv.V, len(r.cc.Credentials))
		for k, cr := range r.cc.Credentials {
			var t messages.Ticket
			if err := t.Unmarshal(cr.Ticket); err == nil {
				dec[k] = jv.L(jv.S(t.SName.PrincipalNameString()))
			} else {
				dec[k] = jv.L()
			}
		}
		// expectation from the written model alone
		var wantSess *ccCred
		for k := range f.Creds {
			if sameStrs(f.Creds[k].Server.Comps, []string{"krbtgt", realm}) {
				wantSess = &f.Creds[k]
				break
			}
		}
		wantErr := wantSess == nil || !wantSess.tktOK
		wantCache := map[string]ccCred{}
		for _, cr := range f.Creds {
			if strings.HasPrefix(cr.Server.Realm, "X-CACHECONF") {
				continue
			}
			if !cr.tktOK {
				wantErr = true
				break
			}
			wantCache[cr.tktSPN] = cr
		}
		queries := []string{"HTTP/host.test.gokrb5", "cifs/fs.test.gokrb5", "host/a", "ldap", "krbtgt/OTHER.REALM", "krbtgt/" + realm, "nosuch/service", ""}

		var cl *client.Client
		var err error
		p, pv := hctx.Guard(func() { cl, err = client.NewFromCCache(r.cc, nil) })
		in := jv.L(jv.B(file), jv.L(dec...), jv.Strs(queries))
		switch {
		case p:
			c.Case("cc_client", in, jv.Panic())
			check(c, false, "NewFromCCache does not panic", "client:panic", clip(fmt.Sprint(pv)), hexIn(file, nil))
			continue
		case err != nil:
			c.Case("cc_client", in, jv.Err())
			check(c, wantErr, "NewFromCCache fails only without a usable TGT or with an undecodable ticket", "client:unexpected-error", clip(err.Error()), hexIn(file, nil))
			continue
		}
		// observe the session and the ticket cache
		good, detail := !wantErr, ""
		if wantErr {
			detail = "accepted a cache without a usable TGT or with an undecodable ticket"
		}
		tgt, key, at, et, rt, sok := cl.VerifSession(realm)
		var sess jv.V
		if sok {
			tb, _ := tgt.Marshal()
			sess = jv.L(jv.S(realm), jv.I(at.Unix()), jv.I(et.Unix()), jv.I(rt.Unix()), jv.I(int64(key.KeyType)), jv.B(key.KeyValue), jv.B(tb))
			if good {
				w := wantSess
				if at.Unix() != int64(w.Auth) || et.Unix() != int64(w.End) || rt.Unix() != int64(w.Renew) || key.KeyType != int32(w.KType) ||
					!bytes.Equal(key.KeyValue, w.Key) || !bytes.Equal(tb, w.Ticket) {
					good, detail = false, "TGT session differs from the first krbtgt/REALM credential written"
				}
			}
		} else {
			sess = jv.L()
			good, detail = false, "no session for the default realm"
		}
		if rs := cl.VerifSessionRealms(); len(rs) != 1 {
			good, detail = false, fmt.Sprintf("%d sessions", len(rs))
		}
		qs := make([]jv.V, len(queries))
		for qi, q := range queries {
			e, found := cl.VerifCachedEntry(q)
			var ce cliEntry
			if found {
				tb, _ := e.Ticket.Marshal()
				ce = cliEntry{e.AuthTime.Unix(), e.StartTime.Unix(), e.EndTime.Unix(), e.RenewTill.Unix(), e.SessionKey.KeyType, e.SessionKey.KeyValue, tb}
			}
			qs[qi] = ce.proj(found)
			if !good {
				continue
			}
			w, wfound := wantCache[q]
			if found != wfound {
				good, detail = false, fmt.Sprintf("cache entry for %q: held=%v expected=%v", q, found, wfound)
			} else if found && (ce.auth != int64(w.Auth) || ce.start != int64(w.Start) || ce.end != int64(w.End) || ce.renew != int64(w.Renew) ||
				ce.ktype != int32(w.KType) || !bytes.Equal(ce.key, w.Key) || !bytes.Equal(ce.tkt, w.Ticket)) {
				good, detail = false, fmt.Sprintf("cache entry for %q differs from the last written credential with that ticket", q)
			}
			// the public accessor, where it depends on neither the clock boundary nor the network
			if found && wfound {
				valid := int64(w.Start) < now-3600 && int64(w.End) > now+3600
				dead := (int64(w.End) < now-3600 || int64(w.Start) > now+3600) && int64(w.Renew) < now-3600
				if valid || dead {
					var gt messages.Ticket
					var gk types.EncryptionKey
					var gok bool
					pp, _ := hctx.Guard(func() { gt, gk, gok = cl.GetCachedTicket(q) })
					gb, _ := gt.Marshal()
					c.Count(fmt.Sprintf("client:GetCachedTicket valid=%v", valid))
					check(c, !pp && gok == valid && (!valid || (bytes.Equal(gb, w.Ticket) && bytes.Equal(gk.KeyValue, w.Key) && gk.KeyType == int32(w.KType))),
						"GetCachedTicket serves exactly the cached ticket and key while it is valid", "client:getcachedticket", q, hexIn(file, nil))
				}
			}
		}
		if good {
			spns := cl.VerifCachedSPNs()
			sort.Strings(spns)
			var ws []string
			for k := range wantCache {
				ws = append(ws, k)
			}
			sort.Strings(ws)
			if !sameStrs(spns, ws) {
				good, detail = false, fmt.Sprintf("cached SPNs %q, expected %q", spns, ws)
			}
		}
		c.Case("cc_client", in, jv.Ok(sess, jv.L(qs...)))
		check(c, good, "NewFromCCache holds exactly the written tickets and keys", "client:holds", detail, hexIn(file, nil))
		// the client's own identity is the default principal as written (version 1 files store no name type)
		wantNT := f.Princ.NType
		if v == 1 {
			wantNT = 0
		}
		samePrinc := func(pn types.PrincipalName) bool {
			return pn.NameType == wantNT && sameStrs(pn.NameString, f.Princ.Comps)
		}
		var cn1, cn2, cn3 types.PrincipalName
		var rl1, rl2 string
		pp, _ := hctx.Guard(func() {
			cn1, rl1 = cl.Credentials.CName(), cl.Credentials.Domain()
			cr := r.cc.GetClientCredentials()
			cn2, rl2 = cr.CName(), cr.Domain()
			cn3 = r.cc.GetClientPrincipalName()
		})
		check(c, !pp && samePrinc(cn1) && samePrinc(cn2) && samePrinc(cn3) && rl1 == realm && rl2 == realm,
			"the client built from the cache, GetClientCredentials and GetClientPrincipalName name the default principal exactly as written (name type and components)", "client:principal",
			fmt.Sprintf("written type %d %q@%s; client %d %q@%s; credentials %d %q@%s; principal name %d %q", wantNT, f.Princ.Comps, realm, cn1.NameType, cn1.NameString, rl1, cn2.NameType, cn2.NameString, rl2, cn3.NameType, cn3.NameString), hexIn(file, nil))
		c.Count(fmt.Sprintf("client:principal-form=%d", i%5))
	}
}

// ---- malformed files ----

func malformedCase(c *hctx.Ctx, m []byte, class string, risky bool) {
	c.Count("malformed:" + class)
	_ = risky
	{
		// a corrupted count may make the unrepaired code allocate without bound: ask the child first
		pr := probe(m)
		if strings.HasPrefix(pr, "crash") || pr == "panic" {
			c.Case("cc_unmarshal", jv.B(m), jv.Panic())
			sig := "malformed:panic"
			if strings.HasPrefix(pr, "crash") {
				sig = "malformed:crash-or-allocation"
			}
			check(c, false, "malformed ccache: error or value, no panic, no blow-up", sig, clip(class+": "+pr), hexIn(m, nil))
			return
		}
	}
	r := obsUnmarshal(m)
	c.Case("cc_unmarshal", jv.B(m), r.obs)
	detail, sig := "", "malformed:panic"
	ok := r.obs != jv.Panic()
	if !ok {
		detail = clip(fmt.Sprint(class, ": ", r.pval))
	} else if r.took > 5*time.Second {
		ok, sig, detail = false, "malformed:slow", fmt.Sprint(class, ": took ", r.took)
	} else if r.items > len(m) {
		ok, sig, detail = false, "malformed:result-larger-than-input", fmt.Sprint(class, ": ", r.items, " items from ", len(m), " bytes")
	}
	check(c, ok, "malformed ccache: error or value, no panic, no blow-up", sig, detail, hexIn(m, nil))
}

var corruptVals = []uint32{0, 1, 0x7fffffff, 0xffffffff}

func malformedStream(c *hctx.Ctx, pool []ccFile, nExh int) {
	// tiny inputs
	for _, m := range [][]byte{{}, {5}, {4}, {5, 0}, {5, 5}, {5, 1}, {5, 2}, {5, 3}, {5, 4}, {5, 4, 0}, {5, 4, 0, 0}, {5, 4, 0, 12}, {5, 4, 0xff, 0xff},
		{5, 4, 0, 4, 0, 1, 0, 8}, {5, 4, 0, 4, 0, 2, 0xff, 0xff}, {0x85, 4, 0, 0}} {
		malformedCase(c, m, "tiny", false)
	}
	// exhaustive: every truncation and every count/length corruption of some files (one of each version first)
	done := 0
	for _, f := range pool {
		if done >= nExh {
			break
		}
		file, fields := refWrite(f)
		if len(f.Creds) == 0 || len(file) > 700 || (done < 4 && f.V != done+1) {
			continue
		}
		done++
		for n := 0; n < len(file); n++ {
			malformedCase(c, file[:n], "truncate-exhaustive", false)
		}
		for _, fd := range fields {
			for _, val := range corruptVals {
				m := append([]byte{}, file...)
				ccOrder(f.V).PutUint32(m[fd.Off:], val)
				malformedCase(c, m, "corrupt-"+fd.Kind, fd.Kind == "count" && val >= 0x10000)
			}
		}
	}
	// sampled: for every pooled file a few truncations, field corruptions and byte substitutions
	for _, f := range pool {
		file, fields := refWrite(f)
		for k := 0; k < 2; k++ {
			malformedCase(c, file[:c.R.Intn(len(file))], "truncate", false)
		}
		for k := 0; k < 2 && len(fields) > 0; k++ {
			fd := fields[c.R.Intn(len(fields))]
			val := append(corruptVals, 2, 0x80000000, uint32(len(file)), c.R.Uint32())[c.R.Intn(8)]
			m := append([]byte{}, file...)
			ccOrder(f.V).PutUint32(m[fd.Off:], val)
			malformedCase(c, m, "corrupt-"+fd.Kind, fd.Kind == "count" && val >= 0x10000)
		}
		if f.V == 4 && len(file) >= 4 { // the 16-bit header length
			m := append([]byte{}, file...)
			binary.BigEndian.PutUint16(m[2:], []uint16{0, 1, 4, 11, 12, 13, 0x7fff, 0xffff}[c.R.Intn(8)])
			malformedCase(c, m, "corrupt-hdrlen", false)
		}
		m := append([]byte{}, file...)
		for j := 0; j < 1+c.R.Intn(3); j++ {
			m[c.R.Intn(len(m))] = []byte{0, 0xff, 0x80, 0x7f, 1, byte(c.R.Intn(256))}[c.R.Intn(6)]
		}
		malformedCase(c, m, "substitute", false)
	}
}
