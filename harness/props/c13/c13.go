// Package c13 is the correspondence stream and the direct oracles of property C13:
// "Kerberos and SPNEGO messages survive encode/decode and match the RFC ASN.1".
//
// For every message type of the property x generated field values it records
//
//	der_encode  ( wire-schema projected-value )  expecting the bytes gokrb5's Marshal produced
//	der_decode  ( wire-schema bytes )            expecting the projected value (the model's strict DER decoder is
//	                                             the independent implementation that reads the same field values)
//
// and evaluates inside Go: Unmarshal(Marshal(x)) equals x; Marshal(Unmarshal(b)) == b; Marshal after
// intermediate operations (decrypting a ticket) leaves the bytes unchanged; KDC-REQ-BODY with 0..3 additional
// tickets; NegTokenInit / NegTokenResp, SPNEGO and KRB5 token framing; asn1tools length helpers; flag helpers.
//
// Generator discipline (what the property excludes): an OPTIONAL position never holds a non-nil EMPTY slice —
// optional slices and byte strings are either nil (absent) or have at least one element; mandatory slices
// and byte strings are never nil (empty ones are `[]T{}`), which is also what gofork's decoder returns, so
// reflect.DeepEqual is a sound equality for the round trip.  Times are whole seconds in UTC.
package c13

import (
	"bytes"
	"encoding/hex"
	"fmt"
	"github.com/jcmturner/gokrb5/v8/config"
	"math"
	"math/rand"
	"reflect"
	"strings"
	"time"
	"verif/harness/internal/kdc"

	"github.com/jcmturner/gofork/encoding/asn1"
	"github.com/jcmturner/gokrb5/v8/asn1tools"
	"github.com/jcmturner/gokrb5/v8/crypto"
	"github.com/jcmturner/gokrb5/v8/iana/keyusage"
	"github.com/jcmturner/gokrb5/v8/kadmin"
	"github.com/jcmturner/gokrb5/v8/keytab"
	"github.com/jcmturner/gokrb5/v8/messages"
	"github.com/jcmturner/gokrb5/v8/spnego"
	"github.com/jcmturner/gokrb5/v8/types"

	"verif/harness/internal/asn1proj"
	"verif/harness/internal/hctx"
	"verif/harness/internal/jv"
)

type gen struct {
	c *hctx.Ctx
	r *rand.Rand
	w *asn1proj.Wire
	// big: allow strings / byte strings long enough for 3 length octets in this value
	big int
}

// Run generates the C13 stream.
var ticketOps int

func Run(c *hctx.Ctx) {
	w, err := asn1proj.Build()
	if err != nil {
		c.Check(false, "wire-view", "C13:wire-view", err.Error(), nil)
		return
	}
	g := &gen{c: c, r: c.R, w: w}
	n := 60
	if !c.Quick() {
		n = 1500
	}
	// (the recorder keeps the first 200 oracle failures: the message oracles come first, the exhaustive helper
	// enumerations last)
	g.libraryBuilt()
	g.ticketOperations()
	g.shortFlagWords()
	g.messages(n)
	g.additionalTickets()
	g.spnego(n)
	g.bigValues()
	g.zeroElementProbe()
	g.lengthHelpers()
	g.flagHelpers()
}

// The model driver reads integers into OCaml's 63-bit native int: a case mentioning an integer of magnitude
// 2^62 or more cannot be dispatched (the Go-side oracles still run on such values).
func fitsDriver(vs ...jv.V) bool {
	const lim = 1 << 62
	for _, v := range vs {
		s := string(v)
		for i := 0; i+1 < len(s); i++ {
			if s[i] != 'i' || (i > 0 && s[i-1] != ' ') {
				continue
			}
			j := i + 1
			if j < len(s) && s[j] == '-' {
				j++
			}
			k := j
			for k < len(s) && s[k] >= '0' && s[k] <= '9' {
				k++
			}
			if k-j >= 19 {
				var u uint64
				for _, d := range s[j:k] {
					u = u*10 + uint64(d-'0')
				}
				if k-j > 19 || u >= lim {
					return false
				}
			}
			i = k - 1
		}
	}
	return true
}

// mcase records a model case unless the driver cannot read it.
func (g *gen) mcase(fn string, in, obs jv.V) {
	if !fitsDriver(in, obs) {
		g.c.Count("model-skipped:integer>=2^62")
		return
	}
	g.c.Case(fn, in, obs)
}

// ------------------------------------------------------------------------------------------ primitives

func (g *gen) pick(n int) int      { return g.r.Intn(n) }
func (g *gen) coin(p float64) bool { return g.r.Float64() < p }

var int64Edges = []int64{0, 1, -1, 127, 128, -128, -129, 255, 256, 32767, 32768, -32768, -32769, 65535, 65536,
	8388607, 8388608, -8388608, -8388609, math.MaxInt32, math.MaxInt32 + 1, math.MinInt32, math.MinInt32 - 1,
	math.MaxUint32, math.MaxUint32 + 1, math.MaxInt64, math.MinInt64, 1 << 40, -(1 << 40), 5, 10, 14, 30}

var int32Edges = []int32{0, 1, -1, 127, 128, -128, -129, 255, 256, 32767, 32768, -32768, -32769, 65535, 65536,
	8388607, 8388608, -8388608, -8388609, math.MaxInt32, math.MinInt32, 17, 18, 23, -138}

func (g *gen) i64() int64 {
	switch g.pick(3) {
	case 0:
		return int64Edges[g.pick(len(int64Edges))]
	case 1:
		return int64(g.r.Uint64()) >> uint(g.pick(64)) // every magnitude; mostly below 2^62 (see fitsDriver)
	}
	return int64(g.r.Intn(1000)) - 100
}
func (g *gen) i32() int32 {
	switch g.pick(3) {
	case 0:
		return int32Edges[g.pick(len(int32Edges))]
	case 1:
		return int32(g.r.Uint32())
	}
	return int32(g.r.Intn(300)) - 30
}
func (g *gen) int() int { return int(g.i64()) }

// a positive int for optional positions is sometimes 0 (absent)
func (g *gen) optInt() int {
	if g.coin(0.4) {
		return 0
	}
	return g.int()
}

var lenEdges = []int{0, 1, 2, 5, 16, 100, 126, 127, 128, 129, 200, 255, 256, 257, 300, 1000}

func (g *gen) length() int {
	if g.big > 0 && g.coin(0.2) {
		g.big--
		return []int{65535, 65536, 65537, 70000}[g.pick(4)]
	}
	if g.coin(0.6) {
		return g.pick(24)
	}
	return lenEdges[g.pick(len(lenEdges))]
}

// bytesN is never nil.
func (g *gen) bytesN(n int) []byte {
	b := make([]byte, n)
	g.r.Read(b)
	return b
}

// octets for a MANDATORY position: never nil, may be empty.
func (g *gen) octets() []byte { return g.bytesN(g.length()) }

// optOctets for an OPTIONAL position: nil (absent) or non-empty.
func (g *gen) optOctets() []byte {
	if g.coin(0.5) {
		return nil
	}
	n := g.length()
	if n == 0 {
		n = 1
	}
	return g.bytesN(n)
}

const alnum = "abcdefghijklmnopqrstuvwxyzABCDEFGHIJKLMNOPQRSTUVWXYZ0123456789.-_"

func (g *gen) strN(n int) string {
	var sb strings.Builder
	raw := g.coin(0.15) // GeneralString bodies are written verbatim: any byte
	for i := 0; i < n; i++ {
		if raw {
			sb.WriteByte(byte(g.pick(256)))
		} else {
			sb.WriteByte(alnum[g.pick(len(alnum))])
		}
	}
	return sb.String()
}
func (g *gen) str() string { return g.strN(g.length()) }
func (g *gen) optStr() string {
	if g.coin(0.5) {
		return ""
	}
	n := g.length()
	if n == 0 {
		n = 1
	}
	return g.strN(n)
}

var timeEdges = []int64{0, 1, -1, 1700000000, math.MaxInt32, math.MaxInt32 + 1, 253402300799, -62135596800 + 1, 951782400 /* 2000-02-29 */, 4107542399}

// a mandatory time; the zero time.Time (year 1) is a legal mandatory value
func (g *gen) time() time.Time {
	switch g.pick(4) {
	case 0:
		return time.Unix(timeEdges[g.pick(len(timeEdges))], 0).UTC()
	case 1:
		if g.coin(0.2) {
			return time.Time{}
		}
	}
	return time.Unix(g.r.Int63n(4102444800), 0).UTC() // 1970..2100
}

// an optional time: zero (absent) or not
func (g *gen) optTime() time.Time {
	if g.coin(0.5) {
		return time.Time{}
	}
	t := g.time()
	if t.IsZero() {
		return time.Unix(1, 0).UTC()
	}
	return t
}

// 0..4 name components
func (g *gen) principal() types.PrincipalName {
	n := g.pick(5)
	ns := make([]string, n)
	for i := range ns {
		ns[i] = g.str()
	}
	g.c.Count(fmt.Sprintf("name-components=%d", n))
	return types.PrincipalName{NameType: g.i32(), NameString: ns}
}

// an optional principal: the zero value is absent; a present one must differ from the zero value
func (g *gen) optPrincipal() types.PrincipalName {
	if g.coin(0.5) {
		return types.PrincipalName{}
	}
	p := g.principal()
	if p.NameType == 0 && len(p.NameString) == 0 {
		p.NameType = 1
	}
	return p
}

// a flag word: 4 bytes with one bit, several bits, none or all; sometimes longer or with unused bits
func (g *gen) flags() asn1.BitString {
	f := types.NewKrbFlags()
	switch g.pick(6) {
	case 0:
	case 1:
		types.SetFlag(&f, g.pick(32))
	case 2:
		for i := 0; i < 32; i++ {
			if g.coin(0.5) {
				types.SetFlag(&f, i)
			}
		}
	case 3:
		for i := 0; i < 32; i++ {
			types.SetFlag(&f, i)
		}
	case 4: // longer word
		f.Bytes = g.bytesN(5 + g.pick(3))
		f.BitLength = 8 * len(f.Bytes)
	case 5: // unused bits in the last octet (they must be zero)
		f.Bytes = g.bytesN(4)
		u := 1 + g.pick(7)
		f.Bytes[3] &^= byte(1<<uint(u)) - 1
		f.BitLength = 32 - u
	}
	return f
}

func (g *gen) encData() types.EncryptedData {
	return types.EncryptedData{EType: g.i32(), KVNO: g.optInt(), Cipher: g.octets()}
}
func (g *gen) optEncData() types.EncryptedData {
	if g.coin(0.6) {
		return types.EncryptedData{}
	}
	e := g.encData()
	if e.EType == 0 {
		e.EType = 18
	}
	return e
}
func (g *gen) key() types.EncryptionKey {
	return types.EncryptionKey{KeyType: g.i32(), KeyValue: g.octets()}
}
func (g *gen) optKey() types.EncryptionKey {
	if g.coin(0.5) {
		return types.EncryptionKey{}
	}
	k := g.key()
	if k.KeyType == 0 {
		k.KeyType = 17
	}
	return k
}
func (g *gen) optChecksum() types.Checksum {
	if g.coin(0.5) {
		return types.Checksum{}
	}
	t := g.i32()
	if t == 0 {
		t = 16
	}
	return types.Checksum{CksumType: t, Checksum: g.octets()}
}
func (g *gen) hostAddr() types.HostAddress {
	t := g.i32()
	if t == 0 {
		t = 2 // elements of an OPTIONAL SEQUENCE OF must not be the zero value (see zeroElementProbe)
	}
	return types.HostAddress{AddrType: t, Address: g.octets()}
}
func (g *gen) optHostAddr() types.HostAddress {
	if g.coin(0.5) {
		return types.HostAddress{}
	}
	return g.hostAddr()
}

// optional lists: nil or 1..3 non-zero elements
func (g *gen) optHostAddrs() []types.HostAddress {
	if g.coin(0.5) {
		return nil
	}
	l := make([]types.HostAddress, 1+g.pick(3))
	for i := range l {
		l[i] = g.hostAddr()
	}
	return l
}
func (g *gen) optAuthData() types.AuthorizationData {
	if g.coin(0.5) {
		return nil
	}
	l := make(types.AuthorizationData, 1+g.pick(3))
	for i := range l {
		t := g.i32()
		if t == 0 {
			t = 1
		}
		l[i] = types.AuthorizationDataEntry{ADType: t, ADData: g.octets()}
	}
	return l
}
func (g *gen) optPAData() types.PADataSequence {
	if g.coin(0.4) {
		return nil
	}
	l := make(types.PADataSequence, 1+g.pick(3))
	for i := range l {
		t := g.i32()
		if t == 0 {
			t = 2
		}
		l[i] = types.PAData{PADataType: t, PADataValue: g.octets()}
	}
	return l
}

func (g *gen) ticket() messages.Ticket {
	return messages.Ticket{TktVNO: g.pvno(), Realm: g.str(), SName: g.principal(), EncPart: g.encData()}
}
func (g *gen) pvno() int {
	if g.coin(0.8) {
		return 5
	}
	return g.int()
}

// ------------------------------------------------------------------------------------------ the generic exercise

type codec struct {
	def       string // wire-view definition
	marshal   func(x interface{}) ([]byte, error)
	unmarshal func(b []byte) (interface{}, error) // returns a pointer to a fresh value
}

func short(b []byte) string {
	h := hex.EncodeToString(b)
	if len(h) > 400 {
		return fmt.Sprintf("%s...(%d bytes)", h[:400], len(b))
	}
	return h
}

// exercise runs one value x (a pointer to a struct) through model cases and direct oracles.
func (g *gen) exercise(cd codec, x interface{}) []byte {
	c := g.c
	ty := g.w.Get(cd.def)
	xv := reflect.ValueOf(x)
	info := asn1proj.Inspect(xv, ty)
	if info.BadTime != "" || info.BadBits != "" {
		c.Check(false, "generator", "C13:generator:"+cd.def, "generated a time/bit string outside the stream's domain at "+info.BadTime+info.BadBits, nil)
		return nil
	}
	c.Count("type=" + cd.def)
	var b []byte
	var err error
	if p, pv := hctx.Guard(func() { b, err = cd.marshal(x) }); p {
		c.Check(false, "marshal-no-panic", "C13:panic:marshal:"+cd.def, fmt.Sprint(pv), fmt.Sprintf("%+v", x))
		return nil
	}
	if err != nil {
		c.Check(false, "marshal-ok", "C13:marshal-error:"+cd.def, err.Error(), fmt.Sprintf("%+v", x))
		return nil
	}
	val, err := asn1proj.ValueOf(xv, ty)
	if err != nil {
		c.Check(false, "projection", "C13:projection:"+cd.def, err.Error(), nil)
		return nil
	}
	tyj := ty.JV()
	g.mcase("der_encode", jv.L(tyj, val), jv.Ok(jv.B(b)))
	g.mcase("der_decode", jv.L(tyj, jv.B(b)), jv.Ok(val))
	c.Count(fmt.Sprintf("outer-length-octets=%d", len(asn1proj.LenOctets(len(b)))))

	// Unmarshal(Marshal(x)) equals x
	var y interface{}
	if p, pv := hctx.Guard(func() { y, err = cd.unmarshal(b) }); p {
		c.Check(false, "unmarshal-no-panic", "C13:panic:unmarshal:"+cd.def, fmt.Sprint(pv), short(b))
		return b
	}
	if err != nil {
		c.Check(false, "roundtrip", "C13:roundtrip:unmarshal-error:"+cd.def, err.Error(), short(b))
		return b
	}
	sig := "C13:roundtrip:" + cd.def
	if info.DroppedElem != "" {
		sig = "C13:roundtrip:optional-seqof-zero-element-dropped"
	}
	yval, err := asn1proj.ValueOf(reflect.ValueOf(y), ty)
	c.Check(err == nil && yval == val && info.DroppedElem == "", "roundtrip-fields", sig,
		"decoding the encoding does not yield the same field values"+info.DroppedElem, short(b))
	c.Check(reflect.DeepEqual(x, y), "roundtrip-deep-equal", sig,
		fmt.Sprintf("Unmarshal(Marshal(x)) != x: %+v vs %+v", trunc(x), trunc(y)), short(b))

	// Marshal(Unmarshal(b)) == b, whenever no optional field was transmitted with an empty value
	if info.EmptyOptional == "" {
		b2, err := cd.marshal(y)
		c.Check(err == nil && bytes.Equal(b, b2), "re-encode", "C13:re-encode:"+cd.def,
			fmt.Sprintf("Marshal(Unmarshal(b)) != b (%d vs %d bytes)", len(b2), len(b)), short(b))
	} else {
		c.Count("excluded:empty-optional")
	}
	return b
}

func trunc(x interface{}) string {
	s := fmt.Sprintf("%+v", x)
	if len(s) > 300 {
		s = s[:300] + "..."
	}
	return s
}

// ------------------------------------------------------------------------------------------ codecs

var cdTicket = codec{"Ticket",
	func(x interface{}) ([]byte, error) { return x.(*messages.Ticket).Marshal() },
	func(b []byte) (interface{}, error) { var t messages.Ticket; return &t, t.Unmarshal(b) }}

var cdAuthenticator = codec{"Authenticator",
	func(x interface{}) ([]byte, error) { return x.(*types.Authenticator).Marshal() },
	func(b []byte) (interface{}, error) { var t types.Authenticator; return &t, t.Unmarshal(b) }}

var cdEncryptedData = codec{"EncryptedData",
	func(x interface{}) ([]byte, error) { return x.(*types.EncryptedData).Marshal() },
	func(b []byte) (interface{}, error) { var t types.EncryptedData; return &t, t.Unmarshal(b) }}

var cdASReq = codec{"ASReq",
	func(x interface{}) ([]byte, error) { return x.(*messages.ASReq).Marshal() },
	func(b []byte) (interface{}, error) { var t messages.ASReq; return &t, t.Unmarshal(b) }}

var cdTGSReq = codec{"TGSReq",
	func(x interface{}) ([]byte, error) { return x.(*messages.TGSReq).Marshal() },
	func(b []byte) (interface{}, error) { var t messages.TGSReq; return &t, t.Unmarshal(b) }}

var cdKDCReqBody = codec{"KDCReqBody",
	func(x interface{}) ([]byte, error) { return x.(*messages.KDCReqBody).Marshal() },
	func(b []byte) (interface{}, error) { var t messages.KDCReqBody; return &t, t.Unmarshal(b) }}

var cdASRep = codec{"ASRep",
	func(x interface{}) ([]byte, error) { return x.(*messages.ASRep).Marshal() },
	func(b []byte) (interface{}, error) { var t messages.ASRep; return &t, t.Unmarshal(b) }}

var cdTGSRep = codec{"TGSRep",
	func(x interface{}) ([]byte, error) { return x.(*messages.TGSRep).Marshal() },
	func(b []byte) (interface{}, error) { var t messages.TGSRep; return &t, t.Unmarshal(b) }}

var cdEncKDCRepPart = codec{"EncASRepPart",
	func(x interface{}) ([]byte, error) { return x.(*messages.EncKDCRepPart).Marshal() },
	func(b []byte) (interface{}, error) { var t messages.EncKDCRepPart; return &t, t.Unmarshal(b) }}

var cdAPReq = codec{"APReq",
	func(x interface{}) ([]byte, error) { return x.(*messages.APReq).Marshal() },
	func(b []byte) (interface{}, error) { var t messages.APReq; return &t, t.Unmarshal(b) }}

var cdKRBError = codec{"KRBError",
	func(x interface{}) ([]byte, error) { return x.(*messages.KRBError).Marshal() },
	func(b []byte) (interface{}, error) { var t messages.KRBError; return &t, t.Unmarshal(b) }}

var cdKRBPriv = codec{"KRBPriv",
	func(x interface{}) ([]byte, error) { return x.(*messages.KRBPriv).Marshal() },
	func(b []byte) (interface{}, error) { var t messages.KRBPriv; return &t, t.Unmarshal(b) }}

// EncTicketPart has no Marshal method: NewTicket marshals it with asn1.Marshal + AddASNAppTag(3); the same two
// calls are made here (the bytes NewTicket really encrypts are compared in ticketOperations).
var cdEncTicketPart = codec{"EncTicketPart",
	func(x interface{}) ([]byte, error) {
		b, err := asn1.Marshal(*x.(*messages.EncTicketPart))
		if err != nil {
			return nil, err
		}
		return asn1tools.AddASNAppTag(b, 3), nil
	},
	func(b []byte) (interface{}, error) { var t messages.EncTicketPart; return &t, t.Unmarshal(b) }}

// ChangePasswdData has Marshal only; gofork's Unmarshal into the same struct is the decoder.
var cdChangePasswdData = codec{"ChangePasswdData",
	func(x interface{}) ([]byte, error) { return x.(*kadmin.ChangePasswdData).Marshal() },
	func(b []byte) (interface{}, error) {
		var t kadmin.ChangePasswdData
		rest, err := asn1.Unmarshal(b, &t)
		if err == nil && len(rest) != 0 {
			err = fmt.Errorf("trailing bytes")
		}
		return &t, err
	}}

// ------------------------------------------------------------------------------------------ value generators

func (g *gen) authenticator() *types.Authenticator {
	return &types.Authenticator{AVNO: g.pvno(), CRealm: g.str(), CName: g.principal(), Cksum: g.optChecksum(),
		Cusec: g.int(), CTime: g.time(), SubKey: g.optKey(), SeqNumber: func() int64 {
			if g.coin(0.4) {
				return 0
			}
			return g.i64()
		}(), AuthorizationData: g.optAuthData()}
}

func (g *gen) etypes() []int32 {
	l := make([]int32, g.pick(6))
	for i := range l {
		l[i] = g.i32()
	}
	return l
}

// kdc-options: at least 4 bytes (KDCReqBody.Unmarshal widens shorter words: shortFlagWords)
func (g *gen) kdcOptions() asn1.BitString { return g.flags() }

func (g *gen) kdcReqBody(ntickets int) messages.KDCReqBody {
	b := messages.KDCReqBody{KDCOptions: g.kdcOptions(), CName: g.optPrincipal(), Realm: g.str(), SName: g.optPrincipal(),
		From: g.optTime(), Till: g.time(), RTime: g.optTime(), Nonce: g.int(), EType: g.etypes(),
		Addresses: g.optHostAddrs(), EncAuthData: g.optEncData()}
	if ntickets > 0 {
		b.AdditionalTickets = make([]messages.Ticket, ntickets)
		for i := range b.AdditionalTickets {
			b.AdditionalTickets[i] = g.ticket()
		}
	}
	g.c.Count(fmt.Sprintf("additional-tickets=%d", ntickets))
	return b
}

func (g *gen) kdcReqFields(msgType int) messages.KDCReqFields {
	nt := 0
	if g.coin(0.3) {
		nt = 1 + g.pick(3)
	}
	return messages.KDCReqFields{PVNO: g.pvno(), MsgType: msgType, PAData: g.optPAData(), ReqBody: g.kdcReqBody(nt)}
}

func (g *gen) kdcRepFields(msgType int) messages.KDCRepFields {
	var pa []types.PAData
	if p := g.optPAData(); p != nil {
		pa = []types.PAData(p)
	}
	return messages.KDCRepFields{PVNO: g.pvno(), MsgType: msgType, PAData: pa, CRealm: g.str(), CName: g.principal(),
		Ticket: g.ticket(), EncPart: g.encData()}
}

func (g *gen) lastReqs() []messages.LastReq {
	l := make([]messages.LastReq, g.pick(4))
	for i := range l {
		l[i] = messages.LastReq{LRType: g.i32(), LRValue: g.time()}
	}
	return l
}

func (g *gen) encKDCRepPart() *messages.EncKDCRepPart {
	return &messages.EncKDCRepPart{Key: g.key(), LastReqs: g.lastReqs(), Nonce: g.int(), KeyExpiration: g.optTime(),
		Flags: g.flags(), AuthTime: g.time(), StartTime: g.optTime(), EndTime: g.time(), RenewTill: g.optTime(),
		SRealm: g.str(), SName: g.principal(), CAddr: g.optHostAddrs(), EncPAData: g.optPAData()}
}

func (g *gen) encTicketPart() *messages.EncTicketPart {
	var caddr types.HostAddresses
	if a := g.optHostAddrs(); a != nil {
		caddr = types.HostAddresses(a)
	}
	return &messages.EncTicketPart{Flags: g.flags(), Key: g.key(), CRealm: g.str(), CName: g.principal(),
		Transited: messages.TransitedEncoding{TRType: g.i32(), Contents: g.octets()}, AuthTime: g.time(),
		StartTime: g.optTime(), EndTime: g.time(), RenewTill: g.optTime(), CAddr: caddr, AuthorizationData: g.optAuthData()}
}

func (g *gen) krbError() *messages.KRBError {
	return &messages.KRBError{PVNO: g.pvno(), MsgType: 30, CTime: g.optTime(), Cusec: g.optInt(), STime: g.time(),
		Susec: g.int(), ErrorCode: g.i32(), CRealm: g.optStr(), CName: g.optPrincipal(), Realm: g.str(),
		SName: g.principal(), EText: g.optStr(), EData: g.optOctets()}
}

func (g *gen) changePasswdData() *kadmin.ChangePasswdData {
	return &kadmin.ChangePasswdData{NewPasswd: g.octets(), TargName: g.optPrincipal(), TargRealm: g.optStr()}
}

func (g *gen) messages(n int) {
	for i := 0; i < n; i++ {
		g.big = 0
		t := g.ticket()
		g.exercise(cdTicket, &t)
		g.exercise(cdAuthenticator, g.authenticator())
		e := g.encData()
		g.exercise(cdEncryptedData, &e)
		as := messages.ASReq{KDCReqFields: g.kdcReqFields(10)}
		g.exercise(cdASReq, &as)
		tgs := messages.TGSReq{KDCReqFields: g.kdcReqFields(12)}
		g.exercise(cdTGSReq, &tgs)
		body := g.kdcReqBody(i % 4)
		g.exercise(cdKDCReqBody, &body)
		asr := messages.ASRep{KDCRepFields: g.kdcRepFields(11)}
		g.exercise(cdASRep, &asr)
		tgr := messages.TGSRep{KDCRepFields: g.kdcRepFields(13)}
		g.exercise(cdTGSRep, &tgr)
		g.exercise(cdEncKDCRepPart, g.encKDCRepPart())
		ap := messages.APReq{PVNO: g.pvno(), MsgType: 14, APOptions: g.flags(), Ticket: g.ticket(), EncryptedAuthenticator: g.encData()}
		g.exercise(cdAPReq, &ap)
		g.exercise(cdKRBError, g.krbError())
		priv := messages.KRBPriv{PVNO: g.pvno(), MsgType: 21, EncPart: g.encData()}
		g.exercise(cdKRBPriv, &priv)
		g.exercise(cdEncTicketPart, g.encTicketPart())
		g.exercise(cdChangePasswdData, g.changePasswdData())
	}
	// every flag bit, in every flag-carrying position
	for bit := 0; bit < 32; bit++ {
		f := types.NewKrbFlags()
		types.SetFlag(&f, bit)
		g.c.Count("flag-bit-in-message")
		ap := messages.APReq{PVNO: 5, MsgType: 14, APOptions: f, Ticket: g.ticket(), EncryptedAuthenticator: g.encData()}
		g.exercise(cdAPReq, &ap)
		body := g.kdcReqBody(0)
		body.KDCOptions = f
		g.exercise(cdKDCReqBody, &body)
		etp := g.encTicketPart()
		etp.Flags = f
		g.exercise(cdEncTicketPart, etp)
		ekp := g.encKDCRepPart()
		ekp.Flags = f
		g.exercise(cdEncKDCRepPart, ekp)
	}
}

// strings and byte strings long enough for three length octets (>= 65536), one field at a time
func (g *gen) bigValues() {
	reps := 2
	if !g.c.Quick() {
		reps = 12
	}
	for i := 0; i < reps; i++ {
		g.big = 1
		t := g.ticket()
		g.exercise(cdTicket, &t)
		g.big = 1
		g.exercise(cdKRBError, g.krbError())
		g.big = 1
		ap := messages.APReq{PVNO: 5, MsgType: 14, APOptions: g.flags(), Ticket: g.ticket(), EncryptedAuthenticator: g.encData()}
		g.exercise(cdAPReq, &ap)
		g.big = 1
		g.exercise(cdChangePasswdData, g.changePasswdData())
		g.big = 1
		tgs := messages.TGSReq{KDCReqFields: g.kdcReqFields(12)}
		g.exercise(cdTGSReq, &tgs)
	}
	g.big = 0
	if !g.c.Quick() {
		// four length octets: a 2^24-byte cipher.  Too large for a model case line; the Go-side oracles run.
		e := types.EncryptedData{EType: 18, Cipher: make([]byte, 1<<24)}
		b, err := e.Marshal()
		var e2 types.EncryptedData
		err2 := e2.Unmarshal(b)
		g.c.Check(err == nil && err2 == nil && reflect.DeepEqual(e, e2) && len(asn1proj.LenOctets(len(b))) == 5 &&
			asn1tools.GetLengthFromASN(b) == len(b)-6 && asn1tools.GetNumberBytesInLengthHeader(b) == 5,
			"roundtrip-4-length-octets", "C13:roundtrip:EncryptedData:2^24", "16 MiB cipher", nil)
		g.c.Count("outer-length-octets=5")
	}
}

// A SEQUENCE OF in an OPTIONAL position inherits `optional` for its elements in gofork: an element equal to the
// zero value is not written.  Decoding the encoding then yields a shorter list: a genuine (external-library)
// deviation from "decoding an encoding yields an equal value"; stable signature, see known_findings.
func (g *gen) zeroElementProbe() {
	as := messages.ASReq{KDCReqFields: messages.KDCReqFields{PVNO: 5, MsgType: 10,
		PAData: types.PADataSequence{{PADataType: 2, PADataValue: []byte{1}}, {}, {PADataType: 3, PADataValue: []byte{2}}},
		ReqBody: messages.KDCReqBody{KDCOptions: types.NewKrbFlags(), Realm: "R", Till: time.Unix(1700000000, 0).UTC(),
			Nonce: 1, EType: []int32{18}}}}
	g.c.Count("probe:zero-element-in-optional-seqof")
	g.exercise(cdASReq, &as)
}

// ------------------------------------------------------------------------------------------ ticket operations

func (g *gen) ticketOperations() {
	c := g.c
	t0 := time.Unix(1700000000, 0).UTC()
	type tk struct {
		etype int32
		pw    string
	}
	for _, e := range []tk{{17, "pw-aes128"}, {18, "pw-aes256"}, {19, "pw-sha2-128"}, {20, "pw-sha2-256"}, {23, "pw-rc4"}} {
		reps := 2
		if !c.Quick() {
			reps = 10
		}
		for rep := 0; rep < reps; rep++ {
			kt := keytab.New()
			sname := types.PrincipalName{NameType: 2, NameString: []string{"HTTP", fmt.Sprintf("host%04x.test", g.pick(1<<16))}}
			realm := "TEST.REALM"
			if err := kt.AddEntry(strings.Join(sname.NameString, "/"), realm, e.pw, t0, 2, e.etype); err != nil {
				c.Check(false, "setup", "C13:setup:keytab", err.Error(), nil)
				continue
			}
			cname := g.principal()
			flags := g.flags()
			flags.Bytes, flags.BitLength = flags.Bytes[:4:4], 32
			tkt, skey, err := messages.NewTicket(cname, realm, sname, realm, flags, kt, e.etype, 2, t0, g.optTime(), t0.Add(time.Hour), g.optTime())
			if err != nil {
				c.Check(false, "setup", "C13:setup:NewTicket", err.Error(), nil)
				continue
			}
			c.Count(fmt.Sprintf("ticket-ops:etype=%d", e.etype))
			ticketOps++
			if ticketOps%2 == 0 {
				// the optional kvno of the enc-part absent on the wire (the keytab then offers its newest key):
				// decryption must not fill it in
				tkt.EncPart.KVNO = 0
				c.Count("ticket-ops:kvno-absent")
			}
			b1 := g.exercise(cdTicket, &tkt)
			if b1 == nil {
				continue
			}
			var t2 messages.Ticket
			if err := t2.Unmarshal(b1); err != nil {
				c.Check(false, "roundtrip", "C13:roundtrip:unmarshal-error:Ticket", err.Error(), short(b1))
				continue
			}
			// intermediate operation: decrypt with the service key
			if err := t2.DecryptEncPart(kt, nil); err != nil {
				c.Check(false, "setup", "C13:setup:DecryptEncPart", err.Error(), nil)
				continue
			}
			c.Check(reflect.DeepEqual(t2.DecryptedEncPart.Key, skey), "decrypted-session-key", "C13:ticket:session-key", "decrypted part does not carry the session key NewTicket returned", nil)
			b2, err := t2.Marshal()
			c.Check(err == nil && bytes.Equal(b1, b2), "marshal-after-decrypt", "C13:ticket-marshal-includes-decrypted-part",
				fmt.Sprintf("Ticket.Marshal after Decrypt: %d -> %d bytes", len(b1), len(b2)), short(b1))
			c.Check(err == nil && !bytes.Contains(b2, skey.KeyValue), "marshal-after-decrypt-no-key", "C20:ticket-marshal-leaks-session-key",
				"re-encoded ticket contains the plaintext session key", nil)
			// the model encodes the projected (decrypted) Go value along the wire schema: the decrypted part is
			// not a wire field, so the expected bytes are the original ones
			ty := g.w.Get("Ticket")
			if val, err := asn1proj.ValueOf(reflect.ValueOf(&t2), ty); err == nil && b2 != nil {
				g.mcase("der_encode", jv.L(ty.JV(), val), jv.Ok(jv.B(b2)))
			}
			// the plaintext EncTicketPart NewTicket encrypted: model encodes the decrypted struct to exactly it
			if pt, err := crypto.DecryptEncPart(t2.EncPart, mustKey(kt, sname, realm, e.etype), keyusage.KDC_REP_TICKET); err == nil {
				ety := g.w.Get("EncTicketPart")
				if val, err := asn1proj.ValueOf(reflect.ValueOf(&t2.DecryptedEncPart), ety); err == nil {
					g.mcase("der_encode", jv.L(ety.JV(), val), jv.Ok(jv.B(pt)))
					g.mcase("der_decode", jv.L(ety.JV(), jv.B(pt)), jv.Ok(val))
				}
			}
			// the same ticket inside an AP-REQ, a KDC-REP and the additional tickets of a KDC-REQ-BODY
			ap := messages.APReq{PVNO: 5, MsgType: 14, APOptions: types.NewKrbFlags(), Ticket: tkt, EncryptedAuthenticator: g.encData()}
			apb, err1 := ap.Marshal()
			ap.Ticket = t2
			apb2, err2 := ap.Marshal()
			c.Check(err1 == nil && err2 == nil && bytes.Equal(apb, apb2), "marshal-after-decrypt:AP-REQ", "C13:ticket-marshal-includes-decrypted-part",
				fmt.Sprintf("AP-REQ with a decrypted ticket: %d -> %d bytes", len(apb), len(apb2)), short(apb))
			if ty := g.w.Get("APReq"); err2 == nil {
				if val, err := asn1proj.ValueOf(reflect.ValueOf(&ap), ty); err == nil {
					g.mcase("der_encode", jv.L(ty.JV(), val), jv.Ok(jv.B(apb2)))
				}
			}
			rep := messages.TGSRep{KDCRepFields: messages.KDCRepFields{PVNO: 5, MsgType: 13, CRealm: realm, CName: cname, Ticket: tkt, EncPart: g.encData()}}
			rb, err1 := rep.Marshal()
			rep.Ticket = t2
			rb2, err2 := rep.Marshal()
			c.Check(err1 == nil && err2 == nil && bytes.Equal(rb, rb2), "marshal-after-decrypt:TGS-REP", "C13:ticket-marshal-includes-decrypted-part",
				fmt.Sprintf("TGS-REP with a decrypted ticket: %d -> %d bytes", len(rb), len(rb2)), short(rb))
			body := g.kdcReqBody(0)
			body.AdditionalTickets = []messages.Ticket{tkt}
			bb, err1 := body.Marshal()
			body.AdditionalTickets = []messages.Ticket{t2}
			bb2, err2 := body.Marshal()
			c.Check(err1 == nil && err2 == nil && bytes.Equal(bb, bb2), "marshal-after-decrypt:KDC-REQ-BODY", "C13:ticket-marshal-includes-decrypted-part",
				fmt.Sprintf("KDC-REQ-BODY with a decrypted additional ticket: %d -> %d bytes", len(bb), len(bb2)), short(bb))
		}
	}
	// KRB-PRIV: encrypting and decrypting the private part; Marshal ignores the decrypted part
	for rep := 0; rep < 6; rep++ {
		part := messages.EncKrbPrivPart{UserData: g.octets(), Timestamp: g.optTime(), Usec: g.optInt(), SequenceNumber: int64(g.optInt()),
			SAddress: g.hostAddr(), RAddress: g.optHostAddr()}
		key := types.EncryptionKey{KeyType: 18, KeyValue: g.bytesN(32)}
		p := messages.NewKRBPriv(part)
		if err := p.EncryptEncPart(key); err != nil {
			c.Check(false, "setup", "C13:setup:KRBPriv.EncryptEncPart", err.Error(), nil)
			continue
		}
		c.Count("krb-priv-ops")
		b1, err := p.Marshal()
		var p2 messages.KRBPriv
		err2 := p2.Unmarshal(b1)
		if err != nil || err2 != nil {
			c.Check(false, "roundtrip", "C13:roundtrip:unmarshal-error:KRBPriv", fmt.Sprint(err, err2), short(b1))
			continue
		}
		err = p2.DecryptEncPart(key)
		c.Check(err == nil && reflect.DeepEqual(p2.DecryptedEncPart, part), "roundtrip-deep-equal", "C13:roundtrip:EncKrbPrivPart",
			fmt.Sprintf("decrypted private part differs: %v", err), nil)
		b2, err := p2.Marshal()
		c.Check(err == nil && bytes.Equal(b1, b2), "marshal-after-decrypt:KRB-PRIV", "C13:krbpriv-marshal-includes-decrypted-part",
			fmt.Sprintf("%d -> %d bytes", len(b1), len(b2)), short(b1))
		ty := g.w.Get("KRBPriv")
		if val, err := asn1proj.ValueOf(reflect.ValueOf(&p2), ty); err == nil {
			g.mcase("der_encode", jv.L(ty.JV(), val), jv.Ok(jv.B(b1)))
			g.mcase("der_decode", jv.L(ty.JV(), jv.B(b1)), jv.Ok(val))
		}
		if pt, err := crypto.DecryptEncPart(p2.EncPart, key, keyusage.KRB_PRIV_ENCPART); err == nil {
			ety := g.w.Get("EncKrbPrivPart")
			if val, err := asn1proj.ValueOf(reflect.ValueOf(&part), ety); err == nil {
				g.mcase("der_encode", jv.L(ety.JV(), val), jv.Ok(jv.B(pt)))
				g.mcase("der_decode", jv.L(ety.JV(), jv.B(pt)), jv.Ok(val))
			}
		}
	}
}

func mustKey(kt *keytab.Keytab, sname types.PrincipalName, realm string, et int32) types.EncryptionKey {
	k, _, err := kt.GetEncryptionKey(sname, realm, 2, et)
	if err != nil {
		panic(err)
	}
	return k
}

// ------------------------------------------------------------------------------------------ additional tickets

func (g *gen) additionalTickets() {
	c := g.c
	reps := 6
	if !c.Quick() {
		reps = 60
	}
	for rep := 0; rep < reps; rep++ {
		for n := 0; n <= 3; n++ {
			tk := make([]messages.Ticket, n)
			for i := range tk {
				tk[i] = g.ticket()
			}
			c.Count(fmt.Sprintf("ticket-sequence=%d", n))
			var raw asn1.RawValue
			var err error
			if p, pv := hctx.Guard(func() { raw, err = messages.MarshalTicketSequence(tk) }); p || err != nil {
				c.Check(false, "ticket-sequence", "C13:ticket-sequence:marshal", fmt.Sprint(pv, err), nil)
				continue
			}
			if n == 0 {
				c.Check(len(raw.Bytes) == 0, "ticket-sequence-empty", "C13:ticket-sequence:empty", "no tickets must give no bytes", nil)
				continue
			}
			// raw.Bytes is the SEQUENCE OF Ticket
			ty := &asn1proj.Ty{K: asn1proj.KSeqOf, Elem: g.w.Get("Ticket")}
			val, err := asn1proj.ValueOf(reflect.ValueOf(tk), ty)
			if err != nil {
				c.Check(false, "projection", "C13:projection:ticket-sequence", err.Error(), nil)
				continue
			}
			g.mcase("der_encode", jv.L(ty.JV(), val), jv.Ok(jv.B(raw.Bytes)))
			g.mcase("der_decode", jv.L(ty.JV(), jv.B(raw.Bytes)), jv.Ok(val))
			var back []messages.Ticket
			if p, pv := hctx.Guard(func() { back, err = messages.VerifUnmarshalTicketsSequence(raw) }); p || err != nil {
				c.Check(false, "ticket-sequence-roundtrip", "C13:ticket-sequence:unmarshal", fmt.Sprint(pv, err), short(raw.Bytes))
				continue
			}
			c.Check(reflect.DeepEqual(tk, back), "ticket-sequence-roundtrip", "C13:ticket-sequence:roundtrip",
				fmt.Sprintf("%d tickets in, %d out", n, len(back)), short(raw.Bytes))
		}
	}
}

// ------------------------------------------------------------------------------------------ SPNEGO

var (
	oidSPNEGO = asn1.ObjectIdentifier{1, 3, 6, 1, 5, 5, 2}
	oidKRB5   = asn1.ObjectIdentifier{1, 2, 840, 113554, 1, 2, 2}
	oidMSKRB5 = asn1.ObjectIdentifier{1, 2, 840, 48018, 1, 2, 2}
	oidNTLM   = asn1.ObjectIdentifier{1, 3, 6, 1, 4, 1, 311, 2, 2, 10}
	// DER of the two mechanism OIDs, written out by hand (independent of gofork)
	derOIDSPNEGO = []byte{0x06, 0x06, 0x2b, 0x06, 0x01, 0x05, 0x05, 0x02}
	derOIDKRB5   = []byte{0x06, 0x09, 0x2a, 0x86, 0x48, 0x86, 0xf7, 0x12, 0x01, 0x02, 0x02}
)

func (g *gen) oid() asn1.ObjectIdentifier {
	switch g.pick(6) {
	case 0:
		return oidKRB5
	case 1:
		return oidMSKRB5
	case 2:
		return oidNTLM
	case 3:
		return oidSPNEGO
	}
	a := g.pick(3)
	b := g.pick(40)
	if a == 2 && g.coin(0.5) {
		b = g.pick(1000)
	}
	o := asn1.ObjectIdentifier{a, b}
	for i := g.pick(8); i > 0; i-- {
		switch g.pick(3) {
		case 0:
			o = append(o, []int{0, 1, 127, 128, 16383, 16384, 1<<28 - 1}[g.pick(7)]) // gofork decodes arcs below 2^28 only
		default:
			o = append(o, g.pick(1<<20))
		}
	}
	return o
}

func oidJV(o asn1.ObjectIdentifier) jv.V {
	as := make([]jv.V, len(o))
	for i, a := range o {
		as[i] = jv.I(int64(a))
	}
	return jv.L(as...)
}

// frame is the independent GSS-API framing writer: 0x60 len { oid-TLV inner }
func frame(oidDER, inner []byte) []byte {
	body := append(append([]byte{}, oidDER...), inner...)
	out := append([]byte{0x60}, asn1proj.LenOctets(len(body))...)
	return append(out, body...)
}

func (g *gen) spnego(n int) {
	c := g.c
	initTy, respTy := g.w.Get("NegTokenInit"), g.w.Get("NegTokenResp")
	alts := jv.L(jv.L(jv.I(0), initTy.JV()), jv.L(jv.I(1), respTy.JV()))
	for i := 0; i < n; i++ {
		// ---- NegTokenInit ----
		mt := make([]asn1.ObjectIdentifier, g.pick(4))
		for j := range mt {
			mt[j] = g.oid()
		}
		ni := spnego.NegTokenInit{MechTypes: mt, MechTokenBytes: g.optOctets(), MechListMIC: g.optOctets()}
		if g.coin(0.3) {
			ni.ReqFlags = asn1.BitString{Bytes: []byte{byte(g.pick(256)) &^ 1}, BitLength: 7}
		}
		c.Count("type=NegTokenInit")
		nib, err := ni.Marshal()
		if err != nil {
			c.Check(false, "marshal-ok", "C13:marshal-error:NegTokenInit", err.Error(), fmt.Sprintf("%+v", ni))
			continue
		}
		if val, err := asn1proj.ValueOf(reflect.ValueOf(&ni), initTy); err == nil {
			g.mcase("choice_encode", jv.L(jv.I(0), initTy.JV(), val), jv.Ok(jv.B(nib)))
			g.mcase("choice_decode", jv.L(alts, jv.B(nib)), jv.Ok(jv.I(0), val))
		} else {
			c.Check(false, "projection", "C13:projection:NegTokenInit", err.Error(), nil)
		}
		var ni2 spnego.NegTokenInit
		err = ni2.Unmarshal(nib)
		c.Check(err == nil && reflect.DeepEqual(ni, ni2), "roundtrip-deep-equal", "C13:roundtrip:NegTokenInit", fmt.Sprintf("%v: %+v vs %+v", err, ni, ni2), short(nib))
		if err == nil {
			b2, err := ni2.Marshal()
			c.Check(err == nil && bytes.Equal(nib, b2), "re-encode", "C13:re-encode:NegTokenInit", "", short(nib))
		}
		// SPNEGOToken framing (init): [APPLICATION 0] { OID spnego, NegotiationToken }
		st := spnego.SPNEGOToken{Init: true, NegTokenInit: ni}
		sb, err := st.Marshal()
		c.Check(err == nil && bytes.Equal(sb, frame(derOIDSPNEGO, nib)), "spnego-framing", "C13:framing:SPNEGOToken", "SPNEGOToken.Marshal is not 60 len { OID 1.3.6.1.5.5.2, NegTokenInit }", short(sb))
		if err == nil {
			g.mcase("gss_frame", jv.L(oidJV(oidSPNEGO), jv.B(nib)), jv.Ok(jv.B(sb)))
			g.mcase("gss_unframe", jv.B(sb), jv.Ok(oidJV(oidSPNEGO), jv.B(nib)))
			var st2 spnego.SPNEGOToken
			err = st2.Unmarshal(sb)
			c.Check(err == nil && st2.Init && !st2.Resp && reflect.DeepEqual(st2.NegTokenInit, ni), "roundtrip-deep-equal", "C13:roundtrip:SPNEGOToken", fmt.Sprint(err), short(sb))
			if err == nil {
				sb2, err := st2.Marshal()
				c.Check(err == nil && bytes.Equal(sb, sb2), "re-encode", "C13:re-encode:SPNEGOToken", "", short(sb))
			}
		}
		c.Count("type=SPNEGOToken")

		// ---- NegTokenResp ----
		nr := spnego.NegTokenResp{NegState: asn1.Enumerated(g.pick(4)), ResponseToken: g.optOctets(), MechListMIC: g.optOctets()}
		if g.coin(0.1) {
			nr.NegState = asn1.Enumerated(g.i32())
		}
		if g.coin(0.6) {
			nr.SupportedMech = g.oid()
		}
		c.Count("type=NegTokenResp")
		nrb, err := nr.Marshal()
		if err != nil {
			c.Check(false, "marshal-ok", "C13:marshal-error:NegTokenResp", err.Error(), fmt.Sprintf("%+v", nr))
			continue
		}
		if val, err := asn1proj.ValueOf(reflect.ValueOf(&nr), respTy); err == nil {
			g.mcase("choice_encode", jv.L(jv.I(1), respTy.JV(), val), jv.Ok(jv.B(nrb)))
			g.mcase("choice_decode", jv.L(alts, jv.B(nrb)), jv.Ok(jv.I(1), val))
		} else {
			c.Check(false, "projection", "C13:projection:NegTokenResp", err.Error(), nil)
		}
		var nr2 spnego.NegTokenResp
		err = nr2.Unmarshal(nrb)
		c.Check(err == nil && reflect.DeepEqual(nr, nr2), "roundtrip-deep-equal", "C13:roundtrip:NegTokenResp", fmt.Sprintf("%v: %+v vs %+v", err, nr, nr2), short(nrb))
		if err == nil {
			b2, err := nr2.Marshal()
			c.Check(err == nil && bytes.Equal(nrb, b2), "re-encode", "C13:re-encode:NegTokenResp", "", short(nrb))
		}
		// SPNEGOToken (resp) is the bare NegotiationToken
		sr := spnego.SPNEGOToken{Resp: true, NegTokenResp: nr}
		srb, err := sr.Marshal()
		c.Check(err == nil && bytes.Equal(srb, nrb), "spnego-framing", "C13:framing:SPNEGOToken-resp", "", short(srb))
		var sr2 spnego.SPNEGOToken
		err = sr2.Unmarshal(nrb)
		c.Check(err == nil && sr2.Resp && !sr2.Init && reflect.DeepEqual(sr2.NegTokenResp, nr), "roundtrip-deep-equal", "C13:roundtrip:SPNEGOToken-resp", fmt.Sprint(err), short(nrb))

		// ---- KRB5 mechanism token: [APPLICATION 0] { OID krb5, 01 00, AP-REQ } ----
		ap := messages.APReq{PVNO: 5, MsgType: 14, APOptions: g.flags(), Ticket: g.ticket(), EncryptedAuthenticator: g.encData()}
		apb, err := ap.Marshal()
		if err != nil {
			continue
		}
		c.Count("type=KRB5Token")
		kb := frame(derOIDKRB5, append([]byte{1, 0}, apb...))
		g.mcase("krb5_token", jv.L(oidJV(oidKRB5), jv.B([]byte{1, 0}), jv.B(apb)), jv.Ok(jv.B(kb)))
		g.mcase("krb5_untoken", jv.B(kb), jv.Ok(oidJV(oidKRB5), jv.B([]byte{1, 0}), jv.B(apb)))
		var kt spnego.KRB5Token
		err = kt.Unmarshal(kb)
		c.Check(err == nil && kt.OID.Equal(oidKRB5) && bytes.Equal(spnego.VerifKRB5TokenID(&kt), []byte{1, 0}) && reflect.DeepEqual(kt.APReq, ap),
			"roundtrip-deep-equal", "C13:roundtrip:KRB5Token", fmt.Sprint(err), short(kb))
		if err == nil {
			kb2, err := kt.Marshal()
			c.Check(err == nil && bytes.Equal(kb, kb2), "re-encode", "C13:re-encode:KRB5Token", "KRB5Token.Marshal(Unmarshal(b)) != b", short(kb))
		}
		// ... and carried as the mechToken of a NegTokenInit inside the SPNEGO framing
		if i%8 == 0 {
			full := spnego.SPNEGOToken{Init: true, NegTokenInit: spnego.NegTokenInit{MechTypes: []asn1.ObjectIdentifier{oidKRB5}, MechTokenBytes: kb}}
			fb, err := full.Marshal()
			var full2 spnego.SPNEGOToken
			if err == nil {
				err = full2.Unmarshal(fb)
			}
			var inner spnego.KRB5Token
			if err == nil {
				err = inner.Unmarshal(full2.NegTokenInit.MechTokenBytes)
			}
			c.Check(err == nil && reflect.DeepEqual(inner.APReq, ap), "roundtrip-deep-equal", "C13:roundtrip:SPNEGO-KRB5-nesting", fmt.Sprint(err), short(fb))
		}
	}
}

// ------------------------------------------------------------------------------------------ length helpers

func (g *gen) lengthHelpers() {
	c := g.c
	one := func(l int, model bool) {
		var m []byte
		p, _ := hctx.Guard(func() { m = asn1tools.MarshalLengthBytes(l) })
		if model {
			if p {
				g.mcase("marshal_len", jv.I(int64(l)), jv.Panic())
			} else {
				g.mcase("marshal_len", jv.I(int64(l)), jv.Ok(jv.B(m)))
			}
		}
		if l < 0 || p {
			return
		}
		// direct oracle: independent DER length octets, and the round trip through the two readers
		want := asn1proj.LenOctets(l)
		ok := bytes.Equal(m, want)
		tlvHead := append([]byte{0x30}, m...)
		var got, nb int
		p2, _ := hctx.Guard(func() {
			got = asn1tools.GetLengthFromASN(tlvHead)
			nb = asn1tools.GetNumberBytesInLengthHeader(tlvHead)
		})
		c.Check(ok && !p2 && got == l && nb == len(m), "length-octets", "C13:length-octets",
			fmt.Sprintf("l=%d marshal=%x want=%x get=%d hdr=%d", l, m, want, got, nb), l)
		if model {
			g.mcase("get_length", jv.B(tlvHead), jv.Ok(jv.I(int64(got))))
			g.mcase("len_hdr_bytes", jv.B(tlvHead), jv.Ok(jv.I(int64(nb))))
		}
	}
	// model cases: every l <= 2^16 (quick) / 2^18 (thorough) ...
	lim := 1 << 16
	if !c.Quick() {
		lim = 1 << 18
	}
	for l := 0; l <= lim; l++ {
		one(l, true)
	}
	c.Count(fmt.Sprintf("length-helpers:model-exhaustive<=%d", lim))
	// ... every power-of-two / power-of-256 neighbourhood up to the int64 range, negatives, the panic range
	for k := uint(7); k < 63; k++ {
		for d := -2; d <= 2; d++ {
			one(int(int64(1)<<k)+d, true)
		}
	}
	for _, l := range []int{-1, -2, -127, -128, -129, -255, -256, -257, math.MinInt64, math.MinInt64 + 1, math.MaxInt64, math.MaxInt64 - 1, 1<<56 - 1, 1 << 56, 1<<56 + 1} {
		one(l, true)
	}
	ns := 20000
	if !c.Quick() {
		ns = 300000
	}
	for i := 0; i < ns; i++ {
		one(g.r.Intn(1<<24+1), true)
	}
	for i := 0; i < 2000; i++ {
		one(int(g.r.Int63()>>uint(g.pick(40))), true)
	}
	// direct oracle, exhaustive over all lengths 0..2^24 (thorough; 2^20 quick)
	ex := 1 << 20
	if !c.Quick() {
		ex = 1 << 24
	}
	for l := lim + 1; l <= ex; l++ {
		one(l, false)
	}
	c.Count(fmt.Sprintf("length-helpers:oracle-exhaustive<=%d", ex))

	// GetLengthFromASN / GetNumberBytesInLengthHeader on arbitrary heads: short inputs panic, long forms with
	// leading zeros or more than 8 octets wrap — the model says which
	for i := 0; i < 3000; i++ {
		var b []byte
		switch g.pick(4) {
		case 0:
			b = g.bytesN(g.pick(4))
		case 1:
			n := g.pick(12)
			b = append([]byte{0x30, byte(0x80 + n)}, g.bytesN(g.pick(n+2))...)
		default:
			n := g.pick(10)
			b = append([]byte{byte(g.pick(256)), byte(0x80 + n)}, g.bytesN(n+g.pick(3))...)
		}
		b = b[:len(b):len(b)] // cap = len: the model's slice expression panics beyond the length (Go: beyond the capacity)
		var got, nb int
		if p, _ := hctx.Guard(func() { got = asn1tools.GetLengthFromASN(b) }); p {
			g.mcase("get_length", jv.B(b), jv.Panic())
		} else {
			g.mcase("get_length", jv.B(b), jv.Ok(jv.I(int64(got))))
		}
		if p, _ := hctx.Guard(func() { nb = asn1tools.GetNumberBytesInLengthHeader(b) }); p {
			g.mcase("len_hdr_bytes", jv.B(b), jv.Panic())
		} else {
			g.mcase("len_hdr_bytes", jv.B(b), jv.Ok(jv.I(int64(nb))))
		}
	}
	// AddASNAppTag
	for i := 0; i < 400; i++ {
		body := g.bytesN([]int{0, 1, 127, 128, 255, 256, 1000, 65535, 65536}[g.pick(9)])
		tag := g.pick(31)
		if g.coin(0.1) {
			tag = 31 + g.pick(300)
		}
		out := asn1tools.AddASNAppTag(body, tag)
		g.mcase("add_app_tag", jv.L(jv.B(body), jv.I(int64(tag))), jv.Ok(jv.B(out)))
	}
}

// ------------------------------------------------------------------------------------------ flag helpers

func bitsJV(f asn1.BitString, i int) jv.V {
	return jv.L(jv.B(f.Bytes), jv.I(int64(f.BitLength)), jv.I(int64(i)))
}

func (g *gen) flagHelpers() {
	c := g.c
	for n := 0; n <= 6; n++ {
		for i := -9; i < 8*n+10 || i < 42; i++ {
			for variant := 0; variant < 3; variant++ {
				base := asn1.BitString{Bytes: make([]byte, n), BitLength: 8 * n}
				switch variant {
				case 1:
					for k := range base.Bytes {
						base.Bytes[k] = 0xff
					}
				case 2:
					g.r.Read(base.Bytes)
				}
				c.Count("flag-helper-cases")
				// SetFlag
				f := asn1.BitString{Bytes: append([]byte{}, base.Bytes...), BitLength: base.BitLength}
				in := bitsJV(f, i)
				if p, _ := hctx.Guard(func() { types.SetFlag(&f, i) }); p {
					g.mcase("set_flag", in, jv.Panic())
				} else {
					g.mcase("set_flag", in, jv.Ok(jv.B(f.Bytes), jv.I(int64(f.BitLength))))
					if i >= 0 {
						// direct oracle: RFC 4120 5.2.8 numbering — flag i is bit 7-(i mod 8) of octet i/8,
						// every other bit is as before (of the word padded to 4 bytes)
						want := append([]byte{}, base.Bytes...)
						for len(want) < 4 {
							want = append(want, 0)
						}
						want[i/8] |= 0x80 >> uint(i%8)
						c.Check(bytes.Equal(f.Bytes, want) && types.IsFlagSet(&f, i), "flag-bit-numbering", "C13:flags:set", fmt.Sprintf("n=%d i=%d got=%x want=%x", n, i, f.Bytes, want), nil)
					}
				}
				// UnsetFlag
				f = asn1.BitString{Bytes: append([]byte{}, base.Bytes...), BitLength: base.BitLength}
				in = bitsJV(f, i)
				if p, _ := hctx.Guard(func() { types.UnsetFlag(&f, i) }); p {
					g.mcase("unset_flag", in, jv.Panic())
				} else {
					g.mcase("unset_flag", in, jv.Ok(jv.B(f.Bytes), jv.I(int64(f.BitLength))))
					if i >= 0 {
						want := append([]byte{}, base.Bytes...)
						for len(want) < 4 {
							want = append(want, 0)
						}
						want[i/8] &^= 0x80 >> uint(i%8)
						c.Check(bytes.Equal(f.Bytes, want) && !types.IsFlagSet(&f, i), "flag-bit-numbering", "C13:flags:unset", fmt.Sprintf("n=%d i=%d got=%x want=%x", n, i, f.Bytes, want), nil)
					}
				}
				// IsFlagSet (must never panic: a flag beyond the word is not set)
				f = asn1.BitString{Bytes: append([]byte{}, base.Bytes...), BitLength: base.BitLength}
				var set bool
				p, pv := hctx.Guard(func() { set = types.IsFlagSet(&f, i) })
				if p {
					g.mcase("is_flag_set", bitsJV(f, i), jv.Panic())
				} else {
					g.mcase("is_flag_set", bitsJV(f, i), jv.Ok(jv.Bool(set)))
				}
				if i >= 0 {
					want := i/8 < n && base.Bytes[i/8]&(0x80>>uint(i%8)) != 0
					c.Check(!p && set == want, "is-flag-set", "C04:panic:types.IsFlagSet:index", fmt.Sprintf("n=%d i=%d panic=%v (%v) got=%v want=%v", n, i, p, pv, set, want), nil)
				}
			}
		}
	}
}

// Flag words shorter than 32 bits as a peer may send them: a decoded EncTicketPart / EncKDCRepPart keeps the
// word as received (IsFlagSet must cope), a decoded KDC-REQ-BODY widens it to 32 bits and every transmitted
// flag must keep its number.
func (g *gen) shortFlagWords() {
	c := g.c
	t0 := time.Unix(1700000000, 0).UTC()
	for n := 0; n <= 4; n++ {
		for rep := 0; rep < 6; rep++ {
			w := asn1.BitString{Bytes: g.bytesN(n), BitLength: 8 * n}
			if rep == 0 && n > 0 {
				w.Bytes[0] = 0x40
			}
			c.Count(fmt.Sprintf("short-flag-word=%d", n))
			// EncTicketPart as decoded from the wire, then the validity check of a service
			etp := messages.EncTicketPart{Flags: w, Key: types.EncryptionKey{KeyType: 18, KeyValue: g.bytesN(32)}, CRealm: "R",
				CName: types.PrincipalName{NameType: 1, NameString: []string{"u"}}, Transited: messages.TransitedEncoding{Contents: []byte{}},
				AuthTime: t0, EndTime: t0.Add(time.Hour)}
			b := g.exercise(cdEncTicketPart, &etp)
			if b != nil {
				var d messages.EncTicketPart
				if err := d.Unmarshal(b); err == nil {
					tk := messages.Ticket{DecryptedEncPart: d}
					p, pv := hctx.Guard(func() { tk.Valid(5 * time.Minute) })
					c.Check(!p, "short-flags-no-panic", "C04:panic:types.IsFlagSet:index", fmt.Sprintf("Ticket.Valid on a decoded EncTicketPart with %d flag bytes: %v", n, pv), short(b))
					bad := -1
					for i := 0; i < 32 && bad < 0; i++ {
						var set bool
						p, _ := hctx.Guard(func() { set = types.IsFlagSet(&d.Flags, i) })
						want := i/8 < n && w.Bytes[i/8]&(0x80>>uint(i%8)) != 0
						if p || set != want {
							bad = i
						}
					}
					c.Check(bad < 0, "short-flags-read", "C04:panic:types.IsFlagSet:index", fmt.Sprintf("%d flag bytes, flag %d: panic or wrong value", n, bad), short(b))
				}
			}
			// KDC-REQ-BODY: widened on decode; flags keep their numbers
			body := messages.KDCReqBody{KDCOptions: w, Realm: "R", Till: t0, Nonce: 1, EType: []int32{18}}
			bb, err := body.Marshal()
			if err != nil {
				continue
			}
			ty := g.w.Get("KDCReqBody")
			if val, err := asn1proj.ValueOf(reflect.ValueOf(&body), ty); err == nil {
				g.mcase("der_encode", jv.L(ty.JV(), val), jv.Ok(jv.B(bb)))
				g.mcase("der_decode", jv.L(ty.JV(), jv.B(bb)), jv.Ok(val))
			}
			var d messages.KDCReqBody
			if err := d.Unmarshal(bb); err != nil {
				c.Check(false, "roundtrip", "C13:roundtrip:unmarshal-error:KDCReqBody", err.Error(), short(bb))
				continue
			}
			g.mcase("kdc_options_widen", jv.L(jv.B(w.Bytes), jv.I(int64(w.BitLength))), jv.Ok(jv.B(d.KDCOptions.Bytes), jv.I(int64(d.KDCOptions.BitLength))))
			ok := len(d.KDCOptions.Bytes) >= 4
			for i := 0; i < 32 && ok; i++ {
				want := i/8 < n && w.Bytes[i/8]&(0x80>>uint(i%8)) != 0
				ok = types.IsFlagSet(&d.KDCOptions, i) == want
			}
			c.Check(ok, "kdc-options-widening-keeps-flags", "C13:kdc-options-short-word-misnumbered",
				fmt.Sprintf("kdc-options %x decoded as %x", w.Bytes, d.KDCOptions.Bytes), short(bb))
		}
	}
}

// libraryBuilt: messages the library builds itself (its constructors choose the time values): every KerberosTime on the
// wire is YYYYMMDDHHMMSSZ whatever the zone of the host (this process runs with a +05:30 local zone), judged by an
// independent strict reader.
func (g *gen) libraryBuilt() {
	c := g.c
	cname := types.PrincipalName{NameType: 1, NameString: []string{"testuser1"}}
	check := func(what string, b []byte, err error) {
		ok, why := false, fmt.Sprint(err)
		if err == nil {
			ok, why = kdc.StrictDER(b)
		}
		c.Check(ok, "a message built by the library's own constructor is DER with KerberosTime as YYYYMMDDHHMMSSZ (RFC 4120 5.2.3)", "library-built-not-der:"+what, why, map[string]interface{}{"bytes": short(b), "local-zone": time.Now().Format("-0700")})
		c.Count("library-built:" + what)
	}
	for i := 0; i < 3; i++ {
		p, _ := hctx.Guard(func() {
			a, err := types.NewAuthenticator("TEST.GOKRB5", cname)
			if err == nil {
				var b []byte
				b, err = a.Marshal()
				check("types.NewAuthenticator", b, err)
				if a.CTime.Location() != time.UTC {
					c.Check(false, "the authenticator's client time is held in UTC", "library-built-not-utc:types.NewAuthenticator", a.CTime.String(), nil)
				}
			} else {
				check("types.NewAuthenticator", nil, err)
			}
		})
		c.Check(!p, "no panic", "panic:types.NewAuthenticator", "", nil)
		cfg := config.New()
		cfg.LibDefaults.DefaultRealm = "TEST.GOKRB5"
		cfg.LibDefaults.RenewLifetime = time.Duration(i) * time.Hour
		p, _ = hctx.Guard(func() {
			r, err := messages.NewASReqForTGT("TEST.GOKRB5", cfg, cname)
			if err == nil {
				var b []byte
				b, err = r.Marshal()
				check("messages.NewASReqForTGT", b, err)
			} else {
				check("messages.NewASReqForTGT", nil, err)
			}
		})
		c.Check(!p, "no panic", "panic:messages.NewASReqForTGT", "", nil)
		p, _ = hctx.Guard(func() {
			// user-to-user: the verifier's TGT travels as an additional ticket (cleartext part only here)
			tgt := messages.Ticket{TktVNO: 5, Realm: "TEST.GOKRB5", SName: types.PrincipalName{NameType: 2, NameString: []string{"krbtgt", "TEST.GOKRB5"}},
				EncPart: types.EncryptedData{EType: 18, KVNO: 1, Cipher: []byte{1, 2, 3, 4, 5, 6, 7, 8, 9, 10, 11, 12, 13, 14, 15, 16, 17, 18, 19, 20, 21, 22, 23, 24, 25, 26, 27, 28, 29, 30}}}
			key := types.EncryptionKey{KeyType: 18, KeyValue: make([]byte, 32)}
			r, err := messages.NewUser2UserTGSReq(cname, "TEST.GOKRB5", cfg, tgt, key, types.PrincipalName{NameType: 1, NameString: []string{"peer"}}, false, tgt)
			if err == nil {
				var b []byte
				b, err = r.Marshal()
				check("messages.NewUser2UserTGSReq", b, err)
				c.Check(len(r.ReqBody.AdditionalTickets) == 1 && types.IsFlagSet(&r.ReqBody.KDCOptions, 28), "a user-to-user request carries the verifier's ticket and the enc-tkt-in-skey option", "u2u-request-shape", "", nil)
			} else {
				check("messages.NewUser2UserTGSReq", nil, err)
			}
		})
		c.Check(!p, "no panic", "panic:messages.NewUser2UserTGSReq", "", nil)
		p, _ = hctx.Guard(func() {
			e := messages.NewKRBError(cname, "TEST.GOKRB5", 6, "text")
			b, err := e.Marshal()
			check("messages.NewKRBError", b, err)
		})
		c.Check(!p, "no panic", "panic:messages.NewKRBError", "", nil)
	}
}
