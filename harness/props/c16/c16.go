// Package c16 is the correspondence stream of property C16: krb5.conf parsing, realm resolution and KDC
// selection (v8/config).  Generated configuration models are rendered to text with randomised layout by an
// independent writer, loaded with config.NewFromString and compared field by field with what the generator
// intended (direct oracle) and with the Coq model (coq/model/Krb5Conf.v, Hosts.v).
package c16

import (
	"fmt"
	"net"
	"os"
	"reflect"
	"sort"
	"strconv"
	"strings"
	"time"

	"github.com/jcmturner/gokrb5/v8/config"
	"verif/harness/internal/hctx"
	"verif/harness/internal/jv"
)

type ctx = hctx.Ctx

// ---------------------------------------------------------------------------------------------- projection

func strsOrEmpty(s []string) []string {
	if s == nil {
		return []string{}
	}
	return s
}

func ints32(v []int32) jv.V {
	vs := make([]jv.V, len(v))
	for i, x := range v {
		vs[i] = jv.I(int64(x))
	}
	return jv.L(vs...)
}

func ints(v []int) jv.V {
	vs := make([]jv.V, len(v))
	for i, x := range v {
		vs[i] = jv.I(int64(x))
	}
	return jv.L(vs...)
}

// durV renders a duration as ( high low ) 32-bit halves: the model driver prints OCaml 63-bit integers.
func durV(d time.Duration) jv.V {
	return jv.L(jv.I(int64(d)>>32), jv.I(int64(d)&0xffffffff))
}

func projRealm(r config.Realm) jv.V {
	return jv.L(jv.S(r.Realm), jv.Strs(r.AdminServer), jv.S(r.DefaultDomain), jv.Strs(r.KDC), jv.Strs(r.KPasswdServer), jv.Strs(r.MasterKDC))
}

func projRealms(rs []config.Realm) jv.V {
	vs := make([]jv.V, len(rs))
	for i, r := range rs {
		vs[i] = projRealm(r)
	}
	return jv.L(vs...)
}

func projDomainRealm(d config.DomainRealm) jv.V {
	keys := make([]string, 0, len(d))
	for k := range d {
		keys = append(keys, k)
	}
	sort.Strings(keys)
	vs := make([]jv.V, len(keys))
	for i, k := range keys {
		vs[i] = jv.L(jv.S(k), jv.S(d[k]))
	}
	return jv.L(vs...)
}

// projConfig is the observable of NewFromString: the order of the libdefaults fields is that of ld_init in
// coq/model/Krb5Conf.v (extra_addresses is not modelled and not projected).
func projConfig(cfg *config.Config, err error, panicked bool) jv.V {
	if panicked {
		return jv.Panic()
	}
	if cfg == nil {
		return jv.Err()
	}
	v4 := false
	if err != nil {
		if _, ok := err.(config.UnsupportedDirective); !ok {
			return jv.Err()
		}
		v4 = true
	}
	l := cfg.LibDefaults
	ld := jv.L(
		jv.Bool(l.AllowWeakCrypto), jv.Bool(l.Canonicalize), jv.I(int64(l.CCacheType)), durV(l.Clockskew),
		jv.S(l.DefaultClientKeytabName), jv.S(l.DefaultKeytabName), jv.S(l.DefaultRealm),
		jv.Strs(l.DefaultTGSEnctypes), jv.Strs(l.DefaultTktEnctypes),
		jv.Bool(l.DNSCanonicalizeHostname), jv.Bool(l.DNSLookupKDC), jv.Bool(l.DNSLookupRealm),
		jv.Bool(l.Forwardable), jv.Bool(l.IgnoreAcceptorHostname), jv.Bool(l.K5LoginAuthoritative),
		jv.S(l.K5LoginDirectory), jv.B(l.KDCDefaultOptions.Bytes), jv.I(int64(l.KDCTimeSync)), jv.Bool(l.NoAddresses),
		jv.Strs(l.PermittedEnctypes), ints(l.PreferredPreauthTypes), jv.Bool(l.Proxiable), jv.Bool(l.RDNS),
		jv.I(int64(l.RealmTryDomains)), durV(l.RenewLifetime), jv.I(int64(l.SafeChecksumType)),
		durV(l.TicketLifetime), jv.I(int64(l.UDPPreferenceLimit)), jv.Bool(l.VerifyAPReqNofail),
		ints32(l.DefaultTGSEnctypeIDs), ints32(l.DefaultTktEnctypeIDs), ints32(l.PermittedEnctypeIDs),
	)
	return jv.Ok(jv.Bool(v4), ld, projRealms(cfg.Realms), projDomainRealm(cfg.DomainRealm))
}

var envKeytab, envK5Dir string

func load(text string) (cfg *config.Config, err error, panicked bool, pv interface{}) {
	panicked, pv = hctx.Guard(func() { cfg, err = config.NewFromString(text) })
	return
}

// modelled mirrors the domain of parse_config: ASCII text below the size bound, and no duration value the
// model of time.ParseDuration leaves out (fraction or sign).  It is conservative.
func modelled(text string) bool {
	if len(text) >= 60000 {
		return false
	}
	for i := 0; i < len(text); i++ {
		if text[i] >= 128 {
			return false
		}
	}
	for _, ln := range strings.Split(text, "\n") {
		if i := strings.IndexAny(ln, "#;"); i >= 0 {
			ln = ln[:i]
		}
		lo := strings.ToLower(ln)
		if (strings.Contains(lo, "lifetime") || strings.Contains(lo, "clockskew")) && strings.ContainsAny(lo, ".+-") {
			return false
		}
	}
	return true
}

func caseParse(c *ctx, text string, cfg *config.Config, err error, panicked bool) {
	if !modelled(text) {
		c.Count("parse:unmodelled-skipped")
		return
	}
	c.Case("c16_parse", jv.L(jv.S(envKeytab), jv.S(envK5Dir), jv.S(text)), projConfig(cfg, err, panicked))
}

// ---------------------------------------------------------------------------------------------- layout

type gen struct {
	c   *ctx
	seq int // running counter used to cycle through spellings and formats
}

func (g *gen) n(k int) int { return g.c.R.Intn(k) }
func (g *gen) p(prob float64) bool {
	return g.c.R.Float64() < prob
}
func (g *gen) pick(ss []string) string { return ss[g.n(len(ss))] }

func (g *gen) ws(min int) string {
	k := min + g.n(3)
	if g.p(0.1) {
		k += g.n(6)
	}
	var sb strings.Builder
	for i := 0; i < k; i++ {
		if g.p(0.25) {
			sb.WriteByte('\t')
		} else {
			sb.WriteByte(' ')
		}
	}
	return sb.String()
}

const commentAlphabet = "abcdefgh XYZ 0123456789 ={}[]#;*:.,_-/\t"

func (g *gen) commentText() string {
	k := g.n(30)
	b := make([]byte, k)
	for i := range b {
		b[i] = commentAlphabet[g.n(len(commentAlphabet))]
	}
	return string(b)
}

func (g *gen) commentLine() string {
	return g.ws(0) + g.pick([]string{"#", ";"}) + g.commentText()
}

func (g *gen) trailing() string {
	if g.p(0.2) {
		return g.ws(0) + g.pick([]string{"#", ";"}) + g.commentText()
	}
	return g.ws(0)
}

func (g *gen) keyCase(k string) string {
	if g.p(0.05) {
		return strings.ToUpper(k)
	}
	return k
}

// relation renders "key = value" with random white space and an optional trailing comment.
func (g *gen) relation(key, val string) string {
	return g.ws(0) + g.keyCase(key) + g.ws(0) + "=" + g.ws(0) + val + g.trailing()
}

// filler returns comment and blank lines.
func (g *gen) filler() []string {
	var out []string
	for g.p(0.25) {
		if g.p(0.5) {
			out = append(out, g.commentLine())
		} else {
			out = append(out, g.ws(0))
		}
	}
	return out
}

// ---------------------------------------------------------------------------------------------- value spellings

type boolSp struct {
	s string
	v bool
}

var boolSpellings = []boolSp{
	{"true", true}, {"false", false}, {"True", true}, {"False", false}, {"TRUE", true}, {"FALSE", false},
	{"t", true}, {"f", false}, {"T", true}, {"F", false}, {"1", true}, {"0", false},
	{"yes", true}, {"no", false}, {"y", true}, {"n", false}, {"Yes", true}, {"No", false}, {"YES", true}, {"NO", false},
	{"Y", true}, {"N", false}, {"yEs", true}, {"nO", false},
}

// duration formats documented by MIT (basic/date_format.html#duration): h:m[:s], NdNhNmNs, N.
type durSp struct {
	s    string
	d    time.Duration
	kind string
}

func (g *gen) duration() durSp {
	g.seq++
	r := g.c.R
	sp := func() string { // optional blank between the components of NdNhNmNs
		if g.p(0.15) {
			return " "
		}
		return ""
	}
	switch g.seq % 8 {
	case 0:
		n := r.Intn(200000)
		if g.p(0.1) {
			n = 0
		}
		return durSp{strconv.Itoa(n), time.Duration(n) * time.Second, "N"}
	case 1:
		h, m, s := r.Intn(100), r.Intn(60), r.Intn(60)
		f := "%d:%d:%d"
		if g.p(0.5) {
			f = "%d:%02d:%02d"
		}
		return durSp{fmt.Sprintf(f, h, m, s), time.Duration(h)*time.Hour + time.Duration(m)*time.Minute + time.Duration(s)*time.Second, "h:m:s"}
	case 2:
		h, m := r.Intn(100), r.Intn(60)
		f := "%d:%d"
		if g.p(0.5) {
			f = "%02d:%02d"
		}
		return durSp{fmt.Sprintf(f, h, m), time.Duration(h)*time.Hour + time.Duration(m)*time.Minute, "h:m"}
	default:
		// every non-empty subset of the components d h m s, in that order
		mask := 1 + r.Intn(15)
		if g.seq%8 == 3 {
			mask |= 8 // with days
		}
		if g.seq%8 == 4 {
			mask &^= 8 // without days
			if mask == 0 {
				mask = 1 + r.Intn(7)
			}
		}
		var sb strings.Builder
		var d time.Duration
		kind := ""
		units := []struct {
			bit  int
			u    string
			mult time.Duration
			max  int
		}{{8, "d", 24 * time.Hour, 400}, {4, "h", time.Hour, 100}, {2, "m", time.Minute, 200}, {1, "s", time.Second, 5000}}
		for _, u := range units {
			if mask&u.bit != 0 {
				v := r.Intn(u.max)
				if sb.Len() > 0 {
					sb.WriteString(sp())
				}
				sb.WriteString(strconv.Itoa(v))
				sb.WriteString(u.u)
				d += time.Duration(v) * u.mult
				kind += "N" + u.u
			}
		}
		return durSp{sb.String(), d, kind}
	}
}

// enctype names and the ids gokrb5 supports (written from the IANA registry and the MIT enctype table, not
// from the code).  des3-cbc-sha1 / des3-hmac-sha1 are left out of the direct oracle: the code maps them to
// the IANA ids 7 / 8 while MIT uses them as aliases of 16 (recorded as a limit); they are in the model stream.
var etypeNames = []struct {
	name string
	id   int32 // 0: not supported by gokrb5 (dropped from the id list)
}{
	{"aes256-cts-hmac-sha1-96", 18}, {"aes256-cts", 18}, {"aes256-sha1", 18},
	{"aes128-cts-hmac-sha1-96", 17}, {"aes128-cts", 17}, {"aes128-sha1", 17},
	{"aes128-cts-hmac-sha256-128", 19}, {"aes128-sha2", 19}, {"aes256-cts-hmac-sha384-192", 20}, {"aes256-sha2", 20},
	{"des3-cbc-sha1-kd", 16}, {"arcfour-hmac", 23}, {"rc4-hmac", 23}, {"arcfour-hmac-md5", 23},
	{"des-cbc-crc", 0}, {"des-cbc-md5", 0}, {"des-cbc-md4", 0}, {"des", 0}, {"arcfour-hmac-exp", 0}, {"rc4-hmac-exp", 0},
	{"camellia256-cts-cmac", 0}, {"camellia128-cts", 0}, {"no-such-enctype", 0}, {"AES256-CTS", 0},
}

func (g *gen) etypeList() (text string, names []string, ids []int32) {
	k := g.n(6)
	var sb strings.Builder
	names = []string{}
	for i := 0; i < k; i++ {
		e := etypeNames[g.n(len(etypeNames))]
		if i > 0 {
			sb.WriteString(g.pick([]string{" ", " ", "  ", "\t", ",", ", ", " , "}))
		}
		sb.WriteString(e.name)
		names = append(names, e.name)
		if e.id != 0 {
			ids = append(ids, e.id)
		}
	}
	return sb.String(), names, ids
}

// ---------------------------------------------------------------------------------------------- configuration model

type wantLib struct {
	b        map[string]bool
	d        map[string]time.Duration
	i        map[string]int
	s        map[string]string
	et       map[string][]string
	etid     map[string][]int32
	opts     []byte
	preauth  []int
	extra    []net.IP
	extraSet bool
}

func defaultLib() *wantLib {
	def := []string{"aes256-cts-hmac-sha1-96", "aes128-cts-hmac-sha1-96", "des3-cbc-sha1", "arcfour-hmac-md5", "camellia256-cts-cmac", "camellia128-cts-cmac", "des-cbc-crc", "des-cbc-md5", "des-cbc-md4"}
	w := &wantLib{
		b: map[string]bool{"allow_weak_crypto": false, "canonicalize": false, "dns_canonicalize_hostname": true, "dns_lookup_kdc": false,
			"dns_lookup_realm": false, "forwardable": false, "ignore_acceptor_hostname": false, "k5login_authoritative": false,
			"noaddresses": true, "proxiable": false, "rdns": true, "verify_ap_req_nofail": false},
		d:  map[string]time.Duration{"clockskew": 300 * time.Second, "renew_lifetime": 0, "ticket_lifetime": 24 * time.Hour},
		i:  map[string]int{"ccache_type": 4, "kdc_timesync": 1, "realm_try_domains": -1, "safe_checksum_type": 8, "udp_preference_limit": 1465},
		s:  map[string]string{"default_client_keytab_name": envKeytab, "default_keytab_name": "/etc/krb5.keytab", "default_realm": "", "k5login_directory": envK5Dir},
		et: map[string][]string{"default_tgs_enctypes": def, "default_tkt_enctypes": def, "permitted_enctypes": def},
		// of the default names gokrb5 supports aes256, aes128 and arcfour-hmac-md5
		etid:    map[string][]int32{"default_tgs_enctypes": {18, 17, 23}, "default_tkt_enctypes": {18, 17, 23}, "permitted_enctypes": {18, 17, 23}},
		opts:    []byte{0, 0, 0, 0x10},
		preauth: []int{17, 16, 15, 14},
	}
	return w
}

var boolKeys = []string{"allow_weak_crypto", "canonicalize", "dns_canonicalize_hostname", "dns_lookup_kdc", "dns_lookup_realm", "forwardable",
	"ignore_acceptor_hostname", "k5login_authoritative", "noaddresses", "proxiable", "rdns", "verify_ap_req_nofail"}
var durKeys = []string{"clockskew", "renew_lifetime", "ticket_lifetime"}
var strKeys = []string{"default_client_keytab_name", "default_keytab_name", "default_realm", "k5login_directory"}
var etKeys = []string{"default_tgs_enctypes", "default_tkt_enctypes", "permitted_enctypes"}
var intRanges = map[string][2]int{"ccache_type": {0, 4}, "kdc_timesync": {0, 9}, "realm_try_domains": {-1, 6}, "safe_checksum_type": {0, 20}, "udp_preference_limit": {0, 32700}}
var intKeys = []string{"ccache_type", "kdc_timesync", "realm_try_domains", "safe_checksum_type", "udp_preference_limit"}

var realmNames = []string{"EXAMPLE.COM", "TEST.GOKRB5", "A.B", "lowercase.org", "ATHENA.MIT.EDU", "R", "SUB.EXAMPLE.COM", "X-1.Y_2"}
var stringValues = []string{"FILE:/etc/krb5.keytab", "/var/lib/krb5/user/1000/client.keytab", "/home/user name/dir", "EXAMPLE.COM", "x", "MEMORY:kt", "/a/b.c/d-e_f"}

// libLines renders the relations of [libdefaults] and records what they mean.
func (g *gen) libLines(w *wantLib, all bool) []string {
	var lines []string
	incl := func() bool { return all || g.p(0.45) }
	for _, k := range boolKeys {
		if incl() {
			g.seq++
			sp := boolSpellings[g.seq%len(boolSpellings)]
			lines = append(lines, g.relation(k, sp.s))
			w.b[k] = sp.v
			g.c.Count("bool:" + sp.s)
		}
	}
	for _, k := range durKeys {
		if incl() {
			d := g.duration()
			lines = append(lines, g.relation(k, d.s))
			w.d[k] = d.d
			g.c.Count("duration:" + d.kind)
		}
	}
	for _, k := range intKeys {
		if incl() {
			r := intRanges[k]
			v := r[0] + g.n(r[1]-r[0]+1)
			lines = append(lines, g.relation(k, strconv.Itoa(v)))
			w.i[k] = v
		}
	}
	for _, k := range strKeys {
		if incl() {
			v := g.pick(stringValues)
			if k == "default_realm" {
				v = g.pick(realmNames)
			}
			lines = append(lines, g.relation(k, v))
			w.s[k] = v
		}
	}
	for _, k := range etKeys {
		if incl() {
			text, names, ids := g.etypeList()
			lines = append(lines, g.relation(k, text))
			w.et[k] = names
			w.etid[k] = ids
		}
	}
	if incl() {
		b := []byte{byte(g.n(256)), byte(g.n(256)), byte(g.n(256)), byte(g.n(256))}
		f := g.pick([]string{"0x%02x%02x%02x%02x", "0x%02X%02X%02X%02X", "%02x%02x%02x%02x"})
		lines = append(lines, g.relation("kdc_default_options", fmt.Sprintf(f, b[0], b[1], b[2], b[3])))
		w.opts = b
	}
	if incl() {
		k := 1 + g.n(4)
		var sb strings.Builder
		var v []int
		for i := 0; i < k; i++ {
			x := g.n(150)
			if i > 0 {
				sb.WriteString(g.pick([]string{", ", ",", " , "}))
			}
			sb.WriteString(strconv.Itoa(x))
			v = append(v, x)
		}
		lines = append(lines, g.relation("preferred_preauth_types", sb.String()))
		w.preauth = v
	}
	if incl() {
		k := 1 + g.n(3)
		var parts []string
		w.extra = nil
		for i := 0; i < k; i++ {
			ip := fmt.Sprintf("10.%d.%d.%d", g.n(256), g.n(256), g.n(256))
			parts = append(parts, ip)
			w.extra = append(w.extra, net.ParseIP(ip))
		}
		w.extraSet = true
		lines = append(lines, g.relation("extra_addresses", strings.Join(parts, ",")))
	}
	// unknown relations
	for g.p(0.3) {
		lines = append(lines, g.relation(g.pick([]string{"default_ccache_name", "plugin_base_dir", "spake_preauth_groups", "foo", "kdc", "err_fmt"}),
			g.pick([]string{"KEYRING:persistent:%{uid}", "edwards25519", "bar baz", "true", "17"})))
	}
	g.c.R.Shuffle(len(lines), func(i, j int) { lines[i], lines[j] = lines[j], lines[i] })
	return lines
}

type wantRealm struct {
	name                  string
	admin, kdc, kpw, mkdc []string
	dd                    string
}

var hosts = []string{"kdc1.example.com", "kerberos.example.com", "10.80.88.88", "kdc-2", "k", "host.sub.test.gokrb5", "127.0.0.1"}

// servers renders 0..4 relations of one kind; a final marker cuts the expected list after that entry.
func (g *gen) servers(key string, defPort string) (lines []string, want []string) {
	k := g.n(5)
	final := false
	for i := 0; i < k; i++ {
		h := g.pick(hosts)
		val := h
		exp := h
		hasPort := g.p(0.5)
		if hasPort {
			p := g.pick([]string{"88", "749", "464", "1234", "750"})
			val += ":" + p
			exp += ":" + p
		} else if defPort != "" {
			exp += defPort
		}
		if g.p(0.15) {
			// final-value marker: later values of this relation are ignored
			if !hasPort && defPort != "" && g.p(0.4) {
				val += " *"
			} else {
				val += "*"
			}
			if !final {
				want = append(want, exp)
			}
			final = true
			g.c.Count("realm:final-marker")
		} else if !final {
			want = append(want, exp)
		}
		lines = append(lines, g.relation(key, val))
	}
	return
}

// nestedBlock renders a nested { ... } block whose relations must not become relations of the realm.
func (g *gen) nestedBlock(v4 bool, depth int) []string {
	tag := g.pick([]string{"auth_to_local_names", "unknown_block", "pkinit_pool"})
	if v4 {
		tag = g.pick([]string{"v4_name_convert", "v4_instance_convert"})
	}
	var ls []string
	ls = append(ls, g.ws(0)+tag+g.ws(0)+"="+g.ws(0)+"{"+g.trailing())
	k := g.n(4)
	for i := 0; i < k; i++ {
		if depth < 2 && g.p(0.2) {
			ls = append(ls, g.nestedBlock(false, depth+1)...)
		} else if g.p(0.15) {
			ls = append(ls, g.commentLine())
		} else {
			ls = append(ls, g.relation(g.pick([]string{"kdc", "admin_server", "host", "rcmd", "x", "default_domain", "master_kdc", "kpasswd_server"}),
				g.pick([]string{"evil.example.com", "host", "guest", "evil:88", "a b"})))
		}
	}
	ls = append(ls, g.ws(0)+"}"+g.trailing())
	return ls
}

func (g *gen) realmBlock(name string) (lines []string, w wantRealm, v4 bool) {
	w.name = name
	lines = append(lines, g.ws(0)+name+g.ws(0)+"="+g.ws(0)+"{"+g.trailing())
	var groups [][]string
	al, aw := g.servers("admin_server", "")
	kl, kw := g.servers("kdc", ":88")
	pl, pw := g.servers("kpasswd_server", "")
	ml, mw := g.servers("master_kdc", "")
	w.admin, w.kdc, w.kpw, w.mkdc = aw, kw, pw, mw
	groups = append(groups, al, kl, pl, ml)
	if g.p(0.5) {
		w.dd = g.pick([]string{"example.com", "test.gokrb5", "mit.edu"})
		groups = append(groups, []string{g.relation("default_domain", w.dd)})
	}
	var extras [][]string
	for g.p(0.35) {
		switch g.n(4) {
		case 0:
			extras = append(extras, g.nestedBlock(false, 0))
			g.c.Count("realm:nested-block")
		case 1:
			extras = append(extras, g.nestedBlock(true, 0))
			v4 = true
			g.c.Count("realm:v4-block")
		case 2:
			extras = append(extras, []string{g.relation(g.pick([]string{"auth_to_local", "http_anchors", "pkinit_anchors", "foo"}),
				g.pick([]string{"DEFAULT", "RULE:[2:$1](johndoe)s/^.*$/guest/", "FILE:/etc/ca.pem", "1"}))})
			g.c.Count("realm:unknown-relation")
		case 3:
			extras = append(extras, []string{g.ws(0) + "v4_realm" + g.ws(0) + "=" + g.ws(0) + "OLD.REALM" + g.trailing()})
			v4 = true
			g.c.Count("realm:v4-relation")
		}
	}
	// interleave the groups keeping the order inside each group
	groups = append(groups, extras...)
	for {
		var live []int
		for i, gr := range groups {
			if len(gr) > 0 {
				live = append(live, i)
			}
		}
		if len(live) == 0 {
			break
		}
		i := live[g.n(len(live))]
		isBlock := i >= len(groups)-len(extras) && len(groups[i]) > 1
		if isBlock {
			lines = append(lines, groups[i]...) // a block is emitted whole
			groups[i] = nil
		} else {
			lines = append(lines, groups[i][0])
			groups[i] = groups[i][1:]
		}
		lines = append(lines, g.filler()...)
	}
	lines = append(lines, g.ws(0)+"}"+g.trailing())
	if len(w.kpw) == 0 {
		// documented default: kpasswd_server = the admin_server hosts on port 464
		for _, a := range w.admin {
			w.kpw = append(w.kpw, strings.SplitN(a, ":", 2)[0]+":464")
		}
	}
	return
}

type mapping struct{ domain, realm string }

var domainPool = []string{".example.com", "example.com", ".test.gokrb5", "test.gokrb5", "host.example.com", ".sub.example.com", ".mit.edu", ".COM", "Mixed.Case.Org", ".a.b", "a.b", ".b"}

type genConfig struct {
	text    string
	lib     *wantLib
	realms  []wantRealm
	dr      map[string]string
	v4      bool
	nRealms int
}

func (g *gen) unknownSection() []string {
	name := g.pick([]string{"appdefaults", "logging", "capaths", "plugins", "dbmodules", "libdefaultsx", "realm"})
	ls := []string{g.ws(0) + "[" + name + "]" + g.trailing()}
	k := g.n(5)
	for i := 0; i < k; i++ {
		switch g.n(5) {
		case 0:
			ls = append(ls, g.nestedBlock(false, 0)...)
		case 1:
			ls = append(ls, g.ws(0)+"pam = {") // unbalanced on purpose: unknown sections are not parsed
		case 2:
			ls = append(ls, g.ws(0)+"just some words")
		default:
			ls = append(ls, g.relation(g.pick([]string{"kdc", "default", "debug", "forwardable", "default_realm", ".example.com"}), g.pick([]string{"FILE:/var/log/krb5.log", "true", "x y", "OTHER"})))
		}
	}
	return ls
}

func (g *gen) config(all bool) genConfig {
	gc := genConfig{lib: defaultLib(), dr: map[string]string{}}
	type section struct{ lines []string }
	var secs []section
	hdr := func(name string) string { return g.ws(0) + "[" + name + "]" + g.trailing() }
	// [libdefaults], possibly in two parts (relations accumulate)
	if all || g.p(0.85) {
		ll := g.libLines(gc.lib, all)
		if len(ll) > 1 && g.p(0.2) {
			cut := 1 + g.n(len(ll)-1)
			// a relation repeated in the second part would override the first: keep the keys disjoint by construction (they are)
			secs = append(secs, section{append([]string{hdr("libdefaults")}, ll[:cut]...)}, section{append([]string{hdr("libdefaults")}, ll[cut:]...)})
			g.c.Count("layout:split-libdefaults")
		} else {
			secs = append(secs, section{append([]string{hdr("libdefaults")}, ll...)})
		}
	}
	// [realms]
	if all || g.p(0.85) {
		ls := []string{hdr("realms")}
		gc.nRealms = g.n(5)
		perm := g.c.R.Perm(len(realmNames))
		for i := 0; i < gc.nRealms; i++ {
			bl, w, v4 := g.realmBlock(realmNames[perm[i]])
			ls = append(ls, g.filler()...)
			ls = append(ls, bl...)
			gc.realms = append(gc.realms, w)
			gc.v4 = gc.v4 || v4
		}
		ls = append(ls, g.filler()...)
		secs = append(secs, section{ls})
		g.c.Count(fmt.Sprintf("realms:%d", gc.nRealms))
	}
	// [domain_realm], possibly in two parts
	if all || g.p(0.85) {
		k := g.n(9)
		var ms []string
		for i := 0; i < k; i++ {
			d := g.pick(domainPool)
			r := g.pick(realmNames)
			ms = append(ms, g.relation(d, r))
			gc.dr[strings.ToLower(d)] = r // later mappings of the same domain win
		}
		g.c.Count(fmt.Sprintf("mappings:%d", k))
		if len(ms) > 1 && g.p(0.2) {
			cut := 1 + g.n(len(ms)-1)
			secs = append(secs, section{append([]string{hdr("domain_realm")}, ms[:cut]...)})
			// the second part comes after the first one (a repeated domain: the later mapping wins)
			secs = append(secs, section{append([]string{hdr("domain_realm")}, ms[cut:]...)})
		} else {
			secs = append(secs, section{append([]string{hdr("domain_realm")}, ms...)})
		}
	}
	// unknown sections go anywhere; known sections keep their relative order only where it matters
	// (split parts of one section stay in order), so shuffle by kind: collect indexes per kind and merge randomly
	var merged []section
	for len(secs) > 0 {
		// choose the first remaining section of a random kind: that keeps split parts ordered
		first := map[string]int{}
		var kinds []string
		for i, s := range secs {
			k := strings.TrimSpace(s.lines[0])
			k = k[:strings.Index(k, "]")+1]
			if _, ok := first[k]; !ok {
				first[k] = i
				kinds = append(kinds, k)
			}
		}
		i := first[kinds[g.n(len(kinds))]]
		merged = append(merged, secs[i])
		secs = append(secs[:i], secs[i+1:]...)
		for g.p(0.2) {
			merged = append(merged, section{g.unknownSection()})
			g.c.Count("layout:unknown-section")
		}
	}
	var lines []string
	if g.p(0.2) {
		// text before the first section header is not part of any section (MIT: ignored)
		lines = append(lines, g.commentLine())
		if g.p(0.5) {
			lines = append(lines, g.pick([]string{"include-like text", "kdc = before.any.section", "module /x:y", "}"}))
			g.c.Count("layout:text-before-first-section")
		}
	}
	for g.p(0.15) {
		lines = append(lines, g.unknownSection()...)
	}
	for _, s := range merged {
		lines = append(lines, g.filler()...)
		lines = append(lines, s.lines[0])
		for _, l := range s.lines[1:] {
			lines = append(lines, g.filler()...)
			lines = append(lines, l)
		}
	}
	lines = append(lines, g.filler()...)
	nl := "\n"
	if g.p(0.15) {
		nl = "\r\n"
		g.c.Count("layout:crlf")
	}
	gc.text = strings.Join(lines, nl)
	if g.p(0.8) {
		gc.text += nl
	}
	return gc
}

func eqStrs(a, b []string) bool { return reflect.DeepEqual(strsOrEmpty(a), strsOrEmpty(b)) }
func eqI32(a, b []int32) bool {
	if len(a) != len(b) {
		return false
	}
	for i := range a {
		if a[i] != b[i] {
			return false
		}
	}
	return true
}

// diffLib lists the libdefaults fields that do not hold the intended value.
func diffLib(w *wantLib, l config.LibDefaults) []string {
	var bad []string
	gb := map[string]bool{"allow_weak_crypto": l.AllowWeakCrypto, "canonicalize": l.Canonicalize, "dns_canonicalize_hostname": l.DNSCanonicalizeHostname,
		"dns_lookup_kdc": l.DNSLookupKDC, "dns_lookup_realm": l.DNSLookupRealm, "forwardable": l.Forwardable, "ignore_acceptor_hostname": l.IgnoreAcceptorHostname,
		"k5login_authoritative": l.K5LoginAuthoritative, "noaddresses": l.NoAddresses, "proxiable": l.Proxiable, "rdns": l.RDNS, "verify_ap_req_nofail": l.VerifyAPReqNofail}
	for k, v := range w.b {
		if gb[k] != v {
			bad = append(bad, k)
		}
	}
	gd := map[string]time.Duration{"clockskew": l.Clockskew, "renew_lifetime": l.RenewLifetime, "ticket_lifetime": l.TicketLifetime}
	for k, v := range w.d {
		if gd[k] != v {
			bad = append(bad, fmt.Sprintf("%s(%v!=%v)", k, gd[k], v))
		}
	}
	gi := map[string]int{"ccache_type": l.CCacheType, "kdc_timesync": l.KDCTimeSync, "realm_try_domains": l.RealmTryDomains, "safe_checksum_type": l.SafeChecksumType, "udp_preference_limit": l.UDPPreferenceLimit}
	for k, v := range w.i {
		if gi[k] != v {
			bad = append(bad, k)
		}
	}
	gs := map[string]string{"default_client_keytab_name": l.DefaultClientKeytabName, "default_keytab_name": l.DefaultKeytabName, "default_realm": l.DefaultRealm, "k5login_directory": l.K5LoginDirectory}
	for k, v := range w.s {
		if gs[k] != v {
			bad = append(bad, k)
		}
	}
	ge := map[string][]string{"default_tgs_enctypes": l.DefaultTGSEnctypes, "default_tkt_enctypes": l.DefaultTktEnctypes, "permitted_enctypes": l.PermittedEnctypes}
	gid := map[string][]int32{"default_tgs_enctypes": l.DefaultTGSEnctypeIDs, "default_tkt_enctypes": l.DefaultTktEnctypeIDs, "permitted_enctypes": l.PermittedEnctypeIDs}
	for k, v := range w.et {
		if !eqStrs(ge[k], v) {
			bad = append(bad, k)
		}
		if !eqI32(gid[k], w.etid[k]) {
			bad = append(bad, k+"(ids)")
		}
	}
	if string(l.KDCDefaultOptions.Bytes) != string(w.opts) || l.KDCDefaultOptions.BitLength != 8*len(w.opts) {
		bad = append(bad, "kdc_default_options")
	}
	if !reflect.DeepEqual(l.PreferredPreauthTypes, w.preauth) {
		bad = append(bad, "preferred_preauth_types")
	}
	if w.extraSet {
		ok := len(l.ExtraAddresses) == len(w.extra)
		for i := 0; ok && i < len(w.extra); i++ {
			ok = l.ExtraAddresses[i].Equal(w.extra[i])
		}
		if !ok {
			bad = append(bad, "extra_addresses")
		}
	}
	sort.Strings(bad)
	return bad
}

func diffRealms(w []wantRealm, got []config.Realm) []string {
	var bad []string
	if len(w) != len(got) {
		return []string{fmt.Sprintf("count(%d!=%d)", len(got), len(w))}
	}
	for i, r := range w {
		g := got[i]
		if g.Realm != r.name {
			bad = append(bad, "name")
		}
		if !eqStrs(g.AdminServer, r.admin) {
			bad = append(bad, "admin_server")
		}
		if !eqStrs(g.KDC, r.kdc) {
			bad = append(bad, "kdc")
		}
		if !eqStrs(g.KPasswdServer, r.kpw) {
			bad = append(bad, "kpasswd_server")
		}
		if !eqStrs(g.MasterKDC, r.mkdc) {
			bad = append(bad, "master_kdc")
		}
		if g.DefaultDomain != r.dd {
			bad = append(bad, "default_domain")
		}
	}
	return bad
}

func short(s string) string {
	if len(s) > 3000 {
		return s[:3000] + "..."
	}
	return s
}

// ---------------------------------------------------------------------------------------------- streams

// streamConfigs: valid files.  Direct oracle: loads without error (UnsupportedDirective exactly when a v4
// relation is present) and every field holds the documented value.
func streamConfigs(c *ctx, g *gen, n int) []genConfig {
	var kept []genConfig
	for i := 0; i < n; i++ {
		gc := g.config(i%10 == 0)
		cfg, err, panicked, pv := load(gc.text)
		c.Check(!panicked, "config-load-no-panic", "C16:panic:NewFromString:valid-file", fmt.Sprint(pv), short(gc.text))
		caseParse(c, gc.text, cfg, err, panicked)
		if panicked {
			continue
		}
		_, isV4 := err.(config.UnsupportedDirective)
		okErr := cfg != nil && ((err == nil && !gc.v4) || (isV4 && gc.v4))
		c.Check(okErr, "valid-file-loads", "C16:valid-file-rejected", fmt.Sprintf("err=%v want-v4=%v", err, gc.v4), short(gc.text))
		if cfg == nil {
			continue
		}
		bl := diffLib(gc.lib, cfg.LibDefaults)
		c.Check(len(bl) == 0, "libdefaults-values", "C16:libdefaults:"+strings.Join(sigOf(bl), ","), strings.Join(bl, " "), short(gc.text))
		br := diffRealms(gc.realms, cfg.Realms)
		c.Check(len(br) == 0, "realms-values", "C16:realms:"+strings.Join(sigOf(br), ","), strings.Join(br, " "), short(gc.text))
		c.Check(reflect.DeepEqual(map[string]string(cfg.DomainRealm), gc.dr), "domain-realm-values", "C16:domain_realm", fmt.Sprint(cfg.DomainRealm, " want ", gc.dr), short(gc.text))
		if len(kept) < 400 {
			kept = append(kept, gc)
		}
		c.Count("config:valid")
	}
	return kept
}

func sigOf(bad []string) []string {
	m := map[string]bool{}
	var out []string
	for _, b := range bad {
		if i := strings.Index(b, "("); i >= 0 {
			b = b[:i]
		}
		if !m[b] {
			m[b] = true
			out = append(out, b)
		}
	}
	return out
}

// invalid files: one structural defect inserted into a valid file.  Direct oracle: an error, no panic.
func streamInvalid(c *ctx, g *gen, n int) {
	kinds := []string{"lib-no-equals", "lib-bad-boolean", "lib-bad-duration", "lib-bad-number", "realm-missing-close", "realm-extra-close",
		"realm-one-line-block", "realm-line-no-equals", "realm-brace-no-equals", "realms-stray-line", "realm-nested-missing-close",
		"domain-no-equals", "line-too-long"}
	for i := 0; i < n; i++ {
		kind := kinds[i%len(kinds)]
		gc := g.config(false)
		sec := func(name string, body ...string) string {
			return "\n" + g.ws(0) + "[" + name + "]\n" + strings.Join(body, "\n") + "\n"
		}
		var bad string
		switch kind {
		case "lib-no-equals":
			bad = sec("libdefaults", g.ws(0)+g.pick([]string{"forwardable", "default_realm EXAMPLE.COM", "just words"}))
		case "lib-bad-boolean":
			bad = sec("libdefaults", g.relation(g.pick(boolKeys), g.pick([]string{"maybe", "2", "tru", "", "yess"})))
		case "lib-bad-duration":
			bad = sec("libdefaults", g.relation(g.pick(durKeys), g.pick([]string{"1x", "abc", "1:2:3:4", "d", "1d2x", ":", "h"})))
		case "lib-bad-number":
			k := g.pick([]string{"ccache_type", "udp_preference_limit", "kdc_timesync", "safe_checksum_type", "realm_try_domains"})
			vals := []string{"-7", "x", "4294967296", "1.5", "", "1 2", "0x1"}
			if k == "ccache_type" || k == "udp_preference_limit" {
				vals = append(vals, "5", "32701", "9999999")
				if k == "ccache_type" {
					vals = vals[:len(vals)-0]
				} else {
					vals = append(vals[:len(vals)-3], "32701", "9999999")
				}
			}
			bad = sec("libdefaults", g.relation(k, g.pick(vals)))
		case "realm-missing-close":
			bad = sec("realms", g.ws(0)+"BROKEN.REALM = {", g.relation("kdc", "k1"), g.relation("admin_server", "a1"))
		case "realm-extra-close":
			bad = sec("realms", g.ws(0)+"BROKEN.REALM = {", g.relation("kdc", "k1"), g.ws(0)+"}", g.ws(0)+"}")
		case "realm-one-line-block":
			bad = sec("realms", g.ws(0)+"BROKEN.REALM = {"+g.ws(0)+"kdc = k1"+g.ws(0)+"}")
		case "realm-line-no-equals":
			bad = sec("realms", g.ws(0)+"BROKEN.REALM = {", g.ws(0)+g.pick([]string{"kdc k1", "kdc", "some words"}), g.ws(0)+"}")
		case "realm-brace-no-equals":
			bad = sec("realms", g.ws(0)+"BROKEN.REALM {", g.relation("kdc", "k1"), g.ws(0)+"}")
		case "realms-stray-line":
			bad = sec("realms", g.ws(0)+g.pick([]string{"BROKEN.REALM", "some words"}), g.ws(0)+"OK.REALM = {", g.relation("kdc", "k1"), g.ws(0)+"}")
		case "realm-nested-missing-close":
			bad = sec("realms", g.ws(0)+"BROKEN.REALM = {", g.ws(0)+"auth_to_local_names = {", g.relation("x", "y"), g.ws(0)+"}")
		case "domain-no-equals":
			bad = sec("domain_realm", g.ws(0)+g.pick([]string{".example.com EXAMPLE.COM", ".example.com", "words"}))
		case "line-too-long":
			bad = "\n#" + strings.Repeat("x", 65536+g.n(5000)) + "\n"
		}
		// the defect goes at the end, or in front (before the first section header of the valid file)
		text := gc.text + bad
		if g.p(0.4) {
			// an unknown section header ends the defective section before the valid file starts
			text = strings.TrimPrefix(bad, "\n") + "[logging]\n" + gc.text
		}
		if kind == "line-too-long" && g.p(0.5) {
			// the long line in the middle: everything after it used to be dropped silently
			text = gc.text + bad + "[realms]\n LATE.REALM = {\n kdc = late\n }\n"
		}
		cfg, err, panicked, pv := load(text)
		c.Check(!panicked, "invalid-file-no-panic", "C16:panic:NewFromString:"+kind, fmt.Sprint(pv), short(text))
		_, isV4 := err.(config.UnsupportedDirective)
		c.Check(panicked || (err != nil && !isV4 && cfg == nil), "invalid-file-rejected", "C16:accepted:"+kind, fmt.Sprintf("err=%v", err), short(text))
		caseParse(c, text, cfg, err, panicked)
		c.Count("invalid:" + kind)
	}
}

// random edits of valid files: never a panic; the outcome (error or fields) is compared with the model.
func streamMutations(c *ctx, g *gen, base []genConfig, n int) {
	const alphabet = "abkdc_=={{}}[]#;*: \t\n\r\v\f.,0159xX-+"
	for i := 0; i < n && len(base) > 0; i++ {
		b := []byte(base[g.n(len(base))].text)
		k := 1 + g.n(4)
		for j := 0; j < k && len(b) > 0; j++ {
			pos := g.n(len(b))
			switch g.n(5) {
			case 0:
				b[pos] = alphabet[g.n(len(alphabet))]
			case 1:
				b = append(b[:pos], b[pos+1:]...)
			case 2:
				b = append(b[:pos], append([]byte{alphabet[g.n(len(alphabet))]}, b[pos:]...)...)
			case 3: // drop a line
				e := pos
				for e < len(b) && b[e] != '\n' {
					e++
				}
				s := pos
				for s > 0 && b[s-1] != '\n' {
					s--
				}
				if e < len(b) {
					e++
				}
				b = append(b[:s], b[e:]...)
			case 4: // truncate
				b = b[:pos]
			}
		}
		text := string(b)
		cfg, err, panicked, pv := load(text)
		c.Check(!panicked, "mutated-file-no-panic", "C16:panic:NewFromString:mutated", fmt.Sprint(pv), short(text))
		caseParse(c, text, cfg, err, panicked)
		if cfg == nil {
			c.Count("mutated:rejected")
		} else {
			c.Count("mutated:loaded")
		}
	}
}

// hand-written corner cases (each is also a model case)
var corner = []string{
	"", "\n", "[libdefaults]", "[realms]\n", "[domain_realm]\n", "[libdefaults]\n[realms]\n[domain_realm]\n",
	"[realms]\n[libdefaults]\n default_realm = X\n",
	"[realms]\n A.B = {\n kdc = k1\n auth_to_local_names = {\n x = y\n }\n kdc = k2\n }\n",
	"[realms]\n A.B = {\n kdc = k1\n foo = { a = b }\n kdc = k2\n }\n",
	"[realms]\n A.B = {\n kdc = k1\n foo = {\n kdc = evil # }\n }\n kdc = k2\n }\n",
	"[realms]\n A.B = {\n v4_instance_convert = {\n x = y\n }\n kdc = k2\n }\n",
	"[realms]\n A.B = { kdc = k1 }\n",
	"[realms]\n A.B = {\n kdc = k1\n",
	"[realms]\n A.B = {\n kdc = k1\n}\n}\n",
	"[realms]\n A.B = {\n kdc = k1 *\n kdc = k2\n admin_server = a:749*\n admin_server = b\n }\n",
	"[realms]\n A.B = {\n kdc = k1:88 *\n kdc = k2\n }\n",
	"[realms]\n A.B = {\n kdc = \n kdc = *\n admin_server = \n }\n",
	"[realms]\n A.B = {\n kdc = k1\n }\n A.B = {\n kdc = k2\n }\n",
	"[realms]\n A = {\n kdc = k1\n }\n[realms]\n B = {\n kdc = k2\n }\n",
	"[libdefaults]\n default_realm = X=Y\n",
	"[libdefaults]\n = x\n=\n",
	"[libdefaults]\n ticket_lifetime = 1d2h3m4s\n renew_lifetime = 10:20:30\n clockskew = 600\n",
	"[libdefaults]\n ticket_lifetime = 0\n renew_lifetime = 10:20\n clockskew = 36h\n",
	"[libdefaults]\n ticket_lifetime = 00\n",
	"[libdefaults]\n ticket_lifetime = 1d10:00\n",
	"[libdefaults]\n ticket_lifetime = 25:61:61\n",
	"[libdefaults]\n ticket_lifetime = 5ms\n renew_lifetime = 7us\n clockskew = 9ns\n",
	"[libdefaults]\n ticket_lifetime = 4294967295\n",
	"[libdefaults]\n ticket_lifetime = 4294967296\n",
	"[libdefaults]\n ticket_lifetime = 106751d\n renew_lifetime = 106752d\n",
	"[libdefaults]\n ticket_lifetime = 2562047h47m16s\n",
	"[libdefaults]\n ticket_lifetime = 2562047h47m17s\n",
	"[libdefaults]\n ticket_lifetime = 9223372036854775808s\n",
	"[libdefaults]\n ticket_lifetime = 99999999999999999999s\n",
	"[libdefaults]\n preferred_preauth_types = 17, 16, 15, 14\n",
	"[libdefaults]\n preferred_preauth_types = \n",
	"[libdefaults]\n kdc_default_options = 0x40000010\n",
	"[libdefaults]\n kdc_default_options = 0x4000001\n",
	"[libdefaults]\n kdc_default_options = 00x0x10\n",
	"[libdefaults]\n default_tkt_enctypes = aes256-cts, rc4-hmac,des3-cbc-sha1 des3-cbc-sha1-kd\n",
	"[libdefaults]\n default_tkt_enctypes = \n allow_weak_crypto = true\n",
	"[libdefaults]\n udp_preference_limit = 32700\n ccache_type = 4\n realm_try_domains = -1\n",
	"[libdefaults]\n udp_preference_limit = 32701\n",
	"[libdefaults]\n ccache_type = +1\n",
	"[libdefaults]\n kdc_timesync = +1\n safe_checksum_type = -0\n",
	"[libdefaults] trailing text\n default_realm = X\n",
	"\v[libdefaults]\n default_realm = X\n",
	"\f[libdefaults]\n default_realm = X\n",
	"[libdefaults\n default_realm = X\n",
	"[]\n default_realm = X\n",
	"text before\n[libdefaults]\n default_realm = X\n",
	"[domain_realm]\n .Ex.com = EX.COM\n ex.com=EX.COM\n .ex.com = SECOND\n",
	"[domain_realm]\n =\n",
	"[domain_realm]\n a = b = c\n",
	"[libdefaults]\r\n default_realm = X\r\n\r\n[realms]\r\n X = {\r\n kdc = k\r\n }\r",
}

func streamCorner(c *ctx) {
	for _, text := range corner {
		cfg, err, panicked, pv := load(text)
		c.Check(!panicked, "corner-file-no-panic", "C16:panic:NewFromString:corner", fmt.Sprint(pv), text)
		caseParse(c, text, cfg, err, panicked)
		c.Count("corner")
	}
}

// ---- scalars (through the verif-tagged exports)

func caseBool(c *ctx, s string) (bool, error) {
	var v bool
	var err error
	panicked, _ := hctx.Guard(func() { v, err = config.VerifParseBoolean(s) })
	obs := jv.Err()
	if panicked {
		obs = jv.Panic()
	} else if err == nil {
		obs = jv.Ok(jv.Bool(v))
	}
	if isASCII(s) {
		c.Case("c16_bool", jv.S(s), obs)
	}
	return v, err
}

func isASCII(s string) bool {
	for i := 0; i < len(s); i++ {
		if s[i] >= 128 {
			return false
		}
	}
	return true
}

func durModelled(s string) bool {
	return isASCII(s) && !strings.ContainsAny(s, ".+-")
}

func caseDur(c *ctx, s string) (time.Duration, error) {
	var v time.Duration
	var err error
	panicked, _ := hctx.Guard(func() { v, err = config.VerifParseDuration(s) })
	obs := jv.Err()
	if panicked {
		obs = jv.Panic()
	} else if err == nil {
		obs = jv.Ok(durV(v))
	}
	if durModelled(s) {
		c.Case("c16_dur", jv.S(s), obs)
	} else {
		c.Count("duration:unmodelled-skipped")
	}
	return v, err
}

func streamScalars(c *ctx, g *gen, n int) {
	pads := []string{"", " ", "\t", "  ", " \t "}
	// every accepted boolean spelling, padded
	for _, sp := range boolSpellings {
		for _, a := range pads {
			for _, b := range pads {
				v, err := caseBool(c, a+sp.s+b)
				c.Check(err == nil && v == sp.v, "boolean-spelling", "C16:boolean:"+sp.s, fmt.Sprintf("%q -> %v %v", sp.s, v, err), sp.s)
			}
		}
	}
	for _, s := range []string{"", "maybe", "2", "on", "off", "nil", "TrUe", "tRUE", "yess", "ye", "tt", "00", "01", " ", "y e s", "yes\x00", "NO ", "\vno\f", "ｙｅｓ", "ye "} {
		caseBool(c, s)
	}
	for i := 0; i < n; i++ {
		d := g.duration()
		s := pads[g.n(len(pads))] + d.s + pads[g.n(len(pads))]
		v, err := caseDur(c, s)
		c.Check(err == nil && v == d.d, "duration-format", "C16:duration:"+d.kind, fmt.Sprintf("%q -> %v %v want %v", s, v, err, d.d), s)
		c.Count("duration:" + d.kind)
	}
	for _, s := range []string{"", "0", "00", "1", "4294967295", "4294967296", "1d", "1d1d", "d", "1dd", "0d", "1d0", "1d 2h", "1 d", "1h30", "30m1h", "1h1h",
		"5ms", "5us", "5ns", "5µs", "1.5h", "-1h", "+1h", "-5", "+5", "1:2", "1:2:3", "1:2:3:4", ":", "1:", ":1", "-1:30", "+1:30", "32768:0", "32767:59:59", "1:-2",
		"106751d", "106752d", "4294967295d", "2562047h47m16s", "2562047h47m17s", "9223372036854775807ns", "9223372036854775808ns", "922337203685477581s",
		"99999999999999999999s", "1h 30m", " 1 2 ", "12", "1e3", "1_000", "1H", "1D", "h", "1x", "1m2", "0x10", "１"} {
		caseDur(c, s)
	}
	// junk durations over the alphabet of the formats
	const dalpha = "0123456789dhms: "
	for i := 0; i < n; i++ {
		k := g.n(9)
		b := make([]byte, k)
		for j := range b {
			b[j] = dalpha[g.n(len(dalpha))]
		}
		caseDur(c, string(b))
	}
	// enctype lists
	extra := []string{"des3-cbc-sha1", "des3-hmac-sha1", "des3-cbc-md5", "subkey-keymaterial", "rsaES-OAEP-ENV-OID", "camellia128-cts-cmac", "", "aes256-cts,"}
	for i := 0; i < n; i++ {
		k := g.n(7)
		names := make([]string, k)
		for j := range names {
			if g.p(0.25) {
				names[j] = g.pick(extra)
			} else {
				names[j] = etypeNames[g.n(len(etypeNames))].name
			}
		}
		w := g.p(0.5)
		var ids []int32
		panicked, _ := hctx.Guard(func() { ids = config.VerifParseETypes(names, w) })
		obs := jv.Ok(ints32(ids))
		if panicked {
			obs = jv.Panic()
		}
		c.Case("c16_etypes", jv.L(jv.Strs(names), jv.Bool(w)), obs)
		// direct oracle on the names whose documented id is undisputed
		var want []int32
		clean := true
		for _, nm := range names {
			found := false
			for _, e := range etypeNames {
				if e.name == nm {
					found = true
					if e.id != 0 {
						want = append(want, e.id)
					}
				}
			}
			if !found && nm != "" && nm != "aes256-cts," && nm != "camellia128-cts-cmac" {
				clean = false
			}
		}
		if clean {
			c.Check(eqI32(ids, want), "enctype-ids", "C16:enctype-ids", fmt.Sprint(names, ids, want), names)
		}
	}
	// appendUntilFinal: values after a final marker are ignored
	for i := 0; i < n; i++ {
		k := g.n(7)
		vals := make([]string, k)
		var want []string
		final := false
		for j := range vals {
			v := g.pick([]string{"a", "host:88", "", "x y", "*", "h**", "k"})
			mark := g.p(0.25)
			if mark {
				vals[j] = v + "*"
			} else {
				vals[j] = v
			}
			if !final {
				// a value that itself ends in '*' is a marked value
				if strings.HasSuffix(vals[j], "*") {
					want = append(want, vals[j][:len(vals[j])-1])
					final = true
				} else {
					want = append(want, vals[j])
				}
			}
		}
		var s []string
		var f bool
		panicked, _ := hctx.Guard(func() {
			for _, v := range vals {
				config.VerifAppendUntilFinal(&s, v, &f)
			}
		})
		obs := jv.Ok(jv.Strs(s), jv.Bool(f))
		if panicked {
			obs = jv.Panic()
		}
		c.Case("c16_auf", jv.Strs(vals), obs)
		c.Check(!panicked && eqStrs(s, want) && f == final, "final-marker", "C16:final-marker", fmt.Sprint(vals, s, want), vals)
	}
}

// ---- ResolveRealm: exhaustive sweep

// mostSpecific is the independent oracle: the exact mapping if any, else the mapping of the longest suffix
// of the name that starts at a dot, else "".
func mostSpecific(m map[string]string, name string) string {
	name = strings.TrimSuffix(name, ".")
	if r, ok := m[name]; ok {
		return r
	}
	best, bestLen := "", -1
	for k, r := range m {
		if strings.HasPrefix(k, ".") && strings.HasSuffix(name, k) && len(k) > bestLen {
			best, bestLen = r, len(k)
		}
	}
	return best
}

func streamResolve(c *ctx) {
	labels := []string{"a", "b", "c"}
	var names []string
	var rec func(prefix string, depth int)
	rec = func(prefix string, depth int) {
		if depth > 0 {
			names = append(names, prefix)
		}
		if depth == 5 {
			return
		}
		for _, l := range labels {
			if depth == 0 {
				rec(l, 1)
			} else {
				rec(prefix+"."+l, depth+1)
			}
		}
	}
	rec("", 0)
	// variants: trailing dot, leading dot, empty, doubled dot, upper case
	extra := []string{"", ".", "..", "a.", ".a", ".b.a", "b.a.", "b.a..", "a..b", "A", "B.A", "c.B.a", ".a.", "c.b.a."}
	names = append(names, extra...)
	pool := []string{".a", "a", ".b.a", "b.a", ".c.b.a", "c.b.a", ".c", ".a.a"}
	if !c.Quick() {
		pool = append(pool, ".b", "b", ".b.c.a.b", "a.b.c.a.b")
	}
	hostV := make([]jv.V, len(names))
	for i, n := range names {
		hostV[i] = jv.S(n)
	}
	for mask := 0; mask < 1<<uint(len(pool)); mask++ {
		cfg := config.New()
		m := map[string]string{}
		var mv []jv.V
		for i, k := range pool {
			if mask&(1<<uint(i)) != 0 {
				r := fmt.Sprintf("R%d", i)
				cfg.DomainRealm[k] = r
				m[k] = r
				mv = append(mv, jv.L(jv.S(k), jv.S(r)))
			}
		}
		obs := make([]jv.V, len(names))
		for i, n := range names {
			var r string
			panicked, pv := hctx.Guard(func() { r = cfg.ResolveRealm(n) })
			if panicked {
				obs[i] = jv.Panic()
				c.Check(false, "resolve-no-panic", "C16:panic:ResolveRealm", fmt.Sprint(pv), n)
				continue
			}
			obs[i] = jv.Ok(jv.S(r))
			want := mostSpecific(m, n)
			c.Check(r == want, "resolve-most-specific", "C16:resolve:not-most-specific", fmt.Sprintf("%q -> %q want %q with %v", n, r, want, m), n)
		}
		c.Case("c16_resolve", jv.L(jv.L(mv...), jv.L(hostV...)), jv.L(obs...))
		c.Count("resolve:mapping-subsets")
	}
	c.Hist["resolve:hostnames-per-subset"] = len(names)
}

// ---- GetKDCs / GetKpasswdServers

func cloneRealms(rs []config.Realm) []config.Realm {
	if rs == nil {
		return nil
	}
	out := make([]config.Realm, len(rs))
	cp := func(s []string) []string {
		if s == nil {
			return nil
		}
		return append([]string{}, s...)
	}
	for i, r := range rs {
		out[i] = config.Realm{Realm: r.Realm, AdminServer: cp(r.AdminServer), DefaultDomain: r.DefaultDomain, KDC: cp(r.KDC), KPasswdServer: cp(r.KPasswdServer), MasterKDC: cp(r.MasterKDC)}
	}
	return out
}

// recoverOracle finds rand.Intn results that make randServOrder turn ks into the observed order.
func recoverOracle(ks []string, order []string) ([]int64, bool) {
	cur := append([]string{}, ks...)
	if len(cur) <= 1 {
		return nil, len(order) == len(cur) && (len(cur) == 0 || cur[0] == order[0])
	}
	var o []int64
	for _, v := range order {
		ri := -1
		for i, x := range cur {
			if x == v {
				ri = i
				break
			}
		}
		if ri < 0 {
			return nil, false
		}
		o = append(o, int64(ri))
		cur[ri] = cur[len(cur)-1]
		cur = cur[:len(cur)-1]
	}
	return o, len(cur) == 0
}

func hcfgJV(cfg *config.Config, before []config.Realm) jv.V {
	return jv.L(jv.S(cfg.LibDefaults.DefaultRealm), jv.Bool(cfg.LibDefaults.DNSLookupKDC), projRealms(before))
}

func multisetEq(a, b []string) bool {
	if len(a) != len(b) {
		return false
	}
	x := append([]string{}, a...)
	y := append([]string{}, b...)
	sort.Strings(x)
	sort.Strings(y)
	return reflect.DeepEqual(x, y)
}

type lookupFn func(realm string, tcp bool) (int, map[int]string, error)

// lookups calls one of the two look-up functions reps times and checks: the count, the keys 1..n, each
// configured server exactly once, the configuration untouched.  expected = the configured list the
// function must serve (nil: an error is expected).
func lookups(c *ctx, cfg *config.Config, fn string, f lookupFn, realm string, expected []string, reps int) {
	orders := map[string]bool{}
	for rep := 0; rep < reps; rep++ {
		before := cloneRealms(cfg.Realms)
		var n int
		var m map[int]string
		var err error
		panicked, pv := hctx.Guard(func() { n, m, err = f(realm, rep%2 == 0) })
		c.Check(!panicked, "lookup-no-panic", "C16:panic:"+fn, fmt.Sprint(pv), realm)
		if panicked {
			c.Case("c16_"+fn, jv.L(hcfgJV(cfg, before), jv.S(realm), jv.L()), jv.Panic())
			return
		}
		unchanged := reflect.DeepEqual(before, cfg.Realms)
		c.Check(unchanged, "lookup-leaves-config-unchanged", "C16:"+fn+":config-modified", fmt.Sprintf("before %v after %v", before, cfg.Realms), realm)
		if len(expected) == 0 {
			c.Check(err != nil, "lookup-unknown-realm-fails", "C16:"+fn+":no-servers-no-error", fmt.Sprint(n, m), realm)
			if err != nil {
				c.Case("c16_"+fn, jv.L(hcfgJV(cfg, before), jv.S(realm), jv.L()), jv.Err())
			}
			return
		}
		vals := make([]string, 0, len(m))
		keysOK := len(m) == n
		for i := 1; i <= n; i++ {
			v, ok := m[i]
			if !ok {
				keysOK = false
			}
			vals = append(vals, v)
		}
		c.Check(err == nil && n == len(expected) && keysOK, "lookup-count-and-keys", "C16:"+fn+":count-or-keys", fmt.Sprint(n, m, err, expected), realm)
		c.Check(multisetEq(vals, expected), "lookup-each-server-once", "C16:"+fn+":not-each-once", fmt.Sprint(m, expected), realm)
		orders[strings.Join(vals, "|")] = true
		if keysOK && err == nil {
			o, ok := recoverOracle(expected, vals)
			if ok {
				ov := make([]jv.V, len(o))
				for i, x := range o {
					ov[i] = jv.I(x)
				}
				mv := make([]jv.V, n)
				for i := 1; i <= n; i++ {
					mv[i-1] = jv.L(jv.I(int64(i)), jv.S(m[i]))
				}
				c.Case("c16_"+fn, jv.L(hcfgJV(cfg, before), jv.S(realm), jv.L(ov...)),
					jv.Ok(jv.I(int64(n)), jv.L(mv...), projRealms(cfg.Realms)))
			} else {
				c.Count("lookup:oracle-not-recoverable")
			}
		}
		// put the configuration back so that the next repetition starts from the same state even on
		// unrepaired code
		cfg.Realms = before
	}
	distinct := map[string]bool{}
	for _, e := range expected {
		distinct[e] = true
	}
	if len(distinct) >= 3 && reps >= 30 {
		c.Check(len(orders) > 1, "lookup-order-varies", "C16:"+fn+":order-never-varies", fmt.Sprint(orders), realm)
	}
	c.Count(fmt.Sprintf("lookup:%s:servers=%d", fn, len(expected)))
	c.Hist[fmt.Sprintf("lookup:%s:distinct-orders-seen(max)", fn)] = maxInt(c.Hist[fmt.Sprintf("lookup:%s:distinct-orders-seen(max)", fn)], len(orders))
}

func maxInt(a, b int) int {
	if a > b {
		return a
	}
	return b
}

func streamLookups(c *ctx, g *gen, base []genConfig, reps int) {
	run := func(cfg *config.Config) {
		cfg.LibDefaults.DNSLookupKDC = false // the DNS SRV branches are outside the model
		names := map[string]bool{"": true, "NO.SUCH.REALM": true}
		for _, r := range cfg.Realms {
			names[r.Realm] = true
		}
		var sorted []string
		for n := range names {
			sorted = append(sorted, n)
		}
		sort.Strings(sorted)
		for _, name := range sorted {
			eff := name
			if eff == "" {
				eff = cfg.LibDefaults.DefaultRealm
			}
			// GetKDCs serves the last entry of that name
			var kd []string
			for _, r := range cfg.Realms {
				if r.Realm == eff {
					kd = r.KDC
				}
			}
			lookups(c, cfg, "getkdcs", cfg.GetKDCs, name, append([]string{}, kd...), reps)
			// GetKpasswdServers serves the first entry of that name (no default realm substitution)
			var kp []string
			for _, r := range cfg.Realms {
				if r.Realm == name {
					kp = r.KPasswdServer
					if len(kp) == 0 {
						for _, a := range r.AdminServer {
							if strings.Count(a, ":") == 1 {
								kp = append(kp, strings.SplitN(a, ":", 2)[0]+":464")
							}
						}
					}
					break
				}
			}
			lookups(c, cfg, "getkpasswd", cfg.GetKpasswdServers, name, append([]string{}, kp...), reps)
		}
	}
	for _, gc := range base {
		cfg, _, panicked, _ := load(gc.text)
		if panicked || cfg == nil {
			continue
		}
		run(cfg)
	}
	// hand-built configurations: 0..4 servers of each kind, duplicates, repeated realm names, empty
	// kpasswd list with admin servers with and without port
	for i := 0; i < len(base)/2+20; i++ {
		cfg := config.New()
		cfg.LibDefaults.DefaultRealm = g.pick(realmNames)
		k := 1 + g.n(4)
		for j := 0; j < k; j++ {
			r := config.Realm{Realm: g.pick(realmNames[:4])}
			mk := func(port bool) []string {
				var s []string
				for x := g.n(5); x > 0; x-- {
					h := g.pick(hosts[:4])
					if port || g.p(0.5) {
						h += ":" + g.pick([]string{"88", "749"})
					}
					s = append(s, h)
				}
				return s
			}
			r.KDC = mk(true)
			r.AdminServer = mk(false)
			if g.p(0.5) {
				r.KPasswdServer = mk(true)
			}
			cfg.Realms = append(cfg.Realms, r)
		}
		run(cfg)
	}
	// randServOrder itself
	for i := 0; i < 40*reps; i++ {
		k := 1 + g.n(5)
		ks := make([]string, k)
		for j := range ks {
			ks[j] = g.pick(hosts[:5])
		}
		arg := append([]string{}, ks...)
		var m map[int]string
		panicked, pv := hctx.Guard(func() { m = config.VerifRandServOrder(arg) })
		c.Check(!panicked, "lookup-no-panic", "C16:panic:randServOrder", fmt.Sprint(pv), ks)
		if panicked {
			continue
		}
		vals := make([]string, 0, k)
		for j := 1; j <= len(m); j++ {
			vals = append(vals, m[j])
		}
		c.Check(len(m) == k && multisetEq(vals, ks), "lookup-each-server-once", "C16:randServOrder:not-each-once", fmt.Sprint(m, ks), ks)
		c.Check(reflect.DeepEqual(arg, ks), "lookup-leaves-config-unchanged", "C16:randServOrder:argument-modified", fmt.Sprint(arg, ks), ks)
		if o, ok := recoverOracle(ks, vals); ok {
			ov := make([]jv.V, len(o))
			for j, x := range o {
				ov[j] = jv.I(x)
			}
			c.Case("c16_rso", jv.L(jv.Strs(ks), jv.L(ov...)), jv.Ok(jv.Strs(vals), jv.Strs(arg)))
		}
	}
}

// Run is the stream of property C16.
func Run(c *ctx) {
	d := config.New()
	envKeytab, envK5Dir = d.LibDefaults.DefaultClientKeytabName, d.LibDefaults.K5LoginDirectory
	g := &gen{c: c}
	nCfg, nInv, nMut, nSc, reps, nLookupCfg := 1200, 520, 1500, 600, 30, 60
	if !c.Quick() {
		nCfg, nInv, nMut, nSc, reps, nLookupCfg = 20000, 5200, 30000, 6000, 60, 400
	}
	// C16_ONLY=corner,scalars,configs,invalid,mutations,resolve,lookups restricts the run (development aid)
	only := os.Getenv("C16_ONLY")
	want := func(name string) bool { return only == "" || strings.Contains(","+only+",", ","+name+",") }
	if want("corner") {
		streamCorner(c)
	}
	if want("scalars") {
		streamScalars(c, g, nSc)
	}
	var base []genConfig
	if want("configs") || want("mutations") || want("lookups") {
		base = streamConfigs(c, g, nCfg)
	}
	if want("invalid") {
		streamInvalid(c, g, nInv)
	}
	if want("mutations") {
		streamMutations(c, g, base, nMut)
	}
	if want("resolve") {
		streamResolve(c)
	}
	if want("lookups") {
		if len(base) > nLookupCfg {
			base = base[:nLookupCfg]
		}
		streamLookups(c, g, base, reps)
	}
	c.Notes = append(c.Notes,
		"model cases are emitted only for ASCII texts below 60000 bytes whose duration values have no fraction or sign (parse:unmodelled-skipped, duration:unmodelled-skipped count the rest)",
		"the rand.Intn results of randServOrder are recovered from the returned order and given to the model as its oracle",
		"text before the first section header is ignored by MIT's profile parser and by gokrb5; it is part of the randomised layout, not of the invalid files")
}
