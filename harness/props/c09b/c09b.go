// Package c09b is the "bytes mode" stream of property C09 (the client accepts a KDC reply only if it answers
// the request it sent): every case starts from the WIRE BYTES of an AS-REP / TGS-REP, written by an independent
// DER writer (this file) with full control over every cleartext and sealed field, and is run through the real
// call sequence of the client:
//
//	AS : var r messages.ASRep;  r.Unmarshal(wire);  r.Verify(cfg, creds, asReq)              (client/ASExchange.go)
//	TGS: var r messages.TGSRep; r.Unmarshal(wire);  r.DecryptEncPart(key); r.Verify(cfg, req) (client/TGSExchange.go)
//
// The model (coq/model/KDCRepBytes.v: asrep_verify_bytes, tgsrep_verify_bytes) gets the same bytes.
// Direct oracles: a reply that answers the request is accepted; each tampering of the catalogue is rejected;
// no input panics.
package c09b

import (
	"encoding/binary"
	"fmt"
	"time"

	"github.com/jcmturner/gokrb5/v8/config"
	"github.com/jcmturner/gokrb5/v8/credentials"
	"github.com/jcmturner/gokrb5/v8/crypto"
	"github.com/jcmturner/gokrb5/v8/keytab"
	"github.com/jcmturner/gokrb5/v8/messages"
	"github.com/jcmturner/gokrb5/v8/types"
	"verif/harness/internal/hctx"
	"verif/harness/internal/jv"
)

// ---------------------------------------------------------------------------------------------------------
// an independent DER writer: a tree of TLVs
// ---------------------------------------------------------------------------------------------------------

type node struct {
	name   string
	id     []byte  // identifier octets
	kids   []*node // constructed contents
	val    []byte  // primitive contents (kids == nil)
	lenEnc func(n int) []byte
	// filled by encode: where the contents landed in the output
	off, end int
}

func derLen(n int) []byte {
	if n < 128 {
		return []byte{byte(n)}
	}
	var o []byte
	for x := n; x > 0; x >>= 8 {
		o = append([]byte{byte(x)}, o...)
	}
	return append([]byte{byte(128 + len(o))}, o...)
}

// long form with k length octets whatever the value (non-minimal when the value would fit fewer)
func longLen(k int) func(int) []byte {
	return func(n int) []byte {
		o := make([]byte, k)
		for i := k - 1; i >= 0; i-- {
			o[i] = byte(n)
			n >>= 8
		}
		return append([]byte{byte(128 + k)}, o...)
	}
}

func (n *node) encodeTo(out []byte) []byte {
	var body []byte
	if n.kids != nil {
		for _, k := range n.kids {
			body = k.encodeTo(body)
		}
	} else {
		body = n.val
	}
	le := derLen
	if n.lenEnc != nil {
		le = n.lenEnc
	}
	hdr := append(append([]byte{}, n.id...), le(len(body))...)
	base := len(out) + len(hdr)
	// shift the spans of the children to their final place
	n.shift(base)
	n.off, n.end = base, base+len(body)
	out = append(out, hdr...)
	return append(out, body...)
}

func (n *node) shift(d int) {
	for _, k := range n.kids {
		k.off += d
		k.end += d
		k.shift(d)
	}
}

func (n *node) bytes() []byte { return n.encodeTo(nil) }

func (n *node) clone() *node {
	c := *n
	c.id = append([]byte{}, n.id...)
	if n.val != nil {
		c.val = append([]byte{}, n.val...)
	}
	if n.kids != nil {
		c.kids = make([]*node, len(n.kids))
		for i, k := range n.kids {
			c.kids[i] = k.clone()
		}
	}
	return &c
}

func (n *node) find(name string) *node {
	if n.name == name {
		return n
	}
	for _, k := range n.kids {
		if r := k.find(name); r != nil {
			return r
		}
	}
	return nil
}

func (n *node) all(f func(*node)) {
	f(n)
	for _, k := range n.kids {
		k.all(f)
	}
}

// removeKid drops the named direct or indirect child.
func (n *node) remove(name string) bool {
	for i, k := range n.kids {
		if k.name == name {
			n.kids = append(append([]*node{}, n.kids[:i]...), n.kids[i+1:]...)
			return true
		}
		if k.remove(name) {
			return true
		}
	}
	return false
}

func named(name string, n *node) *node { n.name = name; return n }
func cons(id byte, kids ...*node) *node {
	if kids == nil {
		kids = []*node{}
	}
	return &node{id: []byte{id}, kids: kids}
}
func prim(id byte, v []byte) *node {
	if v == nil {
		v = []byte{}
	}
	return &node{id: []byte{id}, val: v}
}
func cx(n int, kids ...*node) *node { return cons(byte(0xa0+n), kids...) }
func ap(n int, kids ...*node) *node { return cons(byte(0x60+n), kids...) }
func sq(kids ...*node) *node        { return cons(0x30, kids...) }
func oc(b []byte) *node             { return prim(4, b) }
func gs(s string) *node             { return prim(27, []byte(s)) }
func str(tag byte, s string) *node  { return prim(tag, []byte(s)) }
func bs(b []byte) *node             { return prim(3, append([]byte{0}, b...)) }
func gt(t time.Time) *node          { return prim(24, []byte(t.UTC().Format("20060102150405Z"))) }
func in(v int64) *node              { return prim(2, intBytes(v)) }

// minimal two's complement
func intBytes(v int64) []byte {
	var b [8]byte
	binary.BigEndian.PutUint64(b[:], uint64(v))
	i := 0
	for i < 7 && ((b[i] == 0 && b[i+1]&0x80 == 0) || (b[i] == 0xff && b[i+1]&0x80 != 0)) {
		i++
	}
	return append([]byte{}, b[i:]...)
}

func pname(nt int32, comps []string) *node {
	var cs []*node
	for _, c := range comps {
		cs = append(cs, gs(c))
	}
	return sq(cx(0, in(int64(nt))), cx(1, named("name-strings", sq(cs...))))
}

func addrs(as []types.HostAddress) *node {
	var es []*node
	for _, a := range as {
		es = append(es, sq(cx(0, in(int64(a.AddrType))), cx(1, oc(a.Address))))
	}
	return sq(es...)
}

type pa struct {
	t int32
	v []byte
}

func padata(ps []pa) *node {
	var es []*node
	for _, p := range ps {
		es = append(es, sq(cx(1, in(int64(p.t))), cx(2, oc(p.v))))
	}
	return sq(es...)
}

func encData(name string, etype int32, kvno *int64, cipher []byte) *node {
	kids := []*node{named(name+".etype", cx(0, in(int64(etype))))}
	if kvno != nil {
		kids = append(kids, named(name+".kvno", cx(1, in(*kvno))))
	}
	kids = append(kids, cx(2, named(name+".cipher", oc(cipher))))
	return named(name, sq(kids...))
}

// ETYPE-INFO2 / ETYPE-INFO values
func etypeInfo2(et int32, salt *string, params []byte) []byte {
	kids := []*node{cx(0, in(int64(et)))}
	if salt != nil {
		kids = append(kids, cx(1, gs(*salt)))
	}
	if params != nil {
		kids = append(kids, cx(2, oc(params)))
	}
	return sq(sq(kids...)).bytes()
}
func etypeInfo(et int32, salt []byte) []byte {
	kids := []*node{cx(0, in(int64(et)))}
	if salt != nil {
		kids = append(kids, cx(1, oc(salt)))
	}
	return sq(sq(kids...)).bytes()
}

// ---------------------------------------------------------------------------------------------------------
// the two messages as specifications
// ---------------------------------------------------------------------------------------------------------

type encSpec struct {
	app       int
	keyType   int32
	keyValue  []byte
	lastReq   int // number of last-req entries
	nonce     int64
	nonceRaw  []byte // when set: INTEGER contents verbatim
	keyExp    *time.Time
	flags     []byte
	auth      time.Time
	start     *time.Time
	end       time.Time
	renew     *time.Time
	srealm    string
	snameType int32
	sname     []string
	caddr     []types.HostAddress // nil: absent
	encPA     []pa                // nil: absent
	trailer   []byte              // after the DER value, inside the ciphertext
}

func (e *encSpec) tree() *node {
	var lr []*node
	for i := 0; i < e.lastReq; i++ {
		lr = append(lr, sq(cx(0, in(int64(i))), cx(1, gt(e.auth))))
	}
	nonce := in(e.nonce)
	if e.nonceRaw != nil {
		nonce = prim(2, e.nonceRaw)
	}
	kids := []*node{
		cx(0, sq(cx(0, in(int64(e.keyType))), cx(1, oc(e.keyValue)))),
		cx(1, sq(lr...)),
		named("nonce", cx(2, nonce)),
	}
	if e.keyExp != nil {
		kids = append(kids, cx(3, gt(*e.keyExp)))
	}
	kids = append(kids, named("flags", cx(4, bs(e.flags))), named("authtime", cx(5, gt(e.auth))))
	if e.start != nil {
		kids = append(kids, named("starttime", cx(6, gt(*e.start))))
	}
	kids = append(kids, cx(7, gt(e.end)))
	if e.renew != nil {
		kids = append(kids, cx(8, gt(*e.renew)))
	}
	kids = append(kids, named("srealm", cx(9, gs(e.srealm))), named("sname", cx(10, pname(e.snameType, e.sname))))
	if e.caddr != nil {
		kids = append(kids, named("caddr", cx(11, addrs(e.caddr))))
	}
	if e.encPA != nil {
		kids = append(kids, cx(12, padata(e.encPA)))
	}
	return named("enc", ap(e.app, named("enc.seq", sq(kids...))))
}

type repSpec struct {
	app       int
	pvno      int64
	msgType   int64
	padata    []pa // nil: absent
	crealm    string
	cnameType int32
	cname     []string
	tktVNO    int64
	tktRealm  string
	tktSName  []string
	tktEType  int32
	tktKVNO   *int64
	tktCipher []byte
	etype     int32
	kvno      *int64
	cipher    []byte
}

func (r *repSpec) tree() *node {
	tkt := named("ticket", ap(1, named("ticket.seq", sq(
		cx(0, in(r.tktVNO)), named("tktrealm", cx(1, gs(r.tktRealm))), cx(2, pname(2, r.tktSName)),
		cx(3, encData("tktenc", r.tktEType, r.tktKVNO, r.tktCipher))))))
	kids := []*node{named("pvno", cx(0, in(r.pvno))), named("msgtype", cx(1, in(r.msgType)))}
	if r.padata != nil {
		kids = append(kids, named("padata", cx(2, padata(r.padata))))
	}
	kids = append(kids, named("crealm", cx(3, gs(r.crealm))), named("cname", cx(4, pname(r.cnameType, r.cname))),
		named("ticket.field", cx(5, tkt)), named("encpart.field", cx(6, encData("encpart", r.etype, r.kvno, r.cipher))))
	return named("rep", ap(r.app, named("rep.seq", sq(kids...))))
}

// ---------------------------------------------------------------------------------------------------------
// scenario
// ---------------------------------------------------------------------------------------------------------

var allEtypes = []int32{17, 18, 19, 20, 23, 16}

var addrA = types.HostAddress{AddrType: 2, Address: []byte{10, 1, 2, 3}}
var addrB = types.HostAddress{AddrType: 2, Address: []byte{10, 9, 9, 9}}
var addrC = types.HostAddress{AddrType: 24, Address: []byte{0xfe, 0x80, 0, 0, 0, 0, 0, 0, 0, 0, 0, 0, 0, 0, 0, 1}}

const realm = "TEST.GOKRB5"
const password = "passwordvalue"
const skew = 5 * time.Minute

func testConfig(et int32, renewable bool) *config.Config {
	cfg := config.New()
	cfg.LibDefaults.DefaultRealm = realm
	cfg.LibDefaults.DNSLookupKDC = false
	cfg.LibDefaults.DNSLookupRealm = false
	cfg.LibDefaults.NoAddresses = true
	cfg.LibDefaults.Clockskew = skew
	cfg.LibDefaults.TicketLifetime = 10 * time.Hour
	if renewable {
		cfg.LibDefaults.RenewLifetime = 24 * time.Hour
	}
	cfg.LibDefaults.DefaultTktEnctypeIDs = []int32{et}
	cfg.LibDefaults.DefaultTGSEnctypeIDs = []int32{et}
	cfg.LibDefaults.PermittedEnctypeIDs = []int32{et}
	cfg.Realms = []config.Realm{{Realm: realm, KDC: []string{"127.0.0.1:88"}}}
	return cfg
}

func keyLen(et int32) int {
	switch et {
	case 17, 19, 23:
		return 16
	case 18, 20:
		return 32
	case 16:
		return 24
	}
	return 16
}

func randKey(c *hctx.Ctx, et int32) types.EncryptionKey {
	b := make([]byte, keyLen(et))
	c.R.Read(b)
	if et == 16 { // odd parity, as a des3 key read from a keytab has
		for i := range b {
			x := b[i] & 0xfe
			p := byte(0)
			for j := uint(1); j < 8; j++ {
				p ^= (x >> j) & 1
			}
			b[i] = x | (p ^ 1)
		}
	}
	return types.EncryptionKey{KeyType: et, KeyValue: b}
}

func jKey(k types.EncryptionKey) jv.V { return jv.L(jv.I(int64(k.KeyType)), jv.B(k.KeyValue)) }
func jAddr(a types.HostAddress) jv.V  { return jv.L(jv.I(int64(a.AddrType)), jv.B(a.Address)) }
func jAddrs(as []types.HostAddress) jv.V {
	var v []jv.V
	for _, a := range as {
		v = append(v, jAddr(a))
	}
	return jv.L(v...)
}
func jReq(b messages.KDCReqBody) jv.V {
	return jv.L(jv.Strs(b.CName.NameString), jv.S(b.Realm), jv.Strs(b.SName.NameString), jv.I(int64(b.Nonce)), jAddrs(b.Addresses))
}

// a version 2 keytab file holding one key per etype (independent writer, MIT keytab format)
func writeKeytab(name []string, keys map[int32]types.EncryptionKey, kvno int) []byte {
	f := []byte{5, 2}
	u16 := func(b []byte, x int) []byte { return append(b, byte(x>>8), byte(x)) }
	u32 := func(b []byte, x uint32) []byte { return append(b, byte(x>>24), byte(x>>16), byte(x>>8), byte(x)) }
	for _, et := range allEtypes {
		k, ok := keys[et]
		if !ok {
			continue
		}
		var b []byte
		b = u16(b, len(name))
		b = append(u16(b, len(realm)), realm...)
		for _, c := range name {
			b = append(u16(b, len(c)), c...)
		}
		b = u32(b, 1)
		b = u32(b, 1600000000)
		b = append(b, byte(kvno))
		b = u16(b, int(et))
		b = append(u16(b, len(k.KeyValue)), k.KeyValue...)
		b = u32(b, uint32(kvno))
		f = append(u32(f, uint32(len(b))), b...)
	}
	return f
}

func projKeytab(kt *keytab.Keytab) jv.V {
	es := make([]jv.V, len(kt.Entries))
	for i, e := range kt.Entries {
		p := jv.L(jv.I(int64(e.Principal.NumComponents)), jv.S(e.Principal.Realm), jv.Strs(e.Principal.Components), jv.I(int64(e.Principal.NameType)))
		es[i] = jv.L(p, jv.I(e.Timestamp.Unix()), jv.I(int64(e.KVNO8)), jv.I(int64(e.Key.KeyType)), jv.B(e.Key.KeyValue), jv.I(int64(e.KVNO)))
	}
	return jv.L(es...)
}

type verdict int

const (
	accept verdict = iota
	reject
	unspecified // the catalogue does not say: only the model comparison and "no panic" apply
)

// world is one (etype, credential kind) setting with its keys.
type world struct {
	c       *hctx.Ctx
	et      int32
	kind    string
	cfg     *config.Config
	creds   *credentials.Credentials
	jcreds  jv.V
	cname   types.PrincipalName
	ckey    types.EncryptionKey // the client's long-term key (what the KDC holds)
	kvno    int64
	basePA  []pa                // the padata a conformant KDC sends with the AS-REP for this client
	skey    types.EncryptionKey // TGT session key
	tgt     messages.Ticket
	service types.PrincipalName
}

// s2kRounds follows crypto.GetKeyFromPassword far enough to say how many PBKDF2 rounds the reply's padata ask for
// (0 for the etypes whose string-to-key has no iteration count).  Used only to keep minutes-long cases out of the
// model comparison; the verdict of such a case is still checked by the direct oracles.
func s2kRounds(etype int32, pas []types.PAData) int64 {
	dflt := func(et int32) int64 {
		switch et {
		case 17, 18:
			return 4096
		case 19, 20:
			return 32768
		}
		return 0
	}
	et, rounds, paID := etype, dflt(etype), int32(0)
	for _, pa := range pas {
		switch pa.PADataType {
		case 3:
			if paID <= 3 {
				paID = 3
			}
		case 11:
			if paID > 11 {
				continue
			}
			var e types.ETypeInfo
			if e.Unmarshal(pa.PADataValue) != nil {
				return 0
			}
			if len(e) > 0 {
				et, paID = e[0].EType, 11
			}
		case 19:
			var e types.ETypeInfo2
			if e.Unmarshal(pa.PADataValue) != nil {
				return 0
			}
			if len(e) > 0 {
				et, paID = e[0].EType, 19
				if len(e[0].S2KParams) == 4 {
					rounds = int64(binary.BigEndian.Uint32(e[0].S2KParams))
				}
			}
		}
	}
	if !isAES(et) {
		return 0
	}
	return rounds
}

func (w *world) maxRounds() int64 {
	if w.c.Quick() {
		return 300
	}
	return 5000
}

// the PBKDF2 iteration count a conformant KDC of this stream announces: small, because the extracted model pays
// for every round (the default counts are C08's subject and appear here in the thorough tier only)
func rounds(c *hctx.Ctx) uint32 {
	if c.Quick() {
		return uint32(1 + c.R.Intn(3))
	}
	return uint32(1 + c.R.Intn(40))
}

func isAES(et int32) bool { return et == 17 || et == 18 || et == 19 || et == 20 }

func iterParams(n uint32) []byte { return []byte{byte(n >> 24), byte(n >> 16), byte(n >> 8), byte(n)} }

func newWorld(c *hctx.Ctx, et int32, kind string) *world {
	w := &world{c: c, et: et, kind: kind, cfg: testConfig(et, false), kvno: 2}
	w.cname = types.PrincipalName{NameType: 1, NameString: []string{"testuser1"}}
	w.service = types.PrincipalName{NameType: 2, NameString: []string{"HTTP", "host.test.gokrb5"}}
	if kind == "password" {
		// a conformant KDC announces salt and (for AES) a small iteration count in ETYPE-INFO2
		salt := "SALT." + realm + "testuser1"
		var params []byte
		if et == 17 || et == 18 || et == 19 || et == 20 {
			params = iterParams(rounds(c))
		}
		w.basePA = []pa{{19, etypeInfo2(et, &salt, params)}}
		k, _, err := crypto.GetKeyFromPassword(password, w.cname, realm, et, []types.PAData{{PADataType: 19, PADataValue: w.basePA[0].v}})
		if err != nil {
			panic(err)
		}
		w.ckey = k
		w.creds = credentials.New("testuser1", realm).WithPassword(password)
		w.jcreds = jv.L(jv.L(), jv.L(jv.S(password)))
	} else {
		w.ckey = randKey(c, et)
		keys := map[int32]types.EncryptionKey{et: w.ckey}
		// a second etype in the keytab, so that the lookup has something to skip
		o := allEtypes[(indexOf(et)+1)%len(allEtypes)]
		keys[o] = randKey(c, o)
		kt := keytab.New()
		if err := kt.Unmarshal(writeKeytab([]string{"testuser1"}, keys, int(w.kvno))); err != nil {
			panic(err)
		}
		w.creds = credentials.New("testuser1", realm).WithKeytab(kt)
		w.jcreds = jv.L(jv.L(projKeytab(kt)), jv.L())
	}
	w.skey = randKey(c, et)
	w.tgt = messages.Ticket{TktVNO: 5, Realm: realm, SName: types.PrincipalName{NameType: 2, NameString: []string{"krbtgt", realm}},
		EncPart: types.EncryptedData{EType: et, KVNO: 1, Cipher: randBytes(c, 96)}}
	return w
}

func indexOf(et int32) int {
	for i, e := range allEtypes {
		if e == et {
			return i
		}
	}
	return 0
}

func randBytes(c *hctx.Ctx, n int) []byte {
	b := make([]byte, n)
	c.R.Read(b)
	return b
}

// exchange is one request with the conformant reply to it, as specifications that tamperings edit.
type exchange struct {
	w      *world
	tgs    bool
	asReq  messages.ASReq
	tgsReq messages.TGSReq
	body   *messages.KDCReqBody
	rep    repSpec
	enc    encSpec
	key    types.EncryptionKey // sealing key
	usage  uint32
	// wire-level edits, applied to the trees before encoding
	encEdit func(*node)
	repEdit func(*node)
	fast    bool // the sealed flags have bit 15 set
	// edit of the plaintext octets before sealing
	plainEdit func([]byte) []byte
	// edits of the ciphertext after sealing
	cipherEdit func([]byte) []byte
}

func (w *world) newExchange(tgs bool, nonce int64, addresses []types.HostAddress) *exchange {
	x := &exchange{w: w, tgs: tgs}
	now := time.Now().UTC().Truncate(time.Second)
	end := now.Add(10 * time.Hour)
	var sname types.PrincipalName
	if tgs {
		r, err := messages.NewTGSReq(w.cname, realm, w.cfg, w.tgt, w.skey, w.service, false)
		if err != nil {
			panic(err)
		}
		x.tgsReq = r
		x.body = &x.tgsReq.ReqBody
		x.key, x.usage = w.skey, 8
		sname = w.service
	} else {
		r, err := messages.NewASReqForTGT(realm, w.cfg, w.cname)
		if err != nil {
			panic(err)
		}
		x.asReq = r
		x.body = &x.asReq.ReqBody
		x.key, x.usage = w.ckey, 3
		sname = r.ReqBody.SName
	}
	x.body.Nonce = int(nonce)
	x.body.Addresses = addresses
	app, encApp := 11, 25
	if tgs {
		app, encApp = 13, 26
	}
	kv := w.kvno
	tk := int64(1)
	x.rep = repSpec{app: app, pvno: 5, msgType: int64(app), crealm: realm, cnameType: 1, cname: w.cname.NameString,
		tktVNO: 5, tktRealm: realm, tktSName: sname.NameString, tktEType: w.et, tktKVNO: &tk, tktCipher: randBytes(w.c, 120),
		etype: x.key.KeyType, kvno: &kv}
	if !tgs {
		x.rep.padata = w.basePA
	} else {
		x.rep.kvno = nil
	}
	x.enc = encSpec{app: encApp, keyType: w.et, keyValue: randKey(w.c, w.et).KeyValue, lastReq: 1, nonce: nonce,
		flags: []byte{0x40, 0x80, 0, 0}, auth: now, end: end, srealm: realm, snameType: sname.NameType, sname: sname.NameString}
	if tgs {
		x.enc.start = &now
	}
	if len(addresses) > 0 {
		x.enc.caddr = addresses
	}
	return x
}

// wire seals the encrypted part and writes the reply.  spans: the final tree (for positions).
func (x *exchange) wire() ([]byte, *node) {
	et := x.enc.tree()
	if x.encEdit != nil {
		x.encEdit(et)
	}
	plain := append(et.bytes(), x.enc.trailer...)
	if x.plainEdit != nil {
		plain = x.plainEdit(plain)
	}
	// flag 15 (enc-pa-rep) starts the FAST negotiation check of ASRep.Verify, which is outside the modelled
	// fragment (the model answers "not modelled"): such a case keeps its direct oracles only
	x.fast = x.w.sealedCase(plain)
	ed, err := crypto.GetEncryptedData(plain, x.key, x.usage, 0)
	if err != nil {
		panic(err)
	}
	x.rep.cipher = ed.Cipher
	if x.cipherEdit != nil {
		x.rep.cipher = x.cipherEdit(append([]byte{}, ed.Cipher...))
	}
	rt := x.rep.tree()
	if x.repEdit != nil {
		x.repEdit(rt)
	}
	return rt.bytes(), rt
}

// run hands the bytes to the real client code and to the model.
func (x *exchange) run(name string, wire []byte, want verdict) bool {
	return x.w.runWire(name, x.tgs, x.asReq, x.tgsReq, wire, want, x.fast && !x.tgs)
}

func (w *world) runWire(name string, tgs bool, asReq messages.ASReq, tgsReq messages.TGSReq, wire []byte, want verdict, skipModel bool) bool {
	c := w.c
	var ok bool
	var err error
	t0 := time.Now().UTC()
	var fn string
	var in jv.V
	var p bool
	if tgs {
		fn = "tgsrep_verify_bytes"
		p, _ = hctx.Guard(func() {
			var r messages.TGSRep
			if err = r.Unmarshal(wire); err != nil {
				return
			}
			if err = r.DecryptEncPart(w.skey); err != nil {
				return
			}
			ok, err = r.Verify(w.cfg, tgsReq)
		})
		in = jv.L(jv.I(int64(skew/time.Microsecond)), jKey(w.skey), jReq(tgsReq.ReqBody), jv.B(wire), jv.I(t0.UnixNano()/1000))
	} else {
		fn = "asrep_verify_bytes"
		var r messages.ASRep
		p, _ = hctx.Guard(func() {
			if err = r.Unmarshal(wire); err != nil {
				return
			}
			ok, err = r.Verify(w.cfg, w.creds, asReq)
		})
		if !p && w.kind == "password" && s2kRounds(r.EncPart.EType, r.PAData) > w.maxRounds() {
			// the string-to-key the reply asks for would cost the extracted model minutes: direct oracles only
			skipModel = true
		}
		in = jv.L(jv.I(int64(skew/time.Microsecond)), w.jcreds, jReq(asReq.ReqBody), jv.B(wire), jv.I(t0.UnixNano()/1000))
	}
	w.parseCase(tgs, wire)
	obs := jv.Ok(jv.Bool(ok))
	if p {
		obs = jv.Panic()
	}
	if skipModel {
		c.Count("skipped:model")
	} else {
		c.Case(fn, in, obs)
	}
	kind := "as"
	if tgs {
		kind = "tgs"
	}
	c.Count(kind + ":" + name)
	c.Count(fmt.Sprintf("%s:etype=%d:%s", kind, w.et, w.kind))
	inp := map[string]interface{}{"exchange": kind, "etype": w.et, "creds": w.kind, "case": name, "wire": fmt.Sprintf("%x", wire)}
	c.Check(!p, "no reply bytes make Unmarshal / DecryptEncPart / Verify panic", kind+"-panic:"+name, "", inp)
	switch want {
	case accept:
		c.Check(!p && ok, "a reply that answers the request is accepted", kind+"-rejects:"+name, fmt.Sprint(err), inp)
	case reject:
		c.Check(!p && !ok, "a reply that does not answer the request (or is not a well-formed reply) is rejected", kind+"-accepts:"+name, "", inp)
	}
	return ok
}

// parseCase compares the decoding layer alone: what Unmarshal made of the bytes (the cleartext fields Verify and
// DecryptEncPart read) against the model's parse_kdc_rep.
func (w *world) parseCase(tgs bool, wire []byte) {
	var f messages.KDCRepFields
	var err error
	app := int64(11)
	p, _ := hctx.Guard(func() {
		if tgs {
			var r messages.TGSRep
			err = r.Unmarshal(wire)
			f = r.KDCRepFields
		} else {
			var r messages.ASRep
			err = r.Unmarshal(wire)
			f = r.KDCRepFields
		}
	})
	if tgs {
		app = 13
	}
	obs := jv.Err()
	if p {
		obs = jv.Panic()
	} else if err == nil {
		obs = jv.Ok(jv.Strs(f.CName.NameString), jv.S(f.CRealm), jv.S(f.Ticket.Realm), jv.I(int64(f.EncPart.EType)),
			jv.I(int64(f.EncPart.KVNO)), jv.B(f.EncPart.Cipher))
		if k := int64(f.EncPart.KVNO); k >= 1<<62 || k <= -(1<<62) {
			return // beyond the integers the model driver prints
		}
	}
	w.c.Case("parse_kdc_rep", jv.L(jv.I(app), jv.B(wire)), obs)
	w.c.Count("parse")
}

// sealedCase compares EncKDCRepPart.Unmarshal on the plaintext that is about to be sealed with the model's dec_enc_der.
func (w *world) sealedCase(plain []byte) (encPARep bool) {
	var e messages.EncKDCRepPart
	var err error
	p, _ := hctx.Guard(func() { err = e.Unmarshal(plain) })
	obs := jv.Err()
	if p {
		obs = jv.Panic()
	} else if err == nil {
		if n := int64(e.Nonce); n >= 1<<62 || n <= -(1<<62) {
			return false
		}
		st := jv.L()
		if !e.StartTime.IsZero() {
			st = jv.L(jv.I(e.StartTime.Unix()))
		}
		obs = jv.Ok(jv.I(int64(e.Nonce)), jv.Strs(e.SName.NameString), jv.S(e.SRealm), jAddrs(e.CAddr), jv.I(e.AuthTime.Unix()), st, jv.B(e.Flags.Bytes))
	}
	w.c.Check(!p, "no plaintext makes EncKDCRepPart.Unmarshal panic", "enc-unmarshal-panic", "", fmt.Sprintf("%x", plain))
	w.c.Case("dec_enc_der", jv.B(plain), obs)
	w.c.Count("sealed")
	return !p && err == nil && len(e.Flags.Bytes) > 1 && e.Flags.Bytes[1]&1 != 0
}

// ---------------------------------------------------------------------------------------------------------
// the catalogue
// ---------------------------------------------------------------------------------------------------------

type tamper struct {
	name    string
	as, tgs verdict
	only    string // "", "as", "tgs"
	cred    string // "", "password", "keytab": only for this kind of credentials
	slow    bool   // AES etypes: thorough tier only
	f       func(x *exchange)
}

func tm(t time.Time) *time.Time { return &t }

func catalogue(c *hctx.Ctx) []tamper {
	other := "OTHER.REALM"
	return []tamper{
		{name: "none"},
		// ---- sealed fields
		{name: "nonce+1", as: reject, tgs: reject, f: func(x *exchange) { x.enc.nonce++ }},
		{name: "nonce-1", as: reject, tgs: reject, f: func(x *exchange) { x.enc.nonce-- }},
		{name: "nonce+2^32", as: reject, tgs: reject, f: func(x *exchange) { x.enc.nonce += 1 << 32 }},
		{name: "nonce-9-octets", as: reject, tgs: reject, f: func(x *exchange) {
			x.enc.nonceRaw = append([]byte{1}, make([]byte, 8)...)
		}},
		{name: "nonce-non-minimal", as: reject, tgs: reject, f: func(x *exchange) {
			x.enc.nonceRaw = append([]byte{0}, intBytes(x.enc.nonce)...)
			if x.enc.nonceRaw[1]&0x80 != 0 { // the leading zero is needed: make it doubly padded
				x.enc.nonceRaw = append([]byte{0}, x.enc.nonceRaw...)
			}
		}},
		{name: "sname", as: reject, tgs: unspecified, f: func(x *exchange) { x.enc.sname = []string{"krbtgt", other} }},
		{name: "sname-shorter", as: reject, tgs: unspecified, f: func(x *exchange) { x.enc.sname = x.enc.sname[:1] }},
		{name: "sname-type-only", f: func(x *exchange) { x.enc.snameType = 7 }},
		{name: "srealm", as: reject, tgs: reject, f: func(x *exchange) { x.enc.srealm = other }},
		{name: "srealm-prefix", as: reject, tgs: reject, f: func(x *exchange) { x.enc.srealm = realm[:len(realm)-1] }},
		{name: "caddr-extra", as: reject, tgs: reject, f: func(x *exchange) {
			x.enc.caddr = append(append([]types.HostAddress{}, x.enc.caddr...), addrB)
		}},
		{name: "caddr-other-type", as: reject, tgs: reject, f: func(x *exchange) {
			x.enc.caddr = []types.HostAddress{{AddrType: 3, Address: addrA.Address}}
		}},
		{name: "caddr-empty-list", as: reject, f: func(x *exchange) { x.enc.caddr = []types.HostAddress{} }},
		{name: "caddr-absent", as: reject, f: func(x *exchange) { x.enc.caddr = nil }},
		{name: "caddr-reordered", f: func(x *exchange) {
			if n := len(x.enc.caddr); n > 1 {
				x.enc.caddr = append(append([]types.HostAddress{}, x.enc.caddr[1:]...), x.enc.caddr[0])
			}
		}},
		{name: "authtime-late-outside", as: reject, only: "as", f: func(x *exchange) { x.enc.auth = x.enc.auth.Add(skew + 5*time.Second) }},
		{name: "authtime-early-outside", as: reject, only: "as", f: func(x *exchange) { x.enc.auth = x.enc.auth.Add(-skew - 5*time.Second) }},
		{name: "authtime-late-inside", only: "as", f: func(x *exchange) { x.enc.auth = x.enc.auth.Add(skew - 5*time.Second) }},
		{name: "authtime-early-inside", only: "as", f: func(x *exchange) { x.enc.auth = x.enc.auth.Add(-skew + 5*time.Second) }},
		{name: "times-outside", tgs: reject, only: "tgs", f: func(x *exchange) {
			x.enc.start = tm(x.enc.auth.Add(skew + 5*time.Second))
			x.enc.auth = x.enc.auth.Add(-skew - 5*time.Second)
		}},
		{name: "start-absent-auth-outside", tgs: reject, only: "tgs", f: func(x *exchange) {
			x.enc.start = nil
			x.enc.auth = x.enc.auth.Add(-skew - 5*time.Second)
		}},
		{name: "start-outside-auth-inside", only: "tgs", f: func(x *exchange) { x.enc.start = tm(x.enc.auth.Add(skew + 5*time.Second)) }},
		{name: "start-inside-auth-outside", only: "tgs", f: func(x *exchange) {
			x.enc.start = tm(x.enc.auth)
			x.enc.auth = x.enc.auth.Add(-skew - 5*time.Second)
		}},
		{name: "start-absent", only: "tgs", f: func(x *exchange) { x.enc.start = nil }},
		{name: "starttime-present", only: "as", f: func(x *exchange) { x.enc.start = tm(x.enc.auth) }},
		{name: "optional-fields-present", f: func(x *exchange) {
			x.enc.keyExp = tm(x.enc.end)
			x.enc.renew = tm(x.enc.end.Add(time.Hour))
			x.enc.encPA = []pa{{149, []byte{}}, {136, []byte{1, 2}}}
			x.enc.lastReq = 3
		}},
		{name: "flags-random", f: func(x *exchange) {
			x.enc.flags = randBytes(c, 4)
			x.enc.flags[1] &^= 1 // bit 15 (enc-pa-rep) starts the FAST negotiation check, outside the modelled fragment
		}},
		{name: "flags-one-octet", f: func(x *exchange) { x.enc.flags = []byte{0x40} }},
		{name: "flags-empty", f: func(x *exchange) { x.enc.flags = []byte{} }},
		{name: "last-req-empty", f: func(x *exchange) { x.enc.lastReq = 0 }},
		{name: "enc-other-app-tag", f: func(x *exchange) { x.enc.app = 51 - x.enc.app }},
		{name: "enc-app-tag-27", as: reject, tgs: reject, f: func(x *exchange) { x.enc.app = 27 }},
		{name: "enc-app-tag-24", as: reject, tgs: reject, f: func(x *exchange) { x.enc.app = 24 }},
		{name: "enc-zero-padding", f: func(x *exchange) { x.enc.trailer = make([]byte, 1+c.R.Intn(7)) }},
		{name: "enc-trailing-garbage", as: unspecified, tgs: unspecified, f: func(x *exchange) { x.enc.trailer = randBytes(c, 1+c.R.Intn(9)) }},
		// ---- sealing
		{name: "other-key", as: reject, tgs: reject, f: func(x *exchange) { x.key = randKey(c, x.key.KeyType) }},
		{name: "other-usage", as: reject, tgs: reject, f: func(x *exchange) { x.usage = 2 }},
		{name: "usage-swapped", as: reject, tgs: reject, f: func(x *exchange) { x.usage = 11 - x.usage }},
		{name: "tgs-subkey-usage-9", tgs: reject, only: "tgs", f: func(x *exchange) { x.usage = 9 }},
		{name: "cipher-bitflip", as: reject, tgs: reject, f: func(x *exchange) {
			x.cipherEdit = func(b []byte) []byte { b[c.R.Intn(len(b))] ^= 1 << uint(c.R.Intn(8)); return b }
		}},
		{name: "cipher-truncated", as: reject, tgs: reject, f: func(x *exchange) {
			x.cipherEdit = func(b []byte) []byte { return b[:c.R.Intn(len(b))] }
		}},
		{name: "cipher-extended", as: reject, tgs: reject, f: func(x *exchange) {
			x.cipherEdit = func(b []byte) []byte { return append(b, randBytes(c, 1+c.R.Intn(16))...) }
		}},
		{name: "cipher-empty", as: reject, tgs: reject, f: func(x *exchange) { x.cipherEdit = func(b []byte) []byte { return []byte{} } }},
		// ---- cleartext fields
		{name: "cname", as: reject, tgs: reject, f: func(x *exchange) { x.rep.cname = []string{"someoneelse"} }},
		{name: "cname-extra-component", as: reject, tgs: reject, f: func(x *exchange) { x.rep.cname = append(append([]string{}, x.rep.cname...), "admin") }},
		{name: "cname-empty", as: reject, tgs: reject, f: func(x *exchange) { x.rep.cname = []string{} }},
		{name: "cname-case", as: reject, tgs: reject, f: func(x *exchange) { x.rep.cname = []string{"Testuser1"} }},
		{name: "cname-type-only", f: func(x *exchange) { x.rep.cnameType = 10 }},
		{name: "crealm", as: reject, f: func(x *exchange) { x.rep.crealm = other }},
		{name: "crealm-empty", as: reject, f: func(x *exchange) { x.rep.crealm = "" }},
		{name: "ticket-realm", tgs: reject, f: func(x *exchange) { x.rep.tktRealm = other }},
		{name: "ticket-sname", as: unspecified, tgs: unspecified, f: func(x *exchange) { x.rep.tktSName = []string{"krbtgt", other} }},
		{name: "ticket-vno", f: func(x *exchange) { x.rep.tktVNO = 4 }},
		{name: "pvno-4", as: unspecified, tgs: unspecified, f: func(x *exchange) { x.rep.pvno = 4 }},
		{name: "msg-type-other-reply", as: reject, tgs: reject, f: func(x *exchange) { x.rep.msgType = 24 - x.rep.msgType }},
		{name: "msg-type-30", as: reject, tgs: reject, f: func(x *exchange) { x.rep.msgType = 30 }},
		{name: "app-tag-other-reply", as: reject, tgs: reject, f: func(x *exchange) { x.rep.app = 24 - x.rep.app }},
		{name: "app-tag-and-msg-type-other-reply", as: reject, tgs: reject, f: func(x *exchange) {
			x.rep.app = 24 - x.rep.app
			x.rep.msgType = 24 - x.rep.msgType
		}},
		{name: "encpart-etype-other", as: reject, f: func(x *exchange) { x.rep.etype = allEtypes[(indexOf(x.rep.etype)+2)%len(allEtypes)] }},
		{name: "encpart-etype-unknown", as: reject, f: func(x *exchange) { x.rep.etype = 99 }},
		{name: "encpart-etype-5-octets", as: reject, tgs: reject, f: func(x *exchange) {
			x.repEdit = func(t *node) { t.find("encpart.etype").kids[0].val = []byte{1, 0, 0, 0, byte(x.rep.etype)} }
		}},
		{name: "encpart-kvno-other", cred: "keytab", as: reject, f: func(x *exchange) { k := int64(7); x.rep.kvno = &k }},
		{name: "encpart-kvno-other", cred: "password", f: func(x *exchange) { k := int64(7); x.rep.kvno = &k }},
		{name: "encpart-kvno-absent", f: func(x *exchange) { x.rep.kvno = nil }},
		{name: "encpart-kvno-zero", f: func(x *exchange) { k := int64(0); x.rep.kvno = &k }},
		{name: "encpart-kvno-2^32+2", as: unspecified, f: func(x *exchange) { k := int64(1<<32 + 2); x.rep.kvno = &k }},
		{name: "encpart-kvno-9-octets", as: reject, tgs: reject, f: func(x *exchange) {
			k := int64(2)
			x.rep.kvno = &k
			x.repEdit = func(t *node) { t.find("encpart.kvno").kids[0].val = append([]byte{1}, make([]byte, 8)...) }
		}},
		// ---- padata of the AS-REP (read by the password client only)
		{name: "padata-absent", only: "as", cred: "keytab", f: func(x *exchange) { x.rep.padata = nil }},
		{name: "padata-undecodable-etype-info2", only: "as", cred: "keytab", f: func(x *exchange) { x.rep.padata = []pa{{19, []byte{0x30, 0x03, 1, 2, 3}}} }},
		{name: "padata-undecodable-etype-info2", only: "as", cred: "password", as: reject, f: func(x *exchange) { x.rep.padata = []pa{{19, []byte{0x30, 0x03, 1, 2, 3}}} }},
		{name: "padata-wrong-salt", only: "as", cred: "password", as: reject, f: func(x *exchange) {
			s := "NOT.THE.SALT"
			var params []byte
			if isAES(x.w.et) {
				params = iterParams(rounds(c))
			}
			x.rep.padata = []pa{{19, etypeInfo2(x.w.et, &s, params)}}
		}},
		// (without ETYPE-INFO2 the AES string-to-key runs its default 4096 / 32768 rounds, which the extracted model
		// needs seconds to minutes for: thorough tier only)
		{name: "padata-absent", only: "as", cred: "password", slow: true, as: reject, f: func(x *exchange) { x.rep.padata = nil }},
		{name: "padata-unknown-type-added", only: "as", f: func(x *exchange) {
			x.rep.padata = append([]pa{{133, []byte("cookie")}}, x.rep.padata...)
		}},
		{name: "padata-empty-list", only: "as", cred: "keytab", f: func(x *exchange) { x.rep.padata = []pa{} }},
	}
}

// password-specific exchanges where the KDC's key follows other hints than the base ETYPE-INFO2
func (w *world) passwordHintCases(quick bool) {
	c := w.c
	type hc struct {
		name string
		pas  []pa
		want verdict
	}
	salt := "pw-salt-value"
	dflt := realm + "testuser1"
	var params []byte
	aes := isAES(w.et)
	if aes {
		params = iterParams(rounds(c))
	}
	other := allEtypes[(indexOf(w.et)+3)%len(allEtypes)]
	cases := []hc{
		{"hint-pw-salt", []pa{{3, []byte(salt)}}, accept},
		{"hint-etype-info", []pa{{11, etypeInfo(w.et, []byte(salt))}}, accept},
		{"hint-etype-info2-default-salt", []pa{{19, etypeInfo2(w.et, nil, params)}}, accept},
		{"hint-etype-info2-then-pw-salt", []pa{{19, etypeInfo2(w.et, &salt, params)}, {3, []byte("ignored")}}, accept},
		{"hint-pw-salt-then-etype-info2", []pa{{3, []byte("overridden")}, {19, etypeInfo2(w.et, &salt, params)}}, accept},
		{"hint-etype-info-then-info2", []pa{{11, etypeInfo(w.et, []byte("overridden"))}, {19, etypeInfo2(w.et, &salt, params)}}, accept},
		{"hint-etype-info2-empty-seq", []pa{{19, []byte{0x30, 0}}, {3, []byte(salt)}}, accept},
		{"hint-etype-info2-two-entries", []pa{{19, append([]byte{0x30}, func() []byte {
			a := etypeInfo2(w.et, &salt, params)[2:]
			b := etypeInfo2(other, &dflt, nil)[2:]
			return append(derLen(len(a)+len(b)), append(a, b...)...)
		}()...)}}, accept},
		{"hint-etype-info-undecodable-after-info2", []pa{{19, etypeInfo2(w.et, &salt, params)}, {11, []byte{0xff}}}, accept},
		{"hint-etype-info-undecodable", []pa{{11, []byte{0x30, 0x02, 0xa0, 0x00}}}, reject},
	}
	for _, h := range cases {
		hasParams := false
		for _, p := range h.pas {
			if p.t == 19 && len(p.v) > 2 {
				hasParams = true
			}
		}
		if quick && aes && !hasParams && h.want == accept {
			// without ETYPE-INFO2 parameters the default iteration count applies (4096 / 32768 rounds): thorough tier
			continue
		}
		var tpas []types.PAData
		for _, p := range h.pas {
			tpas = append(tpas, types.PAData{PADataType: p.t, PADataValue: p.v})
		}
		x := w.newExchange(false, int64(c.R.Int31()), nil)
		if h.want == accept {
			k, _, err := crypto.GetKeyFromPassword(password, w.cname, realm, w.et, tpas)
			if err != nil {
				c.Notes = append(c.Notes, "GetKeyFromPassword failed for "+h.name+": "+err.Error())
				continue
			}
			x.key = k
		}
		x.rep.padata = h.pas
		wire, _ := x.wire()
		x.run(h.name, wire, h.want)
	}
}

// wire-level variants of one conformant exchange
func (w *world) wireCases(tgs bool, full bool) {
	c := w.c
	mk := func() *exchange {
		var a []types.HostAddress
		if c.R.Intn(2) == 0 {
			a = []types.HostAddress{addrA}
		}
		return w.newExchange(tgs, int64(c.R.Int31()), a)
	}
	// --- the reply of the other exchange handed to this Verify, and a KRB-ERROR
	{
		x := mk()
		o := w.newExchange(!tgs, int64(x.body.Nonce), x.body.Addresses)
		ow, _ := o.wire()
		x.run("wire:other-reply-kind", ow, reject)
		// the same, sealed exactly as this exchange expects (key, usage): only the tags differ
		o.key, o.usage = x.key, x.usage
		o.enc.sname, o.enc.snameType = x.enc.sname, x.enc.snameType
		ow, _ = o.wire()
		x.run("wire:other-reply-kind-right-key", ow, reject)
		ke := messages.NewKRBError(x.body.SName, realm, 6, "client not found")
		kb, _ := ke.Marshal()
		x.run("wire:krb-error", kb, reject)
		x.run("wire:empty", []byte{}, reject)
		x.run("wire:one-octet", []byte{0x6b}, reject)
	}
	// --- trailing octets after the reply (Unmarshal drops the rest)
	{
		x := mk()
		wr, _ := x.wire()
		x.run("wire:trailing-garbage", append(append([]byte{}, wr...), randBytes(c, 1+c.R.Intn(12))...), unspecified)
		x.run("wire:trailing-second-reply", append(append([]byte{}, wr...), wr...), unspecified)
	}
	// --- structural edits
	edits := []struct {
		name string
		want verdict
		enc  bool // edit of the sealed tree
		f    func(t *node)
	}{
		{"wire:non-minimal-length-outer", reject, false, func(t *node) { t.lenEnc = longLen(3) }},
		{"wire:non-minimal-length-seq", reject, false, func(t *node) { t.find("rep.seq").lenEnc = longLen(4) }},
		{"wire:non-minimal-length-crealm", reject, false, func(t *node) { t.find("crealm").kids[0].lenEnc = longLen(1) }},
		{"wire:non-minimal-length-cipher", reject, false, func(t *node) { t.find("encpart.cipher").lenEnc = longLen(3) }},
		{"wire:non-minimal-length-ticket", reject, false, func(t *node) { t.find("ticket").lenEnc = longLen(4) }},
		{"wire:length-5-octets", reject, false, func(t *node) { t.find("rep.seq").lenEnc = longLen(5) }},
		{"wire:indefinite-length", reject, false, func(t *node) {
			t.find("rep.seq").lenEnc = func(int) []byte { return []byte{0x80} }
		}},
		{"wire:non-minimal-length-sealed", reject, true, func(t *node) { t.find("srealm").lenEnc = longLen(1) }},
		// the length of an explicit wrapper is read and not used by the decoder
		{"wire:wrapper-length-too-big", unspecified, false, func(t *node) {
			t.find("crealm").lenEnc = func(n int) []byte { return derLen(n + 3) }
		}},
		{"wire:wrapper-length-too-small", unspecified, false, func(t *node) {
			t.find("cname").lenEnc = func(n int) []byte { return derLen(n - 2) }
		}},
		{"wire:app-wrapper-length-too-small", unspecified, false, func(t *node) { t.lenEnc = func(n int) []byte { return derLen(n - 9) } }},
		{"wire:app-wrapper-length-zero", reject, false, func(t *node) { t.lenEnc = func(n int) []byte { return []byte{0} } }},
		{"wire:seq-length-too-big", reject, false, func(t *node) { t.find("rep.seq").lenEnc = func(n int) []byte { return derLen(n + 1) } }},
		{"wire:seq-length-too-small", reject, false, func(t *node) { t.find("rep.seq").lenEnc = func(n int) []byte { return derLen(n - 1) } }},
		{"wire:sealed-wrapper-length-wrong", unspecified, true, func(t *node) {
			t.find("nonce").lenEnc = func(n int) []byte { return derLen(n + 40) }
		}},
		// string kinds
		{"wire:crealm-ia5string", unspecified, false, func(t *node) { t.find("crealm").kids[0].id = []byte{22} }},
		{"wire:crealm-utf8string", unspecified, false, func(t *node) { t.find("crealm").kids[0].id = []byte{12} }},
		{"wire:crealm-printablestring", unspecified, false, func(t *node) { t.find("crealm").kids[0].id = []byte{19} }},
		{"wire:crealm-t61string", unspecified, false, func(t *node) { t.find("crealm").kids[0].id = []byte{20} }},
		{"wire:crealm-octetstring", reject, false, func(t *node) { t.find("crealm").kids[0].id = []byte{4} }},
		{"wire:crealm-constructed-string", reject, false, func(t *node) { t.find("crealm").kids[0].id = []byte{27 | 0x20} }},
		{"wire:cname-component-printablestring", unspecified, false, func(t *node) { t.find("cname").find("name-strings").kids[0].id = []byte{19} }},
		{"wire:srealm-ia5string", unspecified, true, func(t *node) { t.find("srealm").kids[0].id = []byte{22} }},
		// identifier edits
		{"wire:context-tag-swapped", reject, false, func(t *node) {
			t.find("crealm").id, t.find("cname").id = t.find("cname").id, t.find("crealm").id
		}},
		{"wire:crealm-primitive-wrapper", reject, false, func(t *node) { t.find("crealm").id = []byte{0x83} }},
		{"wire:ticket-wrapper-any-tag", unspecified, false, func(t *node) { t.find("ticket.field").id = []byte{0x04} }},
		{"wire:ticket-wrapper-high-tag", unspecified, false, func(t *node) { t.find("ticket.field").id = []byte{0xbf, 0x85, 0x22} }},
		{"wire:ticket-wrapper-high-tag-non-minimal", reject, false, func(t *node) { t.find("ticket.field").id = []byte{0xbf, 0x05} }},
		{"wire:ticket-app-tag-2", reject, false, func(t *node) { t.find("ticket").id = []byte{0x62} }},
		{"wire:ticket-empty", reject, false, func(t *node) { t.find("ticket.field").kids = []*node{} }},
		{"wire:ticket-missing", reject, false, func(t *node) { t.remove("ticket.field") }},
		{"wire:crealm-missing", reject, false, func(t *node) { t.remove("crealm") }},
		{"wire:cname-missing", reject, false, func(t *node) { t.remove("cname") }},
		{"wire:encpart-missing", reject, false, func(t *node) { t.remove("encpart.field") }},
		{"wire:pvno-missing", reject, false, func(t *node) { t.remove("pvno") }},
		{"wire:msgtype-missing", reject, false, func(t *node) { t.remove("msgtype") }},
		{"wire:nonce-missing", reject, true, func(t *node) { t.remove("nonce") }},
		{"wire:authtime-missing", reject, true, func(t *node) { t.remove("authtime") }},
		{"wire:sname-missing", reject, true, func(t *node) { t.remove("sname") }},
		{"wire:flags-missing", reject, true, func(t *node) { t.remove("flags") }},
		{"wire:fields-reordered", reject, false, func(t *node) {
			s := t.find("rep.seq")
			n := len(s.kids)
			s.kids[n-1], s.kids[n-2] = s.kids[n-2], s.kids[n-1]
		}},
		{"wire:set-instead-of-sequence", reject, false, func(t *node) { t.find("rep.seq").id = []byte{0x31} }},
		{"wire:sealed-sequence-primitive", reject, true, func(t *node) { t.find("enc.seq").id = []byte{0x10} }},
		// trailing elements inside sequences
		{"wire:extra-field-in-kdc-rep", unspecified, false, func(t *node) {
			s := t.find("rep.seq")
			s.kids = append(s.kids, cx(7, in(1)))
		}},
		{"wire:extra-octet-in-kdc-rep", unspecified, false, func(t *node) {
			s := t.find("rep.seq")
			s.kids = append(s.kids, &node{id: []byte{0x05}, val: []byte{}, lenEnc: func(int) []byte { return nil }})
		}},
		{"wire:extra-null-in-kdc-rep", unspecified, false, func(t *node) {
			s := t.find("rep.seq")
			s.kids = append(s.kids, prim(5, nil))
		}},
		{"wire:extra-field-in-ticket", unspecified, false, func(t *node) {
			s := t.find("ticket.seq")
			s.kids = append(s.kids, cx(4, oc([]byte{1, 2, 3})))
		}},
		{"wire:extra-sequence-in-ticket", unspecified, false, func(t *node) {
			s := t.find("ticket.seq")
			s.kids = append(s.kids, sq(cx(0, in(1))))
		}},
		{"wire:extra-field-in-encrypted-data", unspecified, false, func(t *node) {
			s := t.find("encpart")
			s.kids = append(s.kids, cx(3, in(0)))
		}},
		{"wire:extra-field-in-sealed", unspecified, true, func(t *node) {
			s := t.find("enc.seq")
			s.kids = append(s.kids, cx(13, oc([]byte{9})))
		}},
		{"wire:extra-bad-header-in-sealed", unspecified, true, func(t *node) {
			s := t.find("enc.seq")
			s.kids = append(s.kids, &node{id: []byte{0xad}, val: []byte{}, lenEnc: func(int) []byte { return []byte{0x85, 1, 1, 1, 1, 1} }})
		}},
		// primitives
		{"wire:pvno-non-minimal-integer", reject, false, func(t *node) { t.find("pvno").kids[0].val = []byte{0, 5} }},
		{"wire:msgtype-empty-integer", reject, false, func(t *node) { t.find("msgtype").kids[0].val = []byte{} }},
		{"wire:flags-nonzero-padding", reject, true, func(t *node) { t.find("flags").kids[0].val = []byte{3, 0x40, 0x80, 0, 0x07} }},
		{"wire:flags-padding-bits", unspecified, true, func(t *node) { t.find("flags").kids[0].val = []byte{3, 0x40, 0x80, 0, 0x08} }},
		{"wire:flags-padding-8", reject, true, func(t *node) { t.find("flags").kids[0].val = []byte{8, 0x40, 0x80, 0, 0} }},
		{"wire:flags-no-octets", reject, true, func(t *node) { t.find("flags").kids[0].val = []byte{} }},
		// times in the sealed part
		{"wire:authtime-utctime", unspecified, true, func(t *node) {
			n := t.find("authtime").kids[0]
			n.id = []byte{23}
			n.val = n.val[2:]
		}},
		{"wire:authtime-zone-offset", unspecified, true, func(t *node) {
			n := t.find("authtime").kids[0]
			tt, _ := time.Parse("20060102150405Z", string(n.val))
			n.val = []byte(tt.Add(90*time.Minute).Format("20060102150405") + "+0130")
		}},
		{"wire:authtime-zone-offset-negative", unspecified, true, func(t *node) {
			n := t.find("authtime").kids[0]
			tt, _ := time.Parse("20060102150405Z", string(n.val))
			n.val = []byte(tt.Add(-24*time.Hour).Format("20060102150405") + "-2400")
		}},
		{"wire:authtime-zone-zero", reject, true, func(t *node) {
			n := t.find("authtime").kids[0]
			n.val = append(n.val[:14:14], []byte("+0000")...)
		}},
		{"wire:authtime-fraction", reject, true, func(t *node) {
			n := t.find("authtime").kids[0]
			n.val = append(n.val[:14:14], []byte(".5Z")...)
		}},
		{"wire:authtime-no-seconds", reject, true, func(t *node) {
			n := t.find("authtime").kids[0]
			n.val = append(n.val[:12:12], 'Z')
		}},
		{"wire:authtime-month-13", reject, true, func(t *node) {
			n := t.find("authtime").kids[0]
			n.val[4], n.val[5] = '1', '3'
		}},
	}
	for i, e := range edits {
		if !full && i%3 != indexOf(w.et)%3 {
			// quick tier: outside the worlds that run every wire-level case the edits are spread over the etypes
			continue
		}
		x := mk()
		e := e
		if e.enc {
			x.encEdit = e.f
		} else {
			x.repEdit = e.f
		}
		wr, _ := x.wire()
		x.run(e.name, wr, e.want)
	}
	if !full {
		return
	}
	// --- truncation at every offset
	{
		x := mk()
		wr, _ := x.wire()
		for n := 0; n < len(wr); n++ {
			x.run("wire:truncated", wr[:n], reject)
		}
	}
	// --- substitutions of single octets of the cleartext part (everything but the ciphertext of the enc-part)
	{
		x := mk()
		wr, tree := x.wire()
		cph := tree.find("encpart.cipher")
		crealm := tree.find("crealm").kids[0]
		names := tree.find("cname").find("name-strings")
		trealm := tree.find("tktrealm").kids[0]
		n := 400
		if w.c.Quick() {
			n = 150
		}
		for i := 0; i < n; i++ {
			pos := c.R.Intn(len(wr) - (cph.end - cph.off))
			if pos >= cph.off {
				pos += cph.end - cph.off
			}
			m := append([]byte{}, wr...)
			switch c.R.Intn(4) {
			case 0:
				m[pos] ^= 1 << uint(c.R.Intn(8))
			case 1:
				m[pos]++
			case 2:
				m[pos]--
			default:
				m[pos] = byte(c.R.Intn(256))
			}
			if m[pos] == wr[pos] {
				m[pos] ^= 0x10
			}
			want := unspecified
			inName := false
			for _, k := range names.kids {
				if pos >= k.off && pos < k.end {
					inName = true
				}
			}
			if inName || (!tgs && pos >= crealm.off && pos < crealm.end) || (tgs && pos >= trealm.off && pos < trealm.end) {
				want = reject // an octet of the client name / client realm (AS) / ticket realm (TGS) changed
			}
			x.run("wire:substitution", m, want)
		}
		// substitutions of single octets of the sealed plaintext, and its truncation at every offset
		for i := 0; i < n; i++ {
			y := mk()
			y.plainEdit = func(b []byte) []byte {
				pos := c.R.Intn(len(b))
				old := b[pos]
				switch c.R.Intn(4) {
				case 0:
					b[pos] ^= 1 << uint(c.R.Intn(8))
				case 1:
					b[pos]++
				case 2:
					b[pos]--
				default:
					b[pos] = byte(c.R.Intn(256))
				}
				if b[pos] == old {
					b[pos] ^= 0x10
				}
				return b
			}
			yw, _ := y.wire()
			y.run("sealed:substitution", yw, unspecified)
		}
		{
			y := mk()
			plainLen := len(y.enc.tree().bytes())
			step := 1
			if w.c.Quick() {
				step = 3
			}
			for k := 0; k < plainLen; k += step {
				y := mk()
				k := k
				y.plainEdit = func(b []byte) []byte {
					if k >= len(b) {
						return b[:len(b)-1]
					}
					return b[:k]
				}
				yw, _ := y.wire()
				want := reject
				if w.et == 16 && tgs {
					// des3-cbc pads the plaintext with zero octets up to the block size: cutting fewer octets than the
					// padding restores leaves a well-formed value whose last octets (the end of sname, which TGSRep.Verify
					// does not compare) became zero
					want = unspecified
				}
				y.run("sealed:truncated", yw, want)
			}
		}
		// and inside the ciphertext
		for i := 0; i < 8; i++ {
			m := append([]byte{}, wr...)
			m[cph.off+c.R.Intn(cph.end-cph.off)] ^= 1 << uint(c.R.Intn(8))
			x.run("wire:substitution-in-cipher", m, reject)
		}
	}
}

func Run(c *hctx.Ctx) {
	cat := catalogue(c)
	nonces := []int64{0, 1, 1<<31 - 1, 1 << 31, 1<<32 - 1, 1 << 32, 1<<62 - 1, -1}
	ei := 0
	for _, et := range allEtypes {
		for _, kind := range []string{"password", "keytab"} {
			w := newWorld(c, et, kind)
			for _, tgs := range []bool{false, true} {
				if tgs && kind == "keytab" && c.Quick() {
					// the TGS path does not look at the credentials: one world per etype in the quick tier
					continue
				}
				// the catalogue, for requests without and with addresses
				for ai, reqAddrs := range [][]types.HostAddress{nil, {addrA}, {addrA, addrC}} {
					for ti, t := range cat {
						if (t.only == "as" && tgs) || (t.only == "tgs" && !tgs) || (t.cred != "" && t.cred != kind) {
							continue
						}
						if c.Quick() && ai > 0 && (ti+ai+int(et))%4 != 0 && t.name[:2] != "ca" {
							continue
						}
						if t.slow && isAES(et) && (c.Quick() || ai > 0) {
							continue
						}
						x := w.newExchange(tgs, int64(c.R.Int31()), reqAddrs)
						if t.f != nil {
							t.f(x)
						}
						want := t.as
						if tgs {
							want = t.tgs
						}
						switch t.name {
						case "caddr-extra", "caddr-other-type":
							if !tgs && len(reqAddrs) == 0 {
								want = accept // AS: addresses are compared only when the request listed some
							}
						case "caddr-empty-list", "caddr-absent":
							if len(reqAddrs) == 0 {
								want = accept
							}
						}
						if et == 23 {
							switch t.name {
							case "usage-swapped", "tgs-subkey-usage-9", "padata-wrong-salt":
								// RFC 4757: rc4-hmac maps the key usages 3 and 9 to 8, and its string-to-key takes no salt
								want = accept
							case "padata-absent":
								want = accept
							}
						}
						wire, _ := x.wire()
						x.run(t.name, wire, want)
					}
				}
				// nonces at the boundaries (the reply carries the same value), and near misses
				for _, n := range nonces {
					x := w.newExchange(tgs, n, nil)
					wire, _ := x.wire()
					x.run("nonce-boundary", wire, accept)
					x = w.newExchange(tgs, n, nil)
					x.enc.nonce = n ^ 1<<31
					wire, _ = x.wire()
					x.run("nonce-boundary-bit31", wire, reject)
				}
				{
					// the reply nonce at the ends of int64 against a small request nonce
					for _, rn := range []int64{1<<63 - 1, -1 << 63} {
						x := w.newExchange(tgs, 5, nil)
						x.enc.nonce = rn
						wire, _ := x.wire()
						x.run("nonce-int64-end", wire, reject)
					}
				}
				// a stale reply: the correct answer to an earlier request
				{
					x1 := w.newExchange(tgs, int64(c.R.Int31()), nil)
					x2 := w.newExchange(tgs, int64(x1.body.Nonce)+1+int64(c.R.Intn(1000)), nil)
					wire, _ := x1.wire()
					x2.run("stale-reply", wire, reject)
				}
				// a request made with the renewable option
				if !tgs {
					w2 := *w
					w2.cfg = testConfig(et, true)
					x := w2.newExchange(false, int64(c.R.Int31()), nil)
					x.enc.renew = tm(x.enc.end.Add(24 * time.Hour))
					x.enc.flags = []byte{0x40, 0x80 | 0x02, 0, 0}
					wire, _ := x.wire()
					x.run("renewable-request", wire, accept)
				}
				// wire-level variants: in the quick tier the long loops run for one etype per exchange kind
				full := !c.Quick() || (ei%len(allEtypes) == 0 && !tgs) || (ei%len(allEtypes) == 3 && tgs)
				w.wireCases(tgs, full)
			}
			if kind == "password" {
				w.passwordHintCases(c.Quick())
			}
		}
		ei++
	}
}
