// Package c01b is the BYTES-MODE correspondence stream of property C01 — "Service accepts an AP-REQ exactly when
// RFC 4120 3.2.3 says it is valid".
//
// Every case is an AP-REQ as WIRE BYTES: messages.APReq.Unmarshal runs on them and, when they parse,
// service.VerifyAPREQ decides.  The Coq model (coq/model/APReqBytes.v: verify_apreq_bytes) receives nothing but the
// same bytes, the settings, the keytab and the time: it decodes (model/GoASN1.v, what gofork asn1 accepts), looks up
// the key, decrypts and decides on its own.  Requests are minted with full control over every sealed field (the
// 26-defect catalogue of C01) and marshalled by gokrb5; wire-only variants are written by an independent DER writer:
// an unsealed EncTicketPart after enc-part, garbage after the message / the ticket / a SEQUENCE, wrong application
// tags, pvno, msg-type, indefinite and non-minimal lengths, altered wrapper lengths, other string types, truncation at
// every offset, single-octet substitutions in the cleartext part; sealed-part variants: trailing octets after the
// decrypted DER, optional fields absent/present, other time and string encodings, missing mandatory fields.
//
// Direct oracles (no model): a valid request is accepted with the identity sealed in the ticket; every catalogue
// defect is rejected; truncated / wrongly tagged / wrongly typed messages are rejected; nothing unsealed (trailer,
// garbage, cleartext substitution) ever changes the accepted identity or turns a rejection into an acceptance;
// a well-formed unsealed trailer does not change the verdict at all; no input panics the acceptor.
package c01b

import (
	"bytes"
	"fmt"
	"math"
	"strings"
	"time"

	"github.com/jcmturner/gokrb5/v8/credentials"
	"github.com/jcmturner/gokrb5/v8/crypto"
	"github.com/jcmturner/gokrb5/v8/keytab"
	"github.com/jcmturner/gokrb5/v8/messages"
	"github.com/jcmturner/gokrb5/v8/service"
	"github.com/jcmturner/gokrb5/v8/types"
	"verif/harness/internal/hctx"
	"verif/harness/internal/jv"
)

var allEtypes = []int32{17, 18, 19, 20, 23, 16}

// ---------------------------------------------------------------------------------------------------------------
// an independent DER writer (nothing of gofork's Marshal is used for the hand-made variants)

func derLen(n int) []byte {
	if n < 128 {
		return []byte{byte(n)}
	}
	var o []byte
	for m := n; m > 0; m >>= 8 {
		o = append([]byte{byte(m)}, o...)
	}
	return append([]byte{0x80 | byte(len(o))}, o...)
}

func cat(parts ...[]byte) []byte {
	var o []byte
	for _, p := range parts {
		o = append(o, p...)
	}
	return o
}

func tlv(id byte, parts ...[]byte) []byte {
	body := cat(parts...)
	return cat([]byte{id}, derLen(len(body)), body)
}

func intBody(v int64) []byte {
	n := 1
	for ; n < 8; n++ {
		lim := int64(1) << uint(8*n-1)
		if v >= -lim && v < lim {
			break
		}
	}
	o := make([]byte, n)
	for i := 0; i < n; i++ {
		o[n-1-i] = byte(v >> uint(8*i))
	}
	return o
}

func dInt(v int64) []byte               { return tlv(0x02, intBody(v)) }
func dOct(b []byte) []byte              { return tlv(0x04, b) }
func dStr(tag byte, s string) []byte    { return tlv(tag, []byte(s)) }
func dGenTime(t time.Time) []byte       { return tlv(0x18, []byte(t.UTC().Format("20060102150405Z"))) }
func dBits(b []byte) []byte             { return tlv(0x03, []byte{0}, b) }
func ctx(n int, parts ...[]byte) []byte { return tlv(0xa0|byte(n), parts...) }
func app(n int, parts ...[]byte) []byte { return tlv(0x60|byte(n), parts...) }
func seq(parts ...[]byte) []byte        { return tlv(0x30, parts...) }

type pnameSpec struct {
	ntype  int64
	names  []string
	strTag byte
}

func (p pnameSpec) der() []byte {
	tag := p.strTag
	if tag == 0 {
		tag = 0x1b
	}
	var ns [][]byte
	for _, n := range p.names {
		ns = append(ns, dStr(tag, n))
	}
	return seq(ctx(0, dInt(p.ntype)), ctx(1, seq(ns...)))
}

type encDataSpec struct {
	etype  int64
	kvno   *int64
	cipher []byte
	extra  []byte // after cipher, inside the SEQUENCE
}

func (e encDataSpec) der() []byte {
	parts := [][]byte{ctx(0, dInt(e.etype))}
	if e.kvno != nil {
		parts = append(parts, ctx(1, dInt(*e.kvno)))
	}
	parts = append(parts, ctx(2, dOct(e.cipher)), e.extra)
	return seq(parts...)
}

type keySpec struct {
	ktype int64
	value []byte
}

func (k keySpec) der() []byte { return seq(ctx(0, dInt(k.ktype)), ctx(1, dOct(k.value))) }

type adEntry struct {
	adtype int64
	data   []byte
}

func adDer(l []adEntry) []byte {
	var es [][]byte
	for _, e := range l {
		es = append(es, seq(ctx(0, dInt(e.adtype)), ctx(1, dOct(e.data))))
	}
	return seq(es...)
}

// etpSpec is the content of an EncTicketPart; time fields are ready-made TLVs so that variants can use other encodings.
type etpSpec struct {
	flags     []byte
	flagsTLV  []byte // when set, written instead of the BIT STRING of flags
	key       keySpec
	crealm    string
	crealmTag byte
	cname     pnameSpec
	trType    int64
	trData    []byte
	authTime  []byte
	start     []byte // nil: absent
	end       []byte
	renew     []byte // nil: absent
	caddr     []types.HostAddress
	caddrSet  bool // present even when empty
	authData  []adEntry
	adSet     bool
	extra     []byte       // after the last field, inside the SEQUENCE
	omit      map[int]bool // mandatory fields to leave out
}

func (e etpSpec) seqDer() []byte {
	tag := e.crealmTag
	if tag == 0 {
		tag = 0x1b
	}
	var parts [][]byte
	add := func(n int, b []byte) {
		if b != nil && !e.omit[n] {
			parts = append(parts, ctx(n, b))
		}
	}
	if e.flagsTLV != nil {
		add(0, e.flagsTLV)
	} else {
		add(0, dBits(e.flags))
	}
	add(1, e.key.der())
	add(2, dStr(tag, e.crealm))
	add(3, e.cname.der())
	add(4, seq(ctx(0, dInt(e.trType)), ctx(1, dOct(e.trData))))
	add(5, e.authTime)
	add(6, e.start)
	add(7, e.end)
	add(8, e.renew)
	if len(e.caddr) > 0 || e.caddrSet {
		var as [][]byte
		for _, a := range e.caddr {
			as = append(as, seq(ctx(0, dInt(int64(a.AddrType))), ctx(1, dOct(a.Address))))
		}
		add(9, seq(as...))
	}
	if len(e.authData) > 0 || e.adSet {
		add(10, adDer(e.authData))
	}
	parts = append(parts, e.extra)
	return seq(parts...)
}

type authSpec struct {
	avno      int64
	crealm    string
	crealmTag byte
	cname     pnameSpec
	cksum     *keySpec // (cksumtype, checksum) has the shape of a key
	cusec     int64
	ctime     []byte
	subkey    *keySpec
	seqNum    *int64
	authData  []adEntry
	extra     []byte
	omit      map[int]bool
}

func (a authSpec) seqDer() []byte {
	tag := a.crealmTag
	if tag == 0 {
		tag = 0x1b
	}
	var parts [][]byte
	add := func(n int, b []byte) {
		if b != nil && !a.omit[n] {
			parts = append(parts, ctx(n, b))
		}
	}
	add(0, dInt(a.avno))
	add(1, dStr(tag, a.crealm))
	add(2, a.cname.der())
	if a.cksum != nil {
		add(3, a.cksum.der())
	}
	add(4, dInt(a.cusec))
	add(5, a.ctime)
	if a.subkey != nil {
		add(6, a.subkey.der())
	}
	if a.seqNum != nil {
		add(7, dInt(*a.seqNum))
	}
	if len(a.authData) > 0 {
		add(8, adDer(a.authData))
	}
	parts = append(parts, a.extra)
	return seq(parts...)
}

// wireSpec is an AP-REQ on the wire.
type wireSpec struct {
	pvno, msgType int64
	apOptions     []byte
	tktWrapper    byte // identifier of the [3] wrapper
	tktApp        int
	tktVNO        int64
	realm         string
	realmTag      byte
	sname         pnameSpec
	tktEnc        encDataSpec
	trailer       []byte // after enc-part, inside the Ticket SEQUENCE
	afterTicket   []byte // after the Ticket, inside the [3] wrapper
	auth          encDataSpec
	afterAuth     []byte // after the last field, inside the AP-REQ SEQUENCE
	apApp         int
	afterAll      []byte
}

func (w wireSpec) ticketDer() []byte {
	tag := w.realmTag
	if tag == 0 {
		tag = 0x1b
	}
	return app(w.tktApp, seq(ctx(0, dInt(w.tktVNO)), ctx(1, dStr(tag, w.realm)), ctx(2, w.sname.der()), ctx(3, w.tktEnc.der()), w.trailer))
}

func (w wireSpec) der() []byte {
	return cat(app(w.apApp, seq(ctx(0, dInt(w.pvno)), ctx(1, dInt(w.msgType)), ctx(2, dBits(w.apOptions)),
		tlv(w.tktWrapper, w.ticketDer(), w.afterTicket), ctx(4, w.auth.der()), w.afterAuth)), w.afterAll)
}

// ---------------------------------------------------------------------------------------------------------------
// minting (after harness/cmd/run/mint.go, with the sealed parts written by the DER writer above)

type testService struct {
	kt    *keytab.Keytab
	realm string
	sname []string
	kvno  int
	keys  map[int32]types.EncryptionKey
}

func joinSlash(s []string) string { return strings.Join(s, "/") }

func sameStrs(a, b []string) bool {
	if len(a) != len(b) {
		return false
	}
	for i := range a {
		if a[i] != b[i] {
			return false
		}
	}
	return true
}

func newTestService(sname []string) *testService {
	s := &testService{kt: keytab.New(), realm: "TEST.GOKRB5", sname: sname, kvno: 3, keys: map[int32]types.EncryptionKey{}}
	princ := joinSlash(sname)
	for _, et := range allEtypes {
		pw := "svc-password-" + princ
		if err := s.kt.AddEntry(princ, s.realm, pw, time.Unix(1600000000, 0), uint8(s.kvno), et); err != nil {
			panic(err)
		}
		k, _, err := s.kt.GetEncryptionKey(types.PrincipalName{NameType: 2, NameString: sname}, s.realm, s.kvno, et)
		if err != nil {
			panic(err)
		}
		s.keys[et] = k
	}
	return s
}

func randKey(c *hctx.Ctx, et int32) types.EncryptionKey {
	e, _ := crypto.GetEtype(et)
	k := make([]byte, e.GetKeyByteSize())
	c.R.Read(k)
	return types.EncryptionKey{KeyType: et, KeyValue: k}
}

func projKeytab(kt *keytab.Keytab) jv.V {
	es := make([]jv.V, len(kt.Entries))
	for i, e := range kt.Entries {
		p := jv.L(jv.I(int64(e.Principal.NumComponents)), jv.S(e.Principal.Realm), jv.Strs(e.Principal.Components), jv.I(int64(e.Principal.NameType)))
		es[i] = jv.L(p, jv.I(e.Timestamp.Unix()), jv.I(int64(e.KVNO8)), jv.I(int64(e.Key.KeyType)), jv.B(e.Key.KeyValue), jv.I(int64(e.KVNO)))
	}
	return jv.L(es...)
}

// recipe describes one AP-REQ to mint; the base recipe gives a valid request.
type recipe struct {
	et         int32
	now        time.Time
	cname      []string
	crealm     string
	tktRealm   string
	tktSName   []string
	kvno       int
	encEType   int32
	tktKey     types.EncryptionKey
	tktUsage   uint32
	flags      []byte
	start      time.Time // zero = absent
	end        time.Time
	caddr      []types.HostAddress
	authCName  []string
	authCRealm string
	ctime      time.Time
	authUsage  uint32
	authKey    *types.EncryptionKey
	flipTkt    int
	truncTkt   int
	flipAuth   int
	truncAuth  int
	trailer    bool
	// sealed-part variants
	etpMod       func(*etpSpec)
	authMod      func(*authSpec)
	tktSuffix    []byte // appended to the ticket plaintext before sealing
	authSuffix   []byte
	tktPlainMod  func([]byte) []byte // applied to the ticket plaintext before sealing
	authPlainMod func([]byte) []byte
	etpApp       int // application tag of the sealed EncTicketPart (3)
	authApp      int // application tag of the sealed Authenticator (2)
}

type minted struct {
	req        messages.APReq
	sessionKey types.EncryptionKey
	r          recipe
	ws         wireSpec
	etp        etpSpec
}

var cusecCounter int

func baseRecipe(s *testService, et int32) recipe {
	now := time.Now().UTC()
	cusecCounter++
	cr := "TEST.GOKRB5"
	if cusecCounter%3 == 0 {
		cr = "PARTNER.EXAMPLE" // a cross-realm client: the accepted identity is the sealed crealm
	}
	return recipe{et: et, now: now, cname: []string{"testuser1"}, crealm: cr, tktRealm: s.realm, tktSName: s.sname,
		kvno: s.kvno, encEType: et, tktKey: s.keys[et], tktUsage: 2, flags: []byte{0x40, 0x80, 0, 0},
		start: now.Add(-time.Hour).Truncate(time.Second), end: now.Add(8 * time.Hour).Truncate(time.Second),
		authCName: []string{"testuser1"}, authCRealm: cr,
		ctime: now.Truncate(time.Second).Add(time.Duration(cusecCounter%900000) * time.Microsecond), authUsage: 11,
		flipTkt: -1, truncTkt: -1, flipAuth: -1, truncAuth: -1, etpApp: 3, authApp: 2}
}

func damage(cipher []byte, flip, trunc int) []byte {
	out := append([]byte{}, cipher...)
	if flip >= 0 && len(out) > 0 {
		bit := flip % (len(out) * 8)
		out[bit/8] ^= 1 << uint(bit%8)
	}
	if trunc >= 0 && trunc < len(out) {
		out = out[:trunc]
	}
	return out
}

func mint(c *hctx.Ctx, r recipe) minted {
	e, _ := crypto.GetEtype(r.et)
	sk := make([]byte, e.GetKeyByteSize())
	c.R.Read(sk)
	session := types.EncryptionKey{KeyType: r.et, KeyValue: sk}
	etp := etpSpec{flags: r.flags, key: keySpec{int64(r.et), sk}, crealm: r.crealm, cname: pnameSpec{ntype: 1, names: r.cname},
		authTime: dGenTime(r.now.Add(-2 * time.Hour)), end: dGenTime(r.end), caddr: r.caddr}
	if !r.start.IsZero() {
		etp.start = dGenTime(r.start)
	}
	if r.etpMod != nil {
		r.etpMod(&etp)
	}
	plain := cat(app(r.etpApp, etp.seqDer()), r.tktSuffix)
	if r.tktPlainMod != nil {
		plain = r.tktPlainMod(plain)
	}
	ed, err := crypto.GetEncryptedData(plain, r.tktKey, r.tktUsage, r.kvno)
	if err != nil {
		panic(err)
	}
	ed.EType = r.encEType
	ed.Cipher = damage(ed.Cipher, r.flipTkt, r.truncTkt)
	tkt := messages.Ticket{TktVNO: 5, Realm: r.tktRealm, SName: types.PrincipalName{NameType: 2, NameString: r.tktSName}, EncPart: ed}
	sec := r.ctime.Truncate(time.Second)
	sq := int64(c.R.Intn(1 << 30))
	au := authSpec{avno: 5, crealm: r.authCRealm, cname: pnameSpec{ntype: 1, names: r.authCName},
		cusec: int64(r.ctime.Sub(sec) / time.Microsecond), ctime: dGenTime(sec), seqNum: &sq}
	if r.authMod != nil {
		r.authMod(&au)
	}
	aplain := cat(app(r.authApp, au.seqDer()), r.authSuffix)
	if r.authPlainMod != nil {
		aplain = r.authPlainMod(aplain)
	}
	ak := session
	if r.authKey != nil {
		ak = *r.authKey
	}
	aed, err := crypto.GetEncryptedData(aplain, ak, r.authUsage, r.kvno)
	if err != nil {
		panic(err)
	}
	aed.Cipher = damage(aed.Cipher, r.flipAuth, r.truncAuth)
	req := messages.APReq{PVNO: 5, MsgType: 14, APOptions: types.NewKrbFlags(), Ticket: tkt, EncryptedAuthenticator: aed}
	kv, akv := int64(ed.KVNO), int64(aed.KVNO)
	ws := wireSpec{pvno: 5, msgType: 14, apOptions: []byte{0, 0, 0, 0}, tktWrapper: 0xa3, tktApp: 1, tktVNO: 5, realm: r.tktRealm,
		sname: pnameSpec{ntype: 2, names: r.tktSName}, tktEnc: encDataSpec{etype: int64(ed.EType), kvno: &kv, cipher: ed.Cipher},
		auth: encDataSpec{etype: int64(aed.EType), kvno: &akv, cipher: aed.Cipher}, apApp: 14}
	if r.trailer {
		// optional fields only: none of them is sealed, so none may influence the verdict or the identity
		ws.trailer = trailerOptional(r.now)
	}
	return minted{req: req, sessionKey: session, r: r, ws: ws, etp: etp}
}

var addrA = types.HostAddress{AddrType: 2, Address: []byte{10, 1, 2, 3}}
var addrB = types.HostAddress{AddrType: 2, Address: []byte{10, 9, 9, 9}}

// an unsealed EncTicketPart SEQUENCE in which only optional fields are present is not decodable (its mandatory
// fields are missing), so the trailers carry every mandatory field as well
func trailerOptional(now time.Time) []byte {
	e := etpSpec{flags: []byte{0x40, 0x80, 0, 0}, key: keySpec{17, make([]byte, 16)}, crealm: "TEST.GOKRB5", cname: pnameSpec{ntype: 1, names: []string{"testuser1"}},
		authTime: dGenTime(now.Add(-2 * time.Hour)), end: dGenTime(now.Add(8 * time.Hour)),
		caddr: []types.HostAddress{addrA}, start: dGenTime(now.Add(48 * time.Hour)), renew: dGenTime(now.Add(-48 * time.Hour))}
	return e.seqDer()
}

// a complete foreign EncTicketPart: another client, another realm, another key, INVALID flag, long expired
func trailerEvil(now time.Time) []byte {
	e := etpSpec{flags: []byte{0x41, 0, 0, 0}, key: keySpec{18, bytes.Repeat([]byte{0x5a}, 32)}, crealm: "EVIL.REALM", cname: pnameSpec{ntype: 1, names: []string{"administrator"}},
		authTime: dGenTime(now.Add(-2000 * time.Hour)), end: dGenTime(now.Add(-1000 * time.Hour)),
		caddr: []types.HostAddress{addrB}, authData: []adEntry{{1, []byte{0x30, 0}}}}
	return e.seqDer()
}

// ---------------------------------------------------------------------------------------------------------------
// the defect catalogue of C01

type defect struct {
	name        string
	invalidates bool
	apply       func(c *hctx.Ctx, s *testService, r *recipe, d time.Duration)
}

func defectCatalogue() []defect {
	return []defect{
		{"wrong-key", true, func(c *hctx.Ctx, s *testService, r *recipe, d time.Duration) { r.tktKey = randKey(c, r.et) }},
		{"wrong-kvno", true, func(c *hctx.Ctx, s *testService, r *recipe, d time.Duration) { r.kvno = s.kvno + 1 }},
		{"kvno-plus-256", true, func(c *hctx.Ctx, s *testService, r *recipe, d time.Duration) { r.kvno = s.kvno + 256*(1+c.R.Intn(300)) }},
		{"ctime-late-subsecond", true, func(c *hctx.Ctx, s *testService, r *recipe, d time.Duration) {
			r.ctime = r.ctime.Add(-d - 600*time.Millisecond)
		}},
		{"end-outside-subsecond", true, func(c *hctx.Ctx, s *testService, r *recipe, d time.Duration) {
			// ticket times have whole seconds on the wire: end lies between d+0.2s and d+1.2s in the past
			r.end = r.now.Add(-d - 1200*time.Millisecond).Truncate(time.Second)
		}},
		{"wrong-etype", true, func(c *hctx.Ctx, s *testService, r *recipe, d time.Duration) {
			r.encEType = map[int32]int32{17: 18, 18: 17, 19: 20, 20: 19, 23: 17, 16: 23}[r.et]
		}},
		{"wrong-realm", true, func(c *hctx.Ctx, s *testService, r *recipe, d time.Duration) { r.tktRealm = "OTHER.REALM" }},
		{"wrong-sname", true, func(c *hctx.Ctx, s *testService, r *recipe, d time.Duration) {
			r.tktSName = []string{"HTTP", "other.test.gokrb5"}
		}},
		{"start-outside", true, func(c *hctx.Ctx, s *testService, r *recipe, d time.Duration) {
			r.start = r.now.Add(d + 3*time.Second).Truncate(time.Second)
		}},
		{"start-inside", false, func(c *hctx.Ctx, s *testService, r *recipe, d time.Duration) {
			r.start = r.now.Add(d - 3*time.Second).Truncate(time.Second)
		}},
		{"start-absent", false, func(c *hctx.Ctx, s *testService, r *recipe, d time.Duration) { r.start = time.Time{} }},
		{"end-outside", true, func(c *hctx.Ctx, s *testService, r *recipe, d time.Duration) {
			r.end = r.now.Add(-d - 3*time.Second).Truncate(time.Second)
		}},
		{"end-inside", false, func(c *hctx.Ctx, s *testService, r *recipe, d time.Duration) {
			r.end = r.now.Add(-d + 3*time.Second).Truncate(time.Second)
		}},
		{"flip-ticket", true, func(c *hctx.Ctx, s *testService, r *recipe, d time.Duration) { r.flipTkt = c.R.Intn(1 << 20) }},
		{"trunc-ticket", true, func(c *hctx.Ctx, s *testService, r *recipe, d time.Duration) { r.truncTkt = c.R.Intn(60) }},
		{"flip-auth", true, func(c *hctx.Ctx, s *testService, r *recipe, d time.Duration) { r.flipAuth = c.R.Intn(1 << 20) }},
		{"trunc-auth", true, func(c *hctx.Ctx, s *testService, r *recipe, d time.Duration) { r.truncAuth = c.R.Intn(40) }},
		{"cname-mismatch", true, func(c *hctx.Ctx, s *testService, r *recipe, d time.Duration) { r.authCName = []string{"administrator"} }},
		{"cname-boundary", true, func(c *hctx.Ctx, s *testService, r *recipe, d time.Duration) {
			r.cname = []string{"host", "client.test.gokrb5"}
			r.authCName = []string{"host/client.test.gokrb5"}
		}},
		{"cname-prefix", true, func(c *hctx.Ctx, s *testService, r *recipe, d time.Duration) {
			r.authCName = append(append([]string{}, r.cname...), "admin")
		}},
		{"crealm-mismatch", true, func(c *hctx.Ctx, s *testService, r *recipe, d time.Duration) { r.authCRealm = "EVIL.REALM" }},
		{"ticket-usage", true, func(c *hctx.Ctx, s *testService, r *recipe, d time.Duration) { r.tktUsage = 3 }},
		{"auth-usage", true, func(c *hctx.Ctx, s *testService, r *recipe, d time.Duration) { r.authUsage = 7 }},
		{"auth-key", true, func(c *hctx.Ctx, s *testService, r *recipe, d time.Duration) { k := randKey(c, r.et); r.authKey = &k }},
		{"invalid-flag", true, func(c *hctx.Ctx, s *testService, r *recipe, d time.Duration) { r.flags = []byte{0x41, 0x80, 0, 0} }},
		{"other-flags", false, func(c *hctx.Ctx, s *testService, r *recipe, d time.Duration) {
			r.flags = []byte{0xfe, 0xff, 0xff, 0xff}
		}},
		{"ctime-late", true, func(c *hctx.Ctx, s *testService, r *recipe, d time.Duration) {
			r.ctime = r.ctime.Add(-d - 3*time.Second)
		}},
		{"ctime-early", true, func(c *hctx.Ctx, s *testService, r *recipe, d time.Duration) {
			r.ctime = r.ctime.Add(d + 3*time.Second)
		}},
		{"ctime-inside", false, func(c *hctx.Ctx, s *testService, r *recipe, d time.Duration) {
			r.ctime = r.ctime.Add(d - 3*time.Second)
		}},
		{"unsealed-trailer", false, func(c *hctx.Ctx, s *testService, r *recipe, d time.Duration) { r.trailer = true }},
		{"multi-component-client", false, func(c *hctx.Ctx, s *testService, r *recipe, d time.Duration) {
			r.cname = []string{"host", "client.test.gokrb5"}
			r.authCName = r.cname
		}},
	}
}

var defectField = map[string]string{"start-outside": "start", "start-inside": "start", "start-absent": "start", "end-outside": "end", "end-inside": "end",
	"flip-ticket": "tktcipher", "trunc-ticket": "tktcipher", "flip-auth": "authcipher", "trunc-auth": "authcipher",
	"cname-mismatch": "authcname", "cname-prefix": "authcname", "cname-boundary": "authcname", "multi-component-client": "authcname", "invalid-flag": "flags", "other-flags": "flags",
	"ctime-late": "ctime", "ctime-early": "ctime", "ctime-inside": "ctime", "wrong-key": "tktkey", "auth-key": "authkey", "ctime-late-subsecond": "ctime", "end-outside-subsecond": "end", "kvno-plus-256": "kvno", "wrong-kvno": "kvno"}

func defectIndex(cat []defect, name string) int {
	for i := range cat {
		if cat[i].name == name {
			return i
		}
	}
	return -1
}

type svcSettings struct {
	skew        time.Duration
	requireAddr bool
	clientAddr  *types.HostAddress
	override    bool
}

func (ss svcSettings) String() string {
	return fmt.Sprintf("skew=%v requireAddr=%v clientAddr=%v override=%v", ss.skew, ss.requireAddr, ss.clientAddr != nil, ss.override)
}

// ---------------------------------------------------------------------------------------------------------------
// one presentation of wire bytes to the real acceptor

type expect int

const (
	expAny    expect = iota // no panic; if accepted, the identity is the sealed one
	expAccept               // must be accepted with the sealed identity
	expReject               // must be rejected
)

type sealedID struct {
	cname  []string
	crealm string
	end    int64
	skip   bool // the sealed content itself was altered: no expected identity
}

type verdict struct {
	panicked bool
	parsed   bool
	accepted bool
	creds    *credentials.Credentials
}

type runner struct {
	c   *hctx.Ctx
	s   *testService
	jkt jv.V
}

func (rn *runner) settings(ss svcSettings) (*service.Settings, jv.V) {
	s := rn.s
	opts := []func(*service.Settings){service.MaxClockSkew(ss.skew), service.RequireHostAddr(ss.requireAddr), service.DecodePAC(false)}
	ca := jv.L(jv.I(0), jv.B(nil))
	if ss.clientAddr != nil {
		opts = append(opts, service.ClientAddress(*ss.clientAddr))
		ca = jv.L(jv.I(int64(ss.clientAddr.AddrType)), jv.B(ss.clientAddr.Address))
	}
	ov := jv.L()
	if ss.override {
		opts = append(opts, service.KeytabPrincipal(joinSlash(s.sname)))
		ov = jv.L(jv.Strs(s.sname))
	}
	return service.NewSettings(s.kt, opts...), jv.L(jv.I(int64(ss.skew/time.Microsecond)), jv.Bool(ss.requireAddr), ca, ov)
}

func clearReplayCache() {
	service.GetReplayCache(24 * time.Hour).ClearOldEntries(time.Duration(math.MinInt64))
}

// present runs APReq.Unmarshal + service.VerifyAPREQ on wire, records the case and the class-independent oracles.
func (rn *runner) present(class string, wire []byte, ss svcSettings, id sealedID, exp expect) verdict {
	c := rn.c
	st, jst := rn.settings(ss)
	clearReplayCache()
	var v verdict
	var a messages.APReq
	var uerr, verr error
	var ok bool
	t0 := time.Now().UTC()
	p, _ := hctx.Guard(func() {
		uerr = a.Unmarshal(wire)
		if uerr != nil {
			return
		}
		v.parsed = true
		ok, v.creds, verr = service.VerifyAPREQ(&a, st)
	})
	v.panicked = p
	v.accepted = !p && v.parsed && ok && verr == nil && v.creds != nil
	in := jv.L(jst, rn.jkt, jv.I(t0.UnixNano()/1000), jv.L(), jv.B(wire))
	var obs jv.V
	switch {
	case p:
		obs = jv.Panic()
	case v.accepted:
		obs = jv.Ok(jv.S(v.creds.UserName()), jv.S(v.creds.Domain()), jv.Strs(v.creds.CName().NameString), jv.I(v.creds.ValidUntil().Unix()))
	default:
		obs = jv.Err()
	}
	c.Case("verify_apreq_bytes", in, obs)
	c.Count("class:" + class)
	switch {
	case p:
		c.Count("outcome:panic")
	case !v.parsed:
		c.Count("outcome:unmarshal-error")
	case v.accepted:
		c.Count("outcome:accepted")
	default:
		c.Count("outcome:rejected")
	}
	inp := map[string]interface{}{"class": class, "settings": ss.String(), "wire": fmt.Sprintf("%x", wire)}
	c.Check(!p, "no wire input panics APReq.Unmarshal / VerifyAPREQ", "panic:"+class, "", inp)
	if v.accepted && !id.skip {
		good := v.creds.UserName() == joinSlash(id.cname) && v.creds.Domain() == id.crealm && v.creds.ValidUntil().Unix() == id.end && sameStrs(v.creds.CName().NameString, id.cname)
		c.Check(good, "an accepted request reports the identity sealed in the ticket", "identity:"+class,
			fmt.Sprintf("user=%q domain=%q until=%d want %q %q %d", v.creds.UserName(), v.creds.Domain(), v.creds.ValidUntil().Unix(), joinSlash(id.cname), id.crealm, id.end), inp)
	}
	switch exp {
	case expAccept:
		c.Check(v.accepted, "a valid request is accepted", "verdict:"+class, fmt.Sprintf("accepted=%v uerr=%v verr=%v", v.accepted, uerr, verr), inp)
	case expReject:
		c.Check(!v.accepted, "an invalid request is rejected", "verdict:"+class, fmt.Sprintf("accepted=%v", v.accepted), inp)
	}
	return v
}

// sameVerdict: the variant must be decided exactly as the base request was
func (rn *runner) sameVerdict(class string, base, v verdict, wire []byte) {
	rn.c.Check(v.accepted == base.accepted, "octets that are not sealed do not change the verdict", "unsealed:"+class,
		fmt.Sprintf("base accepted=%v variant accepted=%v parsed=%v", base.accepted, v.accepted, v.parsed), map[string]interface{}{"class": class, "wire": fmt.Sprintf("%x", wire)})
}

// neverGains: the variant may fail to parse, but it must not be accepted when the base request was rejected
func (rn *runner) neverGains(class string, base, v verdict, wire []byte) {
	rn.c.Check(!(v.accepted && !base.accepted), "octets that are not sealed never turn a rejection into an acceptance", "unsealed-gain:"+class,
		"", map[string]interface{}{"class": class, "wire": fmt.Sprintf("%x", wire)})
}

func idOf(r recipe) sealedID { return sealedID{cname: r.cname, crealm: r.crealm, end: r.end.Unix()} }

// Run generates the stream.
func Run(c *hctx.Ctx) {
	service.GetReplayCache(24 * time.Hour) // the first call fixes the period of the background cleaner
	s := newTestService([]string{"HTTP", "host.test.gokrb5"})
	rn := &runner{c: c, s: s, jkt: projKeytab(s.kt)}
	dcat := defectCatalogue()
	skews := []time.Duration{10 * time.Second, 5 * time.Minute, time.Hour}
	var settingsList []svcSettings
	for _, sk := range skews {
		for m := 0; m < 8; m++ {
			ss := svcSettings{skew: sk, requireAddr: m&1 != 0, override: m&4 != 0}
			if m&2 != 0 {
				ss.clientAddr = &addrA
			}
			settingsList = append(settingsList, ss)
		}
	}
	base := settingsList[8] // 5 min skew, nothing else

	// ---- A. catalogue: minted by recipe, marshalled by gokrb5 ----
	runRecipe := func(et int32, ss svcSettings, defs []int, ticketAddr int, tag string) {
		r := baseRecipe(s, et)
		if ss.override {
			r.tktSName = []string{"HTTP", "alias.test.gokrb5"}
		}
		switch ticketAddr {
		case 1:
			r.caddr = []types.HostAddress{addrA}
		case 2:
			r.caddr = []types.HostAddress{addrB, addrA}
		case 3:
			r.caddr = []types.HostAddress{addrB}
		}
		invalid := false
		names := tag
		for _, di := range defs {
			dcat[di].apply(c, s, &r, ss.skew)
			if dcat[di].invalidates && !(ss.override && dcat[di].name == "wrong-sname") {
				invalid = true
			}
			names += "+" + dcat[di].name
			c.Count("defect:" + dcat[di].name)
		}
		if len(r.caddr) > 0 {
			ok := false
			for _, a := range r.caddr {
				if ss.clientAddr != nil && a.Equal(*ss.clientAddr) {
					ok = true
				}
			}
			if !ok {
				invalid = true
			}
		} else if ss.requireAddr {
			invalid = true
		}
		m := mint(c, r)
		wire := m.ws.der()
		if !r.trailer {
			mb, err := m.req.Marshal()
			c.Check(err == nil && bytes.Equal(mb, wire), "APReq.Marshal writes the DER the independent writer writes", "marshal:"+names, fmt.Sprint(err), map[string]interface{}{"etype": et})
			wire = mb
		}
		exp := expAccept
		if invalid {
			exp = expReject
		}
		c.Count(fmt.Sprintf("etype=%d", et))
		v := rn.present(names, wire, ss, idOf(r), exp)
		if v.accepted {
			// the same bytes again are a replay (the cache is not cleared in between)
			st, jst := rn.settings(ss)
			var a2 messages.APReq
			var ok2 bool
			var err2 error
			t1 := time.Now().UTC()
			p2, _ := hctx.Guard(func() {
				if err2 = a2.Unmarshal(wire); err2 == nil {
					ok2, _, err2 = service.VerifyAPREQ(&a2, st)
				}
			})
			ke, isK := err2.(messages.KRBError)
			c.Check(!p2 && !ok2 && isK && ke.ErrorCode == 34, "a second presentation of the same bytes is rejected as a replay", "replay-accepted", fmt.Sprint(err2), map[string]interface{}{"class": names})
			sec := r.ctime.Truncate(time.Second)
			ctus := sec.Unix()*1000000 + int64(r.ctime.Sub(sec)/time.Microsecond)
			effS := r.tktSName // the cache remembers the authenticator for the principal whose key decrypted the ticket
			if ss.override {
				effS = s.sname
			}
			rc := jv.L(jv.L(jv.S(joinSlash(r.authCName)), jv.I(ctus), jv.Strs(effS)))
			o2 := jv.Err()
			if p2 {
				o2 = jv.Panic()
			} else if ok2 {
				o2 = jv.Ok()
			}
			c.Case("verify_apreq_bytes", jv.L(jst, rn.jkt, jv.I(t1.UnixNano()/1000), rc, jv.B(wire)), o2)
			c.Count("class:replay")
		}
	}
	for _, et := range allEtypes {
		for si, ss := range settingsList {
			if c.Quick() && si%3 != int(et)%3 {
				continue
			}
			for ta := 0; ta < 4; ta++ {
				if c.Quick() && (si+ta)%2 == 1 {
					continue
				}
				runRecipe(et, ss, nil, ta, "valid")
			}
		}
		for di := range dcat {
			runRecipe(et, base, []int{di}, 0, "single")
			if !c.Quick() || di%4 == int(et)%4 {
				runRecipe(et, settingsList[c.R.Intn(len(settingsList))], []int{di}, c.R.Intn(4), "single-settings")
			}
		}
		nPairs := 12
		if !c.Quick() {
			nPairs = len(dcat) * (len(dcat) - 1) / 2
		}
		for a := 0; a < len(dcat); a++ {
			for b := a + 1; b < len(dcat); b++ {
				if fa, ok := defectField[dcat[a].name]; ok && fa == defectField[dcat[b].name] {
					continue
				}
				if c.Quick() && c.R.Intn(len(dcat)*(len(dcat)-1)/2) >= nPairs {
					continue
				}
				runRecipe(et, base, []int{a, b}, 0, "pair")
			}
		}
	}

	// ---- B. wire-only variants of one minted request ----
	for ei, et := range allEtypes {
		for vi, ss := range []svcSettings{base, {skew: 5 * time.Minute, requireAddr: true, clientAddr: &addrA}, {skew: time.Hour, clientAddr: &addrA}} {
			if c.Quick() && vi > 0 && (ei+vi)%3 != 0 {
				continue
			}
			for _, sealedStart := range []bool{true, false} {
				r := baseRecipe(s, et)
				if !sealedStart {
					r.start = time.Time{}
				}
				if vi == 2 {
					r.caddr = []types.HostAddress{addrB} // sealed addresses exclude the client: rejected
				}
				m := mint(c, r)
				id := idOf(r)
				w0 := m.ws.der()
				bv := rn.present("wire-base", w0, ss, id, expAny)
				variant := func(class string, f func(w *wireSpec), same bool) {
					w := m.ws
					f(&w)
					wire := w.der()
					v := rn.present(class, wire, ss, id, expAny)
					rn.neverGains(class, bv, v, wire)
					if same {
						rn.sameVerdict(class, bv, v, wire)
					}
				}
				// unsealed plaintext after enc-part
				variant("trailer-optional", func(w *wireSpec) { w.trailer = trailerOptional(r.now) }, true)
				variant("trailer-evil", func(w *wireSpec) { w.trailer = trailerEvil(r.now) }, true)
				variant("trailer-not-a-sequence", func(w *wireSpec) { w.trailer = dOct([]byte{1, 2, 3}) }, true)
				variant("trailer-context-tag", func(w *wireSpec) { w.trailer = ctx(4, dInt(7)) }, true)
				variant("trailer-malformed-sequence", func(w *wireSpec) { w.trailer = seq(dInt(5)) }, false)
				variant("trailer-truncated-header", func(w *wireSpec) { w.trailer = []byte{0x30} }, false)
				variant("trailer-twice", func(w *wireSpec) { w.trailer = cat(trailerOptional(r.now), trailerEvil(r.now)) }, true)
				// garbage where the decoder does not look
				variant("garbage-after-message", func(w *wireSpec) { w.afterAll = []byte{0xde, 0xad, 0xbe, 0xef} }, true)
				variant("garbage-after-ticket", func(w *wireSpec) { w.afterTicket = []byte{0xff, 0x00, 0x30} }, true)
				variant("garbage-after-authenticator", func(w *wireSpec) { w.afterAuth = ctx(5, dInt(1)) }, true)
				variant("garbage-in-encdata", func(w *wireSpec) { w.auth.extra = []byte{0x05, 0x00}; w.tktEnc.extra = []byte{0xff} }, true)
				// the [3] wrapper is a RawValue: its identifier is never examined
				variant("ticket-wrapper-other-tag", func(w *wireSpec) { w.tktWrapper = 0xa7 }, false)
				variant("ticket-wrapper-universal", func(w *wireSpec) { w.tktWrapper = 0x24 }, false)
				if vi == 0 && sealedStart {
					reject := func(class string, f func(w *wireSpec)) {
						w := m.ws
						f(&w)
						rn.present(class, w.der(), ss, id, expReject)
					}
					reject("apreq-application-tag-15", func(w *wireSpec) { w.apApp = 15 })
					reject("apreq-application-tag-12", func(w *wireSpec) { w.apApp = 12 })
					reject("ticket-application-tag-3", func(w *wireSpec) { w.tktApp = 3 })
					reject("msg-type-15", func(w *wireSpec) { w.msgType = 15 })
					reject("msg-type-12", func(w *wireSpec) { w.msgType = 12 })
					reject("msg-type-0", func(w *wireSpec) { w.msgType = 0 })
					reject("etype-field-mismatch", func(w *wireSpec) { w.tktEnc.etype = 1 << 40 })
					for _, pv := range []int64{4, 6, 0, -5} {
						w := m.ws
						w.pvno = pv
						v := rn.present("pvno-other", w.der(), ss, id, expAny)
						if v.accepted {
							c.Count("note:pvno-not-checked-accepted")
						}
					}
					for _, tv := range []int64{4, 0} {
						w := m.ws
						w.tktVNO = tv
						if v := rn.present("tkt-vno-other", w.der(), ss, id, expAny); v.accepted {
							c.Count("note:tkt-vno-not-checked-accepted")
						}
					}
					// kvno absent: the keytab's newest key for the principal is used
					variant("ticket-kvno-absent", func(w *wireSpec) { w.tktEnc.kvno = nil; w.auth.kvno = nil }, true)
					big := int64(1) << 33
					variant("ticket-kvno-2^33+3", func(w *wireSpec) { k := big + 3; w.tktEnc.kvno = &k }, false)
					// other string types for the cleartext realm and service name
					for _, tg := range []byte{0x13, 0x16, 0x14, 0x0c, 0x1a, 0x04} {
						tg := tg
						variant(fmt.Sprintf("realm-string-tag-%02x", tg), func(w *wireSpec) { w.realmTag = tg }, false)
						variant(fmt.Sprintf("sname-string-tag-%02x", tg), func(w *wireSpec) { w.sname.strTag = tg }, false)
					}
					// lengths: indefinite, non-minimal, altered wrapper lengths
					rn.lengthVariants(w0, ss, id, bv)
				}
			}
		}
	}

	// ---- C. variants of the sealed parts ----
	for ei, et := range allEtypes {
		rn.sealedVariants(et, base, ei)
	}

	// ---- D. truncation at every offset, substitutions in the cleartext part ----
	for ei, et := range allEtypes {
		r := baseRecipe(s, et)
		m := mint(c, r)
		id := idOf(r)
		wire, _ := m.req.Marshal()
		step := 1
		if c.Quick() && ei != 0 {
			step = 7
		}
		for n := ei % step; n < len(wire); n += step {
			rn.present("truncated", wire[:n], base, id, expReject)
		}
		// positions outside the two ciphers
		tc, ac := m.req.Ticket.EncPart.Cipher, m.req.EncryptedAuthenticator.Cipher
		ti, ai := bytes.Index(wire, tc), bytes.Index(wire, ac)
		var clear []int
		for p := range wire {
			if (p >= ti && p < ti+len(tc)) || (p >= ai && p < ai+len(ac)) {
				continue
			}
			clear = append(clear, p)
		}
		nsub := 4
		if c.Quick() {
			nsub = 1
		}
		for k, p := range clear {
			if c.Quick() && (k+ei)%2 != 0 {
				continue
			}
			vals := []byte{wire[p] ^ 1, wire[p] ^ 0x20, wire[p] + 1}
			for j := 0; j < nsub; j++ {
				vals = append(vals, byte(c.R.Intn(256)))
			}
			if !c.Quick() {
				if ei < 2 {
					vals = vals[:0]
					for b := 0; b < 256; b++ {
						vals = append(vals, byte(b))
					}
				} else {
					vals = append(vals, wire[p]^0x80, wire[p]^0x40, wire[p]-1, 0, 0xff, 0x30, 0x1f, 0xbf, 0x7f, 0x80, 0x81)
				}
			}
			seen := map[byte]bool{wire[p]: true}
			for _, b := range vals {
				if seen[b] {
					continue
				}
				seen[b] = true
				w := append([]byte{}, wire...)
				w[p] = b
				rn.present("substitution", w, base, id, expAny)
			}
		}
		// two substitutions at once
		nd := 40
		if !c.Quick() {
			nd = 2000
		}
		for k := 0; k < nd; k++ {
			w := append([]byte{}, wire...)
			p1, p2 := clear[c.R.Intn(len(clear))], clear[c.R.Intn(len(clear))]
			w[p1] ^= byte(1 + c.R.Intn(255))
			w[p2] = byte(c.R.Intn(256))
			rn.present("substitution-double", w, base, id, expAny)
		}
		// the same on a wire that carries an unsealed trailer (positions of the trailer included)
		{
			wt := m.ws
			wt.trailer = trailerEvil(r.now)
			wireT := wt.der()
			ti2, ai2 := bytes.Index(wireT, tc), bytes.Index(wireT, ac)
			ns := 60
			if !c.Quick() {
				ns = 3000
			}
			for k := 0; k < ns; k++ {
				p := c.R.Intn(len(wireT))
				if (p >= ti2 && p < ti2+len(tc)) || (p >= ai2 && p < ai2+len(ac)) {
					continue
				}
				w := append([]byte{}, wireT...)
				switch c.R.Intn(3) {
				case 0:
					w[p] ^= 1 << uint(c.R.Intn(8))
				case 1:
					w[p] = byte(c.R.Intn(256))
				default:
					w[p]++
				}
				rn.present("substitution-with-trailer", w, base, id, expAny)
			}
			for n := 0; n < len(wireT); n += 1 + c.R.Intn(9) {
				rn.present("truncated-with-trailer", wireT[:n], base, id, expReject)
			}
		}
		// substitutions in the PLAINTEXT of the sealed parts (sealed afterwards): what the decoders of the
		// decrypted parts accept.  The sealed identity itself changes, so only the model predicts the outcome.
		{
			ns := 50
			if !c.Quick() {
				ns = 3000
			}
			for k := 0; k < ns; k++ {
				rr := baseRecipe(s, et)
				which := k % 2
				mod := func(b []byte) []byte {
					o := append([]byte{}, b...)
					p := c.R.Intn(len(o))
					switch c.R.Intn(4) {
					case 0:
						o[p] ^= 1 << uint(c.R.Intn(8))
					case 1:
						o[p] = byte(c.R.Intn(256))
					case 2:
						o[p]++
					default:
						o = o[:p] // truncated plaintext
					}
					return o
				}
				if which == 0 {
					rr.tktPlainMod = mod
				} else {
					rr.authPlainMod = mod
				}
				mm := mint(c, rr)
				wire2, _ := mm.req.Marshal()
				sid := idOf(rr)
				sid.skip = true
				rn.present([]string{"sealed-ticket-plaintext-substitution", "sealed-auth-plaintext-substitution"}[which], wire2, base, sid, expAny)
			}
		}
		// inside the ciphers: always rejected
		for k := 0; k < 6; k++ {
			w := append([]byte{}, wire...)
			p := ti + c.R.Intn(len(tc))
			if k%2 == 1 {
				p = ai + c.R.Intn(len(ac))
			}
			w[p] ^= 1 << uint(c.R.Intn(8))
			rn.present("substitution-in-cipher", w, base, id, expReject)
		}
	}
}

// lengthVariants rewrites length octets of a marshalled AP-REQ.
func (rn *runner) lengthVariants(w0 []byte, ss svcSettings, id sealedID, bv verdict) {
	// headers of the outer elements: [APPLICATION 14] SEQUENCE [0] INTEGER
	// w0 = 6e L1 30 L2 a0 03 02 01 05 ...   with L1, L2 in long form (the message is longer than 255 octets)
	if len(w0) < 20 || w0[0] != 0x6e || w0[1] != 0x82 || w0[4] != 0x30 || w0[5] != 0x82 || w0[8] != 0xa0 {
		rn.c.Notes = append(rn.c.Notes, "lengthVariants: unexpected layout, skipped")
		return
	}
	body := w0[4:]   // the SEQUENCE
	inner := w0[8:]  // its contents
	n2 := len(inner) // contents length of the SEQUENCE
	pad := func(class string, wire []byte, exp expect) verdict {
		v := rn.present(class, wire, ss, id, exp)
		rn.neverGains(class, bv, v, wire)
		return v
	}
	// indefinite length on the outer wrapper / on the SEQUENCE (with end-of-contents octets)
	pad("length-indefinite-app", cat([]byte{0x6e, 0x80}, body, []byte{0, 0}), expReject)
	pad("length-indefinite-seq", cat([]byte{0x6e}, derLen(len(body)+2), []byte{0x30, 0x80}, inner, []byte{0, 0}), expReject)
	// non-minimal: a leading zero length octet; long form for a short length
	pad("length-leading-zero-app", cat([]byte{0x6e, 0x83, 0x00, byte(len(body) >> 8), byte(len(body))}, body), expReject)
	pad("length-leading-zero-seq", cat([]byte{0x6e}, derLen(n2+5), []byte{0x30, 0x83, 0x00, byte(n2 >> 8), byte(n2)}, inner), expReject)
	pad("length-long-form-short", cat(w0[:8], []byte{0xa0, 0x81, 0x03}, w0[10:]), expReject)
	pad("length-long-form-short-int", cat(w0[:10], []byte{0x02, 0x81, 0x01}, w0[12:]), expReject)
	// the length of an explicit wrapper is parsed but never used
	for _, l := range []byte{0x01, 0x04, 0x7f} {
		v := pad("wrapper-length-altered", cat(w0[:9], []byte{l}, w0[10:]), expAny)
		rn.sameVerdict("wrapper-length-altered", bv, v, nil)
	}
	pad("wrapper-length-zero", cat(w0[:9], []byte{0}, w0[10:]), expReject)
	v := pad("app-wrapper-length-altered", cat([]byte{0x6e, 0x03}, body), expAny)
	rn.sameVerdict("app-wrapper-length-altered", bv, v, nil)
	pad("app-wrapper-length-huge", cat([]byte{0x6e, 0x84, 0x7f, 0xff, 0xff, 0xff}, body), expAny)
	pad("app-wrapper-length-2^31", cat([]byte{0x6e, 0x84, 0x80, 0x00, 0x00, 0x00}, body), expReject)
	pad("app-wrapper-length-5-octets", cat([]byte{0x6e, 0x85, 0x01, 0x00, 0x00, 0x00, 0x00}, body), expReject)
	// the SEQUENCE length is used: one more than there is / one less than needed
	pad("seq-length-plus-1", cat(w0[:6], []byte{byte((n2 + 1) >> 8), byte(n2 + 1)}, inner), expReject)
	pad("seq-length-minus-1", cat(w0[:6], []byte{byte((n2 - 1) >> 8), byte(n2 - 1)}, inner), expReject)
	// high-tag-number form of the identifier
	pad("high-tag-form-app-14", cat([]byte{0x7f, 0x0e}, w0[1:]), expReject) // non-minimal tag
	pad("high-tag-form-app-31", cat([]byte{0x7f, 0x1f}, w0[1:]), expReject)
	pad("high-tag-form-truncated", []byte{0x7f, 0x8e, 0x8e, 0x8e, 0x8e, 0x8e}, expReject)
}

// sealedVariants seals hand-made EncTicketPart / Authenticator plaintexts.
func (rn *runner) sealedVariants(et int32, ss svcSettings, ei int) {
	c, s := rn.c, rn.s
	run := func(class string, f func(r *recipe), exp expect) verdict {
		r := baseRecipe(s, et)
		f(&r)
		m := mint(c, r)
		wire, err := m.req.Marshal()
		if err != nil {
			panic(err)
		}
		return rn.present(class, wire, ss, idOf(r), exp)
	}
	zeros := make([]byte, 1+c.R.Intn(15))
	junk := make([]byte, 1+c.R.Intn(40))
	c.R.Read(junk)
	// octets after the DER value of the decrypted part
	run("ticket-plaintext-zero-padding", func(r *recipe) { r.tktSuffix = zeros }, expAccept)
	run("ticket-plaintext-trailing-junk", func(r *recipe) { r.tktSuffix = junk }, expAny)
	run("auth-plaintext-zero-padding", func(r *recipe) { r.authSuffix = zeros }, expAccept)
	run("auth-plaintext-trailing-junk", func(r *recipe) { r.authSuffix = junk }, expAny)
	// optional fields
	run("etp-all-optional-absent", func(r *recipe) { r.start = time.Time{} }, expAccept)
	run("etp-all-optional-present", func(r *recipe) {
		r.caddr = nil
		r.etpMod = func(e *etpSpec) {
			e.renew = dGenTime(r.now.Add(100 * time.Hour))
			e.caddrSet = true
			e.authData = []adEntry{{128, []byte{1, 2, 3}}, {-7, nil}}
		}
	}, expAccept)
	run("etp-empty-caddr-present", func(r *recipe) { r.etpMod = func(e *etpSpec) { e.caddrSet = true } }, expAccept)
	run("etp-empty-authdata-present", func(r *recipe) { r.etpMod = func(e *etpSpec) { e.adSet = true } }, expAccept)
	run("etp-unknown-field-11", func(r *recipe) { r.etpMod = func(e *etpSpec) { e.extra = ctx(11, dInt(1)) } }, expAny)
	run("etp-junk-inside-sequence", func(r *recipe) { r.etpMod = func(e *etpSpec) { e.extra = []byte{0xff, 0xff} } }, expAny)
	run("auth-all-optional-absent", func(r *recipe) { r.authMod = func(a *authSpec) { a.seqNum = nil } }, expAccept)
	run("auth-all-optional-present", func(r *recipe) {
		r.authMod = func(a *authSpec) {
			a.cksum = &keySpec{7, []byte{1, 2, 3, 4}}
			a.subkey = &keySpec{int64(et), bytes.Repeat([]byte{9}, 16)}
			a.authData = []adEntry{{129, []byte{5}}}
		}
	}, expAccept)
	run("auth-unknown-field-9", func(r *recipe) { r.authMod = func(a *authSpec) { a.extra = ctx(9, dOct(nil)) } }, expAny)
	// version numbers inside the sealed parts are not examined
	if v := run("auth-vno-4", func(r *recipe) { r.authMod = func(a *authSpec) { a.avno = 4 } }, expAny); v.accepted {
		c.Count("note:authenticator-vno-not-checked-accepted")
	}
	// missing mandatory fields, wrong application tags, wrong types
	for _, n := range []int{0, 1, 2, 3, 4, 5, 7} {
		n := n
		run(fmt.Sprintf("etp-missing-field-%d", n), func(r *recipe) { r.etpMod = func(e *etpSpec) { e.omit = map[int]bool{n: true} } }, expReject)
	}
	for _, n := range []int{0, 1, 2, 4, 5} {
		n := n
		run(fmt.Sprintf("auth-missing-field-%d", n), func(r *recipe) { r.authMod = func(a *authSpec) { a.omit = map[int]bool{n: true} } }, expReject)
	}
	run("etp-application-tag-2", func(r *recipe) { r.etpApp = 2 }, expReject)
	run("etp-application-tag-25", func(r *recipe) { r.etpApp = 25 }, expReject)
	run("auth-application-tag-3", func(r *recipe) { r.authApp = 3 }, expReject)
	run("etp-endtime-as-integer", func(r *recipe) { r.etpMod = func(e *etpSpec) { e.end = dInt(r.end.Unix()) } }, expReject)
	run("etp-keytype-2^31", func(r *recipe) { r.etpMod = func(e *etpSpec) { e.key.ktype = 1 << 31 } }, expReject)
	run("etp-trtype-2^31", func(r *recipe) { r.etpMod = func(e *etpSpec) { e.trType = 1 << 31 } }, expReject)
	run("auth-cusec-non-minimal", func(r *recipe) {
		r.authMod = func(a *authSpec) {
			a.seqNum = nil
			a.omit = map[int]bool{4: true, 5: true}
			a.extra = cat(ctx(4, tlv(0x02, []byte{0, 5})), ctx(5, a.ctime))
		}
	}, expReject)
	run("auth-cusec-rewritten-minimal", func(r *recipe) { // the same rewriting with a minimal INTEGER is fine
		r.authMod = func(a *authSpec) {
			a.seqNum = nil
			a.omit = map[int]bool{4: true, 5: true}
			a.extra = cat(ctx(4, dInt(a.cusec)), ctx(5, a.ctime))
		}
	}, expAccept)
	run("etp-flags-padding-bits-set", func(r *recipe) {
		r.etpMod = func(e *etpSpec) { e.flagsTLV = tlv(0x03, []byte{1, 0x40, 0x80, 0, 1}) }
	}, expAny)
	run("etp-flags-31-bits", func(r *recipe) {
		r.etpMod = func(e *etpSpec) { e.flagsTLV = tlv(0x03, []byte{1, 0x40, 0x80, 0, 0}) }
	}, expAny)
	run("etp-flags-padding-count-8", func(r *recipe) {
		r.etpMod = func(e *etpSpec) { e.flagsTLV = tlv(0x03, []byte{8, 0x40, 0x80, 0, 0}) }
	}, expAny)
	run("etp-flags-no-octets-at-all", func(r *recipe) {
		r.etpMod = func(e *etpSpec) { e.flagsTLV = tlv(0x03) }
	}, expAny)
	// flags with unused bits (BIT STRING padding count 1..7) and short flag strings
	if ei%2 == 0 {
		run("etp-flags-one-octet", func(r *recipe) { r.flags = []byte{0x40} }, expAccept)
		run("etp-flags-empty", func(r *recipe) { r.flags = []byte{} }, expAccept)
		run("etp-flags-invalid-one-octet", func(r *recipe) { r.flags = []byte{0x01} }, expReject)
	}
	// other encodings of times and strings inside the sealed parts (what gofork accepts, the model follows)
	utc := func(t time.Time) []byte { return tlv(0x17, []byte(t.UTC().Format("060102150405Z"))) }
	utcNoSec := func(t time.Time) []byte { return tlv(0x17, []byte(t.UTC().Format("0601021504Z"))) }
	zone := func(t time.Time, off int) []byte {
		return tlv(0x18, []byte(t.In(time.FixedZone("", off)).Format("20060102150405-0700")))
	}
	run("etp-endtime-utctime", func(r *recipe) { r.etpMod = func(e *etpSpec) { e.end = utc(r.end) } }, expAny)
	run("etp-endtime-utctime-no-seconds", func(r *recipe) {
		r.end = r.end.Truncate(time.Minute)
		r.etpMod = func(e *etpSpec) { e.end = utcNoSec(r.end) }
	}, expAny)
	run("etp-starttime-utctime-1995", func(r *recipe) { r.etpMod = func(e *etpSpec) { e.start = tlv(0x17, []byte("950101000000Z")) } }, expAny)
	run("etp-starttime-utctime-1950", func(r *recipe) { r.etpMod = func(e *etpSpec) { e.start = tlv(0x17, []byte("500101000000Z")) } }, expAny)
	run("etp-starttime-utctime-2049", func(r *recipe) { r.etpMod = func(e *etpSpec) { e.start = tlv(0x17, []byte("491231235959Z")) } }, expAny)
	run("etp-starttime-utctime-zone", func(r *recipe) { r.etpMod = func(e *etpSpec) { e.start = tlv(0x17, []byte("2001010000+0530")) } }, expAny)
	// cusec is an unconstrained int: time.Duration(cusec) * time.Microsecond wraps around
	run("auth-cusec-2^62-wraps", func(r *recipe) { r.authMod = func(a *authSpec) { a.cusec += 1 << 62 } }, expAny)
	run("auth-cusec-negative", func(r *recipe) { r.authMod = func(a *authSpec) { a.cusec = -5 } }, expAny)
	run("auth-cusec-wraps-negative", func(r *recipe) { r.authMod = func(a *authSpec) { a.cusec = 9223372036854776 } }, expAny)
	run("auth-cusec-two-seconds", func(r *recipe) { r.authMod = func(a *authSpec) { a.cusec = 2000000 } }, expAny)
	run("etp-endtime-zone-plus0130", func(r *recipe) { r.etpMod = func(e *etpSpec) { e.end = zone(r.end, 5400) } }, expAny)
	run("etp-starttime-zone-minus0800", func(r *recipe) { r.etpMod = func(e *etpSpec) { e.start = zone(r.start, -8*3600) } }, expAny)
	run("auth-ctime-zone-plus2400", func(r *recipe) {
		r.authMod = func(a *authSpec) { a.ctime = zone(r.ctime.Truncate(time.Second), 24*3600) }
	}, expAny)
	run("etp-endtime-zone-plus0000", func(r *recipe) {
		r.etpMod = func(e *etpSpec) { e.end = tlv(0x18, []byte(r.end.UTC().Format("20060102150405")+"+0000")) }
	}, expAny)
	run("etp-endtime-fraction", func(r *recipe) {
		r.etpMod = func(e *etpSpec) { e.end = tlv(0x18, []byte(r.end.UTC().Format("20060102150405")+".5Z")) }
	}, expAny)
	run("etp-endtime-feb-30", func(r *recipe) {
		r.etpMod = func(e *etpSpec) { e.end = tlv(0x18, []byte(fmt.Sprintf("%04d0230120000Z", r.end.Year()+1))) }
	}, expAny)
	run("etp-authtime-year-0000", func(r *recipe) {
		r.etpMod = func(e *etpSpec) { e.authTime = tlv(0x18, []byte("00000229120000Z")) }
	}, expAny)
	run("etp-endtime-year-9999", func(r *recipe) {
		r.end = time.Date(9999, 12, 31, 23, 59, 59, 0, time.UTC)
	}, expAccept)
	for _, tg := range []byte{0x13, 0x16, 0x14, 0x0c} {
		tg := tg
		run(fmt.Sprintf("etp-crealm-string-tag-%02x", tg), func(r *recipe) { r.etpMod = func(e *etpSpec) { e.crealmTag = tg } }, expAny)
		run(fmt.Sprintf("auth-cname-string-tag-%02x", tg), func(r *recipe) { r.authMod = func(a *authSpec) { a.cname.strTag = tg } }, expAny)
	}
	// a client name that is not printable / not ASCII / not UTF-8, sealed consistently in both parts
	odd := []string{"us@r_1", "us\xc3\xa9r", "us\xffr"}
	for _, tg := range []byte{0x13, 0x16, 0x0c, 0x1b} {
		for j, nm := range odd {
			tg, nm := tg, nm
			// PrintableString refuses '@', '_' and octets >= 0x80; IA5String refuses octets >= 0x80; UTF8String refuses \xff
			run(fmt.Sprintf("sealed-cname-%d-tag-%02x", j, tg), func(r *recipe) {
				r.cname, r.authCName = []string{nm}, []string{nm}
				r.etpMod = func(e *etpSpec) { e.cname.strTag = tg }
			}, expAny)
		}
	}
}
