// Minting of AP-REQs with full control over every sealed field and an independent DER writer: copied from
// harness/props/c01b/c01b.go (which derives from harness/cmd/run/mint.go) so that this package stands alone.
package c03b

import (
	"bytes"
	"strings"
	"time"

	"github.com/jcmturner/gokrb5/v8/crypto"
	"github.com/jcmturner/gokrb5/v8/keytab"
	"github.com/jcmturner/gokrb5/v8/messages"
	"github.com/jcmturner/gokrb5/v8/types"
	"verif/harness/internal/hctx"
	"verif/harness/internal/jv"
)

var allEtypes = []int32{17, 18, 19, 20, 23, 16}

// ---------------------------------------------------------------------------------------------------------------
// an independent DER writer (nothing of gofork's Marshal is used for the hand-made variants)

func derLen(n int) []byte {
	if n < 128 {
		return []byte{byte(n)}
	}
	var o []byte
	for m := n; m > 0; m >>= 8 {
		o = append([]byte{byte(m)}, o...)
	}
	return append([]byte{0x80 | byte(len(o))}, o...)
}

func cat(parts ...[]byte) []byte {
	var o []byte
	for _, p := range parts {
		o = append(o, p...)
	}
	return o
}

func tlv(id byte, parts ...[]byte) []byte {
	body := cat(parts...)
	return cat([]byte{id}, derLen(len(body)), body)
}

func intBody(v int64) []byte {
	n := 1
	for ; n < 8; n++ {
		lim := int64(1) << uint(8*n-1)
		if v >= -lim && v < lim {
			break
		}
	}
	o := make([]byte, n)
	for i := 0; i < n; i++ {
		o[n-1-i] = byte(v >> uint(8*i))
	}
	return o
}

func dInt(v int64) []byte               { return tlv(0x02, intBody(v)) }
func dOct(b []byte) []byte              { return tlv(0x04, b) }
func dStr(tag byte, s string) []byte    { return tlv(tag, []byte(s)) }
func dGenTime(t time.Time) []byte       { return tlv(0x18, []byte(t.UTC().Format("20060102150405Z"))) }
func dBits(b []byte) []byte             { return tlv(0x03, []byte{0}, b) }
func ctx(n int, parts ...[]byte) []byte { return tlv(0xa0|byte(n), parts...) }
func app(n int, parts ...[]byte) []byte { return tlv(0x60|byte(n), parts...) }
func seq(parts ...[]byte) []byte        { return tlv(0x30, parts...) }

type pnameSpec struct {
	ntype  int64
	names  []string
	strTag byte
}

func (p pnameSpec) der() []byte {
	tag := p.strTag
	if tag == 0 {
		tag = 0x1b
	}
	var ns [][]byte
	for _, n := range p.names {
		ns = append(ns, dStr(tag, n))
	}
	return seq(ctx(0, dInt(p.ntype)), ctx(1, seq(ns...)))
}

type encDataSpec struct {
	etype  int64
	kvno   *int64
	cipher []byte
	extra  []byte // after cipher, inside the SEQUENCE
}

func (e encDataSpec) der() []byte {
	parts := [][]byte{ctx(0, dInt(e.etype))}
	if e.kvno != nil {
		parts = append(parts, ctx(1, dInt(*e.kvno)))
	}
	parts = append(parts, ctx(2, dOct(e.cipher)), e.extra)
	return seq(parts...)
}

type keySpec struct {
	ktype int64
	value []byte
}

func (k keySpec) der() []byte { return seq(ctx(0, dInt(k.ktype)), ctx(1, dOct(k.value))) }

type adEntry struct {
	adtype int64
	data   []byte
}

func adDer(l []adEntry) []byte {
	var es [][]byte
	for _, e := range l {
		es = append(es, seq(ctx(0, dInt(e.adtype)), ctx(1, dOct(e.data))))
	}
	return seq(es...)
}

// etpSpec is the content of an EncTicketPart; time fields are ready-made TLVs so that variants can use other encodings.
type etpSpec struct {
	flags     []byte
	flagsTLV  []byte // when set, written instead of the BIT STRING of flags
	key       keySpec
	crealm    string
	crealmTag byte
	cname     pnameSpec
	trType    int64
	trData    []byte
	authTime  []byte
	start     []byte // nil: absent
	end       []byte
	renew     []byte // nil: absent
	caddr     []types.HostAddress
	caddrSet  bool // present even when empty
	authData  []adEntry
	adSet     bool
	extra     []byte       // after the last field, inside the SEQUENCE
	omit      map[int]bool // mandatory fields to leave out
}

func (e etpSpec) seqDer() []byte {
	tag := e.crealmTag
	if tag == 0 {
		tag = 0x1b
	}
	var parts [][]byte
	add := func(n int, b []byte) {
		if b != nil && !e.omit[n] {
			parts = append(parts, ctx(n, b))
		}
	}
	if e.flagsTLV != nil {
		add(0, e.flagsTLV)
	} else {
		add(0, dBits(e.flags))
	}
	add(1, e.key.der())
	add(2, dStr(tag, e.crealm))
	add(3, e.cname.der())
	add(4, seq(ctx(0, dInt(e.trType)), ctx(1, dOct(e.trData))))
	add(5, e.authTime)
	add(6, e.start)
	add(7, e.end)
	add(8, e.renew)
	if len(e.caddr) > 0 || e.caddrSet {
		var as [][]byte
		for _, a := range e.caddr {
			as = append(as, seq(ctx(0, dInt(int64(a.AddrType))), ctx(1, dOct(a.Address))))
		}
		add(9, seq(as...))
	}
	if len(e.authData) > 0 || e.adSet {
		add(10, adDer(e.authData))
	}
	parts = append(parts, e.extra)
	return seq(parts...)
}

type authSpec struct {
	avno      int64
	crealm    string
	crealmTag byte
	cname     pnameSpec
	cksum     *keySpec // (cksumtype, checksum) has the shape of a key
	cusec     int64
	ctime     []byte
	subkey    *keySpec
	seqNum    *int64
	authData  []adEntry
	extra     []byte
	omit      map[int]bool
}

func (a authSpec) seqDer() []byte {
	tag := a.crealmTag
	if tag == 0 {
		tag = 0x1b
	}
	var parts [][]byte
	add := func(n int, b []byte) {
		if b != nil && !a.omit[n] {
			parts = append(parts, ctx(n, b))
		}
	}
	add(0, dInt(a.avno))
	add(1, dStr(tag, a.crealm))
	add(2, a.cname.der())
	if a.cksum != nil {
		add(3, a.cksum.der())
	}
	add(4, dInt(a.cusec))
	add(5, a.ctime)
	if a.subkey != nil {
		add(6, a.subkey.der())
	}
	if a.seqNum != nil {
		add(7, dInt(*a.seqNum))
	}
	if len(a.authData) > 0 {
		add(8, adDer(a.authData))
	}
	parts = append(parts, a.extra)
	return seq(parts...)
}

// wireSpec is an AP-REQ on the wire.
type wireSpec struct {
	pvno, msgType int64
	apOptions     []byte
	tktWrapper    byte // identifier of the [3] wrapper
	tktApp        int
	tktVNO        int64
	realm         string
	realmTag      byte
	sname         pnameSpec
	tktEnc        encDataSpec
	trailer       []byte // after enc-part, inside the Ticket SEQUENCE
	afterTicket   []byte // after the Ticket, inside the [3] wrapper
	auth          encDataSpec
	afterAuth     []byte // after the last field, inside the AP-REQ SEQUENCE
	apApp         int
	afterAll      []byte
}

func (w wireSpec) ticketDer() []byte {
	tag := w.realmTag
	if tag == 0 {
		tag = 0x1b
	}
	return app(w.tktApp, seq(ctx(0, dInt(w.tktVNO)), ctx(1, dStr(tag, w.realm)), ctx(2, w.sname.der()), ctx(3, w.tktEnc.der()), w.trailer))
}

func (w wireSpec) der() []byte {
	return cat(app(w.apApp, seq(ctx(0, dInt(w.pvno)), ctx(1, dInt(w.msgType)), ctx(2, dBits(w.apOptions)),
		tlv(w.tktWrapper, w.ticketDer(), w.afterTicket), ctx(4, w.auth.der()), w.afterAuth)), w.afterAll)
}

// ---------------------------------------------------------------------------------------------------------------
// minting (after harness/cmd/run/mint.go, with the sealed parts written by the DER writer above)

type testService struct {
	kt    *keytab.Keytab
	realm string
	sname []string
	kvno  int
	keys  map[int32]types.EncryptionKey
}

func joinSlash(s []string) string { return strings.Join(s, "/") }

func sameStrs(a, b []string) bool {
	if len(a) != len(b) {
		return false
	}
	for i := range a {
		if a[i] != b[i] {
			return false
		}
	}
	return true
}

func newTestService(sname []string) *testService {
	s := &testService{kt: keytab.New(), realm: "TEST.GOKRB5", sname: sname, kvno: 3, keys: map[int32]types.EncryptionKey{}}
	princ := joinSlash(sname)
	for _, et := range allEtypes {
		pw := "svc-password-" + princ
		if err := s.kt.AddEntry(princ, s.realm, pw, time.Unix(1600000000, 0), uint8(s.kvno), et); err != nil {
			panic(err)
		}
		k, _, err := s.kt.GetEncryptionKey(types.PrincipalName{NameType: 2, NameString: sname}, s.realm, s.kvno, et)
		if err != nil {
			panic(err)
		}
		s.keys[et] = k
	}
	return s
}

func randKey(c *hctx.Ctx, et int32) types.EncryptionKey {
	e, _ := crypto.GetEtype(et)
	k := make([]byte, e.GetKeyByteSize())
	c.R.Read(k)
	return types.EncryptionKey{KeyType: et, KeyValue: k}
}

func projKeytab(kt *keytab.Keytab) jv.V {
	es := make([]jv.V, len(kt.Entries))
	for i, e := range kt.Entries {
		p := jv.L(jv.I(int64(e.Principal.NumComponents)), jv.S(e.Principal.Realm), jv.Strs(e.Principal.Components), jv.I(int64(e.Principal.NameType)))
		es[i] = jv.L(p, jv.I(e.Timestamp.Unix()), jv.I(int64(e.KVNO8)), jv.I(int64(e.Key.KeyType)), jv.B(e.Key.KeyValue), jv.I(int64(e.KVNO)))
	}
	return jv.L(es...)
}

// recipe describes one AP-REQ to mint; the base recipe gives a valid request.
type recipe struct {
	et         int32
	now        time.Time
	cname      []string
	crealm     string
	tktRealm   string
	tktSName   []string
	kvno       int
	encEType   int32
	tktKey     types.EncryptionKey
	tktUsage   uint32
	flags      []byte
	start      time.Time // zero = absent
	end        time.Time
	caddr      []types.HostAddress
	authCName  []string
	authCRealm string
	ctime      time.Time
	authUsage  uint32
	authKey    *types.EncryptionKey
	flipTkt    int
	truncTkt   int
	flipAuth   int
	truncAuth  int
	trailer    bool
	// sealed-part variants
	etpMod       func(*etpSpec)
	authMod      func(*authSpec)
	tktSuffix    []byte // appended to the ticket plaintext before sealing
	authSuffix   []byte
	tktPlainMod  func([]byte) []byte // applied to the ticket plaintext before sealing
	authPlainMod func([]byte) []byte
	etpApp       int // application tag of the sealed EncTicketPart (3)
	authApp      int // application tag of the sealed Authenticator (2)
}

type minted struct {
	req        messages.APReq
	sessionKey types.EncryptionKey
	r          recipe
	ws         wireSpec
	etp        etpSpec
}

var cusecCounter int

func baseRecipe(s *testService, et int32) recipe {
	now := time.Now().UTC()
	cusecCounter++
	cr := "TEST.GOKRB5"
	if cusecCounter%3 == 0 {
		cr = "PARTNER.EXAMPLE" // a cross-realm client: the accepted identity is the sealed crealm
	}
	return recipe{et: et, now: now, cname: []string{"testuser1"}, crealm: cr, tktRealm: s.realm, tktSName: s.sname,
		kvno: s.kvno, encEType: et, tktKey: s.keys[et], tktUsage: 2, flags: []byte{0x40, 0x80, 0, 0},
		start: now.Add(-time.Hour).Truncate(time.Second), end: now.Add(8 * time.Hour).Truncate(time.Second),
		authCName: []string{"testuser1"}, authCRealm: cr,
		ctime: now.Truncate(time.Second).Add(time.Duration(cusecCounter%900000) * time.Microsecond), authUsage: 11,
		flipTkt: -1, truncTkt: -1, flipAuth: -1, truncAuth: -1, etpApp: 3, authApp: 2}
}

func damage(cipher []byte, flip, trunc int) []byte {
	out := append([]byte{}, cipher...)
	if flip >= 0 && len(out) > 0 {
		bit := flip % (len(out) * 8)
		out[bit/8] ^= 1 << uint(bit%8)
	}
	if trunc >= 0 && trunc < len(out) {
		out = out[:trunc]
	}
	return out
}

func mint(c *hctx.Ctx, r recipe) minted {
	e, _ := crypto.GetEtype(r.et)
	sk := make([]byte, e.GetKeyByteSize())
	c.R.Read(sk)
	session := types.EncryptionKey{KeyType: r.et, KeyValue: sk}
	etp := etpSpec{flags: r.flags, key: keySpec{int64(r.et), sk}, crealm: r.crealm, cname: pnameSpec{ntype: 1, names: r.cname},
		authTime: dGenTime(r.now.Add(-2 * time.Hour)), end: dGenTime(r.end), caddr: r.caddr}
	if !r.start.IsZero() {
		etp.start = dGenTime(r.start)
	}
	if r.etpMod != nil {
		r.etpMod(&etp)
	}
	plain := cat(app(r.etpApp, etp.seqDer()), r.tktSuffix)
	if r.tktPlainMod != nil {
		plain = r.tktPlainMod(plain)
	}
	ed, err := crypto.GetEncryptedData(plain, r.tktKey, r.tktUsage, r.kvno)
	if err != nil {
		panic(err)
	}
	ed.EType = r.encEType
	ed.Cipher = damage(ed.Cipher, r.flipTkt, r.truncTkt)
	tkt := messages.Ticket{TktVNO: 5, Realm: r.tktRealm, SName: types.PrincipalName{NameType: 2, NameString: r.tktSName}, EncPart: ed}
	sec := r.ctime.Truncate(time.Second)
	sq := int64(c.R.Intn(1 << 30))
	au := authSpec{avno: 5, crealm: r.authCRealm, cname: pnameSpec{ntype: 1, names: r.authCName},
		cusec: int64(r.ctime.Sub(sec) / time.Microsecond), ctime: dGenTime(sec), seqNum: &sq}
	if r.authMod != nil {
		r.authMod(&au)
	}
	aplain := cat(app(r.authApp, au.seqDer()), r.authSuffix)
	if r.authPlainMod != nil {
		aplain = r.authPlainMod(aplain)
	}
	ak := session
	if r.authKey != nil {
		ak = *r.authKey
	}
	aed, err := crypto.GetEncryptedData(aplain, ak, r.authUsage, r.kvno)
	if err != nil {
		panic(err)
	}
	aed.Cipher = damage(aed.Cipher, r.flipAuth, r.truncAuth)
	req := messages.APReq{PVNO: 5, MsgType: 14, APOptions: types.NewKrbFlags(), Ticket: tkt, EncryptedAuthenticator: aed}
	kv, akv := int64(ed.KVNO), int64(aed.KVNO)
	ws := wireSpec{pvno: 5, msgType: 14, apOptions: []byte{0, 0, 0, 0}, tktWrapper: 0xa3, tktApp: 1, tktVNO: 5, realm: r.tktRealm,
		sname: pnameSpec{ntype: 2, names: r.tktSName}, tktEnc: encDataSpec{etype: int64(ed.EType), kvno: &kv, cipher: ed.Cipher},
		auth: encDataSpec{etype: int64(aed.EType), kvno: &akv, cipher: aed.Cipher}, apApp: 14}
	if r.trailer {
		// optional fields only: none of them is sealed, so none may influence the verdict or the identity
		ws.trailer = trailerOptional(r.now)
	}
	return minted{req: req, sessionKey: session, r: r, ws: ws, etp: etp}
}

var addrA = types.HostAddress{AddrType: 2, Address: []byte{10, 1, 2, 3}}
var addrB = types.HostAddress{AddrType: 2, Address: []byte{10, 9, 9, 9}}

// an unsealed EncTicketPart SEQUENCE in which only optional fields are present is not decodable (its mandatory
// fields are missing), so the trailers carry every mandatory field as well
func trailerOptional(now time.Time) []byte {
	e := etpSpec{flags: []byte{0x40, 0x80, 0, 0}, key: keySpec{17, make([]byte, 16)}, crealm: "TEST.GOKRB5", cname: pnameSpec{ntype: 1, names: []string{"testuser1"}},
		authTime: dGenTime(now.Add(-2 * time.Hour)), end: dGenTime(now.Add(8 * time.Hour)),
		caddr: []types.HostAddress{addrA}, start: dGenTime(now.Add(48 * time.Hour)), renew: dGenTime(now.Add(-48 * time.Hour))}
	return e.seqDer()
}

// a complete foreign EncTicketPart: another client, another realm, another key, INVALID flag, long expired
func trailerEvil(now time.Time) []byte {
	e := etpSpec{flags: []byte{0x41, 0, 0, 0}, key: keySpec{18, bytes.Repeat([]byte{0x5a}, 32)}, crealm: "EVIL.REALM", cname: pnameSpec{ntype: 1, names: []string{"administrator"}},
		authTime: dGenTime(now.Add(-2000 * time.Hour)), end: dGenTime(now.Add(-1000 * time.Hour)),
		caddr: []types.HostAddress{addrB}, authData: []adEntry{{1, []byte{0x30, 0}}}}
	return e.seqDer()
}

// ---------------------------------------------------------------------------------------------------------------
// the defect catalogue of C01

type defect struct {
	name        string
	invalidates bool
	apply       func(c *hctx.Ctx, s *testService, r *recipe, d time.Duration)
}

func defectCatalogue() []defect {
	return []defect{
		{"wrong-key", true, func(c *hctx.Ctx, s *testService, r *recipe, d time.Duration) { r.tktKey = randKey(c, r.et) }},
		{"wrong-kvno", true, func(c *hctx.Ctx, s *testService, r *recipe, d time.Duration) { r.kvno = s.kvno + 1 }},
		{"wrong-etype", true, func(c *hctx.Ctx, s *testService, r *recipe, d time.Duration) {
			r.encEType = map[int32]int32{17: 18, 18: 17, 19: 20, 20: 19, 23: 17, 16: 23}[r.et]
		}},
		{"wrong-realm", true, func(c *hctx.Ctx, s *testService, r *recipe, d time.Duration) { r.tktRealm = "OTHER.REALM" }},
		{"wrong-sname", true, func(c *hctx.Ctx, s *testService, r *recipe, d time.Duration) {
			r.tktSName = []string{"HTTP", "other.test.gokrb5"}
		}},
		{"start-outside", true, func(c *hctx.Ctx, s *testService, r *recipe, d time.Duration) {
			r.start = r.now.Add(d + 3*time.Second).Truncate(time.Second)
		}},
		{"start-inside", false, func(c *hctx.Ctx, s *testService, r *recipe, d time.Duration) {
			r.start = r.now.Add(d - 3*time.Second).Truncate(time.Second)
		}},
		{"start-absent", false, func(c *hctx.Ctx, s *testService, r *recipe, d time.Duration) { r.start = time.Time{} }},
		{"end-outside", true, func(c *hctx.Ctx, s *testService, r *recipe, d time.Duration) {
			r.end = r.now.Add(-d - 3*time.Second).Truncate(time.Second)
		}},
		{"end-inside", false, func(c *hctx.Ctx, s *testService, r *recipe, d time.Duration) {
			r.end = r.now.Add(-d + 3*time.Second).Truncate(time.Second)
		}},
		{"flip-ticket", true, func(c *hctx.Ctx, s *testService, r *recipe, d time.Duration) { r.flipTkt = c.R.Intn(1 << 20) }},
		{"trunc-ticket", true, func(c *hctx.Ctx, s *testService, r *recipe, d time.Duration) { r.truncTkt = c.R.Intn(60) }},
		{"flip-auth", true, func(c *hctx.Ctx, s *testService, r *recipe, d time.Duration) { r.flipAuth = c.R.Intn(1 << 20) }},
		{"trunc-auth", true, func(c *hctx.Ctx, s *testService, r *recipe, d time.Duration) { r.truncAuth = c.R.Intn(40) }},
		{"cname-mismatch", true, func(c *hctx.Ctx, s *testService, r *recipe, d time.Duration) { r.authCName = []string{"administrator"} }},
		{"cname-boundary", true, func(c *hctx.Ctx, s *testService, r *recipe, d time.Duration) {
			r.cname = []string{"host", "client.test.gokrb5"}
			r.authCName = []string{"host/client.test.gokrb5"}
		}},
		{"cname-prefix", true, func(c *hctx.Ctx, s *testService, r *recipe, d time.Duration) {
			r.authCName = append(append([]string{}, r.cname...), "admin")
		}},
		{"crealm-mismatch", true, func(c *hctx.Ctx, s *testService, r *recipe, d time.Duration) { r.authCRealm = "EVIL.REALM" }},
		{"ticket-usage", true, func(c *hctx.Ctx, s *testService, r *recipe, d time.Duration) { r.tktUsage = 3 }},
		{"auth-usage", true, func(c *hctx.Ctx, s *testService, r *recipe, d time.Duration) { r.authUsage = 7 }},
		{"auth-key", true, func(c *hctx.Ctx, s *testService, r *recipe, d time.Duration) { k := randKey(c, r.et); r.authKey = &k }},
		{"invalid-flag", true, func(c *hctx.Ctx, s *testService, r *recipe, d time.Duration) { r.flags = []byte{0x41, 0x80, 0, 0} }},
		{"other-flags", false, func(c *hctx.Ctx, s *testService, r *recipe, d time.Duration) {
			r.flags = []byte{0xfe, 0xff, 0xff, 0xff}
		}},
		{"ctime-late", true, func(c *hctx.Ctx, s *testService, r *recipe, d time.Duration) {
			r.ctime = r.ctime.Add(-d - 3*time.Second)
		}},
		{"ctime-early", true, func(c *hctx.Ctx, s *testService, r *recipe, d time.Duration) {
			r.ctime = r.ctime.Add(d + 3*time.Second)
		}},
		{"ctime-inside", false, func(c *hctx.Ctx, s *testService, r *recipe, d time.Duration) {
			r.ctime = r.ctime.Add(d - 3*time.Second)
		}},
		{"unsealed-trailer", false, func(c *hctx.Ctx, s *testService, r *recipe, d time.Duration) { r.trailer = true }},
		{"multi-component-client", false, func(c *hctx.Ctx, s *testService, r *recipe, d time.Duration) {
			r.cname = []string{"host", "client.test.gokrb5"}
			r.authCName = r.cname
		}},
	}
}

var defectField = map[string]string{"start-outside": "start", "start-inside": "start", "start-absent": "start", "end-outside": "end", "end-inside": "end",
	"flip-ticket": "tktcipher", "trunc-ticket": "tktcipher", "flip-auth": "authcipher", "trunc-auth": "authcipher",
	"cname-mismatch": "authcname", "cname-prefix": "authcname", "cname-boundary": "authcname", "multi-component-client": "authcname", "invalid-flag": "flags", "other-flags": "flags",
	"ctime-late": "ctime", "ctime-early": "ctime", "ctime-inside": "ctime", "wrong-key": "tktkey", "auth-key": "authkey"}

func defectIndex(cat []defect, name string) int {
	for i := range cat {
		if cat[i].name == name {
			return i
		}
	}
	return -1
}
