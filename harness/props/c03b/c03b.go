// Package c03b is the BYTES-MODE correspondence stream of property C03 — "the SPNEGO HTTP wrapper serves the inner
// handler only to authenticated requests".
//
// Every case is the raw VALUE of an Authorization header handed to the real spnego.SPNEGOKRB5Authenticate wrapper
// (net/http/httptest), or raw token octets handed to SPNEGOToken.Unmarshal + SPNEGOService(kt).AcceptSecContext.
// The Coq model (coq/model/SpnegoBytes.v) receives nothing but the same octets, the settings, the keytab and the time:
// it splits the header, decodes base64, the GSS-API / SPNEGO / KRB5 framings (what gofork asn1 accepts) and the AP-REQ,
// decrypts and decides on its own.  AP-REQs are minted with full control over the sealed fields (mint.go, the defect
// catalogue of C01); every framing is written by an independent DER writer, never by gokrb5's Marshal.
//
// Direct oracles (no model): the inner handler runs only for a request derived from a VALID minted AP-REQ, with the
// identity sealed in its ticket, status 200; a valid token in a KRB5 framing is served; every catalogue defect, every
// token without an AP-REQ (AP-REP, KRB-ERROR, unknown tok-id, no mech token), every wrong OID, every truncation, every
// malformed base64 value and every wrong scheme is refused with 401 and a Negotiate challenge and never reaches the
// handler; nothing panics.
package c03b

import (
	"context"
	"encoding/base64"
	"errors"
	"fmt"
	"math"
	"net/http"
	"net/http/httptest"
	"strings"
	"sync"
	"time"

	"github.com/jcmturner/goidentity/v6"
	"github.com/jcmturner/gokrb5/v8/credentials"
	"github.com/jcmturner/gokrb5/v8/gssapi"
	"github.com/jcmturner/gokrb5/v8/messages"
	"github.com/jcmturner/gokrb5/v8/service"
	"github.com/jcmturner/gokrb5/v8/spnego"
	"github.com/jcmturner/gokrb5/v8/types"
	"verif/harness/internal/hctx"
	"verif/harness/internal/jv"
)

// ---------------------------------------------------------------------------------------------------------------
// framing, written with the independent DER writer of mint.go

var (
	arcsSPNEGO = []int{1, 3, 6, 1, 5, 5, 2}
	arcsKRB5   = []int{1, 2, 840, 113554, 1, 2, 2}
	arcsMSKRB5 = []int{1, 2, 840, 48018, 1, 2, 2}
	arcsNTLM   = []int{1, 3, 6, 1, 4, 1, 311, 2, 2, 10}
)

func b128(v int, pad int) []byte {
	var o []byte
	o = append(o, byte(v&0x7f))
	for v >>= 7; v > 0; v >>= 7 {
		o = append([]byte{0x80 | byte(v&0x7f)}, o...)
	}
	for i := 0; i < pad; i++ {
		o = append([]byte{0x80}, o...) // leading zero group: not DER, accepted by gofork
	}
	return o
}

// oidTLV writes an OBJECT IDENTIFIER; pad > 0 prefixes the LAST sub-identifier with that many 0x80 octets.
func oidTLV(arcs []int, pad int) []byte {
	body := b128(arcs[0]*40+arcs[1], 0)
	for i, a := range arcs[2:] {
		p := 0
		if i == len(arcs)-3 {
			p = pad
		}
		body = append(body, b128(a, p)...)
	}
	return tlv(0x06, body)
}

func gss(oid []byte, inner ...[]byte) []byte { return tlv(0x60, append([][]byte{oid}, inner...)...) }

func krb5Mech(tokID []byte, msg []byte) []byte { return gss(oidTLV(arcsKRB5, 0), tokID, msg) }

type initSpec struct {
	outerID  byte     // identifier of the CHOICE alternative (0xa0)
	mechs    [][]byte // OID TLVs
	noMechs  bool     // leave the [0] field out
	flags    []byte   // TLV inside [1], nil = absent
	token    []byte   // contents of the OCTET STRING inside [2]
	hasToken bool
	mic      []byte // contents of the OCTET STRING inside [3], nil = absent
	inMechs  []byte // after the SEQUENCE OF inside the [0] wrapper
	inSeq    []byte // after the last field inside the SEQUENCE
	afterSeq []byte // after the SEQUENCE inside the CHOICE wrapper
}

func (i initSpec) der() []byte {
	var parts [][]byte
	if !i.noMechs {
		parts = append(parts, ctx(0, seq(i.mechs...), i.inMechs))
	}
	if i.flags != nil {
		parts = append(parts, ctx(1, i.flags))
	}
	if i.hasToken {
		parts = append(parts, ctx(2, dOct(i.token)))
	}
	if i.mic != nil {
		parts = append(parts, ctx(3, dOct(i.mic)))
	}
	parts = append(parts, i.inSeq)
	id := i.outerID
	if id == 0 {
		id = 0xa0
	}
	return tlv(id, seq(parts...), i.afterSeq)
}

type respSpec struct {
	outerID  byte
	state    int64
	noState  bool
	stateTag byte   // universal tag of negState (0x0a)
	mech     []byte // OID TLV inside [1], nil = absent
	token    []byte
	hasToken bool
	mic      []byte
	inSeq    []byte
	afterSeq []byte
}

func (r respSpec) der() []byte {
	var parts [][]byte
	if !r.noState {
		t := r.stateTag
		if t == 0 {
			t = 0x0a
		}
		parts = append(parts, ctx(0, tlv(t, intBody(r.state))))
	}
	if r.mech != nil {
		parts = append(parts, ctx(1, r.mech))
	}
	if r.hasToken {
		parts = append(parts, ctx(2, dOct(r.token)))
	}
	if r.mic != nil {
		parts = append(parts, ctx(3, dOct(r.mic)))
	}
	parts = append(parts, r.inSeq)
	id := r.outerID
	if id == 0 {
		id = 0xa1
	}
	return tlv(id, seq(parts...), r.afterSeq)
}

func spnegoInit(i initSpec) []byte { return gss(oidTLV(arcsSPNEGO, 0), i.der()) }

// ---------------------------------------------------------------------------------------------------------------
// a session manager (cookie -> stored bytes) with a failing variant, as in cmd/run/c03.go

type memSessions struct {
	mu       sync.Mutex
	store    map[string][]byte
	n        int
	failsNew bool
}

func (m *memSessions) New(w http.ResponseWriter, r *http.Request, k string, v []byte) error {
	if m.failsNew {
		return errors.New("session store unavailable")
	}
	m.mu.Lock()
	defer m.mu.Unlock()
	m.n++
	id := fmt.Sprintf("s%d", m.n)
	m.store[id+k] = v
	http.SetCookie(w, &http.Cookie{Name: "sess", Value: id})
	return nil
}

func (m *memSessions) Get(r *http.Request, k string) ([]byte, error) {
	ck, err := r.Cookie("sess")
	if err != nil {
		return nil, err
	}
	m.mu.Lock()
	defer m.mu.Unlock()
	v, ok := m.store[ck.Value+k]
	if !ok {
		return nil, errors.New("no such session")
	}
	return v, nil
}

// ---------------------------------------------------------------------------------------------------------------

func challengeClass(h string) int {
	switch h {
	case "":
		return 0
	case "Negotiate":
		return 1
	case "Negotiate oRQwEqADCgEBoQsGCSqGSIb3EgECAg==":
		return 2
	case "Negotiate oQcwBaADCgEC":
		return 3
	case "Negotiate oRQwEqADCgEAoQsGCSqGSIb3EgECAg==":
		return 4
	}
	return 9
}

// apTok is a minted AP-REQ: its wire octets, whether it was minted valid and the identity sealed in its ticket.
type apTok struct {
	wire   []byte
	valid  bool
	user   string
	domain string
	kind   string
	cipher [][]byte // the two ciphertexts (substitutions stay outside them)
}

type expect int

const (
	expAny     expect = iota // no panic; if the handler ran: base token valid, sealed identity
	expServed                // must be served with the sealed identity
	expRefused               // must be refused
)

type env struct {
	c     *hctx.Ctx
	s     *testService
	jkt   jv.V
	jst   jv.V
	skew  time.Duration
	local types.HostAddress
	dcat  []defect
}

const ctxCredentials = "github.com/jcmturner/gokrb5/v8/ctxCredentials"

func clearReplayCache() {
	service.GetReplayCache(24 * time.Hour).ClearOldEntries(time.Duration(math.MinInt64))
}

func (e *env) mintTok(et int32, defs []int, mod func(*recipe)) *apTok {
	r := baseRecipe(e.s, et)
	invalid := false
	kind := fmt.Sprintf("apreq[%d]", et)
	for _, di := range defs {
		e.dcat[di].apply(e.c, e.s, &r, e.skew)
		if e.dcat[di].invalidates {
			invalid = true
		}
		kind += "+" + e.dcat[di].name
	}
	if mod != nil {
		mod(&r)
	}
	m := mint(e.c, r)
	return &apTok{wire: m.ws.der(), valid: !invalid, user: joinSlash(r.cname), domain: r.crealm, kind: kind,
		cipher: [][]byte{m.ws.tktEnc.cipher, m.ws.auth.cipher}}
}

type served struct {
	panicked bool
	status   int
	chal     int
	called   bool
	user     string
	domain   string
	cookie   *http.Cookie
}

// do runs one request through a fresh wrapped handler.  header == nil: no Authorization header.
func (e *env) do(header *string, mgr *memSessions, cookie *http.Cookie) served {
	var sv served
	var mu sync.Mutex
	inner := http.HandlerFunc(func(w http.ResponseWriter, r *http.Request) {
		mu.Lock()
		sv.called = true
		if id := goidentity.FromHTTPRequestContext(r); id != nil {
			sv.user, sv.domain = id.UserName(), id.Domain()
		}
		mu.Unlock()
		w.WriteHeader(200)
	})
	opts := []func(*service.Settings){service.MaxClockSkew(e.skew), service.DecodePAC(false)}
	if mgr != nil {
		opts = append(opts, service.SessionManager(mgr))
	}
	h := spnego.SPNEGOKRB5Authenticate(inner, e.s.kt, opts...)
	req := httptest.NewRequest("GET", "http://host.test.gokrb5/", nil)
	req.RemoteAddr = "127.0.0.1:50000"
	if header != nil {
		req.Header["Authorization"] = []string{*header} // verbatim: no validation, no trimming
	}
	if cookie != nil {
		req.AddCookie(cookie)
	}
	w := httptest.NewRecorder()
	sv.panicked, _ = hctx.Guard(func() { h.ServeHTTP(w, req) })
	res := w.Result()
	for _, ck := range res.Cookies() {
		if ck.Name == "sess" {
			sv.cookie = ck
		}
	}
	sv.status, sv.chal = res.StatusCode, challengeClass(res.Header.Get("WWW-Authenticate"))
	return sv
}

func obsServed(sv served) jv.V {
	if sv.panicked {
		return jv.Panic()
	}
	id := jv.L()
	if sv.called {
		id = jv.L(jv.S(sv.user), jv.S(sv.domain))
	}
	return jv.Ok(jv.I(int64(sv.status)), jv.I(int64(sv.chal)), id)
}

// header presents one Authorization value to the wrapper (no session manager), records the case and the oracles.
func (e *env) header(class string, value string, base *apTok, exp expect) served {
	c := e.c
	clearReplayCache()
	t0 := time.Now().UTC()
	sv := e.do(&value, nil, nil)
	c.Case("spnego_serve_bytes", jv.L(e.jst, e.jkt, jv.I(t0.UnixNano()/1000), jv.L(), jv.S(value)), obsServed(sv))
	c.Count("header:" + class)
	switch {
	case sv.panicked:
		c.Count("outcome:panic")
	case sv.called:
		c.Count("outcome:served")
	default:
		c.Count(fmt.Sprintf("outcome:%d/challenge%d", sv.status, sv.chal))
	}
	inp := map[string]interface{}{"class": class, "authorization": value}
	c.Check(!sv.panicked, "no Authorization value panics the wrapper", "panic:"+class, "", inp)
	if sv.panicked {
		return sv
	}
	if sv.called {
		good := base != nil && base.valid && sv.user == base.user && sv.domain == base.domain && sv.status == 200 && sv.chal == 4
		c.Check(good, "the wrapped handler ran only for a request carrying a valid AP-REQ, with the identity sealed in its ticket", "handler-ran:"+class,
			fmt.Sprintf("user=%q domain=%q status=%d challenge=%d", sv.user, sv.domain, sv.status, sv.chal), inp)
	} else {
		c.Check(sv.status == 401 && sv.chal >= 1 && sv.chal <= 3, "a rejected request gets 401 with a WWW-Authenticate: Negotiate challenge and never reaches the handler", "refusal-shape:"+class,
			fmt.Sprintf("status=%d challenge=%d", sv.status, sv.chal), inp)
	}
	switch exp {
	case expServed:
		c.Check(sv.called, "a valid token is served", "valid-refused:"+class, fmt.Sprintf("status=%d challenge=%d", sv.status, sv.chal), inp)
	case expRefused:
		c.Check(!sv.called, "a request without a valid AP-REQ in a KRB5 framing is refused", "invalid-served:"+class, "", inp)
	}
	return sv
}

func hdr(tok []byte) string { return "Negotiate " + base64.StdEncoding.EncodeToString(tok) }

// token presents the same octets to the wrapper and to SPNEGOToken.Unmarshal + AcceptSecContext.
func (e *env) token(class string, tok []byte, base *apTok, exp expect) served {
	sv := e.header(class, hdr(tok), base, exp)
	e.accept(class, tok, base, exp)
	return sv
}

func (e *env) accept(class string, tok []byte, base *apTok, exp expect) {
	c := e.c
	clearReplayCache()
	spn := spnego.SPNEGOService(e.s.kt, service.ClientAddress(e.local), service.MaxClockSkew(e.skew), service.DecodePAC(false))
	var st spnego.SPNEGOToken
	var uerr error
	var ok bool
	var gctx context.Context
	var status gssapi.Status
	t0 := time.Now().UTC()
	p, _ := hctx.Guard(func() {
		if uerr = st.Unmarshal(tok); uerr != nil {
			return
		}
		ok, gctx, status = spn.AcceptSecContext(&st)
	})
	obs := jv.Err()
	var user, domain string
	switch {
	case p:
		obs = jv.Panic()
	case uerr == nil:
		id := jv.L()
		if ok && gctx != nil {
			if cr, is := gctx.Value(ctxCredentials).(*credentials.Credentials); is && cr != nil {
				user, domain = cr.UserName(), cr.Domain()
				id = jv.L(jv.S(user), jv.S(domain))
			}
		}
		obs = jv.Ok(jv.Bool(ok), id, jv.Bool(status.Code == gssapi.StatusComplete || status.Code == gssapi.StatusContinueNeeded))
	}
	c.Case("spnego_accept_bytes", jv.L(e.jst, e.jkt, jv.I(t0.UnixNano()/1000), jv.L(), jv.B(tok)), obs)
	c.Count("api:" + class)
	inp := map[string]interface{}{"class": class, "token": fmt.Sprintf("%x", tok)}
	c.Check(!p, "no token panics SPNEGOToken.Unmarshal / AcceptSecContext", "api-panic:"+class, "", inp)
	if p {
		return
	}
	if ok {
		good := base != nil && base.valid && user == base.user && domain == base.domain && status.Code == gssapi.StatusComplete
		c.Check(good, "AcceptSecContext reports success only for a token carrying a valid AP-REQ, with the sealed identity", "api-accepts:"+class,
			fmt.Sprintf("user=%q domain=%q status=%v", user, domain, status.Code), inp)
	}
	if exp == expRefused {
		c.Check(!ok, "AcceptSecContext does not report success for a token without a valid AP-REQ", "api-invalid-accepted:"+class, "", inp)
	}
}

// decoders alone
func (e *env) decodeB64(s string) {
	b, err := base64.StdEncoding.DecodeString(s)
	o := jv.Err()
	if err == nil {
		o = jv.Ok(jv.B(b))
	}
	e.c.Case("spnego_decode", jv.L(jv.I(0), jv.S(s)), o)
}

func jArcs(o []int) jv.V {
	vs := make([]jv.V, len(o))
	for i, a := range o {
		vs[i] = jv.I(int64(a))
	}
	return jv.L(vs...)
}

func jOptBytes(b []byte) jv.V {
	if b == nil {
		return jv.L()
	}
	return jv.L(jv.B(b))
}

func (e *env) decodeToken(tok []byte) {
	var st spnego.SPNEGOToken
	var err error
	p, _ := hctx.Guard(func() { err = st.Unmarshal(tok) })
	o := jv.Err()
	switch {
	case p:
		o = jv.Panic()
	case err == nil && st.Init:
		ms := make([]jv.V, len(st.NegTokenInit.MechTypes))
		for i, m := range st.NegTokenInit.MechTypes {
			ms[i] = jArcs(m)
		}
		o = jv.Ok(jv.I(0), jv.L(ms...), jOptBytes(st.NegTokenInit.MechTokenBytes))
	case err == nil && st.Resp:
		m := jv.L()
		if len(st.NegTokenResp.SupportedMech) > 0 {
			m = jv.L(jArcs(st.NegTokenResp.SupportedMech))
		}
		o = jv.Ok(jv.I(1), m, jOptBytes(st.NegTokenResp.ResponseToken))
	}
	e.c.Case("spnego_decode", jv.L(jv.I(1), jv.B(tok)), o)
}

func (e *env) decodeMech(mb []byte) {
	var k spnego.KRB5Token
	var err error
	p, _ := hctx.Guard(func() { err = k.Unmarshal(mb) })
	o := jv.Err()
	switch {
	case p:
		o = jv.Panic()
	case err == nil && k.IsAPReq():
		o = jv.Ok(jv.I(0))
	case err == nil && k.IsAPRep():
		o = jv.Ok(jv.I(1))
	case err == nil && k.IsKRBError():
		o = jv.Ok(jv.I(2))
	case err == nil:
		o = jv.Ok(jv.I(3))
	}
	e.c.Case("spnego_decode", jv.L(jv.I(2), jv.B(mb)), o)
}

func inRanges(tok []byte, ciphers [][]byte, pos int) bool {
	for _, ci := range ciphers {
		if i := strings.Index(string(tok), string(ci)); i >= 0 && pos >= i && pos < i+len(ci) {
			return true
		}
	}
	return false
}

// Run generates the stream.
func Run(c *hctx.Ctx) {
	service.GetReplayCache(24 * time.Hour)
	s := newTestService([]string{"HTTP", "host.test.gokrb5"})
	skew := 5 * time.Minute
	local := types.HostAddress{AddrType: 2, Address: []byte{127, 0, 0, 1}}
	e := &env{c: c, s: s, jkt: projKeytab(s.kt), skew: skew, local: local, dcat: defectCatalogue(),
		jst: jv.L(jv.I(int64(skew/time.Microsecond)), jv.Bool(false), jv.L(jv.I(int64(local.AddrType)), jv.B(local.Address)), jv.L())}
	quick := c.Quick()

	oK, oMS, oNT, oSP := oidTLV(arcsKRB5, 0), oidTLV(arcsMSKRB5, 0), oidTLV(arcsNTLM, 0), oidTLV(arcsSPNEGO, 0)
	apreqMech := func(t *apTok) []byte { return krb5Mech([]byte{1, 0}, t.wire) }
	initOf := func(mechs [][]byte, mech []byte) initSpec {
		return initSpec{mechs: mechs, token: mech, hasToken: mech != nil}
	}
	servedIf := func(t *apTok) expect {
		if t.valid {
			return expServed
		}
		return expRefused
	}

	// ---- A. valid tokens for all six etypes in every framing; mech list orders ----
	for ei, et := range allEtypes {
		t := e.mintTok(et, nil, nil)
		mb := apreqMech(t)
		c.Count(fmt.Sprintf("etype=%d", et))
		e.token("init[krb5]", spnegoInit(initOf([][]byte{oK}, mb)), t, expServed)
		e.token("init[mskrb5,krb5]", spnegoInit(initOf([][]byte{oMS, oK}, mb)), t, expServed)
		e.token("init[krb5,ntlm]", spnegoInit(initOf([][]byte{oK, oNT}, mb)), t, expServed)
		e.token("init[mskrb5]", spnegoInit(initOf([][]byte{oMS}, mb)), t, expServed)
		e.token("init[ntlm,krb5]", spnegoInit(initOf([][]byte{oNT, oK}, mb)), t, expRefused)
		e.token("init[ntlm]", spnegoInit(initOf([][]byte{oNT}, mb)), t, expRefused)
		e.token("init[]", spnegoInit(initOf(nil, mb)), t, expRefused)
		e.token("init-no-mechtypes-field", spnegoInit(initSpec{noMechs: true, token: mb, hasToken: true}), t, expRefused)
		e.token("init+flags+mic", spnegoInit(initSpec{mechs: [][]byte{oK}, flags: tlv(0x03, []byte{1, 0x40}), token: mb, hasToken: true, mic: []byte{1, 2, 3}}), t, expServed)
		e.token("resp[krb5]", respSpec{state: 1, mech: oK, token: mb, hasToken: true}.der(), t, expServed)
		e.token("resp[mskrb5]", respSpec{state: 0, mech: oMS, token: mb, hasToken: true}.der(), t, expServed)
		e.token("resp[ntlm]", respSpec{state: 1, mech: oNT, token: mb, hasToken: true}.der(), t, expRefused)
		e.token("resp[absent]", respSpec{state: 1, token: mb, hasToken: true}.der(), t, expRefused)
		e.token("resp-no-negstate", respSpec{noState: true, mech: oK, token: mb, hasToken: true}.der(), t, expRefused)
		e.token("resp-negstate-integer", respSpec{state: 1, stateTag: 0x02, mech: oK, token: mb, hasToken: true}.der(), t, expRefused)
		e.token("resp+mic", respSpec{state: 3, mech: oK, token: mb, hasToken: true, mic: []byte{9}}.der(), t, expServed)
		e.token("resp-in-gss-framing", gss(oSP, respSpec{state: 1, mech: oK, token: mb, hasToken: true}.der()), t, expServed)
		e.header("raw-krb5", hdr(mb), t, expServed) // the wrapper serves it; SPNEGOToken.Unmarshal alone rejects it
		e.accept("raw-krb5", mb, t, expRefused)
		if quick && ei%3 != int(c.Seed%3+3)%3 {
			continue // the wire-only variants below do not depend on the etype: two etypes per quick run
		}
		e.token("bare-neginit", initOf([][]byte{oK}, mb).der(), t, expRefused)
		e.token("gss-oid-krb5-around-neginit", gss(oK, initOf([][]byte{oK}, mb).der()), t, expRefused)
		e.token("gss-oid-ntlm", gss(oNT, initOf([][]byte{oK}, mb).der()), t, expRefused)
		e.token("gss-oid-nonminimal", gss(oidTLV(arcsSPNEGO, 2), initOf([][]byte{oK}, mb).der()), t, expServed)
		e.token("mechlist-oid-nonminimal", spnegoInit(initOf([][]byte{oidTLV(arcsKRB5, 1)}, mb)), t, expServed)
		e.token("mech-oid-nonminimal", spnegoInit(initOf([][]byte{oK}, gss(oidTLV(arcsKRB5, 3), []byte{1, 0}, t.wire))), t, expServed)
		e.token("mech-oid-too-long", spnegoInit(initOf([][]byte{oK}, gss(oidTLV(arcsKRB5, 4), []byte{1, 0}, t.wire))), t, expRefused)
		e.token("mech-oid-mskrb5", spnegoInit(initOf([][]byte{oK}, gss(oMS, []byte{1, 0}, t.wire))), t, expRefused)
		e.token("mech-oid-spnego", spnegoInit(initOf([][]byte{oK}, gss(oSP, []byte{1, 0}, t.wire))), t, expRefused)
		e.token("mech-unframed", spnegoInit(initOf([][]byte{oK}, cat([]byte{1, 0}, t.wire))), t, expRefused)
		e.token("mech-apreq-only", spnegoInit(initOf([][]byte{oK}, t.wire)), t, expRefused)
		// the identifier of the CHOICE alternative: only its tag number is read
		for _, id := range []byte{0x60, 0x80, 0x00, 0x20, 0xe0} {
			sp := initOf([][]byte{oK}, mb)
			sp.outerID = id
			e.token(fmt.Sprintf("init-choice-id-%02x", id), spnegoInit(sp), t, expServed)
		}
		for _, id := range []byte{0x81, 0x01, 0x61} {
			e.token(fmt.Sprintf("resp-choice-id-%02x-in-gss", id), gss(oSP, respSpec{outerID: id, state: 1, mech: oK, token: mb, hasToken: true}.der()), t, expServed)
			e.token(fmt.Sprintf("resp-choice-id-%02x-bare", id), respSpec{outerID: id, state: 1, mech: oK, token: mb, hasToken: true}.der(), t, expRefused)
		}
		for _, id := range []byte{0xa2, 0xbf} {
			sp := initOf([][]byte{oK}, mb)
			sp.outerID = id
			e.token(fmt.Sprintf("choice-id-%02x", id), spnegoInit(sp), t, expRefused)
		}
		// token id variants around the same AP-REQ octets
		e.token("tokid-0200-apreq-body", spnegoInit(initOf([][]byte{oK}, krb5Mech([]byte{2, 0}, t.wire))), t, expRefused)
		e.token("tokid-0300-apreq-body", spnegoInit(initOf([][]byte{oK}, krb5Mech([]byte{3, 0}, t.wire))), t, expRefused)
		e.token("tokid-0001", spnegoInit(initOf([][]byte{oK}, krb5Mech([]byte{0, 1}, t.wire))), t, expRefused)
		e.token("tokid-0101", spnegoInit(initOf([][]byte{oK}, krb5Mech([]byte{1, 1}, t.wire))), t, expRefused)
		e.token("tokid-missing", spnegoInit(initOf([][]byte{oK}, gss(oK, t.wire))), t, expRefused)
		e.token("tokid-one-octet", spnegoInit(initOf([][]byte{oK}, gss(oK, []byte{1}))), t, expRefused)
		// trailing garbage at every layer
		g := []byte{0xde, 0xad, 0xbe, 0xef}
		e.token("garbage-after-token", cat(spnegoInit(initOf([][]byte{oK}, mb)), g), t, expServed)
		e.token("garbage-after-token+/", cat(spnegoInit(initOf([][]byte{oK}, mb)), []byte{0xfb, 0xff, 0xbf}), t, expServed)
		e.token("garbage-in-gss-wrapper", gss(oSP, initOf([][]byte{oK}, mb).der(), g), t, expServed)
		sp := initOf([][]byte{oK}, mb)
		sp.afterSeq = g
		e.token("garbage-in-choice-wrapper", spnegoInit(sp), t, expServed)
		sp = initOf([][]byte{oK}, mb)
		sp.inSeq = g
		e.token("garbage-in-sequence", spnegoInit(sp), t, expAny)
		sp = initOf([][]byte{oK}, mb)
		sp.inMechs = []byte{0, 0}
		e.token("garbage-in-mechtypes-wrapper", spnegoInit(sp), t, expAny)
		e.token("garbage-in-mechlist", spnegoInit(initOf([][]byte{oK, g}, mb)), t, expRefused)
		e.token("garbage-after-apreq", spnegoInit(initOf([][]byte{oK}, krb5Mech([]byte{1, 0}, cat(t.wire, g)))), t, expServed)
		e.token("garbage-after-mech", spnegoInit(initOf([][]byte{oK}, cat(mb, g))), t, expServed)
		e.token("garbage-after-resp", cat(respSpec{state: 1, mech: oK, token: mb, hasToken: true}.der(), g), t, expServed)
		e.header("garbage-after-raw", hdr(cat(mb, g)), t, expServed)
	}

	// ---- B. every catalogue defect of the AP-REQ, in the three framings ----
	for di := range e.dcat {
		for k, et := range allEtypes {
			if quick && (di+k)%3 != 0 {
				continue
			}
			t := e.mintTok(et, []int{di}, nil)
			mb := apreqMech(t)
			c.Count("defect:" + e.dcat[di].name)
			switch (di + k) % 3 {
			case 0:
				e.token("defect/init", spnegoInit(initOf([][]byte{oK}, mb)), t, servedIf(t))
			case 1:
				e.header("defect/raw", hdr(mb), t, servedIf(t))
			default:
				e.token("defect/resp", respSpec{state: 1, mech: oK, token: mb, hasToken: true}.der(), t, servedIf(t))
			}
		}
	}

	// ---- C. tokens without an AP-REQ ----
	now := time.Now().UTC()
	kv := int64(3)
	aprep := app(15, seq(ctx(0, dInt(5)), ctx(1, dInt(15)), ctx(2, encDataSpec{etype: 18, kvno: &kv, cipher: []byte{1, 2, 3, 4, 5, 6, 7, 8}}.der())))
	aprepBadType := app(15, seq(ctx(0, dInt(5)), ctx(1, dInt(14)), ctx(2, encDataSpec{etype: 18, cipher: []byte{1, 2, 3}}.der())))
	ke := messages.NewKRBError(types.PrincipalName{NameType: 2, NameString: s.sname}, s.realm, 41, "error")
	krberr, _ := ke.Marshal()
	sn := pnameSpec{ntype: 2, names: s.sname}
	krberrMin := app(30, seq(ctx(0, dInt(5)), ctx(1, dInt(30)), ctx(4, dGenTime(now)), ctx(5, dInt(7)), ctx(6, dInt(60)), ctx(9, dStr(0x1b, s.realm)), ctx(10, sn.der())))
	krberrFull := app(30, seq(ctx(0, dInt(5)), ctx(1, dInt(30)), ctx(2, dGenTime(now)), ctx(3, dInt(1)), ctx(4, dGenTime(now)), ctx(5, dInt(7)), ctx(6, dInt(60)),
		ctx(7, dStr(0x1b, "C.REALM")), ctx(8, pnameSpec{ntype: 1, names: []string{"u"}}.der()), ctx(9, dStr(0x1b, s.realm)), ctx(10, sn.der()), ctx(11, dStr(0x1b, "text")), ctx(12, dOct([]byte{1, 2}))))
	krberrBadType := app(30, seq(ctx(0, dInt(5)), ctx(1, dInt(31)), ctx(4, dGenTime(now)), ctx(5, dInt(7)), ctx(6, dInt(60)), ctx(9, dStr(0x1b, s.realm)), ctx(10, sn.der())))
	krberrNoRealm := app(30, seq(ctx(0, dInt(5)), ctx(1, dInt(30)), ctx(4, dGenTime(now)), ctx(5, dInt(7)), ctx(6, dInt(60)), ctx(10, sn.der())))
	nonAP := []struct {
		name string
		mb   []byte
	}{
		{"ap-rep", krb5Mech([]byte{2, 0}, aprep)},
		{"ap-rep-wrong-msgtype", krb5Mech([]byte{2, 0}, aprepBadType)},
		{"ap-rep-under-apreq-tokid", krb5Mech([]byte{1, 0}, aprep)},
		{"krb-error", krb5Mech([]byte{3, 0}, krberr)},
		{"krb-error-minimal", krb5Mech([]byte{3, 0}, krberrMin)},
		{"krb-error-full", krb5Mech([]byte{3, 0}, krberrFull)},
		{"krb-error-wrong-msgtype", krb5Mech([]byte{3, 0}, krberrBadType)},
		{"krb-error-no-realm", krb5Mech([]byte{3, 0}, krberrNoRealm)},
		{"krb-error-under-apreq-tokid", krb5Mech([]byte{1, 0}, krberr)},
		{"unknown-tokid", krb5Mech([]byte{9, 9}, []byte{1, 2, 3})},
		{"unknown-tokid-empty-body", krb5Mech([]byte{4, 0}, nil)},
		{"garbage-mechtoken", []byte{0x60, 0x03, 0x01, 0x02, 0x03}},
		{"bad-apreq-bytes", krb5Mech([]byte{1, 0}, []byte{0x6e, 0x03, 0x30, 0x01, 0x00})},
		{"empty-mechtoken", []byte{}},
	}
	for _, na := range nonAP {
		e.decodeMech(na.mb)
		e.token("no-apreq/init:"+na.name, spnegoInit(initOf([][]byte{oK}, na.mb)), nil, expRefused)
		e.token("no-apreq/init-ms:"+na.name, spnegoInit(initOf([][]byte{oMS, oK}, na.mb)), nil, expRefused)
		e.token("no-apreq/resp:"+na.name, respSpec{state: 1, mech: oK, token: na.mb, hasToken: true}.der(), nil, expRefused)
		e.token("no-apreq/raw:"+na.name, na.mb, nil, expRefused)
	}
	for _, ml := range [][][]byte{{oK}, {oMS, oK}, {oNT}, {oNT, oK}, {}} {
		e.token("no-mechtoken/init", spnegoInit(initSpec{mechs: ml}), nil, expRefused)
	}
	for _, m := range [][]byte{oK, oMS, oNT, nil} {
		e.token("no-mechtoken/resp", respSpec{state: 1, mech: m}.der(), nil, expRefused)
	}

	// ---- D. lengths: non-minimal, indefinite, altered wrapper lengths ----
	{
		t := e.mintTok(18, nil, nil)
		mb := apreqMech(t)
		inner := initOf([][]byte{oK}, mb).der()
		body := cat(oSP, inner)
		long := func(n int, octets int) []byte { // length n in the long form with the given number of octets
			o := []byte{0x80 | byte(octets)}
			for i := octets - 1; i >= 0; i-- {
				o = append(o, byte(n>>(8*uint(i))))
			}
			return o
		}
		e.token("len-nonminimal-leading-zero", cat([]byte{0x60}, long(len(body), 3), body), t, expRefused)
		e.token("len-five-octets", cat([]byte{0x60}, long(len(body), 5), body), t, expRefused)
		e.token("len-indefinite", cat([]byte{0x60, 0x80}, body, []byte{0, 0}), t, expRefused)
		e.token("len-long-form-below-128", cat([]byte{0x60, 0x81, 0x05}, body), t, expRefused)
		e.token("len-gss-wrapper-short", cat([]byte{0x60, 0x01}, body), t, expServed) // the wrapper's length is not compared
		e.token("len-gss-wrapper-huge", cat([]byte{0x60, 0x84, 0x7f, 0xff, 0xff, 0xff}, body), t, expServed)
		e.token("len-gss-wrapper-2^31", cat([]byte{0x60, 0x84, 0x80, 0x00, 0x00, 0x00}, body), t, expRefused)
		e.token("len-gss-wrapper-zero", cat([]byte{0x60, 0x00}, body), t, expRefused)
		e.token("gss-wrapper-primitive", cat([]byte{0x40}, derLen(len(body)), body), t, expRefused)
		// the CHOICE wrapper is a RawValue: its length counts
		hl := 2
		if inner[1] >= 0x80 {
			hl = 2 + int(inner[1]&0x7f)
		}
		e.token("len-choice-short", gss(oSP, cat([]byte{0xa0}, derLen(len(inner)-hl-8), inner[hl:])), t, expRefused)
		e.token("len-choice-long", gss(oSP, cat([]byte{0xa0}, derLen(len(inner)-hl+5), inner[hl:])), t, expRefused)
		e.token("len-choice-long-with-garbage", gss(oSP, cat([]byte{0xa0}, derLen(len(inner)-hl+5), inner[hl:], []byte{1, 2, 3, 4, 5})), t, expServed)
		e.token("oid-empty", gss([]byte{0x06, 0x00}, inner), t, expRefused)
		e.token("oid-truncated-arc", gss([]byte{0x06, 0x02, 0x2b, 0x86}, inner), t, expRefused)
		e.token("high-tag-form", cat([]byte{0x7f, 0x00}, derLen(len(body)), body), t, expRefused)
	}

	// ---- E. truncation at every offset, substitution in the cleartext layers ----
	nMut := 2
	step := 7
	if !quick {
		nMut, step = 6, 1
	}
	for i := 0; i < nMut; i++ {
		et := allEtypes[(i*5+1)%len(allEtypes)]
		t := e.mintTok(et, nil, nil)
		mb := apreqMech(t)
		var tok []byte
		switch i % 3 {
		case 0:
			tok = spnegoInit(initSpec{mechs: [][]byte{oMS, oK}, flags: tlv(0x03, []byte{0, 0x40}), token: mb, hasToken: true})
		case 1:
			tok = respSpec{state: 1, mech: oK, token: mb, hasToken: true}.der()
		default:
			tok = mb
		}
		start := c.R.Intn(step)
		for cut := start; cut < len(tok); cut += step {
			e.header("truncated", hdr(tok[:cut]), t, expRefused)
			if cut%5 == 0 {
				e.accept("truncated", tok[:cut], t, expRefused)
			}
		}
		// the framing octets in front of the first ciphertext, every offset
		first := strings.Index(string(tok), string(t.cipher[0]))
		for cut := 0; cut < first && cut < 90; cut++ {
			e.header("truncated-framing", hdr(tok[:cut]), t, expRefused)
		}
		for pos := 0; pos < len(tok); pos++ {
			if inRanges(tok, t.cipher, pos) || (pos >= 100 && (pos+start)%step != 0) {
				continue
			}
			m := append([]byte{}, tok...)
			if c.R.Intn(2) == 0 {
				m[pos] ^= byte(1 << uint(c.R.Intn(8)))
			} else {
				m[pos] = byte(c.R.Intn(256))
			}
			e.header("substituted-cleartext", hdr(m), t, expAny)
			if pos < 100 {
				e.decodeToken(m)
			}
		}
		// a change inside either ciphertext must be refused
		for k := 0; k < 4; k++ {
			ci := t.cipher[k%2]
			off := strings.Index(string(tok), string(ci))
			m := append([]byte{}, tok...)
			m[off+c.R.Intn(len(ci))] ^= byte(1 << uint(c.R.Intn(8)))
			e.header("substituted-ciphertext", hdr(m), t, expRefused)
		}
	}

	// ---- F. base64 and header scheme variants around one valid token each ----
	for i, et := range allEtypes {
		if quick && i%3 != 0 {
			continue
		}
		t := e.mintTok(et, nil, nil)
		tok := spnegoInit(initOf([][]byte{oK}, apreqMech(t)))
		for len(tok)%3 != 1 { // two padding characters
			tok = append(tok, 0xfb)
		}
		b64 := base64.StdEncoding.EncodeToString(tok)
		tok2 := append(append([]byte{}, tok...), 0xff)       // one padding character
		tok3 := append(append([]byte{}, tok...), 0xff, 0xbf) // none; "+/" characters at the end
		b642, b643 := base64.StdEncoding.EncodeToString(tok2), base64.StdEncoding.EncodeToString(tok3)
		wrap := func(s string, every int, sep string) string {
			var sb strings.Builder
			for k := 0; k < len(s); k += every {
				end := k + every
				if end > len(s) {
					end = len(s)
				}
				sb.WriteString(s[k:end])
				sb.WriteString(sep)
			}
			return sb.String()
		}
		n := len(b64)
		type bv struct {
			name  string
			value string
			exp   expect
		}
		vars := []bv{
			{"b64-plain", b64, expServed},
			{"b64-one-pad", b642, expServed},
			{"b64-no-pad-needed", b643, expServed},
			{"b64-missing-padding", strings.TrimRight(b64, "="), expRefused},
			{"b64-missing-one-pad", b64[:n-1], expRefused},
			{"b64-one-pad-missing", b642[:len(b642)-1], expRefused},
			{"b64-extra-padding", b64 + "=", expRefused},
			{"b64-extra-quantum-padding", b643 + "====", expRefused},
			{"b64-newlines-76", wrap(b64, 76, "\r\n"), expServed},
			{"b64-newlines-every-char", wrap(b64[:40], 1, "\n") + b64[40:], expServed},
			{"b64-newline-inside-padding", b64[:n-1] + "\n=", expServed},
			{"b64-newline-before-padding", b64[:n-2] + "\r\n==\n", expServed},
			{"b64-leading-newline", "\n" + b64, expServed},
			{"b64-space-inside", b64[:20] + " " + b64[20:], expRefused},
			{"b64-tab-inside", b64[:20] + "\t" + b64[20:], expRefused},
			{"b64-trailing-space", b64 + " ", expRefused},
			{"b64-data-after-padding", b64 + "QUJD", expRefused},
			{"b64-newline-then-data-after-padding", b64 + "\nQUJD", expRefused},
			{"b64-padding-in-the-middle", b64[:20] + "==" + b64[20:], expRefused},
			{"b64-url-alphabet", strings.NewReplacer("+", "-", "/", "_").Replace(b643), expRefused},
			{"b64-raw-url-alphabet", base64.RawURLEncoding.EncodeToString(tok3), expRefused},
			{"b64-non-alphabet", b64[:30] + "!" + b64[31:], expRefused},
			{"b64-high-octet", b64[:30] + "\xe9" + b64[31:], expRefused},
			{"b64-nul", b64[:30] + "\x00" + b64[31:], expRefused},
			{"b64-unused-bits-set", b64[:n-3] + string("BCDEFGHIJKLMNOP"[c.R.Intn(15)]) + "==", expAny},
			{"b64-unused-bits-set-one-pad", b642[:len(b642)-2] + string("BCD"[c.R.Intn(3)]) + "=", expAny},
			{"b64-twice", b643 + b643, expServed},
			{"b64-of-b64", base64.StdEncoding.EncodeToString([]byte(b64)), expRefused},
		}
		for _, v := range vars {
			e.header(v.name, "Negotiate "+v.value, t, v.exp)
			e.decodeB64(v.value)
		}
		schemes := []bv{
			{"scheme-lowercase", "negotiate " + b64, expRefused},
			{"scheme-uppercase", "NEGOTIATE " + b64, expRefused},
			{"scheme-double-space", "Negotiate  " + b64, expRefused},
			{"scheme-missing-space", "Negotiate" + b64, expRefused},
			{"scheme-tab", "Negotiate\t" + b64, expRefused},
			{"scheme-leading-space", " Negotiate " + b64, expRefused},
			{"scheme-trailing-space-value", "Negotiate " + b64 + " ", expRefused},
			{"scheme-nbsp", "Negotiate " + b64, expRefused},
			{"scheme-prefix", "Negotiat " + b64, expRefused},
			{"scheme-suffix", "Negotiate2 " + b64, expRefused},
			{"scheme-colon", "Negotiate: " + b64, expRefused},
			{"scheme-basic", "Basic " + b64, expRefused},
			{"scheme-kerberos", "Kerberos " + b64, expRefused},
			{"scheme-ntlm", "NTLM " + b64, expRefused},
			{"scheme-only", "Negotiate", expRefused},
			{"scheme-only-space", "Negotiate ", expRefused},
			{"scheme-value-with-space", "Negotiate " + b64[:40] + " " + b64[40:], expRefused},
			{"scheme-two-values", "Negotiate " + b64 + ", Basic dXNlcjpwYXNz", expRefused},
			{"scheme-newline-after", "Negotiate \n" + b64, expServed},
			{"empty-header", "", expRefused},
			{"space-only", " ", expRefused},
		}
		for _, v := range schemes {
			e.header(v.name, v.value, t, v.exp)
		}
	}
	for _, sx := range []string{"", "=", "==", "====", "Q", "QQ", "QQ=", "QQ==", "QUI=", "QUI", "QUJD", "Q===", "QQ=Q", "Q=Q=", "QU=D", "QUJD=", "QUJD==", "QR==", "QUJ=", "\n", "\r\n\r\n", "QQ=\n=", "QQ==\nQ", "+/+/", "-_-_", "QUJDQQ", "QUJDQQ=", "QUJDQQ=="} {
		e.decodeB64(sx)
		e.header("b64-small", "Negotiate "+sx, nil, expRefused)
	}
	nRand := 60
	if !quick {
		nRand = 600
	}
	alpha := "ABCDEFGHIJKLMNOPQRSTUVWXYZabcdefghijklmnopqrstuvwxyz0123456789+/"
	for i := 0; i < nRand; i++ {
		// random strings over the alphabet, padding, newlines and a few foreign characters
		n := c.R.Intn(24)
		bs := make([]byte, n)
		for k := range bs {
			switch r := c.R.Intn(40); {
			case r < 32:
				bs[k] = alpha[c.R.Intn(64)]
			case r < 35:
				bs[k] = '='
			case r < 37:
				bs[k] = '\n'
			case r < 38:
				bs[k] = '\r'
			default:
				bs[k] = byte(c.R.Intn(256))
			}
		}
		e.decodeB64(string(bs))
		c.Count("b64-random")
	}
	for i := 0; i < nRand/2; i++ {
		b := make([]byte, 1+c.R.Intn(120))
		c.R.Read(b)
		switch c.R.Intn(4) {
		case 0:
			b[0] = 0x60
		case 1:
			b[0] = 0xa1
		}
		e.header("random-octets", hdr(b), nil, expRefused)
		e.decodeToken(b)
		e.decodeMech(b)
	}

	// ---- G. with a session manager (6-element input: session first) ----
	for i, et := range allEtypes {
		if quick && i%2 != 0 {
			continue
		}
		t := e.mintTok(et, nil, nil)
		value := hdr(spnegoInit(initOf([][]byte{oK}, apreqMech(t))))
		mgr := &memSessions{store: map[string][]byte{}}
		in := func(sess jv.V, t0 time.Time, v string) jv.V {
			return jv.L(sess, e.jst, e.jkt, jv.I(t0.UnixNano()/1000), jv.L(), jv.S(v))
		}
		clearReplayCache()
		t0 := time.Now().UTC()
		sv := e.do(&value, mgr, nil)
		c.Case("spnego_serve_bytes", in(jv.L(jv.I(1), jv.I(0)), t0, value), obsServed(sv))
		c.Check(!sv.panicked && sv.called && sv.cookie != nil && sv.user == t.user && sv.domain == t.domain, "a valid token is served and a session is established", "session-not-created", fmt.Sprint(sv.status), nil)
		if sv.cookie != nil {
			bad := "Negotiate !!"
			t1 := time.Now().UTC()
			sv2 := e.do(&bad, mgr, sv.cookie)
			c.Case("spnego_serve_bytes", in(jv.L(jv.I(2), jv.S(t.user), jv.S(t.domain), jv.I(1)), t1, bad), obsServed(sv2))
			c.Check(!sv2.panicked && sv2.called && sv2.user == t.user && sv2.domain == t.domain, "a request of the established session is served with the accepted identity", "session-identity", "", nil)
			sv3 := e.do(&bad, mgr, &http.Cookie{Name: "sess", Value: "s999"})
			c.Case("spnego_serve_bytes", in(jv.L(jv.I(1), jv.I(0)), t1, bad), obsServed(sv3))
			c.Check(!sv3.panicked && !sv3.called && sv3.status == 401, "an unknown session with an undecodable header is not served", "forged-session-served", "", nil)
		}
		clearReplayCache()
		failing := &memSessions{store: map[string][]byte{}, failsNew: true}
		t2 := time.Now().UTC()
		sv4 := e.do(&value, failing, nil)
		c.Case("spnego_serve_bytes", in(jv.L(jv.I(1), jv.I(1)), t2, value), obsServed(sv4))
		c.Check(!sv4.panicked && !sv4.called && sv4.status >= 500, "a failing session store yields 5xx and the handler is not reached", "store-failure", fmt.Sprint(sv4.status), nil)
		c.Count("session-sequence")
	}
}
