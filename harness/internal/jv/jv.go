// Package jv renders the universal value type shared with the Coq model (lib/JV.v) as text:
// i<decimal> | x<hex> | ( v v ... )
package jv

import (
	"encoding/hex"
	"strconv"
	"strings"
)

type V string

func (v V) String() string { return string(v) }

func I(n int64) V  { return V("i" + strconv.FormatInt(n, 10)) }
func B(b []byte) V { return V("x" + hex.EncodeToString(b)) }
func S(s string) V { return B([]byte(s)) }
func Bool(b bool) V {
	if b {
		return I(1)
	}
	return I(0)
}
func L(vs ...V) V {
	var sb strings.Builder
	sb.WriteString("(")
	for _, v := range vs {
		sb.WriteString(" ")
		sb.WriteString(string(v))
	}
	sb.WriteString(" )")
	return V(sb.String())
}
func Strs(ss []string) V {
	vs := make([]V, len(ss))
	for i, s := range ss {
		vs[i] = S(s)
	}
	return L(vs...)
}
func Ok(vs ...V) V { return L(append([]V{I(0)}, vs...)...) }
func Err() V       { return L(I(-1)) }
func Panic() V     { return L(I(-2)) }
