package asn1proj

// The WIRE VIEW: the small hand-written table that says how gokrb5's Marshal methods compose the bytes they
// put on the wire out of the structs gofork marshals by reflection.  Everything else — tags, OPTIONAL,
// string and time kinds, field order — is read from the struct tags.  The table states
//
//   - which struct's tags define the SEQUENCE (for AP-REQ, KDC-REQ, KDC-REQ-BODY, KDC-REP, NegTokenInit and
//     NegTokenResp that is the unexported marshal* shadow struct, reached through the verif-tagged export
//     VerifShadowTypes);
//   - the [APPLICATION n] wrapper added by hand with asn1tools.AddASNAppTag;
//   - which message fills each asn1.RawValue field (Ref): the Ticket in AP-REQ and KDC-REP, the request body
//     of KDC-REQ, the additional tickets of KDC-REQ-BODY.  A RawValue with `explicit,tag:n` is written by the
//     code as context tag n around the referenced message's bytes;
//   - which struct fields are NOT wire fields (Skip): Ticket.DecryptedEncPart, KRBPriv.DecryptedEncPart.
//     Being explicit, this is where "the decrypted part must never be encoded" is stated.
//
// The table is checked in both directions on every run: the Coq model encodes the projected value along the
// composed schema and must reproduce Go's bytes, and conform/ConfSchemas.v compares the composed schemas
// with the RFC modules.

import (
	"fmt"
	"reflect"
	"sort"

	"github.com/jcmturner/gokrb5/v8/kadmin"
	"github.com/jcmturner/gokrb5/v8/messages"
	"github.com/jcmturner/gokrb5/v8/spnego"
	"github.com/jcmturner/gokrb5/v8/types"
)

// FieldView overrides one struct field.
type FieldView struct {
	Skip  bool   // not a wire field
	Ref   string // the field (an asn1.RawValue in the marshalled struct) holds the encoding of this entry
	SeqOf bool   // ... a SEQUENCE OF them
}

// Entry is one row of the wire view.
type Entry struct {
	Def    string       // Coq definition gen_<Def>; unique
	RFC    string       // name in rfc_schemas ("" = nested helper without an RFC name of its own)
	Go     reflect.Type // the Go type whose struct tags define the schema (nil when Base is set)
	Base   string       // Def of another entry that this one wraps
	App    int          // [APPLICATION App] wrapper, -1 = none
	Fields map[string]FieldView
	// Plain: the entry stands for its Go type wherever that type occurs as a field or element (no wrapper, no
	// override): nested definitions such as PrincipalName.
	Plain bool
}

func shadow(m map[string]reflect.Type, name string) reflect.Type {
	t, ok := m[name]
	if !ok {
		panic("wire view: shadow struct " + name + " is not exported by VerifShadowTypes")
	}
	return t
}

// Table returns the wire view in dependency order (an entry refers only to earlier ones).
func Table() []Entry {
	ms := messages.VerifShadowTypes()
	ss := spnego.VerifShadowTypes()
	rt := func(v interface{}) reflect.Type { return reflect.TypeOf(v) }
	plain := func(def, rfc string, v interface{}) Entry {
		return Entry{Def: def, RFC: rfc, Go: rt(v), App: -1, Plain: true}
	}
	return []Entry{
		// ---- RFC 4120 5.2 basic types (plain reflective schemas) ----
		plain("PrincipalName", "PrincipalName", types.PrincipalName{}),
		plain("HostAddress", "HostAddress", types.HostAddress{}),
		plain("HostAddresses", "HostAddresses", types.HostAddresses{}),
		plain("AuthorizationDataEntry", "", types.AuthorizationDataEntry{}),
		plain("AuthorizationData", "AuthorizationData", types.AuthorizationData{}),
		plain("PAData", "PA-DATA", types.PAData{}),
		plain("PADataSequence", "", types.PADataSequence{}),
		plain("EncryptedData", "EncryptedData", types.EncryptedData{}),
		plain("EncryptionKey", "EncryptionKey", types.EncryptionKey{}),
		plain("Checksum", "Checksum", types.Checksum{}),
		plain("TransitedEncoding", "TransitedEncoding", messages.TransitedEncoding{}),
		plain("LastReqEntry", "", messages.LastReq{}),
		plain("LastReq", "LastReq", []messages.LastReq{}),
		plain("ETypeInfoEntry", "ETYPE-INFO-ENTRY", types.ETypeInfoEntry{}),
		plain("ETypeInfo2Entry", "ETYPE-INFO2-ENTRY", types.ETypeInfo2Entry{}),
		plain("PAEncTSEnc", "PA-ENC-TS-ENC", types.PAEncTSEnc{}),
		// ---- tickets ----
		{Def: "Ticket", RFC: "Ticket", Go: rt(messages.Ticket{}), App: 1,
			Fields: map[string]FieldView{"DecryptedEncPart": {Skip: true}}},
		{Def: "EncTicketPart", RFC: "EncTicketPart", Go: rt(messages.EncTicketPart{}), App: 3},
		{Def: "Authenticator", RFC: "Authenticator", Go: rt(types.Authenticator{}), App: 2},
		// ---- KDC-REQ ----
		{Def: "KDCReqBody", RFC: "KDC-REQ-BODY", Go: shadow(ms, "marshalKDCReqBody"), App: -1,
			Fields: map[string]FieldView{"AdditionalTickets": {Ref: "Ticket", SeqOf: true}}},
		{Def: "KDCReq", RFC: "", Go: shadow(ms, "marshalKDCReq"), App: -1,
			Fields: map[string]FieldView{"ReqBody": {Ref: "KDCReqBody"}}},
		{Def: "ASReq", RFC: "AS-REQ", Base: "KDCReq", App: 10},
		{Def: "TGSReq", RFC: "TGS-REQ", Base: "KDCReq", App: 12},
		// ---- KDC-REP ----
		{Def: "KDCRep", RFC: "", Go: shadow(ms, "marshalKDCRep"), App: -1,
			Fields: map[string]FieldView{"Ticket": {Ref: "Ticket"}}},
		{Def: "ASRep", RFC: "AS-REP", Base: "KDCRep", App: 11},
		{Def: "TGSRep", RFC: "TGS-REP", Base: "KDCRep", App: 13},
		{Def: "EncKDCRepPart", RFC: "", Go: rt(messages.EncKDCRepPart{}), App: -1},
		// EncKDCRepPart.Marshal always writes [APPLICATION 25], also for a TGS-REP (see the C13 notes)
		{Def: "EncASRepPart", RFC: "EncASRepPart", Base: "EncKDCRepPart", App: 25},
		// ---- AP exchange ----
		{Def: "APReq", RFC: "AP-REQ", Go: shadow(ms, "marshalAPReq"), App: 14,
			Fields: map[string]FieldView{"Ticket": {Ref: "Ticket"}}},
		{Def: "APRep", RFC: "AP-REP", Go: rt(messages.APRep{}), App: 15},                     // decode only
		{Def: "EncAPRepPart", RFC: "EncAPRepPart", Go: rt(messages.EncAPRepPart{}), App: 27}, // decode only
		// ---- KRB-PRIV, KRB-ERROR ----
		{Def: "KRBPriv", RFC: "KRB-PRIV", Go: rt(messages.KRBPriv{}), App: 21,
			Fields: map[string]FieldView{"DecryptedEncPart": {Skip: true}}},
		{Def: "EncKrbPrivPart", RFC: "EncKrbPrivPart", Go: rt(messages.EncKrbPrivPart{}), App: 28},
		{Def: "KRBError", RFC: "KRB-ERROR", Go: rt(messages.KRBError{}), App: 30},
		// ---- RFC 3244 ----
		{Def: "ChangePasswdData", RFC: "ChangePasswdData", Go: rt(kadmin.ChangePasswdData{}), App: -1},
		// ---- RFC 4178 (the CHOICE tag and the GSS framing are in model/Framing.v) ----
		{Def: "NegTokenInit", RFC: "NegTokenInit", Go: shadow(ss, "marshalNegTokenInit"), App: -1},
		{Def: "NegTokenResp", RFC: "NegTokenResp", Go: shadow(ss, "marshalNegTokenResp"), App: -1},
	}
}

// Wire holds the composed schemas.
type Wire struct {
	Entries []Entry
	ByDef   map[string]*Ty
}

// Build composes the schema of every entry of the table.
func Build() (*Wire, error) {
	w := &Wire{Entries: Table(), ByDef: map[string]*Ty{}}
	plainOf := map[reflect.Type]*Ty{}
	for _, e := range w.Entries {
		e := e
		if _, dup := w.ByDef[e.Def]; dup {
			return nil, fmt.Errorf("wire view: duplicate definition %s", e.Def)
		}
		var body *Ty
		if e.Base != "" {
			b, ok := w.ByDef[e.Base]
			if !ok {
				return nil, fmt.Errorf("wire view: %s refers to %s before its definition", e.Def, e.Base)
			}
			body = b
		} else {
			used := map[string]bool{}
			var ferr error
			r := &Resolver{
				Named: func(t reflect.Type) *Ty {
					if t == e.Go {
						return nil // the entry itself
					}
					return plainOf[t]
				},
				Field: func(owner reflect.Type, f reflect.StructField) (bool, *Ty) {
					if owner != e.Go {
						return false, nil
					}
					fv, ok := e.Fields[f.Name]
					if !ok {
						return false, nil
					}
					used[f.Name] = true
					if fv.Skip {
						return true, nil
					}
					ref, ok := w.ByDef[fv.Ref]
					if !ok {
						ferr = fmt.Errorf("wire view: %s.%s refers to %s before its definition", e.Def, f.Name, fv.Ref)
						return false, nil
					}
					if fv.SeqOf {
						return false, &Ty{K: KSeqOf, Elem: ref}
					}
					return false, ref
				},
			}
			t, err := bodyType(e.Go, params{tag: -1}, r)
			if err != nil {
				return nil, fmt.Errorf("wire view: %s: %v", e.Def, err)
			}
			if ferr != nil {
				return nil, ferr
			}
			for name := range e.Fields {
				if !used[name] {
					return nil, fmt.Errorf("wire view: %s overrides field %s which %v does not have", e.Def, name, e.Go)
				}
			}
			body = t
		}
		ty := body
		if e.App >= 0 {
			ty = &Ty{K: KApp, App: e.App, Elem: body}
		} else if e.Base != "" {
			return nil, fmt.Errorf("wire view: %s: a Base entry needs an APPLICATION tag", e.Def)
		}
		if ty.Def != "" {
			// a plain entry resolved to another named definition (cannot happen with the table above)
			return nil, fmt.Errorf("wire view: %s is the same node as %s", e.Def, ty.Def)
		}
		ty.Def = e.Def
		w.ByDef[e.Def] = ty
		if e.Plain {
			plainOf[e.Go] = ty
		}
	}
	return w, nil
}

// Get returns the composed schema of definition def.
func (w *Wire) Get(def string) *Ty {
	t, ok := w.ByDef[def]
	if !ok {
		panic("wire view: no definition " + def)
	}
	return t
}

// RFCNames lists the (RFC name, definition) pairs in table order.
func (w *Wire) RFCNames() [][2]string {
	var out [][2]string
	for _, e := range w.Entries {
		if e.RFC != "" {
			out = append(out, [2]string{e.RFC, e.Def})
		}
	}
	return out
}

// Defs lists every definition name, sorted (used by self-checks).
func (w *Wire) Defs() []string {
	var out []string
	for d := range w.ByDef {
		out = append(out, d)
	}
	sort.Strings(out)
	return out
}
