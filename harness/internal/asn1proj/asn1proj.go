// Package asn1proj projects Go types and values to the untyped ASN.1 schemas and values of the Coq model
// (coq/model/Schema.v) following the SAME rules github.com/jcmturner/gofork/encoding/asn1 uses when it
// marshals: struct tags explicit / tag:N / optional / omitempty / generalstring / generalized /
// application; fields in declaration order; slices are SEQUENCE OF (string and time parameters are inherited
// by the elements, the explicit tag is not); asn1.BitString, asn1.ObjectIdentifier, asn1.Enumerated,
// asn1.RawValue, time.Time, []byte, string, the signed integer kinds, bool; an `optional` field whose value
// is reflect.DeepEqual to the zero value of its type is ABSENT, and so is an empty slice with `omitempty`.
//
// What `ty` cannot express is refused with an error rather than approximated: IMPLICIT tags, UTCTime,
// PrintableString / IA5String / UTF8String, SET, default values, *big.Int, unexported fields.
package asn1proj

import (
	"fmt"
	"reflect"
	"strconv"
	"strings"
	"time"

	"github.com/jcmturner/gofork/encoding/asn1"
	"verif/harness/internal/jv"
)

type Kind int

// The numbering is the jv numbering of Schema.v.
const (
	KInt Kind = iota
	KOctets
	KGenStr
	KGenTime
	KBits
	KOid
	KEnum
	KBool
	KSeq
	KSeqOf
	KApp
	KRaw
)

var kindCoq = [...]string{"TInt", "TOctets", "TGenStr", "TGenTime", "TBits", "TOid", "TEnum", "TBool", "TSeq", "TSeqOf", "TApp", "TRaw"}

// Field is one SEQUENCE component.
type Field struct {
	Name      string // Go field name: values are projected by looking the field up by this name
	Tag       int    // explicit context tag, -1 = untagged
	Opt       bool
	OmitEmpty bool
	T         *Ty
}

// Ty mirrors the Coq inductive `ty`.
type Ty struct {
	K      Kind
	Fields []Field // KSeq
	Elem   *Ty     // KSeqOf, KApp
	App    int     // KApp
	Def    string  // non-empty: this node is the named definition gen_<Def> (the generator emits a reference)
}

type params struct {
	optional, explicit, application, omitEmpty, generalString, generalized bool
	tag                                                                    int // -1 = none
	unsupported                                                            string
}

// parseParams reads a gofork struct tag the way common.go:parseFieldParameters does.
func parseParams(s string) params {
	p := params{tag: -1}
	for _, part := range strings.Split(s, ",") {
		switch {
		case part == "":
		case part == "optional":
			p.optional = true
		case part == "explicit":
			p.explicit = true
		case part == "application":
			p.application = true
		case part == "omitempty":
			p.omitEmpty = true
		case part == "generalstring":
			p.generalString = true
		case part == "generalized":
			p.generalized = true
		case strings.HasPrefix(part, "tag:"):
			n, err := strconv.Atoi(part[4:])
			if err == nil {
				p.tag = n
			}
		case part == "ia5", part == "printable", part == "utf8", part == "utc", part == "set", strings.HasPrefix(part, "default:"):
			p.unsupported = part
		}
		// unknown parts are ignored, as gofork does
	}
	return p
}

var (
	rawValueType   = reflect.TypeOf(asn1.RawValue{})
	bitStringType  = reflect.TypeOf(asn1.BitString{})
	oidType        = reflect.TypeOf(asn1.ObjectIdentifier{})
	enumeratedType = reflect.TypeOf(asn1.Enumerated(0))
	timeType       = reflect.TypeOf(time.Time{})
)

// Resolver lets a caller substitute named definitions for Go types (nested named schemas) and override
// single struct fields (the wire view).  Both may be nil.
type Resolver struct {
	// Named returns the named definition standing for the Go type t when it is marshalled by the plain
	// reflective rules, or nil.
	Named func(t reflect.Type) *Ty
	// Field is consulted for every struct field; skip = not a wire field; over != nil replaces the field's
	// type (tag and optional are still taken from the struct tag).
	Field func(owner reflect.Type, f reflect.StructField) (skip bool, over *Ty)
}

// TypeOf is the schema gofork's Marshal follows for a value of Go type t marshalled with parameter string
// ps (a struct tag, or the parameter string given to UnmarshalWithParams for the outermost value).
func TypeOf(t reflect.Type, ps string, r *Resolver) (*Ty, error) {
	p := parseParams(ps)
	inner, err := bodyType(t, p, r)
	if err != nil {
		return nil, err
	}
	if p.tag >= 0 || p.explicit || p.application {
		if !(p.application && p.explicit && p.tag >= 0) {
			return nil, fmt.Errorf("%v: top-level parameters %q: only application,explicit,tag:N is expressible", t, ps)
		}
		return &Ty{K: KApp, App: p.tag, Elem: inner}, nil
	}
	return inner, nil
}

// bodyType: the universal type of a value of Go type t under parameters p (marshalField up to the tag).
func bodyType(t reflect.Type, p params, r *Resolver) (*Ty, error) {
	if p.unsupported != "" {
		return nil, fmt.Errorf("%v: parameter %q is not expressible in ty", t, p.unsupported)
	}
	if r != nil && r.Named != nil {
		if d := r.Named(t); d != nil {
			return d, nil
		}
	}
	switch t {
	case rawValueType:
		return &Ty{K: KRaw}, nil
	case bitStringType:
		return &Ty{K: KBits}, nil
	case oidType:
		return &Ty{K: KOid}, nil
	case enumeratedType:
		return &Ty{K: KEnum}, nil
	case timeType:
		if !p.generalized {
			return nil, fmt.Errorf("time.Time without `generalized` is UTCTime (or GeneralizedTime by year): not expressible")
		}
		return &Ty{K: KGenTime}, nil
	}
	if p.generalized {
		return nil, fmt.Errorf("%v: explicit time type given to non-time member", t)
	}
	switch t.Kind() {
	case reflect.Bool:
		return &Ty{K: KBool}, nil
	case reflect.Int, reflect.Int8, reflect.Int16, reflect.Int32, reflect.Int64:
		return &Ty{K: KInt}, nil
	case reflect.String:
		if !p.generalString {
			return nil, fmt.Errorf("string without `generalstring` is PrintableString/UTF8String: not expressible")
		}
		return &Ty{K: KGenStr}, nil
	case reflect.Slice:
		if t.Elem().Kind() == reflect.Uint8 {
			if p.generalString {
				return nil, fmt.Errorf("%v: explicit string type given to non-string member", t)
			}
			return &Ty{K: KOctets}, nil
		}
		if strings.HasSuffix(t.Name(), "SET") {
			return nil, fmt.Errorf("%v: SET OF is not expressible", t)
		}
		if p.generalString && t.Elem().Kind() != reflect.String {
			return nil, fmt.Errorf("%v: explicit string type given to non-string member", t)
		}
		// element parameters: inherited, with explicit and tag dropped (jtasn1 change in marshalBody)
		ep := p
		ep.explicit, ep.tag, ep.application = false, -1, false
		e, err := bodyType(t.Elem(), ep, r)
		if err != nil {
			return nil, err
		}
		return &Ty{K: KSeqOf, Elem: e}, nil
	case reflect.Struct:
		if p.generalString {
			return nil, fmt.Errorf("%v: explicit string type given to non-string member", t)
		}
		s := &Ty{K: KSeq}
		for i := 0; i < t.NumField(); i++ {
			sf := t.Field(i)
			var over *Ty
			if r != nil && r.Field != nil {
				skip, o := r.Field(t, sf)
				if skip {
					continue
				}
				over = o
			}
			if sf.PkgPath != "" {
				return nil, fmt.Errorf("%v.%s: unexported field", t, sf.Name)
			}
			fp := parseParams(sf.Tag.Get("asn1"))
			if fp.application {
				return nil, fmt.Errorf("%v.%s: APPLICATION tag on a field is not expressible", t, sf.Name)
			}
			if fp.tag >= 0 && !fp.explicit {
				return nil, fmt.Errorf("%v.%s: IMPLICIT tag is not expressible", t, sf.Name)
			}
			if fp.explicit && fp.tag < 0 {
				fp.tag = 0 // gofork: `explicit` alone allocates tag 0
			}
			var ft *Ty
			var err error
			switch {
			case over != nil:
				ft = over
			case sf.Type == rawValueType:
				// gofork writes a RawValue verbatim and IGNORES the field's tag parameters when marshalling:
				// the RawValue carries its own identifier.
				ft = &Ty{K: KRaw}
				fp.tag = -1
			default:
				ft, err = bodyType(sf.Type, fp, r)
				if err != nil {
					return nil, fmt.Errorf("%v.%s: %v", t, sf.Name, err)
				}
			}
			s.Fields = append(s.Fields, Field{Name: sf.Name, Tag: fp.tag, Opt: fp.optional, OmitEmpty: fp.omitEmpty, T: ft})
		}
		return s, nil
	}
	return nil, fmt.Errorf("unknown Go type %v", t)
}

// SchemaOf is TypeOf rendered in the jv form of `ty` documented in Schema.v.
func SchemaOf(t reflect.Type, ps string) (jv.V, error) {
	ty, err := TypeOf(t, ps, nil)
	if err != nil {
		return "", err
	}
	return ty.JV(), nil
}

// JV renders a schema:  (i0) .. (i7) | (i8 ( (itag iopt ty) ... )) | (i9 ty) | (i10 in ty) | (i11)
func (t *Ty) JV() jv.V {
	switch t.K {
	case KSeq:
		fs := make([]jv.V, len(t.Fields))
		for i, f := range t.Fields {
			fs[i] = jv.L(jv.I(int64(f.Tag)), jv.Bool(f.Opt), f.T.JV())
		}
		return jv.L(jv.I(int64(KSeq)), jv.L(fs...))
	case KSeqOf:
		return jv.L(jv.I(int64(KSeqOf)), t.Elem.JV())
	case KApp:
		return jv.L(jv.I(int64(KApp)), jv.I(int64(t.App)), t.Elem.JV())
	}
	return jv.L(jv.I(int64(t.K)))
}

// Coq renders a schema as a Gallina term; named definitions are referenced unless top is true for this node.
func (t *Ty) Coq(top bool) string {
	if t.Def != "" && !top {
		return "gen_" + t.Def
	}
	switch t.K {
	case KSeq:
		var sb strings.Builder
		sb.WriteString("TSeq [")
		for i, f := range t.Fields {
			if i > 0 {
				sb.WriteString("; ")
			}
			tag := "None"
			if f.Tag >= 0 {
				tag = fmt.Sprintf("Some %d", f.Tag)
			}
			fmt.Fprintf(&sb, "(%s, %v, %s)", tag, f.Opt, f.T.Coq(false))
		}
		sb.WriteString("]")
		return sb.String()
	case KSeqOf:
		return "TSeqOf (" + t.Elem.Coq(false) + ")"
	case KApp:
		return fmt.Sprintf("TApp %d (%s)", t.App, t.Elem.Coq(false))
	}
	return kindCoq[t.K]
}

// ---------------------------------------------------------------------------------------------- values

// ValueOf projects v to the jv form of `value` along schema t:
//
//	(i0 iz) (i1 xb) (i2 isecs) (i3 iunused xb) (i4 ( iarc.. )) (i5 ib) (i6 ( f.. )) with f = ( ) | ( v )   (i7 ( v.. ))
//
// SEQUENCE components are looked up in v BY FIELD NAME (promoted fields of embedded structs included), so a
// value of the exported struct (messages.APReq) can be projected along the schema of the shadow struct that
// is actually marshalled (marshalAPReq with its Ticket resolved by the wire view).
//
// gofork passes a field's `optional` / `omitempty` on to the ELEMENTS of a SEQUENCE OF (marshalBody clears only
// explicit and tag), so an element of an OPTIONAL sequence that equals its zero value is not written: such
// elements are left out of the projection too (Inspect reports them).
func ValueOf(v reflect.Value, t *Ty) (jv.V, error) { return valueOf(v, t, Field{}) }

// inh carries the Opt / OmitEmpty parameters inherited by the elements of a SEQUENCE OF.
func valueOf(v reflect.Value, t *Ty, inh Field) (jv.V, error) {
	for v.Kind() == reflect.Ptr || v.Kind() == reflect.Interface {
		if v.IsNil() {
			return "", fmt.Errorf("nil %v", v.Type())
		}
		v = v.Elem()
	}
	switch t.K {
	case KApp:
		return valueOf(v, t.Elem, inh)
	case KInt, KEnum:
		switch v.Kind() {
		case reflect.Int, reflect.Int8, reflect.Int16, reflect.Int32, reflect.Int64:
			return jv.L(jv.I(0), jv.I(v.Int())), nil
		}
	case KBool:
		if v.Kind() == reflect.Bool {
			return jv.L(jv.I(5), jv.Bool(v.Bool())), nil
		}
	case KOctets:
		if v.Kind() == reflect.Slice && v.Type().Elem().Kind() == reflect.Uint8 {
			return jv.L(jv.I(1), jv.B(v.Bytes())), nil
		}
	case KGenStr:
		if v.Kind() == reflect.String {
			return jv.L(jv.I(1), jv.S(v.String())), nil
		}
	case KGenTime:
		if v.Type() == timeType {
			return jv.L(jv.I(2), jv.I(v.Interface().(time.Time).Unix())), nil
		}
	case KBits:
		if v.Type() == bitStringType {
			b := v.Interface().(asn1.BitString)
			return jv.L(jv.I(3), jv.I(int64((8-b.BitLength%8)%8)), jv.B(b.Bytes)), nil
		}
	case KOid:
		if v.Type() == oidType {
			o := v.Interface().(asn1.ObjectIdentifier)
			as := make([]jv.V, len(o))
			for i, a := range o {
				as[i] = jv.I(int64(a))
			}
			return jv.L(jv.I(4), jv.L(as...)), nil
		}
	case KRaw:
		if v.Type() == rawValueType {
			return jv.L(jv.I(1), jv.B(RawBytes(v.Interface().(asn1.RawValue)))), nil
		}
	case KSeqOf:
		if v.Kind() == reflect.Slice {
			var es []jv.V
			for i := 0; i < v.Len(); i++ {
				if Absent(v.Index(i), inh) {
					continue // dropped by gofork
				}
				e, err := valueOf(v.Index(i), t.Elem, inh)
				if err != nil {
					return "", err
				}
				es = append(es, e)
			}
			return jv.L(jv.I(7), jv.L(es...)), nil
		}
	case KSeq:
		if v.Kind() == reflect.Struct {
			fs := make([]jv.V, len(t.Fields))
			for i, f := range t.Fields {
				fv := v.FieldByName(f.Name)
				if !fv.IsValid() {
					return "", fmt.Errorf("%v has no field %s", v.Type(), f.Name)
				}
				if Absent(fv, f) {
					fs[i] = jv.L()
					continue
				}
				e, err := valueOf(fv, f.T, Field{Opt: f.Opt, OmitEmpty: f.OmitEmpty})
				if err != nil {
					return "", fmt.Errorf("%s: %v", f.Name, err)
				}
				fs[i] = jv.L(e)
			}
			return jv.L(jv.I(6), jv.L(fs...)), nil
		}
	}
	return "", fmt.Errorf("cannot project %v along %s", v.Type(), kindCoq[t.K])
}

// Absent is gofork's omission rule (marshal.go:marshalField): an empty slice with omitempty, or an optional
// field that is reflect.DeepEqual to the zero value of its type.
func Absent(fv reflect.Value, f Field) bool {
	if fv.Kind() == reflect.Slice && fv.Len() == 0 && f.OmitEmpty {
		return true
	}
	return f.Opt && reflect.DeepEqual(fv.Interface(), reflect.Zero(fv.Type()).Interface())
}

// Info says what a projection met that the property's clauses exclude or that loses information.
type Info struct {
	// EmptyOptional: an OPTIONAL component present with a zero-length value that gofork nevertheless transmits
	// (a non-nil empty slice): the case the property's re-encoding clause excludes.
	EmptyOptional string
	// DroppedElem: an element of an OPTIONAL SEQUENCE OF that equals its zero value and is therefore not written.
	DroppedElem string
	// NonUTC / SubSecond: a time.Time that is not whole seconds in UTC.
	BadTime string
	// BitLength of a BIT STRING inconsistent with its bytes (not within the last byte)
	BadBits string
}

// Inspect walks v along t the way ValueOf does and fills Info with the first occurrence of each condition.
func Inspect(v reflect.Value, t *Ty) Info {
	var in Info
	inspect(v, t, "", Field{}, &in)
	return in
}

func set(dst *string, path string) {
	if *dst == "" {
		if path == "" {
			path = "."
		}
		*dst = path
	}
}

func inspect(v reflect.Value, t *Ty, path string, inh Field, in *Info) {
	for v.Kind() == reflect.Ptr || v.Kind() == reflect.Interface {
		if v.IsNil() {
			return
		}
		v = v.Elem()
	}
	switch t.K {
	case KApp:
		inspect(v, t.Elem, path, inh, in)
	case KGenTime:
		if v.Type() == timeType {
			tm := v.Interface().(time.Time)
			if _, off := tm.Zone(); off != 0 || tm.Nanosecond() != 0 {
				set(&in.BadTime, path)
			}
		}
	case KBits:
		if v.Type() == bitStringType {
			b := v.Interface().(asn1.BitString)
			if b.BitLength > 8*len(b.Bytes) || b.BitLength <= 8*(len(b.Bytes)-1) && len(b.Bytes) > 0 || b.BitLength < 0 {
				set(&in.BadBits, path)
			}
		}
	case KSeqOf:
		if v.Kind() == reflect.Slice {
			for i := 0; i < v.Len(); i++ {
				if Absent(v.Index(i), inh) {
					set(&in.DroppedElem, fmt.Sprintf("%s[%d]", path, i))
					continue
				}
				inspect(v.Index(i), t.Elem, fmt.Sprintf("%s[%d]", path, i), inh, in)
			}
		}
	case KSeq:
		if v.Kind() != reflect.Struct {
			return
		}
		for _, f := range t.Fields {
			fv := v.FieldByName(f.Name)
			if !fv.IsValid() || Absent(fv, f) {
				continue
			}
			if f.Opt && fv.Kind() == reflect.Slice && fv.Len() == 0 {
				set(&in.EmptyOptional, path+"."+f.Name)
			}
			inspect(fv, f.T, path+"."+f.Name, Field{Opt: f.Opt, OmitEmpty: f.OmitEmpty}, in)
		}
	}
}

// RawBytes is what gofork writes for a RawValue: FullBytes when set, else identifier + length + Bytes.
func RawBytes(rv asn1.RawValue) []byte {
	if len(rv.FullBytes) != 0 {
		return rv.FullBytes
	}
	id := byte(rv.Class<<6) | byte(rv.Tag&0x1f)
	if rv.IsCompound {
		id |= 0x20
	}
	out := []byte{id}
	out = append(out, LenOctets(len(rv.Bytes))...)
	return append(out, rv.Bytes...)
}

// LenOctets: DER definite length (independent of asn1tools and of gofork).
func LenOctets(n int) []byte {
	if n < 128 {
		return []byte{byte(n)}
	}
	var b []byte
	for m := n; m > 0; m >>= 8 {
		b = append([]byte{byte(m)}, b...)
	}
	return append([]byte{0x80 | byte(len(b))}, b...)
}
