// Package kdc is a small RFC 4120 KDC simulator for the verification harness: AS and TGS exchanges for one
// realm (with optional referrals to other simulated realms), pre-authentication policy, short lifetimes, an
// issue log, and tamper hooks that perturb a reply before it is sealed.  It is built from gokrb5's own
// message types and is itself checked by the model acceptors before its output is used as a reference.
package kdc

import (
	"crypto/rand"
	"encoding/binary"
	"fmt"
	"io"
	"net"
	"strings"
	"sync"
	"time"

	"github.com/jcmturner/gofork/encoding/asn1"
	"github.com/jcmturner/gokrb5/v8/asn1tools"
	"github.com/jcmturner/gokrb5/v8/crypto"
	"github.com/jcmturner/gokrb5/v8/messages"
	"github.com/jcmturner/gokrb5/v8/types"
)

type Principal struct {
	Name     []string
	Password string
	Salt     string // "" = default salt
	KVNO     int
	Keys     map[int32]types.EncryptionKey
	S2KIter  uint32 // iteration count announced in ETYPE-INFO2 for AES etypes
}

type Issue struct {
	Kind       string // "AS" or "TGS"
	CName      []string
	SName      []string
	SRealm     string
	TicketHash string
	Key        types.EncryptionKey
	Start, End time.Time
	Renew      time.Time
	Nonce      int
	At         time.Time
}

type Request struct {
	Kind string
	AS   *messages.ASReq
	TGS  *messages.TGSReq
	Raw  []byte
	At   time.Time
}

// Tamper lets a test perturb a reply. It is called with the reply (ASRep or TGSRep fields), the part about to be
// encrypted, and returns the key and usage to seal it with (defaults passed in).
type Tamper func(kind string, rep *messages.KDCRepFields, enc *messages.EncKDCRepPart, key types.EncryptionKey, usage uint32) (types.EncryptionKey, uint32)

type KDC struct {
	Realm             string
	mu                sync.Mutex
	princs            map[string]*Principal
	RequirePreauth    bool
	TicketLifetime    time.Duration
	ServiceLifetime   time.Duration // lifetime of service tickets (0 = TicketLifetime)
	RenewLifetime     time.Duration
	LenientRenewUsage bool            // a renewal request for a SERVICE ticket whose authenticator is under key usage 11 is served (gokrb5 picks the usage by the presented ticket's sname; RFC 4120 7.5.1 says 7: a strict KDC answers BAD_INTEGRITY and the client asks afresh)
	OmitStartTime     bool            // tickets and replies leave the OPTIONAL starttime out (RFC 4120 5.3, 5.4.2: absent = authtime)
	UDPTooBig         bool            // every UDP request is answered KRB_ERR_RESPONSE_TOO_BIG: the client must come back over TCP
	asScript          func(n int) int // see SetASScript
	asSeen, referred  int
	ClockAhead        time.Duration                            // the KDC's clock runs this far ahead of the host's (keep it inside the permitted skew)
	HintOrder         int                                      // with ExtraHints: 0 = INFO2, INFO, PW-SALT; 1 = INFO, INFO2, PW-SALT; 2 = PW-SALT, INFO, INFO2 (the order is not significant)
	ExtraHints        bool                                     // PREAUTH_REQUIRED / FAILED e-data also carries ETYPE-INFO (another etype first) and PW-SALT after ETYPE-INFO2
	Backdate          time.Duration                            // initial tickets carry an authtime/starttime this far in the past
	Referrals         map[string]string                        // service host suffix -> next realm (referral TGT krbtgt/NEXT@Realm)
	CrossKeys         map[string]map[int32]types.EncryptionKey // realm -> keys of krbtgt/realm@Realm
	Issues            []Issue
	Requests          []Request
	Tamper            Tamper
	ErrorCode         int32 // when non-zero every request is answered with this KRB-ERROR
	ReplyOverride     func(req []byte, reply []byte) []byte
	StrictCRealm      bool // compare the authenticator's crealm with the TGT's (RFC 4120 3.2.3)
	udp               *net.UDPConn
	tcp               *net.TCPListener
	Addr              string
}

var AllEtypes = []int32{18, 17, 20, 19, 23, 16}

func New(realm string) *KDC {
	k := &KDC{Realm: realm, princs: map[string]*Principal{}, TicketLifetime: 10 * time.Hour, RenewLifetime: 0,
		Referrals: map[string]string{}, CrossKeys: map[string]map[int32]types.EncryptionKey{}, StrictCRealm: true}
	k.AddPrincipal([]string{"krbtgt", realm}, "krbtgt-secret-"+realm, 4)
	return k
}

func defaultSalt(realm string, name []string) string { return realm + strings.Join(name, "") }

func (k *KDC) AddPrincipal(name []string, password string, kvno int) *Principal {
	p := &Principal{Name: name, Password: password, KVNO: kvno, Keys: map[int32]types.EncryptionKey{}, S2KIter: 4}
	for _, et := range AllEtypes {
		e, _ := crypto.GetEtype(et)
		params := e.GetDefaultStringToKeyParams()
		if params != "" {
			params = fmt.Sprintf("%08x", p.S2KIter)
		}
		kv, err := e.StringToKey(password, defaultSalt(k.Realm, name), params)
		if err != nil {
			panic(err)
		}
		p.Keys[et] = types.EncryptionKey{KeyType: et, KeyValue: kv}
	}
	k.mu.Lock()
	k.princs[strings.Join(name, "/")] = p
	k.mu.Unlock()
	return p
}

// SetErrorCode makes the KDC answer every request with this KRB-ERROR code (0: normal service); safe while serving.
// SetASScript: when f is not nil it decides the answer to the n-th AS-REQ from now on: 0 process it, -1 an undecodable
// reply, 68 a client referral to REFERRED<k>.GOKRB5, any other number that KRB-ERROR (24 and 25 with hints).
func (k *KDC) SetASScript(f func(n int) int) {
	k.mu.Lock()
	k.asScript, k.asSeen, k.referred = f, 0, 0
	k.mu.Unlock()
}

func (k *KDC) now() time.Time { return time.Now().UTC().Add(k.ClockAhead) }

func (k *KDC) SetErrorCode(code int32) {
	k.mu.Lock()
	k.ErrorCode = code
	k.mu.Unlock()
}

func (k *KDC) Principal(name []string) *Principal {
	k.mu.Lock()
	defer k.mu.Unlock()
	return k.princs[strings.Join(name, "/")]
}

// krbErrorWire mirrors KRB-ERROR (RFC 4120 5.9.1) as a KDC sends it: the OPTIONAL ctime, cusec, crealm and cname are left
// out (there is no client timestamp to echo).  Encoded here, not by the library's own KRBError type.
type krbErrorWire struct {
	PVNO      int                 `asn1:"explicit,tag:0"`
	MsgType   int                 `asn1:"explicit,tag:1"`
	STime     time.Time           `asn1:"generalized,explicit,tag:4"`
	Susec     int                 `asn1:"explicit,tag:5"`
	ErrorCode int32               `asn1:"explicit,tag:6"`
	Realm     string              `asn1:"generalstring,explicit,tag:9"`
	SName     types.PrincipalName `asn1:"explicit,tag:10"`
	EText     string              `asn1:"generalstring,optional,explicit,tag:11"`
	EData     []byte              `asn1:"optional,explicit,tag:12"`
}

func krbErr(realm string, sname types.PrincipalName, code int32, edata []byte) []byte {
	if sname.NameString == nil {
		sname.NameString = []string{}
	}
	b, err := asn1.Marshal(krbErrorWire{PVNO: 5, MsgType: 30, STime: time.Now().UTC().Truncate(time.Second), Susec: 7, ErrorCode: code, Realm: realm,
		SName: sname, EText: "simulated KDC", EData: edata})
	if err == nil {
		return asn1tools.AddASNAppTag(b, 30)
	}
	e := messages.NewKRBError(sname, realm, code, "simulated KDC")
	e.EData = edata
	b, _ = e.Marshal()
	return b
}

func randKey(et int32) types.EncryptionKey {
	e, _ := crypto.GetEtype(et)
	n := e.GetKeyByteSize()
	if et == 20 {
		n = 32
	}
	b := make([]byte, n)
	rand.Read(b)
	if et == 16 {
		b = e.RandomToKey(b[:21])
	}
	return types.EncryptionKey{KeyType: et, KeyValue: b}
}

func pickEtype(req []int32, have map[int32]types.EncryptionKey) (int32, bool) {
	for _, et := range req {
		if _, ok := have[et]; ok {
			if _, err := crypto.GetEtype(et); err == nil {
				return et, true
			}
		}
	}
	return 0, false
}

func etypeInfo2(p *Principal, et int32, realm string) []byte {
	e := types.ETypeInfo2Entry{EType: et, Salt: defaultSalt(realm, p.Name)}
	if et == 17 || et == 18 || et == 19 || et == 20 {
		e.S2KParams = make([]byte, 4)
		binary.BigEndian.PutUint32(e.S2KParams, p.S2KIter)
	}
	b, _ := asn1.Marshal(types.ETypeInfo2{e})
	return b
}

func sealTicket(etp messages.EncTicketPart, key types.EncryptionKey, kvno int, realm string, sname types.PrincipalName) (messages.Ticket, error) {
	b, err := asn1.Marshal(etp)
	if err != nil {
		return messages.Ticket{}, err
	}
	b = asn1tools.AddASNAppTag(b, 3)
	ed, err := crypto.GetEncryptedData(b, key, 2, kvno)
	if err != nil {
		return messages.Ticket{}, err
	}
	return messages.Ticket{TktVNO: 5, Realm: realm, SName: sname, EncPart: ed}, nil
}

func (k *KDC) lifetimes(now time.Time, till, rtime time.Time, renewable bool) (end, renew time.Time) {
	end = now.Add(k.TicketLifetime)
	if !till.IsZero() && till.Before(end) && till.After(now) {
		end = till
	}
	end = end.Truncate(time.Second)
	if renewable && k.RenewLifetime > 0 {
		renew = now.Add(k.RenewLifetime)
		if !rtime.IsZero() && rtime.Before(renew) {
			renew = rtime
		}
		renew = renew.Truncate(time.Second)
	}
	return
}

// Handle answers one request.
func (k *KDC) Handle(req []byte) []byte {
	if ok, _ := StrictDER(req); !ok && len(req) > 0 && (req[0] == 0x6a || req[0] == 0x6c) {
		return krbErr(k.Realm, types.PrincipalName{}, 60, nil) // the request itself must be DER with KerberosTime in Z form
	}
	if len(req) < 2 {
		return nil
	}
	var out []byte
	switch req[0] {
	case 0x6a:
		out = k.handleAS(req)
	case 0x6c:
		out = k.handleTGS(req)
	default:
		out = krbErr(k.Realm, types.PrincipalName{}, 60, nil)
	}
	if k.ReplyOverride != nil {
		out = k.ReplyOverride(req, out)
	}
	return out
}

func (k *KDC) handleAS(raw []byte) []byte {
	var req messages.ASReq
	if err := req.Unmarshal(raw); err != nil {
		return krbErr(k.Realm, types.PrincipalName{}, 60, nil)
	}
	k.mu.Lock()
	k.Requests = append(k.Requests, Request{Kind: "AS", AS: &req, Raw: raw, At: time.Now()})
	ec := k.ErrorCode
	if k.asScript != nil {
		ec = int32(k.asScript(k.asSeen))
		k.asSeen++
	}
	k.mu.Unlock()
	sname := req.ReqBody.SName
	if ec == -1 {
		return []byte{0x6b, 0x03, 0x02, 0x01, 0x05} // an AS-REP tag with nothing a client can use inside
	}
	if ec == 68 {
		// client referral (RFC 6806 7): the error names the realm to ask instead
		k.mu.Lock()
		k.referred++
		n := k.referred
		k.mu.Unlock()
		e := messages.NewKRBError(sname, k.Realm, 68, "simulated KDC")
		e.CRealm = fmt.Sprintf("REFERRED%d.GOKRB5", (n-1)%8+1)
		e.CName = req.ReqBody.CName
		b, _ := e.Marshal()
		return b
	}
	if ec != 0 {
		var ed []byte
		if ec == 24 || ec == 25 {
			// a conformant KDC sends METHOD-DATA with these two codes
			if p := k.Principal(req.ReqBody.CName.NameString); p != nil && len(req.ReqBody.EType) > 0 {
				ed, _ = asn1.Marshal(types.PADataSequence{{PADataType: 19, PADataValue: etypeInfo2(p, req.ReqBody.EType[0], k.Realm)}})
			}
		}
		return krbErr(k.Realm, sname, ec, ed)
	}
	cl := k.Principal(req.ReqBody.CName.NameString)
	if cl == nil || req.ReqBody.Realm != k.Realm {
		return krbErr(k.Realm, sname, 6, nil)
	}
	svc := k.Principal(sname.NameString)
	if svc == nil {
		return krbErr(k.Realm, sname, 7, nil)
	}
	et, ok := pickEtype(req.ReqBody.EType, cl.Keys)
	if !ok {
		return krbErr(k.Realm, sname, 14, nil)
	}
	ckey := cl.Keys[et]
	now := k.now()
	// pre-authentication
	var ts *types.PAData
	for i, pa := range req.PAData {
		if pa.PADataType == 2 {
			ts = &req.PAData[i]
		}
	}
	info := types.PADataSequence{{PADataType: 19, PADataValue: etypeInfo2(cl, et, k.Realm)}}
	if k.ExtraHints {
		// legal: RFC 4120 5.2.7.5 makes ETYPE-INFO2 win whatever else is sent and wherever it stands
		other := int32(23)
		if et == 23 {
			other = 17
		}
		ei, _ := asn1.Marshal(types.ETypeInfo{{EType: other, Salt: []byte("other-salt")}, {EType: et, Salt: []byte(defaultSalt(k.Realm, cl.Name))}})
		info = append(info, types.PAData{PADataType: 11, PADataValue: ei}, types.PAData{PADataType: 3, PADataValue: []byte("pw-salt-hint")})
		switch k.HintOrder {
		case 1: // ETYPE-INFO, ETYPE-INFO2, PW-SALT
			info[0], info[1] = info[1], info[0]
		case 2: // PW-SALT, ETYPE-INFO, ETYPE-INFO2
			info[0], info[2] = info[2], info[0]
		}
	}
	if k.RequirePreauth && ts == nil {
		ed, _ := asn1.Marshal(info)
		return krbErr(k.Realm, sname, 25, ed)
	}
	preauthed := false
	if ts != nil {
		var ed types.EncryptedData
		if err := ed.Unmarshal(ts.PADataValue); err != nil {
			return krbErr(k.Realm, sname, 24, nil)
		}
		pkey, ok := cl.Keys[ed.EType]
		if !ok {
			return krbErr(k.Realm, sname, 24, nil)
		}
		b, err := crypto.DecryptEncPart(ed, pkey, 1)
		if err != nil {
			ed2, _ := asn1.Marshal(info)
			return krbErr(k.Realm, sname, 24, ed2)
		}
		if ok, _ := StrictDER(b); !ok {
			return krbErr(k.Realm, sname, 60, nil) // a conformant KDC cannot read a non-DER timestamp
		}
		var pts types.PAEncTSEnc
		if err := pts.Unmarshal(b); err != nil {
			return krbErr(k.Realm, sname, 24, nil)
		}
		if d := now.Sub(pts.PATimestamp); d > 5*time.Minute || d < -5*time.Minute {
			return krbErr(k.Realm, sname, 37, nil)
		}
		preauthed = true
	}
	renewable := types.IsFlagSet(&req.ReqBody.KDCOptions, 8)
	end, renew := k.lifetimes(now, req.ReqBody.Till, req.ReqBody.RTime, renewable)
	skey := randKey(et)
	fl := types.NewKrbFlags()
	types.SetFlag(&fl, 9) // initial
	if preauthed {
		types.SetFlag(&fl, 10)
	}
	if types.IsFlagSet(&req.ReqBody.KDCOptions, 1) {
		types.SetFlag(&fl, 1)
	}
	if types.IsFlagSet(&req.ReqBody.KDCOptions, 3) {
		types.SetFlag(&fl, 3)
	}
	if !renew.IsZero() {
		types.SetFlag(&fl, 8)
	}
	start := now.Add(-k.Backdate).Truncate(time.Second)
	stime := start
	if k.OmitStartTime {
		stime = time.Time{}
	}
	etp := messages.EncTicketPart{Flags: fl, Key: skey, CRealm: k.Realm, CName: req.ReqBody.CName, AuthTime: start, StartTime: stime, EndTime: end, RenewTill: renew, CAddr: req.ReqBody.Addresses}
	tet, _ := pickEtype(AllEtypes, svc.Keys)
	tkt, err := sealTicket(etp, svc.Keys[tet], svc.KVNO, k.Realm, sname)
	if err != nil {
		return krbErr(k.Realm, sname, 60, nil)
	}
	enc := messages.EncKDCRepPart{Key: skey, LastReqs: []messages.LastReq{{LRType: 0, LRValue: start}}, Nonce: req.ReqBody.Nonce, Flags: fl,
		AuthTime: start, StartTime: stime, EndTime: end, RenewTill: renew, SRealm: k.Realm, SName: sname, CAddr: req.ReqBody.Addresses}
	rep := messages.KDCRepFields{PVNO: 5, MsgType: 11, PAData: info, CRealm: k.Realm, CName: req.ReqBody.CName, Ticket: tkt}
	key, usage := ckey, uint32(3)
	if k.Tamper != nil {
		key, usage = k.Tamper("AS", &rep, &enc, key, usage)
	}
	eb, err := enc.Marshal()
	if err != nil {
		return krbErr(k.Realm, sname, 60, nil)
	}
	rep.EncPart, err = crypto.GetEncryptedData(eb, key, usage, cl.KVNO)
	if err != nil {
		return krbErr(k.Realm, sname, 60, nil)
	}
	ar := messages.ASRep{KDCRepFields: rep}
	out, err := ar.Marshal()
	if err != nil {
		return krbErr(k.Realm, sname, 60, nil)
	}
	k.logIssue("AS", req.ReqBody.CName.NameString, rep.Ticket, k.Realm, enc)
	return out
}

func (k *KDC) logIssue(kind string, cname []string, tkt messages.Ticket, srealm string, enc messages.EncKDCRepPart) {
	k.mu.Lock()
	defer k.mu.Unlock()
	k.Issues = append(k.Issues, Issue{Kind: kind, CName: cname, SName: tkt.SName.NameString, SRealm: srealm, TicketHash: TicketID(tkt), Key: enc.Key,
		Start: enc.StartTime, End: enc.EndTime, Renew: enc.RenewTill, Nonce: enc.Nonce, At: time.Now()})
}

// TicketID identifies a ticket by its ciphertext.
func TicketID(t messages.Ticket) string { return fmt.Sprintf("%x", t.EncPart.Cipher) }

func (k *KDC) tgtKey(t messages.Ticket) (types.EncryptionKey, bool) {
	ns := t.SName.NameString
	if len(ns) != 2 || ns[0] != "krbtgt" {
		return types.EncryptionKey{}, false
	}
	if ns[1] == k.Realm && t.Realm == k.Realm {
		p := k.Principal(ns)
		if p == nil {
			return types.EncryptionKey{}, false
		}
		key, ok := p.Keys[t.EncPart.EType]
		return key, ok
	}
	// cross-realm TGT krbtgt/<this realm>@<issuing realm>
	if ns[1] == k.Realm {
		if ks, ok := k.CrossKeys[t.Realm]; ok {
			key, ok := ks[t.EncPart.EType]
			return key, ok
		}
	}
	return types.EncryptionKey{}, false
}

func (k *KDC) handleTGS(raw []byte) []byte {
	var req messages.TGSReq
	if err := req.Unmarshal(raw); err != nil {
		return krbErr(k.Realm, types.PrincipalName{}, 60, nil)
	}
	k.mu.Lock()
	k.Requests = append(k.Requests, Request{Kind: "TGS", TGS: &req, Raw: raw, At: time.Now()})
	ec := k.ErrorCode
	k.mu.Unlock()
	sname := req.ReqBody.SName
	if ec != 0 {
		return krbErr(k.Realm, sname, ec, nil)
	}
	var apb []byte
	for _, pa := range req.PAData {
		if pa.PADataType == 1 {
			apb = pa.PADataValue
		}
	}
	var ap messages.APReq
	if apb == nil || ap.Unmarshal(apb) != nil {
		return krbErr(k.Realm, sname, 25, nil)
	}
	tkey, ok := k.tgtKey(ap.Ticket)
	if !ok && types.IsFlagSet(&req.ReqBody.KDCOptions, 30) {
		// renewal of a service ticket: the ticket presented is encrypted under the service's key
		if p := k.Principal(ap.Ticket.SName.NameString); p != nil && ap.Ticket.Realm == k.Realm {
			tkey, ok = p.Keys[ap.Ticket.EncPart.EType]
		}
	}
	if !ok {
		return krbErr(k.Realm, sname, 45, nil)
	}
	if err := ap.Ticket.Decrypt(tkey); err != nil {
		return krbErr(k.Realm, sname, 31, nil)
	}
	tgt := ap.Ticket.DecryptedEncPart
	now := k.now()
	if now.After(tgt.EndTime.Add(time.Second)) {
		return krbErr(k.Realm, sname, 32, nil)
	}
	ab, err := crypto.DecryptEncPart(ap.EncryptedAuthenticator, tgt.Key, 7)
	if err != nil && k.LenientRenewUsage && types.IsFlagSet(&req.ReqBody.KDCOptions, 30) {
		ab, err = crypto.DecryptEncPart(ap.EncryptedAuthenticator, tgt.Key, 11)
	}
	if err != nil {
		return krbErr(k.Realm, sname, 31, nil)
	}
	if ok, _ := StrictDER(ab); !ok {
		return krbErr(k.Realm, sname, 60, nil) // a conformant KDC cannot read a non-DER authenticator
	}
	var au types.Authenticator
	if err := au.Unmarshal(ab); err != nil {
		return krbErr(k.Realm, sname, 31, nil)
	}
	if !au.CName.Equal(tgt.CName) || (k.StrictCRealm && au.CRealm != tgt.CRealm) {
		return krbErr(k.Realm, sname, 36, nil)
	}
	// the authenticator's checksum covers the request body (usage 6)
	bb, _ := req.ReqBody.Marshal()
	ce, err := crypto.GetEtype(tgt.Key.KeyType)
	if err != nil || !ce.VerifyChecksum(tgt.Key.KeyValue, bb, au.Cksum.Checksum, 6) {
		return krbErr(k.Realm, sname, 41, nil)
	}
	renewal := types.IsFlagSet(&req.ReqBody.KDCOptions, 30)
	var skeyOf map[int32]types.EncryptionKey
	var kvno int
	issuedSName := sname
	if renewal {
		// renew the presented ticket
		issuedSName = ap.Ticket.SName
	}
	svc := k.Principal(issuedSName.NameString)
	if svc != nil {
		skeyOf, kvno = svc.Keys, svc.KVNO
	} else {
		// referral?
		next := ""
		if len(sname.NameString) == 2 {
			for suffix, realm := range k.Referrals {
				if strings.HasSuffix(sname.NameString[1], suffix) {
					next = realm
				}
			}
		}
		if next == "" {
			return krbErr(k.Realm, sname, 7, nil)
		}
		issuedSName = types.PrincipalName{NameType: 2, NameString: []string{"krbtgt", next}}
		skeyOf, kvno = k.CrossKeys[next], 1
	}
	et, ok := pickEtype(req.ReqBody.EType, skeyOf)
	if !ok {
		et, ok = pickEtype(AllEtypes, skeyOf)
		if !ok {
			return krbErr(k.Realm, sname, 14, nil)
		}
	}
	set, ok2 := pickEtype(req.ReqBody.EType, map[int32]types.EncryptionKey{17: {}, 18: {}, 19: {}, 20: {}, 23: {}, 16: {}})
	if !ok2 {
		set = et
	}
	skey := randKey(set)
	renewable := types.IsFlagSet(&req.ReqBody.KDCOptions, 8)
	end, renew := k.lifetimes(now, req.ReqBody.Till, req.ReqBody.RTime, renewable)
	if k.ServiceLifetime > 0 && !(len(issuedSName.NameString) > 0 && issuedSName.NameString[0] == "krbtgt") {
		end = now.Add(k.ServiceLifetime).Truncate(time.Second)
	}
	if end.After(tgt.EndTime) && !renewal {
		end = tgt.EndTime
	}
	if renewal {
		renew = tgt.RenewTill
		if end.After(renew) && !renew.IsZero() {
			end = renew
		}
	}
	fl := types.NewKrbFlags()
	if types.IsFlagSet(&req.ReqBody.KDCOptions, 1) {
		types.SetFlag(&fl, 1)
	}
	if !renew.IsZero() {
		types.SetFlag(&fl, 8)
	}
	start := now.Truncate(time.Second)
	lr := start
	if k.OmitStartTime {
		start = time.Time{}
	}
	etp := messages.EncTicketPart{Flags: fl, Key: skey, CRealm: tgt.CRealm, CName: tgt.CName, AuthTime: tgt.AuthTime, StartTime: start, EndTime: end, RenewTill: renew, CAddr: tgt.CAddr}
	tkt, err := sealTicket(etp, skeyOf[et], kvno, k.Realm, issuedSName)
	if err != nil {
		return krbErr(k.Realm, sname, 60, nil)
	}
	enc := messages.EncKDCRepPart{Key: skey, LastReqs: []messages.LastReq{{LRType: 0, LRValue: lr}}, Nonce: req.ReqBody.Nonce, Flags: fl,
		AuthTime: tgt.AuthTime, StartTime: start, EndTime: end, RenewTill: renew, SRealm: k.Realm, SName: issuedSName, CAddr: tgt.CAddr}
	rep := messages.KDCRepFields{PVNO: 5, MsgType: 13, CRealm: tgt.CRealm, CName: tgt.CName, Ticket: tkt}
	key, usage := tgt.Key, uint32(8)
	if k.Tamper != nil {
		key, usage = k.Tamper("TGS", &rep, &enc, key, usage)
	}
	eb, err := asn1.Marshal(enc)
	if err != nil {
		return krbErr(k.Realm, sname, 60, nil)
	}
	eb = asn1tools.AddASNAppTag(eb, 26)
	rep.EncPart, err = crypto.GetEncryptedData(eb, key, usage, 0)
	if err != nil {
		return krbErr(k.Realm, sname, 60, nil)
	}
	tr := messages.TGSRep{KDCRepFields: rep}
	out, err := tr.Marshal()
	if err != nil {
		return krbErr(k.Realm, sname, 60, nil)
	}
	k.logIssue("TGS", tgt.CName.NameString, rep.Ticket, k.Realm, enc)
	return out
}

// Serve listens on one loopback port for UDP and TCP.
func (k *KDC) Serve() error {
	for try := 0; try < 50; try++ {
		l, err := net.ListenTCP("tcp", &net.TCPAddr{IP: net.IPv4(127, 0, 0, 1)})
		if err != nil {
			return err
		}
		port := l.Addr().(*net.TCPAddr).Port
		u, err := net.ListenUDP("udp", &net.UDPAddr{IP: net.IPv4(127, 0, 0, 1), Port: port})
		if err != nil {
			l.Close()
			continue
		}
		k.tcp, k.udp = l, u
		k.Addr = fmt.Sprintf("127.0.0.1:%d", port)
		go k.serveUDP()
		go k.serveTCP()
		return nil
	}
	return fmt.Errorf("no free port pair")
}

func (k *KDC) Close() {
	if k.udp != nil {
		k.udp.Close()
	}
	if k.tcp != nil {
		k.tcp.Close()
	}
}

func (k *KDC) serveUDP() {
	buf := make([]byte, 65536)
	for {
		n, addr, err := k.udp.ReadFromUDP(buf)
		if err != nil {
			return
		}
		req := append([]byte{}, buf[:n]...)
		if k.UDPTooBig {
			// RFC 4120 7.2.1: the reply does not fit a datagram - retry over TCP
			k.udp.WriteToUDP(krbErr(k.Realm, types.PrincipalName{NameType: 2, NameString: []string{"krbtgt", k.Realm}}, 52, nil), addr)
			continue
		}
		go func() {
			if out := k.Handle(req); out != nil {
				k.udp.WriteToUDP(out, addr)
			}
		}()
	}
}

func (k *KDC) serveTCP() {
	for {
		conn, err := k.tcp.AcceptTCP()
		if err != nil {
			return
		}
		go func() {
			defer conn.Close()
			conn.SetDeadline(time.Now().Add(10 * time.Second))
			hdr := make([]byte, 4)
			if _, err := io.ReadFull(conn, hdr); err != nil {
				return
			}
			req := make([]byte, binary.BigEndian.Uint32(hdr))
			if _, err := io.ReadFull(conn, req); err != nil {
				return
			}
			out := k.Handle(req)
			if out == nil {
				return
			}
			o := make([]byte, 4)
			binary.BigEndian.PutUint32(o, uint32(len(out)))
			conn.Write(append(o, out...))
		}()
	}
}
