package kdc

// StrictDER reports whether b is one definite-length, minimal-length BER/DER element (recursively) in which every
// GeneralizedTime is exactly YYYYMMDDHHMMSSZ, as RFC 4120 5.2.3 requires of KerberosTime.  gokrb5's own decoder is
// more lenient (it accepts zone offsets), so an independent peer is what refuses a client that emits them.
func StrictDER(b []byte) (ok bool, why string) {
	rest, ok, why := strictElem(b, 0)
	if ok && len(rest) != 0 {
		// trailing octets (des3 zero padding of decrypted parts) are tolerated when they are all zero
		for _, x := range rest {
			if x != 0 {
				return false, "trailing octets"
			}
		}
	}
	return ok, why
}

func strictElem(b []byte, depth int) (rest []byte, ok bool, why string) {
	if depth > 40 || len(b) < 2 {
		return nil, false, "truncated element"
	}
	tag := b[0]
	if tag&0x1f == 0x1f {
		return nil, false, "high tag number"
	}
	i := 1
	l := int(b[i])
	i++
	if l&0x80 != 0 {
		n := l & 0x7f
		if n == 0 || n > 4 || len(b) < i+n {
			return nil, false, "indefinite or oversized length"
		}
		l = 0
		for k := 0; k < n; k++ {
			l = l<<8 | int(b[i+k])
		}
		if b[i] == 0 || l < 128 {
			return nil, false, "non-minimal length"
		}
		i += n
	}
	if l < 0 || len(b) < i+l {
		return nil, false, "length beyond the input"
	}
	body := b[i : i+l]
	if tag&0x20 != 0 {
		for len(body) > 0 {
			var o bool
			var w string
			body, o, w = strictElem(body, depth+1)
			if !o {
				return nil, false, w
			}
		}
	} else if tag == 0x18 {
		if len(body) != 15 || body[14] != 'Z' {
			return nil, false, "KerberosTime not YYYYMMDDHHMMSSZ: " + string(body)
		}
		for _, d := range body[:14] {
			if d < '0' || d > '9' {
				return nil, false, "KerberosTime not YYYYMMDDHHMMSSZ: " + string(body)
			}
		}
	} else if tag == 0x17 {
		return nil, false, "UTCTime where KerberosTime is required"
	}
	return b[i+l:], true, ""
}
