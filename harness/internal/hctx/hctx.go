// Package hctx is the shared context of the correspondence harness: case writer, direct-oracle recorder,
// histogram, samples.  Every property stream is a func(*hctx.Ctx).
package hctx

import (
	"bufio"
	"fmt"
	"math/rand"
)

type OracleFail struct {
	Oracle string      `json:"oracle"`
	Sig    string      `json:"sig"` // stable signature used by the known-findings filter
	Detail string      `json:"detail"`
	Input  interface{} `json:"input"`
}

type Ctx struct {
	Prop, Tier string
	Seed       int64
	R          *rand.Rand
	W          *bufio.Writer
	NCases     int
	NOracle    int
	Fails      []OracleFail
	NFailed    int
	failsBySig map[string]int
	Hist       map[string]int
	Samples    []string
	Distinct   map[string]struct{}
	Notes      []string
}

// Case records one correspondence case: model function name, input and the implementation's observable.
func (c *Ctx) Case(fn string, in, obs interface{ String() string }) {
	c.CaseS(fn, in.String(), obs.String())
}

func (c *Ctx) CaseS(fn, in, obs string) {
	line := fn + "\t" + in + "\t" + obs
	fmt.Fprintln(c.W, line)
	c.NCases++
	if _, ok := c.Distinct[line]; !ok {
		c.Distinct[line] = struct{}{}
	}
	if len(c.Samples) < 6 && (c.NCases%97 == 1) {
		s := line
		if len(s) > 600 {
			s = s[:600] + "..."
		}
		c.Samples = append(c.Samples, s)
	}
}

func (c *Ctx) Count(key string) { c.Hist[key]++ }

// Check records the verdict of a direct oracle (the property itself evaluated on one concrete case).
func (c *Ctx) Check(ok bool, oracle, sig, detail string, input interface{}) {
	c.NOracle++
	if !ok {
		// at most 12 recorded failures per signature (and 3000 in all): a frequent failure - e.g. a known finding - must
		// not crowd out a different one
		if c.failsBySig == nil {
			c.failsBySig = map[string]int{}
		}
		c.failsBySig[sig]++
		c.NFailed++
		if c.failsBySig[sig] <= 12 && len(c.Fails) < 3000 {
			c.Fails = append(c.Fails, OracleFail{oracle, sig, detail, input})
		}
	}
}

// FailCounts returns the number of failed oracle checks per signature (all of them, not only the recorded ones).
func (c *Ctx) FailCounts() map[string]int {
	o := map[string]int{}
	for k, v := range c.failsBySig {
		o[k] = v
	}
	return o
}

func (c *Ctx) Quick() bool { return c.Tier != "thorough" }

// Guard runs f and reports whether it panicked.
func Guard(f func()) (panicked bool, val interface{}) {
	defer func() {
		if r := recover(); r != nil {
			panicked = true
			val = r
		}
	}()
	f()
	return
}
