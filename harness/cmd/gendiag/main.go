// Command gen is the translator: it re-reads /repo/v8's SOURCE on every run (go/parser, no type checker) and
// emits Coq terms under coq/gen/ over which conformance obligations (coq/conform/*.v) are re-checked:
//   -only diag : type descriptions of everything handed to encoding/json (visible fields, secrets) and the
//                inventory of json.Marshal call sites                                      -> gen/DiagTypes.v
// Deliberately simple and part of the trusted base; its rules are listed in DESIGN.md.
package main

import (
	"flag"
	"fmt"
	"go/ast"
	"go/parser"
	"go/token"
	"os"
	"path/filepath"
	"reflect"
	"sort"
	"strings"
)

type pkgInfo struct {
	name    string                  // package name
	dir     string                  // directory relative to repo root
	types   map[string]ast.Expr     // type name -> underlying type expression
	imports map[string]map[string]string // file -> local name -> import path
	fileOf  map[string]string       // type name -> file
}

var repo string
var pkgs = map[string]*pkgInfo{} // by import-path suffix (dir)

const modPrefix = "github.com/jcmturner/gokrb5/v8/"

func loadPkg(dir string) *pkgInfo {
	if p, ok := pkgs[dir]; ok {
		return p
	}
	p := &pkgInfo{dir: dir, types: map[string]ast.Expr{}, imports: map[string]map[string]string{}, fileOf: map[string]string{}}
	pkgs[dir] = p
	fset := token.NewFileSet()
	files, _ := filepath.Glob(filepath.Join(repo, dir, "*.go"))
	sort.Strings(files)
	for _, f := range files {
		if strings.HasSuffix(f, "_test.go") {
			continue
		}
		af, err := parser.ParseFile(fset, f, nil, parser.ParseComments)
		if err != nil {
			fmt.Fprintln(os.Stderr, "parse error:", err)
			os.Exit(2)
		}
		if tagged(af) {
			continue
		}
		p.name = af.Name.Name
		im := map[string]string{}
		for _, is := range af.Imports {
			path := strings.Trim(is.Path.Value, "\"")
			local := filepath.Base(path)
			if strings.HasPrefix(local, "v") && len(local) <= 3 { // .../v2
				local = filepath.Base(filepath.Dir(path))
			}
			if is.Name != nil {
				local = is.Name.Name
			}
			im[local] = path
		}
		p.imports[f] = im
		for _, d := range af.Decls {
			gd, ok := d.(*ast.GenDecl)
			if !ok || gd.Tok != token.TYPE {
				continue
			}
			for _, sp := range gd.Specs {
				ts := sp.(*ast.TypeSpec)
				p.types[ts.Name.Name] = ts.Type
				p.fileOf[ts.Name.Name] = f
			}
		}
	}
	return p
}

// files guarded by the verif build tag are hooks, not part of the code under translation
func tagged(af *ast.File) bool {
	for _, cg := range af.Comments {
		for _, c := range cg.List {
			if strings.HasPrefix(c.Text, "//go:build") && strings.Contains(c.Text, "verif") && !strings.Contains(c.Text, "!verif") {
				return true
			}
		}
	}
	return false
}

var builtins = map[string]bool{"string": true, "bool": true, "byte": true, "rune": true, "int": true, "int8": true, "int16": true, "int32": true, "int64": true,
	"uint": true, "uint8": true, "uint16": true, "uint32": true, "uint64": true, "float32": true, "float64": true, "error": true, "uintptr": true}

// secret leaves: (package dir, type, field)
func isSecret(dir, typ, field string, fieldType ast.Expr) bool {
	if dir == "types" && typ == "EncryptionKey" && field == "KeyValue" {
		return true
	}
	if id, ok := fieldType.(*ast.Ident); ok && id.Name == "string" && strings.EqualFold(field, "password") {
		return true
	}
	return false
}

func conv(p *pkgInfo, file string, e ast.Expr, depth int, ctxType string) string {
	if depth > 14 {
		return "JPublic"
	}
	switch t := e.(type) {
	case *ast.Ident:
		if builtins[t.Name] {
			return "JPublic"
		}
		if u, ok := p.types[t.Name]; ok {
			return conv(p, p.fileOf[t.Name], u, depth+1, t.Name)
		}
		return "JPublic"
	case *ast.SelectorExpr:
		x, ok := t.X.(*ast.Ident)
		if !ok {
			return "JPublic"
		}
		path := p.imports[file][x.Name]
		if strings.HasPrefix(path, modPrefix) {
			q := loadPkg(strings.TrimPrefix(path, modPrefix))
			if u, ok := q.types[t.Sel.Name]; ok {
				return conv(q, q.fileOf[t.Sel.Name], u, depth+1, t.Sel.Name)
			}
		}
		return "JPublic" // external types (time.Time, asn1.BitString, net.IP, ...) carry no gokrb5 secret
	case *ast.StarExpr:
		return "(JSeq " + conv(p, file, t.X, depth+1, ctxType) + ")"
	case *ast.ArrayType:
		if id, ok := t.Elt.(*ast.Ident); ok && (id.Name == "byte" || id.Name == "uint8") {
			return "JPublic"
		}
		return "(JSeq " + conv(p, file, t.Elt, depth+1, ctxType) + ")"
	case *ast.MapType:
		return "(JSeq " + conv(p, file, t.Value, depth+1, ctxType) + ")"
	case *ast.StructType:
		var fs []string
		for _, f := range t.Fields.List {
			tag := ""
			if f.Tag != nil {
				tag = reflect.StructTag(strings.Trim(f.Tag.Value, "`")).Get("json")
			}
			names := []string{}
			for _, n := range f.Names {
				names = append(names, n.Name)
			}
			if len(names) == 0 { // embedded
				switch ft := f.Type.(type) {
				case *ast.Ident:
					names = []string{ft.Name}
				case *ast.SelectorExpr:
					names = []string{ft.Sel.Name}
				case *ast.StarExpr:
					names = []string{"embedded"}
				}
			}
			for _, n := range names {
				vis := ast.IsExported(n) && tag != "-"
				ft := ""
				if isSecret(p.dir, ctxType, n, f.Type) {
					ft = "JSecret"
				} else {
					ft = conv(p, file, f.Type, depth+1, ctxType)
				}
				fs = append(fs, fmt.Sprintf("(%v, %s)", vis, ft))
			}
		}
		return "(JStruct [" + strings.Join(fs, "; ") + "])"
	case *ast.InterfaceType, *ast.FuncType, *ast.ChanType:
		return "JPublic"
	}
	return "JPublic"
}

// json.Marshal / MarshalIndent call sites: file:function
func jsonCallSites() []string {
	var out []string
	filepath.Walk(repo, func(path string, info os.FileInfo, err error) error {
		if err != nil || info.IsDir() || !strings.HasSuffix(path, ".go") || strings.HasSuffix(path, "_test.go") {
			return nil
		}
		rel, _ := filepath.Rel(repo, path)
		if strings.HasPrefix(rel, "test/") || strings.HasPrefix(rel, "examples/") {
			return nil
		}
		fset := token.NewFileSet()
		af, err := parser.ParseFile(fset, path, nil, parser.ParseComments)
		if err != nil || tagged(af) {
			return nil
		}
		for _, d := range af.Decls {
			fd, ok := d.(*ast.FuncDecl)
			if !ok || fd.Body == nil {
				continue
			}
			fname := fd.Name.Name
			if fd.Recv != nil && len(fd.Recv.List) > 0 {
				switch rt := fd.Recv.List[0].Type.(type) {
				case *ast.StarExpr:
					if id, ok := rt.X.(*ast.Ident); ok {
						fname = id.Name + "." + fname
					}
				case *ast.Ident:
					fname = rt.Name + "." + fname
				}
			}
			ast.Inspect(fd.Body, func(n ast.Node) bool {
				ce, ok := n.(*ast.CallExpr)
				if !ok {
					return true
				}
				if se, ok := ce.Fun.(*ast.SelectorExpr); ok {
					if x, ok := se.X.(*ast.Ident); ok && x.Name == "json" && strings.HasPrefix(se.Sel.Name, "Marshal") {
						out = append(out, rel+":"+fname)
					}
					if x, ok := se.X.(*ast.Ident); ok && x.Name == "gob" && se.Sel.Name == "NewEncoder" {
						out = append(out, rel+":"+fname+":gob")
					}
				}
				return true
			})
		}
		return nil
	})
	sort.Strings(out)
	return out
}

func genDiag(outDir string) {
	roots := [][2]string{{"keytab", "Keytab"}, {"client", "CacheEntry"}, {"client", "jsonSession"}, {"client", "jsonSettings"},
		{"credentials", "marshalCredentials"}, {"config", "Config"}, {"credentials", "ADCredentials"}}
	var b strings.Builder
	b.WriteString("(* GENERATED by harness/cmd/gen -only diag from /repo/v8 source. Do not edit. *)\nFrom Coq Require Import String List.\nImport ListNotations.\nFrom Gokrb5.model Require Import Diag.\nOpen Scope string_scope.\n\n")
	var names []string
	for _, r := range roots {
		p := loadPkg(r[0])
		u, ok := p.types[r[1]]
		if !ok {
			fmt.Fprintf(os.Stderr, "root type %s.%s not found in source\n", r[0], r[1])
			os.Exit(2)
		}
		n := "gen_" + strings.ReplaceAll(r[0], "/", "_") + "_" + r[1]
		names = append(names, n)
		fmt.Fprintf(&b, "Definition %s : jty :=\n  %s.\n\n", n, conv(p, p.fileOf[r[1]], u, 0, r[1]))
	}
	fmt.Fprintf(&b, "Definition gen_json_roots : list jty := [%s].\n\n", strings.Join(names, "; "))
	var cs []string
	for _, s := range jsonCallSites() {
		cs = append(cs, "\""+s+"\"")
	}
	fmt.Fprintf(&b, "Definition gen_json_callsites : list string :=\n  [%s].\n", strings.Join(cs, ";\n   "))
	os.MkdirAll(outDir, 0o755)
	os.WriteFile(filepath.Join(outDir, "DiagTypes.v"), []byte(b.String()), 0o644)
}

func main() {
	r := flag.String("repo", "/repo/v8", "module root")
	out := flag.String("out", "/verif/coq/gen", "output directory")
	only := flag.String("only", "", "which generated file to (re)write")
	flag.Parse()
	repo = *r
	switch *only {
	case "diag":
		genDiag(*out)
	default:
		fmt.Fprintln(os.Stderr, "unknown -only", *only)
		os.Exit(2)
	}
}
