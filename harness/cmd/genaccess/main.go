// Command genaccess is the lock-structure translator (vgen-access): it type-checks /repo/v8's client, config and
// service packages FROM SOURCE (go/types with the source importer) and emits, for every function, the accesses
// to fields of the shared structs together with the locks held at that point -> coq/gen/Access.v.
//
// Rules (deliberately simple; part of the trusted base, cross-checked by the race-detector stream):
//  1. shared structs: every struct of the package that has a sync.Mutex/RWMutex field, plus client.Client,
//     client.Settings, config.Config, config.Realm, config.LibDefaults;
//  2. an access is a field selection on one of them; a WRITE if it is (the base of) the left side of an
//     assignment / inc-dec, the map or slice indexed on a left side, or the first argument of delete / append
//     / copy; channel sends and receives on a field are reads (channels synchronise);
//  3. a lock operation is a call of Lock/RLock/Unlock/RUnlock on a mutex field of a shared struct; the lock is
//     named by its struct TYPE and field (instances are not distinguished); `defer x.Unlock()` holds to the
//     end of the function; statements are walked in source order (both branches of an if see the locks taken
//     before it); a function literal starts with no locks held;
//  4. an unexported function inherits the locks that are held at EVERY one of its call sites in the package;
//  6. functions whose result is a func (option constructors such as DisablePAFXFAST) are skipped: they run while
//     the object is being built;
//  7. a read inside a function literal of a field that the enclosing function wrote before the literal is
//     ordered by the go statement and is not recorded;
//  8. lock events (-> coq/gen/LockOrder.v): every Lock/RLock is an Acq event with the lock classes held just before
//     it; every call of a function of the same package is a Call event with the locks held; a channel send or
//     receive is a Block event unless it is a case of a select that has a default clause; a function literal is
//     a pseudo-function <fn>$lit entered with no locks (go statements and deferred closures); lock and unlock
//     of one critical section are assumed to be in the same function (true of gokrb5);
//  5. functions named New*/new* (constructors: the object is not shared yet), methods named JSON/String on
//     config types while parsing, and files guarded by the verif build tag are skipped.
package main

import (
	"flag"
	"fmt"
	"go/ast"
	"go/importer"
	"go/parser"
	"go/token"
	"go/types"
	"os"
	"path/filepath"
	"sort"
	"strings"
)

type access struct {
	fn, field string
	write     bool
	locks     map[string]bool // lock id -> held in write mode
}

var fset = token.NewFileSet()
var imp = importer.ForCompiler(fset, "source", nil)

type lockEvent struct {
	kind       string // Acq, Call, Block
	fn, target string
	held       []string
}

type pkgWork struct {
	events  []lockEvent
	name    string
	files   []*ast.File
	info    *types.Info
	shared  map[*types.Named]bool
	acc     []access
	callers map[string][]map[string]bool // callee -> locksets at call sites
	funcs   map[string]*ast.FuncDecl
}

func isMutex(t types.Type) bool {
	s := t.String()
	return s == "sync.Mutex" || s == "sync.RWMutex"
}

func namedOf(t types.Type) *types.Named {
	for {
		switch x := t.(type) {
		case *types.Pointer:
			t = x.Elem()
		case *types.Named:
			return x
		default:
			return nil
		}
	}
}

func load(dir string, extraShared []string) *pkgWork {
	w := &pkgWork{shared: map[*types.Named]bool{}, callers: map[string][]map[string]bool{}, funcs: map[string]*ast.FuncDecl{}}
	pkgs, err := parser.ParseDir(fset, dir, func(fi os.FileInfo) bool {
		return !strings.HasSuffix(fi.Name(), "_test.go")
	}, parser.ParseComments)
	if err != nil {
		fmt.Fprintln(os.Stderr, err)
		os.Exit(2)
	}
	for name, p := range pkgs {
		w.name = name
		var names []string
		for fn := range p.Files {
			names = append(names, fn)
		}
		sort.Strings(names)
		for _, fn := range names {
			f := p.Files[fn]
			tagged := false
			for _, cg := range f.Comments {
				for _, c := range cg.List {
					if strings.HasPrefix(c.Text, "//go:build") && strings.Contains(c.Text, "verif") {
						tagged = true
					}
				}
			}
			if !tagged || strings.HasSuffix(fn, "_off.go") {
				w.files = append(w.files, f)
			}
		}
	}
	w.info = &types.Info{Selections: map[*ast.SelectorExpr]*types.Selection{}, Types: map[ast.Expr]types.TypeAndValue{}, Uses: map[*ast.Ident]types.Object{}, Defs: map[*ast.Ident]types.Object{}}
	conf := types.Config{Importer: imp, Error: func(err error) {}}
	pkg, _ := conf.Check(filepath.Base(dir), fset, w.files, w.info)
	if pkg == nil {
		fmt.Fprintln(os.Stderr, "type check failed for", dir)
		os.Exit(2)
	}
	sc := pkg.Scope()
	for _, n := range sc.Names() {
		tn, ok := sc.Lookup(n).(*types.TypeName)
		if !ok {
			continue
		}
		named, ok := tn.Type().(*types.Named)
		if !ok {
			continue
		}
		st, ok := named.Underlying().(*types.Struct)
		if !ok {
			continue
		}
		for i := 0; i < st.NumFields(); i++ {
			if isMutex(st.Field(i).Type()) {
				w.shared[named] = true
			}
		}
		for _, e := range extraShared {
			if e == n {
				w.shared[named] = true
			}
		}
	}
	return w
}

func copyLocks(m map[string]bool) map[string]bool {
	o := map[string]bool{}
	for k, v := range m {
		o[k] = v
	}
	return o
}

func heldList(m map[string]bool) []string {
	var o []string
	for k := range m {
		o = append(o, k)
	}
	sort.Strings(o)
	return o
}

// nonBlockingComms collects the communication statements of selects that have a default clause.
func nonBlockingComms(body ast.Node) map[ast.Node]bool {
	out := map[ast.Node]bool{}
	ast.Inspect(body, func(n ast.Node) bool {
		sel, ok := n.(*ast.SelectStmt)
		if !ok {
			return true
		}
		hasDefault := false
		for _, c := range sel.Body.List {
			if cc, ok := c.(*ast.CommClause); ok && cc.Comm == nil {
				hasDefault = true
			}
		}
		if hasDefault {
			for _, c := range sel.Body.List {
				if cc, ok := c.(*ast.CommClause); ok && cc.Comm != nil {
					ast.Inspect(cc.Comm, func(m ast.Node) bool {
						switch m.(type) {
						case *ast.SendStmt, *ast.UnaryExpr:
							out[m] = true
						}
						return true
					})
				}
			}
		}
		return true
	})
	return out
}

func fnName(fd *ast.FuncDecl) string {
	if fd.Recv != nil && len(fd.Recv.List) > 0 {
		switch rt := fd.Recv.List[0].Type.(type) {
		case *ast.StarExpr:
			if id, ok := rt.X.(*ast.Ident); ok {
				return id.Name + "." + fd.Name.Name
			}
		case *ast.Ident:
			return rt.Name + "." + fd.Name.Name
		}
	}
	return fd.Name.Name
}

func (w *pkgWork) fieldOf(se *ast.SelectorExpr) (string, bool) {
	sel, ok := w.info.Selections[se]
	if !ok || sel.Kind() != types.FieldVal {
		return "", false
	}
	n := namedOf(sel.Recv())
	if n == nil || !w.shared[n] {
		return "", false
	}
	return n.Obj().Name() + "." + se.Sel.Name, true
}

// baseSel returns the selector expression at the base of an lvalue like x.f[k].g or *x.f
func baseSel(e ast.Expr) []*ast.SelectorExpr {
	var out []*ast.SelectorExpr
	for {
		switch x := e.(type) {
		case *ast.SelectorExpr:
			out = append(out, x)
			e = x.X
		case *ast.IndexExpr:
			e = x.X
		case *ast.StarExpr:
			e = x.X
		case *ast.ParenExpr:
			e = x.X
		case *ast.SliceExpr:
			e = x.X
		default:
			return out
		}
	}
}

func (w *pkgWork) walkFunc(fn string, body *ast.BlockStmt, held map[string]bool) {
	writes := map[*ast.SelectorExpr]bool{}
	writtenHere := map[string]bool{} // fields written so far in this function (rule 7)
	inLit := 0
	nonBlocking := nonBlockingComms(body)
	evFn := func() string {
		if inLit > 0 {
			return fn + "$lit"
		}
		return fn
	}
	var walk func(n ast.Node, held map[string]bool)
	markLHS := func(e ast.Expr) {
		sels := baseSel(e)
		if len(sels) > 0 {
			// the outermost selector that is a shared field is the one written; inner ones are reads
			writes[sels[0]] = true
			// a map/slice element assignment x.f[k] = v writes x.f
		}
	}
	walk = func(n ast.Node, held map[string]bool) {
		ast.Inspect(n, func(m ast.Node) bool {
			switch x := m.(type) {
			case *ast.FuncLit:
				inLit++
				walk(x.Body, map[string]bool{})
				inLit--
				return false
			case *ast.AssignStmt:
				for _, l := range x.Lhs {
					markLHS(l)
				}
			case *ast.IncDecStmt:
				markLHS(x.X)
			case *ast.SendStmt:
				if !nonBlocking[x] {
					w.events = append(w.events, lockEvent{"Block", evFn(), "send", heldList(held)})
				}
			case *ast.UnaryExpr:
				if x.Op == token.ARROW && !nonBlocking[x] {
					w.events = append(w.events, lockEvent{"Block", evFn(), "receive", heldList(held)})
				}
			case *ast.DeferStmt:
				if se, ok := x.Call.Fun.(*ast.SelectorExpr); ok && (se.Sel.Name == "Unlock" || se.Sel.Name == "RUnlock") {
					return false // stays held to the end of the function
				}
			case *ast.CallExpr:
				if id, ok := x.Fun.(*ast.Ident); ok && (id.Name == "delete" || id.Name == "append" || id.Name == "copy") && len(x.Args) > 0 {
					if id.Name != "append" {
						markLHS(x.Args[0])
					}
				}
				if se, ok := x.Fun.(*ast.SelectorExpr); ok {
					if mse, ok := se.X.(*ast.SelectorExpr); ok {
						if tv, ok := w.info.Types[mse]; ok && isMutex(tv.Type) {
							if f, ok := w.fieldOf(mse); ok {
								switch se.Sel.Name {
								case "Lock":
									w.events = append(w.events, lockEvent{"Acq", evFn(), f, heldList(held)})
									held[f] = true
								case "RLock":
									w.events = append(w.events, lockEvent{"Acq", evFn(), f, heldList(held)})
									if !held[f] {
										held[f] = false
									}
								case "Unlock", "RUnlock":
									delete(held, f)
								}
								return false
							}
						}
					}
					// call of a function / method of this package: record the lockset at the call site
					if obj, ok := w.info.Uses[se.Sel]; ok {
						if f, ok := obj.(*types.Func); ok && f.Pkg() != nil && f.Pkg().Name() == w.name {
							name := f.Name()
							if sig, ok := f.Type().(*types.Signature); ok && sig.Recv() != nil {
								if n := namedOf(sig.Recv().Type()); n != nil {
									name = n.Obj().Name() + "." + name
								}
							}
							w.callers[name] = append(w.callers[name], copyLocks(held))
							w.events = append(w.events, lockEvent{"Call", evFn(), name, heldList(held)})
						}
					}
				}
				if id, ok := x.Fun.(*ast.Ident); ok {
					if obj, ok := w.info.Uses[id]; ok {
						if f, ok := obj.(*types.Func); ok && f.Pkg() != nil && f.Pkg().Name() == w.name {
							w.callers[f.Name()] = append(w.callers[f.Name()], copyLocks(held))
							w.events = append(w.events, lockEvent{"Call", evFn(), f.Name(), heldList(held)})
						}
					}
				}
			case *ast.SelectorExpr:
				if f, ok := w.fieldOf(x); ok {
					if tv, ok := w.info.Types[x]; ok && isMutex(tv.Type) {
						return true
					}
					if writes[x] && inLit == 0 {
						writtenHere[f] = true
					}
					if inLit > 0 && !writes[x] && writtenHere[f] {
						return true // rule 7: initialised by the enclosing function before the goroutine starts
					}
					w.acc = append(w.acc, access{fn: fn, field: f, write: writes[x], locks: copyLocks(held)})
				}
			}
			return true
		})
	}
	walk(body, held)
}

func skipFunc(name string) bool {
	base := name
	if i := strings.Index(name, "."); i >= 0 {
		base = name[i+1:]
	}
	return strings.HasPrefix(base, "New") || strings.HasPrefix(base, "new") || strings.HasPrefix(base, "parse") || strings.HasPrefix(base, "Verif") || base == "verifYield"
}

func (w *pkgWork) run() {
	for _, f := range w.files {
		for _, d := range f.Decls {
			if fd, ok := d.(*ast.FuncDecl); ok && fd.Body != nil {
				w.funcs[fnName(fd)] = fd
			}
		}
	}
	var names []string
	for n := range w.funcs {
		names = append(names, n)
	}
	sort.Strings(names)
	for _, n := range names {
		if skipFunc(n) {
			continue
		}
		fd := w.funcs[n]
		if fd.Type.Results != nil && len(fd.Type.Results.List) == 1 {
			if _, isFunc := fd.Type.Results.List[0].Type.(*ast.FuncType); isFunc {
				continue // rule 6: option constructors (func(*Settings)) run while the object is being built
			}
		}
		w.walkFunc(n, fd.Body, map[string]bool{})
	}
	// rule 4: unexported functions inherit the locks held at every call site
	for i := range w.acc {
		a := &w.acc[i]
		base := a.fn
		if j := strings.Index(base, "."); j >= 0 {
			base = base[j+1:]
		}
		if ast.IsExported(base) {
			continue
		}
		sites := w.callers[a.fn]
		if len(sites) == 0 {
			continue
		}
		common := copyLocks(sites[0])
		for _, s := range sites[1:] {
			for k, v := range common {
				if sv, ok := s[k]; !ok {
					delete(common, k)
				} else if !sv {
					common[k] = v && sv
				}
			}
		}
		for k, v := range common {
			if cur, ok := a.locks[k]; !ok || (!cur && v) {
				a.locks[k] = v
			}
		}
	}
}

func main() {
	repo := flag.String("repo", "/repo/v8", "module root")
	out := flag.String("out", "/verif/coq/gen", "output directory")
	flag.String("only", "access", "")
	flag.Parse()
	os.Chdir(*repo)
	var all []access
	var evLines []string
	evSeen := map[string]bool{}
	for _, p := range [][]string{{"client", "Client", "Settings"}, {"config", "Config", "Realm", "LibDefaults"}, {"service"}} {
		w := load(filepath.Join(*repo, p[0]), p[1:])
		w.run()
		for _, e := range w.events {
			var hs []string
			for _, h := range e.held {
				hs = append(hs, fmt.Sprintf("\"%s.%s\"", p[0], h))
			}
			tgt := e.target
			if e.kind != "Block" {
				tgt = p[0] + "." + tgt
			}
			l := fmt.Sprintf("%s \"%s.%s\" \"%s\" [%s]", e.kind, p[0], e.fn, tgt, strings.Join(hs, "; "))
			if !evSeen[l] {
				evSeen[l] = true
				evLines = append(evLines, l)
			}
		}
		for _, a := range w.acc {
			a.fn = p[0] + "." + a.fn
			a.field = p[0] + "." + a.field
			nl := map[string]bool{}
			for k, v := range a.locks {
				nl[p[0]+"."+k] = v
			}
			a.locks = nl
			all = append(all, a)
		}
	}
	// canonical, de-duplicated
	seen := map[string]bool{}
	var lines []string
	for _, a := range all {
		var ls []string
		for k, v := range a.locks {
			ls = append(ls, fmt.Sprintf("(\"%s\", %v)", k, v))
		}
		sort.Strings(ls)
		l := fmt.Sprintf("mkAccess \"%s\" \"%s\" %v [%s]", a.fn, a.field, a.write, strings.Join(ls, "; "))
		if !seen[l] {
			seen[l] = true
			lines = append(lines, l)
		}
	}
	sort.Strings(lines)
	var b strings.Builder
	b.WriteString("(* GENERATED by harness/cmd/genaccess from /repo/v8 source (go/types). Do not edit. *)\nFrom Coq Require Import String List.\nImport ListNotations.\nFrom Gokrb5.model Require Import LockModel.\nOpen Scope string_scope.\n\n")
	b.WriteString("Definition gen_accesses : list access :=\n  [" + strings.Join(lines, ";\n   ") + "].\n")
	os.MkdirAll(*out, 0o755)
	os.WriteFile(filepath.Join(*out, "Access.v"), []byte(b.String()), 0o644)
	sort.Strings(evLines)
	var c strings.Builder
	c.WriteString("(* GENERATED by harness/cmd/genaccess from /repo/v8 source (go/types). Do not edit. *)\nFrom Coq Require Import String List.\nImport ListNotations.\nFrom Gokrb5.model Require Import LockOrder.\nOpen Scope string_scope.\n\n")
	c.WriteString("Definition gen_lock_events : list lev :=\n  [" + strings.Join(evLines, ";\n   ") + "].\n")
	os.WriteFile(filepath.Join(*out, "LockEvents.v"), []byte(c.String()), 0o644)
}
