// Command run is the correspondence harness: for one property it generates structured and malformed
// inputs from a single PRNG state, executes the real gokrb5 code (built from /repo/v8's working tree),
// projects the observables the property speaks about, evaluates the property's direct oracle, and writes
//   <out>/<ID>.cases      one line per case: fn TAB input TAB observed   (compared with the Coq model)
//   <out>/<ID>.meta.json  counts, histogram, samples, direct-oracle failures
package main

import (
	"bufio"
	"encoding/json"
	"flag"
	"fmt"
	"math/rand"
	"os"
	"path/filepath"
	"sort"
	"time"

	"verif/harness/internal/jv"
)

type OracleFail struct {
	Oracle string      `json:"oracle"`
	Sig    string      `json:"sig"` // stable signature used by the known-findings filter
	Detail string      `json:"detail"`
	Input  interface{} `json:"input"`
}

type Ctx struct {
	Prop, Tier string
	Seed       int64
	R          *rand.Rand
	w          *bufio.Writer
	NCases     int
	NOracle    int
	Fails      []OracleFail
	Hist       map[string]int
	Samples    []string
	distinct   map[string]struct{}
	Notes      []string
}

func (c *Ctx) Case(fn string, in, obs jv.V) {
	line := fn + "\t" + string(in) + "\t" + string(obs)
	fmt.Fprintln(c.w, line)
	c.NCases++
	if _, ok := c.distinct[line]; !ok {
		c.distinct[line] = struct{}{}
	}
	if len(c.Samples) < 6 && (c.NCases%97 == 1) {
		s := line
		if len(s) > 600 {
			s = s[:600] + "..."
		}
		c.Samples = append(c.Samples, s)
	}
}

func (c *Ctx) Count(key string) { c.Hist[key]++ }

// Check records the verdict of a direct oracle (the property itself evaluated on one concrete case).
func (c *Ctx) Check(ok bool, oracle, sig, detail string, input interface{}) {
	c.NOracle++
	if !ok && len(c.Fails) < 200 {
		c.Fails = append(c.Fails, OracleFail{oracle, sig, detail, input})
	}
}

func (c *Ctx) Quick() bool { return c.Tier != "thorough" }

var props = map[string]func(*Ctx){}

func main() {
	prop := flag.String("prop", "", "property id")
	tier := flag.String("tier", "quick", "quick|thorough")
	seed := flag.Int64("seed", 1, "PRNG seed")
	out := flag.String("out", "cases", "output directory")
	flag.Parse()
	f, ok := props[*prop]
	if !ok {
		fmt.Fprintln(os.Stderr, "unknown property", *prop)
		os.Exit(2)
	}
	os.MkdirAll(*out, 0o755)
	cf, err := os.Create(filepath.Join(*out, *prop+".cases"))
	if err != nil {
		panic(err)
	}
	c := &Ctx{Prop: *prop, Tier: *tier, Seed: *seed, R: rand.New(rand.NewSource(*seed)),
		w: bufio.NewWriterSize(cf, 1<<20), Hist: map[string]int{}, distinct: map[string]struct{}{}}
	t0 := time.Now()
	f(c)
	c.w.Flush()
	cf.Close()
	keys := make([]string, 0, len(c.Hist))
	for k := range c.Hist {
		keys = append(keys, k)
	}
	sort.Strings(keys)
	meta := map[string]interface{}{
		"property": *prop, "tier": *tier, "seed": *seed,
		"cases": c.NCases, "distinct_cases": len(c.distinct), "oracle_checks": c.NOracle,
		"oracle_failures": c.Fails, "histogram": c.Hist, "samples": c.Samples, "notes": c.Notes,
		"wall_s": time.Since(t0).Seconds(),
	}
	mb, _ := json.MarshalIndent(meta, "", " ")
	os.WriteFile(filepath.Join(*out, *prop+".meta.json"), mb, 0o644)
}

// guard runs f and reports whether it panicked.
func guard(f func()) (panicked bool, val interface{}) {
	defer func() {
		if r := recover(); r != nil {
			panicked = true
			val = r
		}
	}()
	f()
	return
}
