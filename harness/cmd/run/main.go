// Command run is the correspondence harness: for one property it generates structured and malformed
// inputs from a single PRNG state, executes the real gokrb5 code (built from /repo/v8's working tree),
// projects the observables the property speaks about, evaluates the property's direct oracle, and writes
//
//	<out>/<ID>.cases      one line per case: fn TAB input TAB observed   (compared with the Coq model)
//	<out>/<ID>.meta.json  counts, histogram, samples, direct-oracle failures
package main

import (
	"bufio"
	"encoding/json"
	"flag"
	"fmt"
	"math/rand"
	"os"
	"path/filepath"
	"runtime/coverage"
	"sort"
	"time"

	"verif/harness/internal/hctx"
	"verif/harness/props/c15"
	"verif/harness/props/c16"
	"verif/harness/props/c19"
)

type Ctx = hctx.Ctx

var props = map[string]func(*Ctx){"C15": c15.Run, "C16": c16.Run, "C19": c19.Run}

func main() {
	// Deployments do not run in UTC: give the process a local zone with an offset, so that code which forgets .UTC()
	// shows (Kerberos times are UTC on the wire and in every comparison).
	time.Local = time.FixedZone("VERIF", 5*3600+1800)
	prop := flag.String("prop", "", "property id")
	tier := flag.String("tier", "quick", "quick|thorough")
	seed := flag.Int64("seed", 1, "PRNG seed")
	out := flag.String("out", "cases", "output directory")
	flag.Parse()
	f, ok := props[*prop]
	if !ok {
		fmt.Fprintln(os.Stderr, "unknown property", *prop)
		os.Exit(2)
	}
	os.MkdirAll(*out, 0o755)
	cf, err := os.Create(filepath.Join(*out, *prop+".cases"))
	if err != nil {
		panic(err)
	}
	c := &Ctx{Prop: *prop, Tier: *tier, Seed: *seed, R: rand.New(rand.NewSource(*seed)),
		W: bufio.NewWriterSize(cf, 1<<20), Hist: map[string]int{}, Distinct: map[string]struct{}{}}
	t0 := time.Now()
	f(c)
	c.W.Flush()
	cf.Close()
	keys := make([]string, 0, len(c.Hist))
	for k := range c.Hist {
		keys = append(keys, k)
	}
	sort.Strings(keys)
	meta := map[string]interface{}{
		"property": *prop, "tier": *tier, "seed": *seed,
		"cases": c.NCases, "distinct_cases": len(c.Distinct), "oracle_checks": c.NOracle,
		"oracle_failures": c.Fails, "oracle_failed_total": c.NFailed, "oracle_failed_by_sig": c.FailCounts(), "histogram": c.Hist, "samples": c.Samples, "notes": c.Notes,
		"wall_s": time.Since(t0).Seconds(),
	}
	mb, _ := json.MarshalIndent(meta, "", " ")
	os.WriteFile(filepath.Join(*out, *prop+".meta.json"), mb, 0o644)
	if d := os.Getenv("VERIF_COVERDIR"); d != "" {
		// a build with -cover (bin/coverage): which library code did this stream reach
		if err := coverage.WriteMetaDir(d); err != nil {
			fmt.Fprintln(os.Stderr, "coverage meta:", err)
		}
		if err := coverage.WriteCountersDir(d); err != nil {
			fmt.Fprintln(os.Stderr, "coverage counters:", err)
		}
	}
}

// guard runs f and reports whether it panicked.
func guard(f func()) (bool, interface{}) { return hctx.Guard(f) }
