package main

import (
	"bytes"
	"encoding/binary"
	"fmt"
	"github.com/jcmturner/gofork/encoding/asn1"
	"github.com/jcmturner/gokrb5/v8/asn1tools"
	"io"
	"net"
	"strings"
	"sync"
	"sync/atomic"
	"time"

	"github.com/jcmturner/gokrb5/v8/client"
	"github.com/jcmturner/gokrb5/v8/config"
	"github.com/jcmturner/gokrb5/v8/messages"
	"github.com/jcmturner/gokrb5/v8/types"
	"verif/harness/internal/jv"
)

// endpoint behaviours: 0 answers, 1 refuses, 2 closes early / empty datagram, 3 silent, 4 KRB-ERROR code
type nBeh struct {
	Kind int
	Arg  int
}

func (b nBeh) jv() jv.V {
	switch b.Kind {
	case 0, 4:
		return jv.L(jv.I(int64(b.Kind)), jv.I(int64(b.Arg)))
	}
	return jv.L(jv.I(int64(b.Kind)))
}
func (b nBeh) String() string {
	return []string{"answers", "refuses", "closes-early", "silent", "krb-error"}[b.Kind] + fmt.Sprintf("(%d)", b.Arg)
}

type attempt struct {
	kdc, tr int // tr 0 udp, 1 tcp
}

type fakeKDC struct {
	idx    int
	port   int
	udp    *net.UDPConn
	tcp    *net.TCPListener
	bu, bt nBeh
	log    *[]attempt
	mu     *sync.Mutex
	stop   chan struct{}
}

// krbErrorWire mirrors KRB-ERROR (RFC 4120 5.9.1) with the OPTIONAL ctime, cusec, crealm and cname left out, as KDCs send
// it for errors without a client timestamp (response-too-big, the first pre-authentication demand): encoded here, not by
// the library's own KRBError type.
type krbErrorWire struct {
	PVNO      int                 `asn1:"explicit,tag:0"`
	MsgType   int                 `asn1:"explicit,tag:1"`
	STime     time.Time           `asn1:"generalized,explicit,tag:4"`
	Susec     int                 `asn1:"explicit,tag:5"`
	ErrorCode int32               `asn1:"explicit,tag:6"`
	Realm     string              `asn1:"generalstring,explicit,tag:9"`
	SName     types.PrincipalName `asn1:"explicit,tag:10"`
	EText     string              `asn1:"generalstring,optional,explicit,tag:11"`
}

func krbErrBytes(code int) []byte {
	if code == 24 || code == 52 {
		b, err := asn1.Marshal(krbErrorWire{PVNO: 5, MsgType: 30, STime: time.Now().UTC().Truncate(time.Second), Susec: 17, ErrorCode: int32(code), Realm: "TEST.GOKRB5",
			SName: types.PrincipalName{NameType: 2, NameString: []string{"krbtgt", "TEST.GOKRB5"}}, EText: "simulated"})
		if err == nil {
			return asn1tools.AddASNAppTag(b, 30)
		}
	}
	e := messages.NewKRBError(types.PrincipalName{NameType: 2, NameString: []string{"krbtgt", "TEST.GOKRB5"}}, "TEST.GOKRB5", int32(code), "simulated")
	if code == 6 {
		e.EData = bytes.Repeat([]byte{0x5a}, 2000) // errors can be large too (e-data): 2 KB fits a UDP reply
	}
	b, _ := e.Marshal()
	return b
}

// answers come in sizes from a few bytes to just under the 4096 bytes a UDP reply may have
var replySizes = []int{35, 1400, 1501, 2400, 4000}

func replyBytes(b nBeh) []byte {
	if b.Kind == 4 {
		return krbErrBytes(b.Arg)
	}
	out := []byte(fmt.Sprintf("REPLY:%d:not-a-kerberos-message", b.Arg))
	for n := replySizes[b.Arg%len(replySizes)]; len(out) < n; {
		out = append(out, byte('a'+len(out)%26))
	}
	return out
}

// Ports are handed out from a private counter below the ephemeral range: a "refusing" endpoint is a closed port, and
// a port chosen by the OS could be given to another concurrently running case's listener in the meantime.
var portCounter int32

func startKDC(idx int, bu, bt nBeh, log *[]attempt, mu *sync.Mutex) (*fakeKDC, error) {
	for try := 0; try < 200; try++ {
		port := 20000 + int(atomic.AddInt32(&portCounter, 1)%10000)
		l, err := net.ListenTCP("tcp", &net.TCPAddr{IP: net.IPv4(127, 0, 0, 1), Port: port})
		if err != nil {
			continue
		}
		u, err := net.ListenUDP("udp", &net.UDPAddr{IP: net.IPv4(127, 0, 0, 1), Port: port})
		if err != nil {
			l.Close()
			continue
		}
		k := &fakeKDC{idx: idx, port: port, bu: bu, bt: bt, log: log, mu: mu, stop: make(chan struct{})}
		if bt.Kind == 1 {
			l.Close()
		} else {
			k.tcp = l
			go k.serveTCP()
		}
		if bu.Kind == 1 {
			u.Close()
		} else {
			k.udp = u
			go k.serveUDP()
		}
		return k, nil
	}
	return nil, fmt.Errorf("no port pair")
}

func (k *fakeKDC) note(tr int) {
	k.mu.Lock()
	*k.log = append(*k.log, attempt{k.idx, tr})
	k.mu.Unlock()
}

func (k *fakeKDC) serveUDP() {
	buf := make([]byte, 65536)
	for {
		n, addr, err := k.udp.ReadFromUDP(buf)
		if err != nil {
			return
		}
		_ = n
		k.note(0)
		switch k.bu.Kind {
		case 0, 4:
			k.udp.WriteToUDP(replyBytes(k.bu), addr)
		case 2:
			k.udp.WriteToUDP([]byte{}, addr) // an empty datagram: "no response data"
		case 3:
			// silent
		}
	}
}

func (k *fakeKDC) serveTCP() {
	for {
		conn, err := k.tcp.AcceptTCP()
		if err != nil {
			return
		}
		k.note(1)
		go func(conn *net.TCPConn) {
			defer conn.Close()
			switch k.bt.Kind {
			case 2:
				if k.bt.Arg%2 == 1 {
					// a short frame: header promises more than is sent
					hdr := make([]byte, 4)
					binary.BigEndian.PutUint32(hdr, 100)
					conn.Write(append(hdr, []byte("short")...))
				}
				return
			case 3:
				select {
				case <-k.stop:
				case <-time.After(8 * time.Second):
				}
				return
			}
			hdr := make([]byte, 4)
			if _, err := io.ReadFull(conn, hdr); err != nil {
				return
			}
			req := make([]byte, binary.BigEndian.Uint32(hdr))
			if _, err := io.ReadFull(conn, req); err != nil {
				return
			}
			rb := replyBytes(k.bt)
			out := make([]byte, 4)
			binary.BigEndian.PutUint32(out, uint32(len(rb)))
			conn.Write(append(out, rb...))
		}(conn)
	}
}

func (k *fakeKDC) close() {
	close(k.stop)
	if k.udp != nil {
		k.udp.Close()
	}
	if k.tcp != nil {
		k.tcp.Close()
	}
}

type netCase struct {
	mode int // 0 limit=1, 1 request <= limit, 2 request > limit
	behs [][2]nBeh
}

type netObs struct {
	class, arg int
	attempts   []attempt
	err        string
	panicked   bool
	elapsed    time.Duration
}

func runNetCase(nc netCase) netObs {
	var log []attempt
	var mu sync.Mutex
	var kdcs []*fakeKDC
	var addrs []string
	for i, b := range nc.behs {
		k, err := startKDC(i, b[0], b[1], &log, &mu)
		if err != nil {
			return netObs{class: -1, err: err.Error()}
		}
		kdcs = append(kdcs, k)
		addrs = append(addrs, fmt.Sprintf("127.0.0.1:%d", k.port))
	}
	defer func() {
		for _, k := range kdcs {
			k.close()
		}
	}()
	cfg := config.New()
	cfg.LibDefaults.DefaultRealm = "TEST.GOKRB5"
	cfg.LibDefaults.DNSLookupKDC = false
	req := make([]byte, 200)
	switch nc.mode {
	case 0:
		cfg.LibDefaults.UDPPreferenceLimit = 1
	case 1:
		cfg.LibDefaults.UDPPreferenceLimit = 1465
	case 2:
		cfg.LibDefaults.UDPPreferenceLimit = 100
	}
	cfg.Realms = []config.Realm{{Realm: "TEST.GOKRB5", KDC: append([]string{}, addrs...)}}
	cl := client.NewWithPassword("user", "TEST.GOKRB5", "pw", cfg)
	var rb []byte
	var err error
	t0 := time.Now()
	p, _ := guard(func() { rb, err = cl.VerifSendToKDC(req, "TEST.GOKRB5") })
	o := netObs{elapsed: time.Since(t0), panicked: p}
	mu.Lock()
	o.attempts = append(o.attempts, log...)
	mu.Unlock()
	switch {
	case p:
		o.class = -2
	case err != nil:
		if ke, ok := err.(messages.KRBError); ok {
			o.class, o.arg = 1, int(ke.ErrorCode)
		} else {
			o.class = 2
			o.err = err.Error()
		}
	default:
		o.class = 0
		o.arg = -1
		s := string(rb)
		if strings.HasPrefix(s, "REPLY:") {
			fmt.Sscanf(s, "REPLY:%d:", &o.arg)
			if !bytes.Equal(rb, replyBytes(nBeh{0, o.arg})) {
				o.err = fmt.Sprintf("the answer of endpoint %d came back as %d of its %d bytes", o.arg, len(rb), len(replyBytes(nBeh{0, o.arg})))
				o.arg = -1 // not the KDC's answer
			}
		}
	}
	return o
}

func c12(c *Ctx) {
	ub := []nBeh{{0, 0}, {1, 0}, {2, 0}, {3, 0}, {4, 6}, {4, 52}}
	tb := []nBeh{{0, 0}, {1, 0}, {2, 0}, {2, 1}, {3, 0}, {4, 24}}
	var cases []netCase
	id := 1
	mk := func(b nBeh) nBeh {
		if b.Kind == 0 {
			b.Arg = id
			id++
		}
		return b
	}
	// one KDC: every assignment x every mode
	for mode := 0; mode < 3; mode++ {
		for _, u := range ub {
			for _, t := range tb {
				if c.Quick() && u.Kind == 3 && t.Kind == 3 {
					continue
				}
				cases = append(cases, netCase{mode, [][2]nBeh{{mk(u), mk(t)}}})
			}
		}
	}
	// two and three KDCs: sampled (quick) / all pairs (thorough)
	n2 := 140
	n3 := 40
	if !c.Quick() {
		n2, n3 = 1500, 400
	}
	pick := func(maxSilent *int) [2]nBeh {
		for {
			u, t := ub[c.R.Intn(len(ub))], tb[c.R.Intn(len(tb))]
			s := 0
			if u.Kind == 3 {
				s++
			}
			if t.Kind == 3 {
				s++
			}
			if s <= *maxSilent {
				*maxSilent -= s
				return [2]nBeh{mk(u), mk(t)}
			}
		}
	}
	for i := 0; i < n2+n3; i++ {
		nk := 2
		if i >= n2 {
			nk = 3
		}
		ms := 1
		if !c.Quick() {
			ms = 2
		}
		var bs [][2]nBeh
		for k := 0; k < nk; k++ {
			bs = append(bs, pick(&ms))
		}
		cases = append(cases, netCase{c.R.Intn(3), bs})
	}
	// run in parallel
	obs := make([]netObs, len(cases))
	sem := make(chan struct{}, 48)
	var wg sync.WaitGroup
	var doneN int32
	for i := range cases {
		wg.Add(1)
		sem <- struct{}{}
		go func(i int) {
			defer wg.Done()
			obs[i] = runNetCase(cases[i])
			atomic.AddInt32(&doneN, 1)
			<-sem
		}(i)
	}
	wg.Wait()
	for i, nc := range cases {
		o := obs[i]
		if o.class == -1 {
			c.Notes = append(c.Notes, "endpoint setup failed: "+o.err)
			continue
		}
		c.Count(fmt.Sprintf("mode=%d", nc.mode))
		c.Count(fmt.Sprintf("kdcs=%d", len(nc.behs)))
		var jb []jv.V
		visible := func(a attempt) bool { return nc.behs[a.kdc][a.tr].Kind != 1 }
		anyLive := [2]bool{}
		liveDead := true
		for _, b := range nc.behs {
			jb = append(jb, jv.L(b[0].jv(), b[1].jv()))
			for tr := 0; tr < 2; tr++ {
				c.Count("endpoint:" + []string{"udp", "tcp"}[tr] + ":" + []string{"answers", "refuses", "closes-early", "silent", "krb-error"}[b[tr].Kind])
				if b[tr].Kind == 0 {
					anyLive[tr] = true
				}
				if b[tr].Kind == 4 {
					liveDead = false
				}
			}
		}
		// server orders consistent with the attempts seen by the endpoints, completed arbitrarily
		orders := [2][]int{}
		for tr := 0; tr < 2; tr++ {
			seen := map[int]bool{}
			for _, a := range o.attempts {
				if a.tr == tr && !seen[a.kdc] {
					orders[tr] = append(orders[tr], a.kdc)
					seen[a.kdc] = true
				}
			}
			for k := range nc.behs {
				if !seen[k] {
					orders[tr] = append(orders[tr], k)
				}
			}
		}
		ji := func(xs []int) jv.V {
			var v []jv.V
			for _, x := range xs {
				v = append(v, jv.I(int64(x)))
			}
			return jv.L(v...)
		}
		var ja []jv.V
		for _, a := range o.attempts {
			ja = append(ja, jv.L(jv.I(int64(a.kdc)), jv.I(int64(a.tr))))
		}
		in := jv.L(jv.I(int64(nc.mode)), jv.L(jb...), ji(orders[0]), ji(orders[1]))
		if o.panicked {
			c.Case("send_to_kdc_visible", jv.L(in), jv.Panic())
		} else {
			arg := o.arg
			if o.class == 2 {
				arg = 0
			}
			c.Case("send_to_kdc_visible", in, jv.Ok(jv.I(int64(o.class)), jv.I(int64(arg)), jv.L(ja...)))
		}
		_ = visible
		// direct oracle: some permitted endpoint answers and all others are dead => an answer is returned
		inp := map[string]interface{}{"mode": nc.mode, "behaviours": fmt.Sprint(nc.behs)}
		permittedLive := anyLive[1] || (nc.mode != 0 && anyLive[0])
		if liveDead && permittedLive {
			c.Check(o.class == 0 && o.arg > 0, "a working KDC/transport exists and the others are dead: the exchange returns its answer", "failover-lost", fmt.Sprintf("class=%d arg=%d err=%s", o.class, o.arg, o.err), inp)
		}
		allDead := liveDead && !anyLive[0] && !anyLive[1]
		if allDead {
			c.Check(o.class == 2, "no server works: the call fails with an error", "all-dead-no-error", fmt.Sprintf("class=%d", o.class), inp)
		}
		c.Check(!o.panicked, "no panic", "panic", "", inp)
		c.Check(len(o.attempts) <= 2*len(nc.behs), "bounded number of attempts", "attempts-unbounded", fmt.Sprint(len(o.attempts)), inp)
		if o.class == 1 {
			found := false
			for _, b := range nc.behs {
				for tr := 0; tr < 2; tr++ {
					if b[tr].Kind == 4 && b[tr].Arg == o.arg {
						found = true
					}
				}
			}
			c.Check(found, "a surfaced KRB-ERROR code is one a KDC sent", "krberror-invented", "", inp)
		}
		// the theorems of props/C12b.v as direct oracles on the implementation
		if !o.panicked {
			dup := false
			seenAt := map[[2]int]bool{}
			for _, a := range o.attempts {
				key := [2]int{a.kdc, int(a.tr)}
				if seenAt[key] {
					dup = true
				}
				seenAt[key] = true
			}
			c.Check(!dup, "no endpoint is tried twice in one exchange", "attempt-repeated", fmt.Sprint(o.attempts), inp)
			if o.class == 0 {
				given := false
				for _, b := range nc.behs {
					for tr := 0; tr < 2; tr++ {
						if b[tr].Kind == 0 && b[tr].Arg == o.arg && (tr == 1 || nc.mode != 0) {
							given = true
						}
					}
				}
				c.Check(given, "a reply handed to the caller is one a configured KDC gave over a permitted transport", "reply-invented", fmt.Sprintf("arg=%d", o.arg), inp)
			}
			if o.class == 2 {
				tcpLive := false
				for _, b := range nc.behs {
					if b[1].Kind == 0 {
						tcpLive = true
					}
				}
				c.Check(!tcpLive, "a communication error is returned only if no TCP endpoint answers", "commerr-with-live-tcp", fmt.Sprintf("err=%s", o.err), inp)
			}
		}
	}
}

func init() { props["C12"] = c12 }
