package main

// Minting of service tickets and AP-REQs with full control over every sealed field and every defect of the
// C01 catalogue.  Used by C01, C03 and C18.

import (
	"fmt"
	"time"

	"github.com/jcmturner/gofork/encoding/asn1"
	"github.com/jcmturner/gokrb5/v8/asn1tools"
	"github.com/jcmturner/gokrb5/v8/crypto"
	"github.com/jcmturner/gokrb5/v8/keytab"
	"github.com/jcmturner/gokrb5/v8/messages"
	"github.com/jcmturner/gokrb5/v8/types"
	"verif/harness/internal/jv"
)

type testService struct {
	kt    *keytab.Keytab
	realm string
	sname []string
	kvno  int
	keys  map[int32]types.EncryptionKey
}

func newTestService(c *Ctx, sname []string) *testService {
	s := &testService{kt: keytab.New(), realm: "TEST.GOKRB5", sname: sname, kvno: 3, keys: map[int32]types.EncryptionKey{}}
	princ := joinSlash(sname)
	for _, et := range allEtypes {
		pw := "svc-password-" + princ
		if err := s.kt.AddEntry(princ, s.realm, pw, time.Unix(1600000000, 0), uint8(s.kvno), et); err != nil {
			panic(err)
		}
		k, _, err := s.kt.GetEncryptionKey(types.PrincipalName{NameType: 2, NameString: sname}, s.realm, s.kvno, et)
		if err != nil {
			panic(err)
		}
		s.keys[et] = k
	}
	return s
}

// recipe describes one AP-REQ to mint; zero values give a valid request.
type recipe struct {
	et         int32 // etype of the ticket and of the session key
	now        time.Time
	cname      []string
	crealm     string
	tktRealm   string
	tktSName   []string
	kvno       int
	encEType   int32 // etype announced in the ticket's EncryptedData
	tktKey     types.EncryptionKey
	tktUsage   uint32
	flags      []byte
	start      time.Time // zero = absent
	end        time.Time
	caddr      []types.HostAddress
	authCName  []string
	authCRealm string
	ctime      time.Time // includes microseconds
	authUsage  uint32
	authKey    *types.EncryptionKey
	flipTkt    int // bit index to flip in the ticket cipher, -1 none
	truncTkt   int // bytes to keep, -1 all
	flipAuth   int
	truncAuth  int
	authData   types.AuthorizationData // sealed authorization data (nil: none)
	badPAC     bool                    // authData carries a PAC whose server signature does not verify
	trailer    bool                    // an unsealed EncTicketPart travels after enc-part (Ticket.Unmarshal fills DecryptedEncPart from it)
}

type minted struct {
	req        messages.APReq
	sessionKey types.EncryptionKey
	r          recipe
}

var cusecCounter int

func baseRecipe(c *Ctx, s *testService, et int32) recipe {
	now := time.Now().UTC()
	cusecCounter++
	// every third client comes from another realm than the service (a cross-realm ticket): the accepted
	// identity is the sealed crealm, never the ticket's cleartext realm
	cr := "TEST.GOKRB5"
	if cusecCounter%3 == 0 {
		cr = "PARTNER.EXAMPLE"
	}
	return recipe{et: et, now: now, cname: []string{"testuser1"}, crealm: cr, tktRealm: s.realm, tktSName: s.sname,
		kvno: s.kvno, encEType: et, tktKey: s.keys[et], tktUsage: 2, flags: []byte{0x40, 0x80, 0, 0},
		start: now.Add(-time.Hour).Truncate(time.Second), end: now.Add(8 * time.Hour).Truncate(time.Second),
		authCName: []string{"testuser1"}, authCRealm: cr,
		ctime: now.Truncate(time.Second).Add(time.Duration(cusecCounter%900000) * time.Microsecond), authUsage: 11,
		flipTkt: -1, truncTkt: -1, flipAuth: -1, truncAuth: -1}
}

func mint(c *Ctx, r recipe) minted {
	e, _ := crypto.GetEtype(r.et)
	sk := make([]byte, e.GetKeyByteSize())
	c.R.Read(sk)
	if forcedSession != nil {
		sk = forcedSession
	}
	session := types.EncryptionKey{KeyType: r.et, KeyValue: sk}
	etp := messages.EncTicketPart{
		Flags:     asn1.BitString{Bytes: r.flags, BitLength: len(r.flags) * 8},
		Key:       session,
		CRealm:    r.crealm,
		CName:     types.PrincipalName{NameType: 1, NameString: r.cname},
		Transited: messages.TransitedEncoding{},
		AuthTime:  r.now.Add(-2 * time.Hour).Truncate(time.Second),
		StartTime: r.start,
		EndTime:   r.end,
		CAddr:     r.caddr,
	}
	if forcedAuthData != nil {
		etp.AuthorizationData = forcedAuthData
	}
	if r.authData != nil {
		etp.AuthorizationData = r.authData
	}
	b, err := asn1.Marshal(etp)
	if err != nil {
		panic(err)
	}
	b = asn1tools.AddASNAppTag(b, 3)
	ed, err := crypto.GetEncryptedData(b, r.tktKey, r.tktUsage, r.kvno)
	if err != nil {
		panic(err)
	}
	ed.EType = r.encEType
	if r.flipTkt >= 0 {
		bit := r.flipTkt % (len(ed.Cipher) * 8)
		ed.Cipher = append([]byte{}, ed.Cipher...)
		ed.Cipher[bit/8] ^= 1 << uint(bit%8)
	}
	if r.truncTkt >= 0 && r.truncTkt < len(ed.Cipher) {
		ed.Cipher = ed.Cipher[:r.truncTkt]
	}
	tkt := messages.Ticket{TktVNO: 5, Realm: r.tktRealm, SName: types.PrincipalName{NameType: 2, NameString: r.tktSName}, EncPart: ed}
	if r.trailer {
		// optional fields only: none of them is sealed, so none may influence the verdict or the identity
		tkt.DecryptedEncPart = messages.EncTicketPart{
			CAddr:     []types.HostAddress{addrA},
			StartTime: r.now.Add(48 * time.Hour).Truncate(time.Second),
			RenewTill: r.now.Add(-48 * time.Hour).Truncate(time.Second),
		}
	}
	sec := r.ctime.Truncate(time.Second)
	auth := types.Authenticator{AVNO: 5, CRealm: r.authCRealm, CName: types.PrincipalName{NameType: 1, NameString: r.authCName},
		Cusec: int(r.ctime.Sub(sec) / time.Microsecond), CTime: sec, SeqNumber: int64(c.R.Intn(1 << 30))}
	ab, err := auth.Marshal()
	if err != nil {
		panic(err)
	}
	ak := session
	if r.authKey != nil {
		ak = *r.authKey
	}
	aed, err := crypto.GetEncryptedData(ab, ak, r.authUsage, r.kvno)
	if err != nil {
		panic(err)
	}
	if r.flipAuth >= 0 {
		bit := r.flipAuth % (len(aed.Cipher) * 8)
		aed.Cipher = append([]byte{}, aed.Cipher...)
		aed.Cipher[bit/8] ^= 1 << uint(bit%8)
	}
	if r.truncAuth >= 0 && r.truncAuth < len(aed.Cipher) {
		aed.Cipher = aed.Cipher[:r.truncAuth]
	}
	req := messages.APReq{PVNO: 5, MsgType: 14, APOptions: types.NewKrbFlags(), Ticket: tkt, EncryptedAuthenticator: aed}
	return minted{req: req, sessionKey: session, r: r}
}

func jAddr(a types.HostAddress) jv.V { return jv.L(jv.I(int64(a.AddrType)), jv.B(a.Address)) }

// jv projections of what was put on the wire and what was sealed inside
func (m minted) jTicket() jv.V {
	t := m.req.Ticket
	return jv.L(jv.S(t.Realm), jv.Strs(t.SName.NameString), jv.I(int64(t.EncPart.EType)), jv.I(int64(t.EncPart.KVNO)), jv.B(t.EncPart.Cipher))
}
func (m minted) jSealedTicket() jv.V {
	r := m.r
	st := jv.L()
	if !r.start.IsZero() {
		st = jv.L(jv.I(r.start.Unix()))
	}
	var ca []jv.V
	for _, a := range r.caddr {
		ca = append(ca, jAddr(a))
	}
	return jv.L(jv.B(r.flags), jv.I(int64(m.sessionKey.KeyType)), jv.B(m.sessionKey.KeyValue), jv.S(r.crealm), jv.Strs(r.cname), st, jv.I(r.end.Unix()), jv.L(ca...))
}
func (m minted) jAuthEnc() jv.V {
	return jv.L(jv.I(int64(m.req.EncryptedAuthenticator.EType)), jv.B(m.req.EncryptedAuthenticator.Cipher))
}
func (m minted) jSealedAuth() jv.V {
	r := m.r
	sec := r.ctime.Truncate(time.Second)
	return jv.L(jv.S(r.authCRealm), jv.Strs(r.authCName), jv.I(sec.Unix()), jv.I(int64(r.ctime.Sub(sec)/time.Microsecond)))
}

// checkPrincipalEqual compares types.PrincipalName.Equal - the helper behind the client-name check of AP-REQs, the
// replay cache's service match, reply verification and credential-cache look-up - with the RFC 4120 6.2 rule stated
// independently: same number of components, each equal as a string, the name type not significant.
func checkPrincipalEqual(c *Ctx) {
	names := [][]string{{}, {""}, {"", ""}, {"a"}, {"a", "b"}, {"a/b"}, {"a", "b", "c"}, {"a/b", "c"}, {"a", "b/c"}, {"a/b/c"}, {"A"}, {"a", ""}, {"", "a"},
		{"krbtgt", "TEST.GOKRB5"}, {"krbtgt/TEST.GOKRB5"}, {"HTTP", "host.test.gokrb5"}, {"HTTP", "host.test.gokrb5", ""}, {"testuser1"}, {"testuser1 "}, {"testuser1@TEST.GOKRB5"}}
	for i, a := range names {
		for j, b := range names {
			for _, nt := range [][2]int32{{1, 1}, {1, 2}, {2, 3}, {0, 10}} {
				want := len(a) == len(b)
				if want {
					for k := range a {
						if a[k] != b[k] {
							want = false
						}
					}
				}
				pa, pb := types.PrincipalName{NameType: nt[0], NameString: a}, types.PrincipalName{NameType: nt[1], NameString: b}
				var got bool
				p, _ := guard(func() { got = pa.Equal(pb) })
				c.Check(!p && got == want, "PrincipalName.Equal: same components, name type not significant (RFC 4120 6.2)", "principal-equal", fmt.Sprintf("%q (type %d) vs %q (type %d): got %v want %v", a, nt[0], b, nt[1], got, want), map[string]interface{}{"i": i, "j": j})
			}
		}
	}
	c.Count("principal-equal-pairs")
	checkSharedHelpers(c)
}
