package main

import (
	"fmt"
	"github.com/jcmturner/gofork/encoding/asn1"
	"strings"
	"time"
	"verif/harness/props/c01b"
	"verif/harness/props/c19"

	"github.com/jcmturner/gokrb5/v8/credentials"
	"github.com/jcmturner/gokrb5/v8/messages"
	"github.com/jcmturner/gokrb5/v8/service"
	"github.com/jcmturner/gokrb5/v8/types"
	"verif/harness/internal/jv"
)

type defect struct {
	name        string
	invalidates bool
	apply       func(c *Ctx, s *testService, r *recipe, d time.Duration)
}

var addrA = types.HostAddress{AddrType: 2, Address: []byte{10, 1, 2, 3}}
var addrB = types.HostAddress{AddrType: 2, Address: []byte{10, 9, 9, 9}}

func defectCatalogue() []defect {
	return []defect{
		{"wrong-key", true, func(c *Ctx, s *testService, r *recipe, d time.Duration) { r.tktKey = randKey(c, r.et) }},
		{"wrong-kvno", true, func(c *Ctx, s *testService, r *recipe, d time.Duration) { r.kvno = s.kvno + 1 }},
		{"kvno-plus-256", true, func(c *Ctx, s *testService, r *recipe, d time.Duration) { r.kvno = s.kvno + 256*(1+c.R.Intn(300)) }},
		{"ctime-late-subsecond", true, func(c *Ctx, s *testService, r *recipe, d time.Duration) {
			r.ctime = r.ctime.Add(-d - 600*time.Millisecond)
		}},
		{"end-outside-subsecond", true, func(c *Ctx, s *testService, r *recipe, d time.Duration) {
			// ticket times have whole seconds on the wire: end lies between d+0.2s and d+1.2s in the past
			r.end = r.now.Add(-d - 1200*time.Millisecond).Truncate(time.Second)
		}},
		{"broken-pac", false, func(c *Ctx, s *testService, r *recipe, d time.Duration) {
			// AD-IF-RELEVANT { AD-WIN2K-PAC: a PACTYPE header that announces more buffers than it has bytes for }:
			// invalid exactly when PAC decoding is enabled (decided in run)
			inner, _ := asn1.Marshal(types.AuthorizationData{{ADType: 128, ADData: []byte{5, 0, 0, 0, 0, 0, 0, 0, 1, 0, 0, 0}}})
			r.authData = types.AuthorizationData{{ADType: 1, ADData: inner}}
		}},
		{"valid-pac", false, func(c *Ctx, s *testService, r *recipe, d time.Duration) {
			// a PAC correctly signed under the service's key: the request stays valid, PAC decoding on or off
			if b, ok := c19.SignedPAC(c, r.et, s.keys[r.et].KeyValue, -1, false); ok {
				r.authData = c19.ADIfRelevantPAC(b)
			}
		}},
		{"valid-pac-rodc", false, func(c *Ctx, s *testService, r *recipe, d time.Duration) {
			// ... issued by a read-only domain controller: an RODCIdentifier follows each signature value
			if b, ok := c19.SignedPAC(c, r.et, s.keys[r.et].KeyValue, 0x4a2b, false); ok {
				r.authData = c19.ADIfRelevantPAC(b)
			}
		}},
		{"pac-bad-signature", false, func(c *Ctx, s *testService, r *recipe, d time.Duration) {
			// a PAC altered after signing: invalid exactly when PAC decoding is enabled (decided in run)
			if b, ok := c19.SignedPAC(c, r.et, s.keys[r.et].KeyValue, -1, true); ok {
				r.authData, r.badPAC = c19.ADIfRelevantPAC(b), true
			}
		}},
		{"wrong-etype", true, func(c *Ctx, s *testService, r *recipe, d time.Duration) {
			r.encEType = map[int32]int32{17: 18, 18: 17, 19: 20, 20: 19, 23: 17, 16: 23}[r.et]
		}},
		{"wrong-realm", true, func(c *Ctx, s *testService, r *recipe, d time.Duration) { r.tktRealm = "OTHER.REALM" }},
		{"wrong-sname", true, func(c *Ctx, s *testService, r *recipe, d time.Duration) {
			r.tktSName = []string{"HTTP", "other.test.gokrb5"}
		}},
		{"start-outside", true, func(c *Ctx, s *testService, r *recipe, d time.Duration) {
			r.start = r.now.Add(d + 3*time.Second).Truncate(time.Second)
		}},
		{"start-inside", false, func(c *Ctx, s *testService, r *recipe, d time.Duration) {
			r.start = r.now.Add(d - 3*time.Second).Truncate(time.Second)
		}},
		{"start-absent", false, func(c *Ctx, s *testService, r *recipe, d time.Duration) { r.start = time.Time{} }},
		{"end-outside", true, func(c *Ctx, s *testService, r *recipe, d time.Duration) {
			r.end = r.now.Add(-d - 3*time.Second).Truncate(time.Second)
		}},
		{"end-inside", false, func(c *Ctx, s *testService, r *recipe, d time.Duration) {
			r.end = r.now.Add(-d + 3*time.Second).Truncate(time.Second)
		}},
		{"flip-ticket", true, func(c *Ctx, s *testService, r *recipe, d time.Duration) { r.flipTkt = c.R.Intn(1 << 20) }},
		{"trunc-ticket", true, func(c *Ctx, s *testService, r *recipe, d time.Duration) { r.truncTkt = c.R.Intn(60) }},
		{"flip-auth", true, func(c *Ctx, s *testService, r *recipe, d time.Duration) { r.flipAuth = c.R.Intn(1 << 20) }},
		{"trunc-auth", true, func(c *Ctx, s *testService, r *recipe, d time.Duration) { r.truncAuth = c.R.Intn(40) }},
		{"cname-mismatch", true, func(c *Ctx, s *testService, r *recipe, d time.Duration) { r.authCName = []string{"administrator"} }},
		{"cname-prefix", true, func(c *Ctx, s *testService, r *recipe, d time.Duration) {
			r.authCName = append(append([]string{}, r.cname...), "admin")
		}},
		{"cname-shorter", true, func(c *Ctx, s *testService, r *recipe, d time.Duration) {
			// the authenticator names a proper prefix of the client principal sealed in the ticket
			r.cname = []string{"testuser1", "admin"}
			r.authCName = []string{"testuser1"}
		}},
		{"cname-empty", true, func(c *Ctx, s *testService, r *recipe, d time.Duration) { r.authCName = []string{} }},
		{"cname-boundary", true, func(c *Ctx, s *testService, r *recipe, d time.Duration) {
			// same "/"-joined string, different components
			r.cname = []string{"host", "client.test.gokrb5"}
			r.authCName = []string{"host/client.test.gokrb5"}
		}},
		{"crealm-mismatch", true, func(c *Ctx, s *testService, r *recipe, d time.Duration) { r.authCRealm = "EVIL.REALM" }},
		{"ticket-usage", true, func(c *Ctx, s *testService, r *recipe, d time.Duration) { r.tktUsage = 3 }},
		{"auth-usage", true, func(c *Ctx, s *testService, r *recipe, d time.Duration) { r.authUsage = 7 }},
		{"auth-key", true, func(c *Ctx, s *testService, r *recipe, d time.Duration) { k := randKey(c, r.et); r.authKey = &k }},
		{"invalid-flag", true, func(c *Ctx, s *testService, r *recipe, d time.Duration) { r.flags = []byte{0x41, 0x80, 0, 0} }},
		{"invalid-flag-no-start", true, func(c *Ctx, s *testService, r *recipe, d time.Duration) {
			// INVALID and no starttime at all (an OPTIONAL field): still a ticket no server may accept
			r.flags = []byte{0x41, 0x80, 0, 0}
			r.start = time.Time{}
		}},
		{"other-flags", false, func(c *Ctx, s *testService, r *recipe, d time.Duration) { r.flags = []byte{0xfe, 0xff, 0xff, 0xff} }},
		{"ctime-late", true, func(c *Ctx, s *testService, r *recipe, d time.Duration) { r.ctime = r.ctime.Add(-d - 3*time.Second) }},
		{"ctime-early", true, func(c *Ctx, s *testService, r *recipe, d time.Duration) { r.ctime = r.ctime.Add(d + 3*time.Second) }},
		{"ctime-inside", false, func(c *Ctx, s *testService, r *recipe, d time.Duration) { r.ctime = r.ctime.Add(d - 3*time.Second) }},
		{"unsealed-trailer", false, func(c *Ctx, s *testService, r *recipe, d time.Duration) { r.trailer = true }},
		{"multi-component-client", false, func(c *Ctx, s *testService, r *recipe, d time.Duration) {
			r.cname = []string{"host", "client.test.gokrb5"}
			r.authCName = r.cname
		}},
	}
}

type svcSettings struct {
	skew        time.Duration
	requireAddr bool
	clientAddr  *types.HostAddress
	override    bool
	decodePAC   bool
}

func (ss svcSettings) String() string {
	return fmt.Sprintf("skew=%v requireAddr=%v clientAddr=%v override=%v pac=%v", ss.skew, ss.requireAddr, ss.clientAddr != nil, ss.override, ss.decodePAC)
}

func c01(c *Ctx) {
	checkPrincipalEqual(c)
	s := newTestService(c, []string{"HTTP", "host.test.gokrb5"})
	cat := defectCatalogue()
	skews := []time.Duration{10 * time.Second, 5 * time.Minute, time.Hour}
	var settingsList []svcSettings
	for _, sk := range skews {
		for m := 0; m < 16; m++ {
			ss := svcSettings{skew: sk, requireAddr: m&1 != 0, override: m&4 != 0, decodePAC: m&8 != 0}
			if m&2 != 0 {
				ss.clientAddr = &addrA
			}
			settingsList = append(settingsList, ss)
		}
	}
	run := func(et int32, ss svcSettings, defs []int, ticketAddr int, tag string) {
		r := baseRecipe(c, s, et)
		if ss.override {
			// the ticket names an alias; the keytab principal override selects the key
			r.tktSName = []string{"HTTP", "alias.test.gokrb5"}
		}
		switch ticketAddr {
		case 1:
			r.caddr = []types.HostAddress{addrA}
		case 2:
			r.caddr = []types.HostAddress{addrB, addrA}
		case 3:
			r.caddr = []types.HostAddress{addrB}
		}
		invalid := false
		names := ""
		for _, di := range defs {
			cat[di].apply(c, s, &r, ss.skew)
			if cat[di].invalidates {
				invalid = true
			}
			names += cat[di].name + "+"
		}
		if ss.override && containsDefect(cat, defs, "wrong-sname") {
			// with an override the ticket's own sname is not used for the key look-up
			invalid = false
			for _, di := range defs {
				if cat[di].invalidates && cat[di].name != "wrong-sname" {
					invalid = true
				}
			}
		}
		pacCase := containsDefect(cat, defs, "broken-pac") || r.badPAC
		if pacCase && ss.decodePAC {
			invalid = true
		}
		// address requirements
		if len(r.caddr) > 0 {
			ok := false
			for _, a := range r.caddr {
				if ss.clientAddr != nil && a.Equal(*ss.clientAddr) {
					ok = true
				}
			}
			if !ok {
				invalid = true
			}
		} else if ss.requireAddr {
			invalid = true
		}
		m := mint(c, r)
		opts := []func(*service.Settings){service.MaxClockSkew(ss.skew), service.RequireHostAddr(ss.requireAddr), service.DecodePAC(ss.decodePAC)}
		if ss.clientAddr != nil {
			opts = append(opts, service.ClientAddress(*ss.clientAddr))
		}
		if ss.override {
			opts = append(opts, service.KeytabPrincipal(joinSlash(s.sname)))
		}
		st := service.NewSettings(s.kt, opts...)
		req := m.req
		t0 := time.Now().UTC()
		var ok bool
		var creds *credentials.Credentials
		var err error
		p, _ := guard(func() { ok, creds, err = service.VerifyAPREQ(&req, st) })
		// model input
		ca := jv.L(jv.I(0), jv.B(nil))
		if ss.clientAddr != nil {
			ca = jAddr(*ss.clientAddr)
		}
		ov := jv.L()
		if ss.override {
			ov = jv.L(jv.Strs(s.sname))
		}
		jst := jv.L(jv.I(int64(ss.skew/time.Microsecond)), jv.Bool(ss.requireAddr), ca, ov)
		in := jv.L(jst, projKeytab(s.kt, 2), jv.I(t0.UnixNano()/1000), jv.L(), m.jTicket(), m.jSealedTicket(), m.jAuthEnc(), m.jSealedAuth())
		var obs jv.V
		switch {
		case p:
			obs = jv.Panic()
		case ok && err == nil && creds != nil:
			obs = jv.Ok(jv.S(creds.UserName()), jv.S(creds.Domain()), jv.Strs(creds.CName().NameString), jv.I(creds.ValidUntil().Unix()))
		default:
			obs = jv.Err()
		}
		if !pacCase {
			c.Case("verify_apreq", in, obs) // PAC processing is outside this model (C19): direct oracle only
		}
		c.Count("etype=" + fmt.Sprint(et))
		c.Count("defects=" + fmt.Sprint(len(defs)))
		for _, di := range defs {
			c.Count("defect:" + cat[di].name)
		}
		inp := map[string]interface{}{"etype": et, "settings": ss.String(), "defects": names, "ticketAddr": ticketAddr}
		accepted := !p && ok && err == nil
		c.Check(!p, "verification never panics", "panic:"+names, "", inp)
		c.Check(accepted == !invalid, "accepted iff the request is valid per RFC 4120 3.2.3 under the settings", "verdict:"+names, fmt.Sprintf("accepted=%v expected=%v err=%v", accepted, !invalid, err), inp)
		if accepted {
			good := creds.UserName() == joinSlash(r.cname) && creds.Domain() == r.crealm && creds.ValidUntil().Unix() == r.end.Unix() && sameStrs(creds.CName().NameString, r.cname)
			c.Check(good, "identity reported is the one sealed in the ticket", "identity:"+names, fmt.Sprintf("user=%q domain=%q", creds.UserName(), creds.Domain()), inp)
			// the same AP-REQ again is a replay
			req2 := m.req
			var ok2 bool
			var err2 error
			p2, _ := guard(func() { ok2, _, err2 = service.VerifyAPREQ(&req2, st) })
			isRepeat := false
			if ke, isK := err2.(messages.KRBError); isK && ke.ErrorCode == 34 {
				isRepeat = true
			}
			c.Check(!p2 && !ok2 && isRepeat, "a second presentation is rejected as a replay", "replay-accepted", fmt.Sprint(err2), inp)
			// model: replay cache now holds the authenticator
			sec := r.ctime.Truncate(time.Second)
			ctus := sec.Unix()*1000000 + int64(r.ctime.Sub(sec)/time.Microsecond)
			// the cache remembers the authenticator for the principal whose key decrypted the ticket
			effS := r.tktSName
			if ss.override {
				effS = s.sname
			}
			rc := jv.L(jv.L(jv.S(joinSlash(r.authCName)), jv.I(ctus), jv.Strs(effS)))
			in2 := jv.L(jst, projKeytab(s.kt, 2), jv.I(time.Now().UTC().UnixNano()/1000), rc, m.jTicket(), m.jSealedTicket(), m.jAuthEnc(), m.jSealedAuth())
			o2 := jv.Err()
			if p2 {
				o2 = jv.Panic()
			} else if ok2 {
				o2 = jv.Ok()
			}
			c.Case("verify_apreq", in2, o2)
			// ... and again with the ticket's service name - which nothing protects - rewritten: with a keytab principal
			// override the key is still found, and it still is the same authenticator presented to the same service
			recased := append([]string{}, m.req.Ticket.SName.NameString...)
			if n := len(recased); n > 0 && len(recased[n-1]) > 0 {
				recased[n-1] = strings.ToUpper(recased[n-1][:1]) + recased[n-1][1:]
			}
			for vi, newName := range [][]string{{"HTTP", "renamed.test.gokrb5"}, recased} {
				m3 := m
				m3.req.Ticket.SName = types.PrincipalName{NameType: m.req.Ticket.SName.NameType, NameString: newName}
				req3 := m3.req
				var ok3 bool
				var err3 error
				p3, _ := guard(func() { ok3, _, err3 = service.VerifyAPREQ(&req3, st) })
				c.Check(!p3 && !ok3, "an accepted request presented again with its unprotected service name rewritten is not accepted", "replay-renamed-accepted", fmt.Sprintf("variant %d %q: %v", vi, newName, err3), inp)
				in3 := jv.L(jst, projKeytab(s.kt, 2), jv.I(time.Now().UTC().UnixNano()/1000), rc, m3.jTicket(), m.jSealedTicket(), m.jAuthEnc(), m.jSealedAuth())
				o3 := jv.Err()
				if p3 {
					o3 = jv.Panic()
				} else if ok3 {
					o3 = jv.Ok()
				}
				c.Case("verify_apreq", in3, o3)
			}
			c.Count("replay-renamed")
		}
	}
	base := settingsList[16] // 5 min skew, nothing else
	for _, et := range allEtypes {
		// valid requests under every settings combination and ticket address variant
		for si, ss := range settingsList {
			if c.Quick() && si%3 != int(et)%3 {
				continue
			}
			for ta := 0; ta < 4; ta++ {
				if c.Quick() && (si+ta)%2 == 1 {
					continue
				}
				run(et, ss, nil, ta, "valid")
			}
		}
		// every single defect
		for di := range cat {
			run(et, base, []int{di}, 0, "single")
			if strings.Contains(cat[di].name, "pac") {
				// what a PAC does to the verdict shows only where PAC decoding is on
				run(et, svcSettings{skew: 5 * time.Minute, decodePAC: true}, []int{di}, 0, "single-pac-decoding")
				run(et, svcSettings{skew: 5 * time.Minute, decodePAC: true, override: true}, []int{di}, 1, "single-pac-decoding")
			}
			if !c.Quick() || di%4 == int(et)%4 {
				run(et, settingsList[c.R.Intn(len(settingsList))], []int{di}, c.R.Intn(4), "single-settings")
			}
		}
		// unsealed optional fields after enc-part: with no sealed addresses / start time they must stay absent
		if ti := defectIndex(cat, "unsealed-trailer"); ti >= 0 {
			for _, sk := range skews {
				run(et, svcSettings{skew: sk, requireAddr: true, clientAddr: &addrA}, []int{ti}, 0, "trailer-addr")
			}
			run(et, svcSettings{skew: 5 * time.Minute, clientAddr: &addrA}, []int{ti}, 3, "trailer-addr-other")
			run(et, base, []int{ti, defectIndex(cat, "start-absent")}, 0, "trailer-start")
		}
		// pairs of defects
		nPairs := 25
		if !c.Quick() {
			nPairs = len(cat) * (len(cat) - 1) / 2
		}
		k := 0
		for a := 0; a < len(cat); a++ {
			for b := a + 1; b < len(cat); b++ {
				if fa, ok := defectField[cat[a].name]; ok && fa == defectField[cat[b].name] {
					continue
				}
				if pacVsName(cat[a].name, cat[b].name) || pacVsName(cat[b].name, cat[a].name) {
					continue
				}
				if c.Quick() && c.R.Intn(len(cat)*(len(cat)-1)/2) >= nPairs {
					continue
				}
				ss := base
				if k%3 == 0 {
					ss = settingsList[c.R.Intn(len(settingsList))]
				}
				run(et, ss, []int{a, b}, 0, "pair")
				k++
			}
		}
	}
	// empty service name in the ticket (with a keytab principal override so that a key is found)
	for _, et := range allEtypes {
		r := baseRecipe(c, s, et)
		r.tktSName = []string{}
		m := mint(c, r)
		st := service.NewSettings(s.kt, service.MaxClockSkew(5*time.Minute), service.KeytabPrincipal(joinSlash(s.sname)), service.DecodePAC(false))
		req := m.req
		var ok bool
		var err error
		p, _ := guard(func() { ok, _, err = service.VerifyAPREQ(&req, st) })
		c.Check(!p, "an AP-REQ whose ticket has an empty service name does not panic the acceptor", "panic:empty-sname", fmt.Sprint(ok, err), map[string]interface{}{"etype": et})
		c.Count("empty-sname")
	}
}

// defects that write the same recipe field override each other: such pairs are skipped
var defectField = map[string]string{"start-outside": "start", "start-inside": "start", "start-absent": "start", "end-outside": "end", "end-inside": "end",
	"flip-ticket": "tktcipher", "trunc-ticket": "tktcipher", "flip-auth": "authcipher", "trunc-auth": "authcipher",
	"cname-mismatch": "authcname", "cname-prefix": "authcname", "cname-shorter": "authcname", "cname-empty": "authcname", "cname-boundary": "authcname", "multi-component-client": "authcname", "invalid-flag": "flags", "invalid-flag-no-start": "flags", "other-flags": "flags", "broken-pac": "authdata", "valid-pac": "authdata", "valid-pac-rodc": "authdata", "pac-bad-signature": "authdata",
	"ctime-late": "ctime", "ctime-early": "ctime", "ctime-inside": "ctime", "wrong-key": "tktkey", "auth-key": "authkey", "ctime-late-subsecond": "ctime", "end-outside-subsecond": "end", "kvno-plus-256": "kvno", "wrong-kvno": "kvno"}

// The sample PAC names testuser1; a KDC seals a PAC for the client it names in the ticket.  With PAC decoding on the
// library reports the PAC's EffectiveName as the user name, so a valid PAC under a ticket for ANOTHER client is an input
// no KDC produces: such pairs are skipped.
func pacVsName(a, b string) bool {
	return (a == "valid-pac" || a == "valid-pac-rodc") && (b == "multi-component-client" || b == "cname-boundary" || b == "cname-shorter")
}

func defectIndex(cat []defect, name string) int {
	for i := range cat {
		if cat[i].name == name {
			return i
		}
	}
	return -1
}

func containsDefect(cat []defect, defs []int, name string) bool {
	for _, di := range defs {
		if cat[di].name == name {
			return true
		}
	}
	return false
}

// C01 = sealed-content stream (c01) followed by the wire-bytes stream (props/c01b)
func init() { props["C01"] = func(c *Ctx) { c01(c); c01b.Run(c) } }
