package main

import (
	"fmt"
	"strings"
	"time"
	"verif/harness/props/c09b"

	"github.com/jcmturner/gokrb5/v8/client"
	"github.com/jcmturner/gokrb5/v8/config"
	"github.com/jcmturner/gokrb5/v8/credentials"
	"github.com/jcmturner/gokrb5/v8/iana/errorcode"
	"github.com/jcmturner/gokrb5/v8/keytab"
	"github.com/jcmturner/gokrb5/v8/messages"
	"github.com/jcmturner/gokrb5/v8/types"
	"verif/harness/internal/jv"
	"verif/harness/internal/kdc"
)

func testConfig(realm string, kdcs []string, etypes []int32) *config.Config {
	cfg := config.New()
	cfg.LibDefaults.DefaultRealm = realm
	cfg.LibDefaults.DNSLookupKDC = false
	cfg.LibDefaults.DNSLookupRealm = false
	cfg.LibDefaults.NoAddresses = true
	cfg.LibDefaults.Clockskew = 5 * time.Minute
	cfg.LibDefaults.TicketLifetime = 10 * time.Hour
	cfg.LibDefaults.UDPPreferenceLimit = 1 // TCP: replies can be large
	cfg.LibDefaults.DefaultTktEnctypeIDs = etypes
	cfg.LibDefaults.DefaultTGSEnctypeIDs = etypes
	cfg.LibDefaults.PermittedEnctypeIDs = etypes
	cfg.LibDefaults.PreferredPreauthTypes = []int{int(etypes[0])}
	cfg.Realms = []config.Realm{{Realm: realm, KDC: kdcs}}
	return cfg
}

type repTamper struct {
	name        string
	invalidates bool
	as, tgs     bool
	f           func(rep *messages.KDCRepFields, enc *messages.EncKDCRepPart, key *types.EncryptionKey, usage *uint32, skew time.Duration)
	post        func(rep *messages.KDCRepFields) // after sealing (on the decoded reply)
}

func repTampers(c *Ctx) []repTamper {
	other := types.PrincipalName{NameType: 1, NameString: []string{"someoneelse"}}
	return []repTamper{
		{name: "none", as: true, tgs: true},
		{name: "nonce+1", invalidates: true, as: true, tgs: true, f: func(rep *messages.KDCRepFields, enc *messages.EncKDCRepPart, key *types.EncryptionKey, usage *uint32, skew time.Duration) {
			enc.Nonce++
		}},
		{name: "nonce-1", invalidates: true, as: true, tgs: true, f: func(rep *messages.KDCRepFields, enc *messages.EncKDCRepPart, key *types.EncryptionKey, usage *uint32, skew time.Duration) {
			enc.Nonce--
		}},
		{name: "cname", invalidates: true, as: true, tgs: true, f: func(rep *messages.KDCRepFields, enc *messages.EncKDCRepPart, key *types.EncryptionKey, usage *uint32, skew time.Duration) {
			rep.CName = other
		}},
		{name: "sname-boundary", invalidates: true, as: true, f: func(rep *messages.KDCRepFields, enc *messages.EncKDCRepPart, key *types.EncryptionKey, usage *uint32, skew time.Duration) {
			enc.SName = types.PrincipalName{NameType: enc.SName.NameType, NameString: []string{strings.Join(enc.SName.NameString, "/")}}
		}},
		{name: "crealm", invalidates: true, as: true, f: func(rep *messages.KDCRepFields, enc *messages.EncKDCRepPart, key *types.EncryptionKey, usage *uint32, skew time.Duration) {
			rep.CRealm = "OTHER.REALM"
		}},
		{name: "sname", invalidates: true, as: true, f: func(rep *messages.KDCRepFields, enc *messages.EncKDCRepPart, key *types.EncryptionKey, usage *uint32, skew time.Duration) {
			enc.SName = types.PrincipalName{NameType: 2, NameString: []string{"krbtgt", "OTHER.REALM"}}
		}},
		{name: "srealm", invalidates: true, as: true, tgs: true, f: func(rep *messages.KDCRepFields, enc *messages.EncKDCRepPart, key *types.EncryptionKey, usage *uint32, skew time.Duration) {
			enc.SRealm = "OTHER.REALM"
		}},
		{name: "crealm-case", invalidates: true, as: true, f: func(rep *messages.KDCRepFields, enc *messages.EncKDCRepPart, key *types.EncryptionKey, usage *uint32, skew time.Duration) {
			rep.CRealm = strings.ToLower(rep.CRealm) // realm names are case sensitive (RFC 4120 6.1)
		}},
		{name: "srealm-case", invalidates: true, as: true, tgs: true, f: func(rep *messages.KDCRepFields, enc *messages.EncKDCRepPart, key *types.EncryptionKey, usage *uint32, skew time.Duration) {
			enc.SRealm = strings.ToLower(enc.SRealm[:1]) + enc.SRealm[1:]
		}},
		{name: "ticket-realm", invalidates: true, tgs: true, f: func(rep *messages.KDCRepFields, enc *messages.EncKDCRepPart, key *types.EncryptionKey, usage *uint32, skew time.Duration) {
			rep.Ticket.Realm = "OTHER.REALM"
		}},
		{name: "caddr-extra", invalidates: true, as: true, tgs: true, f: func(rep *messages.KDCRepFields, enc *messages.EncKDCRepPart, key *types.EncryptionKey, usage *uint32, skew time.Duration) {
			enc.CAddr = append(append([]types.HostAddress{}, enc.CAddr...), addrB)
		}},
		{name: "authtime-late-outside", invalidates: true, as: true, f: func(rep *messages.KDCRepFields, enc *messages.EncKDCRepPart, key *types.EncryptionKey, usage *uint32, skew time.Duration) {
			enc.AuthTime = time.Now().UTC().Add(skew + 4*time.Second).Truncate(time.Second)
		}},
		{name: "authtime-early-outside", invalidates: true, as: true, f: func(rep *messages.KDCRepFields, enc *messages.EncKDCRepPart, key *types.EncryptionKey, usage *uint32, skew time.Duration) {
			enc.AuthTime = time.Now().UTC().Add(-skew - 4*time.Second).Truncate(time.Second)
		}},
		{name: "authtime-inside", as: true, f: func(rep *messages.KDCRepFields, enc *messages.EncKDCRepPart, key *types.EncryptionKey, usage *uint32, skew time.Duration) {
			enc.AuthTime = time.Now().UTC().Add(skew - 4*time.Second).Truncate(time.Second)
		}},
		{name: "times-outside", invalidates: true, tgs: true, f: func(rep *messages.KDCRepFields, enc *messages.EncKDCRepPart, key *types.EncryptionKey, usage *uint32, skew time.Duration) {
			enc.AuthTime = time.Now().UTC().Add(-skew - 4*time.Second).Truncate(time.Second)
			enc.StartTime = time.Now().UTC().Add(skew + 4*time.Second).Truncate(time.Second)
		}},
		{name: "start-outside-auth-inside", tgs: true, f: func(rep *messages.KDCRepFields, enc *messages.EncKDCRepPart, key *types.EncryptionKey, usage *uint32, skew time.Duration) {
			enc.StartTime = time.Now().UTC().Add(skew + 4*time.Second).Truncate(time.Second)
			enc.AuthTime = time.Now().UTC().Add(-4 * time.Second).Truncate(time.Second)
		}},
		{name: "other-key", invalidates: true, as: true, tgs: true, f: func(rep *messages.KDCRepFields, enc *messages.EncKDCRepPart, key *types.EncryptionKey, usage *uint32, skew time.Duration) {
			k := randKey(c, key.KeyType)
			*key = k
		}},
		{name: "other-usage", invalidates: true, as: true, tgs: true, f: func(rep *messages.KDCRepFields, enc *messages.EncKDCRepPart, key *types.EncryptionKey, usage *uint32, skew time.Duration) {
			*usage = 2
		}},
		{name: "cipher-bitflip", invalidates: true, as: true, tgs: true, post: func(rep *messages.KDCRepFields) {
			cph := append([]byte{}, rep.EncPart.Cipher...)
			cph[c.R.Intn(len(cph))] ^= 1 << uint(c.R.Intn(8))
			rep.EncPart.Cipher = cph
		}},
		{name: "cipher-truncated", invalidates: true, as: true, tgs: true, post: func(rep *messages.KDCRepFields) {
			rep.EncPart.Cipher = rep.EncPart.Cipher[:c.R.Intn(len(rep.EncPart.Cipher))]
		}},
	}
}

func jAddrs(as []types.HostAddress) jv.V {
	var v []jv.V
	for _, a := range as {
		v = append(v, jAddr(a))
	}
	return jv.L(v...)
}

func jReq(b messages.KDCReqBody) jv.V {
	return jv.L(jv.Strs(b.CName.NameString), jv.S(b.Realm), jv.Strs(b.SName.NameString), jv.I(int64(b.Nonce)), jAddrs(b.Addresses))
}

func jEnc(e messages.EncKDCRepPart) jv.V {
	st := jv.L()
	if !e.StartTime.IsZero() {
		st = jv.L(jv.I(e.StartTime.Unix()))
	}
	return jv.L(jv.I(int64(e.Nonce)), jv.Strs(e.SName.NameString), jv.S(e.SRealm), jAddrs(e.CAddr), jv.I(e.AuthTime.Unix()), st, jv.B(e.Flags.Bytes))
}

func jHints(pas []types.PAData) jv.V {
	var v []jv.V
	for _, pa := range pas {
		switch pa.PADataType {
		case 19:
			var e2 types.ETypeInfo2
			if e2.Unmarshal(pa.PADataValue) == nil {
				var es []jv.V
				for _, e := range e2 {
					p := jv.L()
					if e.S2KParams != nil {
						p = jv.L(jv.B(e.S2KParams))
					}
					es = append(es, jv.L(jv.I(int64(e.EType)), jv.S(e.Salt), p))
				}
				v = append(v, jv.L(jv.I(19), jv.L(es...)))
			}
		default:
			v = append(v, jv.L(jv.I(int64(pa.PADataType))))
		}
	}
	return jv.L(v...)
}

func c09(c *Ctx) {
	checkPrincipalEqual(c)
	realm := "TEST.GOKRB5"
	skew := 5 * time.Minute
	tampers := repTampers(c)
	for _, et := range allEtypes {
		for _, kind := range []string{"password", "keytab"} {
			k := kdc.New(realm)
			user := k.AddPrincipal([]string{"testuser1"}, "passwordvalue", 2)
			k.AddPrincipal([]string{"HTTP", "host.test.gokrb5"}, "svcpw", 1)
			cfg := testConfig(realm, []string{"127.0.0.1:88"}, []int32{et})
			var creds *credentials.Credentials
			var jcreds jv.V
			cname := types.PrincipalName{NameType: 1, NameString: []string{"testuser1"}}
			if kind == "password" {
				creds = credentials.New("testuser1", realm).WithPassword("passwordvalue")
				jcreds = jv.L(jv.L(), jv.L(jv.S("passwordvalue")))
			} else {
				kt := keytab.New()
				// the keytab holds the key the KDC has (same password, default salt, KDC's iteration count is
				// irrelevant here: copy the KDC's key through a password-derived entry with the same parameters)
				ktb := buildKeytab(c, realm, []string{"testuser1"}, user.Keys, user.KVNO)
				if err := kt.Unmarshal(ktb); err != nil {
					panic(err)
				}
				creds = credentials.New("testuser1", realm).WithKeytab(kt)
				jcreds = jv.L(jv.L(projKeytab(kt, 2)), jv.L())
			}
			for withAddr := 0; withAddr < 2; withAddr++ {
				for ti, tm := range tampers {
					if !tm.as {
						continue
					}
					if c.Quick() && withAddr == 1 && ti%3 != 0 {
						continue
					}
					req, err := messages.NewASReqForTGT(realm, cfg, cname)
					if err != nil {
						panic(err)
					}
					if withAddr == 1 {
						req.ReqBody.Addresses = []types.HostAddress{addrA}
					}
					rb, _ := req.Marshal()
					var sealed messages.EncKDCRepPart
					tm := tm
					k.Tamper = func(kk string, rep *messages.KDCRepFields, enc *messages.EncKDCRepPart, key types.EncryptionKey, usage uint32) (types.EncryptionKey, uint32) {
						if tm.f != nil {
							tm.f(rep, enc, &key, &usage, skew)
						}
						sealed = *enc
						return key, usage
					}
					out := k.Handle(rb)
					var rep messages.ASRep
					if err := rep.Unmarshal(out); err != nil {
						c.Notes = append(c.Notes, "simulated KDC produced an undecodable AS-REP: "+err.Error())
						continue
					}
					if tm.post != nil {
						tm.post(&rep.KDCRepFields)
					}
					verifyReq := req
					name := tm.name
					t0 := time.Now().UTC()
					var ok bool
					p, _ := guard(func() { ok, err = rep.Verify(cfg, creds, verifyReq) })
					obs := jv.Ok(jv.Bool(ok))
					if p {
						obs = jv.Panic()
					}
					jrep := jv.L(jv.Strs(rep.CName.NameString), jv.S(rep.CRealm), jv.S(rep.Ticket.Realm), jv.I(int64(rep.EncPart.EType)), jv.I(int64(rep.EncPart.KVNO)), jv.B(rep.EncPart.Cipher), jHints(rep.PAData))
					c.Case("asrep_verify", jv.L(jv.I(int64(skew/time.Microsecond)), jcreds, jReq(verifyReq.ReqBody), jrep, jEnc(sealed), jv.I(t0.UnixNano()/1000)), obs)
					c.Count("as:" + name)
					c.Count(fmt.Sprintf("as:etype=%d:%s", et, kind))
					inp := map[string]interface{}{"etype": et, "creds": kind, "tamper": name, "addresses": withAddr}
					expectInvalid := tm.invalidates
					if tm.name == "caddr-extra" && withAddr == 0 {
						expectInvalid = false // addresses are compared only when the request listed some
					}
					c.Check(!p && ok == !expectInvalid, "AS-REP accepted iff it answers the request (nonce, names, realms, addresses, time, key, usage)", "as-verdict:"+name, fmt.Sprintf("ok=%v err=%v", ok, err), inp)
				}
				// a stale reply: the correct answer to an earlier request with another nonce
				req1, _ := messages.NewASReqForTGT(realm, cfg, cname)
				req2, _ := messages.NewASReqForTGT(realm, cfg, cname)
				if req1.ReqBody.Nonce != req2.ReqBody.Nonce {
					k.Tamper = nil
					rb, _ := req1.Marshal()
					var rep messages.ASRep
					if rep.Unmarshal(k.Handle(rb)) == nil {
						ok, _ := rep.Verify(cfg, creds, req2)
						c.Check(!ok, "a reply to an earlier request (other nonce) is rejected", "as-verdict:stale", "", map[string]interface{}{"etype": et})
						c.Count("as:stale")
					}
				}
			}
			// wrong message type
			{
				k.Tamper = func(kk string, rep *messages.KDCRepFields, enc *messages.EncKDCRepPart, key types.EncryptionKey, usage uint32) (types.EncryptionKey, uint32) {
					rep.MsgType = 13
					return key, usage
				}
				req, _ := messages.NewASReqForTGT(realm, cfg, cname)
				rb, _ := req.Marshal()
				var rep messages.ASRep
				err := rep.Unmarshal(k.Handle(rb))
				c.Check(err != nil, "an AS-REP with the wrong message type is rejected", "as-verdict:msgtype", "", nil)
				k.Tamper = nil
			}

			// ---- TGS replies: obtain a TGT directly, then perturb TGS replies ----
			k.Tamper = nil
			asq, _ := messages.NewASReqForTGT(realm, cfg, cname)
			ab, _ := asq.Marshal()
			var asr messages.ASRep
			if err := asr.Unmarshal(k.Handle(ab)); err != nil {
				continue
			}
			if ok, err := asr.Verify(cfg, creds, asq); !ok {
				c.Check(false, "the untampered AS-REP verifies", "as-verdict:baseline", fmt.Sprint(err), nil)
				continue
			}
			tgt, skey := asr.Ticket, asr.DecryptedEncPart.Key
			sname := types.PrincipalName{NameType: 2, NameString: []string{"HTTP", "host.test.gokrb5"}}
			for ti, tm := range tampers {
				if !tm.tgs {
					continue
				}
				_ = ti
				treq, err := messages.NewTGSReq(cname, realm, cfg, tgt, skey, sname, false)
				if err != nil {
					panic(err)
				}
				tb, _ := treq.Marshal()
				var sealed messages.EncKDCRepPart
				tm := tm
				k.Tamper = func(kk string, rep *messages.KDCRepFields, enc *messages.EncKDCRepPart, key types.EncryptionKey, usage uint32) (types.EncryptionKey, uint32) {
					if tm.f != nil {
						tm.f(rep, enc, &key, &usage, skew)
					}
					sealed = *enc
					return key, usage
				}
				var rep messages.TGSRep
				if err := rep.Unmarshal(k.Handle(tb)); err != nil {
					c.Notes = append(c.Notes, "simulated KDC produced an undecodable TGS-REP: "+err.Error())
					continue
				}
				if tm.post != nil {
					tm.post(&rep.KDCRepFields)
				}
				t0 := time.Now().UTC()
				var ok bool
				var verr error
				p, _ := guard(func() {
					if verr = rep.DecryptEncPart(skey); verr == nil {
						ok, verr = rep.Verify(cfg, treq)
					}
				})
				obs := jv.Ok(jv.Bool(ok))
				if p {
					obs = jv.Panic()
				}
				jrep := jv.L(jv.Strs(rep.CName.NameString), jv.S(rep.CRealm), jv.S(rep.Ticket.Realm), jv.I(int64(rep.EncPart.EType)), jv.I(int64(rep.EncPart.KVNO)), jv.B(rep.EncPart.Cipher), jv.L())
				c.Case("tgsrep_verify", jv.L(jv.I(int64(skew/time.Microsecond)), jKey(skey), jReq(treq.ReqBody), jrep, jEnc(sealed), jv.I(t0.UnixNano()/1000)), obs)
				c.Count("tgs:" + tm.name)
				c.Check(!p && ok == !tm.invalidates, "TGS-REP accepted iff it answers the request", "tgs-verdict:"+tm.name, fmt.Sprintf("ok=%v err=%v", ok, verr), map[string]interface{}{"etype": et, "tamper": tm.name})
			}
			k.Tamper = nil
		}
	}

	// ---- through the client over loopback: Login / GetServiceTicket, tampered replies and every KRB-ERROR code ----
	k := kdc.New(realm)
	k.AddPrincipal([]string{"testuser1"}, "passwordvalue", 2)
	k.AddPrincipal([]string{"HTTP", "host.test.gokrb5"}, "svcpw", 1)
	if err := k.Serve(); err != nil {
		c.Notes = append(c.Notes, "KDC listen: "+err.Error())
		return
	}
	defer k.Close()
	newClient := func(et int32) *client.Client {
		cfg := testConfig(realm, []string{k.Addr}, []int32{et})
		return client.NewWithPassword("testuser1", realm, "passwordvalue", cfg, client.DisablePAFXFAST(true))
	}
	for _, et := range allEtypes {
		for _, pre := range []bool{false, true} {
			k.RequirePreauth = pre
			k.ExtraHints = pre && et%2 == 0
			k.OmitStartTime = et%3 == 0 // 18 and 23: starttime absent from tickets and replies (OPTIONAL)
			k.Tamper, k.ErrorCode = nil, 0
			cl := newClient(et)
			err := cl.Login()
			c.Check(err == nil, "login succeeds against a conformant KDC", "login-fails", fmt.Sprint(err), map[string]interface{}{"etype": et, "preauth": pre})
			if err == nil {
				_, _, err = cl.GetServiceTicket("HTTP/host.test.gokrb5")
				c.Check(err == nil, "a service ticket is obtained from a conformant KDC", "tgs-fails", fmt.Sprint(err), map[string]interface{}{"etype": et})
			}
			cl.Destroy()
			c.Count("exchange:login")
		}
	}
	k.RequirePreauth = false
	k.OmitStartTime = false
	for ti, tm := range tampers {
		if !tm.invalidates || tm.post != nil {
			continue
		}
		et := allEtypes[ti%len(allEtypes)]
		tm := tm
		if tm.as && tm.name != "caddr-extra" {
			k.Tamper = func(kk string, rep *messages.KDCRepFields, enc *messages.EncKDCRepPart, key types.EncryptionKey, usage uint32) (types.EncryptionKey, uint32) {
				if kk == "AS" {
					tm.f(rep, enc, &key, &usage, skew)
				}
				return key, usage
			}
			cl := newClient(et)
			err := cl.Login()
			c.Check(err != nil, "login fails when the AS-REP does not answer the request", "login-accepts:"+tm.name, "", nil)
			cl.Destroy()
		}
		if tm.tgs {
			k.Tamper = func(kk string, rep *messages.KDCRepFields, enc *messages.EncKDCRepPart, key types.EncryptionKey, usage uint32) (types.EncryptionKey, uint32) {
				if kk == "TGS" {
					tm.f(rep, enc, &key, &usage, skew)
				}
				return key, usage
			}
			cl := newClient(et)
			if err := cl.Login(); err == nil {
				_, _, err = cl.GetServiceTicket("HTTP/host.test.gokrb5")
				c.Check(err != nil, "GetServiceTicket fails when the TGS-REP does not answer the request", "tgs-accepts:"+tm.name, "", nil)
			}
			cl.Destroy()
		}
		c.Count("exchange:tampered")
	}
	k.Tamper = nil
	codes := []int32{6, 7, 12, 14, 18, 23, 24, 29, 31, 37, 41, 60, 68}
	if !c.Quick() {
		codes = nil
		for i := int32(1); i <= 76; i++ {
			if i != 25 && i != 52 {
				codes = append(codes, i)
			}
		}
	}
	for _, code := range codes {
		k.ErrorCode = code
		cl := newClient(18)
		err := cl.Login()
		want := errorcode.Lookup(code)
		okc := err != nil && strings.Contains(err.Error(), want)
		if code == 68 {
			okc = err != nil // WRONG_REALM starts a referral to the (empty) realm named in the error
		}
		c.Check(okc, "a KRB-ERROR reply reaches the caller as an error carrying the KDC's error code", fmt.Sprintf("krberror-lost:%d", code), fmt.Sprint(err), nil)
		cl.Destroy()
		c.Count("exchange:krb-error")
	}
	// ... also when it arrives over TCP after the UDP attempt was answered "response too big" (default UDP preference)
	k.UDPTooBig = true
	for _, code := range codes {
		if code == 68 {
			continue
		}
		k.ErrorCode = code
		cfg := testConfig(realm, []string{k.Addr}, []int32{18})
		cfg.LibDefaults.UDPPreferenceLimit = 1465
		cl := client.NewWithPassword("testuser1", realm, "passwordvalue", cfg, client.DisablePAFXFAST(true))
		err := cl.Login()
		okc := err != nil && strings.Contains(err.Error(), errorcode.Lookup(code))
		c.Check(okc, "a KRB-ERROR reply reaches the caller as an error carrying the KDC's error code", fmt.Sprintf("krberror-lost-after-udp-too-big:%d", code), fmt.Sprint(err), nil)
		cl.Destroy()
		c.Count("exchange:krb-error-after-too-big")
	}
	k.ErrorCode = 0
	{
		// and a correct exchange completes over TCP after "response too big" on UDP, pre-authentication included
		k.RequirePreauth = true
		cfg := testConfig(realm, []string{k.Addr}, []int32{18})
		cfg.LibDefaults.UDPPreferenceLimit = 1465
		cl := client.NewWithPassword("testuser1", realm, "passwordvalue", cfg, client.DisablePAFXFAST(true))
		err := cl.Login()
		c.Check(err == nil, "login succeeds over TCP after response-too-big on UDP", "login-fails-after-udp-too-big", fmt.Sprint(err), nil)
		cl.Destroy()
		k.RequirePreauth = false
	}
	k.UDPTooBig = false
	// ... and when it is the KDC's answer to the RETRY after a demand for pre-authentication (two steps, two codes)
	for _, first := range []int{25, 24} {
		for _, code := range []int32{24, 18, 23, 37, 14, 6, 25} {
			if int32(first) == code {
				continue
			}
			first, code := first, code
			k.SetASScript(func(n int) int {
				if n == 0 {
					return first
				}
				return int(code)
			})
			cl := newClient(18)
			err := cl.Login()
			okc := err != nil && strings.Contains(err.Error(), errorcode.Lookup(code))
			c.Check(okc, "a KRB-ERROR reply reaches the caller as an error carrying the KDC's error code", fmt.Sprintf("krberror-lost-after-preauth-demand:%d", code), fmt.Sprint(err), map[string]interface{}{"first": first})
			cl.Destroy()
			c.Count("exchange:krb-error-after-preauth-demand")
		}
	}
	k.SetASScript(nil)

	// ---- a referral: the reply of the second hop answers the request only if it is sealed under the session key
	// issued with the referral TGT (not under the key of the TGT presented at the first hop) ----
	for _, mode := range []string{"honest", "previous-hop-key", "random-key"} {
		ra, rb := "HOME.GOKRB5", "FAR.GOKRB5"
		ka, kb := kdc.New(ra), kdc.New(rb)
		ka.StrictCRealm, kb.StrictCRealm = false, false
		ka.AddPrincipal([]string{"testuser1"}, "passwordvalue", 2)
		kb.AddPrincipal([]string{"HTTP", "far.example.org"}, "svcpw", 1)
		ka.Referrals["example.org"] = rb
		keys := map[int32]types.EncryptionKey{}
		for _, et := range kdc.AllEtypes {
			keys[et] = randKey(c, et)
		}
		ka.CrossKeys[rb] = keys
		kb.CrossKeys[ra] = keys
		if ka.Serve() != nil || kb.Serve() != nil {
			c.Notes = append(c.Notes, "KDC listen (referral)")
			continue
		}
		cfg := testConfig(ra, []string{ka.Addr}, []int32{18})
		cfg.Realms = []config.Realm{{Realm: ra, KDC: []string{ka.Addr}}, {Realm: rb, KDC: []string{kb.Addr}}}
		cl := client.NewWithPassword("testuser1", ra, "passwordvalue", cfg, client.DisablePAFXFAST(true))
		err := cl.Login()
		if err == nil {
			switch mode {
			case "previous-hop-key":
				kb.Tamper = func(kind string, rep *messages.KDCRepFields, enc *messages.EncKDCRepPart, key types.EncryptionKey, usage uint32) (types.EncryptionKey, uint32) {
					// the session key of the home TGT, as the home KDC logged it
					for _, is := range ka.Issues {
						if is.Kind == "AS" {
							return is.Key, usage
						}
					}
					return key, usage
				}
			case "random-key":
				kb.Tamper = func(kind string, rep *messages.KDCRepFields, enc *messages.EncKDCRepPart, key types.EncryptionKey, usage uint32) (types.EncryptionKey, uint32) {
					return randKey(c, key.KeyType), usage
				}
			}
			_, _, err = cl.GetServiceTicket("HTTP/far.example.org")
		}
		reached := len(kb.Requests) > 0
		if mode == "honest" {
			c.Check(err == nil, "a service ticket is obtained through a referral from conformant KDCs", "referral-fails", fmt.Sprint(err), nil)
		} else {
			c.Check(reached && err != nil, "a second-hop reply sealed under another key than the referral TGT's session key is rejected", "referral-reply-accepted:"+mode, fmt.Sprintf("reached=%v err=%v", reached, err), nil)
		}
		c.Count("exchange:referral:" + mode)
		cl.Destroy()
		ka.Close()
		kb.Close()
	}
}

// buildKeytab renders a version 2 keytab holding the given keys (independent writer of c14.go)
func buildKeytab(c *Ctx, realm string, name []string, keys map[int32]types.EncryptionKey, kvno int) []byte {
	var items []ktItem
	for _, et := range allEtypes {
		k := keys[et]
		items = append(items, ktItem{E: ktEntry{P: ktPrinc{Realm: realm, Comps: name, NType: 1}, TS: 1600000000, KVNO8: uint8(kvno), KType: int16(et), Key: k.KeyValue, Has32: true, KVNO32: uint32(kvno)}})
	}
	return refWriteKeytab(2, items)
}

// C09 = structure-mode stream followed by the wire-bytes stream (props/c09b)
func init() { props["C09"] = func(c *Ctx) { c09(c); c09b.Run(c) } }
