package main

import (
	"fmt"
	"os"
	"sort"
	"strings"
	"sync"
	"time"

	"github.com/jcmturner/gokrb5/v8/client"
	"github.com/jcmturner/gokrb5/v8/config"
	"github.com/jcmturner/gokrb5/v8/keytab"
	"github.com/jcmturner/gokrb5/v8/types"
	"verif/harness/internal/jv"
	"verif/harness/internal/kdc"
)

func flagsSet(b []byte) []int {
	var out []int
	for i := 0; i < len(b)*8; i++ {
		if b[i/8]&(1<<uint(7-i%8)) != 0 {
			out = append(out, i)
		}
	}
	return out
}

func jInts(xs []int) jv.V {
	var v []jv.V
	for _, x := range xs {
		v = append(v, jv.I(int64(x)))
	}
	return jv.L(v...)
}
func jInt32s(xs []int32) jv.V {
	var v []jv.V
	for _, x := range xs {
		v = append(v, jv.I(int64(x)))
	}
	return jv.L(v...)
}

func c10(c *Ctx) {
	c10ASScripts(c)
	realm := "TEST.GOKRB5"
	// ---------- (a) request fields under every combination of settings ----------
	k := kdc.New(realm)
	k.AddPrincipal([]string{"testuser1"}, "passwordvalue", 2)
	k.AddPrincipal([]string{"HTTP", "host.test.gokrb5"}, "svcpw", 1)
	if err := k.Serve(); err != nil {
		c.Notes = append(c.Notes, "KDC listen: "+err.Error())
		return
	}
	defer k.Close()
	ktBytes := buildKeytab(c, realm, []string{"testuser1"}, k.Principal([]string{"testuser1"}).Keys, 2)
	etLists := [][]int32{{18}, {17, 18}, {20, 19, 18, 17}, {23}, {16, 17}, {19}}
	nCombos := 64
	for combo := 0; combo < nCombos; combo++ {
		if c.Quick() && combo%3 != 0 {
			continue
		}
		ets := etLists[(combo/3+combo)%len(etLists)] // the quick tier takes every third combination: still every list
		cfg := testConfig(realm, []string{k.Addr}, ets)
		if combo%2 == 0 && len(ets) > 1 {
			// a split configuration: the TGS exchange is restricted to the last type of the AS list
			cfg.LibDefaults.DefaultTGSEnctypeIDs = []int32{ets[len(ets)-1]}
			c.Count("fields:split-etype-lists")
		}
		cfg.LibDefaults.Forwardable = combo&1 != 0
		cfg.LibDefaults.Proxiable = combo&2 != 0
		cfg.LibDefaults.Canonicalize = combo&4 != 0
		cfg.LibDefaults.NoAddresses = combo&8 == 0
		if combo&16 != 0 {
			cfg.LibDefaults.RenewLifetime = time.Duration(1+combo%5) * time.Hour
		}
		cfg.LibDefaults.TicketLifetime = time.Duration(2+combo%7) * time.Hour
		k.RequirePreauth = combo&32 != 0
		k.ExtraHints = combo&16 != 0
		k.OmitStartTime = combo%3 == 0 // starttime is OPTIONAL in tickets and replies
		var cl *client.Client
		kind := "password"
		if combo%2 == 1 {
			kt := keytab.New()
			kt.Unmarshal(ktBytes)
			cl = client.NewWithKeytab("testuser1", realm, kt, cfg, client.DisablePAFXFAST(combo%4 < 2))
			kind = "keytab"
		} else {
			cl = client.NewWithPassword("testuser1", realm, "passwordvalue", cfg, client.DisablePAFXFAST(combo%4 < 2))
		}
		n0 := len(k.Requests)
		t0 := time.Now().UTC()
		err := cl.Login()
		inp := map[string]interface{}{"combo": combo, "etypes": fmt.Sprint(ets), "creds": kind, "preauth": k.RequirePreauth}
		c.Check(err == nil, "login succeeds (pre-authentication computed correctly when required)", "login-fails", fmt.Sprint(err), inp)
		c.Count("fields:creds=" + kind)
		if err != nil {
			continue
		}
		k2 := k.Requests[n0:]
		for _, rq := range k2 {
			if rq.Kind != "AS" {
				continue
			}
			b := rq.AS.ReqBody
			rt := jv.L()
			if !b.RTime.IsZero() {
				rt = jv.L(jv.I(b.RTime.Unix() - t0.Unix()))
			}
			fl := flagsSet(b.KDCOptions.Bytes)
			sort.Ints(fl)
			obs := jv.Ok(jv.I(b.Till.Unix()-t0.Unix()), rt, jInts(fl), jInt32s(b.EType))
			in := jv.L(jv.I(int64(cfg.LibDefaults.TicketLifetime/time.Second)), jv.I(int64(cfg.LibDefaults.RenewLifetime/time.Second)),
				jv.Bool(cfg.LibDefaults.Forwardable), jv.Bool(cfg.LibDefaults.Proxiable), jv.Bool(cfg.LibDefaults.Canonicalize),
				jInts(flagsSet(cfg.LibDefaults.KDCDefaultOptions.Bytes)), jInt32s(ets), jv.I(0))
			// till/rtime are compared as offsets from the call time; allow the second to tick once
			till := b.Till.Unix() - t0.Unix()
			want := int64(cfg.LibDefaults.TicketLifetime / time.Second)
			if till == want+1 {
				obs = jv.Ok(jv.I(want), rt, jInts(fl), jInt32s(b.EType))
			}
			if !b.RTime.IsZero() {
				r := b.RTime.Unix() - t0.Unix()
				wr := int64(cfg.LibDefaults.RenewLifetime / time.Second)
				if r == wr+1 {
					rt = jv.L(jv.I(wr))
				}
				if till == want+1 {
					obs = jv.Ok(jv.I(want), rt, jInts(fl), jInt32s(b.EType))
				} else {
					obs = jv.Ok(jv.I(till), rt, jInts(fl), jInt32s(b.EType))
				}
			}
			c.Case("new_as_req", in, obs)
			c.Check(len(b.Addresses) == 0 == cfg.LibDefaults.NoAddresses || !cfg.LibDefaults.NoAddresses, "addresses are sent only when noaddresses is off", "addresses", "", inp)
			c.Check(b.CName.Equal(types.PrincipalName{NameString: []string{"testuser1"}}) && b.Realm == realm && b.SName.Equal(types.PrincipalName{NameString: []string{"krbtgt", realm}}), "AS-REQ names the client, its realm and the TGS", "asreq-names", "", inp)
		}
		nT := len(k.Requests)
		_, skey, err := cl.GetServiceTicket("HTTP/host.test.gokrb5")
		c.Check(err == nil, "a service ticket is obtained", "tgs-fails", fmt.Sprint(err), inp)
		// the TGS-REQ carries the encryption types configured for the TGS exchange (default_tgs_enctypes), which need not
		// be the list of the AS exchange; the session key comes from that list
		for _, rq := range k.Requests[nT:] {
			if rq.Kind != "TGS" {
				continue
			}
			same := len(rq.TGS.ReqBody.EType) == len(cfg.LibDefaults.DefaultTGSEnctypeIDs)
			for i := range rq.TGS.ReqBody.EType {
				same = same && rq.TGS.ReqBody.EType[i] == cfg.LibDefaults.DefaultTGSEnctypeIDs[i]
			}
			c.Check(same, "the TGS-REQ carries the configured default_tgs_enctypes", "tgsreq-etypes", fmt.Sprintf("sent %v configured %v", rq.TGS.ReqBody.EType, cfg.LibDefaults.DefaultTGSEnctypeIDs), inp)
		}
		if err == nil {
			in := false
			for _, e := range cfg.LibDefaults.DefaultTGSEnctypeIDs {
				in = in || e == skey.KeyType
			}
			c.Check(in, "the service session key has an encryption type the configuration allows for the TGS exchange", "tgs-session-etype", fmt.Sprint(skey.KeyType), inp)
		}
		cl.Destroy()
	}
	k.RequirePreauth = false
	k.ExtraHints = false
	k.OmitStartTime = false

	// ---------- (b) cache / expiry / renewal histories in real time with short lifetimes ----------
	type hist struct {
		renewable bool
		life      int
		renew     int
		steps     []struct {
			sleepMs int
			spn     int
			destroy bool
		}
	}
	var hists []hist
	nH := 16
	if !c.Quick() {
		nH = 24
	}
	for i := 0; i < nH; i++ {
		h := hist{renewable: i%2 == 1, life: 3, renew: 9}
		t := 0
		for t < 9000 && len(h.steps) < 14 {
			s := struct {
				sleepMs int
				spn     int
				destroy bool
			}{sleepMs: []int{0, 0, 300, 1200, 2400, 3600}[c.R.Intn(6)], spn: c.R.Intn(2)}
			if c.R.Intn(12) == 0 {
				s.destroy = true
			}
			t += s.sleepMs
			h.steps = append(h.steps, s)
		}
		hists = append(hists, h)
	}
	var wg sync.WaitGroup
	var mu sync.Mutex
	for hi, h := range hists {
		wg.Add(1)
		go func(hi int, h hist) {
			defer wg.Done()
			kk := kdc.New(realm)
			kk.AddPrincipal([]string{"testuser1"}, "passwordvalue", 2)
			spns := [][]string{{"HTTP", "a.test.gokrb5"}, {"HTTP", "b.test.gokrb5"}}
			for _, s := range spns {
				kk.AddPrincipal(s, "svcpw", 1)
			}
			kk.TicketLifetime = 10 * time.Minute
			kk.ServiceLifetime = time.Duration(h.life) * time.Second
			if h.renewable {
				kk.RenewLifetime = time.Duration(h.renew) * time.Second
			}
			serves := hi%3 == 2 // this KDC serves the renewal of a just-expired service ticket (kdc.LenientRenewUsage)
			kk.LenientRenewUsage = serves
			var aheadMs int64
			if hi%4 == 1 {
				aheadMs = 1500 // this KDC's clock runs 1.5 s ahead: a ticket is not yet valid when it arrives
				kk.ClockAhead = time.Duration(aheadMs) * time.Millisecond
			}
			if err := kk.Serve(); err != nil {
				return
			}
			defer kk.Close()
			cfg := testConfig(realm, []string{kk.Addr}, []int32{18})
			if h.renewable {
				cfg.LibDefaults.RenewLifetime = time.Duration(h.renew) * time.Second
			}
			cl := client.NewWithPassword("testuser1", realm, "passwordvalue", cfg, client.DisablePAFXFAST(true))
			if err := cl.Login(); err != nil {
				mu.Lock()
				c.Check(false, "login succeeds against a conformant KDC", "login-fails", err.Error(), nil)
				mu.Unlock()
				return
			}
			idOf := map[string]int{}
			current := map[string]kdc.Issue{}
			var jops, jobs, jpairs []jv.V
			type chk struct {
				ok          bool
				oracle, sig string
				detail      string
			}
			var checks []chk
			skipModel := false
			for _, st := range h.steps {
				time.Sleep(time.Duration(st.sleepMs) * time.Millisecond)
				if st.destroy {
					cl.Destroy()
					// a destroyed client has no credentials: make a new login to continue the history
					cl = client.NewWithPassword("testuser1", realm, "passwordvalue", cfg, client.DisablePAFXFAST(true))
					if err := cl.Login(); err != nil {
						mu.Lock()
						c.Check(false, "login succeeds against a conformant KDC", "login-fails", err.Error(), nil)
						mu.Unlock()
						return
					}
					jops = append(jops, jv.L(jv.I(1)))
					jobs = append(jobs, jv.L(jv.I(3)))
					jpairs = append(jpairs, jv.L(jv.I(3)))
					current = map[string]kdc.Issue{}
					continue
				}
				spn := joinSlash(spns[st.spn])
				n0 := len(kk.Requests)
				t0 := time.Now().UTC()
				tkt, key, err := cl.GetServiceTicket(spn)
				t1 := time.Now().UTC()
				if err != nil {
					checks = append(checks, chk{false, "GetServiceTicket succeeds against a conformant KDC", "get-fails", err.Error()})
					skipModel = true
					break
				}
				// classify by what the KDC saw during the call
				kind := 0
				for _, rq := range kk.Requests[n0:] {
					if rq.Kind == "TGS" && joinSlash(rq.TGS.ReqBody.SName.NameString) == spn {
						if types.IsFlagSet(&rq.TGS.ReqBody.KDCOptions, 30) {
							kind = 1
						} else if kind == 0 {
							kind = 2
						}
					}
				}
				id := kdc.TicketID(tkt)
				if _, ok := idOf[id]; !ok {
					idOf[id] = len(idOf)
				}
				// direct oracle: the pair was issued together for this SPN, and a cached ticket is inside its validity
				found := false
				var iss kdc.Issue
				for _, is := range kk.Issues {
					if is.TicketHash == id && joinSlash(is.SName) == spn && string(is.Key.KeyValue) == string(key.KeyValue) {
						found = true
						iss = is
					}
				}
				checks = append(checks, chk{found, "the (ticket, session key) pair returned was issued together by the KDC for the requested SPN", "pair-not-issued", spn})
				if found && kind == 0 {
					valid := t1.After(iss.Start) && t0.Before(iss.End)
					checks = append(checks, chk{valid, "a ticket is served from the cache only inside its validity period", "stale-from-cache", fmt.Sprintf("now=%v start=%v end=%v", t0, iss.Start, iss.End)})
				}
				// the model is evaluated at t0; drop the history if a boundary of the entry that was current
				// for this SPN before the call lies within 250 ms of the call
				if prev, ok := current[spn]; ok {
					bounds := []time.Time{prev.End, prev.Renew, prev.Start}
					if serves {
						bounds = append(bounds, prev.End.Add(time.Second)) // the KDC's tolerance for the expired ticket
					}
					for _, b := range bounds {
						if !b.IsZero() && b.Sub(t0) < 250*time.Millisecond && b.Sub(t0) > -250*time.Millisecond-t1.Sub(t0) {
							skipModel = true
						}
					}
				}
				if found {
					current[spn] = iss
				}
				jops = append(jops, jv.L(jv.I(0), jv.I(int64(st.spn)), jv.I(t0.UnixNano()/1000000)))
				jobs = append(jobs, jv.L(jv.I(int64(kind)), jv.I(int64(idOf[id]))))
				// the pair as (n-th service ticket issued, session key of the m-th service ticket issued)
				tidx, kidx, n := -1, -1, 0
				for _, is := range kk.Issues {
					if is.Kind != "TGS" {
						continue
					}
					if is.TicketHash == id {
						tidx = n
					}
					if string(is.Key.KeyValue) == string(key.KeyValue) {
						kidx = n
					}
					n++
				}
				jpairs = append(jpairs, jv.L(jv.I(int64(kind)), jv.I(int64(tidx)), jv.I(int64(kidx))))
			}
			cl.Destroy()
			mu.Lock()
			defer mu.Unlock()
			if os.Getenv("VERIF_DEBUG") != "" {
				for _, is := range kk.Issues {
					fmt.Fprintf(os.Stderr, "hist %d issue %s %v at=%v start=%v end=%v renew=%v\n", hi, is.Kind, is.SName, is.At.UnixNano()/1000000%100000, is.Start.Unix()%100, is.End.Unix()%100, is.Renew.Unix()%100)
				}
				for _, rq := range kk.Requests {
					if rq.Kind == "TGS" {
						fmt.Fprintf(os.Stderr, "hist %d req TGS %v renew=%v at=%v\n", hi, rq.TGS.ReqBody.SName.NameString, types.IsFlagSet(&rq.TGS.ReqBody.KDCOptions, 30), rq.At.UnixNano()/1000000%100000)
					}
				}
			}
			for _, ch := range checks {
				c.Check(ch.ok, ch.oracle, ch.sig, ch.detail, map[string]interface{}{"history": hi})
			}
			rn := 0
			if h.renewable {
				rn = h.renew
			}
			if !skipModel {
				if !serves && aheadMs == 0 {
					c.Case("client_run", jv.L(jv.I(int64(h.life)), jv.I(int64(rn)), jv.L(jops...)), jv.Ok(jobs...))
				}
				sv := 0
				if serves {
					sv = 1
					c.Count("history:kdc-serves-renewals")
				}
				if aheadMs != 0 {
					c.Count("history:kdc-clock-ahead")
				}
				c.Case("client_pairs", jv.L(jv.I(int64(h.life)), jv.I(int64(rn)), jv.I(int64(sv)), jv.I(aheadMs), jv.L(jops...)), jv.Ok(jpairs...))
				c.Count("history:compared")
			} else {
				c.Count("history:dropped-boundary")
			}
		}(hi, h)
	}
	// ---------- (b2) TGT renewal / re-login during a history: short-lived TGTs, direct oracles only ----------
	for vi := 0; vi < 6; vi++ {
		wg.Add(1)
		go func(vi int) {
			defer wg.Done()
			renewable := vi%2 == 0 || vi == 5
			kk := kdc.New(realm)
			kk.AddPrincipal([]string{"testuser1"}, "passwordvalue", 2)
			spns := [][]string{{"HTTP", "a.test.gokrb5"}, {"HTTP", "b.test.gokrb5"}, {"HTTP", "c.test.gokrb5"}}
			for _, s := range spns {
				kk.AddPrincipal(s, "svcpw", 1)
			}
			kk.TicketLifetime = 4 * time.Second
			kk.ServiceLifetime = 2 * time.Second
			kk.RequirePreauth = vi%2 == 1 // re-login then goes through a refused pre-emptive timestamp
			kk.ExtraHints = vi%2 == 1     // ... and the e-data carries lower-precedence hints after ETYPE-INFO2
			kk.OmitStartTime = vi == 2 || vi == 3
			if renewable {
				kk.RenewLifetime = 30 * time.Second
			}
			if err := kk.Serve(); err != nil {
				return
			}
			defer kk.Close()
			cfg := testConfig(realm, []string{kk.Addr}, []int32{18})
			if renewable {
				cfg.LibDefaults.RenewLifetime = 30 * time.Second
			}
			cl := client.NewWithPassword("testuser1", realm, "passwordvalue", cfg, client.DisablePAFXFAST(true))
			if err := cl.Login(); err != nil {
				mu.Lock()
				c.Check(false, "login succeeds against a conformant KDC", "login-fails", err.Error(), nil)
				mu.Unlock()
				return
			}
			type chk struct {
				ok          bool
				oracle, sig string
				detail      string
			}
			var checks []chk
			sleeps := []int{0, 3800, 0, 2300, 1500, 2600}
			order := []int{0, 1, 0, 2, 1, 0}
			if vi >= 2 {
				sleeps = []int{0, 4600, 300, 2100, 3900, 200}
				order = []int{0, 1, 2, 0, 2, 1}
			}
			if vi == 4 {
				// an idle client: two renewal points pass without any request, then a new SPN is asked for
				sleeps = []int{0, 9000, 0}
				order = []int{0, 1, 2}
			}
			if vi == 5 {
				// an outage across the expiry of a renewable TGT: the KDC answers nothing but errors from 2 s to 5.5 s
				// (the background renewal fails, the TGT expires at about 4 s); afterwards the client still has its
				// password and must get tickets again
				go func() {
					time.Sleep(2 * time.Second)
					kk.SetErrorCode(60)
					time.Sleep(3500 * time.Millisecond)
					kk.SetErrorCode(0)
				}()
				sleeps = []int{0, 6500, 300}
				order = []int{0, 1, 2}
			}
			for i := range sleeps {
				time.Sleep(time.Duration(sleeps[i]) * time.Millisecond)
				spn := joinSlash(spns[order[i]])
				tkt, key, err := cl.GetServiceTicket(spn)
				if err != nil {
					checks = append(checks, chk{false, "GetServiceTicket keeps succeeding across TGT renewal and re-login against a conformant KDC", "get-fails-after-tgt-refresh", fmt.Sprintf("step %d renewable=%v: %v", i, renewable, err)})
					break
				}
				id := kdc.TicketID(tkt)
				found := false
				for _, is := range kk.Issues {
					if is.TicketHash == id && joinSlash(is.SName) == spn && string(is.Key.KeyValue) == string(key.KeyValue) {
						found = true
					}
				}
				checks = append(checks, chk{found, "the (ticket, session key) pair returned was issued together by the KDC for the requested SPN", "pair-not-issued", spn})
			}
			cl.Destroy()
			nRenew, nAS := 0, 0
			for _, rq := range kk.Requests {
				if rq.Kind == "AS" {
					nAS++
				}
				if rq.Kind == "TGS" && len(rq.TGS.ReqBody.SName.NameString) > 0 && rq.TGS.ReqBody.SName.NameString[0] == "krbtgt" && types.IsFlagSet(&rq.TGS.ReqBody.KDCOptions, 30) {
					nRenew++
				}
			}
			mu.Lock()
			defer mu.Unlock()
			for _, ch := range checks {
				c.Check(ch.ok, ch.oracle, ch.sig, ch.detail, map[string]interface{}{"tgt-history": vi, "renewable": renewable})
			}
			if nRenew > 0 {
				c.Count("tgt-history:with-tgt-renewal")
			}
			if nAS > 2 {
				c.Count("tgt-history:with-relogin")
			}
		}(vi)
	}
	wg.Wait()

	// ---------- (c) referral chains of length 0..8 ----------
	for n := 0; n <= 8; n++ {
		var ks []*kdc.KDC
		realms := []string{}
		for i := 0; i <= n; i++ {
			realms = append(realms, fmt.Sprintf("R%d.GOKRB5", i))
		}
		ok := true
		for i, r := range realms {
			kk := kdc.New(r)
			kk.StrictCRealm = false
			if i == 0 {
				kk.AddPrincipal([]string{"testuser1"}, "passwordvalue", 2)
			}
			if i == n {
				kk.AddPrincipal([]string{"HTTP", "far.example.org"}, "svcpw", 1)
			} else {
				kk.Referrals["example.org"] = realms[i+1]
			}
			if err := kk.Serve(); err != nil {
				ok = false
			}
			ks = append(ks, kk)
		}
		if !ok {
			continue
		}
		// cross-realm keys krbtgt/R(i+1)@R(i)
		for i := 0; i < n; i++ {
			keys := map[int32]types.EncryptionKey{}
			for _, et := range kdc.AllEtypes {
				keys[et] = randKey(c, et)
			}
			ks[i].CrossKeys[realms[i+1]] = keys
			ks[i+1].CrossKeys[realms[i]] = keys
		}
		cfg := testConfig(realms[0], []string{ks[0].Addr}, []int32{18})
		cfg.Realms = nil
		for i, r := range realms {
			cfg.Realms = append(cfg.Realms, config.Realm{Realm: r, KDC: []string{ks[i].Addr}})
		}
		cl := client.NewWithPassword("testuser1", realms[0], "passwordvalue", cfg, client.DisablePAFXFAST(true))
		var err error
		if err = cl.Login(); err == nil {
			_, _, err = cl.GetServiceTicket("HTTP/far.example.org")
		}
		total := 0
		for _, kk := range ks {
			for _, rq := range kk.Requests {
				if rq.Kind == "TGS" {
					total++
				}
			}
		}
		c.Case("referrals", jv.I(int64(n)), jv.Ok(jv.Bool(err == nil), jv.I(int64(total))))
		c.Check(total <= 7, "referral chains are followed only up to a fixed bound", "referrals-unbounded", fmt.Sprint(total), map[string]interface{}{"chain": n})
		c.Count(fmt.Sprintf("referrals:chain=%d", n))
		cl.Destroy()
		for _, kk := range ks {
			kk.Close()
		}
	}
	// with a KDC that compares the authenticator's realm with the TGT's (RFC 4120 3.2.3), two hops
	for n := 1; n <= 2; n++ {
		var ks []*kdc.KDC
		realms := []string{"S0.GOKRB5", "S1.GOKRB5", "S2.GOKRB5"}[:n+1]
		for i, r := range realms {
			kk := kdc.New(r)
			kk.StrictCRealm = true
			if i == 0 {
				kk.AddPrincipal([]string{"testuser1"}, "passwordvalue", 2)
			}
			if i == n {
				kk.AddPrincipal([]string{"HTTP", "far.example.org"}, "svcpw", 1)
			} else {
				kk.Referrals["example.org"] = realms[i+1]
			}
			kk.Serve()
			ks = append(ks, kk)
		}
		for i := 0; i < n; i++ {
			keys := map[int32]types.EncryptionKey{}
			for _, et := range kdc.AllEtypes {
				keys[et] = randKey(c, et)
			}
			ks[i].CrossKeys[realms[i+1]] = keys
			ks[i+1].CrossKeys[realms[i]] = keys
		}
		cfg := testConfig(realms[0], []string{ks[0].Addr}, []int32{18})
		cfg.Realms = nil
		for i, r := range realms {
			cfg.Realms = append(cfg.Realms, config.Realm{Realm: r, KDC: []string{ks[i].Addr}})
		}
		cl := client.NewWithPassword("testuser1", realms[0], "passwordvalue", cfg, client.DisablePAFXFAST(true))
		var err error
		if err = cl.Login(); err == nil {
			_, _, err = cl.GetServiceTicket("HTTP/far.example.org")
		}
		c.Check(err == nil, "a cross-realm service ticket is obtained from KDCs that compare the authenticator's client realm with the ticket's", fmt.Sprintf("cross-realm-crealm:hops=%d", n), fmt.Sprint(err), nil)
		cl.Destroy()
		for _, kk := range ks {
			kk.Close()
		}
	}
}

// c10ASScripts: the control flow of client.ASExchange against scripted KDC answers (model/ASExchange.v): which requests
// carry a PA-ENC-TIMESTAMP, how many are sent, how the exchange ends, and whether the client assumes pre-authentication
// afterwards (seen at the first request of a following login).
func c10ASScripts(c *Ctx) {
	realm := "TEST.GOKRB5"
	k := kdc.New(realm)
	k.AddPrincipal([]string{"testuser1"}, "passwordvalue", 2)
	if err := k.Serve(); err != nil {
		c.Notes = append(c.Notes, "c10ASScripts: simulated KDC did not start: "+err.Error())
		return
	}
	defer k.Close()
	alphabet := []int{0, -1, 25, 24, 68, 6}
	toModel := map[int]int64{0: 0, -1: 1, 25: 2, 24: 3, 68: 4, 6: 5}
	var scripts [][]int
	for _, a := range alphabet {
		scripts = append(scripts, []int{a})
		for _, b := range alphabet {
			scripts = append(scripts, []int{a, b})
		}
	}
	scripts = append(scripts, []int{68, 68, 68, 68, 68, 68, 68}, []int{68, 68, 68, 68, 68, 68, 0}, []int{68, 68, 68, 68, 68, 68, 25, 0},
		[]int{68, 68, 25, 0}, []int{68, 24, 0}, []int{68, 68, 68, 6})
	n := 30
	if !c.Quick() {
		n = 300
	}
	for i := 0; i < n; i++ {
		l := 3 + c.R.Intn(5)
		sc := make([]int, l)
		for j := range sc {
			sc[j] = []int{68, 68, 68, 25, 24, 0, 6, -1}[c.R.Intn(8)]
		}
		scripts = append(scripts, sc)
	}
	for si, sc := range scripts {
		for _, assume0 := range []bool{false, true} {
			if c.Quick() && si >= 42 && (si%2 == 0) == assume0 {
				continue
			}
			et := allEtypes[si%len(allEtypes)]
			if assume0 {
				// a pre-emptive timestamp is computed without the KDC's hints: it verifies only where the default
				// string-to-key parameters are the ones in force (the simulated KDC uses 4 iterations for AES)
				et = []int32{23, 16}[si%2]
			}
			cfg := testConfig(realm, []string{k.Addr}, []int32{et})
			for r := 1; r <= 8; r++ {
				cfg.Realms = append(cfg.Realms, config.Realm{Realm: fmt.Sprintf("REFERRED%d.GOKRB5", r), KDC: []string{k.Addr}})
			}
			cl := client.NewWithPassword("testuser1", realm, "passwordvalue", cfg, client.DisablePAFXFAST(true), client.AssumePreAuthentication(assume0))
			sc := sc
			k.SetASScript(func(n int) int {
				if n < len(sc) {
					return sc[n]
				}
				return 0
			})
			n0 := len(k.Requests)
			var err error
			p, _ := guard(func() { err = cl.Login() })
			reqs := asOnly(k.Requests[n0:])
			k.SetASScript(nil)
			var flags []jv.V
			hasTS := func(rq kdc.Request) bool {
				for _, pa := range rq.AS.PAData {
					if pa.PADataType == 2 {
						return true
					}
				}
				return false
			}
			for _, rq := range reqs {
				flags = append(flags, jv.Bool(hasTS(rq)))
			}
			sent := len(reqs)
			kind := int64(0)
			if err != nil {
				switch {
				case strings.Contains(err.Error(), "maximum number of client referrals exceeded"):
					kind = 4
				case strings.Contains(err.Error(), "Networking_Error"):
					kind = 2
				case strings.Contains(err.Error(), "KDC_Error"):
					kind = 1
				default:
					kind = 3
				}
			}
			// does the client assume pre-authentication now?  the first request of another login tells
			n1 := len(k.Requests)
			guard(func() { cl.Login() })
			assumeAfter := false
			if later := asOnly(k.Requests[n1:]); len(later) > 0 {
				assumeAfter = hasTS(later[0])
			}
			cl.Destroy()
			var js []jv.V
			for _, x := range sc {
				js = append(js, jv.I(toModel[x]))
			}
			in := jv.L(jv.L(js...), jv.I(0), jv.Bool(assume0))
			if p {
				c.Case("as_exchange", in, jv.Panic())
			} else {
				c.Case("as_exchange", in, jv.Ok(jv.I(kind), jv.L(flags...), jv.Bool(assumeAfter)))
			}
			inp := map[string]interface{}{"script": fmt.Sprint(sc), "assume": assume0, "etype": et}
			c.Check(!p, "no panic", "as-script-panic", "", inp)
			c.Check(sent <= 8, "a login ends after a bounded number of AS requests whatever the KDCs answer", "as-requests-unbounded", fmt.Sprint(sent), inp)
			// direct oracles: a demand for pre-authentication is answered by a request carrying a timestamp; a correct
			// AS-REP as the KDC's last word means success
			allOK := true
			for qi := 0; qi < sent && qi < len(sc); qi++ {
				if (sc[qi] == 25 || sc[qi] == 24) && qi+1 < sent {
					c.Check(hasTS(reqs[qi+1]), "a pre-authentication demand is answered with a PA-ENC-TIMESTAMP", "as-preauth-not-answered", fmt.Sprint(qi), inp)
				}
				if sc[qi] != 0 && sc[qi] != 25 && sc[qi] != 24 && sc[qi] != 68 {
					allOK = false
				}
			}
			if allOK && sent > 0 && (sent > len(sc) || sc[sent-1] == 0) {
				c.Check(err == nil, "login succeeds when the last answer is a correct AS-REP", "as-script-login-fails", fmt.Sprint(err), inp)
			}
			c.Count(fmt.Sprintf("as-script:requests=%d", sent))
			c.Count(fmt.Sprintf("as-script:outcome=%d", kind))
		}
	}
}

func asOnly(rs []kdc.Request) []kdc.Request {
	var o []kdc.Request
	for _, r := range rs {
		if r.Kind == "AS" {
			o = append(o, r)
		}
	}
	return o
}

func init() { props["C10"] = c10 }
