package main

import (
	"bytes"
	"fmt"
	"runtime"
	"sort"
	"strconv"
	"strings"
	"sync"
	"time"

	"github.com/jcmturner/gokrb5/v8/service"
	"github.com/jcmturner/gokrb5/v8/types"
	"verif/harness/internal/jv"
)

// logical operations of the replay cache model
type rOp struct {
	Kind  int // 0 present, 1 clear, 2 advance
	CName []string
	CT    int64 // logical client time, microseconds
	SName []string
	DT    int64
}

func (o rOp) jv() jv.V {
	switch o.Kind {
	case 0:
		return jv.L(jv.I(0), jv.S(joinSlash(o.CName)), jv.I(o.CT), jv.Strs(o.SName))
	case 1:
		return jv.L(jv.I(1))
	}
	return jv.L(jv.I(2), jv.I(o.DT))
}

func joinSlash(s []string) string {
	var b bytes.Buffer
	for i, x := range s {
		if i > 0 {
			b.WriteByte('/')
		}
		b.WriteString(x)
	}
	return b.String()
}

// rcDriver maps logical time onto the real clock: an authenticator with logical client time ct presented at
// logical time T is encoded with real client time base+(ct-T); advancing the logical clock by dt shifts
// every time stored in the cache back by dt (verif export).
type rcDriver struct {
	c    *service.Cache
	base time.Time
	nt   int32
	T    int64
	d    int64
}

func newRC(d int64) *rcDriver {
	return &rcDriver{c: service.VerifNewCache(), base: time.Now().UTC().Truncate(time.Second), d: d}
}

func (r *rcDriver) auth(o rOp) types.Authenticator {
	rt := r.base.Add(time.Duration(o.CT-r.T) * time.Microsecond)
	sec := rt.Truncate(time.Second)
	return types.Authenticator{CName: types.PrincipalName{NameType: 1, NameString: o.CName}, CTime: sec, Cusec: int(rt.Sub(sec) / time.Microsecond)}
}

// apply returns the verdict code of the model: 0 skew, 1 replay, 2 accept, 3 none
func (r *rcDriver) apply(o rOp) int {
	switch o.Kind {
	case 0:
		diff := r.T - o.CT
		if diff < 0 {
			diff = -diff
		}
		if diff > r.d {
			return 0 // rejected by the skew check of APReq.Verify before the cache is consulted
		}
		// the name type is not significant when principal names are compared (RFC 4120 6.2): presentations alternate it
		r.nt = r.nt%3 + 1
		if r.c.IsReplay(types.PrincipalName{NameType: r.nt, NameString: o.SName}, r.auth(o)) {
			return 1
		}
		return 2
	case 1:
		r.c.ClearOldEntries(time.Duration(r.d) * time.Microsecond)
		return 3
	default:
		r.c.VerifAdvance(time.Duration(o.DT) * time.Microsecond)
		r.T += o.DT
		return 3
	}
}

const sec = int64(1000000)

func runHistory(c *Ctx, d int64, ops []rOp, tag string) {
	r := newRC(d)
	var out, jops []jv.V
	acceptedAt := map[string]int64{} // key -> logical ct (for the direct oracle)
	okOracle := true
	detail := ""
	boundary := false
	for i, o := range ops {
		v := -1
		p, _ := guard(func() { v = r.apply(o) })
		if p {
			out = append(out, jv.Panic())
			okOracle = false
			detail = "panic"
			break
		}
		out = append(out, jv.L(jv.I(int64(v)), jv.I(int64(r.c.VerifSize()))))
		jops = append(jops, o.jv())
		if o.Kind == 1 {
			// the clean-up reads the real clock: the real time this history has been running (measured here, after the
			// call: an upper bound) decides the fate of an entry whose logical age is within it of the skew; such a
			// history is not compared with the model (which evaluates the logical instant); the direct oracle below
			// still applies
			el := int64(time.Since(r.base)/time.Microsecond) + 1000
			for _, ct := range acceptedAt {
				if age := r.T - ct; age <= d && age+el > d {
					boundary = true
				}
			}
		}
		if o.Kind == 0 {
			key := joinSlash(o.CName) + "|" + strconv.FormatInt(o.CT, 10) + "|" + fmt.Sprint(o.SName)
			if v == 2 {
				if _, dup := acceptedAt[key]; dup {
					okOracle = false
					detail = fmt.Sprintf("op %d: authenticator accepted a second time while still acceptable", i)
				}
				acceptedAt[key] = o.CT
			}
			if v == 1 {
				if _, seen := acceptedAt[key]; !seen {
					okOracle = false
					detail = fmt.Sprintf("op %d: replay reported for an authenticator never accepted", i)
				}
			}
		}
	}
	if boundary {
		c.Count("history:dropped-boundary")
	} else {
		c.Case("replay_run", jv.L(jv.I(d), jv.L(jops...)), jv.Ok(out...))
	}
	c.Check(okOracle, "an authenticator is accepted at most once while acceptable; replays only of accepted ones", "history:"+tag, detail, map[string]interface{}{"d": d, "ops": fmt.Sprint(ops)})
}

// ---------- cooperative scheduler over the verif yield points ----------

func goid() int64 {
	var buf [64]byte
	n := runtime.Stack(buf[:], false)
	f := bytes.Fields(buf[:n])
	id, _ := strconv.ParseInt(string(f[1]), 10, 64)
	return id
}

type coSched struct {
	mu     sync.Mutex
	tid    map[int64]int         // goroutine id -> thread index
	parked map[int]chan struct{} // thread -> resume channel
	done   map[int]bool
	trace  []string
}

func (s *coSched) yield(point string) {
	g := goid()
	s.mu.Lock()
	t, ok := s.tid[g]
	if !ok {
		s.mu.Unlock()
		return // not a scheduled goroutine
	}
	ch := make(chan struct{})
	s.parked[t] = ch
	s.mu.Unlock()
	<-ch
}

// runSchedule executes the threads under the choice sequence; returns the branching factors seen.
func runSchedule(threads []func(), choices []int) (factors []int, trace []int) {
	s := &coSched{tid: map[int64]int{}, parked: map[int]chan struct{}{}, done: map[int]bool{}}
	service.VerifYield = s.yield
	defer func() { service.VerifYield = nil }()
	var wg sync.WaitGroup
	started := make(chan struct{}, len(threads))
	for i, f := range threads {
		wg.Add(1)
		i, f := i, f
		go func() {
			defer wg.Done()
			s.mu.Lock()
			s.tid[goid()] = i
			s.mu.Unlock()
			started <- struct{}{}
			s.yield("start")
			f()
			s.mu.Lock()
			s.done[i] = true
			s.mu.Unlock()
		}()
	}
	for range threads {
		<-started
	}
	step := 0
	for {
		// wait until every live thread is parked, or (blocked on the mutex) has made no progress for a while
		var parkedIDs []int
		deadline := time.Now().Add(1500 * time.Microsecond)
		for {
			s.mu.Lock()
			parkedIDs = parkedIDs[:0]
			nd := 0
			for t := range threads {
				if s.done[t] {
					nd++
				} else if _, ok := s.parked[t]; ok {
					parkedIDs = append(parkedIDs, t)
				}
			}
			s.mu.Unlock()
			if nd == len(threads) {
				wg.Wait()
				return factors, trace
			}
			if nd+len(parkedIDs) == len(threads) {
				break
			}
			if time.Now().After(deadline) && len(parkedIDs) > 0 {
				break // the others are blocked on a lock held by a parked thread
			}
			runtime.Gosched()
			time.Sleep(20 * time.Microsecond)
		}
		sort.Ints(parkedIDs)
		ch := 0
		if step < len(choices) {
			ch = choices[step]
		}
		if ch >= len(parkedIDs) {
			ch = 0
		}
		factors = append(factors, len(parkedIDs))
		t := parkedIDs[ch]
		trace = append(trace, t)
		s.mu.Lock()
		c := s.parked[t]
		delete(s.parked, t)
		s.mu.Unlock()
		close(c)
		step++
	}
}

// enumerate all schedules by depth-first search over the choice sequences
func allSchedules(mk func() []func(), visit func(trace []int), limit int) int {
	choices := []int{}
	n := 0
	for {
		factors, trace := runSchedule(mk(), choices)
		visit(trace)
		n++
		if n >= limit {
			return n
		}
		// next choice sequence
		full := make([]int, len(factors))
		copy(full, choices)
		i := len(factors) - 1
		for ; i >= 0; i-- {
			if full[i]+1 < factors[i] {
				break
			}
		}
		if i < 0 {
			return n
		}
		full[i]++
		choices = full[:i+1]
	}
}

func c02(c *Ctx) {
	checkPrincipalEqual(c)
	d := 300 * sec
	clients := [][]string{{"alice"}, {"bob", "admin"}}
	times := []int64{1 * sec, 291 * sec, -149 * sec}
	services := [][]string{{"HTTP", "web.test"}, {"host", "db.test"}}
	var alpha []rOp
	for _, cl := range clients {
		for _, t := range times[:2] {
			for _, sv := range services {
				alpha = append(alpha, rOp{Kind: 0, CName: cl, CT: t, SName: sv})
			}
		}
	}
	alpha = append(alpha, rOp{Kind: 1}, rOp{Kind: 2, DT: 200 * sec}, rOp{Kind: 2, DT: 310 * sec})
	// (ii) bounded-exhaustive histories over the small alphabet
	maxLen := 4
	if !c.Quick() {
		maxLen = 5
	}
	var rec func(prefix []rOp)
	rec = func(prefix []rOp) {
		if len(prefix) > 0 {
			runHistory(c, d, prefix, "exhaustive")
			c.Count(fmt.Sprintf("exhaustive:len=%d", len(prefix)))
		}
		if len(prefix) == maxLen {
			return
		}
		for _, o := range alpha {
			rec(append(append([]rOp{}, prefix...), o))
		}
	}
	// restrict the exhaustive part to histories that start with a presentation (the others are suffixes)
	for _, o := range alpha[:8] {
		rec([]rOp{o})
	}
	// long random histories incl. presentations late in the skew window and clean-ups
	nRand := 300
	if !c.Quick() {
		nRand = 3000
	}
	for i := 0; i < nRand; i++ {
		n := 5 + c.R.Intn(196)
		var ops []rOp
		var T int64
		var pool []rOp
		for j := 0; j < n; j++ {
			switch k := c.R.Intn(10); {
			case k < 5 || len(pool) == 0:
				// a fresh authenticator: client time anywhere from -d-20s to +d+20s around now (offset ≡ 1s mod 10s)
				off := (int64(c.R.Intn(65))-32)*10*sec + 1*sec
				o := rOp{Kind: 0, CName: clients[c.R.Intn(2)], CT: T + off + int64(c.R.Intn(3)), SName: services[c.R.Intn(2)]}
				if c.R.Intn(4) == 0 {
					o.CName = []string{fmt.Sprintf("u%d", c.R.Intn(5))}
				}
				pool = append(pool, o)
				ops = append(ops, o)
			case k < 8:
				o := pool[c.R.Intn(len(pool))]
				if c.R.Intn(5) == 0 {
					o.SName = services[c.R.Intn(2)] // same client and time, maybe the other service
				}
				ops = append(ops, o)
			case k == 8:
				ops = append(ops, rOp{Kind: 1})
			default:
				dt := int64(c.R.Intn(40)) * 10 * sec
				T += dt
				ops = append(ops, rOp{Kind: 2, DT: dt})
			}
		}
		runHistory(c, d, ops, "random")
		c.Count("random-history")
	}

	// (i) every interleaving of 2-3 concurrent verifications (+ clean-up) over the yield points
	a1 := rOp{Kind: 0, CName: clients[0], CT: 1 * sec, SName: services[0]}
	a2 := rOp{Kind: 0, CName: clients[0], CT: 1 * sec, SName: services[1]}
	a3 := rOp{Kind: 0, CName: clients[1], CT: 291 * sec, SName: services[0]}
	// a fresh authenticator of a client all of whose recorded authenticators have expired, presented twice while the
	// clean-up runs: whatever the clean-up decides about that client it decides on what it sees under ONE lock
	b1 := rOp{Kind: 0, CName: clients[0], CT: 311 * sec, SName: services[0]}
	scenarios := [][]rOp{
		{a1, a1}, {a1, a1, a1}, {a1, a1, {Kind: 1}}, {a1, a2, a1}, {a1, a3, a1}, {a1, a1, a2, {Kind: 1}}, {b1, b1, {Kind: 1}},
	}
	pres := [][]rOp{{}, {a3}, {a1}, {a1, {Kind: 2, DT: 310 * sec}}}
	for si, sc := range scenarios {
		for pi, pre := range pres {
			if c.Quick() && (pi == 2 && si > 1 || si == 5 || si == 1 && pi == 1) {
				continue
			}
			if (si == 6) != (pi == 3) && (c.Quick() || si == 6) {
				continue // the expired-client pre-state belongs to the last scenario (all combinations in the thorough tier)
			}
			nSched := 0
			ok := true
			detail := ""
			var jsc, jpre []jv.V
			for _, o := range sc {
				jsc = append(jsc, o.jv())
			}
			for _, o := range pre {
				jpre = append(jpre, o.jv())
			}
			outcomes := map[string]bool{}
			nSched = allSchedules(func() []func() {
				r := newRC(d)
				for _, o := range pre {
					r.apply(o)
				}
				res := make([]int, len(sc))
				var fs []func()
				for i, o := range sc {
					i, o := i, o
					fs = append(fs, func() { res[i] = r.apply(o) })
				}
				// a final thread-less closure records the result after all threads are done: done via visit
				lastRes = res
				return fs
			}, func(trace []int) {
				var codes []int
				for i, o := range sc {
					if o.Kind == 0 {
						codes = append(codes, lastRes[i])
					}
				}
				sort.Ints(codes)
				outcomes[fmt.Sprint(codes)] = true
				// direct oracle: among identical authenticators at most one accept
				cnt := map[string]int{}
				for i, o := range sc {
					if o.Kind == 0 && lastRes[i] == 2 {
						cnt[fmt.Sprint(o)]++
					}
				}
				for k, n := range cnt {
					if n > 1 {
						ok = false
						detail = fmt.Sprintf("schedule %v: %d concurrent acceptances of %s", trace, n, k)
					}
				}
			}, 4000)
			c.Count(fmt.Sprintf("interleavings:scenario=%d", si))
			c.Hist["schedules-explored"] += nSched
			c.Hist[fmt.Sprintf("schedules:scenario=%d", si)] += nSched
			c.Check(ok, "no schedule accepts one authenticator twice", "interleaving", detail, map[string]interface{}{"scenario": fmt.Sprint(sc), "pre": fmt.Sprint(pre)})
			// every observed outcome must be the outcome of the atomic model
			for oc := range outcomes {
				var codes []jv.V
				var xs []int
				fmt.Sscan(oc) // no-op
				for _, f := range bytes.Fields([]byte(oc[1 : len(oc)-1])) {
					n, _ := strconv.Atoi(string(f))
					xs = append(xs, n)
				}
				for _, x := range xs {
					codes = append(codes, jv.I(int64(x)))
				}
				c.Case("replay_conc", jv.L(jv.I(d), jv.L(jpre...), jv.L(jsc...)), jv.Ok(codes...))
			}
		}
	}

	// (iii) free-running parallel stress: 16 goroutines present one authenticator at once
	trials := 2000
	if !c.Quick() {
		trials = 40000
	}
	bad := 0
	for t := 0; t < trials; t++ {
		r := newRC(d)
		o := rOp{Kind: 0, CName: clients[t%2], CT: int64(t%200) * sec, SName: services[t%2]}
		au := r.auth(o)
		sn := types.PrincipalName{NameType: 2, NameString: o.SName}
		var wg sync.WaitGroup
		start := make(chan struct{})
		var acc int32
		var mu sync.Mutex
		for g := 0; g < 16; g++ {
			wg.Add(1)
			go func() {
				defer wg.Done()
				<-start
				if !r.c.IsReplay(sn, au) {
					mu.Lock()
					acc++
					mu.Unlock()
				}
			}()
		}
		close(start)
		wg.Wait()
		if acc != 1 {
			bad++
		}
	}
	c.Hist["stress-trials"] = trials
	c.Check(bad == 0, "16 parallel presentations of one authenticator: exactly one accepted", "stress", fmt.Sprintf("%d of %d trials accepted it more than once (or never)", bad, trials), nil)
	// ---- end to end through VerifyAPREQ with the real skew check and the process-wide cache: an authenticator is
	// refused as a replay while it is acceptable and refused for skew afterwards - also in the moments after its
	// record has been cleaned out (client time a few hundred milliseconds beyond the skew) ----
	{
		svc := newTestService(c, []string{"HTTP", "host.test.gokrb5"})
		d := 2 * time.Second
		st := service.NewSettings(svc.kt, service.MaxClockSkew(d), service.DecodePAC(false))
		for _, et := range []int32{18, 23} {
			r := baseRecipe(c, svc, et)
			r.ctime = time.Now().UTC().Truncate(time.Microsecond)
			m := mint(c, r)
			present := func() (bool, error) {
				req := m.req
				var ok bool
				var err error
				guard(func() { ok, _, err = service.VerifyAPREQ(&req, st) })
				return ok, err
			}
			ok1, e1 := present()
			ok2, _ := present()
			// the same bytes with only the (cleartext, insignificant) name type of the ticket's sname rewritten
			{
				req := m.req
				req.Ticket.SName.NameType = 3
				var ok3 bool
				guard(func() { ok3, _, _ = service.VerifyAPREQ(&req, st) })
				c.Check(!ok3, "a replay is recognised whatever name type the cleartext service name carries", "e2e:replay-other-nametype", "", map[string]interface{}{"etype": et})
			}
			// "within one service process": the same bytes through other settings objects of the same service - another
			// permitted skew, a keytab principal override naming the same principal - are the same authenticator
			for si, st2 := range []*service.Settings{
				service.NewSettings(svc.kt, service.MaxClockSkew(5*time.Minute), service.DecodePAC(false)),
				service.NewSettings(svc.kt, service.MaxClockSkew(d+time.Second), service.DecodePAC(false)),
				service.NewSettings(svc.kt, service.MaxClockSkew(d), service.DecodePAC(false), service.KeytabPrincipal(joinSlash(svc.sname))),
				service.NewSettings(svc.kt),
			} {
				req := m.req
				var ok4 bool
				guard(func() { ok4, _, _ = service.VerifyAPREQ(&req, st2) })
				c.Check(!ok4, "a replay is recognised through every settings object of the service process", "e2e:replay-other-settings", fmt.Sprint("settings ", si), map[string]interface{}{"etype": et, "settings": si})
			}
			// ... and with unprotected letters of the ticket's service name re-cased: whichever way the key look-up and the
			// replay record treat case, the same authenticator is not accepted again by this service
			for vi := 0; vi < 2; vi++ {
				req := m.req
				ns := append([]string{}, req.Ticket.SName.NameString...)
				if vi == 0 {
					ns[len(ns)-1] = strings.ToUpper(ns[len(ns)-1])
				} else {
					ns[0] = strings.ToLower(ns[0])
				}
				req.Ticket.SName = types.PrincipalName{NameType: req.Ticket.SName.NameType, NameString: ns}
				var ok5 bool
				guard(func() { ok5, _, _ = service.VerifyAPREQ(&req, st) })
				c.Check(!ok5, "a replay is recognised whatever the letter case of the cleartext service name", "e2e:replay-recased-sname", fmt.Sprint(ns), map[string]interface{}{"etype": et})
			}
			c.Check(ok1 && !ok2, "a fresh authenticator is accepted once and refused as a replay at once", "e2e:first-presentations", fmt.Sprint(ok1, e1, ok2), map[string]interface{}{"etype": et})
			accepted := 0
			if ok1 {
				accepted++
			}
			if ok2 {
				accepted++
			}
			for _, extra := range []time.Duration{300 * time.Millisecond, 700 * time.Millisecond} {
				if w := time.Until(r.ctime.Add(d + extra)); w > 0 {
					time.Sleep(w)
				}
				service.GetReplayCache(d).ClearOldEntries(d)
				if ok, _ := present(); ok {
					accepted++
				}
			}
			c.Check(accepted <= 1, "the same authenticator is never accepted twice, also just after its record was cleaned out", "e2e:accepted-again-after-cleanup", fmt.Sprintf("accepted %d times", accepted), map[string]interface{}{"etype": et})
			c.Count("e2e:skew-edge")
		}
	}
}

var lastRes []int

func init() { props["C02"] = c02 }
