package main

import (
	"fmt"
	"github.com/jcmturner/gokrb5/v8/types"
	"reflect"
	"runtime"
	"sort"
	"strings"
	"sync"
	"sync/atomic"
	"time"

	"github.com/jcmturner/gokrb5/v8/client"
	"github.com/jcmturner/gokrb5/v8/config"
	"verif/harness/internal/kdc"
)

// blockedInClient summarises a goroutine dump: for every goroutine parked on a lock, the gokrb5 frames above it.
func blockedInClient(dump string) string {
	var out []string
	for _, g := range strings.Split(dump, "\n\n") {
		if !strings.Contains(g, "sync.(*RWMutex)") && !strings.Contains(g, "sync.(*Mutex)") {
			continue
		}
		var frames []string
		for _, ln := range strings.Split(g, "\n") {
			if strings.HasPrefix(ln, "github.com/jcmturner/gokrb5/v8/") || strings.HasPrefix(ln, "sync.(*") {
				f := strings.TrimPrefix(ln, "github.com/jcmturner/gokrb5/v8/")
				if i := strings.LastIndex(f, "("); i > 0 {
					f = f[:i]
				}
				frames = append(frames, f)
			}
		}
		if len(frames) > 8 {
			frames = frames[:8]
		}
		out = append(out, strings.Join(frames, " < "))
	}
	sort.Strings(out)
	// collapse duplicates
	var res []string
	for i, o := range out {
		if i == 0 || o != out[i-1] {
			res = append(res, o)
		}
	}
	return strings.Join(res, " || ")
}

func deepCopyRealms(rs []config.Realm) []config.Realm {
	out := make([]config.Realm, len(rs))
	for i, r := range rs {
		out[i] = r
		out[i].KDC = append([]string(nil), r.KDC...)
		out[i].KPasswdServer = append([]string(nil), r.KPasswdServer...)
		out[i].AdminServer = append([]string(nil), r.AdminServer...)
	}
	return out
}

// C11: one logged-in client and one configuration shared by 2-16 goroutines. Run under the race detector
// (bin/vrun-race); data-race reports are collected by bin/check from the GORACE log.
func c11(c *Ctx) {
	realm := "TEST.GOKRB5"
	trials := 24
	if !c.Quick() {
		trials = 400
	}
	spns := [][]string{{"HTTP", "a.test.gokrb5"}, {"HTTP", "b.test.gokrb5"}, {"host", "c.test.gokrb5"}, {"HTTP", "d.test.gokrb5"}}
	for trial := 0; trial < trials; trial++ {
		nk := 1 + trial%3
		var ks []*kdc.KDC
		var addrs []string
		for i := 0; i < nk; i++ {
			k := kdc.New(realm)
			k.AddPrincipal([]string{"testuser1"}, "passwordvalue", 2)
			for _, s := range spns {
				k.AddPrincipal(s, "svcpw", 1)
			}
			k.RequirePreauth = trial%2 == 0
			if trial%6 == 4 {
				// the TGT is always inside the last sixth of its lifetime: every service-ticket request goes
				// through the session refresh path (renewal when renewable, re-login otherwise)
				k.Backdate = 50 * time.Minute
				k.TicketLifetime = 9 * time.Minute
				if trial%12 == 4 {
					k.RenewLifetime = time.Hour
				}
			}
			if err := k.Serve(); err != nil {
				c.Notes = append(c.Notes, err.Error())
				return
			}
			ks = append(ks, k)
			addrs = append(addrs, k.Addr)
		}
		// the TGT session key is of another type every trial: AES is read in assembly, which the race detector does not
		// see; rc4 and des3 are Go code
		cfg := testConfig(realm, addrs, []int32{[]int32{18, 23, 16}[trial%3]})
		if trial%6 == 4 {
			cfg.LibDefaults.Clockskew = time.Hour
			if trial%12 == 4 {
				cfg.LibDefaults.RenewLifetime = time.Hour
			}
			c.Count("session-refresh-path")
		}
		before := deepCopyRealms(cfg.Realms)
		cl := client.NewWithPassword("testuser1", realm, "passwordvalue", cfg, client.DisablePAFXFAST(true))
		if err := cl.Login(); err != nil {
			c.Check(false, "login succeeds", "login-fails", err.Error(), nil)
			continue
		}
		ng := 2 + c.R.Intn(15)
		type got struct {
			spn string
			id  string
			key string
			err error
		}
		var mu sync.Mutex
		var gots []got
		var kdcBad int32
		start := make(chan struct{})
		var wg sync.WaitGroup
		seeds := make([]int64, ng)
		for g := range seeds {
			seeds[g] = c.R.Int63()
		}
		withDestroy := trial%4 == 3
		for g := 0; g < ng; g++ {
			wg.Add(1)
			go func(g int) {
				defer wg.Done()
				<-start
				time.Sleep(time.Duration(seeds[g]%2000) * time.Microsecond)
				for op := 0; op < 6; op++ {
					if withDestroy && g == 0 && op == 3 {
						// in every fourth trial the client is destroyed while the other goroutines are in the middle of
						// their requests
						cl.Destroy()
						continue
					}
					switch (seeds[g] >> uint(4*op)) % 8 {
					case 0, 1, 2, 3, 4:
						s := spns[(seeds[g]>>uint(3*op+7))%4]
						t, k, err := cl.GetServiceTicket(joinSlash(s))
						mu.Lock()
						gots = append(gots, got{joinSlash(s), kdc.TicketID(t), string(k.KeyValue), err})
						mu.Unlock()
					case 5:
						cl.Login()
					case 6:
						n, m, err := cfg.GetKDCs(realm, seeds[g]%2 == 0)
						var vals []string
						for _, v := range m {
							vals = append(vals, v)
						}
						sort.Strings(vals)
						want := append([]string{}, addrs...)
						sort.Strings(want)
						if err != nil || n != len(addrs) || !reflect.DeepEqual(vals, want) {
							atomic.AddInt32(&kdcBad, 1)
						}
					case 7:
						if withDestroy && g == 0 && op == 5 {
							cl.Destroy()
						} else {
							cl.IsConfigured()
						}
					}
				}
			}(g)
		}
		done := make(chan struct{})
		go func() { wg.Wait(); close(done) }()
		close(start)
		deadlocked := false
		select {
		case <-done:
		case <-time.After(40 * time.Second):
			deadlocked = true
		}
		detail := ""
		if deadlocked {
			buf := make([]byte, 1<<20)
			detail = blockedInClient(string(buf[:runtime.Stack(buf, true)]))
		}
		c.Check(!deadlocked, "concurrent use does not deadlock", "deadlock", fmt.Sprintf("trial %d with %d goroutines did not finish in 40 s; %s", trial, ng, detail), nil)
		if deadlocked {
			return
		}
		// every (ticket, key) pair returned was issued together by some KDC for that SPN
		issued := map[string]string{}
		for _, k := range ks {
			for _, is := range k.Issues {
				issued[is.TicketHash+"|"+joinSlash(is.SName)] = string(is.Key.KeyValue)
			}
		}
		for _, gt := range gots {
			if gt.err != nil {
				if !withDestroy {
					c.Check(false, "GetServiceTicket succeeds under concurrency", "get-fails", gt.err.Error(), nil)
				}
				continue
			}
			key, ok := issued[gt.id+"|"+gt.spn]
			c.Check(ok && key == gt.key, "every (ticket, session key) pair returned was issued together by the KDC", "pair-mismatch", gt.spn, nil)
		}
		c.Check(kdcBad == 0, "GetKDCs returns a permutation of the configured servers", "getkdcs-not-permutation", fmt.Sprint(kdcBad), nil)
		c.Check(reflect.DeepEqual(before, cfg.Realms), "resolving KDC addresses does not modify the configuration", "config-modified", "", nil)
		c.Count(fmt.Sprintf("goroutines=%d", ng))
		c.Count(fmt.Sprintf("kdcs=%d", nk))
		cl.Destroy()
		for _, k := range ks {
			k.Close()
		}
	}
	c11Renewal(c)
}

// c11Renewal: cached service tickets just past their end time and still renewable: concurrent requests go through
// renewTicket (the KDC tolerates a second of clock skew and renews, with a NEW session key); every pair handed back
// must be one the KDC issued together.  (The KDC here serves renewal requests whose authenticator is under key usage 11:
// see kdc.LenientRenewUsage.)
func c11Renewal(c *Ctx) {
	realm := "TEST.GOKRB5"
	k := kdc.New(realm)
	k.AddPrincipal([]string{"testuser1"}, "passwordvalue", 2)
	spns := [][]string{{"HTTP", "a.test.gokrb5"}, {"HTTP", "b.test.gokrb5"}, {"HTTP", "c.test.gokrb5"}}
	for _, s := range spns {
		k.AddPrincipal(s, "svcpw", 1)
	}
	k.TicketLifetime, k.ServiceLifetime, k.RenewLifetime = time.Hour, 2*time.Second, time.Hour
	k.LenientRenewUsage = true // otherwise no renewal of a service ticket ever succeeds and renewTicket's success path is not reached
	if err := k.Serve(); err != nil {
		c.Notes = append(c.Notes, "c11Renewal: simulated KDC did not start: "+err.Error())
		return
	}
	defer k.Close()
	rounds := 1
	if !c.Quick() {
		rounds = 4
	}
	for round := 0; round < rounds; round++ {
		cfg := testConfig(realm, []string{k.Addr}, []int32{18})
		cfg.LibDefaults.RenewLifetime = time.Hour
		cl := client.NewWithPassword("testuser1", realm, "passwordvalue", cfg, client.DisablePAFXFAST(true))
		if err := cl.Login(); err != nil {
			c.Check(false, "login succeeds", "login-fails", err.Error(), nil)
			return
		}
		var latest time.Time
		for _, s := range spns {
			if _, _, err := cl.GetServiceTicket(joinSlash(s)); err != nil {
				c.Check(false, "a service ticket is obtained", "get-fails", err.Error(), nil)
			}
		}
		for _, is := range k.Issues {
			if is.Kind == "TGS" && is.End.After(latest) {
				latest = is.End
			}
		}
		if w := time.Until(latest.Add(150 * time.Millisecond)); w > 0 {
			time.Sleep(w)
		}
		n0 := len(k.Requests)
		type got struct {
			spn, id, key string
			err          error
		}
		var mu sync.Mutex
		var gots []got
		var wg sync.WaitGroup
		for g := 0; g < 6; g++ {
			wg.Add(1)
			go func(g int) {
				defer wg.Done()
				for i := 0; i < 3; i++ {
					s := spns[(g+i)%3]
					t, key, err := cl.GetServiceTicket(joinSlash(s))
					mu.Lock()
					gots = append(gots, got{joinSlash(s), kdc.TicketID(t), string(key.KeyValue), err})
					mu.Unlock()
				}
			}(g)
		}
		wg.Wait()
		renewals := 0
		for _, rq := range k.Requests[n0:] {
			if rq.Kind == "TGS" && rq.TGS != nil && types.IsFlagSet(&rq.TGS.ReqBody.KDCOptions, 30) {
				renewals++
			}
		}
		c.Hist["renewal-requests"] += renewals
		issued := map[string]string{}
		for _, is := range k.Issues {
			issued[is.TicketHash+"|"+joinSlash(is.SName)] = string(is.Key.KeyValue)
		}
		for _, gt := range gots {
			if gt.err != nil {
				c.Check(false, "GetServiceTicket succeeds for an expired, renewable cached ticket", "get-fails-renewal", gt.err.Error(), nil)
				continue
			}
			key, ok := issued[gt.id+"|"+gt.spn]
			c.Check(ok && key == gt.key, "every (ticket, session key) pair returned was issued together by the KDC", "pair-mismatch-renewal", gt.spn, nil)
		}
		c.Count("renewal-round")
		cl.Destroy()
	}
}

func init() { props["C11"] = c11 }
