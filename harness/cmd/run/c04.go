package main

import (
	"bufio"
	"bytes"
	"encoding/base64"
	"encoding/binary"
	"encoding/hex"
	"fmt"
	"io"
	"net"
	"os"
	"os/exec"
	"runtime"
	"strconv"
	"strings"
	"syscall"
	"time"

	"github.com/jcmturner/gofork/encoding/asn1"
	"github.com/jcmturner/gokrb5/v8/client"
	"github.com/jcmturner/gokrb5/v8/config"
	"github.com/jcmturner/gokrb5/v8/credentials"
	"github.com/jcmturner/gokrb5/v8/crypto"
	"github.com/jcmturner/gokrb5/v8/gssapi"
	"github.com/jcmturner/gokrb5/v8/kadmin"
	"github.com/jcmturner/gokrb5/v8/keytab"
	"github.com/jcmturner/gokrb5/v8/messages"
	"github.com/jcmturner/gokrb5/v8/pac"
	"github.com/jcmturner/gokrb5/v8/service"
	"github.com/jcmturner/gokrb5/v8/spnego"
	"github.com/jcmturner/gokrb5/v8/test/testdata"
	"github.com/jcmturner/gokrb5/v8/types"
	"verif/harness/internal/jv"
	"verif/harness/internal/kdc"
)

type entryPoint struct {
	skip   [][2]int // byte ranges of the corpus not to mutate blindly (PBKDF2 iteration counts: probed with chosen values)
	name   string
	corpus [][]byte
	call   func(b []byte)
	model  func(c *Ctx, b []byte, panicked bool) // optional: emit a model case
	iso    func(b []byte) isoResult              // optional: run the call in a worker process instead (external decoders that can die of a fatal out-of-memory error)
	hangs  int                                   // probes of this entry point that did not return: after two, the rest are skipped (each leaves a spinning goroutine behind)
}

// ---- process isolation for entry points that reach the external NDR decoder (jcmturner/rpc/v2): it allocates by
// unchecked element counts, and a request of several GiB is a FATAL error of the Go runtime that no recover() sees.
// The worker is this binary re-executed with VERIF_C04_WORKER=pac under a 256 MiB data-segment limit.
type isoResult struct {
	panicked      bool
	pv            string
	alloc         uint64
	el            time.Duration
	crashed       bool // the worker process died
	crashExternal bool // ... inside the external decoder
	detail        string
}

type c04Worker struct {
	cmd    *exec.Cmd
	in     io.WriteCloser
	out    *bufio.Reader
	errBuf *bytes.Buffer
}

var pacW *c04Worker

// functions run in the worker by name (they reach the external NDR reader); stateless: a fixed key is enough
var c04Key = types.EncryptionKey{KeyType: 18, KeyValue: []byte("0123456789abcdef0123456789abcdef")}
var isoFuncs = map[string]func(b []byte){
	"pac.CredentialsInfo.Unmarshal":        func(b []byte) { var x pac.CredentialsInfo; x.Unmarshal(b, c04Key) },
	"pac.CredentialData.Unmarshal":         func(b []byte) { var x pac.CredentialData; x.Unmarshal(b) },
	"pac.DeviceClaimsInfo.Unmarshal":       func(b []byte) { var x pac.DeviceClaimsInfo; x.Unmarshal(b) },
	"pac.DeviceInfo.Unmarshal":             func(b []byte) { var x pac.DeviceInfo; x.Unmarshal(b) },
	"pac.S4UDelegationInfo.Unmarshal":      func(b []byte) { var x pac.S4UDelegationInfo; x.Unmarshal(b) },
	"pac.NTLMSupplementalCred.Unmarshal":   func(b []byte) { var x pac.NTLMSupplementalCred; x.Unmarshal(b) },
	"pac.SECPKGSupplementalCred.Unmarshal": func(b []byte) { var x pac.SECPKGSupplementalCred; x.Unmarshal(b) },
	"pac.ClientClaimsInfo.Unmarshal":       func(b []byte) { var x pac.ClientClaimsInfo; x.Unmarshal(b) },
	"pac.KerbValidationInfo.Unmarshal":     func(b []byte) { var x pac.KerbValidationInfo; x.Unmarshal(b) },
	"pac.UPNDNSInfo.Unmarshal":             func(b []byte) { var x pac.UPNDNSInfo; x.Unmarshal(b) },
	"pac.ClientInfo.Unmarshal":             func(b []byte) { var x pac.ClientInfo; x.Unmarshal(b) },
}

func init() {
	if os.Getenv("VERIF_C04_WORKER") == "pac" {
		lim := syscall.Rlimit{Cur: 256 << 20, Max: 256 << 20}
		syscall.Setrlimit(syscall.RLIMIT_DATA, &lim)
		in := bufio.NewReaderSize(os.Stdin, 1<<22)
		out := bufio.NewWriter(os.Stdout)
		for {
			line, err := in.ReadString('\n')
			if err != nil {
				os.Exit(0)
			}
			f := strings.Fields(line)
			if len(f) != 3 {
				os.Exit(0)
			}
			name := f[0]
			b, _ := hex.DecodeString(strings.TrimPrefix(f[1], "x"))
			kv, _ := hex.DecodeString(strings.TrimPrefix(f[2], "x"))
			var ms0, ms1 runtime.MemStats
			runtime.ReadMemStats(&ms0)
			t0 := time.Now()
			p, pv := guard(func() {
				if fn, ok := isoFuncs[name]; ok {
					fn(b)
					return
				}
				var x pac.PACType
				if x.Unmarshal(b) == nil {
					x.ProcessPACInfoBuffers(types.EncryptionKey{KeyType: 18, KeyValue: kv}, nil)
				}
			})
			el := time.Since(t0)
			runtime.ReadMemStats(&ms1)
			st := "ok"
			if p {
				st = "panic:" + strings.ReplaceAll(strings.ReplaceAll(fmt.Sprint(pv), "\t", " "), "\n", " ")
			}
			fmt.Fprintf(out, "%s\t%d\t%d\n", st, ms1.TotalAlloc-ms0.TotalAlloc, el.Microseconds())
			out.Flush()
		}
	}
}

func startPacWorker() *c04Worker {
	exe, err := os.Executable()
	if err != nil {
		panic(err)
	}
	cmd := exec.Command(exe)
	cmd.Env = append(os.Environ(), "VERIF_C04_WORKER=pac", "GOTRACEBACK=single", "GOMAXPROCS=2")
	w := &c04Worker{cmd: cmd, errBuf: new(bytes.Buffer)}
	w.in, _ = cmd.StdinPipe()
	op, _ := cmd.StdoutPipe()
	w.out = bufio.NewReaderSize(op, 1<<20)
	cmd.Stderr = w.errBuf
	if err := cmd.Start(); err != nil {
		panic(err)
	}
	return w
}

func pacIsolated(key []byte) func(b []byte) isoResult { return isolated("pac", key) }

// isolated runs one probe in the worker; a probe during which the worker dies is run once more in a fresh worker, so
// that a death caused by the memory earlier probes left behind (the worker lives under a data-segment limit) is not
// charged to this input.
func isolated(name string, key []byte) func(b []byte) isoResult {
	once := isolatedOnce(name, key)
	return func(b []byte) isoResult {
		fresh := pacW == nil // the worker (re)starts with this probe: nothing was left behind by earlier ones
		r := once(b)
		if r.crashed && !fresh {
			r = once(b)
		}
		return r
	}
}

func isolatedOnce(name string, key []byte) func(b []byte) isoResult {
	return func(b []byte) isoResult {
		if pacW == nil {
			pacW = startPacWorker()
		}
		w := pacW
		fmt.Fprintf(w.in, "%s x%s x%s\n", name, hex.EncodeToString(b), hex.EncodeToString(key))
		type rd struct {
			line string
			err  error
		}
		ch := make(chan rd, 1)
		go func() { l, e := w.out.ReadString('\n'); ch <- rd{l, e} }()
		var r rd
		select {
		case r = <-ch:
		case <-time.After(20 * time.Second):
			w.cmd.Process.Kill()
			w.cmd.Wait()
			pacW = nil
			return isoResult{el: 20 * time.Second, detail: "worker timed out"}
		}
		if r.err != nil {
			w.in.Close()
			w.cmd.Wait()
			pacW = nil
			se := w.errBuf.String()
			// The crash is charged to gokrb5 only when the failing allocation is large (> 32 MiB) and was requested
			// from a gokrb5 frame with no external decoder frame above it; a small allocation failing anywhere (also
			// inside the runtime) is collateral damage of the memory the external decoder took under the limit.
			ext := true
			if i := strings.Index(se, "goroutine "); i >= 0 {
				var size uint64
				for _, ln := range strings.Split(se[i:], "\n")[1:] {
					if ln == "" {
						break
					}
					if strings.HasPrefix(ln, "runtime.mallocgc(0x") && size == 0 {
						h := ln[len("runtime.mallocgc(0x"):]
						if j := strings.IndexAny(h, ",?)"); j > 0 {
							size, _ = strconv.ParseUint(h[:j], 16, 64)
						}
					}
					if strings.HasPrefix(ln, "github.com/jcmturner/rpc/") {
						break
					}
					if strings.HasPrefix(ln, "github.com/jcmturner/gokrb5/") {
						ext = size <= 32<<20
						break
					}
				}
			}
			if len(se) > 600 {
				se = se[:600]
			}
			return isoResult{crashed: true, crashExternal: ext, detail: se}
		}
		f := strings.Split(strings.TrimRight(r.line, "\n"), "\t")
		res := isoResult{}
		if len(f) == 3 {
			if strings.HasPrefix(f[0], "panic:") {
				res.panicked, res.pv = true, f[0][6:]
			}
			fmt.Sscan(f[1], &res.alloc)
			var us int64
			fmt.Sscan(f[2], &us)
			res.el = time.Duration(us) * time.Microsecond
		}
		return res
	}
}

func hexs(s string) []byte { b, _ := hex.DecodeString(s); return b }

// one guarded, timed, allocation-metered call
func probe(c *Ctx, ep *entryPoint, b []byte, kind string) {
	if ep.iso != nil {
		r := ep.iso(append([]byte{}, b...))
		inp := map[string]interface{}{"entry": ep.name, "kind": kind, "input": hex.EncodeToString(b), "isolated": true}
		if len(b) > 3000 {
			inp["input"] = hex.EncodeToString(b[:3000]) + "..."
		}
		c.Count("entry:" + ep.name)
		c.Count("mutation:" + kind)
		if r.crashed {
			if r.crashExternal {
				c.Check(false, "allocation in proportion to the input", "alloc:"+ep.name, "fatal out-of-memory inside the external NDR decoder (worker under a 256 MiB data limit)", inp)
			} else {
				c.Check(false, "never crashes the process", "fatal:"+ep.name, r.detail, inp)
			}
			return
		}
		c.Check(!r.panicked, "never panics", "panic:"+ep.name, r.pv, inp)
		c.Check(r.el < 3*time.Second, "terminates promptly", "hang:"+ep.name, r.el.String()+" "+r.detail, inp)
		limit := uint64(4<<20) + 4096*uint64(len(b))
		c.Check(r.alloc <= limit, "allocation in proportion to the input", "alloc:"+ep.name, fmt.Sprintf("%d bytes allocated for %d input bytes", r.alloc, len(b)), inp)
		return
	}
	if ep.hangs >= 2 {
		c.Count("skipped-after-hang:" + ep.name)
		return
	}
	var ms0, ms1 runtime.MemStats
	runtime.ReadMemStats(&ms0)
	done := make(chan struct{})
	var p bool
	var pv interface{}
	in := append([]byte{}, b...)
	t0 := time.Now()
	go func() {
		p, pv = guard(func() { ep.call(in) })
		close(done)
	}()
	hung := false
	select {
	case <-done:
	case <-time.After(5 * time.Second):
		hung = true
		ep.hangs++
	}
	el := time.Since(t0)
	runtime.ReadMemStats(&ms1)
	alloc := ms1.TotalAlloc - ms0.TotalAlloc
	inp := map[string]interface{}{"entry": ep.name, "kind": kind, "input": hex.EncodeToString(b)}
	if len(b) > 3000 {
		inp["input"] = hex.EncodeToString(b[:3000]) + "..."
	}
	c.Check(!p, "never panics", "panic:"+ep.name, fmt.Sprint(pv), inp)
	c.Check(!hung && el < 3*time.Second, "terminates promptly", "hang:"+ep.name, el.String(), inp)
	limit := uint64(4<<20) + 4096*uint64(len(b))
	c.Check(alloc <= limit, "allocation in proportion to the input", "alloc:"+ep.name, fmt.Sprintf("%d bytes allocated for %d input bytes", alloc, len(b)), inp)
	c.Count("entry:" + ep.name)
	c.Count("mutation:" + kind)
	if ep.model != nil && !hung {
		ep.model(c, b, p)
	}
}

func mutateAll(c *Ctx, ep *entryPoint) {
	for _, base := range ep.corpus {
		probe(c, ep, base, "valid")
		step := 1
		if c.Quick() && len(base) > 160 {
			step = len(base)/160 + 1
		}
		if c.Quick() && ep.iso != nil && ep.name != "pac.PACType.Unmarshal+Process" {
			step = len(base)/24 + 1 // probes of the sub-decoders go through the worker process one by one
		}
		for cut := 0; cut < len(base); cut += step {
			probe(c, ep, base[:cut], "prefix")
		}
		vals := []byte{0x00, 0xff, 0x80, 0x7f, 0x81, 0x84}
		skipped := func(pos, n int) bool {
			for _, r := range ep.skip {
				if pos < r[1] && pos+n > r[0] {
					return true
				}
			}
			return false
		}
		for _, r := range ep.skip {
			// iteration counts: zero, just above the accepted maximum, the largest value (all rejected at once), a moderate one
			for _, v := range []uint32{0, 0x01000001, 0xffffffff, 0x80000000, 70000} {
				m := append([]byte{}, base...)
				binary.BigEndian.PutUint32(m[r[0]:], v)
				probe(c, ep, m, "iteration-count")
			}
		}
		for pos := 0; pos < len(base); pos += step {
			if skipped(pos, 1) {
				continue
			}
			for vi, v := range vals {
				if c.Quick() && vi >= 3 && pos%4 != 0 {
					continue
				}
				if base[pos] == v {
					continue
				}
				m := append([]byte{}, base...)
				m[pos] = v
				probe(c, ep, m, "substitute")
			}
		}
		// length / count field corruptions: 4-byte big- and little-endian extremes at sampled offsets
		for i := 0; i < 24 && len(base) >= 4; i++ {
			pos := c.R.Intn(len(base) - 3)
			if skipped(pos, 4) {
				continue
			}
			for _, v := range []uint32{0, 1, 0x7fffffff, 0xffffffff, 0x80000000, uint32(len(base))} {
				m := append([]byte{}, base...)
				if i%2 == 0 {
					binary.BigEndian.PutUint32(m[pos:], v)
				} else {
					binary.LittleEndian.PutUint32(m[pos:], v)
				}
				probe(c, ep, m, "count-field")
			}
		}
		// 8-byte offset / size fields: values whose sum with a small size wraps around 2^64 or is negative as int64
		step8 := 4
		if c.Quick() && len(base) > 256 {
			step8 = 4 * (len(base)/256 + 1)
		}
		if c.Quick() && ep.iso != nil && ep.name != "pac.PACType.Unmarshal+Process" {
			step8 = 4 * (len(base)/64 + 1)
		}
		for pos := 0; pos+8 <= len(base); pos += step8 {
			if skipped(pos, 8) {
				continue
			}
			for vi, v := range []uint64{^uint64(0), ^uint64(0) - 7, ^uint64(0) - uint64(len(base)/2), 1 << 63} {
				if c.Quick() && vi >= 2 && pos%16 != 0 {
					continue
				}
				m := append([]byte{}, base...)
				binary.LittleEndian.PutUint64(m[pos:], v)
				probe(c, ep, m, "wide-field")
				if !c.Quick() || pos%16 == 0 {
					m2 := append([]byte{}, base...)
					binary.BigEndian.PutUint64(m2[pos:], v)
					probe(c, ep, m2, "wide-field")
				}
			}
		}
		for i := 0; i < 10; i++ {
			m := make([]byte, c.R.Intn(64))
			c.R.Read(m)
			probe(c, ep, m, "random")
		}
	}
}

func c04(c *Ctx) {
	realm := "TEST.GOKRB5"
	svc := newTestServiceCached(c, []string{"HTTP", "host.test.gokrb5"})
	k := kdc.New(realm)
	k.AddPrincipal([]string{"testuser1"}, "passwordvalue", 2)
	k.AddPrincipal([]string{"HTTP", "host.test.gokrb5"}, "svcpw", 1)
	cfg := testConfig(realm, []string{"127.0.0.1:88"}, []int32{18})
	cname := types.PrincipalName{NameType: 1, NameString: []string{"testuser1"}}
	creds := credentials.New("testuser1", realm).WithPassword("passwordvalue")
	asq, _ := messages.NewASReqForTGT(realm, cfg, cname)
	asqB, _ := asq.Marshal()
	asrB := k.Handle(asqB)
	var asr messages.ASRep
	asr.Unmarshal(asrB)
	asr.Verify(cfg, creds, asq)
	tgsq, _ := messages.NewTGSReq(cname, realm, cfg, asr.Ticket, asr.DecryptedEncPart.Key, types.PrincipalName{NameType: 2, NameString: []string{"HTTP", "host.test.gokrb5"}}, false)
	tgsqB, _ := tgsq.Marshal()
	tgsrB := k.Handle(tgsqB)
	krbErrB := krbErrBytes(25)
	m := mint(c, baseRecipe(c, svc, 18))
	apB, _ := m.req.Marshal()
	tktB, _ := m.req.Ticket.Marshal()
	encTktPlain, _ := crypto.DecryptEncPart(m.req.Ticket.EncPart, svc.keys[18], 2)
	authPlain, _ := crypto.DecryptEncPart(m.req.EncryptedAuthenticator, m.sessionKey, 11)
	encRepPlain, _ := crypto.DecryptEncPart(asr.EncPart, k.Principal([]string{"testuser1"}).Keys[18], 3)
	edB, _ := m.req.Ticket.EncPart.Marshal()
	nt := spnego.NegTokenInit{MechTypes: []asn1.ObjectIdentifier{gssapi.OIDKRB5.OID()}, MechTokenBytes: krb5Mech([]byte{1, 0}, gssapi.OIDKRB5.OID(), apB)}
	st := spnego.SPNEGOToken{Init: true, NegTokenInit: nt}
	spB, _ := st.Marshal()
	rsp := spnego.SPNEGOToken{Resp: true, NegTokenResp: spnego.NegTokenResp{NegState: 1, SupportedMech: gssapi.OIDKRB5.OID(), ResponseToken: []byte{1, 2, 3}}}
	rspB, _ := rsp.Marshal()
	wt, _ := gssapi.NewInitiatorWrapToken([]byte("payload bytes"), m.sessionKey)
	wtB, _ := wt.Marshal()
	mt, _ := gssapi.NewInitiatorMICToken([]byte("payload bytes"), m.sessionKey)
	mtB, _ := mt.Marshal()
	ktB := buildKeytab(c, realm, []string{"testuser1"}, k.Principal([]string{"testuser1"}).Keys, 2)
	ccB := hexs(testdata.CCACHE_TEST)
	pacB := hexs(testdata.MarshaledPAC_AD_WIN2K_PAC)
	confT := []byte(testdata.KRB5_CONF)
	ei2, _ := asn1.Marshal(types.PADataSequence{{PADataType: 19, PADataValue: func() []byte {
		b, _ := asn1.Marshal(types.ETypeInfo2{{EType: 18, Salt: "salt", S2KParams: []byte{0, 0, 0, 5}}})
		return b
	}()}})
	aprep := hexs(testdata.MarshaledKRB5ap_rep)
	privB := hexs(testdata.MarshaledKRB5priv)
	kadminReply := func() []byte {
		b := make([]byte, 6)
		binary.BigEndian.PutUint16(b[0:], uint16(6+len(aprep)+len(privB)))
		binary.BigEndian.PutUint16(b[2:], 1)
		binary.BigEndian.PutUint16(b[4:], uint16(len(aprep)))
		return append(append(b, aprep...), privB...)
	}()
	kadminErr := func() []byte {
		b := make([]byte, 6)
		binary.BigEndian.PutUint16(b[0:], uint16(6+len(krbErrB)))
		binary.BigEndian.PutUint16(b[2:], 1)
		return append(b, krbErrB...)
	}()
	ct18, _ := crypto.GetEncryptedData([]byte("some plaintext"), svc.keys[18], 2, 1)
	ct23, _ := crypto.GetEncryptedData([]byte("some plaintext"), svc.keys[23], 2, 1)
	ct16, _ := crypto.GetEncryptedData([]byte("some plaintext"), svc.keys[16], 2, 1)
	ct20, _ := crypto.GetEncryptedData([]byte("some plaintext"), svc.keys[20], 2, 1)
	acceptor := service.NewSettings(svc.kt, service.MaxClockSkew(5*time.Minute))
	spn := spnego.SPNEGOService(svc.kt, service.MaxClockSkew(5*time.Minute))
	decModel := func(et int32) func(c *Ctx, b []byte, p bool) {
		return func(c *Ctx, b []byte, p bool) {
			if c.R.Intn(6) != 0 && !p {
				return // the model decrypts a sample (slow primitives) and every panic
			}
			o, _ := obsDecrypt(b, svc.keys[et], 2)
			c.Case("decrypt", jv.L(jv.I(int64(et)), jv.B(svc.keys[et].KeyValue), jv.I(2), jv.B(b)), o)
		}
	}
	eps := []*entryPoint{
		{name: "messages.ASReq.Unmarshal", corpus: [][]byte{asqB}, call: func(b []byte) { var x messages.ASReq; x.Unmarshal(b) }},
		{name: "messages.TGSReq.Unmarshal", corpus: [][]byte{tgsqB}, call: func(b []byte) { var x messages.TGSReq; x.Unmarshal(b) }},
		{name: "messages.ASRep.Unmarshal+Verify", corpus: [][]byte{asrB}, call: func(b []byte) {
			var x messages.ASRep
			if x.Unmarshal(b) == nil {
				x.Verify(cfg, creds, asq)
			}
		}},
		{name: "messages.TGSRep.Unmarshal+Verify", corpus: [][]byte{tgsrB}, call: func(b []byte) {
			var x messages.TGSRep
			if x.Unmarshal(b) == nil {
				if x.DecryptEncPart(asr.DecryptedEncPart.Key) == nil {
					x.Verify(cfg, tgsq)
				}
			}
		}},
		{name: "messages.KRBError.Unmarshal", corpus: [][]byte{krbErrB}, call: func(b []byte) { var x messages.KRBError; x.Unmarshal(b) }},
		{name: "messages.APReq.Unmarshal+VerifyAPREQ", corpus: [][]byte{apB}, call: func(b []byte) {
			var x messages.APReq
			if x.Unmarshal(b) == nil {
				service.VerifyAPREQ(&x, acceptor)
			}
		}},
		{name: "messages.APRep.Unmarshal", corpus: [][]byte{aprep}, call: func(b []byte) { var x messages.APRep; x.Unmarshal(b) }},
		{name: "messages.KRBPriv.Unmarshal", corpus: [][]byte{privB}, call: func(b []byte) { var x messages.KRBPriv; x.Unmarshal(b) }},
		{name: "messages.KRBCred.Unmarshal", corpus: [][]byte{hexs(testdata.MarshaledKRB5cred)}, call: func(b []byte) { var x messages.KRBCred; x.Unmarshal(b) }},
		{name: "messages.KRBSafe.Unmarshal", corpus: [][]byte{hexs(testdata.MarshaledKRB5safe)}, call: func(b []byte) { var x messages.KRBSafe; x.Unmarshal(b) }},
		{name: "messages.Ticket.Unmarshal", corpus: [][]byte{tktB}, call: func(b []byte) { var x messages.Ticket; x.Unmarshal(b) }},
		{name: "messages.EncTicketPart.Unmarshal+Valid", corpus: [][]byte{encTktPlain}, call: func(b []byte) {
			var x messages.EncTicketPart
			if x.Unmarshal(b) == nil {
				t := messages.Ticket{DecryptedEncPart: x}
				t.Valid(time.Minute)
				t.GetPACType(svc.kt, nil, nil)
			}
		}},
		{name: "messages.EncKDCRepPart.Unmarshal", corpus: [][]byte{encRepPlain}, call: func(b []byte) { var x messages.EncKDCRepPart; x.Unmarshal(b) }},
		{name: "types.Authenticator.Unmarshal", corpus: [][]byte{authPlain}, call: func(b []byte) { var x types.Authenticator; x.Unmarshal(b) }},
		{name: "types.EncryptedData.Unmarshal", corpus: [][]byte{edB}, call: func(b []byte) { var x types.EncryptedData; x.Unmarshal(b) }},
		{name: "crypto.GetKeyFromPassword(padata)", corpus: [][]byte{ei2}, call: func(b []byte) {
			var pas types.PADataSequence
			if pas.Unmarshal(b) == nil {
				crypto.GetKeyFromPassword("pw", cname, realm, 18, pas)
			}
		}},
		{name: "spnego.SPNEGOToken.Unmarshal+Accept", corpus: [][]byte{spB, rspB}, call: func(b []byte) {
			var x spnego.SPNEGOToken
			if x.Unmarshal(b) == nil {
				spn.AcceptSecContext(&x)
			}
		}},
		{name: "spnego.KRB5Token.Unmarshal", corpus: [][]byte{nt.MechTokenBytes}, call: func(b []byte) { var x spnego.KRB5Token; x.Unmarshal(b) }},
		{name: "gssapi.WrapToken.Unmarshal", corpus: [][]byte{wtB}, call: func(b []byte) {
			var x gssapi.WrapToken
			if x.Unmarshal(b, false) == nil {
				x.Verify(m.sessionKey, 24)
			}
		}, model: func(c *Ctx, b []byte, p bool) {
			o, _ := obsWrapUnmarshal(b, false)
			c.Case("wrap_unmarshal", jv.L(jv.B(b), jv.Bool(false)), o)
		}},
		{name: "gssapi.MICToken.Unmarshal", corpus: [][]byte{mtB}, call: func(b []byte) {
			var x gssapi.MICToken
			if x.Unmarshal(b, false) == nil {
				x.Payload = []byte("payload bytes")
				x.Verify(m.sessionKey, 25)
			}
		}, model: func(c *Ctx, b []byte, p bool) {
			o, _ := obsMicUnmarshal(b, false)
			c.Case("mic_unmarshal", jv.L(jv.B(b), jv.Bool(false)), o)
		}},
		{name: "keytab.Unmarshal", corpus: [][]byte{ktB}, call: func(b []byte) { keytab.New().Unmarshal(b) }, model: func(c *Ctx, b []byte, p bool) {
			o, _, _ := obsKtUnmarshal(b)
			c.Case("kt_unmarshal", jv.B(b), o)
		}},
		{name: "credentials.CCache.Unmarshal", corpus: [][]byte{ccB}, call: func(b []byte) { new(credentials.CCache).Unmarshal(b) }},
		{name: "config.NewFromString", corpus: [][]byte{confT}, call: func(b []byte) { config.NewFromString(string(b)) }},
		{name: "pac.PACType.Unmarshal", corpus: [][]byte{pacB}, call: func(b []byte) { var x pac.PACType; x.Unmarshal(b) }}, // gokrb5's own table reader, apart from the external buffer decoders
		{name: "pac.PACType.Unmarshal+Process", corpus: [][]byte{pacB}, call: func(b []byte) {
			var x pac.PACType
			if x.Unmarshal(b) == nil {
				x.ProcessPACInfoBuffers(svc.keys[18], nil)
			}
		}, iso: pacIsolated(svc.keys[18].KeyValue)},
		{name: "service.KRB5BasicAuthenticator.Authenticate(header)", corpus: [][]byte{
			[]byte(base64.StdEncoding.EncodeToString([]byte("testuser1@NOWHERE.REALM:passwordvalue"))),
			[]byte(base64.StdEncoding.EncodeToString([]byte("NOWHERE\\testuser1:pw"))),
			[]byte(base64.StdEncoding.EncodeToString([]byte("user:pw")))}, call: func(b []byte) {
			service.NewKRB5BasicAuthenticator(string(b), config.New(), service.NewSettings(keytab.New()), nil).Authenticate()
		}},
		{name: "service.KRB5BasicAuthenticator.Authenticate(decoded)", corpus: [][]byte{[]byte("testuser1@NOWHERE.REALM:passwordvalue"), []byte("NOWHERE\\testuser1:pw"), []byte("user:pw"), []byte("nocolon")}, call: func(b []byte) {
			service.NewKRB5BasicAuthenticator(base64.StdEncoding.EncodeToString(b), config.New(), service.NewSettings(keytab.New()), nil).Authenticate()
		}},
		// decoders that no other stream reaches (found with a coverage build of the harness)
		{name: "messages.EncAPRepPart.Unmarshal", corpus: [][]byte{hexs(testdata.MarshaledKRB5ap_rep_enc_part), hexs(testdata.MarshaledKRB5ap_rep_enc_partOptionalsNULL)}, call: func(b []byte) { var x messages.EncAPRepPart; x.Unmarshal(b) }},
		{name: "messages.KRBCred.Unmarshal+Decrypt", corpus: [][]byte{hexs(testdata.MarshaledKRB5cred)}, call: func(b []byte) {
			var x messages.KRBCred
			if x.Unmarshal(b) == nil {
				x.DecryptEncPart(svc.keys[18])
			}
		}},
		{name: "messages.EncKrbCredPart.Unmarshal", corpus: [][]byte{hexs(testdata.MarshaledKRB5enc_cred_part), hexs(testdata.MarshaledKRB5enc_cred_partOptionalsNULL)}, call: func(b []byte) { var x messages.EncKrbCredPart; x.Unmarshal(b) }},
		{name: "types.ADKDCIssued.Unmarshal", corpus: [][]byte{hexs(testdata.MarshaledKRB5ad_kdcissued)}, call: func(b []byte) { var x types.ADKDCIssued; x.Unmarshal(b) }},
		{name: "types.AuthorizationData.Unmarshal", corpus: [][]byte{hexs(testdata.MarshaledKRB5authorization_data)}, call: func(b []byte) {
			var x types.AuthorizationData
			x.Unmarshal(b)
			var e types.AuthorizationDataEntry
			e.Unmarshal(b)
		}},
		{name: "types.EncryptionKey.Unmarshal", corpus: [][]byte{hexs(testdata.MarshaledKRB5keyblock)}, call: func(b []byte) {
			var x types.EncryptionKey
			x.Unmarshal(b)
			var c types.Checksum
			c.Unmarshal(b)
		}},
		{name: "types.PAData.Unmarshal", corpus: [][]byte{hexs(testdata.MarshaledKRB5padata_sequence), hexs(testdata.MarshaledKRB5pa_enc_ts), hexs(testdata.MarshaledKRB5enc_data)}, call: func(b []byte) {
			var x types.PAData
			x.Unmarshal(b)
			var s types.PADataSequence
			s.Unmarshal(b)
			var t types.PAEncTimestamp
			t.Unmarshal(b)
			var e types.PAEncTSEnc
			e.Unmarshal(b)
			var r types.PAReqEncPARep
			r.Unmarshal(b)
		}},
		{name: "types.ETypeInfo.Unmarshal", corpus: [][]byte{hexs(testdata.MarshaledKRB5etype_info), hexs(testdata.MarshaledKRB5etype_info2), hexs(testdata.MarshaledKRB5etype_infoOnly1), hexs(testdata.MarshaledKRB5etype_info2Only1)}, call: func(b []byte) {
			var a types.ETypeInfo
			a.Unmarshal(b)
			var a2 types.ETypeInfo2
			a2.Unmarshal(b)
			var e types.ETypeInfoEntry
			e.Unmarshal(b)
			var e2 types.ETypeInfo2Entry
			e2.Unmarshal(b)
			pa := types.PAData{PADataType: 11, PADataValue: b}
			pa.GetETypeInfo()
			pa.PADataType = 19
			pa.GetETypeInfo2()
		}},
		{name: "types.TypedDataSequence.Unmarshal", corpus: [][]byte{hexs(testdata.MarshaledKRB5typed_data)}, call: func(b []byte) { var x types.TypedDataSequence; x.Unmarshal(b) }},
		{name: "pac.CredentialsInfo.Unmarshal", corpus: [][]byte{append([]byte{0, 0, 0, 0, 18, 0, 0, 0}, ct18.Cipher...), hexs(testdata.MarshaledPAC_Client_Info)}, call: isoFuncs["pac.CredentialsInfo.Unmarshal"], iso: isolated("pac.CredentialsInfo.Unmarshal", nil)},
		{name: "pac.CredentialData.Unmarshal", corpus: [][]byte{hexs(testdata.MarshaledPAC_Kerb_Validation_Info)}, call: isoFuncs["pac.CredentialData.Unmarshal"], iso: isolated("pac.CredentialData.Unmarshal", nil)},
		{name: "pac.DeviceClaimsInfo.Unmarshal", corpus: [][]byte{hexs(testdata.MarshaledPAC_ClientClaimsInfoStr)}, call: isoFuncs["pac.DeviceClaimsInfo.Unmarshal"], iso: isolated("pac.DeviceClaimsInfo.Unmarshal", nil)},
		{name: "pac.DeviceInfo.Unmarshal", corpus: [][]byte{hexs(testdata.MarshaledPAC_Kerb_Validation_Info)}, call: isoFuncs["pac.DeviceInfo.Unmarshal"], iso: isolated("pac.DeviceInfo.Unmarshal", nil)},
		{name: "pac.S4UDelegationInfo.Unmarshal", corpus: [][]byte{hexs(testdata.MarshaledPAC_Kerb_Validation_Info)}, call: isoFuncs["pac.S4UDelegationInfo.Unmarshal"], iso: isolated("pac.S4UDelegationInfo.Unmarshal", nil)},
		{name: "pac.NTLMSupplementalCred.Unmarshal", corpus: [][]byte{append([]byte{0, 0, 0, 0, 3, 0, 0, 0}, make([]byte, 32)...)}, call: isoFuncs["pac.NTLMSupplementalCred.Unmarshal"], iso: isolated("pac.NTLMSupplementalCred.Unmarshal", nil)},
		{name: "pac.SECPKGSupplementalCred.Unmarshal", corpus: [][]byte{hexs(testdata.MarshaledPAC_Kerb_Validation_Info)}, call: isoFuncs["pac.SECPKGSupplementalCred.Unmarshal"], iso: isolated("pac.SECPKGSupplementalCred.Unmarshal", nil)},
		{name: "pac.ClientClaimsInfo.Unmarshal", corpus: [][]byte{hexs(testdata.MarshaledPAC_ClientClaimsInfoStr), hexs(testdata.MarshaledPAC_ClientClaimsInfoMulti)}, call: isoFuncs["pac.ClientClaimsInfo.Unmarshal"], iso: isolated("pac.ClientClaimsInfo.Unmarshal", nil)},
		{name: "pac.UPNDNSInfo.Unmarshal", corpus: [][]byte{hexs(testdata.MarshaledPAC_UPN_DNS_Info)}, call: isoFuncs["pac.UPNDNSInfo.Unmarshal"], iso: isolated("pac.UPNDNSInfo.Unmarshal", nil)},
		{name: "pac.ClientInfo.Unmarshal", corpus: [][]byte{hexs(testdata.MarshaledPAC_Client_Info)}, call: isoFuncs["pac.ClientInfo.Unmarshal"], iso: isolated("pac.ClientInfo.Unmarshal", nil)},
		{name: "kadmin.Reply.Unmarshal", corpus: [][]byte{kadminReply, kadminErr}, call: func(b []byte) { var x kadmin.Reply; x.Unmarshal(b) }},
		{name: "crypto.DecryptMessage(aes256-sha1)", corpus: [][]byte{ct18.Cipher}, call: func(b []byte) { crypto.DecryptMessage(b, svc.keys[18], 2) }, model: decModel(18)},
		{name: "crypto.DecryptMessage(rc4)", corpus: [][]byte{ct23.Cipher}, call: func(b []byte) { crypto.DecryptMessage(b, svc.keys[23], 2) }, model: decModel(23)},
		{name: "crypto.DecryptMessage(des3)", corpus: [][]byte{ct16.Cipher}, call: func(b []byte) { crypto.DecryptMessage(b, svc.keys[16], 2) }, model: decModel(16)},
		{name: "crypto.DecryptMessage(aes256-sha384)", corpus: [][]byte{ct20.Cipher}, call: func(b []byte) { crypto.DecryptMessage(b, svc.keys[20], 2) }, model: decModel(20)},
		// the KEY is part of the hostile input too (a keytab file, a session key out of a decrypted ticket, a subkey):
		// byte 0 selects the etype, byte 1 the key length, then the key, then the data
		{name: "crypto.DecryptMessage(key from input)", corpus: keyedCorpus(svc, map[int32][]byte{16: ct16.Cipher, 17: nil, 18: ct18.Cipher, 19: nil, 20: ct20.Cipher, 23: ct23.Cipher}), call: func(b []byte) {
			et, key, data := splitKeyed(b)
			crypto.DecryptMessage(data, types.EncryptionKey{KeyType: et, KeyValue: key}, 2)
		}},
		{name: "crypto checksum (key from input)", corpus: keyedCorpus(svc, map[int32][]byte{16: []byte("data"), 17: []byte("data"), 18: []byte("data"), 19: []byte("data"), 20: []byte("data"), 23: []byte("data")}), call: func(b []byte) {
			et, key, data := splitKeyed(b)
			if e, err := crypto.GetEtype(et); err == nil {
				if h, err := e.GetChecksumHash(key, data, 7); err == nil {
					e.VerifyChecksum(key, data, h, 7)
				}
				e.VerifyChecksum(key, data, data, 7)
				e.DeriveKey(key, []byte{0, 0, 0, 2, 0x99})
				e.EncryptMessage(key, data, 3)
			}
		}},
		{name: "gssapi.WrapToken.Verify(key from input)", corpus: keyedCorpus(svc, map[int32][]byte{16: wtB, 17: wtB, 18: wtB, 23: wtB}), call: func(b []byte) {
			et, key, data := splitKeyed(b)
			var x gssapi.WrapToken
			if x.Unmarshal(data, false) == nil {
				x.Verify(types.EncryptionKey{KeyType: et, KeyValue: key}, 24)
			}
		}},
		{name: "keytab.Unmarshal+Ticket.DecryptEncPart", corpus: [][]byte{ktB}, call: func(b []byte) {
			kt := keytab.New()
			if kt.Unmarshal(b) == nil {
				var x messages.Ticket
				if x.Unmarshal(tktB) == nil {
					x.DecryptEncPart(kt, nil)
				}
			}
		}},
	}
	for _, ep := range eps {
		if strings.Contains(ep.name, "GetKeyFromPassword") || strings.Contains(ep.name, "ASRep") {
			for _, pat := range [][]byte{{0x04, 0x04, 0, 0, 0, 5}, {0x04, 0x04, 0, 0, 0, 4}} {
				if i := strings.Index(string(ep.corpus[0]), string(pat)); i >= 0 {
					ep.skip = append(ep.skip, [2]int{i + 2, i + 6})
				}
			}
		}
		if len(ep.corpus) == 0 || len(ep.corpus[0]) == 0 {
			c.Notes = append(c.Notes, "empty corpus for "+ep.name)
			continue
		}
		mutateAll(c, ep)
	}

	// ---- structurally valid messages with empty sequences where an element is indexed ----
	struct1 := func(name string, f func()) {
		p, pv := guard(f)
		c.Check(!p, "never panics", "panic:"+name, fmt.Sprint(pv), map[string]interface{}{"entry": name})
		c.Count("structural:" + name)
	}
	// ticket whose authorization data holds an empty AD-IF-RELEVANT, a nil logger, PAC decoding on
	struct1("VerifyAPREQ(empty AD-IF-RELEVANT)", func() {
		r := baseRecipe(c, svc, 18)
		mm := mintWithAuthData(c, r, types.AuthorizationData{{ADType: 1, ADData: []byte{0x30, 0x00}}, {ADType: 1, ADData: []byte{1, 2, 3}}})
		req := mm.req
		service.VerifyAPREQ(&req, service.NewSettings(svc.kt, service.MaxClockSkew(5*time.Minute), service.DecodePAC(true)))
	})
	struct1("VerifyAPREQ(empty flags)", func() {
		r := baseRecipe(c, svc, 18)
		r.flags = []byte{}
		mm := mint(c, r)
		req := mm.req
		service.VerifyAPREQ(&req, acceptor)
	})
	// client side, through the simulated KDC on loopback
	if err := k.Serve(); err == nil {
		defer k.Close()
		ccfg := testConfig(realm, []string{k.Addr}, []int32{18})
		newCl := func() *client.Client {
			return client.NewWithPassword("testuser1", realm, "passwordvalue", ccfg, client.DisablePAFXFAST(true))
		}
		struct1("Login(KRB-ERROR 25 with empty ETYPE-INFO2)", func() {
			k.ReplyOverride = func(req, rep []byte) []byte {
				ed, _ := asn1.Marshal(types.PADataSequence{{PADataType: 19, PADataValue: []byte{0x30, 0x00}}, {PADataType: 11, PADataValue: []byte{0x30, 0x00}}})
				e := messages.NewKRBError(types.PrincipalName{NameString: []string{"krbtgt", realm}}, realm, 25, "x")
				e.EData = ed
				b, _ := e.Marshal()
				return b
			}
			newCl().Login()
			k.ReplyOverride = nil
		})
		struct1("GetServiceTicket(TGS-REP ticket with empty sname)", func() {
			cl := newCl()
			if cl.Login() == nil {
				k.Tamper = func(kind string, rep *messages.KDCRepFields, enc *messages.EncKDCRepPart, key types.EncryptionKey, usage uint32) (types.EncryptionKey, uint32) {
					if kind == "TGS" {
						rep.Ticket.SName = types.PrincipalName{NameType: 2}
					}
					return key, usage
				}
				cl.GetServiceTicket("HTTP/host.test.gokrb5")
				k.Tamper = nil
			}
		})
		struct1("Login(AS-REP with empty flags)", func() {
			k.Tamper = func(kind string, rep *messages.KDCRepFields, enc *messages.EncKDCRepPart, key types.EncryptionKey, usage uint32) (types.EncryptionKey, uint32) {
				enc.Flags = asn1.BitString{}
				return key, usage
			}
			client.NewWithPassword("testuser1", realm, "passwordvalue", ccfg).Login() // PA-FX-FAST negotiation on: the flag is tested
			k.Tamper = nil
		})
		// every prefix of valid replies and random replies, through the client
		for _, kind := range []string{"prefix", "garbage"} {
			n := 0
			k.ReplyOverride = func(req, rep []byte) []byte {
				n++
				if kind == "prefix" {
					return rep[:(n*37)%len(rep)]
				}
				g := make([]byte, 1+c.R.Intn(80))
				c.R.Read(g)
				return g
			}
			for i := 0; i < 12; i++ {
				struct1("Login("+kind+" reply)", func() { newCl().Login() })
			}
			k.ReplyOverride = nil
		}
	}
	// ---- a TCP endpoint that announces a 4 GiB reply and sends ten bytes ----
	{
		l, err := net.ListenTCP("tcp", &net.TCPAddr{IP: net.IPv4(127, 0, 0, 1)})
		if err == nil {
			go func() {
				for {
					conn, err := l.AcceptTCP()
					if err != nil {
						return
					}
					go func() {
						defer conn.Close()
						buf := make([]byte, 4096)
						conn.Read(buf)
						conn.Write([]byte{0xff, 0xff, 0xff, 0xf0, 1, 2, 3, 4, 5, 6, 7, 8, 9, 10})
					}()
				}
			}()
			ccfg := testConfig(realm, []string{l.Addr().String()}, []int32{18})
			cl := client.NewWithPassword("testuser1", realm, "passwordvalue", ccfg, client.DisablePAFXFAST(true))
			var ms0, ms1 runtime.MemStats
			runtime.ReadMemStats(&ms0)
			var lerr error
			p, pv := guard(func() { lerr = cl.Login() })
			runtime.ReadMemStats(&ms1)
			alloc := ms1.TotalAlloc - ms0.TotalAlloc
			c.Check(!p && lerr != nil, "a reply shorter than announced is an error, not a panic", "panic:client.sendTCP", fmt.Sprint(pv), nil)
			c.Check(alloc < 8<<20, "the client does not allocate the length a peer announces", "alloc:client.sendTCP", fmt.Sprintf("%d bytes allocated", alloc), nil)
			c.Count("structural:sendTCP-hostile-length")
			l.Close()
		}
	}
	_ = strings.TrimSpace
	c04Kpasswd(c)
	c04ReferralLoop(c)
}

// c04ReferralLoop: two KDCs that refer the client to each other for ever: the exchange ends with an error (the
// referral limit), not with a panic or a hang.
func c04ReferralLoop(c *Ctx) {
	ra, rb := "LOOPA.GOKRB5", "LOOPB.GOKRB5"
	ka, kb := kdc.New(ra), kdc.New(rb)
	ka.StrictCRealm, kb.StrictCRealm = false, false
	ka.AddPrincipal([]string{"testuser1"}, "passwordvalue", 2)
	ka.Referrals["example.org"] = rb
	kb.Referrals["example.org"] = ra
	keys := map[int32]types.EncryptionKey{}
	for _, et := range kdc.AllEtypes {
		keys[et] = randKey(c, et)
	}
	ka.CrossKeys[rb], kb.CrossKeys[ra] = keys, keys
	if ka.Serve() != nil || kb.Serve() != nil {
		c.Notes = append(c.Notes, "KDC listen (referral loop)")
		return
	}
	defer ka.Close()
	defer kb.Close()
	cfg := testConfig(ra, []string{ka.Addr}, []int32{18})
	cfg.Realms = []config.Realm{{Realm: ra, KDC: []string{ka.Addr}}, {Realm: rb, KDC: []string{kb.Addr}}}
	cl := client.NewWithPassword("testuser1", ra, "passwordvalue", cfg, client.DisablePAFXFAST(true))
	if err := cl.Login(); err != nil {
		c.Check(false, "login succeeds against a conformant KDC", "login-fails", err.Error(), nil)
		return
	}
	done := make(chan struct{})
	var p bool
	var pv interface{}
	var err error
	go func() {
		p, pv = guard(func() { _, _, err = cl.GetServiceTicket("HTTP/far.example.org") })
		close(done)
	}()
	select {
	case <-done:
		c.Check(!p && err != nil, "an endless referral chain ends with an error, not a panic", "panic:client.TGSExchange(referral loop)", fmt.Sprint(pv, err), nil)
	case <-time.After(20 * time.Second):
		c.Check(false, "terminates promptly", "hang:client.TGSExchange(referral loop)", "20 s", nil)
	}
	c.Count("structural:referral-loop")
	cl.Destroy()
}

// c04Kpasswd drives Client.ChangePasswd against a simulated KDC (AS exchange for kadmin/changepw) and a scripted
// kpasswd server (RFC 3244) that answers with genuine replies of every result code, with a KRB-ERROR, with replies
// sealed under another key, and with every truncation and sampled byte substitutions of a genuine reply.
func c04Kpasswd(c *Ctx) {
	realm := "TEST.GOKRB5"
	k := kdc.New(realm)
	k.AddPrincipal([]string{"testuser1"}, "passwordvalue", 2)
	kp := k.AddPrincipal([]string{"kadmin", "changepw"}, "kpasswd-service-pw", 1)
	if err := k.Serve(); err != nil {
		c.Notes = append(c.Notes, "KDC listen (kpasswd): "+err.Error())
		return
	}
	defer k.Close()
	l, err := net.ListenTCP("tcp", &net.TCPAddr{IP: net.IPv4(127, 0, 0, 1)})
	if err != nil {
		c.Notes = append(c.Notes, "kpasswd listen: "+err.Error())
		return
	}
	defer l.Close()
	var mode func(genuine []byte, sub types.EncryptionKey) []byte
	seen := 0
	go func() {
		for {
			conn, err := l.AcceptTCP()
			if err != nil {
				return
			}
			go func(conn *net.TCPConn) {
				defer conn.Close()
				hdr := make([]byte, 4)
				if _, err := io.ReadFull(conn, hdr); err != nil {
					return
				}
				req := make([]byte, binary.BigEndian.Uint32(hdr))
				if _, err := io.ReadFull(conn, req); err != nil || len(req) < 6 {
					return
				}
				seen++
				// the request: msg-len(2) version(2) ap-req-len(2) AP-REQ KRB-PRIV
				al := int(binary.BigEndian.Uint16(req[4:6]))
				var ap messages.APReq
				if 6+al > len(req) || ap.Unmarshal(req[6:6+al]) != nil {
					return
				}
				if ap.Ticket.Decrypt(kp.Keys[ap.Ticket.EncPart.EType]) != nil {
					return
				}
				ab, err := crypto.DecryptEncPart(ap.EncryptedAuthenticator, ap.Ticket.DecryptedEncPart.Key, 11)
				if err != nil {
					return
				}
				var au types.Authenticator
				if au.Unmarshal(ab) != nil {
					return
				}
				reply := mode(nil, au.SubKey)
				out := make([]byte, 4)
				binary.BigEndian.PutUint32(out, uint32(len(reply)))
				conn.Write(append(out, reply...))
			}(conn)
		}
	}()
	aprep := hexs(testdata.MarshaledKRB5ap_rep)
	genuine := func(code uint16, text string, key types.EncryptionKey) []byte {
		ud := make([]byte, 2)
		binary.BigEndian.PutUint16(ud, code)
		ud = append(ud, []byte(text)...)
		priv := messages.NewKRBPriv(messages.EncKrbPrivPart{UserData: ud, Timestamp: time.Now().UTC().Truncate(time.Second), SAddress: types.HostAddress{AddrType: 2, Address: []byte{127, 0, 0, 1}}})
		if priv.EncryptEncPart(key) != nil {
			return nil
		}
		pb, _ := priv.Marshal()
		b := make([]byte, 6)
		binary.BigEndian.PutUint16(b[2:], 1)
		binary.BigEndian.PutUint16(b[4:], uint16(len(aprep)))
		b = append(append(b, aprep...), pb...)
		binary.BigEndian.PutUint16(b[0:], uint16(len(b)))
		return b
	}
	cfg := testConfig(realm, []string{k.Addr}, []int32{18})
	cfg.Realms[0].KPasswdServer = []string{l.Addr().String()}
	cfg.LibDefaults.UDPPreferenceLimit = 1
	run := func(name string, wantOK, wantErr bool) {
		cl := client.NewWithPassword("testuser1", realm, "passwordvalue", cfg, client.DisablePAFXFAST(true))
		var ok bool
		var err error
		n0 := seen
		p, pv := guard(func() { ok, err = cl.ChangePasswd("new-password-value") })
		reached := seen > n0
		inp := map[string]interface{}{"reply": name}
		c.Check(!p, "never panics", "panic:client.ChangePasswd", fmt.Sprint(pv), inp)
		c.Check(reached, "the kpasswd server was reached", "kpasswd-not-reached", fmt.Sprint(err), inp)
		if wantOK {
			c.Check(ok && err == nil, "a genuine success reply changes the password", "kpasswd:success-refused", fmt.Sprint(err), inp)
		}
		if wantErr {
			c.Check(!ok && err != nil, "anything but a genuine success reply is an error", "kpasswd:accepted:"+name, fmt.Sprint(ok, err), inp)
		}
		c.Count("kpasswd:" + strings.SplitN(name, "@", 2)[0])
	}
	mode = func(_ []byte, sub types.EncryptionKey) []byte { return genuine(0, "Password changed", sub) }
	run("success", true, false)
	for code := uint16(1); code <= 8; code++ {
		cc := code
		mode = func(_ []byte, sub types.EncryptionKey) []byte { return genuine(cc, "refused", sub) }
		run(fmt.Sprintf("result-code-%d", cc), false, true)
	}
	mode = func(_ []byte, sub types.EncryptionKey) []byte { return genuine(0, "ok", randKey(c, sub.KeyType)) }
	run("other-key", false, true)
	mode = func(_ []byte, sub types.EncryptionKey) []byte { return genuine(0, "", sub)[:4] }
	run("header-only", false, true)
	mode = func(_ []byte, sub types.EncryptionKey) []byte {
		ke := messages.NewKRBError(types.PrincipalName{NameType: 2, NameString: []string{"kadmin", "changepw"}}, realm, 41, "error")
		ke.EData = []byte{0, 3, 'n', 'o'}
		eb, _ := ke.Marshal()
		b := make([]byte, 6)
		binary.BigEndian.PutUint16(b[2:], 1)
		b = append(b, eb...)
		binary.BigEndian.PutUint16(b[0:], uint16(len(b)))
		return b
	}
	run("krb-error", false, true)
	// truncations and substitutions of a genuine success reply
	probe := func(kind string, f func(g []byte) []byte) {
		mode = func(_ []byte, sub types.EncryptionKey) []byte { return f(genuine(0, "Password changed", sub)) }
		run(kind, false, false)
	}
	glen := len(genuine(0, "Password changed", randKey(c, 18)))
	step := 1
	if c.Quick() {
		step = glen/40 + 1
	}
	for cut := 0; cut < glen; cut += step {
		cc := cut
		probe(fmt.Sprintf("truncated@%d", cc), func(g []byte) []byte {
			if cc < len(g) {
				return g[:cc]
			}
			return g
		})
	}
	for pos := 0; pos < glen; pos += step {
		pp := pos
		for _, v := range []byte{0x00, 0xff, 0x80} {
			vv := v
			probe(fmt.Sprintf("substituted@%d", pp), func(g []byte) []byte {
				if pp < len(g) {
					g[pp] = vv
				}
				return g
			})
		}
	}
}

// mintWithAuthData: mint with authorization data sealed in the ticket
func mintWithAuthData(c *Ctx, r recipe, ad types.AuthorizationData) minted {
	forcedAuthData = ad
	defer func() { forcedAuthData = nil }()
	return mint(c, r)
}

var forcedAuthData types.AuthorizationData

func init() { props["C04"] = c04 }

// keyedCorpus: [etype index, key length, key..., data...] for every etype given, with the service's own key of that type
// and, as further seeds, the same with a key one byte short, one byte long, 5 bytes, and empty.
var keyedEtypes = []int32{16, 17, 18, 19, 20, 23}

func keyedCorpus(svc *testService, data map[int32][]byte) [][]byte {
	var out [][]byte
	for i, et := range keyedEtypes {
		d, ok := data[et]
		if !ok {
			continue
		}
		k := svc.keys[et].KeyValue
		keys := [][]byte{k, k[:len(k)-1], append(append([]byte{}, k...), 0x5a), k[:5], {}}
		for _, kk := range keys {
			b := append([]byte{byte(i), byte(len(kk))}, kk...)
			out = append(out, append(b, d...))
		}
	}
	return out
}

func splitKeyed(b []byte) (int32, []byte, []byte) {
	if len(b) < 2 {
		return 18, nil, nil
	}
	et := keyedEtypes[int(b[0])%len(keyedEtypes)]
	n := int(b[1]) % 64
	if n > len(b)-2 {
		n = len(b) - 2
	}
	return et, b[2 : 2+n], b[2+n:]
}
