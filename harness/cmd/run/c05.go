package main

import (
	"bytes"
	"encoding/hex"
	"fmt"

	"github.com/jcmturner/gokrb5/v8/crypto"
	"github.com/jcmturner/gokrb5/v8/types"
	"verif/harness/internal/jv"
)

// key usages the library itself applies, plus boundary values
var libUsages = []uint32{1, 2, 3, 6, 7, 8, 9, 11, 13, 17, 22, 23, 24, 25, 56}
var edgeUsages = []uint32{127, 128, 255, 256, 1024, 1 << 31}

// usages are taken in turn (starting at a seed-dependent offset), so that every stream meets every usage of the set
// for every etype instead of leaving a usage to chance
var usageTurn = -1

func pickUsage(c *Ctx) uint32 {
	all := append(append([]uint32{}, libUsages...), edgeUsages...)
	if usageTurn < 0 {
		usageTurn = c.R.Intn(len(all))
	}
	usageTurn++
	return all[usageTurn%len(all)]
}

// rc4Alias maps a usage to its RFC 4757 message type
func rc4Alias(u uint32) uint32 {
	switch u {
	case 3, 9:
		return 8
	case 23:
		return 13
	}
	return u
}

// inputsTouched counts calls that modified a byte slice they were only given to read (ciphertext, key, data, checksum)
var inputsTouched []string

func untouched(what string, before, after []byte) {
	if string(before) != string(after) && len(inputsTouched) < 50 {
		inputsTouched = append(inputsTouched, what)
	}
}

func obsDecrypt(ct []byte, key types.EncryptionKey, usage uint32) (jv.V, []byte) {
	var pt []byte
	var err error
	ct0, k0 := append([]byte{}, ct...), append([]byte{}, key.KeyValue...)
	p, _ := guard(func() { pt, err = crypto.DecryptMessage(ct, key, usage) })
	untouched(fmt.Sprintf("DecryptMessage(etype %d): ciphertext", key.KeyType), ct0, ct)
	untouched(fmt.Sprintf("DecryptMessage(etype %d): key", key.KeyType), k0, key.KeyValue)
	if p {
		return jv.Panic(), nil
	}
	if err != nil {
		return jv.Err(), nil
	}
	return jv.Ok(jv.B(pt)), pt
}

func zeroPadTo(b []byte, m int) []byte {
	if len(b)%m == 0 {
		return b
	}
	return append(append([]byte{}, b...), make([]byte, m-len(b)%m)...)
}

// C05: both directions of interoperability with the RFC implementation (the Coq model)
func c05(c *Ctx) {
	var lens []int
	for l := 0; l <= 130; l++ {
		if !c.Quick() || l <= 34 || l%16 <= 1 || l%16 == 15 || l%8 == 0 || c.R.Intn(5) == 0 {
			lens = append(lens, l)
		}
	}
	reps := 1
	if !c.Quick() {
		reps = 3
	}
	for _, et := range allEtypes {
		e, _ := crypto.GetEtype(et)
		// the block-level interface every etype exports: DecryptData(EncryptData(x)) = x on whole blocks, no panic on
		// the other members with arbitrary arguments
		for _, l := range []int{16, 24, 32, 40, 64, 128} {
			key := randKey(c, et)
			data := make([]byte, l)
			c.R.Read(data)
			var ed, back []byte
			var e1, e2 error
			p, _ := guard(func() {
				_, ed, e1 = e.EncryptData(key.KeyValue, append([]byte{}, data...))
				if e1 == nil {
					back, e2 = e.DecryptData(key.KeyValue, append([]byte{}, ed...))
				}
			})
			c.Check(!p && e1 == nil && e2 == nil && bytes.Equal(back, data), "DecryptData(EncryptData(x)) = x on whole blocks", "block-roundtrip", fmt.Sprint(e1, e2), map[string]interface{}{"etype": et, "len": l})
			p2, _ := guard(func() {
				e.VerifyIntegrity(key.KeyValue, ed, data, 3)
				e.VerifyIntegrity(key.KeyValue, nil, nil, 3)
				e.DeriveRandom(key.KeyValue, []byte{0, 0, 0, 3, 0xaa})
				e.RandomToKey(make([]byte, e.GetKeySeedBitLength()/8)) // its domain: a seed of the etype's own length
				e.GetHashFunc()
			})
			c.Check(!p2, "the etype's other members do not panic", "etype-member-panics", "", map[string]interface{}{"etype": et, "len": l})
			c.Count("block-interface")
		}
		for _, l := range lens {
			for rep := 0; rep < reps; rep++ {
				key := randKey(c, et)
				usage := pickUsage(c)
				if rep == 0 && l < len(libUsages) {
					usage = libUsages[l]
				} else if rep == 0 && l-len(libUsages) < len(edgeUsages) && l >= len(libUsages) {
					usage = edgeUsages[l-len(libUsages)]
				}
				msg := make([]byte, l)
				c.R.Read(msg)
				c.Count(fmt.Sprintf("etype=%d", et))
				c.Count(fmt.Sprintf("usage=%d", usage))
				inp := map[string]interface{}{"etype": et, "key": hex.EncodeToString(key.KeyValue), "usage": usage, "msg": hex.EncodeToString(msg)}
				var ct, ct2 []byte
				var err error
				p, _ := guard(func() {
					_, ct, err = e.EncryptMessage(key.KeyValue, msg, usage)
					_, ct2, _ = e.EncryptMessage(key.KeyValue, msg, usage)
				})
				if p || err != nil {
					c.Check(false, "EncryptMessage succeeds", "encrypt-fails", fmt.Sprint(err), inp)
					continue
				}
				want := msg
				if et == 16 {
					want = zeroPadTo(append(make([]byte, 8), msg...), 8)[8:]
				}
				// (a) the model decrypts the library's ciphertext, recovers the confounder and reproduces the bytes
				conf := jv.V("")
				_ = conf
				c.Case("crypt_check", jv.L(jv.I(int64(et)), jv.B(key.KeyValue), jv.I(int64(usage)), jv.B(ct)),
					jv.Ok(jv.B(want), jv.B(recoverConf(e.GetConfounderByteSize(), et, key, usage, ct)), jv.I(1)))
				// the library decrypts it too
				o, pt := obsDecrypt(ct, key, usage)
				c.Check(o != jv.Panic() && pt != nil && bytes.Equal(pt, want), "Decrypt(Encrypt(m)) = m (zero padded for des3)", "roundtrip", "", inp)
				c.Check(!bytes.Equal(ct, ct2), "two encryptions of one plaintext differ (fresh confounder)", "confounder-reuse", "", inp)
				c.Check(len(ct) == expectedCtLen(et, l), "ciphertext length", "ct-length", fmt.Sprintf("%d", len(ct)), inp)
			}
		}
	}
}

func expectedCtLen(et int32, l int) int {
	switch et {
	case 17, 18:
		return 16 + l + 12
	case 19:
		return 16 + l + 16
	case 20:
		return 16 + l + 24
	case 23:
		return 16 + 8 + l
	case 16:
		n := 8 + l
		if n%8 != 0 {
			n += 8 - n%8
		}
		return n + 20
	}
	return -1
}

// recoverConf obtains the confounder of a ciphertext with the library's own low-level functions
func recoverConf(cl int, et int32, key types.EncryptionKey, usage uint32, ct []byte) []byte {
	var conf []byte
	guard(func() {
		e, _ := crypto.GetEtype(et)
		if et == 23 {
			// rc4: plaintext stream = conf || msg; DecryptMessage strips the confounder, so decrypt the data part
			pt, err := crypto.DecryptMessage(ct, key, usage)
			_ = pt
			if err == nil {
				// recompute: K2 = HMAC(K, T), K3 = HMAC(K2, chk)
				k2, _ := e.DeriveKey(key.KeyValue, usageT(usage))
				k3, _ := e.DeriveKey(k2, ct[:16])
				full, _ := e.DecryptData(k3, ct[16:])
				conf = full[:8]
			}
			return
		}
		ke, err := e.DeriveKey(key.KeyValue, append(be32(usage), 0xAA))
		if err != nil {
			return
		}
		full, err := e.DecryptData(ke, ct[:len(ct)-e.GetHMACBitLength()/8])
		if err == nil {
			conf = full[:cl]
		}
	})
	return conf
}

func be32(u uint32) []byte { return []byte{byte(u >> 24), byte(u >> 16), byte(u >> 8), byte(u)} }
func usageT(u uint32) []byte {
	u = rc4Alias(u)
	return []byte{byte(u), byte(u >> 8), byte(u >> 16), byte(u >> 24)}
}

// C06: only authentic ciphertexts decrypt
func c06(c *Ctx) {
	var lens []int
	for l := 0; l <= 64; l++ {
		if !c.Quick() || l < 3 || l%16 == 0 || l%16 == 15 || l%16 == 1 || l == 7 || l == 8 || l == 9 {
			lens = append(lens, l)
		}
	}
	for _, et := range allEtypes {
		for _, l := range lens {
			key := randKey(c, et)
			usage := pickUsage(c)
			msg := make([]byte, l)
			c.R.Read(msg)
			e, _ := crypto.GetEtype(et)
			_, ct, err := e.EncryptMessage(key.KeyValue, msg, usage)
			if err != nil {
				c.Check(false, "EncryptMessage succeeds", "encrypt-fails", err.Error(), nil)
				continue
			}
			c.Count(fmt.Sprintf("etype=%d", et))
			inp := map[string]interface{}{"etype": et, "key": hex.EncodeToString(key.KeyValue), "usage": usage, "ct": hex.EncodeToString(ct)}
			jin := func(b []byte, k types.EncryptionKey, u uint32) jv.V {
				return jv.L(jv.I(int64(k.KeyType)), jv.B(k.KeyValue), jv.I(int64(u)), jv.B(b))
			}
			reject := func(kind string, b []byte, k types.EncryptionKey, u uint32, sample bool) {
				o, _ := obsDecrypt(b, k, u)
				c.Check(o == jv.Err(), "tampered / foreign ciphertext is rejected with an error", "accepts-or-panics:"+kind, fmt.Sprintf("%s -> %s", kind, o), map[string]interface{}{"etype": et, "key": hex.EncodeToString(k.KeyValue), "usage": u, "ct": hex.EncodeToString(b)})
				if sample || o != jv.Err() {
					c.Case("decrypt", jin(b, k, u), o)
				}
				c.Count("tamper:" + kind)
			}
			// every single-bit flip
			for bit := 0; bit < len(ct)*8; bit++ {
				fb := append([]byte{}, ct...)
				fb[bit/8] ^= 1 << uint(bit%8)
				reject("bitflip", fb, key, usage, bit%61 == 0)
			}
			// every truncation and some extensions
			for cut := 0; cut < len(ct); cut++ {
				reject("truncate", ct[:cut], key, usage, cut%5 == 0)
			}
			for _, ext := range [][]byte{{0}, {0xff}, make([]byte, 8), make([]byte, 16)} {
				reject("append", append(append([]byte{}, ct...), ext...), key, usage, true)
				reject("prepend", append(append([]byte{}, ext...), ct...), key, usage, true)
			}
			// swapped blocks
			bs := 16
			if et == 16 || et == 23 {
				bs = 8
			}
			// bytes inserted or removed INSIDE: at every block boundary and just before the trailing checksum
			macLen := map[int32]int{16: 20, 17: 12, 18: 12, 19: 16, 20: 24, 23: 0}[et]
			var cuts []int
			for p := 0; p <= len(ct); p += bs {
				cuts = append(cuts, p)
			}
			if macLen > 0 && len(ct) >= macLen {
				cuts = append(cuts, len(ct)-macLen)
			}
			for ci, p := range cuts {
				for _, n := range []int{1, bs - 1, bs} {
					junk := make([]byte, n)
					c.R.Read(junk)
					ins := append(append(append([]byte{}, ct[:p]...), junk...), ct[p:]...)
					reject("insert", ins, key, usage, (ci+n)%4 == 0)
					if p+n <= len(ct) {
						del := append(append([]byte{}, ct[:p]...), ct[p+n:]...)
						reject("delete", del, key, usage, (ci+n)%4 == 1)
					}
				}
			}
			if len(ct) >= 3*bs {
				sw := append([]byte{}, ct...)
				copy(sw[0:bs], ct[bs:2*bs])
				copy(sw[bs:2*bs], ct[0:bs])
				if !bytes.Equal(sw, ct) {
					reject("swap-blocks", sw, key, usage, true)
				}
			}
			// other usages (modulo rc4 aliases), other keys
			for _, u2 := range append(append([]uint32{}, libUsages...), edgeUsages...) {
				if u2 == usage || (et == 23 && rc4Alias(u2) == rc4Alias(usage)) {
					continue
				}
				reject("other-usage", ct, key, u2, c.R.Intn(4) == 0)
			}
			if et == 23 {
				for _, pair := range [][2]uint32{{3, 8}, {9, 8}, {3, 9}, {23, 13}} {
					_, ca, _ := e.EncryptMessage(key.KeyValue, msg, pair[0])
					o, _ := obsDecrypt(ca, key, pair[1])
					c.Check(o != jv.Err() && o != jv.Panic(), "RFC 4757 usage aliases decrypt each other", "rc4-alias", fmt.Sprint(pair), inp)
					c.Case("decrypt", jin(ca, key, pair[1]), o)
				}
			}
			for i := 0; i < 3; i++ {
				reject("other-key", ct, randKey(c, et), usage, true)
			}
			k2 := types.EncryptionKey{KeyType: et, KeyValue: append([]byte{}, key.KeyValue...)}
			k2.KeyValue[c.R.Intn(len(k2.KeyValue))] ^= 0x20
			reject("key-bitflip", ct, k2, usage, true)
			// keys of another length than the etype's: the genuine key followed by zero bytes (HMAC pads short keys with
			// zeros, so a decryption that never looks at the length treats it as the same key), the key without its last byte
			if e, err := crypto.GetEtype(et); err == nil && et != 23 && et != 19 && et != 20 {
				// RFC 3961 types: key derivation itself refuses a key of the wrong size (a derivation that "succeeds"
				// yields keys that depend on nothing secret)
				for _, bad := range [][]byte{key.KeyValue[:len(key.KeyValue)-1], append(append([]byte{}, key.KeyValue...), 0), {}} {
					var derr error
					p, _ := guard(func() { _, derr = e.DeriveKey(bad, []byte{0, 0, 0, 2, 0xAA}) })
					c.Check(!p && derr != nil, "key derivation refuses a protocol key of the wrong size", "derive-wrong-size", fmt.Sprintf("%d bytes", len(bad)), map[string]interface{}{"etype": et})
				}
			}
			reject("key-length", ct, types.EncryptionKey{KeyType: et, KeyValue: append(append([]byte{}, key.KeyValue...), 0)}, usage, true)
			reject("key-length", ct, types.EncryptionKey{KeyType: et, KeyValue: append(append([]byte{}, key.KeyValue...), 0, 0, 0, 0)}, usage, false)
			reject("key-length", ct, types.EncryptionKey{KeyType: et, KeyValue: append([]byte{}, key.KeyValue[:len(key.KeyValue)-1]...)}, usage, true)
			// the genuine one is accepted
			o, _ := obsDecrypt(ct, key, usage)
			c.Case("decrypt", jin(ct, key, usage), o)
			c.Check(o != jv.Err() && o != jv.Panic(), "the genuine ciphertext decrypts", "rejects-genuine", "", inp)
		}
	}
}

// C07: keyed checksums
// c07UsageSweep: every key usage 0..N for the checksum types whose key derivation n-folds the usage constant
func c07UsageSweep(c *Ctx) {
	for _, tc := range []struct {
		et int32
		n  uint32
	}{{16, 4200}, {17, 1300}, {18, 1300}} {
		e, _ := crypto.GetEtype(tc.et)
		key := randKey(c, tc.et)
		step := uint32(1)
		if c.Quick() && tc.et == 18 {
			step = 3 // same 128-bit fold as etype 17
		}
		for u := uint32(0); u <= tc.n; u += step {
			data := []byte{byte(u), byte(u >> 8), 0x5a}
			var sum []byte
			var err error
			p, _ := guard(func() { sum, err = e.GetChecksumHash(key.KeyValue, data, u) })
			if p || err != nil {
				c.Check(false, "GetChecksumHash succeeds", "checksum-fails", fmt.Sprint(err), map[string]interface{}{"etype": tc.et, "usage": u})
				continue
			}
			c.Case("checksum", jv.L(jv.I(int64(tc.et)), jv.B(key.KeyValue), jv.I(int64(u)), jv.B(data)), jv.Ok(jv.B(sum)))
		}
		c.Count(fmt.Sprintf("usage-sweep:etype=%d", tc.et))
	}
}

func c07(c *Ctx) {
	c07UsageSweep(c)
	var lens []int
	for l := 0; l <= 200; l++ {
		if !c.Quick() || l < 4 || l%64 >= 54 && l%64 <= 57 || l%64 == 0 || l%64 == 63 || c.R.Intn(12) == 0 {
			lens = append(lens, l)
		}
	}
	chk := map[int32]int32{17: 15, 18: 16, 19: 19, 20: 20, 16: 12, 23: -138}
	for _, et := range allEtypes {
		e, _ := crypto.GetEtype(et)
		ce, err := crypto.GetChksumEtype(chk[et])
		c.Check(err == nil && ce != nil && ce.GetETypeID() == et && e.GetHashID() == chk[et], "checksum type id selects the IANA-assigned encryption family", "chksum-etype-map", fmt.Sprint(et), nil)
		for _, l := range lens {
			key := randKey(c, et)
			usage := pickUsage(c)
			data := make([]byte, l)
			c.R.Read(data)
			c.Count(fmt.Sprintf("etype=%d", et))
			inp := map[string]interface{}{"etype": et, "key": hex.EncodeToString(key.KeyValue), "usage": usage, "data": hex.EncodeToString(data)}
			var sum []byte
			p, _ := guard(func() { sum, err = e.GetChecksumHash(key.KeyValue, data, usage) })
			if p || err != nil {
				c.Check(false, "GetChecksumHash succeeds", "checksum-fails", fmt.Sprint(err), inp)
				continue
			}
			c.Case("checksum", jv.L(jv.I(int64(et)), jv.B(key.KeyValue), jv.I(int64(usage)), jv.B(data)), jv.Ok(jv.B(sum)))
			ver := func(kind string, k []byte, d, s []byte, u uint32, want bool, sample bool) {
				var ok bool
				k0, d0, s0 := append([]byte{}, k...), append([]byte{}, d...), append([]byte{}, s...)
				p, _ := guard(func() { ok = e.VerifyChecksum(k, d, s, u) })
				untouched(fmt.Sprintf("VerifyChecksum(etype %d): key", et), k0, k)
				untouched(fmt.Sprintf("VerifyChecksum(etype %d): data", et), d0, d)
				untouched(fmt.Sprintf("VerifyChecksum(etype %d): checksum", et), s0, s)
				c.Check(!p && ok == want, "VerifyChecksum is true exactly for the RFC value", "verify:"+kind, fmt.Sprintf("got %v want %v", ok, want), map[string]interface{}{"etype": et, "key": hex.EncodeToString(k), "usage": u, "data": hex.EncodeToString(d), "chk": hex.EncodeToString(s)})
				if sample || ok != want {
					o := jv.Ok(jv.Bool(ok))
					if p {
						o = jv.Panic()
					}
					c.Case("verify_checksum", jv.L(jv.I(int64(et)), jv.B(k), jv.I(int64(u)), jv.B(d), jv.B(s)), o)
				}
				c.Count("verify:" + kind)
			}
			ver("exact", key.KeyValue, data, sum, usage, true, true)
			for cut := 0; cut < len(sum); cut++ {
				ver("truncated", key.KeyValue, data, sum[:cut], usage, false, cut%7 == 0)
			}
			for _, x := range []byte{0, 1, 0xff} {
				ver("extended", key.KeyValue, data, append(append([]byte{}, sum...), x), usage, false, x == 0)
			}
			for bit := 0; bit < len(sum)*8; bit++ {
				fs := append([]byte{}, sum...)
				fs[bit/8] ^= 1 << uint(bit%8)
				ver("bitflip", key.KeyValue, data, fs, usage, false, bit%41 == 0)
			}
			d2 := append(append([]byte{}, data...), 0)
			ver("other-data", key.KeyValue, d2, sum, usage, false, true)
			if l > 0 {
				d3 := append([]byte{}, data...)
				d3[c.R.Intn(l)] ^= 1
				ver("other-data", key.KeyValue, d3, sum, usage, false, false)
			}
			ver("other-key", randKey(c, et).KeyValue, data, sum, usage, false, true)
			for _, u2 := range append(append([]uint32{}, libUsages...), edgeUsages...) {
				if et == 23 && u2 != usage && rc4Alias(u2) == rc4Alias(usage) {
					// RFC 4757 gives these usages one message type: the checksum is the same value
					ver("alias-usage", key.KeyValue, data, sum, u2, true, true)
					continue
				}
				if u2 == usage {
					continue
				}
				ver("other-usage", key.KeyValue, data, sum, u2, false, c.R.Intn(6) == 0)
			}
		}
	}
}

func withUntouched(f func(*Ctx)) func(*Ctx) {
	return func(c *Ctx) {
		inputsTouched = nil
		f(c)
		c.Check(len(inputsTouched) == 0, "decryption and verification leave the byte slices they are given untouched", "input-modified", fmt.Sprint(inputsTouched), nil)
	}
}

func init() {
	props["C05"] = withUntouched(c05)
	props["C06"] = withUntouched(c06)
	props["C07"] = withUntouched(c07)
}
