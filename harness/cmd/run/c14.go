package main

import (
	"bytes"
	"encoding/binary"
	"encoding/hex"
	"fmt"
	"os"
	"time"

	"github.com/jcmturner/gokrb5/v8/keytab"
	"github.com/jcmturner/gokrb5/v8/types"
	"verif/harness/internal/jv"
)

// ---- independent model of a keytab file (written from the MIT keytab format document) ----

type ktPrinc struct {
	Realm string
	Comps []string
	NType int32
}
type ktEntry struct {
	P      ktPrinc
	TS     int32
	KVNO8  uint8
	KType  int16
	Key    []byte
	Has32  bool
	KVNO32 uint32
}
type ktItem struct {
	Hole int     // > 0: a deleted-entry hole of that many bytes
	E    ktEntry // otherwise an entry
}

func ktOrder(v int) binary.ByteOrder {
	if v == 1 {
		return binary.LittleEndian // native order of this platform
	}
	return binary.BigEndian
}

// refWriteKeytab is the independent writer.
func refWriteKeytab(v int, items []ktItem) []byte {
	o := ktOrder(v)
	var f bytes.Buffer
	f.Write([]byte{5, byte(v)})
	u16 := func(b *bytes.Buffer, x uint16) { var t [2]byte; o.PutUint16(t[:], x); b.Write(t[:]) }
	u32 := func(b *bytes.Buffer, x uint32) { var t [4]byte; o.PutUint32(t[:], x); b.Write(t[:]) }
	cstr := func(b *bytes.Buffer, s string) { u16(b, uint16(len(s))); b.WriteString(s) }
	for _, it := range items {
		if it.Hole > 0 {
			u32(&f, uint32(-int32(it.Hole)))
			f.Write(make([]byte, it.Hole))
			continue
		}
		e := it.E
		var b bytes.Buffer
		n := len(e.P.Comps)
		if v == 1 {
			n++ // version 1 counts the realm
		}
		u16(&b, uint16(n))
		cstr(&b, e.P.Realm)
		for _, c := range e.P.Comps {
			cstr(&b, c)
		}
		if v != 1 {
			u32(&b, uint32(e.P.NType))
		}
		u32(&b, uint32(e.TS))
		b.WriteByte(e.KVNO8)
		u16(&b, uint16(e.KType))
		u16(&b, uint16(len(e.Key)))
		b.Write(e.Key)
		if e.Has32 {
			u32(&b, e.KVNO32)
		}
		u32(&f, uint32(b.Len()))
		f.Write(b.Bytes())
	}
	return f.Bytes()
}

func (e ktEntry) effKVNO() uint32 {
	if e.Has32 && e.KVNO32 != 0 {
		return e.KVNO32
	}
	return uint32(e.KVNO8)
}

func genName(c *Ctx) string {
	switch c.R.Intn(10) {
	case 0:
		return ""
	case 1:
		n := 255 + c.R.Intn(80)
		b := make([]byte, n)
		for i := range b {
			b[i] = byte('a' + c.R.Intn(26))
		}
		return string(b)
	case 2:
		b := make([]byte, 1+c.R.Intn(6))
		c.R.Read(b)
		return string(b)
	default:
		names := []string{"HTTP", "host", "user1", "krbtgt", "TEST.GOKRB5", "host.test.gokrb5", "a", "b", "ab", "EXAMPLE.COM"}
		return names[c.R.Intn(len(names))]
	}
}

var ktEtypes = []int16{17, 18, 19, 20, 23, 16, 1, 3, 0, -1, 24, 0x7fff, -0x8000, 25, 26}

func genKtEntry(c *Ctx) ktEntry {
	var e ktEntry
	e.P.Realm = genName(c)
	nc := c.R.Intn(5)
	for i := 0; i < nc; i++ {
		e.P.Comps = append(e.P.Comps, genName(c))
	}
	e.P.NType = []int32{1, 2, 3, 0, -1, 0x7fffffff, -0x80000000}[c.R.Intn(7)]
	switch c.R.Intn(6) {
	case 0:
		e.TS = 0
	case 1:
		e.TS = -0x80000000
	case 2:
		e.TS = 0x7fffffff
	case 3:
		e.TS = -1
	default:
		e.TS = int32(c.R.Uint32())
	}
	e.KVNO8 = uint8(c.R.Intn(256))
	if c.R.Intn(4) == 0 {
		e.KVNO8 = 0
	}
	e.KType = ktEtypes[c.R.Intn(len(ktEtypes))]
	e.Key = make([]byte, []int{16, 32, 24, 1, 8, 64}[c.R.Intn(6)])
	c.R.Read(e.Key)
	e.Has32 = c.R.Intn(3) != 0
	if e.Has32 {
		switch c.R.Intn(5) {
		case 0:
			e.KVNO32 = 0
		case 1:
			e.KVNO32 = 0xffffffff
		case 2:
			e.KVNO32 = 0x80000000
		case 3:
			e.KVNO32 = uint32(e.KVNO8)
		default:
			e.KVNO32 = c.R.Uint32()
		}
	}
	return e
}

func projKeytab(kt *keytab.Keytab, version int) jv.V {
	es := make([]jv.V, len(kt.Entries))
	for i, e := range kt.Entries {
		p := jv.L(jv.I(int64(e.Principal.NumComponents)), jv.S(e.Principal.Realm), jv.Strs(e.Principal.Components), jv.I(int64(e.Principal.NameType)))
		es[i] = jv.L(p, jv.I(e.Timestamp.Unix()), jv.I(int64(e.KVNO8)), jv.I(int64(e.Key.KeyType)), jv.B(e.Key.KeyValue), jv.I(int64(e.KVNO)))
	}
	return jv.L(es...)
}

func ktVersion(kt *keytab.Keytab) int {
	b, err := kt.Marshal()
	if err != nil || len(b) < 2 {
		return -1
	}
	return int(b[1])
}

// observe Unmarshal on arbitrary bytes
func obsKtUnmarshal(b []byte) (jv.V, *keytab.Keytab, error) {
	kt := new(keytab.Keytab)
	var err error
	p, _ := guard(func() { err = kt.Unmarshal(b) })
	if p {
		return jv.Panic(), nil, fmt.Errorf("panic")
	}
	if err != nil {
		return jv.Err(), nil, err
	}
	return jv.Ok(jv.I(int64(ktVersion(kt))), projKeytab(kt, 0)), kt, nil
}

func sameStrs(a, b []string) bool {
	if len(a) != len(b) {
		return false
	}
	for i := range a {
		if a[i] != b[i] {
			return false
		}
	}
	return true
}

func c14(c *Ctx) {
	checkPrincipalEqual(c)
	nFiles := 400
	if !c.Quick() {
		nFiles = 6000
	}
	for fi := 0; fi < nFiles; fi++ {
		v := 1 + c.R.Intn(2)
		n := c.R.Intn(9)
		if fi < 4 {
			n = 0
		}
		var items []ktItem
		var want []ktEntry
		for i := 0; i < n; i++ {
			if c.R.Intn(5) == 0 {
				items = append(items, ktItem{Hole: 1 + c.R.Intn(40)})
				c.Count("item:hole")
			}
			e := genKtEntry(c)
			// make look-ups interesting: repeat an earlier principal sometimes
			if len(want) > 0 && c.R.Intn(3) == 0 {
				prev := want[c.R.Intn(len(want))]
				e.P = prev.P
				if c.R.Intn(2) == 0 {
					e.KType = prev.KType
				}
			}
			items = append(items, ktItem{E: e})
			want = append(want, e)
			c.Count(fmt.Sprintf("entry:comps=%d", len(e.P.Comps)))
			if e.Has32 {
				c.Count("entry:kvno32")
			} else {
				c.Count("entry:kvno8-only")
			}
		}
		if c.R.Intn(6) == 0 {
			items = append(items, ktItem{Hole: 1 + c.R.Intn(20)})
		}
		c.Count(fmt.Sprintf("file:v%d", v))
		c.Count(fmt.Sprintf("file:entries=%d", n))
		file := refWriteKeytab(v, items)

		// (1) parse what the independent writer wrote
		obs, kt, err := obsKtUnmarshal(file)
		c.Case("kt_unmarshal", jv.B(file), obs)
		ok := err == nil && kt != nil && len(kt.Entries) == len(want)
		detail := ""
		if err != nil {
			detail = "error: " + err.Error()
			if len(detail) > 200 {
				detail = detail[:200]
			}
		} else if ok {
			for i, e := range kt.Entries {
				w := want[i]
				if e.Principal.Realm != w.P.Realm || !sameStrs(e.Principal.Components, w.P.Comps) ||
					(v != 1 && e.Principal.NameType != w.P.NType) || e.Timestamp.Unix() != int64(w.TS) ||
					e.KVNO8 != w.KVNO8 || e.Key.KeyType != int32(w.KType) || !bytes.Equal(e.Key.KeyValue, w.Key) ||
					e.KVNO != w.effKVNO() || int(e.Principal.NumComponents) != len(w.P.Comps) {
					ok = false
					detail = fmt.Sprintf("entry %d differs from what was written", i)
					break
				}
			}
		} else if detail == "" {
			detail = fmt.Sprintf("parsed %d entries, %d written", len(kt.Entries), len(want))
		}
		sig := "parse-wellformed"
		if n == 0 && len(items) == 0 {
			sig = "parse-wellformed:empty-keytab"
		}
		c.Check(ok, "parse(independent writer) = written entries", sig, detail, map[string]interface{}{"file": hex.EncodeToString(file), "version": v})
		if kt == nil {
			continue
		}

		// (1b) the parsed keytab owns its entries: what the caller does with the buffer it handed to Unmarshal
		// afterwards (reuse for the next file, zeroing) changes nothing in the entries parsed from it
		if n > 0 {
			buf := append([]byte(nil), file...)
			if _, ktA, errA := obsKtUnmarshal(buf); errA == nil && ktA != nil {
				snap := string(projKeytab(ktA, v))
				for i := range buf {
					buf[i] ^= 0xA5
				}
				other := refWriteKeytab(v, []ktItem{{E: genKtEntry(c)}})
				copy(buf, other)
				if len(other) <= len(buf) {
					obsKtUnmarshal(buf[:len(other)])
				}
				c.Check(string(projKeytab(ktA, v)) == snap, "entries parsed from a buffer do not change when the caller reuses the buffer", "parse-aliases-input", "entries changed after the input buffer was overwritten", map[string]interface{}{"file": hex.EncodeToString(file), "version": v})
				// and the bytes Marshal returns are the caller's: scribbling on them leaves the keytab as it was
				var mbA []byte
				var merrA error
				if pA, _ := guard(func() { mbA, merrA = ktA.Marshal() }); !pA && merrA == nil {
					for i := range mbA {
						mbA[i] ^= 0x5A
					}
					c.Check(string(projKeytab(ktA, v)) == snap, "entries do not change when the caller modifies the bytes Marshal returned", "marshal-aliases-entries", "", map[string]interface{}{"version": v})
				}
				c.Count("buffer-independence")
			}
		}

		// (2) Marshal of the parsed keytab (optionally with mutated fields), and round trip
		if c.R.Intn(2) == 0 {
			for i := range kt.Entries {
				if c.R.Intn(3) == 0 {
					kt.Entries[i].KVNO = c.R.Uint32()
					kt.Entries[i].KVNO8 = uint8(c.R.Intn(256))
					kt.Entries[i].Timestamp = time.Unix(int64(int32(c.R.Uint32())), 0)
					kt.Entries[i].Key.KeyType = int32(ktEtypes[c.R.Intn(len(ktEtypes))])
				}
			}
		}
		before := projKeytab(kt, v)
		var mb []byte
		var merr error
		p, _ := guard(func() { mb, merr = kt.Marshal() })
		switch {
		case p:
			c.Case("kt_marshal", jv.L(jv.I(int64(v)), before), jv.Panic())
		case merr != nil:
			c.Case("kt_marshal", jv.L(jv.I(int64(v)), before), jv.Err())
		default:
			c.Case("kt_marshal", jv.L(jv.I(int64(v)), before), jv.Ok(jv.B(mb)))
			obs2, kt2, err2 := obsKtUnmarshal(mb)
			_ = obs2
			rt := err2 == nil && kt2 != nil && string(projKeytab(kt2, v)) == string(before)
			d := ""
			if err2 != nil {
				d = "re-parse error"
			} else if !rt {
				d = "entries after Unmarshal(Marshal(kt)) differ"
			}
			sig := fmt.Sprintf("roundtrip:v%d", v)
			if len(kt.Entries) == 0 {
				sig = "roundtrip:empty-keytab"
			}
			c.Check(rt, "Unmarshal(Marshal(kt)) = kt", sig, d, map[string]interface{}{"file": hex.EncodeToString(file), "version": v})
			// the same through the file interface: Write to a file, Load it back
			if ktFileRounds < 40 || !c.Quick() && ktFileRounds < 400 {
				ktFileRounds++
				var wb bytes.Buffer
				var n int
				var werr error
				pw, _ := guard(func() { n, werr = kt.Write(&wb) })
				c.Check(!pw && werr == nil && n == len(mb) && bytes.Equal(wb.Bytes(), mb), "Write emits exactly the Marshal bytes and reports their number", "write-differs", fmt.Sprintf("n=%d err=%v", n, werr), map[string]interface{}{"version": v})
				if f, ferr := os.CreateTemp("", "verif-c14-*.keytab"); ferr == nil {
					f.Write(mb)
					f.Close()
					var kt3 *keytab.Keytab
					var lerr error
					pl, _ := guard(func() { kt3, lerr = keytab.Load(f.Name()) })
					os.Remove(f.Name())
					ok3 := !pl && lerr == nil && kt3 != nil && string(projKeytab(kt3, v)) == string(before)
					c.Check(ok3, "Load(file written by Write) = kt", "load-differs", fmt.Sprint(lerr), map[string]interface{}{"version": v})
					c.Count("file-roundtrip")
				}
				var lerr2 error
				guard(func() { _, lerr2 = keytab.Load("/nonexistent/verif-c14.keytab") })
				c.Check(lerr2 != nil, "Load of a missing file is an error", "load-missing-accepted", "", nil)
			}
		}

		// (3) look-ups: present and near-miss
		nl := 6
		for li := 0; li < nl && len(kt.Entries) > 0; li++ {
			e := kt.Entries[c.R.Intn(len(kt.Entries))]
			names := append([]string{}, e.Principal.Components...)
			realm := e.Principal.Realm
			kvno := int(e.KVNO)
			et := e.Key.KeyType
			kind := c.R.Intn(10)
			swapCase := func(x string) (string, bool) {
				for i := 0; i < len(x); i++ {
					if x[i] >= 'a' && x[i] <= 'z' {
						return x[:i] + string(x[i]-32) + x[i+1:], true
					}
					if x[i] >= 'A' && x[i] <= 'Z' {
						return x[:i] + string(x[i]+32) + x[i+1:], true
					}
				}
				return x, false
			}
			switch kind {
			case 8: // a component that differs only in the case of one letter is another principal
				for ci := range names {
					if y, ok := swapCase(names[ci]); ok {
						names[ci] = y
						break
					}
				}
			case 9: // ... and so is a realm
				realm, _ = swapCase(realm)
			case 0:
				kvno = 0
			case 1:
				realm = realm + "X"
			case 2:
				if len(names) > 0 {
					names = names[:len(names)-1]
				} else {
					names = append(names, "x")
				}
			case 3:
				et = et + 1
			case 4:
				kvno = kvno + 1
			case 5:
				if len(names) > 0 {
					names[c.R.Intn(len(names))] = "other"
				}
			case 6:
				kvno = kvno + (1 << 32) // wraps to the same uint32
			}
			c.Count(fmt.Sprintf("lookup:kind=%d", kind))
			pn := types.PrincipalName{NameType: 1, NameString: names}
			var key types.EncryptionKey
			var kv int
			var gerr error
			p, _ := guard(func() { key, kv, gerr = kt.GetEncryptionKey(pn, realm, kvno, et) })
			in := jv.L(projKeytab(kt, v), jv.Strs(names), jv.S(realm), jv.I(int64(kvno)), jv.I(int64(et)))
			var o jv.V
			switch {
			case p:
				o = jv.Panic()
			case gerr != nil:
				o = jv.Err()
			default:
				o = jv.Ok(jv.B(key.KeyValue), jv.I(int64(key.KeyType)), jv.I(int64(kv)))
			}
			c.Case("kt_getkey", in, o)
			// direct oracle: independent selection
			bi := -1
			for i, k := range kt.Entries {
				if k.Principal.Realm == realm && sameStrs(k.Principal.Components, names) && k.Key.KeyType == et &&
					(kvno == 0 || k.KVNO == uint32(kvno)) {
					if bi < 0 || k.Timestamp.Unix() > kt.Entries[bi].Timestamp.Unix() {
						bi = i
					}
				}
			}
			good := !p
			if good {
				if bi < 0 {
					good = gerr != nil
				} else {
					w := kt.Entries[bi]
					good = gerr == nil && bytes.Equal(key.KeyValue, w.Key.KeyValue) && kv == int(w.KVNO) && key.KeyType == w.Key.KeyType
				}
			}
			c.Check(good, "GetEncryptionKey = newest exact match or error", "lookup", fmt.Sprintf("kind=%d", kind), map[string]interface{}{"file": hex.EncodeToString(file), "names": names, "realm": realm, "kvno": kvno, "etype": et})
		}

		// (4) malformed stream: truncations and byte substitutions of the well-formed file
		nm := 3
		if !c.Quick() {
			nm = 8
		}
		for mi := 0; mi < nm && len(file) > 2; mi++ {
			m := append([]byte{}, file...)
			if c.R.Intn(2) == 0 {
				m = m[:c.R.Intn(len(m))]
				c.Count("malformed:truncate")
			} else {
				k := 1 + c.R.Intn(3)
				for j := 0; j < k; j++ {
					m[c.R.Intn(len(m))] = []byte{0, 0xff, 0x80, 0x7f, 1, byte(c.R.Intn(256))}[c.R.Intn(6)]
				}
				c.Count("malformed:substitute")
			}
			o, _, _ := obsKtUnmarshal(m)
			c.Case("kt_unmarshal", jv.B(m), o)
			c.Check(o != jv.Panic(), "no panic on malformed keytab", "panic:malformed", "", map[string]interface{}{"file": hex.EncodeToString(m)})
		}
	}
}

var ktFileRounds int

func init() { props["C14"] = c14 }
