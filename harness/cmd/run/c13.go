package main

import "verif/harness/props/c13"

func init() { props["C13"] = c13.Run }
