package main

import (
	"bytes"
	"encoding/hex"
	"fmt"
	"github.com/jcmturner/gokrb5/v8/client"
	"verif/harness/internal/kdc"

	"github.com/jcmturner/gofork/encoding/asn1"
	"github.com/jcmturner/gokrb5/v8/crypto"
	"github.com/jcmturner/gokrb5/v8/crypto/rfc3961"
	"github.com/jcmturner/gokrb5/v8/types"
	"verif/harness/internal/jv"
)

var c08Passwords = []string{
	"", "password", "foo", "pässword", "naïve café", "пароль", "密码パスワード", "𝄞clef", "a𐐷b😀", "ß", "ÿĀ￿",
	"a very long password that is longer than one sha1 block of sixty four bytes, indeed it is",
}

func permutations(n int) [][]int {
	if n == 0 {
		return [][]int{{}}
	}
	var out [][]int
	for _, p := range permutations(n - 1) {
		for i := 0; i <= len(p); i++ {
			q := append(append(append([]int{}, p[:i]...), n-1), p[i:]...)
			out = append(out, q)
		}
	}
	return out
}

func c08(c *Ctx) {
	// ---- (1) string-to-key ----
	iters := []int{1, 2, 3, 5, 16, 100}
	if !c.Quick() {
		for i := 0; i < 30; i++ {
			iters = append(iters, 1+c.R.Intn(300))
		}
	}
	salts := []string{"", "ATHENA.MIT.EDUraeburn", "EXAMPLE.COMpianist", "TEST.GOKRB5testuser1", "sält"}
	for _, et := range allEtypes {
		e, _ := crypto.GetEtype(et)
		for pi, pw := range c08Passwords {
			for si, salt := range salts {
				if c.Quick() && (pi+si)%3 != 0 && pi > 3 {
					continue
				}
				if et == 16 && pw == "" && salt == "" {
					continue // n-fold of the empty string is undefined in RFC 3961 (documented limit)
				}
				var params string
				switch et {
				case 17, 18, 19, 20:
					it := iters[c.R.Intn(len(iters))]
					params = fmt.Sprintf("%08x", it)
					if et >= 19 && it > 20 {
						params = fmt.Sprintf("%08x", 1+it%7) // SHA-2 PBKDF2 is slow in the model
					}
				}
				c.Count(fmt.Sprintf("s2k:etype=%d", et))
				var k []byte
				var err error
				p, _ := guard(func() { k, err = e.StringToKey(pw, salt, params) })
				in := jv.L(jv.I(int64(et)), jv.S(pw), jv.S(salt), jv.S(params))
				inp := map[string]interface{}{"etype": et, "password": pw, "salt": salt, "params": params}
				switch {
				case p:
					c.Case("string_to_key", in, jv.Panic())
				case err != nil:
					c.Case("string_to_key", in, jv.Err())
				default:
					c.Case("string_to_key", in, jv.Ok(jv.B(k)))
				}
				c.Check(!p && err == nil, "string-to-key succeeds for every Unicode password", "s2k-fails", fmt.Sprint(err), inp)
			}
		}
		// malformed parameters
		for _, params := range []string{"", "1000", "0000100", "000010000", "0000100g", "zzzzzzzz", "00000001 ", "00000000", "01000001", "ffffffff", "80000005"} {
			var k []byte
			var err error
			p, _ := guard(func() { k, err = e.StringToKey("pw", "salt", params) })
			in := jv.L(jv.I(int64(et)), jv.S("pw"), jv.S("salt"), jv.S(params))
			switch {
			case p:
				c.Case("string_to_key", in, jv.Panic())
			case err != nil:
				c.Case("string_to_key", in, jv.Err())
			default:
				c.Case("string_to_key", in, jv.Ok(jv.B(k)))
			}
			c.Count("s2k:malformed-params")
		}
	}
	// default iteration counts (expensive in the model): one or two cases
	defs := []int32{17}
	if !c.Quick() {
		defs = []int32{17, 18}
	}
	for _, et := range defs {
		e, _ := crypto.GetEtype(et)
		k, err := e.StringToKey("password", "ATHENA.MIT.EDUraeburn", e.GetDefaultStringToKeyParams())
		if err == nil {
			c.Case("string_to_key", jv.L(jv.I(int64(et)), jv.S("password"), jv.S("ATHENA.MIT.EDUraeburn"), jv.S(e.GetDefaultStringToKeyParams())), jv.Ok(jv.B(k)))
			c.Count("s2k:default-iterations")
		}
	}

	// ---- (2) n-fold ----
	for l := 1; l <= 64; l++ {
		for _, n := range []int{64, 128, 168, 192, 256} {
			if c.Quick() && l > 12 && (l+n/8)%5 != 0 {
				continue
			}
			m := make([]byte, l)
			c.R.Read(m)
			var out []byte
			p, _ := guard(func() { out = rfc3961.Nfold(m, n) })
			if p {
				c.Case("nfold", jv.L(jv.B(m), jv.I(int64(n))), jv.Panic())
			} else {
				c.Case("nfold", jv.L(jv.B(m), jv.I(int64(n))), jv.Ok(jv.B(out)))
			}
			c.Check(!p && len(out) == n/8, "n-fold output length", "nfold-length", "", nil)
			c.Count("nfold")
		}
	}
	// RFC 3961 appendix A.1 vector as a direct oracle
	c.Check(hex.EncodeToString(rfc3961.Nfold([]byte("012345"), 64)) == "be072631276b1955", "RFC 3961 A.1 64-fold(\"012345\")", "nfold-rfc-vector", "", nil)
	c.Check(hex.EncodeToString(rfc3961.Nfold([]byte("kerberos"), 168)) == "8372c236344e5f1550cd0747e15d62ca7a5a3bcea4", "RFC 3961 A.1 168-fold(\"kerberos\")", "nfold-rfc-vector", "", nil)

	// ---- (3) key derivation with constants of every length 1..16 ----
	for _, et := range allEtypes {
		e, _ := crypto.GetEtype(et)
		for cl := 1; cl <= 16; cl++ {
			key := randKey(c, et)
			cons := make([]byte, cl)
			c.R.Read(cons)
			if cl == 5 {
				cons = append(be32(pickUsage(c)), []byte{0xAA, 0x55, 0x99}[c.R.Intn(3)])
			}
			if cl == 8 && c.R.Intn(2) == 0 {
				cons = []byte("kerberos")
			}
			var dk []byte
			var err error
			p, _ := guard(func() { dk, err = e.DeriveKey(key.KeyValue, cons) })
			in := jv.L(jv.I(int64(et)), jv.B(key.KeyValue), jv.B(cons))
			switch {
			case p:
				c.Case("derive_key", in, jv.Panic())
			case err != nil:
				c.Case("derive_key", in, jv.Err())
			default:
				c.Case("derive_key", in, jv.Ok(jv.B(dk)))
			}
			c.Count(fmt.Sprintf("derive:etype=%d", et))
		}
	}

	// ---- (4) DES3 random-to-key: parity, weak keys ----
	weak := [][]byte{{1, 1, 1, 1, 1, 1, 1, 1}, {0xfe, 0xfe, 0xfe, 0xfe, 0xfe, 0xfe, 0xfe, 0xfe}, {0xe0, 0xe0, 0xe0, 0xe0, 0xf1, 0xf1, 0xf1, 0xf1}, {0x1f, 0x1f, 0x1f, 0x1f, 0x0e, 0x0e, 0x0e, 0x0e},
		{0x01, 0xfe, 0x01, 0xfe, 0x01, 0xfe, 0x01, 0xfe}, {0xe0, 0x1f, 0xe0, 0x1f, 0xf1, 0x0e, 0xf1, 0x0e}, {0xfe, 0xe0, 0xfe, 0xe0, 0xfe, 0xf1, 0xfe, 0xf1}}
	unstretch := func(k8 []byte) []byte {
		b := make([]byte, 7)
		for i := 0; i < 7; i++ {
			b[i] = (k8[i] & 0xfe) | ((k8[7] >> uint(i+1)) & 1)
		}
		return b
	}
	for i := 0; i < 60; i++ {
		b := make([]byte, 21)
		c.R.Read(b)
		if i < 3*len(weak) {
			copy(b[7*(i%3):], unstretch(weak[i/3]))
			c.Count("des3:weak-key-block")
		}
		var k []byte
		p, _ := guard(func() { k = rfc3961.DES3RandomToKey(append([]byte{}, b...)) })
		if p {
			c.Case("des3_random_to_key", jv.B(b), jv.Panic())
			continue
		}
		c.Case("des3_random_to_key", jv.B(b), jv.Ok(jv.B(k)))
		odd := len(k) == 24
		for _, x := range k {
			n := 0
			for j := 0; j < 8; j++ {
				n += int(x>>uint(j)) & 1
			}
			if n%2 == 0 {
				odd = false
			}
		}
		notWeak := true
		for _, w := range weak {
			for j := 0; j+8 <= len(k); j += 8 {
				if bytes.Equal(k[j:j+8], w) {
					notWeak = false
				}
			}
		}
		c.Check(notWeak, "no DES block of a random-to-key output is a weak key", "des3-weak", "", map[string]interface{}{"random": hex.EncodeToString(b)})
		if i >= 3*len(weak) {
			c.Check(odd, "every byte of random-to-key has odd parity", "des3-parity", "", map[string]interface{}{"random": hex.EncodeToString(b)})
		}
	}

	// ---- (5) PA-data precedence: every permutation and subset of the three hints ----
	cname := types.PrincipalName{NameType: 1, NameString: []string{"testuser1"}}
	realm := "TEST.GOKRB5"
	for _, et := range []int32{17, 18, 23, 16, 19} {
		for rep := 0; rep < 2; rep++ {
			saltPW := fmt.Sprintf("saltPW%d", c.R.Intn(1000))
			saltI1 := fmt.Sprintf("saltINFO%d", c.R.Intn(1000))
			saltI2 := fmt.Sprintf("saltINFO2-%d", c.R.Intn(1000))
			if rep == 1 {
				saltI2 = "" // INFO2 without salt: default salt must be used even if others carry one
			}
			var params []byte
			if et == 17 || et == 18 || et == 19 {
				params = be32(uint32(1 + c.R.Intn(6)))
			}
			i1, _ := asn1.Marshal(types.ETypeInfo{{EType: et, Salt: []byte(saltI1)}})
			e2 := types.ETypeInfo2Entry{EType: et, Salt: saltI2, S2KParams: params}
			i2, _ := asn1.Marshal(types.ETypeInfo2{e2})
			hints := []types.PAData{{PADataType: 3, PADataValue: []byte(saltPW)}, {PADataType: 11, PADataValue: i1}, {PADataType: 19, PADataValue: i2}}
			jh := []jv.V{jv.L(jv.I(3), jv.S(saltPW)), jv.L(jv.I(11), jv.L(jv.L(jv.I(int64(et)), jv.S(saltI1)))), jv.L(jv.I(19), jv.L(jv.L(jv.I(int64(et)), jv.S(saltI2), func() jv.V {
				if params == nil {
					return jv.L()
				}
				return jv.L(jv.B(params))
			}())))}
			pw := c08Passwords[1+c.R.Intn(5)]
			for mask := 0; mask < 8; mask++ {
				if mask&4 == 0 && (et == 17 || et == 18 || et == 19) && !(et == 17 && rep == 0 && mask == 3) {
					// without ETYPE-INFO2 the default iteration count applies (4096 / 32768): too slow for the
					// extracted model, one such case is kept
					continue
				}
				var idx []int
				for i := 0; i < 3; i++ {
					if mask&(1<<uint(i)) != 0 {
						idx = append(idx, i)
					}
				}
				var first []byte
				for _, perm := range permutations(len(idx)) {
					var pas types.PADataSequence
					var jp []jv.V
					for _, pi := range perm {
						pas = append(pas, hints[idx[pi]])
						jp = append(jp, jh[idx[pi]])
					}
					// an unrelated entry in between
					if c.R.Intn(2) == 0 {
						pas = append(pas, types.PAData{PADataType: 136, PADataValue: []byte{1}})
						jp = append(jp, jv.L(jv.I(136)))
					}
					var key types.EncryptionKey
					var err error
					p, _ := guard(func() { key, _, err = crypto.GetKeyFromPassword(pw, cname, realm, et, pas) })
					in := jv.L(jv.S(pw), jv.Strs(cname.NameString), jv.S(realm), jv.I(int64(et)), jv.L(jp...))
					switch {
					case p:
						c.Case("key_from_password", in, jv.Panic())
					case err != nil:
						c.Case("key_from_password", in, jv.Err())
					default:
						c.Case("key_from_password", in, jv.Ok(jv.B(key.KeyValue), jv.I(int64(key.KeyType))))
					}
					c.Count(fmt.Sprintf("padata:subset=%d", mask))
					if p || err != nil {
						c.Check(false, "GetKeyFromPassword succeeds", "padata-fails", fmt.Sprint(err), nil)
						continue
					}
					if first == nil {
						first = key.KeyValue
					}
					c.Check(bytes.Equal(first, key.KeyValue), "the derived key does not depend on the order of the PA-data hints", "padata-order", fmt.Sprintf("subset %d perm %v", mask, perm), map[string]interface{}{"etype": et, "subset": mask, "perm": perm})
				}
			}
		}
	}
	// ---- (5b) the hints name DIFFERENT encryption types: ETYPE-INFO says A, ETYPE-INFO2 says B, the caller asked for
	// A or B.  RFC 4120 5.2.7.5: the most specific hint present decides etype, salt and parameters, in every order.
	// The expected key is computed here from the winning hint alone.
	type etPair struct{ a, b int32 }
	for pi, pr := range []etPair{{23, 17}, {17, 23}, {16, 18}, {18, 16}, {23, 19}, {17, 18}, {18, 17}, {16, 23}, {23, 16}} {
		for _, req := range []int32{pr.a, pr.b} {
			saltPW := fmt.Sprintf("saltPW%d", c.R.Intn(1000))
			saltI1 := fmt.Sprintf("saltINFO%d", c.R.Intn(1000))
			saltI2 := fmt.Sprintf("saltINFO2-%d", c.R.Intn(1000))
			var params []byte
			if pr.b == 17 || pr.b == 18 || pr.b == 19 {
				params = be32(uint32(1 + c.R.Intn(6)))
			}
			i1, _ := asn1.Marshal(types.ETypeInfo{{EType: pr.a, Salt: []byte(saltI1)}})
			i2, _ := asn1.Marshal(types.ETypeInfo2{{EType: pr.b, Salt: saltI2, S2KParams: params}})
			hints := []types.PAData{{PADataType: 3, PADataValue: []byte(saltPW)}, {PADataType: 11, PADataValue: i1}, {PADataType: 19, PADataValue: i2}}
			jh := []jv.V{jv.L(jv.I(3), jv.S(saltPW)), jv.L(jv.I(11), jv.L(jv.L(jv.I(int64(pr.a)), jv.S(saltI1)))), jv.L(jv.I(19), jv.L(jv.L(jv.I(int64(pr.b)), jv.S(saltI2), func() jv.V {
				if params == nil {
					return jv.L()
				}
				return jv.L(jv.B(params))
			}())))}
			pw := c08Passwords[1+c.R.Intn(5)]
			for _, mask := range []int{4, 5, 6, 7, 2, 3} {
				// the hint that decides, and what it says
				wet, wsalt := pr.b, saltI2
				if mask&4 == 0 {
					wet, wsalt = pr.a, saltI1
					if wet == 17 || wet == 18 || wet == 19 {
						continue // ETYPE-INFO alone with an AES type: default iteration count, too slow for the extracted model
					}
				}
				if (wet == 17 || wet == 18 || wet == 19) && wet != req {
					// the default parameters of the requested type would be combined with another type: not a case the
					// precedence rule speaks about unless ETYPE-INFO2 carries parameters - it does here, so keep it
					if params == nil {
						continue
					}
				}
				wetype, _ := crypto.GetEtype(wet)
				wparams := wetype.GetDefaultStringToKeyParams()
				if mask&4 != 0 && params != nil {
					wparams = hex.EncodeToString(params)
				}
				var want []byte
				guard(func() { want, _ = wetype.StringToKey(pw, wsalt, wparams) })
				var idx []int
				for i := 0; i < 3; i++ {
					if mask&(1<<uint(i)) != 0 {
						idx = append(idx, i)
					}
				}
				for _, perm := range permutations(len(idx)) {
					var pas types.PADataSequence
					var jp []jv.V
					for _, k := range perm {
						pas = append(pas, hints[idx[k]])
						jp = append(jp, jh[idx[k]])
					}
					var key types.EncryptionKey
					var err error
					p, _ := guard(func() { key, _, err = crypto.GetKeyFromPassword(pw, cname, realm, req, pas) })
					in := jv.L(jv.S(pw), jv.Strs(cname.NameString), jv.S(realm), jv.I(int64(req)), jv.L(jp...))
					switch {
					case p:
						c.Case("key_from_password", in, jv.Panic())
					case err != nil:
						c.Case("key_from_password", in, jv.Err())
					default:
						c.Case("key_from_password", in, jv.Ok(jv.B(key.KeyValue), jv.I(int64(key.KeyType))))
					}
					c.Count("padata-mixed-etypes")
					c.Check(!p && err == nil && bytes.Equal(key.KeyValue, want), "etype, salt and parameters come from the most specific hint present, in every order (RFC 4120 5.2.7.5)", "padata-mixed-etype-order",
						fmt.Sprintf("INFO etype %d, INFO2 etype %d, requested %d, subset %d order %v: key %x want %x (etype %d) err %v", pr.a, pr.b, req, mask, perm, key.KeyValue, want, wet, err),
						map[string]interface{}{"pair": pi, "req": req, "subset": mask, "perm": perm})
				}
			}
		}
	}
	// ---- (5c) the same through the client: a KDC demanding pre-authentication whose e-data carries ETYPE-INFO2 for
	// the etype it chose, ETYPE-INFO naming another etype first, and PW-SALT, in three orders.  The timestamp the
	// client sends must be under the ETYPE-INFO2 key (the simulated KDC refuses anything else). ----
	{
		realm := "TEST.GOKRB5"
		k := kdc.New(realm)
		k.AddPrincipal([]string{"testuser1"}, "passwordvalue", 2)
		k.RequirePreauth, k.ExtraHints = true, true
		if err := k.Serve(); err == nil {
			for _, et := range allEtypes {
				for order := 0; order < 3; order++ {
					k.HintOrder = order
					cfg := testConfig(realm, []string{k.Addr}, []int32{et})
					cl := client.NewWithPassword("testuser1", realm, "passwordvalue", cfg, client.DisablePAFXFAST(true))
					var err error
					p, _ := guard(func() { err = cl.Login() })
					c.Check(!p && err == nil, "login succeeds whatever the order of the pre-authentication hints (the key is the ETYPE-INFO2 one)", "login-hint-order", fmt.Sprintf("etype %d order %d: %v", et, order, err), map[string]interface{}{"etype": et, "order": order})
					cl.Destroy()
					c.Count("login-hint-order")
				}
			}
			k.Close()
		} else {
			c.Notes = append(c.Notes, "simulated KDC did not start: "+err.Error())
		}
	}
	// empty ETYPE-INFO / ETYPE-INFO2 sequences
	for _, t := range []int32{11, 19} {
		pas := types.PADataSequence{{PADataType: t, PADataValue: []byte{0x30, 0x00}}}
		var err error
		p, _ := guard(func() { _, _, err = crypto.GetKeyFromPassword("pw", cname, realm, 18, pas) })
		c.Check(!p, "an empty ETYPE-INFO(2) sequence does not panic", "padata-empty-panic", fmt.Sprint(err), nil)
		o := jv.Err()
		if p {
			o = jv.Panic()
		} else if err == nil {
			k, _, _ := crypto.GetKeyFromPassword("pw", cname, realm, 18, pas)
			o = jv.Ok(jv.B(k.KeyValue), jv.I(18))
		}
		c.Case("key_from_password", jv.L(jv.S("pw"), jv.Strs(cname.NameString), jv.S(realm), jv.I(18), jv.L(jv.L(jv.I(int64(t)), jv.L()))), o)
	}

	// ---- (6) generated keys are usable ----
	for _, et := range allEtypes {
		e, _ := crypto.GetEtype(et)
		for rep := 0; rep < 4; rep++ {
			k, err := types.GenerateEncryptionKey(e)
			good := err == nil
			detail := ""
			if good {
				ed, err := crypto.GetEncryptedData([]byte("some plaintext to protect"), k, 11, 1)
				if err != nil {
					good = false
					detail = "encrypt: " + err.Error()
				} else {
					pt, err := crypto.DecryptEncPart(ed, k, 11)
					good = err == nil && bytes.HasPrefix(pt, []byte("some plaintext to protect"))
				}
			}
			c.Check(good, "a generated session key encrypts and decrypts with its etype", "generated-key-unusable", detail, map[string]interface{}{"etype": et, "keylen": len(k.KeyValue)})
			c.Check(len(k.KeyValue) == etypeKeyLen(et), "generated key has the etype's protocol key length", "generated-key-length", fmt.Sprint(len(k.KeyValue)), map[string]interface{}{"etype": et})
			var a types.Authenticator
			a.GenerateSeqNumberAndSubKey(et, e.GetKeyByteSize())
			_, err = crypto.GetEncryptedData([]byte("x"), a.SubKey, 11, 1)
			c.Check(err == nil, "a generated subkey encrypts with its etype", "generated-subkey-unusable", fmt.Sprint(err), map[string]interface{}{"etype": et})
			c.Count("generated-key")
		}
	}
}

func init() { props["C08"] = c08 }
