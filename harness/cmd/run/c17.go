package main

import (
	"bytes"
	"encoding/binary"
	"encoding/hex"
	"fmt"

	"github.com/jcmturner/gokrb5/v8/crypto"
	"github.com/jcmturner/gokrb5/v8/gssapi"
	"github.com/jcmturner/gokrb5/v8/types"
	"verif/harness/internal/jv"
)

var allEtypes = []int32{17, 18, 19, 20, 23, 16}

func etypeKeyLen(et int32) int {
	switch et {
	case 17, 19, 23:
		return 16
	case 18, 20:
		return 32
	case 16:
		return 24
	}
	return 16
}

func randKey(c *Ctx, et int32) types.EncryptionKey {
	k := make([]byte, etypeKeyLen(et))
	c.R.Read(k)
	return types.EncryptionKey{KeyType: et, KeyValue: k}
}

func seqBytes(s uint64) []byte { var b [8]byte; binary.BigEndian.PutUint64(b[:], s); return b[:] }

func projWrap(t *gssapi.WrapToken) jv.V {
	return jv.L(jv.I(int64(t.Flags)), jv.I(int64(t.EC)), jv.I(int64(t.RRC)), jv.B(seqBytes(t.SndSeqNum)), jv.B(t.Payload), jv.B(t.CheckSum))
}
func jKey(k types.EncryptionKey) jv.V { return jv.L(jv.I(int64(k.KeyType)), jv.B(k.KeyValue)) }

func obsWrapUnmarshal(b []byte, acc bool) (jv.V, *gssapi.WrapToken) {
	var t gssapi.WrapToken
	var err error
	p, _ := guard(func() { err = t.Unmarshal(b, acc) })
	if p {
		return jv.Panic(), nil
	}
	if err != nil {
		return jv.Err(), nil
	}
	return jv.Ok(jv.I(int64(t.Flags)), jv.I(int64(t.EC)), jv.I(int64(t.RRC)), jv.B(seqBytes(t.SndSeqNum)), jv.B(t.Payload), jv.B(t.CheckSum)), &t
}

func obsMicUnmarshal(b []byte, acc bool) (jv.V, *gssapi.MICToken) {
	var t gssapi.MICToken
	var err error
	p, _ := guard(func() { err = t.Unmarshal(b, acc) })
	if p {
		return jv.Panic(), nil
	}
	if err != nil {
		return jv.Err(), nil
	}
	return jv.Ok(jv.I(int64(t.Flags)), jv.B(seqBytes(t.SndSeqNum)), jv.B(t.Checksum)), &t
}

// verdict of Verify as the model's option bool: ( i0 i1 ) true, ( i0 i0 ) false, ( i-1 ) checksum not computable
func obsVerify(f func() (bool, error)) jv.V {
	var ok bool
	var err error
	p, _ := guard(func() { ok, err = f() })
	if p {
		return jv.Panic()
	}
	if ok {
		return jv.Ok(jv.I(1))
	}
	if err != nil && !bytes.Contains([]byte(err.Error()), []byte("checksum mismatch")) {
		return jv.Err()
	}
	return jv.Ok(jv.I(0))
}

func c17(c *Ctx) {
	seqs := []uint64{0, 1, 1 << 32, 1<<64 - 1}
	usages := []uint32{22, 23, 24, 25}
	var lens []int
	if c.Quick() {
		lens = []int{0, 1, 15, 16, 17, 31, 32, 33, 64, 100, 255, 256, 300}
		for i := 0; i < 6; i++ {
			lens = append(lens, c.R.Intn(301))
		}
	} else {
		for i := 0; i <= 300; i++ {
			lens = append(lens, i)
		}
	}
	flipBudget := 6
	if !c.Quick() {
		flipBudget = 40
	}
	for _, et := range allEtypes {
		e, _ := crypto.GetEtype(et)
		hl := e.GetHMACBitLength() / 8
		for li, pl := range lens {
			key := randKey(c, et)
			payload := make([]byte, pl)
			c.R.Read(payload)
			flags := byte(c.R.Intn(8))
			if li < 8 {
				flags = byte(li)
			}
			seq := seqs[c.R.Intn(4)]
			usage := usages[c.R.Intn(4)]
			c.Count(fmt.Sprintf("etype=%d", et))
			c.Count(fmt.Sprintf("flags=%d", flags))
			// ---------------- Wrap ----------------
			wt := gssapi.WrapToken{Flags: flags, EC: uint16(hl), RRC: uint16(c.R.Intn(3) * c.R.Intn(65536)), SndSeqNum: seq, Payload: payload}
			if err := wt.SetCheckSum(key, usage); err != nil {
				c.Check(false, "SetCheckSum succeeds", "wrap:setchecksum", err.Error(), nil)
				continue
			}
			inp := map[string]interface{}{"etype": et, "key": hex.EncodeToString(key.KeyValue), "usage": usage, "flags": flags, "seq": seq, "payload": hex.EncodeToString(payload)}
			c.Check(len(wt.CheckSum) == hl, "checksum length = HMAC length of the etype", "wrap:cksumlen", "", inp)
			mb, err := wt.Marshal()
			if err != nil {
				c.Check(false, "Marshal succeeds", "wrap:marshal", err.Error(), inp)
				continue
			}
			c.Case("wrap_marshal", projWrap(&wt), jv.Ok(jv.B(mb)))
			c.Case("wrap_verify", jv.L(projWrap(&wt), jKey(key), jv.I(int64(usage))), obsVerify(func() (bool, error) { return wt.Verify(key, usage) }))
			for _, acc := range []bool{false, true} {
				o, t2 := obsWrapUnmarshal(mb, acc)
				c.Case("wrap_unmarshal", jv.L(jv.B(mb), jv.Bool(acc)), o)
				want := (flags&1 == 1) == acc
				if want {
					good := t2 != nil && string(projWrap(t2)) == string(projWrap(&wt))
					c.Check(good, "Unmarshal(Marshal(t)) = t", "wrap:roundtrip", "", inp)
					if t2 != nil {
						mb0 := append([]byte{}, mb...)
						before := string(projWrap(t2))
						ok, _ := t2.Verify(key, usage)
						c.Check(ok, "decoded token verifies under the same key and usage", "wrap:verify-own", "", inp)
						c.Check(string(mb0) == string(mb) && before == string(projWrap(t2)), "Verify leaves the token and the bytes it was decoded from untouched", "wrap:verify-modifies", "", inp)
					}
				} else {
					c.Check(t2 == nil, "Unmarshal rejects the unexpected direction", "wrap:direction", "", inp)
				}
			}
			// every field changed between checksum computation and verification
			muts := []func(t *gssapi.WrapToken) (types.EncryptionKey, uint32){
				func(t *gssapi.WrapToken) (types.EncryptionKey, uint32) {
					t.Flags ^= 1 << uint(c.R.Intn(3))
					return key, usage
				},
				func(t *gssapi.WrapToken) (types.EncryptionKey, uint32) {
					t.SndSeqNum ^= 1 << uint(c.R.Intn(64))
					return key, usage
				},
				func(t *gssapi.WrapToken) (types.EncryptionKey, uint32) {
					if len(t.Payload) == 0 {
						t.Payload = []byte{0}
					} else {
						p := append([]byte{}, t.Payload...)
						p[c.R.Intn(len(p))] ^= 1 << uint(c.R.Intn(8))
						t.Payload = p
					}
					return key, usage
				},
				func(t *gssapi.WrapToken) (types.EncryptionKey, uint32) {
					k2 := types.EncryptionKey{KeyType: key.KeyType, KeyValue: append([]byte{}, key.KeyValue...)}
					k2.KeyValue[c.R.Intn(len(k2.KeyValue))] ^= 0x10
					return k2, usage
				},
				func(t *gssapi.WrapToken) (types.EncryptionKey, uint32) {
					return key, usages[(int(usage)-22+1+c.R.Intn(3))%4]
				},
				func(t *gssapi.WrapToken) (types.EncryptionKey, uint32) {
					t.CheckSum = t.CheckSum[:len(t.CheckSum)-1]
					return key, usage
				},
				func(t *gssapi.WrapToken) (types.EncryptionKey, uint32) {
					t.CheckSum = append(append([]byte{}, t.CheckSum...), 0)
					return key, usage
				},
				func(t *gssapi.WrapToken) (types.EncryptionKey, uint32) { t.RRC ^= 0x101; t.EC ^= 3; return key, usage }, // outside the signed data
			}
			for mi, m := range muts {
				t2 := wt
				k2, u2 := m(&t2)
				o := obsVerify(func() (bool, error) { return t2.Verify(k2, u2) })
				c.Case("wrap_verify", jv.L(projWrap(&t2), jKey(k2), jv.I(int64(u2))), o)
				if mi == 7 {
					c.Check(o == jv.Ok(jv.I(1)), "RRC/EC are not covered by the checksum (RFC 4121 4.2.4)", "wrap:rrc", "", inp)
				} else {
					// rc4-hmac maps several usages to one message type only for 3/9/23; 22..25 stay distinct except 23 -> 13
					c.Check(o != jv.Ok(jv.I(1)) && o != jv.Panic(), "Verify fails when a signed field, the key or the usage changed", fmt.Sprintf("wrap:mutation-%d", mi), "", inp)
				}
			}
			// single-bit flips of the marshalled token (exhaustive for the first tokens of each etype)
			if li < flipBudget {
				for bit := 0; bit < len(mb)*8; bit++ {
					fb := append([]byte{}, mb...)
					fb[bit/8] ^= 1 << uint(bit%8)
					acc := flags&1 == 1
					var t3 gssapi.WrapToken
					accepted := false
					p, _ := guard(func() {
						if err := t3.Unmarshal(fb, acc); err == nil {
							ok, _ := t3.Verify(key, usage)
							accepted = ok
						}
					})
					inRRC := bit/8 == 6 || bit/8 == 7
					c.Check(!p && accepted == inRRC, "a token with one flipped bit verifies iff the bit is in RRC", "wrap:bitflip", fmt.Sprintf("bit %d", bit), inp)
					if bit%37 == 0 {
						o, _ := obsWrapUnmarshal(fb, acc)
						c.Case("wrap_unmarshal", jv.L(jv.B(fb), jv.Bool(acc)), o)
					}
				}
				c.Count("bitflip-exhaustive-tokens")
				for cut := 0; cut < len(mb); cut++ {
					o, _ := obsWrapUnmarshal(mb[:cut], flags&1 == 1)
					c.Case("wrap_unmarshal", jv.L(jv.B(mb[:cut]), jv.Bool(flags&1 == 1)), o)
					c.Check(o != jv.Panic(), "no panic on truncated token", "wrap:truncation-panic", "", inp)
				}
			}

			// ---------------- MIC ----------------
			mt := gssapi.MICToken{Flags: flags, SndSeqNum: seq, Payload: payload}
			if err := mt.SetChecksum(key, usage); err != nil {
				c.Check(false, "SetChecksum succeeds", "mic:setchecksum", err.Error(), inp)
				continue
			}
			mmb, err := mt.Marshal()
			if err != nil {
				c.Check(false, "Marshal succeeds", "mic:marshal", err.Error(), inp)
				continue
			}
			jm := func(t *gssapi.MICToken) jv.V {
				return jv.L(jv.I(int64(t.Flags)), jv.B(seqBytes(t.SndSeqNum)), jv.B(t.Payload), jv.B(t.Checksum))
			}
			c.Case("mic_marshal", jm(&mt), jv.Ok(jv.B(mmb)))
			c.Case("mic_verify", jv.L(jm(&mt), jKey(key), jv.I(int64(usage))), obsVerify(func() (bool, error) { return mt.Verify(key, usage) }))
			for _, acc := range []bool{false, true} {
				o, t2 := obsMicUnmarshal(mmb, acc)
				c.Case("mic_unmarshal", jv.L(jv.B(mmb), jv.Bool(acc)), o)
				if (flags&1 == 1) == acc {
					good := t2 != nil && t2.Flags == mt.Flags && t2.SndSeqNum == mt.SndSeqNum && bytes.Equal(t2.Checksum, mt.Checksum)
					c.Check(good, "Unmarshal(Marshal(t)) = t", "mic:roundtrip", "", inp)
					if t2 != nil {
						t2.Payload = payload
						ok, _ := t2.Verify(key, usage)
						c.Check(ok, "decoded token verifies under the same key and usage", "mic:verify-own", "", inp)
					}
				} else {
					c.Check(t2 == nil, "Unmarshal rejects the unexpected direction", "mic:direction", "", inp)
				}
			}
			mmuts := []func(t *gssapi.MICToken) (types.EncryptionKey, uint32){
				func(t *gssapi.MICToken) (types.EncryptionKey, uint32) {
					t.Flags ^= 1 << uint(c.R.Intn(3))
					return key, usage
				},
				func(t *gssapi.MICToken) (types.EncryptionKey, uint32) {
					t.SndSeqNum ^= 1 << uint(c.R.Intn(64))
					return key, usage
				},
				func(t *gssapi.MICToken) (types.EncryptionKey, uint32) {
					t.Payload = append(append([]byte{}, t.Payload...), 1)
					return key, usage
				},
				func(t *gssapi.MICToken) (types.EncryptionKey, uint32) {
					k2 := types.EncryptionKey{KeyType: key.KeyType, KeyValue: append([]byte{}, key.KeyValue...)}
					k2.KeyValue[0] ^= 0x10
					return k2, usage
				},
				func(t *gssapi.MICToken) (types.EncryptionKey, uint32) {
					return key, usages[(int(usage)-22+1+c.R.Intn(3))%4]
				},
				func(t *gssapi.MICToken) (types.EncryptionKey, uint32) {
					t.Checksum = t.Checksum[:len(t.Checksum)-1]
					return key, usage
				},
			}
			for mi, m := range mmuts {
				t2 := mt
				k2, u2 := m(&t2)
				o := obsVerify(func() (bool, error) { return t2.Verify(k2, u2) })
				c.Case("mic_verify", jv.L(jm(&t2), jKey(k2), jv.I(int64(u2))), o)
				c.Check(o != jv.Ok(jv.I(1)) && o != jv.Panic(), "Verify fails when a signed field, the key or the usage changed", fmt.Sprintf("mic:mutation-%d", mi), "", inp)
			}
			if li < flipBudget {
				for bit := 0; bit < len(mmb)*8; bit++ {
					fb := append([]byte{}, mmb...)
					fb[bit/8] ^= 1 << uint(bit%8)
					acc := flags&1 == 1
					var t3 gssapi.MICToken
					accepted := false
					p, _ := guard(func() {
						if err := t3.Unmarshal(fb, acc); err == nil {
							t3.Payload = payload
							ok, _ := t3.Verify(key, usage)
							accepted = ok
						}
					})
					c.Check(!p && !accepted, "a MIC token with one flipped bit never verifies", "mic:bitflip", fmt.Sprintf("bit %d", bit), inp)
					if bit%29 == 0 {
						o, _ := obsMicUnmarshal(fb, acc)
						c.Case("mic_unmarshal", jv.L(jv.B(fb), jv.Bool(acc)), o)
					}
				}
				for cut := 0; cut < len(mmb); cut++ {
					o, _ := obsMicUnmarshal(mmb[:cut], flags&1 == 1)
					c.Case("mic_unmarshal", jv.L(jv.B(mmb[:cut]), jv.Bool(flags&1 == 1)), o)
				}
			}
		}
	}
	// NewInitiator* constructors: flags 0, seq 0, EC = HMAC length, usages 24 / 25
	for _, et := range allEtypes {
		key := randKey(c, et)
		payload := make([]byte, c.R.Intn(64))
		c.R.Read(payload)
		wt, err := gssapi.NewInitiatorWrapToken(payload, key)
		if err == nil {
			c.Case("wrap_verify", jv.L(projWrap(wt), jKey(key), jv.I(24)), jv.Ok(jv.I(1)))
			c.Check(wt.Flags == 0 && wt.SndSeqNum == 0 && int(wt.EC) == len(wt.CheckSum), "NewInitiatorWrapToken header fields", "wrap:newinitiator", "", nil)
		}
		mt, err := gssapi.NewInitiatorMICToken(payload, key)
		if err == nil {
			c.Case("mic_verify", jv.L(jv.L(jv.I(int64(mt.Flags)), jv.B(seqBytes(mt.SndSeqNum)), jv.B(mt.Payload), jv.B(mt.Checksum)), jKey(key), jv.I(25)), jv.Ok(jv.I(1)))
		}
	}
}

func init() { props["C17"] = c17 }
