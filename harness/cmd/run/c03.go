package main

import (
	"bytes"
	"encoding/base64"
	"encoding/hex"
	"errors"
	"fmt"
	"net/http"
	"net/http/httptest"
	"strings"
	"sync"
	"sync/atomic"
	"time"
	"unicode"
	"verif/harness/props/c03b"

	"github.com/jcmturner/gofork/encoding/asn1"
	"github.com/jcmturner/goidentity/v6"
	"github.com/jcmturner/gokrb5/v8/asn1tools"
	"github.com/jcmturner/gokrb5/v8/gssapi"
	"github.com/jcmturner/gokrb5/v8/messages"
	"github.com/jcmturner/gokrb5/v8/service"
	"github.com/jcmturner/gokrb5/v8/spnego"
	"github.com/jcmturner/gokrb5/v8/test/testdata"
	"github.com/jcmturner/gokrb5/v8/types"
	"verif/harness/internal/jv"
)

// a minimal session manager (cookie -> stored bytes), with a failing variant
type memSessions struct {
	mu       sync.Mutex
	store    map[string][]byte
	n        int
	failsNew bool
}

func (m *memSessions) New(w http.ResponseWriter, r *http.Request, k string, v []byte) error {
	if m.failsNew {
		return errors.New("session store unavailable")
	}
	m.mu.Lock()
	defer m.mu.Unlock()
	m.n++
	id := fmt.Sprintf("s%d", m.n)
	m.store[id+k] = v
	http.SetCookie(w, &http.Cookie{Name: "sess", Value: id})
	return nil
}
func (m *memSessions) Get(r *http.Request, k string) ([]byte, error) {
	ck, err := r.Cookie("sess")
	if err != nil {
		return nil, err
	}
	m.mu.Lock()
	defer m.mu.Unlock()
	v, ok := m.store[ck.Value+k]
	if !ok {
		return nil, errors.New("no such session")
	}
	return v, nil
}

type innerRec struct {
	mu     sync.Mutex
	called bool
	user   string
	domain string
}

func krb5Mech(tokID []byte, oid asn1.ObjectIdentifier, msg []byte) []byte {
	b, _ := asn1.Marshal(oid)
	b = append(b, tokID...)
	b = append(b, msg...)
	return asn1tools.AddASNAppTag(b, 0)
}

var oidOther = asn1.ObjectIdentifier{1, 3, 6, 1, 4, 1, 311, 2, 2, 10} // NTLMSSP

type mechTok struct {
	bytes []byte
	j     jv.V // model structure
	kind  string
	// for AP-REQ tokens: whether the request was minted valid, and its sealed identity
	valid        bool
	user         string
	domain       string
	cipherRanges [][2]int // byte ranges (within bytes) of the two ciphertexts
}

func challengeClass(h string) int {
	switch h {
	case "":
		return 0
	case "Negotiate":
		return 1
	case "Negotiate oRQwEqADCgEBoQsGCSqGSIb3EgECAg==":
		return 2
	case "Negotiate oQcwBaADCgEC":
		return 3
	case "Negotiate oRQwEqADCgEAoQsGCSqGSIb3EgECAg==":
		return 4
	}
	return 9
}

func c03(c *Ctx) {
	checkPrincipalEqual(c)
	s := newTestService(c, []string{"HTTP", "host.test.gokrb5"})
	cat := defectCatalogue()
	skew := 5 * time.Minute
	local := types.HostAddress{AddrType: 2, Address: []byte{127, 0, 0, 1}}
	jst := jv.L(jv.I(int64(skew/time.Microsecond)), jv.Bool(false), jAddr(local), jv.L())

	mkAPReqTok := func(et int32, defs []int) mechTok {
		r := baseRecipe(c, s, et)
		invalid := false
		name := "apreq"
		for _, di := range defs {
			cat[di].apply(c, s, &r, skew)
			if cat[di].invalidates {
				invalid = true
			}
			name += "+" + cat[di].name
		}
		m := mint(c, r)
		ab, err := m.req.Marshal()
		if err != nil {
			panic(err)
		}
		in := jv.L(jst, projKeytab(s.kt, 2), jv.I(time.Now().UTC().UnixNano()/1000), jv.L(), m.jTicket(), m.jSealedTicket(), m.jAuthEnc(), m.jSealedAuth())
		mb := krb5Mech([]byte{1, 0}, gssapi.OIDKRB5.OID(), ab)
		t := mechTok{bytes: mb, j: jv.L(jv.I(0), in), kind: name, valid: !invalid, user: joinSlash(r.cname), domain: r.crealm}
		for _, ci := range [][]byte{m.req.Ticket.EncPart.Cipher, m.req.EncryptedAuthenticator.Cipher} {
			if i := strings.Index(string(mb), string(ci)); i >= 0 {
				t.cipherRanges = append(t.cipherRanges, [2]int{i, i + len(ci)})
			}
		}
		return t
	}
	aprep, _ := hex.DecodeString(testdata.MarshaledKRB5ap_rep)
	ke := messages.NewKRBError(types.PrincipalName{NameType: 2, NameString: s.sname}, s.realm, 41, "error")
	krberr, _ := ke.Marshal()
	otherToks := func() []mechTok {
		return []mechTok{
			{bytes: krb5Mech([]byte{2, 0}, gssapi.OIDKRB5.OID(), aprep), j: jv.L(jv.I(1)), kind: "ap-rep"},
			{bytes: krb5Mech([]byte{3, 0}, gssapi.OIDKRB5.OID(), krberr), j: jv.L(jv.I(2), jv.I(1)), kind: "krb-error"},
			{bytes: krb5Mech([]byte{9, 9}, gssapi.OIDKRB5.OID(), []byte{1, 2, 3}), j: jv.L(jv.I(3)), kind: "unknown-tokid"},
			{bytes: []byte{0x60, 0x03, 0x01, 0x02, 0x03}, j: jv.L(jv.I(4)), kind: "garbage-mechtoken"},
			{bytes: krb5Mech([]byte{1, 0}, gssapi.OIDKRB5.OID(), []byte{0x6e, 0x03, 0x30, 0x01, 0x00}), j: jv.L(jv.I(4)), kind: "bad-apreq-bytes"},
			{bytes: krb5Mech([]byte{1, 0}, gssapi.OIDMSLegacyKRB5.OID(), []byte{1}), j: jv.L(jv.I(4)), kind: "mslegacy-oid-in-mechtoken"},
		}
	}
	oidOf := func(code int) asn1.ObjectIdentifier {
		switch code {
		case 0:
			return gssapi.OIDKRB5.OID()
		case 1:
			return gssapi.OIDMSLegacyKRB5.OID()
		}
		return oidOther
	}
	type hdrCase struct {
		value string // Authorization header value ("" = none)
		j     jv.V
		tok   *mechTok
		kind  string
		negJ  jv.V // model neg token (for the API stream), "" if not a token
		raw   []byte
	}
	mkInit := func(mechs []int, mt *mechTok) hdrCase {
		var oids []asn1.ObjectIdentifier
		var jm []jv.V
		for _, m := range mechs {
			oids = append(oids, oidOf(m))
			jm = append(jm, jv.I(int64(m)))
		}
		nt := spnego.NegTokenInit{MechTypes: oids}
		jt := jv.L()
		if mt != nil {
			nt.MechTokenBytes = mt.bytes
			jt = jv.L(mt.j)
		}
		st := spnego.SPNEGOToken{Init: true, NegTokenInit: nt}
		b, err := st.Marshal()
		if err != nil {
			panic(err)
		}
		nj := jv.L(jv.I(0), jv.L(jm...), jt)
		k := fmt.Sprintf("init%v", mechs)
		if mt != nil {
			k += ":" + mt.kind
		}
		return hdrCase{value: "Negotiate " + base64.StdEncoding.EncodeToString(b), j: jv.L(jv.I(3), nj), tok: mt, kind: k, negJ: nj, raw: b}
	}
	mkResp := func(mech int, mt *mechTok) hdrCase {
		nt := spnego.NegTokenResp{NegState: 1}
		if mech >= 0 {
			nt.SupportedMech = oidOf(mech)
		}
		jt := jv.L()
		if mt != nil {
			nt.ResponseToken = mt.bytes
			jt = jv.L(mt.j)
		}
		st := spnego.SPNEGOToken{Resp: true, NegTokenResp: nt}
		b, err := st.Marshal()
		if err != nil {
			panic(err)
		}
		m := mech
		if m < 0 {
			m = 2
		}
		nj := jv.L(jv.I(1), jv.I(int64(m)), jt)
		k := fmt.Sprintf("resp[%d]", mech)
		if mt != nil {
			k += ":" + mt.kind
		}
		return hdrCase{value: "Negotiate " + base64.StdEncoding.EncodeToString(b), j: jv.L(jv.I(3), nj), tok: mt, kind: k, negJ: nj, raw: b}
	}
	mkRaw := func(mt mechTok) hdrCase {
		// raw KRB5 token: the wrapper turns it into an Init with the token's OID
		nj := jv.L(jv.I(0), jv.L(jv.I(0)), jv.L(mt.j))
		return hdrCase{value: "Negotiate " + base64.StdEncoding.EncodeToString(mt.bytes), j: jv.L(jv.I(3), nj), tok: &mt, kind: "raw:" + mt.kind, negJ: nj, raw: mt.bytes}
	}

	// one request against a fresh wrapped handler
	type sessMode int
	do := func(hc hdrCase, sm sessMode, cookie *http.Cookie, mgr *memSessions) (status int, chal int, rec *innerRec, setCookie *http.Cookie, panicked bool) {
		rec = &innerRec{}
		inner := http.HandlerFunc(func(w http.ResponseWriter, r *http.Request) {
			rec.mu.Lock()
			rec.called = true
			if id := goidentity.FromHTTPRequestContext(r); id != nil {
				rec.user, rec.domain = id.UserName(), id.Domain()
			}
			rec.mu.Unlock()
			w.WriteHeader(200)
		})
		opts := []func(*service.Settings){service.MaxClockSkew(skew), service.DecodePAC(false)}
		if mgr != nil {
			opts = append(opts, service.SessionManager(mgr))
		}
		h := spnego.SPNEGOKRB5Authenticate(inner, s.kt, opts...)
		req := httptest.NewRequest("GET", "http://host.test.gokrb5/", nil)
		req.RemoteAddr = "127.0.0.1:50000"
		if hc.value != "" {
			req.Header.Set("Authorization", hc.value)
		}
		if cookie != nil {
			req.AddCookie(cookie)
		}
		w := httptest.NewRecorder()
		p, _ := guard(func() { h.ServeHTTP(w, req) })
		res := w.Result()
		for _, ck := range res.Cookies() {
			if ck.Name == "sess" {
				setCookie = ck
			}
		}
		return res.StatusCode, challengeClass(res.Header.Get("WWW-Authenticate")), rec, setCookie, p
	}
	obsResp := func(status, chal int, rec *innerRec, p bool) jv.V {
		if p {
			return jv.Panic()
		}
		id := jv.L()
		if rec.called {
			id = jv.L(jv.S(rec.user), jv.S(rec.domain))
		}
		return jv.Ok(jv.I(int64(status)), jv.I(int64(chal)), id)
	}

	var cases []hdrCase
	cases = append(cases,
		hdrCase{value: "", j: jv.L(jv.I(0)), kind: "no-header"},
		hdrCase{value: "Basic dXNlcjpwYXNz", j: jv.L(jv.I(0)), kind: "basic"},
		hdrCase{value: "Negotiate", j: jv.L(jv.I(0)), kind: "no-value"},
		hdrCase{value: "negotiate abcd", j: jv.L(jv.I(0)), kind: "lowercase-scheme"},
		hdrCase{value: "Negotiate !!!not*base64", j: jv.L(jv.I(1)), kind: "bad-base64"},
		hdrCase{value: "Negotiate " + base64.StdEncoding.EncodeToString([]byte{1, 2, 3, 4, 5, 6, 7}), j: jv.L(jv.I(2)), kind: "undecodable"},
		hdrCase{value: "Negotiate " + base64.StdEncoding.EncodeToString([]byte{}), j: jv.L(jv.I(2)), kind: "empty-token"},
	)
	for i := 0; i < 20; i++ {
		b := make([]byte, 1+c.R.Intn(200))
		c.R.Read(b)
		if b[0] == 0x60 || b[0] == 0xa1 || b[0] == 0xa0 {
			b[0] = 0x04
		}
		cases = append(cases, hdrCase{value: "Negotiate " + base64.StdEncoding.EncodeToString(b), j: jv.L(jv.I(2)), kind: "random-bytes"})
	}
	mechLists := [][]int{{0}, {1, 0}, {1}, {2}, {2, 0}, {}}
	for _, et := range allEtypes {
		for _, ml := range mechLists {
			t := mkAPReqTok(et, nil)
			cases = append(cases, mkInit(ml, &t))
		}
		t := mkAPReqTok(et, nil)
		cases = append(cases, mkRaw(t))
		for _, m := range []int{0, 1, 2, -1} {
			t := mkAPReqTok(et, nil)
			cases = append(cases, mkResp(m, &t))
		}
		// catalogue defects inside each framing
		for di := range cat {
			if c.Quick() && (di+int(et))%3 != 0 {
				continue
			}
			t := mkAPReqTok(et, []int{di})
			switch di % 3 {
			case 0:
				cases = append(cases, mkInit([]int{0}, &t))
			case 1:
				cases = append(cases, mkRaw(t))
			default:
				cases = append(cases, mkResp(0, &t))
			}
		}
	}
	for _, ml := range mechLists {
		for _, t := range otherToks() {
			t := t
			cases = append(cases, mkInit(ml, &t))
		}
		cases = append(cases, mkInit(ml, nil))
	}
	for _, m := range []int{0, 1, 2, -1} {
		for _, t := range otherToks() {
			t := t
			cases = append(cases, mkResp(m, &t))
		}
		cases = append(cases, mkResp(m, nil))
	}
	for _, t := range otherToks()[:3] {
		cases = append(cases, mkRaw(t))
	}

	spn := spnego.SPNEGOService(s.kt, service.MaxClockSkew(skew), service.DecodePAC(false), service.ClientAddress(local))
	for _, hc := range cases {
		c.Count("header:" + strings.SplitN(hc.kind, ":", 2)[0])
		// (a) without a session manager
		status, chal, rec, _, p := do(hc, 0, nil, nil)
		c.Case("spnego_serve", jv.L(jv.L(jv.I(0)), hc.j), obsResp(status, chal, rec, p))
		inp := map[string]interface{}{"kind": hc.kind, "authorization": hc.value}
		expectServed := hc.tok != nil && hc.tok.valid && strings.HasPrefix(hc.kind, "init[0") || hc.tok != nil && hc.tok.valid && (strings.HasPrefix(hc.kind, "init[1") || strings.HasPrefix(hc.kind, "raw:") || strings.HasPrefix(hc.kind, "resp[0]") || strings.HasPrefix(hc.kind, "resp[1]"))
		c.Check(!p, "the wrapper never panics", "panic:"+hc.kind, "", inp)
		if rec.called {
			good := hc.tok != nil && hc.tok.valid && strings.HasPrefix(hc.tok.kind, "apreq") && rec.user == hc.tok.user && rec.domain == hc.tok.domain
			c.Check(good, "the wrapped handler ran only for a token carrying a valid AP-REQ, with that identity", "handler-ran:"+hc.kind, fmt.Sprintf("user=%q domain=%q", rec.user, rec.domain), inp)
			// the token that was just accepted, again: unchanged, and with unprotected bytes of the ticket's service name
			// rewritten (the case of one letter; the host part replaced by another of the same length)
			rawTok, _ := base64.StdEncoding.DecodeString(strings.TrimPrefix(hc.value, "Negotiate "))
			host := []byte(s.sname[len(s.sname)-1])
			for vi := 0; vi < 3 && len(rawTok) > 0; vi++ {
				b := append([]byte{}, rawTok...)
				if vi > 0 {
					i := bytes.Index(b, host)
					if i < 0 || len(host) < 2 {
						continue
					}
					if vi == 1 {
						b[i] = byte(unicode.ToUpper(rune(b[i])))
					} else {
						b[i], b[i+1] = 'x', 'y'
					}
				}
				hc2 := hc
				hc2.value = "Negotiate " + base64.StdEncoding.EncodeToString(b)
				st2, _, rec2, _, p2 := do(hc2, 0, nil, nil)
				c.Check(!p2 && !rec2.called && st2 == 401, "a token that was accepted does not reach the handler a second time, unchanged or with unprotected bytes rewritten", "replayed-token-served", fmt.Sprintf("variant %d status %d", vi, st2), inp)
				c.Count("replayed-token")
			}
		} else {
			c.Check(!expectServed, "a request carrying a valid AP-REQ in a KRB5 framing is served", "valid-refused:"+hc.kind, fmt.Sprint(status), inp)
			c.Check(status == 401 && chal >= 1 && chal <= 3, "refused with 401 and a WWW-Authenticate: Negotiate challenge", "refusal-shape:"+hc.kind, fmt.Sprintf("status=%d challenge=%d", status, chal), inp)
		}
	}
	// (b) the verification API on fresh copies of the token-bearing cases
	for _, hc := range cases {
		if hc.negJ == "" || hc.tok != nil && strings.HasPrefix(hc.tok.kind, "apreq") {
			continue // AP-REQ tokens were consumed by the replay cache above; re-minted below
		}
		var st spnego.SPNEGOToken
		if err := st.Unmarshal(hc.raw); err != nil {
			continue
		}
		var ok bool
		var status gssapi.Status
		p, _ := guard(func() { ok, _, status = spn.AcceptSecContext(&st) })
		o := jv.Panic()
		if !p {
			o = jv.Ok(jv.Bool(ok), jv.L(), jv.Bool(status.Code == gssapi.StatusComplete || status.Code == gssapi.StatusContinueNeeded))
		}
		c.Case("spnego_accept", hc.negJ, o)
		c.Check(!p && !ok, "AcceptSecContext does not report success for a token without an accepted AP-REQ", "api-accepts:"+hc.kind, fmt.Sprint(status), map[string]interface{}{"kind": hc.kind})
		c.Count("api:" + strings.SplitN(hc.kind, ":", 2)[0])
	}
	for _, et := range allEtypes {
		for _, defs := range [][]int{nil, {0}, {14}, {16}} {
			t := mkAPReqTok(et, defs)
			hc := mkInit([]int{0}, &t)
			var st spnego.SPNEGOToken
			if err := st.Unmarshal(hc.raw); err != nil {
				continue
			}
			var ok bool
			var status gssapi.Status
			p, _ := guard(func() { ok, _, status = spn.AcceptSecContext(&st) })
			id := jv.L()
			if ok {
				id = jv.L(jv.S(t.user), jv.S(t.domain))
			}
			o := jv.Panic()
			if !p {
				o = jv.Ok(jv.Bool(ok), id, jv.Bool(status.Code == gssapi.StatusComplete || status.Code == gssapi.StatusContinueNeeded))
			}
			c.Case("spnego_accept", hc.negJ, o)
			c.Check(!p && ok == t.valid, "AcceptSecContext succeeds exactly for valid AP-REQs", "api-verdict:"+t.kind, fmt.Sprint(status), nil)
		}
	}
	// KRB5Token.Verify on tokens that contain no AP-REQ
	for _, t := range otherToks()[:3] {
		var k spnego.KRB5Token
		if err := k.Unmarshal(t.bytes); err != nil {
			continue
		}
		var ok bool
		p, _ := guard(func() { ok, _ = k.Verify() })
		c.Check(!p && !ok, "KRB5Token.Verify does not report success for a token without an AP-REQ", "api-accepts:krb5token:"+t.kind, "", nil)
	}

	// (c) request sequences with a session manager
	for _, et := range allEtypes {
		mgr := &memSessions{store: map[string][]byte{}}
		t := mkAPReqTok(et, nil)
		hc := mkInit([]int{0}, &t)
		none := hdrCase{value: "", j: jv.L(jv.I(0)), kind: "no-header"}
		// 1: no header, no session -> 401
		st1, ch1, rec1, _, p1 := do(none, 1, nil, mgr)
		c.Case("spnego_serve", jv.L(jv.L(jv.I(1), jv.I(0)), none.j), obsResp(st1, ch1, rec1, p1))
		// 2: valid token -> served, session created
		st2, ch2, rec2, ck, p2 := do(hc, 1, nil, mgr)
		c.Case("spnego_serve", jv.L(jv.L(jv.I(1), jv.I(0)), hc.j), obsResp(st2, ch2, rec2, p2))
		c.Check(rec2.called && ck != nil, "a valid token is served and a session is established", "session-not-created", "", nil)
		// 3: no header, session cookie -> served under the session
		if ck != nil {
			st3, ch3, rec3, _, p3 := do(none, 1, ck, mgr)
			c.Case("spnego_serve", jv.L(jv.L(jv.I(2), jv.S(t.user), jv.S(t.domain), jv.I(1)), none.j), obsResp(st3, ch3, rec3, p3))
			c.Check(rec3.called && rec3.user == t.user && rec3.domain == t.domain, "a request of the established session is served with the accepted identity", "session-identity", fmt.Sprint(rec3.user, rec3.domain), nil)
			// 4: a forged cookie value -> not served
			st4, ch4, rec4, _, p4 := do(none, 1, &http.Cookie{Name: "sess", Value: "s999"}, mgr)
			c.Case("spnego_serve", jv.L(jv.L(jv.I(1), jv.I(0)), none.j), obsResp(st4, ch4, rec4, p4))
			c.Check(!rec4.called, "an unknown session is not served", "forged-session-served", "", nil)
		}
		// 5: failing session store -> 5xx, handler not called
		bad := &memSessions{store: map[string][]byte{}, failsNew: true}
		t5 := mkAPReqTok(et, nil)
		hc5 := mkInit([]int{0}, &t5)
		st5, ch5, rec5, _, p5 := do(hc5, 2, nil, bad)
		c.Case("spnego_serve", jv.L(jv.L(jv.I(1), jv.I(1)), hc5.j), obsResp(st5, ch5, rec5, p5))
		c.Check(!rec5.called && st5 >= 500, "a failing session store yields 5xx and the handler is not reached", "store-failure", fmt.Sprint(st5), nil)
		c.Count("sequence")
	}

	// (d) truncations and single-byte substitutions of valid tokens: never a panic; a change inside either
	// ciphertext must be refused
	nMut := 3
	if !c.Quick() {
		nMut = 6
	}
	for i := 0; i < nMut; i++ {
		et := allEtypes[i%len(allEtypes)]
		t := mkAPReqTok(et, nil)
		hc := mkInit([]int{0}, &t)
		off := strings.Index(string(hc.raw), string(t.bytes))
		step := 1
		if c.Quick() {
			step = 3
		}
		for cut := 0; cut < len(hc.raw); cut += step {
			m := hdrCase{value: "Negotiate " + base64.StdEncoding.EncodeToString(hc.raw[:cut]), kind: "truncated"}
			st, ch, rec, _, p := do(m, 0, nil, nil)
			c.Check(!p && !rec.called && st == 401 && ch >= 1, "a truncated token is refused with a challenge, no panic", "truncated", fmt.Sprintf("cut=%d status=%d", cut, st), map[string]interface{}{"token": hex.EncodeToString(hc.raw[:cut])})
			c.Count("mutation:truncate")
		}
		for pos := 0; pos < len(hc.raw); pos += step {
			mb := append([]byte{}, hc.raw...)
			mb[pos] ^= byte(1 << uint(c.R.Intn(8)))
			m := hdrCase{value: "Negotiate " + base64.StdEncoding.EncodeToString(mb), kind: "substituted"}
			st, ch, rec, _, p := do(m, 0, nil, nil)
			inCipher := false
			for _, cr := range t.cipherRanges {
				if off >= 0 && pos >= off+cr[0] && pos < off+cr[1] {
					inCipher = true
				}
			}
			shape := rec.called && st == 200 || !rec.called && st == 401 && ch >= 1
			c.Check(!p && shape && !(inCipher && rec.called), "a mutated token never panics, is served or refused with a challenge, and is refused when a ciphertext byte changed", "substituted", fmt.Sprintf("pos=%d status=%d called=%v inCipher=%v", pos, st, rec.called, inCipher), map[string]interface{}{"token": hex.EncodeToString(mb)})
			c.Count("mutation:substitute")
		}
	}

	// ---- one wrapper shared by concurrent requests: each request is verified against ITS OWN connection address.
	// The application's option list has spare capacity (a legal way to pass it), tickets are bound to host A, and
	// requests arrive concurrently from host A and from host B with tickets of host A.
	{
		hostA := types.HostAddress{AddrType: 2, Address: []byte{10, 0, 0, 1}}
		opts := make([]func(*service.Settings), 0, 8)
		opts = append(opts, service.MaxClockSkew(skew), service.DecodePAC(false))
		inner := http.HandlerFunc(func(w http.ResponseWriter, r *http.Request) { w.WriteHeader(200) })
		h := spnego.SPNEGOKRB5Authenticate(inner, s.kt, opts...)
		header := func() string {
			r := baseRecipe(c, s, 18)
			r.caddr = []types.HostAddress{hostA}
			m := mint(c, r)
			ab, err := m.req.Marshal()
			if err != nil {
				panic(err)
			}
			nt := spnego.NegTokenInit{MechTypes: []asn1.ObjectIdentifier{gssapi.OIDKRB5.OID()}, MechTokenBytes: krb5Mech([]byte{1, 0}, gssapi.OIDKRB5.OID(), ab)}
			st := spnego.SPNEGOToken{Init: true, NegTokenInit: nt}
			b, err := st.Marshal()
			if err != nil {
				panic(err)
			}
			return "Negotiate " + base64.StdEncoding.EncodeToString(b)
		}
		serve := func(remote, hdr string) int {
			req := httptest.NewRequest("GET", "http://host.test.gokrb5/", nil)
			req.RemoteAddr = remote
			req.Header.Set("Authorization", hdr)
			w := httptest.NewRecorder()
			if p, _ := guard(func() { h.ServeHTTP(w, req) }); p {
				return -1
			}
			return w.Code
		}
		// a deterministic interleaving: request X (other host, ticket of host A) is parked inside NewSettings by an
		// application-supplied option while request V (host A) is handled completely, then X continues
		{
			var park int32
			parked, release := make(chan struct{}), make(chan struct{})
			hook := func(*service.Settings) {
				if atomic.CompareAndSwapInt32(&park, 1, 0) {
					close(parked)
					<-release
				}
			}
			opts2 := make([]func(*service.Settings), 0, 8)
			opts2 = append(opts2, service.MaxClockSkew(skew), service.DecodePAC(false), hook)
			h2 := spnego.SPNEGOKRB5Authenticate(inner, s.kt, opts2...)
			serve2 := func(remote, hdr string) int {
				req := httptest.NewRequest("GET", "http://host.test.gokrb5/", nil)
				req.RemoteAddr = remote
				req.Header.Set("Authorization", hdr)
				w := httptest.NewRecorder()
				if p, _ := guard(func() { h2.ServeHTTP(w, req) }); p {
					return -1
				}
				return w.Code
			}
			hx, hv := header(), header()
			atomic.StoreInt32(&park, 1)
			xc := make(chan int, 1)
			go func() { xc <- serve2("10.0.0.66:40000", hx) }()
			select {
			case <-parked:
				cv := serve2("10.0.0.1:40000", hv)
				close(release)
				cx := <-xc
				c.Check(cv == 200, "a request from the host the ticket is bound to is served, whatever else the wrapper is serving", "shared-wrapper:own-host-refused", "parked interleaving", nil)
				c.Check(cx == 401, "a request from another host than the ticket's is refused, whatever else the wrapper is serving", "shared-wrapper:other-host-served", fmt.Sprintf("parked interleaving: status %d", cx), nil)
				c.Count("shared-wrapper:parked-interleaving")
			case <-time.After(5 * time.Second):
				close(release)
				c.Notes = append(c.Notes, "shared-wrapper: the option hook was not reached")
			}
		}
		// peers whose address the wrapper cannot parse (no port, unix socket, empty): a ticket bound to host A is refused
		for _, ra := range []string{"10.0.0.66", "10.0.0.1", "@", "", "not-an-address:x:y"} {
			c.Check(serve(ra, header()) == 401, "a ticket bound to a client address is refused when the peer's address is unknown", "addr-bound-ticket-served:"+ra, "", nil)
		}
		// sequentially first: A is served, B is refused
		c.Check(serve("10.0.0.1:40000", header()) == 200, "a request from the host the ticket is bound to is served", "shared-wrapper:own-host-refused", "", nil)
		c.Check(serve("10.0.0.66:40000", header()) == 401, "a request from another host than the ticket's is refused", "shared-wrapper:other-host-served", "sequential", nil)
		rounds := 120
		if !c.Quick() {
			rounds = 1500
		}
		wrongB, wrongA := 0, 0
		for i := 0; i < rounds; i++ {
			ha, hb := header(), header()
			var ca, cb int
			var wg sync.WaitGroup
			wg.Add(2)
			go func() { defer wg.Done(); ca = serve("10.0.0.1:40000", ha) }()
			go func() { defer wg.Done(); cb = serve("10.0.0.66:40000", hb) }()
			wg.Wait()
			if cb != 401 {
				wrongB++
			}
			if ca != 200 {
				wrongA++
			}
		}
		c.Check(wrongB == 0, "a request from another host than the ticket's is refused, whatever else the wrapper is serving", "shared-wrapper:other-host-served", fmt.Sprintf("%d of %d concurrent rounds", wrongB, rounds), nil)
		c.Check(wrongA == 0, "a request from the host the ticket is bound to is served, whatever else the wrapper is serving", "shared-wrapper:own-host-refused", fmt.Sprintf("%d of %d concurrent rounds", wrongA, rounds), nil)
		c.Count("shared-wrapper:rounds")
	}
}

// C03 = structure-mode stream followed by the wire-bytes stream (props/c03b)
func init() { props["C03"] = func(c *Ctx) { c03(c); c03b.Run(c) } }
