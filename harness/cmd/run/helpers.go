package main

// Direct oracles for the small shared helpers in package types that every
// decision path goes through (names, salts, SPN parsing, host addresses). The
// expected values are computed here from the documented meaning, not from the
// library.

import (
	"bytes"
	"fmt"

	"github.com/jcmturner/gokrb5/v8/types"
)

func checkSharedHelpers(c *Ctx) {
	names := [][]string{{}, {""}, {"a"}, {"a", "b"}, {"a/b"}, {"a", "", "c"}, {"krbtgt", "TEST.GOKRB5"}, {"HTTP", "host.test.gokrb5"}, {"testuser1"}, {"x", "y", "z", "w"}}
	realms := []string{"", "TEST.GOKRB5", "a", "R/S"}
	for i, n := range names {
		pn := types.PrincipalName{NameType: int32(i % 4), NameString: n}
		wantJoin := ""
		for k, s := range n {
			if k > 0 {
				wantJoin += "/"
			}
			wantJoin += s
		}
		var got string
		p, _ := guard(func() { got = pn.PrincipalNameString() })
		c.Check(!p && got == wantJoin, "PrincipalNameString joins the components with '/'", "helper-principal-string", fmt.Sprintf("%q: got %q want %q", n, got, wantJoin), map[string]interface{}{"i": i})
		for _, r := range realms {
			want := r
			for _, s := range n {
				want += s
			}
			var salt string
			p, _ := guard(func() { salt = pn.GetSalt(r) })
			c.Check(!p && salt == want, "GetSalt is the realm followed by the name components with no separator (RFC 4120 4)", "helper-salt", fmt.Sprintf("%q realm %q: got %q want %q", n, r, salt, want), map[string]interface{}{"i": i})
		}
	}
	type spnCase struct {
		in    string
		name  []string
		realm string
	}
	for i, sc := range []spnCase{
		{"HTTP/host.test.gokrb5", []string{"HTTP", "host.test.gokrb5"}, ""},
		{"HTTP/host.test.gokrb5@TEST.GOKRB5", []string{"HTTP", "host.test.gokrb5"}, "TEST.GOKRB5"},
		{"testuser1@TEST.GOKRB5", []string{"testuser1"}, "TEST.GOKRB5"},
		{"testuser1", []string{"testuser1"}, ""},
		{"a/b/c@R", []string{"a", "b", "c"}, "R"},
		{"krbtgt/TEST.GOKRB5@TEST.GOKRB5", []string{"krbtgt", "TEST.GOKRB5"}, "TEST.GOKRB5"},
		{"host/R@R", []string{"host", "R"}, "R"},
	} {
		var pn types.PrincipalName
		var realm string
		p, _ := guard(func() { pn, realm = types.ParseSPNString(sc.in) })
		ok := !p && realm == sc.realm && len(pn.NameString) == len(sc.name) && pn.NameType == 1
		if ok {
			for k := range sc.name {
				ok = ok && pn.NameString[k] == sc.name[k]
			}
		}
		c.Check(ok, "ParseSPNString splits <service>/<name>@<realm>, name type KRB_NT_PRINCIPAL", "helper-parse-spn", fmt.Sprintf("%q: got %q realm %q type %d", sc.in, pn.NameString, realm, pn.NameType), map[string]interface{}{"i": i})
		var np types.PrincipalName
		p2, _ := guard(func() { np = types.NewPrincipalName(2, joinSlash(sc.name)) })
		ok2 := !p2 && np.NameType == 2 && len(np.NameString) == len(sc.name)
		if ok2 {
			for k := range sc.name {
				ok2 = ok2 && np.NameString[k] == sc.name[k]
			}
		}
		c.Check(ok2, "NewPrincipalName splits on '/' and keeps the name type", "helper-new-principal", fmt.Sprintf("%q: got %q type %d", sc.name, np.NameString, np.NameType), map[string]interface{}{"i": i})
	}

	addrs := []types.HostAddress{
		{AddrType: 2, Address: []byte{10, 0, 0, 1}}, {AddrType: 2, Address: []byte{10, 0, 0, 2}}, {AddrType: 24, Address: []byte{10, 0, 0, 1}},
		{AddrType: 2, Address: []byte{10, 0, 0}}, {AddrType: 2, Address: []byte{}}, {AddrType: 2, Address: nil}, {AddrType: 20, Address: []byte("HOST            ")},
		{AddrType: 24, Address: bytes.Repeat([]byte{0}, 15)}, {AddrType: 24, Address: bytes.Repeat([]byte{0}, 16)},
	}
	same := func(a, b types.HostAddress) bool {
		return a.AddrType == b.AddrType && bytes.Equal(a.Address, b.Address)
	}
	for i := range addrs {
		for j := range addrs {
			a, b := addrs[i], addrs[j]
			var got bool
			p, _ := guard(func() { got = a.Equal(b) })
			c.Check(!p && got == same(a, b), "HostAddress.Equal: same address type and same bytes", "helper-hostaddr-equal", fmt.Sprintf("%v vs %v: got %v", a, b, got), map[string]interface{}{"i": i, "j": j})
		}
	}
	// every subset pair of the first four addresses
	for m := 0; m < 16; m++ {
		var h []types.HostAddress
		for k := 0; k < 4; k++ {
			if m&(1<<k) != 0 {
				h = append(h, addrs[k])
			}
		}
		for k := 0; k < 5; k++ {
			want := false
			for _, e := range h {
				want = want || same(e, addrs[k])
			}
			var g1, g2 bool
			hh := types.HostAddresses(h)
			p, _ := guard(func() { g1 = types.HostAddressesContains(h, addrs[k]); g2 = hh.Contains(addrs[k]) })
			c.Check(!p && g1 == want && g2 == want, "HostAddressesContains / HostAddresses.Contains: membership by type and bytes", "helper-hostaddr-contains", fmt.Sprintf("set %04b addr %d: got %v/%v want %v", m, k, g1, g2, want), map[string]interface{}{"m": m, "k": k})
		}
		for m2 := 0; m2 < 16; m2++ {
			var a []types.HostAddress
			for k := 3; k >= 0; k-- { // other order: order is not significant
				if m2&(1<<k) != 0 {
					a = append(a, addrs[k])
				}
			}
			want := m == m2
			var g1, g2 bool
			hh := types.HostAddresses(h)
			p, _ := guard(func() { g1 = types.HostAddressesEqual(h, a); g2 = hh.Equal(a) })
			c.Check(!p && g1 == want && g2 == want, "HostAddressesEqual / HostAddresses.Equal on duplicate-free lists: same set of addresses, order not significant", "helper-hostaddrs-equal", fmt.Sprintf("set %04b vs %04b: got %v/%v want %v", m, m2, g1, g2, want), map[string]interface{}{"m": m, "m2": m2})
		}
	}
	type gh struct {
		in    string
		ok    bool
		atype int32
		addr  []byte
	}
	v6 := make([]byte, 16)
	v6[15] = 1
	v6b := []byte{0x20, 0x01, 0x0d, 0xb8, 0, 0, 0, 0, 0, 0, 0, 0, 0, 0, 0, 0x10}
	for i, g := range []gh{
		{"10.80.88.88:88", true, 2, []byte{10, 80, 88, 88}},
		{"192.168.1.200:50000", true, 2, []byte{192, 168, 1, 200}},
		{"[::1]:88", true, 24, v6},
		{"[2001:db8::10]:443", true, 24, v6b},
		{"10.80.88.88", false, 0, nil},
		{"", false, 0, nil},
		{"not-an-ip:88", false, 0, nil},
	} {
		var h types.HostAddress
		var err error
		p, _ := guard(func() { h, err = types.GetHostAddress(g.in) })
		ok := !p && (err == nil) == g.ok
		if ok && g.ok {
			ok = h.AddrType == g.atype && bytes.Equal(h.Address, g.addr)
		}
		c.Check(ok, "GetHostAddress: <ip>:<port> gives IPv4 (2, 4 bytes) or IPv6 (24, 16 bytes); anything else is an error", "helper-get-hostaddr", fmt.Sprintf("%q: got type %d addr %v err %v panic %v", g.in, h.AddrType, []byte(h.Address), err, p), map[string]interface{}{"i": i})
	}
	c.Count("shared-helper-oracles")
}
