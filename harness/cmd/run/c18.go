package main

import (
	"bytes"
	"context"
	"crypto/sha256"
	"encoding/base64"
	"fmt"
	"github.com/jcmturner/gokrb5/v8/keytab"
	"io"
	"net"
	"net/http"
	"net/http/httptest"
	"net/url"
	"strings"
	"sync"
	"time"
	"verif/harness/internal/kdc"

	"github.com/jcmturner/gokrb5/v8/client"
	"github.com/jcmturner/gokrb5/v8/config"
	"github.com/jcmturner/gokrb5/v8/credentials"
	"github.com/jcmturner/gokrb5/v8/crypto"
	"github.com/jcmturner/gokrb5/v8/service"
	"github.com/jcmturner/gokrb5/v8/spnego"
	"github.com/jcmturner/gokrb5/v8/types"
	"verif/harness/internal/jv"
)

// a client whose ticket cache holds tickets minted by the harness (no KDC involved)
type offlineClient struct {
	cl      *client.Client
	tickets map[string]minted // spn -> what was sealed
}

func newOfflineClient(c *Ctx, svcs map[string]*testService, et int32) (*offlineClient, error) {
	var cc credentials.CCache
	cc.Version = 4
	cc.DefaultPrincipal.Realm = "TEST.GOKRB5"
	cc.DefaultPrincipal.PrincipalName = types.PrincipalName{NameType: 1, NameString: []string{"testuser1"}}
	oc := &offlineClient{tickets: map[string]minted{}}
	add := func(s *testService, sname []string) error {
		r := baseRecipe(c, s, et)
		r.tktSName = sname
		r.crealm, r.authCRealm = "TEST.GOKRB5", "TEST.GOKRB5" // the client of this ccache
		m := mint(c, r)
		tb, err := m.req.Ticket.Marshal()
		if err != nil {
			return err
		}
		cr := new(credentials.Credential)
		cr.Client.Realm = "TEST.GOKRB5"
		cr.Client.PrincipalName = cc.DefaultPrincipal.PrincipalName
		cr.Server.Realm = s.realm
		cr.Server.PrincipalName = types.PrincipalName{NameType: 2, NameString: sname}
		cr.Key = m.sessionKey
		cr.AuthTime = r.now.Add(-2 * time.Hour)
		cr.StartTime = r.start
		cr.EndTime = r.end
		cr.RenewTill = r.end
		cr.Ticket = tb
		cc.Credentials = append(cc.Credentials, cr)
		oc.tickets[joinSlash(sname)] = m
		return nil
	}
	// a TGT (never used: every needed service ticket is in the cache)
	tgs := newTestServiceCached(c, []string{"krbtgt", "TEST.GOKRB5"})
	if err := add(tgs, tgs.sname); err != nil {
		return nil, err
	}
	for _, s := range svcs {
		if err := add(s, s.sname); err != nil {
			return nil, err
		}
	}
	cfg := config.New()
	cfg.LibDefaults.DefaultRealm = "TEST.GOKRB5"
	cfg.LibDefaults.DNSLookupKDC = false
	cfg.Realms = []config.Realm{{Realm: "TEST.GOKRB5", KDC: []string{"127.0.0.1:1"}}}
	cl, err := client.NewFromCCache(&cc, cfg)
	if err != nil {
		return nil, err
	}
	oc.cl = cl
	return oc, nil
}

var svcCache = map[string]*testService{}

func newTestServiceCached(c *Ctx, sname []string) *testService {
	k := joinSlash(sname)
	if s, ok := svcCache[k]; ok {
		return s
	}
	s := newTestService(c, sname)
	svcCache[k] = s
	return s
}

type recvReq struct {
	auth   string
	body   []byte
	method string
	host   string
}

// scripted server: response i to the i-th request (prefix then constant tail)
type scriptServer struct {
	mu      sync.Mutex
	prefix  []int
	tail    int
	n       int
	reqs    []recvReq
	srvA    *httptest.Server
	srvB    *httptest.Server
	readAll bool
}

// response alphabet: 0 200, 1 401 bare Negotiate, 2 401 Negotiate+reject token, 3 401 other scheme,
// 4 302 same host, 5 302 other host, 6 500
func (s *scriptServer) handler(which int) http.Handler {
	return http.HandlerFunc(func(w http.ResponseWriter, r *http.Request) {
		var body []byte
		if s.readAll {
			body, _ = io.ReadAll(r.Body)
		}
		s.mu.Lock()
		i := s.n
		s.n++
		code := s.tail
		if i < len(s.prefix) {
			code = s.prefix[i]
		}
		s.reqs = append(s.reqs, recvReq{auth: r.Header.Get("Authorization"), body: body, method: r.Method, host: r.Host})
		s.mu.Unlock()
		// every answer has its own body, so that the caller can be shown to receive the LAST one, readable
		answer := []byte(fmt.Sprintf("answer %d of kind %d", i, code))
		switch code {
		case 0:
			w.WriteHeader(200)
			w.Write(answer)
		case 1:
			w.Header().Set("WWW-Authenticate", "Negotiate")
			w.WriteHeader(401)
			w.Write(answer)
		case 2:
			w.Header().Set("WWW-Authenticate", "Negotiate oQcwBaADCgEC")
			w.WriteHeader(401)
			w.Write(answer)
		case 3:
			w.Header().Set("WWW-Authenticate", "Basic realm=\"x\"")
			w.WriteHeader(401)
			w.Write(answer)
		case 4, 5:
			target := s.srvA.URL
			if code == 5 && which == 0 || code == 4 && which == 1 {
				target = s.srvB.URL
			}
			w.Header().Set("Location", fmt.Sprintf("%s/r%d", target, i))
			w.WriteHeader(302)
		case 6:
			w.WriteHeader(500)
			w.Write(answer)
		}
	})
}

func modelResp(code int) int64 {
	switch code {
	case 0:
		return 0
	case 1:
		return 1
	case 2:
		return 2
	case 3:
		return 3
	case 4, 5:
		return 4
	}
	return 5
}

func c18(c *Ctx) {
	svcHost := newTestServiceCached(c, []string{"HTTP", "host.test.gokrb5"})
	svcIP := newTestServiceCached(c, []string{"HTTP", "127.0.0.1"})
	svcs := map[string]*testService{"a": svcHost, "b": svcIP}
	skew := 5 * time.Minute
	local := types.HostAddress{AddrType: 2, Address: []byte{127, 0, 0, 1}}

	type scenario struct {
		prefix  []int
		tail    int
		method  string
		bodyLen int
		spn     string // "" = derived from the URL
		rooted  bool   // URL-derived, and the URL names the first server as  host.test.gokrb5.:<port>  (rooted name with a port)
		et      int32
		readAll bool
	}
	var scs []scenario
	// every script of length <= 2 (quick) / <= 3 + sampled longer ones
	maxLen := 2
	if !c.Quick() {
		maxLen = 3
	}
	var rec func(p []int)
	rec = func(p []int) {
		for tail := 0; tail < 7; tail++ {
			scs = append(scs, scenario{prefix: append([]int{}, p...), tail: tail})
		}
		if len(p) == maxLen {
			return
		}
		for _, x := range []int{1, 4, 5} { // only these continue the exchange; others end it at once
			rec(append(append([]int{}, p...), x))
		}
	}
	rec(nil)
	nLong := 60
	if !c.Quick() {
		nLong = 600
	}
	for i := 0; i < nLong; i++ {
		n := 3 + c.R.Intn(3)
		p := make([]int, n)
		for j := range p {
			p[j] = []int{1, 1, 4, 5, 1, 4, 0, 2, 3, 6}[c.R.Intn(10)]
		}
		scs = append(scs, scenario{prefix: p, tail: c.R.Intn(7)})
	}
	methods := []string{"GET", "HEAD", "POST"}
	bodyLens := []int{0, 1, 4096, 1 << 20}
	for i := range scs {
		scs[i].method = methods[i%3]
		if scs[i].method == "POST" {
			scs[i].bodyLen = bodyLens[(i/3)%4]
			if c.Quick() && scs[i].bodyLen == 1<<20 && i%9 != 2 {
				scs[i].bodyLen = 4096
			}
		}
		if i%4 == 0 {
			scs[i].spn = ""
			scs[i].rooted = i%8 == 4
		} else {
			scs[i].spn = "HTTP/host.test.gokrb5"
		}
		scs[i].et = allEtypes[i%len(allEtypes)]
		scs[i].readAll = i%5 != 1
	}
	clients := map[int32]*offlineClient{}
	for _, et := range allEtypes {
		oc, err := newOfflineClient(c, svcs, et)
		if err != nil {
			c.Notes = append(c.Notes, "offline client: "+err.Error())
			c.Check(false, "a client is built from a well-formed credential cache holding a TGT and service tickets", "setup:offline-client", err.Error(), map[string]interface{}{"etype": et})
			return
		}
		clients[et] = oc
	}
	for si, sc := range scs {
		ss := &scriptServer{prefix: sc.prefix, tail: sc.tail, readAll: sc.readAll}
		ss.srvA = httptest.NewServer(ss.handler(0))
		ss.srvB = httptest.NewServer(ss.handler(1))
		oc := clients[sc.et]
		hcl := &http.Client{Timeout: 20 * time.Second}
		startURL := ss.srvA.URL + "/start"
		if sc.rooted {
			// the first server is reached under its rooted DNS name with an explicit port (no resolver here: the dialer
			// knows the address, the CNAME look-up fails): the SPN derived is HTTP/host.test.gokrb5, without the dot
			addrA := strings.TrimPrefix(ss.srvA.URL, "http://")
			_, portA, _ := net.SplitHostPort(addrA)
			startURL = "http://host.test.gokrb5.:" + portA + "/start"
			hcl.Transport = &http.Transport{DialContext: func(ctx context.Context, network, addr string) (net.Conn, error) {
				if strings.HasPrefix(addr, "host.test.gokrb5") {
					addr = addrA
				}
				var d net.Dialer
				return d.DialContext(ctx, network, addr)
			}}
			c.Count("spn:url-derived-rooted-host-with-port")
		}
		hc := spnego.NewClient(oc.cl, hcl, sc.spn)
		var body []byte
		var rdr io.Reader
		if sc.bodyLen > 0 {
			body = make([]byte, sc.bodyLen)
			c.R.Read(body)
			rdr = bytes.NewReader(body)
			if si%2 == 1 {
				// a body of unknown length (a pipe, a file, a multipart writer): net/http cannot see through the
				// wrapper, leaves ContentLength at 0 and sends the body chunked
				rdr = struct{ io.Reader }{bytes.NewReader(body)}
				c.Count("body:unknown-length")
			}
		}
		req, _ := http.NewRequest(sc.method, startURL, rdr)
		var resp *http.Response
		var err error
		done := make(chan struct{})
		var p bool
		go func() {
			p, _ = guard(func() {
				// every fourth script goes through the convenience wrappers (the same exchange by another door)
				switch {
				case si%4 == 3 && sc.method == "GET":
					resp, err = hc.Get(startURL)
					c.Count("via:Get")
				case si%4 == 3 && sc.method == "HEAD":
					resp, err = hc.Head(startURL)
					c.Count("via:Head")
				case si%4 == 3 && sc.method == "POST" && rdr != nil:
					resp, err = hc.Post(startURL, "application/octet-stream", rdr)
					c.Count("via:Post")
				default:
					resp, err = hc.Do(req)
				}
			})
			close(done)
		}()
		timedOut := false
		select {
		case <-done:
		case <-time.After(25 * time.Second):
			timedOut = true
		}
		ss.srvA.CloseClientConnections()
		ss.srvB.CloseClientConnections()
		ss.srvA.Close()
		ss.srvB.Close()
		ss.mu.Lock()
		reqs := append([]recvReq{}, ss.reqs...)
		ss.mu.Unlock()
		c.Count(fmt.Sprintf("prefix-len=%d", len(sc.prefix)))
		c.Count("method=" + sc.method)
		c.Count(fmt.Sprintf("body=%d", sc.bodyLen))
		inp := map[string]interface{}{"prefix": fmt.Sprint(sc.prefix), "tail": sc.tail, "method": sc.method, "body": sc.bodyLen, "spn": sc.spn, "etype": sc.et}
		c.Check(!timedOut && !p && len(reqs) <= 22, "Client.Do returns after a bounded number of requests", "unbounded", fmt.Sprintf("requests=%d timedOut=%v panic=%v", len(reqs), timedOut, p), inp)
		if timedOut || p {
			continue
		}
		// model comparison: final outcome and which requests carried a token
		var jp []jv.V
		for _, x := range sc.prefix {
			jp = append(jp, jv.I(modelResp(x)))
		}
		var flags []jv.V
		for _, r := range reqs {
			flags = append(flags, jv.Bool(strings.HasPrefix(r.auth, "Negotiate ")))
		}
		var obs jv.V
		switch {
		case err != nil && strings.Contains(err.Error(), "stopped after 10 redirects"):
			obs = jv.Ok(jv.I(1), jv.I(0), jv.L(flags...))
		case err != nil && !sc.readAll && strings.Contains(err.Error(), "ContentLength="):
			continue // known finding, outside the model (transport behaviour)
		case err != nil:
			obs = jv.L(jv.I(-1), jv.S(err.Error()))
		default:
			final := int64(5)
			switch {
			case resp.StatusCode == 200:
				final = 0
			case resp.StatusCode == 401 && resp.Header.Get("WWW-Authenticate") == "Negotiate":
				final = 1
			case resp.StatusCode == 401 && strings.HasPrefix(resp.Header.Get("WWW-Authenticate"), "Negotiate "):
				final = 2
			case resp.StatusCode == 401:
				final = 3
			case resp.StatusCode == 302:
				final = 4
			}
			obs = jv.Ok(jv.I(0), jv.I(final), jv.L(flags...))
			// the response handed back is the server's last answer and its body can still be read
			rb, rerr := io.ReadAll(resp.Body)
			resp.Body.Close()
			if resp.StatusCode != 302 && len(reqs) > 0 {
				last := len(reqs) - 1
				lc := sc.tail
				if last < len(sc.prefix) {
					lc = sc.prefix[last]
				}
				want := fmt.Sprintf("answer %d of kind %d", last, lc)
				if sc.method == "HEAD" {
					want = ""
				}
				c.Check(rerr == nil && string(rb) == want, "the caller receives the server's final response with its body", "final-response-body", fmt.Sprintf("read error %v, body %q, want %q", rerr, rb, want), inp)
			}
		}
		c.Case("http_do", jv.L(jv.L(jp...), jv.I(modelResp(sc.tail)), jv.I(0)), obs)
		if err != nil && !sc.readAll && strings.Contains(err.Error(), "ContentLength=") {
			// the server challenged before consuming the body: only the part already written was captured for the retry
			c.Check(false, "the request body is resent intact", "early-challenge-large-body", err.Error(), inp)
		} else {
			c.Check(err == nil || strings.Contains(err.Error(), "stopped after 10 redirects"), "the call ends with the server's final response or the redirect-limit error", "unexpected-error", fmt.Sprint(err), inp)
		}
		// every token sent is acceptable to an independent acceptor holding the service key, for the intended SPN
		spnName := "HTTP/host.test.gokrb5"
		svc := svcHost
		if sc.spn == "" {
			spnName = "HTTP/127.0.0.1"
			svc = svcIP
		}
		for ri, r := range reqs {
			if sc.readAll && sc.bodyLen > 0 && sc.method == "POST" && r.method == "POST" {
				same := bytes.Equal(r.body, body)
				c.Check(same, "the request body is resent intact", "body-altered", fmt.Sprintf("request %d: got %d bytes sha %x, want %d", ri, len(r.body), sha256.Sum256(r.body), len(body)), inp)
			}
			if !strings.HasPrefix(r.auth, "Negotiate ") {
				continue
			}
			tb, derr := base64.StdEncoding.DecodeString(r.auth[len("Negotiate "):])
			var st spnego.SPNEGOToken
			if derr == nil {
				derr = st.Unmarshal(tb)
			}
			if derr != nil {
				c.Check(false, "the Authorization value is a base64 SPNEGO token", "token-undecodable", derr.Error(), inp)
				continue
			}
			// model acceptor (sealed-content mode): ticket as transmitted, sealed fields as minted; the
			// authenticator's fields are read with the session key
			var k5 spnego.KRB5Token
			if err := k5.Unmarshal(st.NegTokenInit.MechTokenBytes); err != nil || !k5.IsAPReq() {
				c.Check(false, "the mechanism token is a KRB5 AP-REQ", "token-not-apreq", fmt.Sprint(err), inp)
				continue
			}
			if sc.rooted {
				// per request: the first server goes by its name, the other one by its address
				if strings.HasPrefix(r.host, "host.test.gokrb5") {
					spnName, svc = "HTTP/host.test.gokrb5", svcHost
				} else {
					spnName, svc = "HTTP/127.0.0.1", svcIP
				}
			}
			m := oc.tickets[spnName]
			ar := k5.APReq
			t0 := time.Now().UTC()
			ab, derr2 := crypto.DecryptEncPart(ar.EncryptedAuthenticator, m.sessionKey, 11)
			var au types.Authenticator
			if derr2 == nil {
				derr2 = au.Unmarshal(ab)
			}
			if derr2 != nil {
				c.Check(false, "the authenticator decrypts under the ticket's session key with usage 11", "authenticator-undecryptable", derr2.Error(), inp)
				continue
			}
			// an independent acceptor reads DER only: KerberosTime is YYYYMMDDHHMMSSZ (RFC 4120 5.2.3), lengths are minimal
			sok, swhy := kdc.StrictDER(ab)
			c.Check(sok, "the authenticator is DER as RFC 4120 requires (an independent acceptor can read it)", "authenticator-not-der", swhy, inp)
			sok, swhy = kdc.StrictDER(st.NegTokenInit.MechTokenBytes[len(st.NegTokenInit.MechTokenBytes)-apreqLen(st.NegTokenInit.MechTokenBytes):])
			c.Check(sok, "the AP-REQ is DER as RFC 4120 requires", "apreq-not-der", swhy, inp)
			jst := jv.L(jv.I(int64(skew/time.Microsecond)), jv.Bool(false), jAddr(local), jv.L())
			jtk := jv.L(jv.S(ar.Ticket.Realm), jv.Strs(ar.Ticket.SName.NameString), jv.I(int64(ar.Ticket.EncPart.EType)), jv.I(int64(ar.Ticket.EncPart.KVNO)), jv.B(ar.Ticket.EncPart.Cipher))
			jau := jv.L(jv.S(au.CRealm), jv.Strs(au.CName.NameString), jv.I(au.CTime.Unix()), jv.I(int64(au.Cusec)))
			in := jv.L(jst, projKeytab(svc.kt, 2), jv.I(t0.UnixNano()/1000), jv.L(), jtk, m.jSealedTicket(),
				jv.L(jv.I(int64(ar.EncryptedAuthenticator.EType)), jv.B(ar.EncryptedAuthenticator.Cipher)), jau)
			c.Case("verify_apreq", in, jv.Ok(jv.S("testuser1"), jv.S("TEST.GOKRB5"), jv.Strs([]string{"testuser1"}), jv.I(m.r.end.Unix())))
			// Go's own acceptor as a second opinion, and the SPN the ticket names
			acc := spnego.SPNEGOService(svc.kt, service.MaxClockSkew(skew), service.DecodePAC(false), service.ClientAddress(local))
			var st2 spnego.SPNEGOToken
			st2.Unmarshal(tb)
			ok, _, status := acc.AcceptSecContext(&st2)
			c.Check(ok && joinSlash(ar.Ticket.SName.NameString) == spnName, "the token is accepted by the service for the intended SPN", "token-rejected", fmt.Sprintf("%v sname=%v", status, ar.Ticket.SName.NameString), inp)
			c.Count("token-checked")
		}
	}
	_ = url.Values{}
	c18KDCBacked(c)
}

// c18KDCBacked: a client that gets its tickets from a (simulated) KDC: the first call on an SPN runs a TGS exchange,
// later calls take ticket and session key from the client's cache - every token must be acceptable to a service that
// holds only its own key.
func c18KDCBacked(c *Ctx) {
	realm := "TEST.GOKRB5"
	for _, et := range []int32{18, 17, 23, 20} {
		k := kdc.New(realm)
		k.AddPrincipal([]string{"testuser1"}, "passwordvalue", 2)
		sp := k.AddPrincipal([]string{"HTTP", "host.test.gokrb5"}, "svcpw", 1)
		if err := k.Serve(); err != nil {
			c.Notes = append(c.Notes, "KDC listen (c18): "+err.Error())
			return
		}
		kt := keytab.New()
		if err := kt.Unmarshal(buildKeytab(c, realm, []string{"HTTP", "host.test.gokrb5"}, sp.Keys, 1)); err != nil {
			c.Notes = append(c.Notes, "keytab (c18): "+err.Error())
			k.Close()
			return
		}
		cfg := testConfig(realm, []string{k.Addr}, []int32{et})
		cl := client.NewWithPassword("testuser1", realm, "passwordvalue", cfg, client.DisablePAFXFAST(true))
		if err := cl.Login(); err != nil {
			c.Check(false, "login succeeds against a conformant KDC", "login-fails", err.Error(), map[string]interface{}{"etype": et})
			k.Close()
			continue
		}
		accepted, refused := 0, ""
		inner := http.HandlerFunc(func(w http.ResponseWriter, r *http.Request) { w.WriteHeader(200) })
		srv := httptest.NewServer(spnego.SPNEGOKRB5Authenticate(inner, kt, service.DecodePAC(false)))
		for call := 0; call < 3; call++ {
			hc := spnego.NewClient(cl, &http.Client{Timeout: 20 * time.Second}, "HTTP/host.test.gokrb5")
			req, _ := http.NewRequest("GET", srv.URL+"/", nil)
			var resp *http.Response
			var err error
			p, _ := guard(func() { resp, err = hc.Do(req) })
			if p || err != nil || resp == nil {
				refused = fmt.Sprintf("call %d: panic=%v err=%v", call, p, err)
				break
			}
			if resp.StatusCode == 200 {
				accepted++
			} else {
				refused = fmt.Sprintf("call %d: status %d %s", call, resp.StatusCode, resp.Header.Get("WWW-Authenticate"))
			}
			resp.Body.Close()
		}
		c.Check(accepted == 3, "every call authenticates: tokens built from the client's ticket cache are as acceptable as the first", "cached-ticket-token-refused", refused, map[string]interface{}{"etype": et})
		c.Count("kdc-backed-client")
		srv.Close()
		cl.Destroy()
		k.Close()
	}
}

// apreqLen returns the length of the AP-REQ ([APPLICATION 14]) at the end of a KRB5 mechanism token
func apreqLen(mt []byte) int {
	for i := 0; i+1 < len(mt); i++ {
		if mt[i] == 0x6e {
			if ok, _ := kdc.StrictDER(mt[i:]); ok {
				return len(mt) - i
			}
		}
	}
	return 0
}

func init() { props["C18"] = c18 }
