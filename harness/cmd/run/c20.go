package main

import (
	"bytes"
	"encoding/base64"
	"encoding/hex"
	"fmt"
	"log"
	"regexp"
	"strings"
	"time"

	"github.com/jcmturner/gokrb5/v8/client"
	"github.com/jcmturner/gokrb5/v8/credentials"
	"github.com/jcmturner/gokrb5/v8/crypto"
	"github.com/jcmturner/gokrb5/v8/keytab"
	"github.com/jcmturner/gokrb5/v8/messages"
	"github.com/jcmturner/gokrb5/v8/service"
	"github.com/jcmturner/gokrb5/v8/types"
	"verif/harness/internal/kdc"
)

// every way a secret could show up in text or bytes
func secretForms(s []byte) [][]byte {
	forms := [][]byte{s, []byte(hex.EncodeToString(s)), []byte(strings.ToUpper(hex.EncodeToString(s))),
		[]byte(base64.StdEncoding.EncodeToString(s)), []byte(base64.RawStdEncoding.EncodeToString(s)),
		[]byte(base64.URLEncoding.EncodeToString(s)), []byte(base64.RawURLEncoding.EncodeToString(s)),
		[]byte(fmt.Sprintf("%v", s)), []byte(fmt.Sprintf("%q", s))}
	// base64 of the secret at the two other alignments (when embedded in a longer encoded blob) loses edge
	// characters; search for the inner part
	for off := 1; off < 3; off++ {
		e := base64.StdEncoding.EncodeToString(append(make([]byte, off), s...))
		if len(e) > 12 {
			forms = append(forms, []byte(e[4:len(e)-4]))
		}
	}
	return forms
}

type surface struct {
	name string
	out  []byte
}

func leaks(out []byte, secret []byte) string {
	for i, f := range secretForms(secret) {
		if len(f) >= 8 && bytes.Contains(out, f) {
			return fmt.Sprintf("form %d", i)
		}
	}
	return ""
}

var uuidRe = regexp.MustCompile(`[0-9a-f]{8}-[0-9a-f]{4}-[0-9a-f]{4}-[0-9a-f]{4}-[0-9a-f]{12}`)

func c20(c *Ctx) {
	realm := "TEST.GOKRB5"
	rounds := 2
	if !c.Quick() {
		rounds = 6
	}
	for round := 0; round < rounds; round++ {
		for _, et := range allEtypes {
			klen := etypeKeyLen(et)
			mk := func() []byte { b := make([]byte, klen); c.R.Read(b); return b }
			// two independent marker secrets for the two runs of the noninterference comparison
			var runs [2][]surface
			var secrets [2][][]byte
			for run := 0; run < 2; run++ {
				keyMarker := mk()
				pwMarker := "pw-" + base64.RawStdEncoding.EncodeToString(mk())
				sessMarker := mk()
				secrets[run] = [][]byte{keyMarker, []byte(pwMarker), sessMarker}
				var out []surface
				add := func(name string, b []byte) { out = append(out, surface{name, b}) }
				addErr := func(name string, err error) {
					if err != nil {
						add(name, []byte(err.Error()))
						add(name+":%+v", []byte(fmt.Sprintf("%+v", err)))
					}
				}
				// ---- keytab surfaces ----
				items := []ktItem{{E: ktEntry{P: ktPrinc{Realm: realm, Comps: []string{"testuser1"}, NType: 1}, TS: 1600000000, KVNO8: 2, KType: int16(et), Key: keyMarker, Has32: true, KVNO32: 2}},
					{E: ktEntry{P: ktPrinc{Realm: realm, Comps: []string{"HTTP", "host.test.gokrb5"}, NType: 1}, TS: 1600000001, KVNO8: 1, KType: int16(et), Key: keyMarker, Has32: false}}}
				file := refWriteKeytab(2, items)
				kt := keytab.New()
				addErr("keytab.Unmarshal", kt.Unmarshal(file))
				js, err := kt.JSON()
				addErr("keytab.JSON:err", err)
				add("keytab.JSON", []byte(js))
				add("keytab.%v", []byte(fmt.Sprintf("%+v", kt.Entries[0].Principal)))
				for cut := 0; cut < len(file); cut++ {
					k2 := keytab.New()
					var e error
					guard(func() { e = k2.Unmarshal(file[:cut]) })
					if e != nil {
						add(fmt.Sprintf("keytab.Unmarshal(truncated@%d)", cut), []byte(e.Error()))
					}
				}
				for i := 0; i < 20; i++ {
					m := append([]byte{}, file...)
					m[2+c.R.Intn(8)] = byte(c.R.Intn(256))
					k2 := keytab.New()
					var e error
					guard(func() { e = k2.Unmarshal(m) })
					if e != nil {
						add("keytab.Unmarshal(corrupt-length)", []byte(e.Error()))
					}
				}
				_, _, gerr := kt.GetEncryptionKey(types.PrincipalName{NameString: []string{"nobody"}}, realm, 0, et)
				addErr("keytab.GetEncryptionKey:notfound", gerr)
				// look-ups that fail although the keytab holds a key for that very principal: another kvno, another
				// etype, another realm (what a peer presenting a ticket for a kvno the service does not have gets back)
				for li, q := range []struct {
					comps []string
					realm string
					kvno  int
					et    int32
				}{{[]string{"testuser1"}, realm, 9, et}, {[]string{"testuser1"}, realm, 0, et%23 + 1}, {[]string{"HTTP", "host.test.gokrb5"}, realm, 5, et},
					{[]string{"HTTP", "host.test.gokrb5"}, "OTHER.REALM", 0, et}, {[]string{"HTTP", "host.test.gokrb5"}, realm, 1, 3}} {
					var lerr error
					guard(func() {
						_, _, lerr = kt.GetEncryptionKey(types.PrincipalName{NameType: 1, NameString: q.comps}, q.realm, q.kvno, q.et)
					})
					addErr(fmt.Sprintf("keytab.GetEncryptionKey:miss-%d", li), lerr)
				}
				// ---- credentials surfaces ----
				cr := credentials.New("testuser1", realm).WithPassword(pwMarker)
				cj, _ := cr.JSON()
				add("credentials.JSON(password)", []byte(cj))
				gb, _ := cr.Marshal()
				add("credentials.Marshal(gob,password)", gb)
				cr2 := credentials.New("testuser1", realm).WithKeytab(kt)
				cj2, _ := cr2.JSON()
				add("credentials.JSON(keytab)", []byte(cj2))
				gb2, _ := cr2.Marshal()
				add("credentials.Marshal(gob,keytab)", gb2)
				add("credentials.%+v", []byte(fmt.Sprintf("%v", cr.UserName())))
				// ---- crypto error surfaces ----
				_, derr := crypto.DecryptMessage(make([]byte, 60), types.EncryptionKey{KeyType: et, KeyValue: keyMarker}, 2)
				addErr("crypto.DecryptMessage:garbage", derr)
				_, derr = crypto.DecryptMessage(make([]byte, 3), types.EncryptionKey{KeyType: et, KeyValue: keyMarker}, 2)
				addErr("crypto.DecryptMessage:short", derr)
				_, _, kerr := crypto.GetKeyFromPassword(pwMarker, types.PrincipalName{NameString: []string{"u"}}, realm, et, types.PADataSequence{{PADataType: 19, PADataValue: []byte{1, 2, 3}}})
				addErr("crypto.GetKeyFromPassword:bad-padata", kerr)
				_, _, kerr = crypto.GetKeyFromPassword(pwMarker, types.PrincipalName{NameString: []string{"u"}}, realm, 99, nil)
				addErr("crypto.GetKeyFromPassword:bad-etype", kerr)
				_, eerr := crypto.GetEncryptedData([]byte("x"), types.EncryptionKey{KeyType: et, KeyValue: keyMarker[:klen-1]}, 2, 1)
				addErr("crypto.GetEncryptedData:short-key", eerr)
				// ---- client surfaces against the simulated KDC; the session keys issued are markers ----
				k := kdc.New(realm)
				k.AddPrincipal([]string{"testuser1"}, pwMarker, 2)
				k.AddPrincipal([]string{"HTTP", "host.test.gokrb5"}, "svcpw", 1)
				k.RequirePreauth = round%2 == 0
				if err := k.Serve(); err == nil {
					var logb bytes.Buffer
					cfg := testConfig(realm, []string{k.Addr}, []int32{et})
					cl := client.NewWithPassword("testuser1", realm, pwMarker, cfg, client.DisablePAFXFAST(true), client.Logger(log.New(&logb, "", 0)))
					k.Tamper = func(kind string, rep *messages.KDCRepFields, enc *messages.EncKDCRepPart, key types.EncryptionKey, usage uint32) (types.EncryptionKey, uint32) {
						if kind == "TGS" {
							enc.Key = types.EncryptionKey{KeyType: et, KeyValue: sessMarker} // the service-ticket session key the client will cache
						}
						return key, usage
					}
					// HTTP Basic credentials handed to the Kerberos Basic authenticator: whatever goes wrong, the password
					// (here the marker, deliberately not the principal's real one half of the time) stays out of the error
					for fi, form := range []string{"testuser1", "testuser1@" + realm, "TEST\\testuser1", "testuser1@UNKNOWN.REALM", "@" + realm, "testuser1@"} {
						pw := pwMarker
						if fi%2 == 1 {
							pw = pwMarker + "x" // a wrong password that contains the marker
						}
						ba := service.NewKRB5BasicAuthenticator(base64.StdEncoding.EncodeToString([]byte(form+":"+pw)), cfg, service.NewSettings(keytab.New()), nil)
						var berr error
						guard(func() { _, _, berr = ba.Authenticate() })
						addErr(fmt.Sprintf("service.KRB5BasicAuthenticator.Authenticate(form %d)", fi), berr)
					}
					addErr("client.Login", cl.Login())
					_, _, terr := cl.GetServiceTicket("HTTP/host.test.gokrb5")
					addErr("client.GetServiceTicket", terr)
					_, _, terr = cl.GetServiceTicket("HTTP/unknown.test.gokrb5")
					addErr("client.GetServiceTicket:unknown", terr)
					var pb bytes.Buffer
					cl.Print(&pb)
					add("client.Print", pb.Bytes())
					var db bytes.Buffer
					addErr("client.Diagnostics:err", cl.Diagnostics(&db))
					add("client.Diagnostics", db.Bytes())
					// a failing login: wrong password marker on the client side
					cl2 := client.NewWithPassword("testuser1", realm, pwMarker+"x", cfg, client.DisablePAFXFAST(true), client.Logger(log.New(&logb, "", 0)))
					k.RequirePreauth = true
					addErr("client.Login:wrong-password", cl2.Login())
					cl2.Destroy()
					// replies the client refuses AFTER it has the reply in hand (validation errors format what they compare):
					// a canonicalised client name, another realm, a wrong nonce, a wrong server name
					for ti, tf := range []func(rep *messages.KDCRepFields, enc *messages.EncKDCRepPart){
						func(rep *messages.KDCRepFields, enc *messages.EncKDCRepPart) {
							rep.CName = types.PrincipalName{NameType: 1, NameString: []string{"Test.User1"}}
						},
						func(rep *messages.KDCRepFields, enc *messages.EncKDCRepPart) { rep.CRealm = "OTHER.REALM" },
						func(rep *messages.KDCRepFields, enc *messages.EncKDCRepPart) { enc.Nonce++ },
						func(rep *messages.KDCRepFields, enc *messages.EncKDCRepPart) {
							enc.SName = types.PrincipalName{NameType: 2, NameString: []string{"krbtgt", "OTHER.REALM"}}
						},
					} {
						tf := tf
						k.Tamper = func(kind string, rep *messages.KDCRepFields, enc *messages.EncKDCRepPart, key types.EncryptionKey, usage uint32) (types.EncryptionKey, uint32) {
							if kind == "AS" {
								tf(rep, enc)
							}
							return key, usage
						}
						cl3 := client.NewWithPassword("testuser1", realm, pwMarker, cfg, client.DisablePAFXFAST(true), client.Logger(log.New(&logb, "", 0)))
						var lerr error
						guard(func() { lerr = cl3.Login() })
						addErr(fmt.Sprintf("client.Login:reply-refused-%d", ti), lerr)
						guard(func() { lerr = cl3.AffirmLogin() })
						addErr(fmt.Sprintf("client.AffirmLogin:reply-refused-%d", ti), lerr)
						cl3.Destroy()
					}
					k.Tamper = nil
					cl.Destroy()
					add("client.Logger", logb.Bytes())
					k.Close()
				}
				// ---- wire encodings after decryption ----
				svc := newTestServiceCached(c, []string{"HTTP", "host.test.gokrb5"})
				r := baseRecipe(c, svc, et)
				m := mintWithSession(c, r, sessMarker)
				tkt := m.req.Ticket
				before, _ := tkt.Marshal()
				if err := tkt.Decrypt(svc.keys[et]); err == nil {
					after, _ := tkt.Marshal()
					add("Ticket.Marshal(after Decrypt)", after)
					c.Check(bytes.Equal(before, after), "a ticket re-encodes to the same bytes after it was decrypted", "ticket-marshal-after-decrypt", fmt.Sprintf("%d -> %d bytes", len(before), len(after)), map[string]interface{}{"etype": et})
					// the decrypted ticket reused inside other messages: additional ticket of a KDC-REQ-BODY / TGS-REQ
					// (user-to-user, evidence ticket), ticket of a fresh AP-REQ
					body := messages.KDCReqBody{KDCOptions: types.NewKrbFlags(), Realm: realm, SName: types.PrincipalName{NameType: 2, NameString: []string{"HTTP", "host.test.gokrb5"}},
						Till: time.Now().UTC().Add(time.Hour).Truncate(time.Second), Nonce: 12345, EType: []int32{et}, AdditionalTickets: []messages.Ticket{tkt}}
					if bb, err := body.Marshal(); err == nil {
						add("KDCReqBody.Marshal(additional ticket after Decrypt)", bb)
						c.Check(bytes.Contains(bb, before), "a decrypted ticket used as an additional ticket goes out as the bytes received", "additional-ticket-after-decrypt", fmt.Sprintf("%d bytes", len(bb)), map[string]interface{}{"etype": et})
					}
					tr := messages.TGSReq{KDCReqFields: messages.KDCReqFields{PVNO: 5, MsgType: 12, ReqBody: body}}
					if tb, err := tr.Marshal(); err == nil {
						add("TGSReq.Marshal(additional ticket after Decrypt)", tb)
					}
				}
				req := m.req
				st := service.NewSettings(svc.kt, service.MaxClockSkew(5*time.Minute), service.DecodePAC(false))
				var slog bytes.Buffer
				service.Logger(log.New(&slog, "", 0))(st)
				_, _, verr := service.VerifyAPREQ(&req, st)
				addErr("service.VerifyAPREQ", verr)
				ab, _ := req.Marshal()
				add("APReq.Marshal(after Verify)", ab)
				add("service.Logger", slog.Bytes())
				// rejected AP-REQ: error text
				r2 := baseRecipe(c, svc, et)
				r2.authCName = []string{"other"}
				m2 := mintWithSession(c, r2, sessMarker)
				req2 := m2.req
				_, _, verr = service.VerifyAPREQ(&req2, st)
				addErr("service.VerifyAPREQ:rejected", verr)
				runs[run] = out
				c.Count(fmt.Sprintf("etype=%d", et))
			}
			// oracle 1: no secret form in any surface
			for run := 0; run < 2; run++ {
				for _, s := range runs[run] {
					for si, sec := range secrets[run] {
						how := leaks(s.out, sec)
						name := s.name
						if i := strings.Index(name, "(truncated@"); i >= 0 {
							name = name[:i] + "(truncated)"
						}
						c.Check(how == "", "no secret (raw, hex, base64) appears in a diagnostic surface, error or encoding", "leak:"+name, fmt.Sprintf("secret %d appears as %s in %s", si, how, s.name), map[string]interface{}{"etype": et, "surface": s.name})
					}
					c.Count("surface:" + strings.SplitN(s.name, "(", 2)[0])
				}
			}
			// oracle 2: noninterference on the deterministic surfaces (same operations, two different secrets)
			idx := map[string][]byte{}
			for _, s := range runs[0] {
				idx[s.name] = s.out
			}
			for _, s := range runs[1] {
				if !(strings.HasPrefix(s.name, "keytab.") || strings.HasPrefix(s.name, "credentials.JSON") || strings.HasPrefix(s.name, "crypto.")) {
					continue
				}
				if strings.Contains(s.name, "corrupt-length") {
					continue
				}
				a, ok := idx[s.name]
				if !ok {
					continue
				}
				na, nb := uuidRe.ReplaceAll(a, []byte("UUID")), uuidRe.ReplaceAll(s.out, []byte("UUID"))
				c.Check(bytes.Equal(na, nb), "the surface does not depend on the secret (two runs with different secrets agree)", "interference:"+strings.SplitN(s.name, "(", 2)[0], "", map[string]interface{}{"surface": s.name})
			}
		}
	}
	// Keytab.String() prints key values by design
	{
		keyMarker := make([]byte, 16)
		c.R.Read(keyMarker)
		kt := keytab.New()
		kt.Unmarshal(refWriteKeytab(2, []ktItem{{E: ktEntry{P: ktPrinc{Realm: realm, Comps: []string{"u"}, NType: 1}, TS: 1, KVNO8: 1, KType: 17, Key: keyMarker, Has32: true, KVNO32: 1}}}))
		c.Check(leaks([]byte(kt.String()), keyMarker) == "", "Keytab.String() does not show key values", "leak:keytab.String", "fmt.Sprint(keytab) prints every key in hex", nil)
	}
}

// mintWithSession is mint with a chosen session key value
func mintWithSession(c *Ctx, r recipe, session []byte) minted {
	forcedSession = session
	defer func() { forcedSession = nil }()
	return mint(c, r)
}

var forcedSession []byte

func init() { props["C20"] = c20 }
