// Command genlog is the formatting-sink translator (vgen-log): it type-checks every non-test package of /repo/v8 FROM
// SOURCE (go/types with the source importer) and emits, for every call of a function whose last parameter is a
// variadic ...interface{} (fmt.Errorf/Sprintf/..., log.Printf, krberror.Errorf, Client.Log, ...), the static type of
// every argument handed to that parameter, as a type description in which EVERY field is visible (the fmt verbs print
// unexported fields too) -> coq/gen/LogSites.v.
//
// Rules (part of the trusted base, cross-checked by the C20 stream which searches every produced output):
//  1. a sink is a call whose callee's signature is variadic with element type interface{}; the arguments bound to
//     that parameter are the inspected ones; `args...` forwarding is skipped (the wrapper is itself a sink for its
//     callers);
//  2. secret leaves: struct fields named KeyValue, password, Password, passwd; an argument EXPRESSION that selects
//     such a field, calls a method named Password, is a variable named password/passwd/pwd/secret/keyvalue, or wraps
//     one of these in a conversion or call is a secret whatever its type;
//  3. a named type of this module with a String/Error/GoString/Format method is printed by that method: it is a
//     public leaf here, and the method's own body is scanned like every other function;
//  4. the error interface is a public leaf (error values are built by the sinks of this inventory or by the
//     standard library); any other interface-typed argument is listed in gen_log_iface_args;
//  5. []byte / [n]byte arguments are listed in gen_log_bytes_args (they may be key material; the list is reviewed
//     and pinned by the obligation);
//  6. named types of other modules (time.Time, ...) are public leaves; recursion in types is cut at depth 12;
//  7. files guarded by the verif build tag are skipped, as are the test helper packages test/ and examples/.
package main

import (
	"flag"
	"fmt"
	"go/ast"
	"go/importer"
	"go/parser"
	"go/token"
	"go/types"
	"os"
	"path/filepath"
	"regexp"
	"sort"
	"strings"
)

var fset = token.NewFileSet()
var imp = importer.ForCompiler(fset, "source", nil)
var secretName = regexp.MustCompile(`^(KeyValue|password|Password|passwd|Passwd)$`)

var secretIdent = regexp.MustCompile(`(?i)^(password|passwd|pwd|secret|keyvalue|keybytes)$`)

const modPath = "github.com/jcmturner/gokrb5/v8"

func hasStringer(t types.Type) bool {
	for _, tt := range []types.Type{t, types.NewPointer(t)} {
		ms := types.NewMethodSet(tt)
		for i := 0; i < ms.Len(); i++ {
			switch ms.At(i).Obj().Name() {
			case "String", "Error", "GoString", "Format":
				return true
			}
		}
	}
	return false
}

// named types (package path + "." + name) whose String / Error / GoString / Format method has a sink that receives a
// secret: found by iterating the inventory to a fixed point
var tainted = map[string]bool{}

type ctx struct {
	bytesArgs, ifaceArgs []string
}

// describe returns the Coq term of the type description (all fields visible)
func describe(t types.Type, depth int) string {
	if depth > 12 {
		return "JPublic"
	}
	switch x := t.(type) {
	case *types.Named:
		obj := x.Obj()
		if obj.Pkg() == nil || !strings.HasPrefix(obj.Pkg().Path(), modPath) {
			if _, isIface := x.Underlying().(*types.Interface); isIface {
				return "JPublic"
			}
			if _, isStruct := x.Underlying().(*types.Struct); isStruct {
				return "JPublic" // rule 6
			}
			return describe(x.Underlying(), depth+1)
		}
		if hasStringer(x) {
			if tainted[obj.Pkg().Path()+"."+obj.Name()] {
				return "JSecret" // rule 3b: its String/Error method formats a secret, so every sink given such a value prints it
			}
			return "JPublic" // rule 3
		}
		return describe(x.Underlying(), depth+1)
	case *types.Pointer:
		return "(JSeq " + describe(x.Elem(), depth+1) + ")"
	case *types.Slice:
		return "(JSeq " + describe(x.Elem(), depth+1) + ")"
	case *types.Array:
		return "(JSeq " + describe(x.Elem(), depth+1) + ")"
	case *types.Map:
		return "(JSeq " + describe(x.Elem(), depth+1) + ")"
	case *types.Struct:
		var fs []string
		for i := 0; i < x.NumFields(); i++ {
			f := x.Field(i)
			if secretName.MatchString(f.Name()) {
				fs = append(fs, "(true, JSecret)")
			} else {
				fs = append(fs, "(true, "+describe(f.Type(), depth+1)+")")
			}
		}
		return "(JStruct [" + strings.Join(fs, "; ") + "])"
	default:
		return "JPublic"
	}
}

func isByteSeq(t types.Type) bool {
	switch x := t.Underlying().(type) {
	case *types.Slice:
		b, ok := x.Elem().Underlying().(*types.Basic)
		return ok && b.Kind() == types.Byte
	case *types.Array:
		b, ok := x.Elem().Underlying().(*types.Basic)
		return ok && b.Kind() == types.Byte
	}
	return false
}

func secretExpr(e ast.Expr) bool {
	switch x := e.(type) {
	case *ast.Ident:
		return secretIdent.MatchString(x.Name)
	case *ast.SelectorExpr:
		return secretName.MatchString(x.Sel.Name)
	case *ast.CallExpr:
		if se, ok := x.Fun.(*ast.SelectorExpr); ok && (se.Sel.Name == "Password" || se.Sel.Name == "KeyValue") {
			return true
		}
		// conversions and wrappers such as string(x.KeyValue), hex.EncodeToString(k.KeyValue)
		for _, a := range x.Args {
			if secretExpr(a) {
				return true
			}
		}
	case *ast.ParenExpr:
		return secretExpr(x.X)
	case *ast.SliceExpr:
		return secretExpr(x.X)
	case *ast.IndexExpr:
		return secretExpr(x.X)
	case *ast.StarExpr:
		return secretExpr(x.X)
	case *ast.UnaryExpr:
		return secretExpr(x.X)
	}
	return false
}

func main() {
	repo := flag.String("repo", "/repo/v8", "module root")
	out := flag.String("out", "/verif/coq/gen", "output directory")
	flag.String("only", "log", "")
	flag.Parse()
	os.Chdir(*repo)
	var dirs []string
	filepath.Walk(*repo, func(p string, fi os.FileInfo, err error) error {
		if err != nil || !fi.IsDir() {
			return nil
		}
		rel, _ := filepath.Rel(*repo, p)
		if rel == "test" || strings.HasPrefix(rel, "test/") || rel == "examples" || strings.HasPrefix(rel, "examples/") || strings.HasPrefix(rel, ".") && rel != "." {
			return filepath.SkipDir
		}
		dirs = append(dirs, p)
		return nil
	})
	sort.Strings(dirs)
	var args []string // (site, jty) lines
	var bytesArgs, ifaceArgs []string
	total, sinks := 0, 0
	type rec struct {
		site    string
		t       types.Type
		recvKey string
	}
	var recs []rec
	grew := false
	{
		for _, dir := range dirs {
			pkgs, err := parser.ParseDir(fset, dir, func(fi os.FileInfo) bool { return !strings.HasSuffix(fi.Name(), "_test.go") }, parser.ParseComments)
			if err != nil || len(pkgs) == 0 {
				continue
			}
			rel, _ := filepath.Rel(*repo, dir)
			for _, p := range pkgs {
				var files []*ast.File
				var names []string
				for fn := range p.Files {
					names = append(names, fn)
				}
				sort.Strings(names)
				for _, fn := range names {
					f := p.Files[fn]
					tagged := false
					for _, cg := range f.Comments {
						for _, c := range cg.List {
							if strings.HasPrefix(c.Text, "//go:build") && strings.Contains(c.Text, "verif") {
								tagged = true
							}
						}
					}
					if !tagged || strings.HasSuffix(fn, "_off.go") {
						files = append(files, f)
					}
				}
				info := &types.Info{Types: map[ast.Expr]types.TypeAndValue{}, Uses: map[*ast.Ident]types.Object{}, Selections: map[*ast.SelectorExpr]*types.Selection{}}
				conf := types.Config{Importer: imp, Error: func(err error) {}}
				ipath := modPath
				if rel != "." {
					ipath = modPath + "/" + rel
				}
				if pkg, _ := conf.Check(ipath, fset, files, info); pkg == nil {
					fmt.Fprintln(os.Stderr, "type check failed for", dir)
					os.Exit(2)
				}
				for _, f := range files {
					fname, _ := filepath.Rel(*repo, fset.Position(f.Pos()).Filename)
					for _, d := range f.Decls {
						fd, ok := d.(*ast.FuncDecl)
						if !ok || fd.Body == nil {
							continue
						}
						fn := fd.Name.Name
						recvKey := ""
						if fd.Recv != nil && len(fd.Recv.List) > 0 {
							fn = types.ExprString(fd.Recv.List[0].Type) + "." + fn
							fn = strings.TrimPrefix(fn, "*")
							switch fd.Name.Name {
							case "String", "Error", "GoString", "Format":
								recvKey = ipath + "." + strings.TrimPrefix(types.ExprString(fd.Recv.List[0].Type), "*")
							}
						}
						taint := func() {
							if recvKey != "" && !tainted[recvKey] {
								tainted[recvKey] = true
								grew = true
							}
						}
						ast.Inspect(fd.Body, func(n ast.Node) bool {
							call, ok := n.(*ast.CallExpr)
							if !ok {
								return true
							}
							tv, ok := info.Types[call.Fun]
							if !ok || tv.IsType() {
								return true
							}
							sig, ok := tv.Type.Underlying().(*types.Signature)
							if !ok || !sig.Variadic() {
								return true
							}
							lastSl, ok := sig.Params().At(sig.Params().Len() - 1).Type().(*types.Slice)
							if !ok {
								return true
							}
							last := lastSl.Elem()
							if it, ok := last.Underlying().(*types.Interface); !ok || it.NumMethods() != 0 {
								return true
							}
							sinks++
							if call.Ellipsis.IsValid() {
								return true // rule 1: forwarding
							}
							callee := types.ExprString(call.Fun)
							for i := sig.Params().Len() - 1; i < len(call.Args); i++ {
								a := call.Args[i]
								total++
								at := info.Types[a].Type
								site := fmt.Sprintf("%s:%s:%s:%s", fname, fn, callee, types.ExprString(a))
								site = strings.ReplaceAll(site, "\"", "'")
								if len(site) > 160 {
									site = site[:160]
								}
								if secretExpr(a) {
									args = append(args, fmt.Sprintf("(\"%s\", JSecret)", site))
									taint()
									continue
								}
								if at == nil {
									continue
								}
								if isByteSeq(at) {
									bytesArgs = append(bytesArgs, site)
									continue
								}
								if it, ok := at.Underlying().(*types.Interface); ok {
									if at.String() != "error" && it.NumMethods() == 0 {
										ifaceArgs = append(ifaceArgs, site)
									}
									continue
								}
								recs = append(recs, rec{site, at, recvKey})
							}
							return true
						})
					}
				}
			}
		}
	}
	// fixed point over the recorded arguments: a type becomes secret-printing when its String / Error / ... method
	// hands a secret (or a value of an already tainted type) to a sink
	for pass := 0; pass < 8; pass++ {
		grew = false
		for _, r := range recs {
			if r.recvKey != "" && !tainted[r.recvKey] && strings.Contains(describe(r.t, 0), "JSecret") {
				tainted[r.recvKey] = true
				grew = true
			}
		}
		if !grew {
			break
		}
	}
	for _, r := range recs {
		if d := describe(r.t, 0); d != "JPublic" {
			args = append(args, fmt.Sprintf("(\"%s\", %s)", r.site, d))
		}
	}
	uniq := func(l []string) []string {
		sort.Strings(l)
		var o []string
		for i, s := range l {
			if i == 0 || s != l[i-1] {
				o = append(o, s)
			}
		}
		return o
	}
	args, bytesArgs, ifaceArgs = uniq(args), uniq(bytesArgs), uniq(ifaceArgs)
	q := func(l []string) string {
		var o []string
		for _, s := range l {
			o = append(o, "\""+s+"\"")
		}
		return "[" + strings.Join(o, ";\n   ") + "]"
	}
	var b strings.Builder
	b.WriteString("(* GENERATED by harness/cmd/genlog from /repo/v8 source (go/types). Do not edit. *)\nFrom Coq Require Import String List ZArith.\nImport ListNotations.\nFrom Gokrb5.model Require Import Diag.\nOpen Scope string_scope.\n\n")
	b.WriteString("(* arguments of formatting sinks whose static type is not a public leaf, with their type description *)\n")
	b.WriteString("Definition gen_log_args : list (string * jty) :=\n  [" + strings.Join(args, ";\n   ") + "].\n\n")
	b.WriteString("Definition gen_log_bytes_args : list string :=\n  " + q(bytesArgs) + ".\n\n")
	b.WriteString("Definition gen_log_iface_args : list string :=\n  " + q(ifaceArgs) + ".\n\n")
	b.WriteString(fmt.Sprintf("Definition gen_log_sinks : Z := %d%%Z.\nDefinition gen_log_sink_args : Z := %d%%Z.\n", sinks, total))
	os.MkdirAll(*out, 0o755)
	os.WriteFile(filepath.Join(*out, "LogSites.v"), []byte(b.String()), 0o644)
}
