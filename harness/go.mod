module verif/harness

go 1.16

require (
	github.com/jcmturner/gofork v1.7.6
	github.com/jcmturner/goidentity/v6 v6.0.1
	github.com/jcmturner/gokrb5/v8 v8.0.0
	github.com/jcmturner/rpc/v2 v2.0.3
)

replace github.com/jcmturner/gokrb5/v8 => /repo/v8
