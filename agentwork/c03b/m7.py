p='v8/spnego/spnego.go'
s=open(p).read()
old='''	if !(oid.Equal(gssapi.OIDKRB5.OID()) || oid.Equal(gssapi.OIDMSLegacyKRB5.OID())) {'''
assert old in s
s=s.replace(old,'''	if false && !(oid.Equal(gssapi.OIDKRB5.OID()) || oid.Equal(gssapi.OIDMSLegacyKRB5.OID())) {''')
open(p,'w').write(s)
