#!/bin/bash
# usage: mut.sh <name> <python-snippet-file>
export GOFLAGS=-mod=mod GOPROXY=off GOSUMDB=off GOTOOLCHAIN=local
name=$1
cd /tmp/wt-c03b && python3 $2 || exit 1
git -C /tmp/wt-c03b diff --stat | tail -1
cd /tmp/h-c03b && go build -tags verif -o dev-mut ./cmd/dev || { git -C /tmp/wt-c03b checkout -- .; exit 1; }
./dev-mut -out /tmp/h-c03b/cases-$name > /tmp/h-c03b/mut-$name.txt
head -1 /tmp/h-c03b/mut-$name.txt
grep -c '^FAIL' /tmp/h-c03b/mut-$name.txt
grep '^FAIL' /tmp/h-c03b/mut-$name.txt | sed 's/ | .*//' | sed 's/:.*//' | sort | uniq -c | sort -rn | head -8
./ocaml/model_driver < cases-$name/C03b.cases | tail -1
git -C /tmp/wt-c03b checkout -- .
