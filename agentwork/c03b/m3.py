p='v8/spnego/spnego.go'
s=open(p).read()
old='''		if !oid.Equal(SPNEGOOID) {
			return fmt.Errorf'''
assert old in s
s=s.replace(old,'''		if false && !oid.Equal(SPNEGOOID) {
			return fmt.Errorf''')
open(p,'w').write(s)
