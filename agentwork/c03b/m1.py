p='v8/spnego/krb5Token.go'
s=open(p).read()
old='''	if !oid.Equal(gssapi.OIDKRB5.OID()) {
		return fmt.Errorf("error unmarshalling KRB5Token, OID is %s not %s", oid.String(), gssapi.OIDKRB5.OID().String())
	}
'''
assert old in s
s=s.replace(old,'''	if !oid.Equal(gssapi.OIDKRB5.OID()) {
		_ = fmt.Errorf("error unmarshalling KRB5Token, OID is %s not %s", oid.String(), gssapi.OIDKRB5.OID().String())
	}
''')
open(p,'w').write(s)
