p='v8/spnego/krb5Token.go'
s=open(p).read()
old='''	m.tokID = r[0:2]
'''
assert old in s
s=s.replace(old,'''	m.tokID = []byte{1, 0}
''')
open(p,'w').write(s)
