p='v8/spnego/http.go'
s=open(p).read()
old='''s[0] != HTTPHeaderAuthResponseValueKey'''
assert old in s
s=s.replace(old,'''!strings.EqualFold(s[0], HTTPHeaderAuthResponseValueKey)''')
open(p,'w').write(s)
