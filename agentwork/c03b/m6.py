p='v8/spnego/http.go'
s=open(p).read()
old='''	b, err := base64.StdEncoding.DecodeString(s[1])
	if err != nil {'''
assert old in s
s=s.replace(old,'''	b, err := base64.StdEncoding.DecodeString(s[1])
	if err != nil {
		b, err = base64.RawStdEncoding.DecodeString(s[1])
	}
	if err != nil {''')
open(p,'w').write(s)
