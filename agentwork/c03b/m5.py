p='v8/spnego/negotiationToken.go'
s=open(p).read()
old='''			if n.mechToken == nil && n.MechTokenBytes == nil {
				return false, gssapi.Status{Code: gssapi.StatusContinueNeeded}
			}
			mtSupported = true
			break
		}
	}
	if !mtSupported {'''
assert old in s
s=s.replace(old,'''			if n.mechToken == nil && n.MechTokenBytes == nil {
				return false, gssapi.Status{Code: gssapi.StatusContinueNeeded}
			}
			mtSupported = true
			break
		}
	}
	if false && !mtSupported {''')
open(p,'w').write(s)
