import subprocess,sys
r=subprocess.run(['git','apply','/verif/seeded/C03/patch.diff'],cwd='/tmp/wt-c03b')
sys.exit(r.returncode)
