Require Extraction.
Require Import ExtrOcamlBasic.
From Gokrb5.lib Require Import JV.
From Gokrb5.model Require Import SpnegoBytes.
Extraction "model.ml" jv spnego_serve_bytes_j spnego_accept_bytes_j spnego_decode_j.
