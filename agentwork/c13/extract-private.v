Require Extraction.
Require Import ExtrOcamlBasic.
From Gokrb5.lib Require Import Bytes JV.
From Gokrb5.model Require Import Schema DER DERCodec LenOctets Flags Framing.
Extraction "model.ml" jv
  der_encode_j der_decode_j der_len_j parse_len_j
  marshal_len_j get_length_j len_hdr_bytes_j add_app_tag_j
  set_flag_j unset_flag_j is_flag_set_j is_flag_set_orig_j kdc_options_widen_j
  choice_encode_j choice_decode_j gss_frame_j gss_unframe_j krb5_token_j krb5_untoken_j.
