(* Gokrb5.proofs.DEROid — OBJECT IDENTIFIER body: dec_oid inverts enc_oid, and accepts only what enc_oid writes. *)
From Coq Require Import ZifyBool.
From Gokrb5.lib Require Import Bytes.
From Gokrb5.model Require Import DER.
From Gokrb5.proofs Require Import DERBasic.
Local Ltac Zify.zify_post_hook ::= Z.div_mod_to_equations.

Lemma some_inj {A} (a b : A) : Some a = Some b -> a = b.
Proof. congruence. Qed.

Lemma b128_0 f acc : b128 f 0 acc = acc.
Proof. destruct f; reflexivity. Qed.

(* reading the continuation octets of m from the start state leaves m in the accumulator *)
Lemma dec_arcs_b128 f : forall m acc r, 0 < m < 128 ^ Z.of_nat f ->
  dec_arcs (b128 f m acc ++ r) 0 true = dec_arcs (acc ++ r) m false.
Proof.
  induction f as [|f IH]; intros m acc r H.
  - change (128 ^ Z.of_nat 0) with 1 in H. lia.
  - rewrite pow_succ_nat in H. cbn [b128]. destruct (Z.leb_spec m 0); [lia|].
    destruct (Z.eq_dec (m / 128) 0) as [E|E].
    + rewrite E, b128_0. cbn [app dec_arcs].
      replace (is_byte (128 + m mod 128)) with true by (unfold is_byte; lia).
      replace (128 + m mod 128 =? 128) with false by lia. cbn [andb].
      replace (128 + m mod 128 <? 128) with false by lia.
      f_equal. lia.
    + rewrite IH by lia. cbn [app dec_arcs].
      replace (is_byte (128 + m mod 128)) with true by (unfold is_byte; lia). cbn [andb].
      replace (128 + m mod 128 <? 128) with false by lia.
      f_equal. lia.
Qed.

Lemma zfuel_128 n : 0 <= n -> n < 128 ^ Z.of_nat (zfuel n).
Proof. intros H. pose proof (zfuel_spec n). pose proof (pow_base_le 128 (zfuel n)). lia. Qed.

Lemma dec_arcs_enc_b128 n r : 0 <= n ->
  dec_arcs (enc_b128 n ++ r) 0 true =
  match dec_arcs r 0 true with Some l => Some (n :: l) | None => None end.
Proof.
  intros H. unfold enc_b128. pose proof (zfuel_128 n H) as Hf.
  pose proof (pow_pos_nat 128 (zfuel n)).
  destruct (Z.eq_dec (n / 128) 0) as [E|E].
  - rewrite E, b128_0. cbn [app dec_arcs].
    replace (is_byte (n mod 128)) with true by (unfold is_byte; lia).
    replace (n mod 128 =? 128) with false by lia. cbn [andb].
    replace (n mod 128 <? 128) with true by lia.
    replace (0 * 128 + n mod 128) with n by lia. reflexivity.
  - rewrite dec_arcs_b128 by lia. cbn [app dec_arcs].
    replace (is_byte (n mod 128)) with true by (unfold is_byte; lia). cbn [andb].
    replace (n mod 128 <? 128) with true by lia.
    replace (n / 128 * 128 + n mod 128) with n by lia. reflexivity.
Qed.

Lemma dec_arcs_flat_map l : Forall (fun x => 0 <= x) l ->
  dec_arcs (flat_map enc_b128 l) 0 true = Some l.
Proof.
  induction 1 as [|x l Hx Hl IH]; [reflexivity|].
  cbn [flat_map]. rewrite dec_arcs_enc_b128, IH by exact Hx. reflexivity.
Qed.

Theorem dec_oid_enc_oid arcs b : enc_oid arcs = Some b -> dec_oid b = Some arcs.
Proof.
  unfold enc_oid. destruct arcs as [|a0 [|a1 r]]; try discriminate.
  destruct (oid_ok (a0 :: a1 :: r)) eqn:Hok; [|discriminate]. intros E; apply some_inj in E; subst b.
  unfold oid_ok in Hok. repeat (apply andb_true_iff in Hok; destruct Hok as [Hok ?]).
  assert (Hr : Forall (fun x => 0 <= x) r).
  { apply Forall_forall. intros x Hx. rewrite forallb_forall in H. specialize (H x Hx). cbv beta in H. lia. }
  unfold dec_oid. rewrite dec_arcs_enc_b128 by lia. rewrite dec_arcs_flat_map by exact Hr.
  destruct (Z.ltb_spec (40 * a0 + a1) 40); [|destruct (Z.ltb_spec (40 * a0 + a1) 80)];
    repeat f_equal; lia.
Qed.

Lemma oid_ok_enc arcs : oid_ok arcs = true -> exists b, enc_oid arcs = Some b.
Proof.
  intros H. unfold enc_oid. destruct arcs as [|a0 [|a1 r]]; try discriminate. rewrite H. eauto.
Qed.

Lemma enc_oid_ok arcs b : enc_oid arcs = Some b -> oid_ok arcs = true.
Proof.
  unfold enc_oid. destruct arcs as [|a0 [|a1 r]]; try discriminate.
  destruct (oid_ok (a0 :: a1 :: r)); [reflexivity | discriminate].
Qed.

(* bytes in range *)
Lemma b128_wf f : forall m acc, wf_bytes acc -> wf_bytes (b128 f m acc).
Proof.
  induction f as [|f IH]; intros m acc H; cbn [b128]; destruct (m <=? 0); auto.
  apply IH. apply wf_bytes_cons. split; [lia | auto].
Qed.

Lemma enc_b128_wf n : wf_bytes (enc_b128 n).
Proof. apply b128_wf. apply wf_bytes_cons. split; [lia | constructor]. Qed.

Lemma flat_map_wf (f : Z -> bytes) l : (forall x, wf_bytes (f x)) -> wf_bytes (flat_map f l).
Proof.
  intros H. induction l as [|x l IH]; [constructor|]. cbn [flat_map]. apply wf_bytes_app. auto.
Qed.

Lemma enc_oid_wf arcs b : enc_oid arcs = Some b -> wf_bytes b.
Proof.
  unfold enc_oid. destruct arcs as [|a0 [|a1 r]]; try discriminate.
  destruct (oid_ok (a0 :: a1 :: r)); [|discriminate]. intros E; apply some_inj in E; subst b.
  apply wf_bytes_app. split; [apply enc_b128_wf | apply flat_map_wf, enc_b128_wf].
Qed.

(* ---------- dec_oid accepts only what enc_oid writes ---------- *)
Lemma b128_le0 f m acc : m <= 0 -> b128 f m acc = acc.
Proof. intros H. destruct f; cbn [b128]; destruct (Z.leb_spec m 0); try reflexivity; lia. Qed.

Lemma b128_irrel f1 : forall f2 m acc, m < 128 ^ Z.of_nat f1 -> m < 128 ^ Z.of_nat f2 ->
  b128 f1 m acc = b128 f2 m acc.
Proof.
  induction f1 as [|f1 IH]; intros f2 m acc H1 H2.
  - change (128 ^ Z.of_nat 0) with 1 in H1. rewrite !b128_le0 by lia. reflexivity.
  - destruct f2 as [|f2].
    + change (128 ^ Z.of_nat 0) with 1 in H2. rewrite !b128_le0 by lia. reflexivity.
    + rewrite pow_succ_nat in H1, H2. cbn [b128]. destruct (Z.leb_spec m 0); [reflexivity|].
      apply IH; lia.
Qed.

Lemma b128_app f : forall m acc x, b128 f m (acc ++ x) = b128 f m acc ++ x.
Proof.
  induction f as [|f IH]; intros m acc x; cbn [b128]; destruct (m <=? 0); try reflexivity.
  rewrite app_comm_cons. apply IH.
Qed.

(* the continuation octets of m, with canonical fuel *)
Definition B (m : Z) (acc : bytes) : bytes := b128 (zfuel m) m acc.

Lemma B_eq f m acc : 0 <= m < 128 ^ Z.of_nat f -> b128 f m acc = B m acc.
Proof. intros H. apply b128_irrel; [lia | apply zfuel_128; lia]. Qed.

Lemma B_0 acc : B 0 acc = acc.
Proof. apply b128_0. Qed.

Lemma B_step m acc : 0 < m -> B m acc = B (m / 128) (128 + m mod 128 :: acc).
Proof.
  intros H. pose proof (zfuel_128 m ltac:(lia)) as Hf. pose proof (pow_pos_nat 128 (zfuel m)).
  unfold B at 1. rewrite (b128_irrel (zfuel m) (S (zfuel m))); [|lia|rewrite pow_succ_nat; lia].
  cbn [b128]. destruct (Z.leb_spec m 0); [lia|]. apply B_eq. lia.
Qed.

Lemma enc_b128_B n : 0 <= n -> enc_b128 n = B (n / 128) [n mod 128].
Proof.
  intros H. unfold enc_b128. apply B_eq. pose proof (zfuel_128 n H). pose proof (pow_pos_nat 128 (zfuel n)). lia.
Qed.

Lemma B_app m acc x : B m (acc ++ x) = B m acc ++ x.
Proof. apply b128_app. Qed.

Lemma dec_arcs_canon b : forall cur start l,
  (start = true -> cur = 0) -> (start = false -> 0 < cur) ->
  dec_arcs b cur start = Some l ->
  Forall (fun x => 0 <= x) l /\ flat_map enc_b128 l = B cur b.
Proof.
  induction b as [|x r IH]; intros cur start l Ht Hf H; cbn [dec_arcs] in H.
  - destruct start; [|discriminate]. apply some_inj in H. subst l. rewrite (Ht eq_refl), B_0.
    split; [constructor | reflexivity].
  - destruct (is_byte x) eqn:Hx; [|discriminate]. apply is_byte_iff in Hx.
    destruct (start && (x =? 128)) eqn:H128; [discriminate|].
    assert (Hcur : 0 <= cur) by (destruct start; [rewrite Ht by reflexivity; lia | specialize (Hf eq_refl); lia]).
    destruct (Z.ltb_spec x 128) as [Hlt|Hge].
    + destruct (dec_arcs r 0 true) as [l0|] eqn:E; [|discriminate]. apply some_inj in H. subst l.
      destruct (IH 0 true l0 ltac:(reflexivity) ltac:(discriminate) E) as [Hl0 Hfm]. rewrite B_0 in Hfm.
      split; [constructor; [lia | exact Hl0]|].
      cbn [flat_map]. rewrite Hfm, enc_b128_B by lia.
      replace ((cur * 128 + x) / 128) with cur by lia. replace ((cur * 128 + x) mod 128) with x by lia.
      rewrite <- B_app. reflexivity.
    + assert (Hpos : 0 < cur * 128 + (x - 128)).
      { destruct start; [|specialize (Hf eq_refl); lia]. rewrite Ht by reflexivity. cbn [andb] in H128. lia. }
      destruct (IH _ false l ltac:(discriminate) ltac:(intros _; exact Hpos) H) as [Hl Hfm].
      split; [exact Hl|]. rewrite Hfm, B_step by exact Hpos.
      replace ((cur * 128 + (x - 128)) / 128) with cur by lia.
      replace (128 + (cur * 128 + (x - 128)) mod 128) with x by lia. reflexivity.
Qed.

Theorem dec_oid_canon b arcs : dec_oid b = Some arcs -> enc_oid arcs = Some b.
Proof.
  unfold dec_oid. destruct (dec_arcs b 0 true) as [[|v l]|] eqn:E; try discriminate.
  intros H. apply some_inj in H.
  destruct (dec_arcs_canon b 0 true (v :: l) ltac:(reflexivity) ltac:(discriminate) E) as [Hl Hfm].
  rewrite B_0 in Hfm. cbn [flat_map] in Hfm. inversion Hl as [|? ? Hv Hl']; subst.
  assert (Hfb : forallb (fun x => 0 <=? x) l = true).
  { apply forallb_forall. intros x Hx. rewrite Forall_forall in Hl'. specialize (Hl' x Hx). cbv beta. lia. }
  destruct (Z.ltb_spec v 40); [|destruct (Z.ltb_spec v 80)]; unfold enc_oid, oid_ok; rewrite Hfb.
  - replace ((0 <=? 0) && (0 <=? 2) && (0 <=? v) && ((0 =? 2) || (v <? 40)) && true) with true by lia.
    replace (40 * 0 + v) with v by lia. reflexivity.
  - replace ((0 <=? 1) && (1 <=? 2) && (0 <=? v - 40) && ((1 =? 2) || (v - 40 <? 40)) && true) with true by lia.
    replace (40 * 1 + (v - 40)) with v by lia. reflexivity.
  - replace ((0 <=? 2) && (2 <=? 2) && (0 <=? v - 80) && ((2 =? 2) || (v - 80 <? 40)) && true) with true by lia.
    replace (40 * 2 + (v - 80)) with v by lia. reflexivity.
Qed.

Example oid_krb5 : enc_oid [1; 2; 840; 113554; 1; 2; 2] = Some [42; 134; 72; 134; 247; 18; 1; 2; 2].
Proof. vm_compute. reflexivity. Qed.
Example oid_spnego : enc_oid [1; 3; 6; 1; 5; 5; 2] = Some [43; 6; 1; 5; 5; 2].
Proof. vm_compute. reflexivity. Qed.
Example oid_nonminimal_rejected : dec_oid [42; 128; 1] = None.
Proof. vm_compute. reflexivity. Qed.
