(* Every (ticket, session key) pair the client hands back was issued together by the KDC for the SPN asked for -
   for every source of session keys, every history of requests and destroys, served and refused renewals. *)
From Gokrb5.lib Require Import Bytes JV.
From Gokrb5.model Require Import ClientPairs.

Definition pair_of (a : paction) : option (Z * Z) :=
  match a with
  | PHit t k | PRenewed t k | PRefused t k | PFresh t k => Some (t, k)
  | PLost => None
  end.

Definition pcache_from_log (s : pstate) : Prop :=
  forall e, In e (ps_cache s) -> In (pe_tid e, pe_spn e, pe_key e) (pk_log (ps_kdc s)).

Lemma pstore_in e c x : In x (pstore e c) -> x = e \/ In x c.
Proof. unfold pstore. intros [<-|H]; [left; reflexivity|right]. apply filter_In in H. apply H. Qed.

Lemma plookup_pstore e c : plookup (pe_spn e) (pstore e c) = Some e.
Proof. unfold plookup, pstore. cbn [find]. rewrite Z.eqb_refl. reflexivity. Qed.

Lemma plookup_some spn c e : plookup spn c = Some e -> In e c /\ pe_spn e = spn.
Proof. unfold plookup. intros H. apply find_some in H. destruct H as [H1 H2]. apply Z.eqb_eq in H2. auto. Qed.

Section Keys.
  Variable keysrc : Z -> Z.

  Lemma pissue_log k spn now e k' :
    pissue keysrc k spn now = (e, k') ->
    pe_spn e = spn /\ pk_log k' = (pe_tid e, spn, pe_key e) :: pk_log k.
  Proof. unfold pissue. intros H. injection H as <- <-. cbn. auto. Qed.

  Lemma prenew_log k e0 now e k' :
    prenew keysrc k e0 now = (e, k') ->
    pe_spn e = pe_spn e0 /\ pk_log k' = (pe_tid e, pe_spn e0, pe_key e) :: pk_log k.
  Proof. unfold prenew. intros H. injection H as <- <-. cbn. auto. Qed.

  Theorem pget_pair_from_log s spn now a s' :
    pcache_from_log s -> pget keysrc s spn now = (a, s') ->
    a <> PLost /\
    (forall t k, pair_of a = Some (t, k) -> In (t, spn, k) (pk_log (ps_kdc s'))) /\
    pcache_from_log s'.
  Proof.
    intros Inv. unfold pget.
    assert (Stored : forall e k' lg, pe_spn e = spn -> pk_log k' = (pe_tid e, spn, pe_key e) :: lg ->
              lg = pk_log (ps_kdc s) -> pcache_from_log (mkPS (pstore e (ps_cache s)) k')).
    { intros e k' lg Es El -> x Hx. cbn [ps_cache ps_kdc] in *. apply pstore_in in Hx. rewrite El. destruct Hx as [->|Hx].
      - left. now rewrite Es.
      - right. apply Inv. exact Hx. }
    assert (Fresh : forall e k', pissue keysrc (ps_kdc s) spn now = (e, k') ->
              In (pe_tid e, spn, pe_key e) (pk_log k') /\ pcache_from_log (mkPS (pstore e (ps_cache s)) k')).
    { intros e k' E. destruct (pissue_log _ _ _ _ _ E) as [Es El]. split; [rewrite El; left; reflexivity|].
      eapply Stored; eauto. }
    destruct (plookup spn (ps_cache s)) as [e|] eqn:L.
    - destruct (plookup_some _ _ _ L) as [Hin Hs].
      destruct ((pe_start e <? now) && (now <? pe_end e)).
      + intros H. injection H as <- <-. split; [discriminate|]. split; [|exact Inv].
        intros t k H. injection H as <- <-. rewrite <- Hs. apply Inv. exact Hin.
      + destruct (now <? pe_renew e).
        * destruct (pk_serves (ps_kdc s) && (now + pk_ahead (ps_kdc s) <=? pe_end e + 1000)).
          -- destruct (prenew keysrc (ps_kdc s) e now) as [e' k'] eqn:E.
             destruct (prenew_log _ _ _ _ _ E) as [Es El]. rewrite Hs in Es, El.
             rewrite <- Es at 1. rewrite plookup_pstore.
             intros H. injection H as <- <-. split; [discriminate|]. cbn [ps_kdc pair_of]. split.
             ++ intros t k H. injection H as <- <-. rewrite El. left; reflexivity.
             ++ eapply Stored; eauto.
          -- destruct (pissue keysrc (ps_kdc s) spn now) as [e' k'] eqn:E.
             intros H. injection H as <- <-. destruct (Fresh e' k' eq_refl) as [F1 F2].
             split; [discriminate|]. split; [|exact F2]. intros t k H. injection H as <- <-. exact F1.
        * destruct (pissue keysrc (ps_kdc s) spn now) as [e' k'] eqn:E.
          intros H. injection H as <- <-. destruct (Fresh e' k' eq_refl) as [F1 F2].
          split; [discriminate|]. split; [|exact F2]. intros t k H. injection H as <- <-. exact F1.
    - destruct (pissue keysrc (ps_kdc s) spn now) as [e' k'] eqn:E.
      intros H. injection H as <- <-. destruct (Fresh e' k' eq_refl) as [F1 F2].
      split; [discriminate|]. split; [|exact F2]. intros t k H. injection H as <- <-. exact F1.
  Qed.

  (* over every operation sequence from any state whose cache came from the KDC *)
  Theorem pairs_issued_together : forall ops s,
    pcache_from_log s ->
    forall o a s', In (o, Some a, s') (pstates keysrc s ops) ->
    exists spn now, o = PGet spn now /\ a <> PLost /\
      forall t k, pair_of a = Some (t, k) -> In (t, spn, k) (pk_log (ps_kdc s')).
  Proof.
    induction ops as [|o ops IH]; intros s Inv o' a s' Hin; [destruct Hin|].
    cbn [pstates] in Hin. destruct o as [spn now|].
    - cbn [pstep] in Hin. destruct (pget keysrc s spn now) as [a0 s0] eqn:E.
      destruct (pget_pair_from_log s spn now a0 s0 Inv E) as (Hne & Hlog & Inv').
      destruct Hin as [H|H].
      + injection H as <- <- <-. exists spn, now. auto.
      + eapply IH; eauto.
    - cbn [pstep] in Hin. destruct Hin as [H|H]; [discriminate|].
      eapply IH; [|exact H]. intros e [].
  Qed.

  (* from the empty client *)
  Corollary pairs_issued_together_fresh life renew serves ahead ops o a s' :
    In (o, Some a, s') (pstates keysrc (mkPS [] (mkPK 0 life renew serves ahead [])) ops) ->
    exists spn now, o = PGet spn now /\ a <> PLost /\
      forall t k, pair_of a = Some (t, k) -> In (t, spn, k) (pk_log (ps_kdc s')).
  Proof. apply pairs_issued_together. intros e []. Qed.
End Keys.

(* Non-vacuity, and what the theorem excludes: a history in which the renewal is served (new ticket 1 with new key
   1 after ticket 0 with key 0); a client that patched the OLD entry with the new ticket but kept its key would hand
   back (1, 0), which is not in the log. *)
Example served_renewal_example :
  let s0 := mkPS [] (mkPK 0 2 60 true 0 []) in
  prun (fun n => n) s0 [PGet 7 500; PGet 7 1000; PGet 7 2300; PGet 7 2400; PGet 7 9000] =
    [Some (PFresh 0 0); Some (PHit 0 0); Some (PRenewed 1 1); Some (PHit 1 1); Some (PRefused 2 2)]
  /\ ~ In (1, 7, 0) [(2, 7, 2); (1, 7, 1); (0, 7, 0)].
Proof. split; [vm_compute; reflexivity|]. cbn. intuition congruence. Qed.
