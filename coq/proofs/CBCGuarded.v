(* CBC round trip for block ciphers whose inverse property holds on well-formed blocks (bytes 0..255) only:
   that is what can be proved of the executable AES model, whose S-box look-up collapses out-of-range values. *)
From Gokrb5.lib Require Import Bytes.
From Gokrb5.prim Require Import CBC.
From Gokrb5.model Require Import Crypto.

Lemma zeros_wf n : wf_bytes (zeros n).
Proof. unfold zeros, wf_bytes. induction n; cbn; constructor; auto; lia. Qed.

Lemma wf_firstn n l : wf_bytes l -> wf_bytes (firstn n l).
Proof. unfold wf_bytes. revert l; induction n; intros [|x l] H; cbn; try constructor; inversion H; auto. Qed.

Lemma wf_skipn n l : wf_bytes l -> wf_bytes (skipn n l).
Proof. unfold wf_bytes. revert l; induction n; intros [|x l] H; cbn; auto. inversion H; auto. Qed.

Lemma wf_concat (ls : list bytes) : Forall wf_bytes ls -> wf_bytes (concat ls).
Proof. induction 1; cbn; [constructor|]. apply wf_bytes_app; auto. Qed.

Lemma wf_chunks_fuel f n l : wf_bytes l -> Forall wf_bytes (chunks_fuel f n l).
Proof.
  revert l; induction f as [|f IH]; intros l H; cbn [chunks_fuel]; [constructor|].
  destruct l as [|x r] eqn:E; [constructor|]. rewrite <- E in *.
  constructor; [apply wf_firstn, H | apply IH, wf_skipn, H].
Qed.

Lemma wf_chunks n l : wf_bytes l -> Forall wf_bytes (chunks n l).
Proof. apply wf_chunks_fuel. Qed.

Lemma wf_last (ls : list bytes) d : Forall wf_bytes ls -> wf_bytes d -> wf_bytes (last ls d).
Proof. induction 1 as [|x l Hx Hl IH]; intros Hd; [exact Hd|]. destruct l; [exact Hx|]. apply IH, Hd. Qed.

Section CBCG.
  Variables (enc dec : bytes -> bytes) (bs : nat).
  Hypothesis dec_enc : forall b, length b = bs -> wf_bytes b -> dec (enc b) = b.
  Hypothesis enc_length : forall b, length b = bs -> length (enc b) = bs.
  Hypothesis enc_wf : forall b, length b = bs -> wf_bytes b -> wf_bytes (enc b).

  Lemma cbc_enc_blocks_wf prev bl :
    length prev = bs -> wf_bytes prev -> Forall (fun b => length b = bs) bl -> Forall wf_bytes bl ->
    Forall wf_bytes (cbc_enc_blocks enc prev bl).
  Proof.
    intros Hp Hw Hbl; revert prev Hp Hw; induction Hbl as [|b bl Hb Hbl IH]; intros prev Hp Hw Hwf; cbn.
    - constructor.
    - pose proof (Forall_inv Hwf) as Wb. pose proof (Forall_inv_tail Hwf) as Wbl.
      assert (length (xor_bytes b prev) = bs) as Hx by (rewrite xor_bytes_length_eq; congruence).
      assert (wf_bytes (xor_bytes b prev)) as Wx by (apply xor_bytes_wf; assumption).
      constructor; [apply enc_wf; assumption|].
      apply IH; [apply enc_length, Hx | apply enc_wf; assumption | exact Wbl].
  Qed.

  Lemma cbc_dec_enc_blocks_g prev bl :
    length prev = bs -> wf_bytes prev -> Forall (fun b => length b = bs) bl -> Forall wf_bytes bl ->
    cbc_dec_blocks dec prev (cbc_enc_blocks enc prev bl) = bl.
  Proof.
    intros Hp Hw Hbl; revert prev Hp Hw; induction Hbl as [|b bl Hb Hbl IH]; intros prev Hp Hw Hwf; cbn.
    - reflexivity.
    - pose proof (Forall_inv Hwf) as Wb. pose proof (Forall_inv_tail Hwf) as Wbl.
      assert (length (xor_bytes b prev) = bs) as Hx by (rewrite xor_bytes_length_eq; congruence).
      assert (wf_bytes (xor_bytes b prev)) as Wx by (apply xor_bytes_wf; assumption).
      rewrite dec_enc by assumption.
      rewrite xor_bytes_cancel by congruence.
      f_equal. apply IH; [apply enc_length, Hx | apply enc_wf; assumption | exact Wbl].
  Qed.

  Theorem cbc_decrypt_encrypt_g iv data k :
    (0 < bs)%nat -> length iv = bs -> wf_bytes iv -> length data = (k * bs)%nat -> wf_bytes data ->
    cbc_decrypt dec bs iv (cbc_encrypt enc bs iv data) = data.
  Proof.
    intros Hbs Hiv Wiv Hk Wd. unfold cbc_decrypt, cbc_encrypt.
    pose proof (chunks_lengths bs k data Hbs Hk) as Hch.
    rewrite chunks_of_concat by (auto using (cbc_enc_blocks_lengths enc bs enc_length)).
    rewrite cbc_dec_enc_blocks_g by (auto using wf_chunks).
    now apply concat_chunks.
  Qed.
End CBCG.
