(* The client accepts a KDC reply only if it answers the request it sent. *)
From Gokrb5.lib Require Import Bytes JV.
From Gokrb5.model Require Import Keytab Crypto PAData Replay APReq KDCRep.
From Gokrb5.proofs Require Import ReplayProofs APReqProofs.

Section Spec.
  Variable dec_enc : bytes -> option enc_rep.

  (* AS: specification of acceptance *)
  Definition as_valid (skew : Z) (c : creds) (rq : kdc_req) (rp : kdc_rep) (t : Z) : Prop :=
    exists kv ktype pt er,
      rp_cname rp = rq_cname rq /\ rp_crealm rp = rq_realm rq /\
      as_key c rp = Ok (kv, ktype) /\                       (* the client's own long-term key ... *)
      decrypt ktype kv 3 (rp_cipher rp) = Ok pt /\          (* ... decrypts the encrypted part with usage 3 *)
      dec_enc pt = Some er /\
      er_nonce er = rq_nonce rq /\ er_sname er = rq_sname rq /\ er_srealm er = rq_realm rq /\
      (rq_addrs rq = [] \/ addrs_equal (er_caddr er) (rq_addrs rq) = true) /\
      Z.abs (t - us (er_authtime er)) <= skew /\
      flag_enc_pa_rep (er_flags er) = false.

  Theorem asrep_accept_iff skew c rq rp t :
    asrep_verify dec_enc skew c rq rp t = Ok true <-> as_valid skew c rq rp t.
  Proof.
    unfold asrep_verify, as_valid. split.
    - destruct (names_eqb (rp_cname rp) (rq_cname rq)) eqn:E1; cbn [negb]; [|discriminate].
      destruct (beq_bytes (rp_crealm rp) (rq_realm rq)) eqn:E2; cbn [negb]; [|discriminate].
      destruct (as_key c rp) as [[kv ktype]| |] eqn:EK; try discriminate.
      destruct (decrypt ktype kv 3 (rp_cipher rp)) as [pt| |] eqn:ED; try discriminate.
      destruct (dec_enc pt) as [er|] eqn:EE; try discriminate.
      destruct (Z.eqb_spec (er_nonce er) (rq_nonce rq)) as [E3|]; cbn [negb]; [|discriminate].
      destruct (names_eqb (er_sname er) (rq_sname rq)) eqn:E4; cbn [negb]; [|discriminate].
      destruct (beq_bytes (er_srealm er) (rq_realm rq)) eqn:E5; cbn [negb]; [|discriminate].
      destruct (negb (length (rq_addrs rq) =? 0)%nat && negb (addrs_equal (er_caddr er) (rq_addrs rq))) eqn:E6; [discriminate|].
      destruct (Z.ltb_spec skew (Z.abs (t - us (er_authtime er)))); [discriminate|].
      destruct (flag_enc_pa_rep (er_flags er)) eqn:E7; [discriminate|]. intros _.
      apply names_eqb_eq in E1, E4. apply beq_bytes_eq in E2, E5.
      exists kv, ktype, pt, er. repeat split; auto.
      apply andb_false_iff in E6. destruct E6 as [E6|E6]; apply negb_false_iff in E6.
      + left. apply Nat.eqb_eq in E6. destruct (rq_addrs rq); [reflexivity|discriminate].
      + right. exact E6.
    - intros (kv & ktype & pt & er & H1 & H2 & EK & ED & EE & H3 & H4 & H5 & H6 & H7 & H8).
      rewrite H1, H2.
      assert (names_eqb (rq_cname rq) (rq_cname rq) = true) as -> by (now apply names_eqb_eq).
      rewrite beq_bytes_refl. cbn [negb]. rewrite EK, ED, EE, H3, Z.eqb_refl, H4, H5. cbn [negb].
      assert (names_eqb (rq_sname rq) (rq_sname rq) = true) as -> by (now apply names_eqb_eq).
      rewrite beq_bytes_refl. cbn [negb].
      assert (negb (length (rq_addrs rq) =? 0)%nat && negb (addrs_equal (er_caddr er) (rq_addrs rq)) = false) as ->.
      { destruct H6 as [->|H6]; [reflexivity|]. rewrite H6. apply andb_false_r. }
      destruct (Z.ltb_spec skew (Z.abs (t - us (er_authtime er)))); [lia|]. rewrite H8. reflexivity.
  Qed.

  (* TGS: specification of acceptance *)
  Definition tgs_valid (skew : Z) (stype : Z) (skey : bytes) (rq : kdc_req) (rp : kdc_rep) (t : Z) : Prop :=
    exists pt er,
      decrypt stype skey 8 (rp_cipher rp) = Ok pt /\        (* the TGT session key decrypts it with usage 8 *)
      dec_enc pt = Some er /\
      rp_cname rp = rq_cname rq /\ rp_tkt_realm rp = rq_realm rq /\
      er_nonce er = rq_nonce rq /\ er_srealm er = rq_realm rq /\
      (forall a, In a (er_caddr er) -> In a (rq_addrs rq)) /\
      ((exists s, er_start er = Some s /\ Z.abs (t - us s) <= skew) \/ Z.abs (t - us (er_authtime er)) <= skew).

  Theorem tgsrep_accept_iff skew stype skey rq rp t :
    tgsrep_verify dec_enc skew stype skey rq rp t = Ok true <-> tgs_valid skew stype skey rq rp t.
  Proof.
    unfold tgsrep_verify, tgs_valid. split.
    - destruct (decrypt stype skey 8 (rp_cipher rp)) as [pt| |] eqn:ED; try discriminate.
      destruct (dec_enc pt) as [er|] eqn:EE; try discriminate.
      destruct (names_eqb (rp_cname rp) (rq_cname rq)) eqn:E1; cbn [negb]; [|discriminate].
      destruct (beq_bytes (rp_tkt_realm rp) (rq_realm rq)) eqn:E2; cbn [negb]; [|discriminate].
      destruct (Z.eqb_spec (er_nonce er) (rq_nonce rq)) as [E3|]; cbn [negb]; [|discriminate].
      destruct (beq_bytes (er_srealm er) (rq_realm rq)) eqn:E5; cbn [negb]; [|discriminate].
      destruct (forallb (fun a => existsb (addr_eqb a) (rq_addrs rq)) (er_caddr er)) eqn:E6; cbn [negb]; [|discriminate].
      destruct (_ && _) eqn:E7; [discriminate|]. intros _.
      apply names_eqb_eq in E1. apply beq_bytes_eq in E2, E5.
      exists pt, er. repeat split; auto.
      + intros a Ha. rewrite forallb_forall in E6. specialize (E6 a Ha). now apply existsb_addr.
      + apply andb_false_iff in E7. destruct E7 as [E7|E7].
        * left. destruct (er_start er) as [s|]; [|discriminate]. exists s. split; [reflexivity|].
          destruct (Z.ltb_spec skew (Z.abs (t - us s))); [discriminate|lia].
        * right. destruct (Z.ltb_spec skew (Z.abs (t - us (er_authtime er)))); [discriminate|lia].
    - intros (pt & er & ED & EE & H1 & H2 & H3 & H5 & H6 & H7).
      rewrite ED, EE, H1, H2, H3, H5, Z.eqb_refl, !beq_bytes_refl.
      assert (names_eqb (rq_cname rq) (rq_cname rq) = true) as -> by (now apply names_eqb_eq). cbn [negb].
      assert (forallb (fun a => existsb (addr_eqb a) (rq_addrs rq)) (er_caddr er) = true) as ->.
      { apply forallb_forall. intros a Ha. apply existsb_addr. auto. }
      cbn [negb].
      assert ((match er_start er with Some s => skew <? Z.abs (t - us s) | None => true end
               && (skew <? Z.abs (t - us (er_authtime er)))) = false) as ->; [|reflexivity].
      destruct H7 as [(s & -> & Hs)|Ha].
      + destruct (Z.ltb_spec skew (Z.abs (t - us s))); [lia|reflexivity].
      + destruct (Z.ltb_spec skew (Z.abs (t - us (er_authtime er)))); [lia|apply andb_false_r].
  Qed.

  (* a reply to an earlier request (another nonce) is rejected *)
  Corollary stale_reply_rejected skew c rq rq' rp t pt er kv ktype :
    as_key c rp = Ok (kv, ktype) -> decrypt ktype kv 3 (rp_cipher rp) = Ok pt -> dec_enc pt = Some er ->
    er_nonce er = rq_nonce rq -> rq_nonce rq' <> rq_nonce rq ->
    asrep_verify dec_enc skew c rq' rp t <> Ok true.
  Proof.
    intros EK ED EE Hn Hne H. apply asrep_accept_iff in H.
    destruct H as (kv' & kt' & pt' & er' & _ & _ & EK' & ED' & EE' & Hn' & _).
    rewrite EK in EK'. injection EK' as <- <-. rewrite ED in ED'. injection ED' as <-.
    rewrite EE in EE'. injection EE' as <-. congruence.
  Qed.
End Spec.
