(* Proofs about Keytab.get_key: soundness, completeness, newest-entry preference. *)
From Gokrb5.lib Require Import Bytes JV.
From Gokrb5.model Require Import Keytab.

Lemma comps_eq_eq a b : comps_eq a b = true <-> a = b.
Proof.
  revert b; induction a as [|x a IH]; intros [|y b]; cbn; try (split; congruence).
  rewrite andb_true_iff, beq_bytes_eq, IH.
  split; [intros [-> ->]; reflexivity | intros H; inversion H; auto].
Qed.

(* The specification of a match, written from the property statement. *)
Definition matches (names : list bytes) (realm : bytes) (kvno etype : Z) (k : entry) : Prop :=
  p_comps (e_princ k) = names /\ p_realm (e_princ k) = realm /\ e_ktype k = etype /\
  (kvno = 0 \/ e_kvno k = wrap 32 kvno).

Lemma kt_match_spec names realm kvno etype k :
  kt_match names realm kvno etype k = true <-> matches names realm kvno etype k.
Proof.
  unfold kt_match, matches.
  rewrite !andb_true_iff, orb_true_iff, beq_bytes_eq, comps_eq_eq, !Z.eqb_eq. tauto.
Qed.

Definition best_inv (names : list bytes) (realm : bytes) (kvno etype : Z)
           (seen : list entry) (best : option entry) : Prop :=
  match best with
  | None => forall e, In e seen -> ~ matches names realm kvno etype e
  | Some b => In b seen /\ matches names realm kvno etype b /\
              forall e, In e seen -> matches names realm kvno etype e -> e_ts e <= e_ts b
  end.

Lemma get_key_loop_inv names realm kvno etype es :
  forall seen best,
    best_inv names realm kvno etype seen best ->
    best_inv names realm kvno etype (seen ++ es) (get_key_loop names realm kvno etype es best).
Proof.
  induction es as [|k es IH]; intros seen best Hinv; cbn [get_key_loop].
  - now rewrite app_nil_r.
  - replace (seen ++ k :: es) with ((seen ++ [k]) ++ es) by (rewrite <- app_assoc; reflexivity).
    destruct (kt_match names realm kvno etype k) eqn:Hm; cbn [andb].
    + apply kt_match_spec in Hm.
      destruct best as [b|]; cbn [best_inv] in Hinv.
      * destruct Hinv as (Hin & Hmb & Hmax).
        destruct (Z.ltb_spec (e_ts b) (e_ts k)) as [Hlt|Hge]; apply IH; cbn [best_inv].
        -- split; [apply in_or_app; right; left; reflexivity|]. split; [exact Hm|].
           intros e He Hme. apply in_app_or in He. destruct He as [He|[<-|[]]]; [|lia].
           specialize (Hmax e He Hme). lia.
        -- split; [apply in_or_app; left; exact Hin|]. split; [exact Hmb|].
           intros e He Hme. apply in_app_or in He. destruct He as [He|[<-|[]]]; [auto|lia].
      * apply IH; cbn [best_inv].
        split; [apply in_or_app; right; left; reflexivity|]. split; [exact Hm|].
        intros e He Hme. apply in_app_or in He. destruct He as [He|[<-|[]]]; [|lia].
        exfalso; exact (Hinv e He Hme).
    + apply IH. assert (~ matches names realm kvno etype k) as Hn
          by (intros H; apply kt_match_spec in H; congruence).
      destruct best as [b|]; cbn [best_inv] in *.
      * destruct Hinv as (Hin & Hmb & Hmax). split; [apply in_or_app; left; exact Hin|].
        split; [exact Hmb|]. intros e He Hme. apply in_app_or in He.
        destruct He as [He|[<-|[]]]; [auto|contradiction].
      * intros e He. apply in_app_or in He. destruct He as [He|[<-|[]]]; auto.
Qed.

Lemma get_key_loop_spec names realm kvno etype es :
  best_inv names realm kvno etype es (get_key_loop names realm kvno etype es None).
Proof.
  apply (get_key_loop_inv names realm kvno etype es [] None). cbn. intros e [].
Qed.

(* A returned key belongs to an entry of the keytab that matches the request exactly. *)
Theorem get_key_sound es names realm kvno etype key kt kv :
  get_key es names realm kvno etype = Ok (key, kt, kv) ->
  exists e, In e es /\ matches names realm kvno etype e /\
            key = e_key e /\ kt = e_ktype e /\ kv = e_kvno e /\
            (forall e', In e' es -> matches names realm kvno etype e' -> e_ts e' <= e_ts e).
Proof.
  unfold get_key. pose proof (get_key_loop_spec names realm kvno etype es) as H.
  destruct (get_key_loop names realm kvno etype es None) as [b|]; [|discriminate].
  destruct (length (e_key b) <? 1)%nat; [discriminate|].
  intros E; inversion E; subst. cbn in H. destruct H as (Hin & Hm & Hmax).
  exists b; repeat split; auto; apply Hm.
Qed.

(* No matching entry: the look-up fails. *)
Theorem get_key_none es names realm kvno etype :
  (forall e, In e es -> ~ matches names realm kvno etype e) ->
  get_key es names realm kvno etype = Err 20.
Proof.
  intros Hn. unfold get_key. pose proof (get_key_loop_spec names realm kvno etype es) as H.
  destruct (get_key_loop names realm kvno etype es None) as [b|]; [|reflexivity].
  cbn in H. destruct H as (Hin & Hm & _). exfalso; exact (Hn b Hin Hm).
Qed.

(* Some matching entry and no empty key values: the look-up succeeds. *)
Theorem get_key_complete es names realm kvno etype :
  (forall e, In e es -> e_key e <> []) ->
  (exists e, In e es /\ matches names realm kvno etype e) ->
  exists key kt kv, get_key es names realm kvno etype = Ok (key, kt, kv).
Proof.
  intros Hne (e & Hin & Hm). unfold get_key.
  pose proof (get_key_loop_spec names realm kvno etype es) as H.
  destruct (get_key_loop names realm kvno etype es None) as [b|]; cbn in H.
  - destruct H as (Hinb & _ & _). specialize (Hne b Hinb).
    destruct (e_key b) as [|x l]; [congruence|]. cbn. eauto.
  - exfalso; exact (H e Hin Hm).
Qed.

(* Non-vacuity: a concrete keytab with two candidate entries; the newer one is chosen. *)
Example get_key_example :
  let p := mkPrincipal 2 [84;69] [[72];[104;111]] 1 in
  let e1 := mkEntry p 100 1 18 [1;2;3] 1 in
  let e2 := mkEntry p 200 2 18 [4;5;6] 2 in
  get_key [e1; e2] [[72];[104;111]] [84;69] 0 18 = Ok ([4;5;6], 18, 2)
  /\ get_key [e1; e2] [[72];[104;111]] [84;69] 1 18 = Ok ([1;2;3], 18, 1)
  /\ get_key [e1; e2] [[72]] [84;69] 0 18 = Err 20.
Proof. vm_compute. auto. Qed.
