(* Tickets served are the KDC's and still valid; referral chains are bounded. *)
From Gokrb5.lib Require Import Bytes JV.
From Gokrb5.model Require Import ClientSM.

(* ---- served from the cache only while inside the validity period ---- *)
Theorem cache_serves_only_valid s spn now tid s' :
  get_ticket s spn now = (CacheHit tid, s') ->
  exists e, In e (cs_cache s) /\ ce_spn e = spn /\ ce_tid e = tid /\ ce_start e < now < ce_end e /\ s' = s.
Proof.
  unfold get_ticket. destruct (lookup spn (cs_cache s)) as [e|] eqn:L.
  - destruct ((ce_start e <? now) && (now <? ce_end e)) eqn:V.
    + intros H. injection H as <- <-. apply andb_true_iff in V. destruct V as [V1 V2].
      apply Z.ltb_lt in V1, V2. unfold lookup in L. apply find_some in L. destruct L as [Hin Hs].
      apply Z.eqb_eq in Hs. exists e. repeat split; auto.
    + destruct (issue _ _ _); destruct (now <? ce_renew e); discriminate.
  - destruct (issue _ _ _); discriminate.
Qed.

(* ---- every ticket returned was issued by the KDC for the SPN asked for ---- *)
Definition cache_from_log (s : cstate) : Prop :=
  forall e, In e (cs_cache s) -> In (ce_tid e, ce_spn e) (k_log (cs_kdc s)).

Definition tid_of (a : action) : Z := match a with CacheHit t | Renewed t | Fresh t => t end.

Lemma issue_log k spn now e k' :
  issue k spn now = (e, k') ->
  ce_spn e = spn /\ k_log k' = (ce_tid e, spn) :: k_log k.
Proof. unfold issue. intros H. injection H as <- <-. cbn. auto. Qed.

Lemma store_in e c x : In x (store e c) -> x = e \/ In x c.
Proof. unfold store. intros [<-|H]; [left; reflexivity|right]. apply filter_In in H. apply H. Qed.

Theorem get_ticket_from_log s spn now a s' :
  cache_from_log s -> get_ticket s spn now = (a, s') ->
  In (tid_of a, spn) (k_log (cs_kdc s')) /\ cache_from_log s'.
Proof.
  intros Inv. unfold get_ticket.
  assert (forall e k', issue (cs_kdc s) spn now = (e, k') ->
                       In (ce_tid e, spn) (k_log k') /\ cache_from_log (mkCS (store e (cs_cache s)) k')) as Fresh.
  { intros e k' E. destruct (issue_log _ _ _ _ _ E) as [Es El]. split.
    - rewrite El. left; reflexivity.
    - intros x Hx. cbn in *. apply store_in in Hx. rewrite El. destruct Hx as [->|Hx].
      + left. now rewrite Es.
      + right. apply Inv. exact Hx. }
  destruct (lookup spn (cs_cache s)) as [e|] eqn:L.
  - destruct ((ce_start e <? now) && (now <? ce_end e)).
    + intros H. injection H as <- <-. split; [|exact Inv].
      unfold lookup in L. apply find_some in L. destruct L as [Hin Hs]. apply Z.eqb_eq in Hs.
      cbn. rewrite <- Hs. apply Inv. exact Hin.
    + destruct (issue (cs_kdc s) spn now) as [e' k'] eqn:E.
      intros H. injection H as <- <-. cbn [cs_kdc].
      destruct (Fresh e' k' eq_refl) as [F1 F2]. split; [|exact F2].
      destruct (now <? ce_renew e); exact F1.
  - destruct (issue (cs_kdc s) spn now) as [e' k'] eqn:E.
    intros H. injection H as <- <-. cbn [tid_of cs_kdc]. apply (Fresh e' k' eq_refl).
Qed.

(* over every operation sequence *)
Fixpoint cstates (s : cstate) (ops : list cop) : list (cop * option action * cstate) :=
  match ops with
  | [] => []
  | o :: r => let '(a, s') := cstep s o in (o, a, s') :: cstates s' r
  end.

Theorem service_ticket_from_log : forall ops s,
  cache_from_log s ->
  forall o a s', In (o, Some a, s') (cstates s ops) ->
  exists spn now, o = Get spn now /\ In (tid_of a, spn) (k_log (cs_kdc s')).
Proof.
  induction ops as [|o ops IH]; intros s Inv o' a s' Hin; [destruct Hin|].
  cbn [cstates] in Hin. destruct o as [spn now|].
  - cbn [cstep] in Hin. destruct (get_ticket s spn now) as [a0 s0] eqn:E.
    destruct (get_ticket_from_log s spn now a0 s0 Inv E) as [Hlog Inv'].
    destruct Hin as [H|H].
    + injection H as <- <- <-. exists spn, now. auto.
    + eapply IH; eauto.
  - cbn [cstep] in Hin. destruct Hin as [H|H]; [discriminate|].
    eapply IH; [|exact H]. intros e [].
Qed.

Theorem cache_hits_valid_over_histories : forall ops s o tid s',
  In (o, Some (CacheHit tid), s') (cstates s ops) ->
  exists spn now start end_, o = Get spn now /\ start < now < end_.
Proof.
  induction ops as [|o ops IH]; intros s o' tid s' Hin; [destruct Hin|].
  cbn [cstates] in Hin. destruct o as [spn now|].
  - cbn [cstep] in Hin. destruct (get_ticket s spn now) as [a0 s0] eqn:E.
    destruct Hin as [H|H].
    + injection H as <- -> <-. destruct (cache_serves_only_valid _ _ _ _ _ E) as (e & _ & _ & _ & Hv & _).
      exists spn, now, (ce_start e), (ce_end e). auto.
    + eapply IH; eauto.
  - cbn [cstep] in Hin. destruct Hin as [H|H]; [discriminate|]. eapply IH; eauto.
Qed.

(* ---- referral chains: at most 7 TGS requests per call, for every KDC behaviour ---- *)
Lemma tgs_exchange_bound : forall fuel refers i referral,
  (referral <= 6)%nat -> (7 - referral < fuel)%nat ->
  (snd (tgs_exchange fuel refers i referral) <= i + (7 - referral))%nat.
Proof.
  induction fuel as [|f IH]; intros refers i referral Hr Hf; [lia|].
  cbn [tgs_exchange]. destruct (refers i).
  - destruct (Nat.ltb_spec 5 referral).
    + cbn [snd]. lia.
    + specialize (IH refers (S i) (S referral) ltac:(lia) ltac:(lia)). lia.
  - cbn [snd]. lia.
Qed.

Theorem referrals_bounded refers :
  (snd (tgs_exchange 64 refers 0 0) <= 7)%nat.
Proof. pose proof (tgs_exchange_bound 64 refers 0 0). lia. Qed.

(* a chain of n referrals succeeds iff n <= 6 *)
Example referral_chain_examples :
  tgs_exchange 64 (fun i => (i <? 6)%nat) 0 0 = (true, 7%nat) /\
  tgs_exchange 64 (fun i => (i <? 7)%nat) 0 0 = (false, 7%nat) /\
  tgs_exchange 64 (fun _ => true) 0 0 = (false, 7%nat).
Proof. repeat split. Qed.

(* ---- request fields follow the configuration ---- *)
Theorem asreq_fields c now :
  f_till (new_as_req c now) = now + c_ticket_life c /\
  f_rtime (new_as_req c now) = (if c_renew_life c =? 0 then None else Some (now + c_renew_life c)) /\
  f_etypes (new_as_req c now) = c_etypes c.
Proof. repeat split. Qed.

Lemma insert_flag_in x y l : In y (insert_flag x l) <-> y = x \/ In y l.
Proof.
  induction l as [|z l IH]; cbn [insert_flag In]; [intuition|].
  destruct (Z.ltb_spec x z); cbn [In]; [intuition|].
  destruct (Z.eqb_spec x z); cbn [In]; [subst; intuition|]. rewrite IH. intuition.
Qed.

Theorem asreq_flags c now f :
  In f (f_flags (new_as_req c now)) <->
  In f (c_default_opts c) \/ (f = 1 /\ c_forwardable c = true) \/ (f = 15 /\ c_canonicalize c = true) \/
  (f = 3 /\ c_proxiable c = true) \/ (f = 8 /\ c_renew_life c <> 0).
Proof.
  unfold new_as_req. cbn [f_flags].
  assert (forall l, In f (fold_right insert_flag [] l) <-> In f l) as F0.
  { induction l as [|x l IH]; cbn; [tauto|]. rewrite insert_flag_in, IH. intuition. }
  destruct (c_forwardable c), (c_canonicalize c), (c_proxiable c), (Z.eqb_spec (c_renew_life c) 0);
    rewrite ?insert_flag_in, F0; intuition congruence.
Qed.
