(* AES-CBC-CS3 (ciphertext stealing, RFC 3962 / 8009) round trip over an abstract 16-byte block cipher. *)
From Gokrb5.lib Require Import Bytes JV.
From Gokrb5.prim Require CBC.
From Gokrb5.model Require Import Crypto.
From Gokrb5.proofs Require Import CBCGuarded.
Import CBC.

Lemma zeros_length n : length (zeros n) = n.
Proof. unfold zeros; induction n; cbn; auto. Qed.

Lemma xor_zeros_l n x : length x = n -> xor_bytes (zeros n) x = x.
Proof.
  revert x; induction n as [|n IH]; intros [|y x] H; cbn in *; try reflexivity; try lia.
  f_equal. apply IH. lia.
Qed.

Lemma xor_skipn k a b : skipn k (xor_bytes a b) = xor_bytes (skipn k a) (skipn k b).
Proof.
  revert a b; induction k as [|k IH]; intros a b; [reflexivity|].
  destruct a as [|x a], b as [|y b]; cbn [xor_bytes skipn]; try reflexivity.
  - now destruct (skipn k a).
  - apply IH.
Qed.

Lemma last_two_app (r : list bytes) p l : last_two (r ++ [p; l]) = Some (r, p, l).
Proof. unfold last_two. rewrite rev_app_distr. cbn. now rewrite rev_involutive. Qed.

Lemma Forall_len_app n (a b : list bytes) :
  Forall (fun x => length x = n) a -> Forall (fun x => length x = n) b -> Forall (fun x => length x = n) (a ++ b).
Proof. intros. apply Forall_app; auto. Qed.

(* chunks of full blocks followed by one non-empty partial block *)
Lemma chunks_fuel_full_then_partial n : (0 < n)%nat -> forall (bl : list bytes) (t : bytes) f,
  Forall (fun b => length b = n) bl -> (0 < length t <= n)%nat -> (length (concat bl ++ t) <= f)%nat ->
  chunks_fuel f n (concat bl ++ t) = bl ++ [t].
Proof.
  intros Hn bl. induction bl as [|b bl IH]; intros t f Hbl Ht Hf.
  - cbn [concat app] in *. destruct f as [|f]; [lia|]. cbn [chunks_fuel].
    destruct t as [|x t]; [cbn in Ht; lia|].
    rewrite firstn_all2 by lia. rewrite skipn_all2 by lia.
    destruct f; reflexivity.
  - inversion Hbl as [|? ? Hb Hbl']; subst. cbn [concat] in *. rewrite <- app_assoc in *.
    destruct f as [|f]; [rewrite app_length in Hf; lia|]. cbn [chunks_fuel].
    destruct (b ++ concat bl ++ t) as [|z zs] eqn:E.
    + apply (f_equal (@length Z)) in E. rewrite app_length in E. cbn in E. lia.
    + rewrite <- E. rewrite firstn_app_exact, skipn_app_exact. cbn [app]. f_equal.
      apply IH; auto. apply (f_equal (@length Z)) in E. rewrite app_length in E. cbn [length] in *. lia.
Qed.

Lemma chunks_full_then_partial n (bl : list bytes) (t : bytes) :
  (0 < n)%nat -> Forall (fun b => length b = n) bl -> (0 < length t <= n)%nat ->
  chunks n (concat bl ++ t) = bl ++ [t].
Proof. intros. unfold chunks. apply chunks_fuel_full_then_partial; auto. Qed.

Lemma last_default_irrelevant {A} (l : list A) d d' : l <> [] -> last l d = last l d'.
Proof.
  induction l as [|x l IH]; intros H; [congruence|].
  destruct l as [|y l]; [reflexivity|]. cbn [last] in *. apply IH. discriminate.
Qed.

Lemma last_cons_default {A} (l : list A) c d : last (c :: l) d = last l c.
Proof.
  destruct l as [|x l]; [reflexivity|].
  change (last (c :: x :: l) d) with (last (x :: l) d).
  apply last_default_irrelevant. discriminate.
Qed.

Section CTS.
  Variables enc dec : bytes -> bytes.
  Hypothesis dec_enc : forall b, length b = 16%nat -> wf_bytes b -> dec (enc b) = b.
  Hypothesis enc_length : forall b, length b = 16%nat -> length (enc b) = 16%nat.
  Hypothesis enc_wf : forall b, length b = 16%nat -> wf_bytes b -> wf_bytes (enc b).

  Lemma zeros16 : length (zeros 16) = 16%nat.
  Proof. apply zeros_length. Qed.

  (* the CBC ciphertext blocks of  body ++ [last]  *)
  Lemma enc_blocks_snoc prev (body : list bytes) lastb :
    cbc_enc_blocks enc prev (body ++ [lastb]) =
    cbc_enc_blocks enc prev body ++
      [enc (xor_bytes lastb (last (cbc_enc_blocks enc prev body) prev))].
  Proof.
    revert prev; induction body as [|b body IH]; intros prev; cbn [app cbc_enc_blocks]; [reflexivity|].
    rewrite IH. cbn [app]. rewrite last_cons_default. reflexivity.
  Qed.

  Lemma last_enc_blocks_length prev (body : list bytes) :
    length prev = 16%nat -> Forall (fun b => length b = 16%nat) body ->
    length (last (cbc_enc_blocks enc prev body) prev) = 16%nat.
  Proof.
    intros Hp Hb.
    pose proof (cbc_enc_blocks_lengths enc 16 enc_length prev body Hp Hb) as F.
    destruct (cbc_enc_blocks enc prev body) as [|c cs] eqn:E; [exact Hp|].
    assert (In (last (c :: cs) prev) (c :: cs)) as Hin.
    { clear. revert c. induction cs as [|d cs IH]; intros c; [left; reflexivity|]. right. apply IH. }
    rewrite Forall_forall in F. apply F. exact Hin.
  Qed.

  (* Round trip for a message of at least two blocks: full blocks `body` (non-empty) and a last block `t`
     of 1..16 bytes. *)
  Theorem cts_roundtrip_blocks (body : list bytes) (t : bytes) :
    Forall (fun b => length b = 16%nat) body -> body <> [] -> (0 < length t <= 16)%nat ->
    Forall wf_bytes body -> wf_bytes t ->
    cts_decrypt dec (cts_encrypt enc (concat body ++ t)) = Ok (concat body ++ t).
  Proof.
    intros Hbody Hne Ht Wbody Wt.
    set (k := length t).
    set (tp := t ++ zeros (16 - k)).
    assert (Htp : length tp = 16%nat) by (unfold tp; rewrite app_length, zeros_length; unfold k; lia).
    assert (Hn : length (concat body ++ t) = (length body * 16 + k)%nat).
    { rewrite app_length, (concat_length_const 16 body Hbody). reflexivity. }
    assert (Hb1 : (1 <= length body)%nat) by (destruct body; [congruence|cbn; lia]).
    (* the padded plaintext and its blocks *)
    assert (Hz : zpad 16 (concat body ++ t) = concat (body ++ [tp])).
    { unfold zpad. rewrite Hn. rewrite concat_app. cbn [concat]. rewrite app_nil_r. unfold tp.
      rewrite <- app_assoc. do 2 f_equal. f_equal.
      replace ((length body * 16 + k) mod 16)%nat with (k mod 16)%nat
        by (rewrite Nat.add_comm, Nat.mod_add; lia).
      destruct (Nat.eq_dec k 16) as [->|Hk]; [reflexivity|].
      rewrite (Nat.mod_small k 16) by (unfold k in *; lia). rewrite Nat.mod_small by (unfold k in *; lia). reflexivity. }
    assert (Hblocks : Forall (fun b => length b = 16%nat) (body ++ [tp])).
    { apply Forall_len_app; [exact Hbody|]. constructor; [exact Htp|constructor]. }
    unfold cts_encrypt. rewrite Hz. unfold cbc_encrypt.
    rewrite chunks_of_concat by (auto; lia).
    destruct (Nat.leb_spec (length (concat body ++ t)) 16) as [Hle|_]; [unfold k in *; lia|].
    (* ciphertext blocks *)
    rewrite enc_blocks_snoc.
    set (cs := cbc_enc_blocks enc (zeros 16) body).
    set (cprev := last cs (zeros 16)).
    set (clast := enc (xor_bytes tp cprev)).
    assert (Hcs : Forall (fun b => length b = 16%nat) cs)
      by (apply (cbc_enc_blocks_lengths enc 16 enc_length); [apply zeros16|exact Hbody]).
    assert (Hcprev : length cprev = 16%nat) by (apply last_enc_blocks_length; [apply zeros16|exact Hbody]).
    assert (Hx : length (xor_bytes tp cprev) = 16%nat) by (rewrite xor_bytes_length_eq; lia).
    assert (Hclast : length clast = 16%nat) by (apply enc_length; exact Hx).
    assert (Wtp : wf_bytes tp) by (unfold tp; apply wf_bytes_app; split; [exact Wt|apply zeros_wf]).
    assert (Wcs : Forall wf_bytes cs)
      by (apply (cbc_enc_blocks_wf enc 16 enc_length enc_wf); auto using zeros16, zeros_wf).
    assert (Wcprev : wf_bytes cprev) by (apply wf_last; [exact Wcs|apply zeros_wf]).
    assert (Wx : wf_bytes (xor_bytes tp cprev)) by (apply xor_bytes_wf; assumption).
    assert (Hall : Forall (fun b => length b = 16%nat) (cs ++ [clast]))
      by (apply Forall_len_app; [exact Hcs|constructor; [exact Hclast|constructor]]).
    rewrite chunks_of_concat by (auto; lia).
    (* cs is non-empty: split off its last block *)
    assert (Hcsne : cs <> []).
    { unfold cs. destruct body as [|b0 body0]; [congruence|]. cbn. discriminate. }
    destruct (exists_last Hcsne) as (r & cl1 & Ecs).
    assert (cprev = cl1) as Ecp by (unfold cprev; rewrite Ecs; apply last_last).
    rewrite Ecs, <- app_assoc. cbn [app]. rewrite last_two_app.
    assert (Hr : Forall (fun b => length b = 16%nat) r /\ length cl1 = 16%nat).
    { rewrite Ecs in Hcs. apply Forall_app in Hcs. destruct Hcs as [A B]. inversion B; auto. }
    destruct Hr as [Hr Hcl1].
    assert (Hlenr : length body = S (length r)).
    { unfold cs in Ecs. apply (f_equal (@length bytes)) in Ecs.
      rewrite cbc_enc_blocks_count, app_length in Ecs. cbn in Ecs. lia. }
    (* the transmitted ciphertext *)
    assert (Hout : firstn (length (concat body ++ t)) (concat (r ++ [clast; cl1]))
                   = concat (r ++ [clast]) ++ firstn k cl1).
    { rewrite Hn, !concat_app. cbn [concat]. rewrite !app_nil_r.
      rewrite app_assoc. rewrite firstn_app.
      assert (length (concat r ++ clast) = (length body * 16)%nat) as L.
      { rewrite app_length, (concat_length_const 16 r Hr), Hclast, Hlenr. lia. }
      rewrite L. rewrite firstn_all2 by lia.
      replace (length body * 16 + k - length body * 16)%nat with k by lia. reflexivity. }
    rewrite Hout. clear Hout.
    (* decrypt *)
    unfold cts_decrypt.
    assert (Hlenout : length (concat (r ++ [clast]) ++ firstn k cl1) = (length body * 16 + k)%nat).
    { rewrite app_length, (concat_length_const 16 (r ++ [clast])), app_length, firstn_length, Hcl1.
      - cbn [length]. unfold k in *. rewrite Hlenr. lia.
      - apply Forall_len_app; [exact Hr|constructor; [exact Hclast|constructor]]. }
    rewrite Hlenout.
    destruct (Nat.ltb_spec (length body * 16 + k) 16); [lia|].
    destruct (Nat.eqb_spec (length body * 16 + k) 16); [unfold k in *; lia|].
    rewrite chunks_full_then_partial;
      [|lia|apply Forall_len_app; [exact Hr|constructor; [exact Hclast|constructor]]|rewrite firstn_length, Hcl1; unfold k in *; lia].
    rewrite <- app_assoc. cbn [app]. rewrite last_two_app.
    (* the stolen tail is recovered from dec clast *)
    assert (Hsteal : firstn k cl1 ++ skipn (length (firstn k cl1)) (dec clast) = cl1).
    { rewrite firstn_length, Hcl1. replace (Nat.min k 16) with k by (unfold k in *; lia).
      unfold clast. rewrite dec_enc by assumption. rewrite xor_skipn.
      unfold tp. rewrite skipn_app, skipn_all2 by (unfold k; lia).
      replace (k - length t)%nat with 0%nat by (unfold k; lia). cbn [skipn app].
      rewrite xor_zeros_l by (rewrite skipn_length, Hcprev; reflexivity).
      rewrite Ecp. apply firstn_skipn. }
    rewrite Hsteal.
    (* now an ordinary CBC decryption of the un-swapped ciphertext *)
    unfold cbc_decrypt.
    match goal with |- context [chunks 16 (concat ?l)] =>
      replace l with (cs ++ [clast]) by (rewrite Ecs, <- app_assoc; reflexivity) end.
    rewrite (chunks_of_concat 16 (cs ++ [clast])); [|lia|exact Hall].
    unfold cs, clast, cprev. rewrite <- enc_blocks_snoc.
    rewrite (cbc_dec_enc_blocks_g enc dec 16 dec_enc enc_length enc_wf);
      [|apply zeros16|apply zeros_wf|exact Hblocks|apply Forall_app; split; [exact Wbody|constructor; [exact Wtp|constructor]]].
    f_equal. rewrite concat_app. cbn [concat]. rewrite app_nil_r. unfold tp. rewrite app_assoc.
    rewrite <- Hn. rewrite firstn_app, Nat.sub_diag. cbn [firstn]. rewrite app_nil_r. apply firstn_all.
  Qed.

  (* every message of at least one block *)
  Theorem cts_roundtrip d : (16 <= length d)%nat -> wf_bytes d -> cts_decrypt dec (cts_encrypt enc d) = Ok d.
  Proof.
    intros Hlen Wd. destruct (Nat.eq_dec (length d) 16) as [E16|N16].
    - (* exactly one block: plain CBC *)
      unfold cts_encrypt, zpad. rewrite E16. cbn [Nat.modulo Nat.leb]. 
      replace ((16 - 16 mod 16) mod 16)%nat with 0%nat by reflexivity.
      unfold zeros at 2. cbn [repeat]. rewrite app_nil_r.
      assert (length (cbc_encrypt enc 16 (zeros 16) d) = 16%nat) as L.
      { rewrite (cbc_encrypt_length enc 16 enc_length (zeros 16) d 1); [exact E16|lia|apply zeros16|lia]. }
      unfold cts_decrypt. rewrite L. cbn [Nat.ltb Nat.leb Nat.eqb].
      rewrite (cbc_decrypt_encrypt_g enc dec 16 dec_enc enc_length enc_wf (zeros 16) d 1);
        [reflexivity|lia|apply zeros16|apply zeros_wf|lia|exact Wd].
    - set (m := ((length d - 1) / 16)%nat).
      assert (Hm : (1 <= m /\ 16 * m < length d <= 16 * m + 16)%nat).
      { unfold m. pose proof (Nat.div_mod (length d - 1) 16 ltac:(lia)) as D.
        pose proof (Nat.mod_upper_bound (length d - 1) 16 ltac:(lia)) as U.
        assert (16 <= length d - 1)%nat as G by lia.
        pose proof (Nat.div_le_mono 16 (length d - 1) 16 ltac:(lia) G) as Q.
        rewrite Nat.div_same in Q by lia. lia. }
      clearbody m.
      set (hd := firstn (m * 16) d). set (t := skipn (m * 16) d).
      assert (Hhd : length hd = (m * 16)%nat) by (unfold hd; rewrite firstn_length; lia).
      assert (Ed : d = concat (chunks 16 hd) ++ t).
      { rewrite concat_chunks by lia. unfold hd, t. symmetry. apply firstn_skipn. }
      rewrite Ed. apply cts_roundtrip_blocks.
      + apply (chunks_lengths 16 m); [lia|exact Hhd].
      + intros C. apply (f_equal (@concat Z)) in C. rewrite concat_chunks in C by lia. cbn [concat] in C.
        rewrite C in Hhd. cbn [length] in Hhd. lia.
      + unfold t. rewrite skipn_length. lia.
      + apply wf_chunks. unfold hd. apply wf_firstn, Wd.
      + unfold t. apply wf_skipn, Wd.
  Qed.
End CTS.
