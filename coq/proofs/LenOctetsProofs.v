(* Gokrb5.proofs.LenOctetsProofs — the length-octet helpers of asn1tools: exact behaviour of
   MarshalLengthBytes over the whole int64 range, DER minimality, round trip through GetLengthFromASN. *)
From Gokrb5.lib Require Import Bytes JV.
From Gokrb5.model Require Import LenOctets.
From Gokrb5.model Require DER.

Local Open Scope Z_scope.

(* ------------------------------------------------------------------ 64-bit wrap *)
Definition M64 : Z := 2 ^ 64.

Lemma sint_id w z : 0 < w -> - 2 ^ (w - 1) <= z < 2 ^ (w - 1) -> sint w z = z.
Proof.
  intros Hw Hz. unfold sint.
  assert (H2 : 2 ^ w = 2 * 2 ^ (w - 1)).
  { replace w with (1 + (w - 1)) at 1 by lia. rewrite Z.pow_add_r by lia. reflexivity. }
  assert (Hp : 0 < 2 ^ (w - 1)) by (apply Z.pow_pos_nonneg; lia).
  destruct (Z_lt_le_dec z 0) as [Hn | Hn].
  - assert (Hm : z mod 2 ^ w = z + 2 ^ w).
    { symmetry. apply Z.mod_unique with (q := -1); lia. }
    rewrite Hm. destruct (Z.ltb_spec (z + 2 ^ w) (2 ^ (w - 1))); lia.
  - rewrite Z.mod_small by lia. destruct (Z.ltb_spec z (2 ^ (w - 1))); lia.
Qed.

Lemma i64_id z : - 2 ^ 63 <= z < 2 ^ 63 -> i64 z = z.
Proof. intros. unfold i64. apply sint_id; simpl; lia. Qed.

Lemma i64_range z : - 2 ^ 63 <= i64 z < 2 ^ 63.
Proof. unfold i64. pose proof (sint_range 64 z). simpl in *. lia. Qed.

Lemma i64_mod z : (i64 z) mod M64 = z mod M64.
Proof. unfold i64, M64. apply sint_wrap. lia. Qed.

Lemma i64_congr a b : a mod M64 = b mod M64 -> i64 a = i64 b.
Proof. unfold i64, sint, M64. intros H. rewrite H. reflexivity. Qed.

Lemma eqm_add a a' b b' : a mod M64 = a' mod M64 -> b mod M64 = b' mod M64 -> (a + b) mod M64 = (a' + b') mod M64.
Proof. intros H1 H2. rewrite Zplus_mod, H1, H2, <- Zplus_mod. reflexivity. Qed.

Lemma eqm_mul a a' b b' : a mod M64 = a' mod M64 -> b mod M64 = b' mod M64 -> (a * b) mod M64 = (a' * b') mod M64.
Proof. intros H1 H2. rewrite Zmult_mod, H1, H2, <- Zmult_mod. reflexivity. Qed.

(* ------------------------------------------------------------------ powers of 256 *)
Lemma pow256_pos k : 0 <= k -> 0 < 256 ^ k.
Proof. intros. apply Z.pow_pos_nonneg; lia. Qed.

Lemma pow256_S k : 0 <= k -> 256 ^ (k + 1) = 256 ^ k * 256.
Proof. intros. rewrite Z.pow_add_r by lia. reflexivity. Qed.

(* ------------------------------------------------------------------ one iteration of the loop *)
(* state invariant: p = 256^k, l = p * q with q > 0 *)
Lemma ml_step f k q b :
  0 <= k < 7 -> 0 < q -> 256 ^ k * q < 2 ^ 63 ->
  ml_loop (S f) (256 ^ k * q) (256 ^ k) b =
    if q / 256 =? 0 then Ok ((q mod 256) :: b)
    else ml_loop f (256 ^ (k + 1) * (q / 256)) (256 ^ (k + 1)) ((q mod 256) :: b).
Proof.
  intros Hk Hq Hlt.
  pose proof (pow256_pos k ltac:(lia)) as Hp.
  assert (Hp7 : 256 ^ (k + 1) <= 256 ^ 7) by (apply Z.pow_le_mono_r; lia).
  assert (Hp1 : 0 < 256 ^ (k + 1)) by (apply pow256_pos; lia).
  cbn [ml_loop].
  rewrite <- pow256_S by lia.
  rewrite i64_id by (change (256 ^ 7) with 72057594037927936 in Hp7; lia).
  destruct (Z.eqb_spec (256 ^ (k + 1)) 0); [lia|].
  pose proof (Z.mod_pos_bound q 256 ltac:(lia)) as Hm.
  pose proof (Z.div_mod q 256 ltac:(lia)) as Hdm.
  assert (Hq0 : 0 <= q / 256) by (apply Z.div_pos; lia).
  assert (Hrem : Z.rem (256 ^ k * q) (256 ^ (k + 1)) = 256 ^ k * (q mod 256)).
  { rewrite Z.rem_mod_nonneg by nia. rewrite pow256_S by lia.
    rewrite Zmult_mod_distr_l. reflexivity. }
  rewrite Hrem.
  assert (Hquot : Z.quot (256 ^ k * (q mod 256)) (256 ^ k) = q mod 256).
  { rewrite Z.quot_div_nonneg by nia. rewrite Z.mul_comm. apply Z_div_mult. lia. }
  rewrite Hquot. rewrite (Z.mod_small (q mod 256)) by lia.
  assert (Hl' : 256 ^ k * q - 256 ^ k * (q mod 256) = 256 ^ (k + 1) * (q / 256)).
  { rewrite pow256_S by lia. nia. }
  rewrite Hl'.
  assert (Hle : 256 ^ (k + 1) * (q / 256) <= 256 ^ k * q) by (rewrite pow256_S by lia; nia).
  rewrite i64_id by nia.
  destruct (Z.eqb_spec (q / 256) 0) as [E | E].
  - rewrite E, Z.mul_0_r. reflexivity.
  - destruct (Z.leb_spec (256 ^ (k + 1) * (q / 256)) 0); [nia | reflexivity].
Qed.

Lemma ml_step7 f q b : ml_loop (S f) (256 ^ 7 * q) (256 ^ 7) b = Panic site_div0.
Proof. cbn [ml_loop]. replace (i64 (256 ^ 7 * 256)) with 0 by (vm_compute; reflexivity). reflexivity. Qed.

Lemma min_be_zero f acc : min_be f 0 acc = acc.
Proof. destruct f; reflexivity. Qed.

(* lengths below 2^56: the loop yields the minimal big-endian digits *)
Lemma ml_loop_small : forall f k q b,
  0 <= k -> 0 < q < 256 ^ Z.of_nat f -> 256 ^ k * q < 256 ^ 7 ->
  ml_loop f (256 ^ k * q) (256 ^ k) b = Ok (min_be f q b).
Proof.
  induction f as [| f IH]; intros k q b Hk Hq Hlt.
  - simpl in Hq. lia.
  - pose proof (pow256_pos k Hk) as Hp.
    assert (Hk7 : k < 7).
    { apply (Z.pow_lt_mono_r_iff 256); [lia | lia |]. nia. }
    rewrite ml_step by (try lia; change (256 ^ 7) with 72057594037927936 in Hlt; lia).
    cbn [min_be]. destruct (Z.leb_spec q 0); [lia|].
    assert (Hq0 : 0 <= q / 256) by (apply Z.div_pos; lia).
    destruct (Z.eqb_spec (q / 256) 0) as [E | E].
    + rewrite E, min_be_zero. reflexivity.
    + apply IH; try lia.
      * split; [lia|]. apply Z.div_lt_upper_bound; [lia|].
        rewrite Nat2Z.inj_succ, <- Z.add_1_r, pow256_S in Hq by lia. lia.
      * pose proof (Z.div_mod q 256 ltac:(lia)). pose proof (Z.mod_pos_bound q 256 ltac:(lia)).
        rewrite pow256_S by lia. nia.
Qed.

(* lengths from 2^56: the eighth iteration divides by zero *)
Lemma ml_loop_huge : forall j f q b,
  (j <= 7)%nat -> (j < f)%nat -> 256 ^ Z.of_nat j <= q -> 256 ^ (7 - Z.of_nat j) * q < 2 ^ 63 ->
  ml_loop f (256 ^ (7 - Z.of_nat j) * q) (256 ^ (7 - Z.of_nat j)) b = Panic site_div0.
Proof.
  induction j as [| j IH]; intros f q b Hj7 Hf Hq Hlt.
  - destruct f; [lia|]. simpl Z.of_nat. rewrite Z.sub_0_r. apply ml_step7.
  - destruct f; [lia|].
    rewrite Nat2Z.inj_succ, <- Z.add_1_r in *.
    pose proof (pow256_pos (Z.of_nat j) ltac:(lia)) as Hpj.
    rewrite pow256_S in Hq by lia.
    assert (Hdiv : 256 ^ Z.of_nat j <= q / 256) by (apply Z.div_le_lower_bound; lia).
    rewrite ml_step by lia.
    destruct (Z.eqb_spec (q / 256) 0); [lia|].
    replace (7 - (Z.of_nat j + 1) + 1) with (7 - Z.of_nat j) by lia.
    apply IH; try lia.
    pose proof (pow256_pos (7 - (Z.of_nat j + 1)) ltac:(lia)) as Hpk.
    replace (7 - Z.of_nat j) with (7 - (Z.of_nat j + 1) + 1) by lia.
    rewrite pow256_S by lia.
    pose proof (Z.div_mod q 256 ltac:(lia)). pose proof (Z.mod_pos_bound q 256 ltac:(lia)). nia.
Qed.

(* ------------------------------------------------------------------ min_be *)
Lemma min_be_fuel : forall f1 f2 q acc,
  (f1 <= f2)%nat -> 0 <= q < 256 ^ Z.of_nat f1 -> min_be f1 q acc = min_be f2 q acc.
Proof.
  induction f1 as [| f1 IH]; intros f2 q acc Hf Hq.
  - simpl in Hq. replace q with 0 by lia. rewrite !min_be_zero. reflexivity.
  - destruct f2; [lia|]. cbn [min_be]. destruct (Z.leb_spec q 0); [reflexivity|].
    apply IH; [lia|]. split; [apply Z.div_pos; lia|].
    apply Z.div_lt_upper_bound; [lia|].
    rewrite Nat2Z.inj_succ, <- Z.add_1_r, pow256_S in Hq by lia. lia.
Qed.

Lemma min_be_length : forall f q acc, (length (min_be f q acc) <= f + length acc)%nat.
Proof.
  induction f; intros; cbn [min_be]; [lia|]. destruct (q <=? 0); [lia|].
  specialize (IHf (q / 256) ((q mod 256) :: acc)). simpl in IHf. lia.
Qed.

Lemma min_be_wf : forall f q acc, wf_bytes acc -> wf_bytes (min_be f q acc).
Proof.
  induction f; intros q acc H; cbn [min_be]; [exact H|]. destruct (q <=? 0); [exact H|].
  apply IHf. constructor; [|exact H]. apply Z.mod_pos_bound. lia.
Qed.

Lemma be_val_acc_lin : forall l a, be_val_acc a l = a * 256 ^ zlen l + be_val l.
Proof.
  unfold be_val. induction l as [| x l IH]; intros a.
  - simpl. unfold zlen. simpl. lia.
  - cbn [be_val_acc]. rewrite IH. rewrite (IH (0 * 256 + x)). rewrite zlen_cons.
    pose proof (zlen_nonneg l). rewrite (Z.add_comm 1), pow256_S by lia. ring.
Qed.

Lemma be_val_cons x l : be_val (x :: l) = x * 256 ^ zlen l + be_val l.
Proof. unfold be_val at 1. cbn [be_val_acc]. rewrite be_val_acc_lin. f_equal. Qed.

Lemma min_be_val : forall f q acc,
  0 <= q < 256 ^ Z.of_nat f -> be_val (min_be f q acc) = q * 256 ^ zlen acc + be_val acc.
Proof.
  induction f as [| f IH]; intros q acc Hq.
  - simpl in Hq. replace q with 0 by lia. simpl. lia.
  - cbn [min_be]. destruct (Z.leb_spec q 0); [replace q with 0 by lia; lia|].
    rewrite IH.
    + rewrite be_val_cons, zlen_cons. pose proof (zlen_nonneg acc).
      rewrite (Z.add_comm 1), pow256_S by lia.
      pose proof (Z.div_mod q 256 ltac:(lia)). nia.
    + split; [apply Z.div_pos; lia|]. apply Z.div_lt_upper_bound; [lia|].
      rewrite Nat2Z.inj_succ, <- Z.add_1_r, pow256_S in Hq by lia. lia.
Qed.

Lemma min_be_head : forall f q acc,
  0 < q < 256 ^ Z.of_nat f -> exists x r, min_be f q acc = x :: r /\ x <> 0.
Proof.
  induction f as [| f IH]; intros q acc Hq.
  - simpl in Hq. lia.
  - cbn [min_be]. destruct (Z.leb_spec q 0); [lia|].
    destruct (Z.eq_dec (q / 256) 0) as [E | E].
    + rewrite E, min_be_zero. exists (q mod 256), acc. split; [reflexivity|].
      pose proof (Z.div_mod q 256 ltac:(lia)). lia.
    + apply IH. assert (0 <= q / 256) by (apply Z.div_pos; lia). split; [lia|].
      apply Z.div_lt_upper_bound; [lia|].
      rewrite Nat2Z.inj_succ, <- Z.add_1_r, pow256_S in Hq by lia. lia.
Qed.

(* ------------------------------------------------------------------ MarshalLengthBytes, whole int64 range *)
Theorem marshal_len_short l : l <= 127 -> marshal_len l = Ok [l mod 256].
Proof. intros. unfold marshal_len. destruct (Z.leb_spec l 127); [reflexivity | lia]. Qed.

Theorem marshal_len_is_der l : 0 <= l < 2 ^ 56 -> marshal_len l = Ok (der_len_spec l).
Proof.
  intros Hl. unfold marshal_len, der_len_spec.
  destruct (Z.leb_spec l 127).
  - destruct (Z.ltb_spec l 128); [|lia]. rewrite Z.mod_small by lia. reflexivity.
  - destruct (Z.ltb_spec l 128); [lia|].
    pose proof (ml_loop_small 9 0 l [] ltac:(lia)) as H1.
    change (256 ^ 0) with 1 in H1. rewrite Z.mul_1_l in H1.
    change (2 ^ 56) with 72057594037927936 in Hl.
    rewrite H1 by (change (256 ^ Z.of_nat 9) with 4722366482869645213696; change (256 ^ 7) with 72057594037927936; lia).
    assert (E : min_be 64 l [] = min_be 9 l []).
    { symmetry. apply min_be_fuel; [lia|]. change (256 ^ Z.of_nat 9) with 4722366482869645213696. lia. }
    rewrite E.
    pose proof (min_be_length 9 l []) as HL. cbn [length] in HL.
    rewrite Z.mod_small by (unfold zlen; lia).
    reflexivity.
Qed.

Theorem marshal_len_huge_panics l : 2 ^ 56 <= l < 2 ^ 63 -> marshal_len l = Panic site_div0.
Proof.
  intros Hl. unfold marshal_len.
  change (2 ^ 56) with 72057594037927936 in Hl.
  destruct (Z.leb_spec l 127); [lia|].
  pose proof (ml_loop_huge 7 9 l [] ltac:(lia) ltac:(lia)) as H1.
  change (7 - Z.of_nat 7) with 0 in H1. change (256 ^ 0) with 1 in H1. rewrite Z.mul_1_l in H1.
  rewrite H1; [reflexivity | change (256 ^ Z.of_nat 7) with 72057594037927936; lia | lia].
Qed.

(* the fuel of the model's loop is never the reason for an outcome *)
Corollary marshal_len_never_out_of_fuel l : - 2 ^ 63 <= l < 2 ^ 63 -> marshal_len l <> Panic site_fuel.
Proof.
  intros Hl. destruct (Z_le_gt_dec l 127).
  - rewrite marshal_len_short by lia. discriminate.
  - destruct (Z_lt_le_dec l (2 ^ 56)).
    + rewrite marshal_len_is_der by lia. discriminate.
    + rewrite marshal_len_huge_panics by lia. discriminate.
Qed.

(* ------------------------------------------------------------------ der_len_spec is the DER length *)
Theorem der_len_is_der l : 0 <= l < 256 ^ 64 -> is_der_len l (der_len_spec l).
Proof.
  intros Hl. unfold der_len_spec, is_der_len.
  destruct (Z.ltb_spec l 128); [left; split; [lia | reflexivity]|].
  right. split; [lia|]. exists (min_be 64 l []).
  split; [reflexivity|].
  split; [apply min_be_wf; constructor|].
  split; [rewrite min_be_val by (simpl Z.of_nat; lia); unfold be_val; simpl; lia|].
  destruct (min_be_head 64 l [] ltac:(simpl Z.of_nat; lia)) as (x & r & E & Hx).
  split.
  - pose proof (min_be_length 64 l []) as HL. rewrite E in *. unfold zlen. cbn [length] in *. lia.
  - intros x' r' E'. rewrite E in E'. inversion E'. subst. exact Hx.
Qed.

Lemma der_len_body_length l : 128 <= l < 2 ^ 63 -> (length (min_be 64 l []) <= 8)%nat.
Proof.
  intros Hl. rewrite <- (min_be_fuel 8 64) by (try lia; change (256 ^ Z.of_nat 8) with 18446744073709551616; lia).
  pose proof (min_be_length 8 l []) as HL. cbn [length] in HL. lia.
Qed.

(* ------------------------------------------------------------------ GetLengthFromASN *)
Lemma gl_loop_mod : forall xs l base,
  (gl_loop xs l base) mod M64 = (l + le_val xs * base) mod M64.
Proof.
  induction xs as [| x r IH]; intros l base; cbn [gl_loop le_val].
  - f_equal. lia.
  - rewrite IH.
    replace (l + (x + 256 * le_val r) * base) with ((l + x * base) + le_val r * (base * 256)) by ring.
    apply eqm_add.
    + rewrite i64_mod. apply eqm_add; [reflexivity | apply i64_mod].
    + apply eqm_mul; [reflexivity | apply i64_mod].
Qed.

Lemma gl_loop_range : forall xs l base, - 2 ^ 63 <= l < 2 ^ 63 -> - 2 ^ 63 <= gl_loop xs l base < 2 ^ 63.
Proof. induction xs; intros; cbn [gl_loop]; [assumption|]. apply IHxs. apply i64_range. Qed.

(* the value returned for ANY length octets: the big-endian value wrapped to a signed 64-bit int *)
Lemma gl_loop_be lb : gl_loop (rev lb) 0 1 = i64 (be_val lb).
Proof.
  rewrite <- (i64_id (gl_loop (rev lb) 0 1)) by (apply gl_loop_range; lia).
  apply i64_congr. rewrite gl_loop_mod.
  rewrite <- be_val_rev, rev_involutive. f_equal. lia.
Qed.

Lemma gindex_1 {A} s (t x : A) r : gindex s (t :: x :: r) 1 = Ok x.
Proof. reflexivity. Qed.

Theorem get_length_general t b1 lb r :
  128 <= b1 -> zlen lb = b1 - 128 ->
  get_length (t :: b1 :: lb ++ r) = Ok (i64 (be_val lb)).
Proof.
  intros Hb Hn. unfold get_length. rewrite gindex_1. cbn [bind].
  destruct (Z.leb_spec b1 127); [lia|].
  unfold gslice.
  assert (Hlen : zlen (t :: b1 :: lb ++ r) = 2 + zlen lb + zlen r) by (rewrite !zlen_cons, zlen_app; lia).
  pose proof (zlen_nonneg r). pose proof (zlen_nonneg lb).
  replace ((0 <=? 2) && (2 <=? 2 + b1 - 128) && (2 + b1 - 128 <=? zlen (t :: b1 :: lb ++ r))) with true.
  2:{ symmetry. rewrite !andb_true_iff, !Z.leb_le. lia. }
  cbn [bind]. unfold slice.
  replace (Z.to_nat (2 + b1 - 128 - 2)) with (length lb) by (unfold zlen in Hn; lia).
  change (skipn (Z.to_nat 2) (t :: b1 :: lb ++ r)) with (lb ++ r).
  rewrite firstn_app_exact. rewrite gl_loop_be. reflexivity.
Qed.

(* Round trip.  GetLengthFromASN takes a whole TLV with a one-octet identifier t: identifier, the length
   octets, then anything (normally the contents). *)
Theorem len_octets_roundtrip_der t l r : 0 <= l < 2 ^ 63 -> get_length (t :: der_len_spec l ++ r) = Ok l.
Proof.
  intros Hl. unfold der_len_spec. destruct (Z.ltb_spec l 128).
  - cbn [app]. unfold get_length. rewrite gindex_1. cbn [bind].
    destruct (Z.leb_spec l 127); [reflexivity | lia].
  - cbn [app]. pose proof (der_len_body_length l ltac:(lia)).
    rewrite get_length_general by (unfold zlen; lia).
    change (2 ^ 63) with 9223372036854775808 in Hl.
    rewrite min_be_val by (simpl Z.of_nat; lia).
    replace (l * 256 ^ zlen (@nil Z) + be_val []) with l by (unfold zlen, be_val; simpl; lia).
    rewrite i64_id by lia. reflexivity.
Qed.

Theorem len_octets_roundtrip t l m r :
  0 <= l < 2 ^ 56 -> marshal_len l = Ok m -> get_length (t :: m ++ r) = Ok l.
Proof.
  intros Hl Hm. rewrite marshal_len_is_der in Hm by lia. inversion Hm; subst.
  apply len_octets_roundtrip_der. lia.
Qed.

Theorem len_hdr_bytes_der t l r : 0 <= l < 2 ^ 63 -> len_hdr_bytes (t :: der_len_spec l ++ r) = Ok (zlen (der_len_spec l)).
Proof.
  intros Hl. unfold der_len_spec. destruct (Z.ltb_spec l 128).
  - cbn [app]. unfold len_hdr_bytes. rewrite gindex_1. cbn [bind].
    destruct (Z.leb_spec l 127); [reflexivity | lia].
  - cbn [app]. unfold len_hdr_bytes. rewrite gindex_1. cbn [bind].
    destruct (Z.leb_spec (128 + zlen (min_be 64 l [])) 127); [unfold zlen in *; lia|].
    rewrite zlen_cons. f_equal. lia.
Qed.

(* both helpers panic on fewer than two octets; GetLengthFromASN panics when the announced length octets
   are not all there *)
Theorem get_length_short_panics b : zlen b < 2 -> get_length b = Panic 2 /\ len_hdr_bytes b = Panic 4.
Proof.
  intros H. destruct b as [| x [| y b]]; [split; reflexivity | split; reflexivity |].
  rewrite !zlen_cons in H. pose proof (zlen_nonneg b). lia.
Qed.

(* AddASNAppTag output parses back: identifier 0x60+tag, then the DER length of the contents *)
Theorem add_app_tag_shape b tag : 0 <= tag < 31 -> zlen b < 2 ^ 63 ->
  add_app_tag b tag = (96 + tag) :: der_len_spec (zlen b) ++ b /\
  get_length (add_app_tag b tag) = Ok (zlen b).
Proof.
  intros Ht Hb. unfold add_app_tag, ident_octets.
  destruct (Z.ltb_spec tag 31); [|lia]. cbn [app].
  split; [reflexivity|]. apply len_octets_roundtrip_der. pose proof (zlen_nonneg b). lia.
Qed.

(* ------------------------------------------------------------------ link to the codec's TLV layer (model/DER.v) *)
Lemma be_min_min_be : forall f g n acc,
  0 <= n < 2 ^ Z.of_nat f -> n < 256 ^ Z.of_nat g -> DER.be_min f n acc = min_be g n acc.
Proof.
  induction f as [| f IH]; intros g n acc Hf Hg.
  - simpl in Hf. replace n with 0 by lia. rewrite min_be_zero. reflexivity.
  - cbn [DER.be_min]. destruct g as [| g].
    + simpl in Hg. replace n with 0 by lia. reflexivity.
    + cbn [min_be]. destruct (Z.leb_spec n 0); [reflexivity|].
      apply IH.
      * split; [apply Z.div_pos; lia|]. apply Z.div_lt_upper_bound; [lia|].
        rewrite Nat2Z.inj_succ, Z.pow_succ_r in Hf by lia.
        pose proof (Z.pow_pos_nonneg 2 (Z.of_nat f) ltac:(lia) ltac:(lia)). lia.
      * apply Z.div_lt_upper_bound; [lia|].
        rewrite Nat2Z.inj_succ, Z.pow_succ_r in Hg by lia. lia.
Qed.

(* the independent DER length of this file and the length octets the schema codec writes are the same *)
Theorem der_len_spec_codec l : 0 <= l < 256 ^ 64 -> der_len_spec l = DER.der_len l.
Proof.
  intros Hl. unfold der_len_spec, DER.der_len. destruct (l <? 128); [reflexivity|].
  rewrite (be_min_min_be (DER.zfuel l) 64); [reflexivity | | simpl Z.of_nat; lia].
  split; [lia|]. unfold DER.zfuel. rewrite Z.abs_eq by lia.
  destruct (Z.eq_dec l 0); [subst; simpl; lia|].
  rewrite Nat2Z.inj_succ, Z2Nat.id by (apply Z.log2_nonneg).
  apply Z.log2_spec. lia.
Qed.

(* MarshalLengthBytes writes the codec's length octets, AddASNAppTag is the codec's APPLICATION TLV *)
Corollary marshal_len_codec l : 0 <= l < 2 ^ 56 -> marshal_len l = Ok (DER.der_len l).
Proof.
  intros. rewrite marshal_len_is_der by assumption. rewrite der_len_spec_codec; [reflexivity|].
  change (2 ^ 56) with 72057594037927936 in *. simpl Z.of_nat. lia.
Qed.

Corollary add_app_tag_codec b tag : 0 <= tag < 31 -> zlen b < 2 ^ 63 ->
  add_app_tag b tag = DER.tlv (DER.ident 1 true tag) b.
Proof.
  intros Ht Hb. unfold add_app_tag, ident_octets, DER.tlv, DER.ident.
  destruct (Z.ltb_spec tag 31); [|lia]. cbn [app].
  rewrite der_len_spec_codec by (pose proof (zlen_nonneg b); change (2 ^ 63) with 9223372036854775808 in *; simpl Z.of_nat; lia).
  f_equal; lia.
Qed.

(* hypotheses are satisfiable / concrete instances *)
Example marshal_len_ex : marshal_len 300 = Ok [130; 1; 44] /\ get_length (48 :: [130; 1; 44] ++ [7]) = Ok 300.
Proof. split; reflexivity. Qed.
Example marshal_len_neg_ex : marshal_len (-1) = Ok [255].
Proof. reflexivity. Qed.
Example marshal_len_huge_ex : marshal_len (2 ^ 56) = Panic site_div0.
Proof. reflexivity. Qed.
Example get_length_wrap_ex : get_length (48 :: 137 :: [1; 0; 0; 0; 0; 0; 0; 0; 0]) = Ok 0.
Proof. reflexivity. Qed.
