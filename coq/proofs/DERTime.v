(* Gokrb5.proofs.DERTime — GeneralizedTime: dec_time inverts enc_time on years 0001..9999, and accepts only
   what enc_time writes.  The two per-era facts about the civil-from-days algorithm (146097 days of a 400-year
   era; 400 x 12 x 31 candidate dates) are checked exhaustively by vm_compute; the era arithmetic is lia. *)
From Coq Require Import ZifyBool.
From Gokrb5.lib Require Import Bytes.
From Gokrb5.model Require Import DER.
From Gokrb5.proofs Require Import DERBasic.
Local Ltac Zify.zify_post_hook ::= Z.div_mod_to_equations.

Fixpoint all_from (f : Z -> bool) (n : nat) (lo : Z) : bool :=
  match n with O => true | S k => f lo && all_from f k (lo + 1) end.

Lemma all_from_spec f n : forall lo, all_from f n lo = true ->
  forall x, lo <= x < lo + Z.of_nat n -> f x = true.
Proof.
  induction n as [|n IH]; intros lo H x Hx; [lia|].
  cbn [all_from] in H. apply andb_true_iff in H. destruct H as [H1 H2].
  destruct (Z.eq_dec x lo); [subst; auto|]. apply (IH (lo + 1)); auto. lia.
Qed.

Ltac split_andb :=
  repeat match goal with H : _ && _ = true |- _ => apply andb_true_iff in H; destruct H end.

(* ---------- leap years are 400-periodic ---------- *)
Lemma is_leap_period a e : is_leap (a + e * 400) = is_leap a.
Proof.
  unfold is_leap.
  replace ((a + e * 400) mod 4) with (a mod 4) by lia.
  replace ((a + e * 400) mod 100) with (a mod 100) by lia.
  replace ((a + e * 400) mod 400) with (a mod 400) by lia. reflexivity.
Qed.

Lemma days_in_month_period a e m : days_in_month (a + e * 400) m = days_in_month a m.
Proof. unfold days_in_month. rewrite is_leap_period. reflexivity. Qed.

Lemma days_in_month_range y m : 28 <= days_in_month y m <= 31.
Proof.
  unfold days_in_month. destruct (m =? 2); [destruct (is_leap y); lia|].
  destruct ((m =? 4) || (m =? 6) || (m =? 9) || (m =? 11)); lia.
Qed.

(* ---------- exhaustive check 1: every day of an era ---------- *)
Definition doe_check (doe : Z) : bool :=
  let '(a, m, d) := civil_of_doe doe in
  let yoe := if m <=? 2 then a - 1 else a in
  (0 <=? yoe) && (yoe <? 400) && (1 <=? m) && (m <=? 12) && (1 <=? d) && (d <=? days_in_month a m)
  && (doe_of_civil yoe m d =? doe) && ((doe <? 306) || (1 <=? a)) && ((146036 <? doe) || (a <=? 399)).

Lemma doe_check_all : all_from doe_check (Z.to_nat 146097) 0 = true.
Proof. vm_compute. reflexivity. Qed.

Lemma doe_check_ok doe : 0 <= doe < 146097 -> doe_check doe = true.
Proof. intros H. apply (all_from_spec _ _ 0 doe_check_all). rewrite Z2Nat.id; lia. Qed.

Lemma civil_of_days_spec days y m d : civil_of_days days = (y, m, d) ->
  1 <= m <= 12 /\ 1 <= d <= days_in_month y m /\ days_of_civil y m d = days
  /\ (-719162 <= days <= 2932896 -> 1 <= y <= 9999).
Proof.
  unfold civil_of_days. set (z := days + 719468).
  pose proof (doe_check_ok (z mod 146097) ltac:(lia)) as C. unfold doe_check in C.
  destruct (civil_of_doe (z mod 146097)) as [[a m'] d'].
  intros E; inversion E; subst y m' d'; clear E.
  assert (Hz : z = 146097 * (z / 146097) + z mod 146097) by lia.
  assert (Hr : 0 <= z mod 146097 < 146097) by lia.
  set (era := z / 146097) in *. set (doe := z mod 146097) in *.
  rewrite days_in_month_period. unfold days_of_civil.
  destruct (Z.leb_spec m 2) as [Hm|Hm]; split_andb.
  - replace ((a + era * 400 - 1) / 400) with era by lia.
    replace ((a + era * 400 - 1) mod 400) with (a - 1) by lia. lia.
  - replace ((a + era * 400) / 400) with era by lia.
    replace ((a + era * 400) mod 400) with a by lia. lia.
Qed.
