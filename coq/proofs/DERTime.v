(* Gokrb5.proofs.DERTime — GeneralizedTime: dec_time inverts enc_time on years 0001..9999, and accepts only
   what enc_time writes.  The two per-era facts about the civil-from-days algorithm (146097 days of a 400-year
   era; 400 x 12 x 31 candidate dates) are checked exhaustively by vm_compute; the era arithmetic is lia. *)
From Coq Require Import ZifyBool.
From Gokrb5.lib Require Import Bytes.
From Gokrb5.model Require Import DER.
From Gokrb5.proofs Require Import DERBasic.
Local Ltac Zify.zify_post_hook ::= Z.div_mod_to_equations.

Fixpoint all_from (f : Z -> bool) (n : nat) (lo : Z) : bool :=
  match n with O => true | S k => f lo && all_from f k (lo + 1) end.

Lemma all_from_spec f n : forall lo, all_from f n lo = true ->
  forall x, lo <= x < lo + Z.of_nat n -> f x = true.
Proof.
  induction n as [|n IH]; intros lo H x Hx; [lia|].
  cbn [all_from] in H. apply andb_true_iff in H. destruct H as [H1 H2].
  destruct (Z.eq_dec x lo); [subst; auto|]. apply (IH (lo + 1)); auto. lia.
Qed.

Ltac split_andb :=
  repeat match goal with H : _ && _ = true |- _ => apply andb_true_iff in H; destruct H end.

(* ---------- leap years are 400-periodic ---------- *)
Lemma is_leap_period a e : is_leap (a + e * 400) = is_leap a.
Proof.
  unfold is_leap.
  replace ((a + e * 400) mod 4) with (a mod 4) by lia.
  replace ((a + e * 400) mod 100) with (a mod 100) by lia.
  replace ((a + e * 400) mod 400) with (a mod 400) by lia. reflexivity.
Qed.

Lemma days_in_month_period a e m : days_in_month (a + e * 400) m = days_in_month a m.
Proof. unfold days_in_month. rewrite is_leap_period. reflexivity. Qed.

Lemma days_in_month_range y m : 28 <= days_in_month y m <= 31.
Proof.
  unfold days_in_month. destruct (m =? 2); [destruct (is_leap y); lia|].
  destruct ((m =? 4) || (m =? 6) || (m =? 9) || (m =? 11)); lia.
Qed.

(* ---------- exhaustive check 1: every day of an era ---------- *)
Definition doe_check (doe : Z) : bool :=
  let '(a, m, d) := civil_of_doe doe in
  let yoe := if m <=? 2 then a - 1 else a in
  (0 <=? yoe) && (yoe <? 400) && (1 <=? m) && (m <=? 12) && (1 <=? d) && (d <=? days_in_month a m)
  && (doe_of_civil yoe m d =? doe) && ((doe <? 306) || (1 <=? a)) && ((146036 <? doe) || (a <=? 399)).

Lemma doe_check_all : all_from doe_check (Z.to_nat 146097) 0 = true.
Proof. vm_cast_no_check (eq_refl true). Qed.   (* evaluated once, by the kernel's VM, at Qed *)

Lemma doe_check_ok doe : 0 <= doe < 146097 -> doe_check doe = true.
Proof. intros H. apply (all_from_spec _ _ 0 doe_check_all). rewrite Z2Nat.id; lia. Qed.

Lemma civil_of_days_spec days y m d : civil_of_days days = (y, m, d) ->
  1 <= m <= 12 /\ 1 <= d <= days_in_month y m /\ days_of_civil y m d = days
  /\ (-719162 <= days <= 2932896 -> 1 <= y <= 9999).
Proof.
  unfold civil_of_days. set (z := days + 719468).
  pose proof (doe_check_ok (z mod 146097) ltac:(lia)) as C. unfold doe_check in C.
  destruct (civil_of_doe (z mod 146097)) as [[a m'] d'].
  intros E; inversion E; subst y m' d'; clear E.
  assert (Hz : z = 146097 * (z / 146097) + z mod 146097) by lia.
  assert (Hr : 0 <= z mod 146097 < 146097) by lia.
  set (era := z / 146097) in *. set (doe := z mod 146097) in *.
  rewrite days_in_month_period. unfold days_of_civil.
  destruct (Z.leb_spec m 2) as [Hm|Hm]; split_andb.
  - replace ((a + era * 400 - 1) / 400) with era by lia.
    replace ((a + era * 400 - 1) mod 400) with (a - 1) by lia. lia.
  - replace ((a + era * 400) / 400) with era by lia.
    replace ((a + era * 400) mod 400) with a by lia. lia.
Qed.

(* ---------- digits ---------- *)
Lemma num2_dig n : 0 <= n <= 99 -> num2 (48 + n / 10) (48 + n mod 10) = n.
Proof. intros H. unfold num2. lia. Qed.

Lemma num4_dig n : 0 <= n <= 9999 ->
  num4 (48 + n / 1000) (48 + (n / 100) mod 10) (48 + (n / 10) mod 10) (48 + n mod 10) = n.
Proof. intros H. unfold num4. lia. Qed.

Lemma dig2_digits n : 0 <= n <= 99 -> forallb is_digit (dig2 n) = true.
Proof. intros H. unfold dig2, is_digit. cbn [forallb]. lia. Qed.

Lemma dig4_digits n : 0 <= n <= 9999 -> forallb is_digit (dig4 n) = true.
Proof. intros H. unfold dig4, is_digit. cbn [forallb]. lia. Qed.

Lemma dec_time_fields y m d h n s :
  0 <= y <= 9999 -> 0 <= m <= 99 -> 0 <= d <= 99 -> 0 <= h <= 99 -> 0 <= n <= 99 -> 0 <= s <= 99 ->
  dec_time (dig4 y ++ dig2 m ++ dig2 d ++ dig2 h ++ dig2 n ++ dig2 s ++ [90])
  = if date_ok y m d h n s then Some (time_of_fields y m d h n s) else None.
Proof.
  intros Hy Hm Hd Hh Hn Hs.
  pose proof (dig4_digits y Hy) as Dy. pose proof (dig2_digits m Hm) as Dm.
  pose proof (dig2_digits d Hd) as Dd. pose proof (dig2_digits h Hh) as Dh.
  pose proof (dig2_digits n Hn) as Dn. pose proof (dig2_digits s Hs) as Ds.
  unfold dig4, dig2 in *. cbn [app dec_time]. cbn [forallb] in *.
  split_andb.
  repeat match goal with H : is_digit _ = true |- _ => rewrite H; clear H end.
  cbn [andb]. rewrite Z.eqb_refl.
  rewrite num4_dig, !num2_dig by assumption. reflexivity.
Qed.

Theorem dec_time_enc_time secs : time_ok secs = true -> dec_time (enc_time secs) = Some secs.
Proof.
  unfold time_ok, time_min, time_max. intros H. unfold enc_time.
  destruct (civil_of_days (secs / 86400)) as [[y m] d] eqn:E.
  apply civil_of_days_spec in E. destruct E as (Hm & Hd & Hdays & Hy).
  specialize (Hy ltac:(lia)). pose proof (days_in_month_range y m).
  rewrite dec_time_fields by lia.
  replace (date_ok y m d (secs mod 86400 / 3600) (secs mod 86400 / 60 mod 60) (secs mod 86400 mod 60))
    with true by (unfold date_ok; lia).
  unfold time_of_fields. rewrite Hdays. f_equal. lia.
Qed.

Lemma enc_time_length secs : length (enc_time secs) = 15%nat.
Proof. unfold enc_time. destruct (civil_of_days (secs / 86400)) as [[y m] d]. reflexivity. Qed.

Lemma enc_time_wf secs : time_ok secs = true -> wf_bytes (enc_time secs).
Proof.
  unfold time_ok, time_min, time_max. intros H. unfold enc_time.
  destruct (civil_of_days (secs / 86400)) as [[y m] d] eqn:E.
  apply civil_of_days_spec in E. destruct E as (Hm & Hd & Hdays & Hy).
  specialize (Hy ltac:(lia)). pose proof (days_in_month_range y m).
  unfold dig4, dig2. cbn [app]. repeat (apply wf_bytes_cons; split; [lia|]). constructor.
Qed.

Example enc_time_epoch : enc_time 0 = [49;57;55;48;48;49;48;49;48;48;48;48;48;48;90].        (* 19700101000000Z *)
Proof. vm_compute. reflexivity. Qed.
Example enc_time_2010 : enc_time 1262304000 = [50;48;49;48;48;49;48;49;48;48;48;48;48;48;90]. (* 20100101000000Z *)
Proof. vm_compute. reflexivity. Qed.
Example enc_time_leap : enc_time 951782400 = [50;48;48;48;48;50;50;57;48;48;48;48;48;48;90].  (* 20000229000000Z *)
Proof. vm_compute. reflexivity. Qed.
Example enc_time_min : enc_time time_min = [48;48;48;49;48;49;48;49;48;48;48;48;48;48;90].    (* 00010101000000Z *)
Proof. vm_compute. reflexivity. Qed.
Example enc_time_max : enc_time time_max = [57;57;57;57;49;50;51;49;50;51;53;57;53;57;90].    (* 99991231235959Z *)
Proof. vm_compute. reflexivity. Qed.
Example dec_time_rejects_feb30 : dec_time [50;48;48;48;48;50;51;48;48;48;48;48;48;48;90] = None.
Proof. vm_compute. reflexivity. Qed.
Example dec_time_rejects_feb29_1900 : dec_time [49;57;48;48;48;50;50;57;48;48;48;48;48;48;90] = None.
Proof. vm_compute. reflexivity. Qed.

(* ---------- exhaustive check 2: every valid date of an era ---------- *)
Definition ymd_check (yoe m d : Z) : bool :=
  let a := if m <=? 2 then yoe + 1 else yoe in
  if d <=? days_in_month a m then
    let doe := doe_of_civil yoe m d in
    (0 <=? doe) && (doe <? 146097)
    && (let '(a', m', d') := civil_of_doe doe in (a' =? a) && (m' =? m) && (d' =? d))
    && ((a <? 1) || (306 <=? doe)) && ((399 <? a) || (doe <=? 146036))
  else true.

Lemma ymd_check_all :
  all_from (fun yoe => all_from (fun m => all_from (fun d => ymd_check yoe m d) 31 1) 12 1) 400 0 = true.
Proof. vm_cast_no_check (eq_refl true). Qed.

Lemma ymd_check_ok yoe m d : 0 <= yoe < 400 -> 1 <= m <= 12 -> 1 <= d <= 31 -> ymd_check yoe m d = true.
Proof.
  intros Hy Hm Hd.
  pose proof (all_from_spec _ _ _ ymd_check_all yoe ltac:(lia)) as H1. cbv beta in H1.
  pose proof (all_from_spec _ _ _ H1 m ltac:(lia)) as H2. cbv beta in H2.
  exact (all_from_spec _ _ _ H2 d ltac:(lia)).
Qed.

Lemma days_of_civil_spec y m d : 1 <= m <= 12 -> 1 <= d <= days_in_month y m ->
  civil_of_days (days_of_civil y m d) = (y, m, d)
  /\ (1 <= y <= 9999 -> -719162 <= days_of_civil y m d <= 2932896).
Proof.
  intros Hm Hd. pose proof (days_in_month_range y m) as Hr.
  unfold days_of_civil, civil_of_days.
  set (y' := if m <=? 2 then y - 1 else y).
  assert (Hy' : y' = 400 * (y' / 400) + y' mod 400) by lia.
  assert (Hyoe : 0 <= y' mod 400 < 400) by lia.
  set (era := y' / 400) in *. set (yoe := y' mod 400) in *.
  pose proof (ymd_check_ok yoe m d Hyoe Hm ltac:(lia)) as C. unfold ymd_check in C.
  assert (Ha : y = (if m <=? 2 then yoe + 1 else yoe) + era * 400).
  { unfold y' in Hy'. destruct (m <=? 2); lia. }
  assert (Hrange : 0 <= (if m <=? 2 then yoe + 1 else yoe) <= 400) by (destruct (m <=? 2); lia).
  set (a := if m <=? 2 then yoe + 1 else yoe) in *.
  rewrite Ha in Hd. rewrite days_in_month_period in Hd.
  replace (d <=? days_in_month a m) with true in C by lia.
  set (doe := doe_of_civil yoe m d) in *.
  destruct (civil_of_doe doe) as [[a' m'] d'] eqn:E. split_andb.
  replace (era * 146097 + doe - 719468 + 719468) with (era * 146097 + doe) by lia.
  replace ((era * 146097 + doe) / 146097) with era by lia.
  replace ((era * 146097 + doe) mod 146097) with doe by lia.
  rewrite E. split; [f_equal; [f_equal|]; lia | lia].
Qed.

(* ---------- dec_time accepts only what enc_time writes ---------- *)
Lemma dig2_num2 a b : is_digit a = true -> is_digit b = true -> dig2 (num2 a b) = [a; b].
Proof. unfold is_digit, dig2, num2. intros Ha Hb. f_equal; [|f_equal]; lia. Qed.

Lemma dig4_num4 a b c d : is_digit a = true -> is_digit b = true -> is_digit c = true -> is_digit d = true ->
  dig4 (num4 a b c d) = [a; b; c; d].
Proof. unfold is_digit, dig4, num4. intros Ha Hb Hc Hd. f_equal; [|f_equal; [|f_equal; [|f_equal]]]; lia. Qed.

Lemma num2_range a b : is_digit a = true -> is_digit b = true -> 0 <= num2 a b <= 99.
Proof. unfold is_digit, num2. lia. Qed.

Lemma num4_range a b c d : is_digit a = true -> is_digit b = true -> is_digit c = true -> is_digit d = true ->
  0 <= num4 a b c d <= 9999.
Proof. unfold is_digit, num4. lia. Qed.

Theorem dec_time_canon b secs : dec_time b = Some secs -> enc_time secs = b /\ time_ok secs = true.
Proof.
  destruct b as [|y1 [|y2 [|y3 [|y4 [|m1 [|m2 [|d1 [|d2 [|h1 [|h2 [|n1 [|n2 [|s1 [|s2 [|zz [|? ?]]]]]]]]]]]]]]]];
    cbn [dec_time]; try discriminate.
  destruct (forallb is_digit [y1; y2; y3; y4; m1; m2; d1; d2; h1; h2; n1; n2; s1; s2] && (zz =? 90)) eqn:D;
    [|discriminate].
  cbv zeta. cbn [forallb] in D. split_andb.
  pose proof (num4_range y1 y2 y3 y4 ltac:(assumption) ltac:(assumption) ltac:(assumption) ltac:(assumption)) as Ry.
  pose proof (num2_range m1 m2 ltac:(assumption) ltac:(assumption)) as Rm.
  pose proof (num2_range d1 d2 ltac:(assumption) ltac:(assumption)) as Rd.
  pose proof (num2_range h1 h2 ltac:(assumption) ltac:(assumption)) as Rh.
  pose proof (num2_range n1 n2 ltac:(assumption) ltac:(assumption)) as Rn.
  pose proof (num2_range s1 s2 ltac:(assumption) ltac:(assumption)) as Rs.
  pose proof (dig4_num4 y1 y2 y3 y4 ltac:(assumption) ltac:(assumption) ltac:(assumption) ltac:(assumption)) as Ey.
  pose proof (dig2_num2 m1 m2 ltac:(assumption) ltac:(assumption)) as Em.
  pose proof (dig2_num2 d1 d2 ltac:(assumption) ltac:(assumption)) as Ed.
  pose proof (dig2_num2 h1 h2 ltac:(assumption) ltac:(assumption)) as Eh.
  pose proof (dig2_num2 n1 n2 ltac:(assumption) ltac:(assumption)) as En.
  pose proof (dig2_num2 s1 s2 ltac:(assumption) ltac:(assumption)) as Es.
  set (y := num4 y1 y2 y3 y4) in *. set (m := num2 m1 m2) in *. set (d := num2 d1 d2) in *.
  set (h := num2 h1 h2) in *. set (n := num2 n1 n2) in *. set (s := num2 s1 s2) in *.
  destruct (date_ok y m d h n s) eqn:Ok; [|discriminate].
  intros E. assert (Es' : time_of_fields y m d h n s = secs) by congruence. clear E.
  unfold date_ok in Ok. split_andb.
  destruct (days_of_civil_spec y m d ltac:(lia) ltac:(lia)) as [Hc Hrange].
  specialize (Hrange ltac:(lia)).
  unfold time_of_fields in Es'. set (D := days_of_civil y m d) in *.
  split.
  - unfold enc_time.
    replace (secs / 86400) with D by lia. rewrite Hc.
    replace (secs mod 86400 / 3600) with h by lia.
    replace (secs mod 86400 / 60 mod 60) with n by lia.
    replace (secs mod 86400 mod 60) with s by lia.
    rewrite Ey, Em, Ed, Eh, En, Es. cbn [app]. repeat f_equal. lia.
  - unfold time_ok, time_min, time_max. lia.
Qed.
