(* Gokrb5.proofs.KDCRepBytesExamples — the hypotheses of the bytes-mode theorems of KDCRepBytesProofs.v are
   satisfiable, and the list of unsealed fields that matter is exact: one concrete AS exchange (keytab and password
   credentials) and one TGS exchange, sealed with the executable cipher model (aes128-cts-hmac-sha1-96), every
   verdict computed from the wire bytes. *)
From Gokrb5.lib Require Import Bytes JV.
From Gokrb5.model Require Import Keytab Crypto PAData Replay APReq KDCRep Schema DER DERCodec RFCSchemas KDCRepBytes.
From Gokrb5.proofs Require Import DERProofs KDCRepProofs KDCRepBytesDec KDCRepBytesProofs.

(* ================= Examples: a concrete exchange, with the real cipher ================= *)
Lemma ok_inj {A} (a b : A) : Ok a = Ok b -> a = b.
Proof. intros H. injection H as ->. reflexivity. Qed.

Module Ex.
  Definition realm : bytes := [84;69;83;84;46;71;79;75;82;66;53].                  (* "TEST.GOKRB5" *)
  Definition user : bytes := [116;101;115;116;117;115;101;114;49].                 (* "testuser1" *)
  Definition krbtgt : bytes := [107;114;98;116;103;116].
  Definition key : bytes := [1;2;3;4;5;6;7;8;9;10;11;12;13;14;15;16].              (* aes128-cts-hmac-sha1-96 *)
  Definition skew : Z := 300000000.
  Definition now : Z := 1700000100 * 1000000.

  Definition creds_kt : creds :=
    mkCreds (Some [mkEntry (mkPrincipal 1 realm [user] 1) 1600000000 2 17 key 2]) None.
  Definition rq : kdc_req := mkReq [user] realm [krbtgt; realm] 12345 [].

  (* what the KDC seals *)
  Definition er : enc_rep := mkEncRep 12345 [krbtgt; realm] realm [] 1700000000 None [64;128;0;0].
  Definition x : enc_extra :=
    mkExtra (VSeq [Some (VInt 17); Some (VBytes (repeatz 7 16))])
            (VList [VSeq [Some (VInt 0); Some (VTime 1700000000)]])
            None (VTime 1700036000) None 2 None.
  Definition plain (n : Z) : bytes := enc (TApp n rfc_EncKDCRepPart) (inject_enc_rep x er).
  Definition seal (k : bytes) (usage n : Z) (pad : bytes) : bytes :=
    match encrypt_with 17 k usage (repeatz 9 16) (plain n ++ pad) with Ok c => c | _ => [] end.

  Definition pname (t : Z) (l : list bytes) : value := VSeq [Some (VInt t); Some (VList (map VBytes l))].
  Definition ticket (trealm : bytes) : value :=
    VSeq [Some (VInt 5); Some (VBytes trealm); Some (pname 2 [krbtgt; realm]);
          Some (VSeq [Some (VInt 18); Some (VInt 1); Some (VBytes (repeatz 200 40))])].
  Definition rep (pvno mt : Z) (pad : option value) (crealm : bytes) (cname : list bytes) (tkt : value)
             (et : Z) (kv : option value) (cipher : bytes) : value :=
    VSeq [Some (VInt pvno); Some (VInt mt); pad; Some (VBytes crealm); Some (pname 1 cname); Some tkt;
          Some (VSeq [Some (VInt et); kv; Some (VBytes cipher)])].

  (* ---- AS exchange, keytab credentials ---- *)
  Definition as_cipher : bytes := seal key 3 25 [].
  Definition as_val : value := rep 5 11 None realm [user] (ticket realm) 17 (Some (VInt 2)) as_cipher.
  Definition as_wire : bytes := enc rfc_ASRep as_val.
  Definition as_rp : kdc_rep := mkRep [user] realm realm 17 2 as_cipher [].

  Example as_accepted : asrep_verify_bytes skew creds_kt rq as_wire now = Ok true.
  Proof. vm_compute. reflexivity. Qed.

  (* the hypotheses of the refinement theorem hold for it *)
  Example as_wf : wf_rep_val 11 as_val = true.
  Proof. vm_compute. reflexivity. Qed.
  Example as_encode : encode rfc_ASRep as_val = Some as_wire.
  Proof. vm_compute. reflexivity. Qed.
  Example as_project : project_rep as_val = Some as_rp.
  Proof. vm_compute. reflexivity. Qed.
  Example er_wf : wf_enc_inj 25 x er = true /\ wf_enc_inj 26 x er = true.
  Proof. vm_compute. auto. Qed.
  Example as_seals : forall kv kt pt,
    as_key creds_kt as_rp = Ok (kv, kt) -> decrypt kt kv 3 (rp_cipher as_rp) = Ok pt -> seals er pt.
  Proof.
    intros kv kt pt EK ED.
    assert (K : as_key creds_kt as_rp = Ok (key, 17)) by (vm_compute; reflexivity).
    rewrite K in EK. injection EK as <- <-.
    assert (D : decrypt 17 key 3 (rp_cipher as_rp) = Ok (plain 25 ++ [])) by (vm_compute; reflexivity).
    rewrite D in ED. apply ok_inj in ED. subst pt.
    exists 25, x, (plain 25), []. split; [left; reflexivity|]. split; [apply er_wf|]. split; [|reflexivity].
    vm_compute. reflexivity.
  Qed.
  Example as_by_theorem :
    asrep_verify_bytes skew creds_kt rq (as_wire ++ [0; 0; 0]) now = asrep_verify (fun _ => Some er) skew creds_kt rq as_rp now.
  Proof. exact (asrep_bytes_refines_sealed _ _ _ _ _ _ _ _ _ as_wf as_encode as_project as_seals). Qed.

  (* the decoder of the sealed part: either APPLICATION tag, trailing octets (through the theorem) *)
  Example sealed_tag_26_padded : dec_enc_der (plain 26 ++ [0; 0; 0; 0; 0]) = Some er.
  Proof.
    apply (dec_enc_der_inject 26 x er); [right; reflexivity | apply er_wf | vm_compute; reflexivity].
  Qed.

  (* (b) pvno and the ticket do not matter (through the theorem) ... *)
  Definition as_val' : value :=
    rep 4 11 None realm [user] (VSeq [Some (VInt 9); Some (VBytes krbtgt); Some (pname 1 []);
                                       Some (VSeq [Some (VInt 23); None; Some (VBytes [])])]) 17 (Some (VInt 2)) as_cipher.
  Example as_pvno_ticket_irrelevant :
    asrep_verify_bytes skew creds_kt rq (enc rfc_ASRep as_val') now = Ok true.
  Proof.
    rewrite <- as_accepted. rewrite <- (app_nil_r (enc rfc_ASRep as_val')), <- (app_nil_r as_wire). symmetry.
    apply (asrep_ignores_pvno_and_ticket skew creds_kt rq as_val as_val').
    - unfold as_same_checked, as_val, as_val', rep. repeat eexists.
    - exact as_wf.
    - vm_compute. reflexivity.
    - exact as_encode.
    - vm_compute. reflexivity.
  Qed.

  (* ... and every field of as_relevant does: changing it alone turns the accepted reply into a rejected one *)
  Definition verdict (v : value) : res bool := asrep_verify_bytes skew creds_kt rq (enc rfc_ASRep v) now.
  Example as_cname_matters : verdict (rep 5 11 None realm [krbtgt] (ticket realm) 17 (Some (VInt 2)) as_cipher) = Ok false.
  Proof. vm_compute. reflexivity. Qed.
  Example as_crealm_matters : verdict (rep 5 11 None krbtgt [user] (ticket realm) 17 (Some (VInt 2)) as_cipher) = Ok false.
  Proof. vm_compute. reflexivity. Qed.
  Example as_etype_matters : verdict (rep 5 11 None realm [user] (ticket realm) 18 (Some (VInt 2)) as_cipher) = Ok false.
  Proof. vm_compute. reflexivity. Qed.
  Example as_kvno_matters : verdict (rep 5 11 None realm [user] (ticket realm) 17 (Some (VInt 3)) as_cipher) = Ok false.
  Proof. vm_compute. reflexivity. Qed.
  Example as_cipher_matters :
    verdict (rep 5 11 None realm [user] (ticket realm) 17 (Some (VInt 2)) (seal key 8 25 [])) = Ok false.
  Proof. vm_compute. reflexivity. Qed.
  Example as_msg_type_checked : verdict (rep 5 13 None realm [user] (ticket realm) 17 (Some (VInt 2)) as_cipher) = Ok false.
  Proof. vm_compute. reflexivity. Qed.

  (* the padata hints matter to a password client: ETYPE-INFO2 announcing the salt and one PBKDF2 round *)
  Definition pw : bytes := [112;97;115;115;119;111;114;100].                       (* "password" *)
  Definition creds_pw : creds := mkCreds None (Some pw).
  Definition info2 (salt : bytes) : value :=
    VList [VSeq [Some (VInt 19);
                 Some (VBytes (enc (TSeqOf rfc_ETypeInfo2Entry)
                                   (VList [VSeq [Some (VInt 17); Some (VBytes salt); Some (VBytes [0;0;0;1])]])))]].
  Definition pw_key : bytes := match string_to_key 17 pw user [48;48;48;48;48;48;48;49] with Ok k => k | _ => [] end.
  Definition pw_val (salt : bytes) : value :=
    rep 5 11 (Some (info2 salt)) realm [user] (ticket realm) 17 None (seal pw_key 3 25 []).
  Example pw_accepted : asrep_verify_bytes skew creds_pw rq (enc rfc_ASRep (pw_val user)) now = Ok true.
  Proof. vm_compute. reflexivity. Qed.
  Example pw_hints_matter : asrep_verify_bytes skew creds_pw rq (enc rfc_ASRep (pw_val realm)) now = Ok false.
  Proof. vm_compute. reflexivity. Qed.

  (* ---- TGS exchange ---- *)
  Definition skey : bytes := repeatz 33 16.
  Definition service : list bytes := [[72;84;84;80]; [104;111;115;116]].           (* HTTP/host *)
  Definition trq : kdc_req := mkReq [user] realm service 12345 [].
  Definition tgs_cipher : bytes := seal skey 8 26 [].
  Definition tgs_val : value := rep 5 13 None realm [user] (ticket realm) 17 None tgs_cipher.
  Definition tverdict (v : value) : res bool := tgsrep_verify_bytes skew 17 skey trq (enc rfc_TGSRep v) now.

  Example tgs_accepted : tverdict tgs_val = Ok true.
  Proof. vm_compute. reflexivity. Qed.
  Example tgs_wf : wf_rep_val 13 tgs_val = true.
  Proof. vm_compute. reflexivity. Qed.
  Example tgs_cname_matters : tverdict (rep 5 13 None realm [krbtgt] (ticket realm) 17 None tgs_cipher) = Ok false.
  Proof. vm_compute. reflexivity. Qed.
  Example tgs_ticket_realm_matters : tverdict (rep 5 13 None realm [user] (ticket krbtgt) 17 None tgs_cipher) = Ok false.
  Proof. vm_compute. reflexivity. Qed.
  Example tgs_cipher_matters : tverdict (rep 5 13 None realm [user] (ticket realm) 17 None (seal skey 3 26 [])) = Ok false.
  Proof. vm_compute. reflexivity. Qed.
  (* crealm, padata, etype, kvno, pvno and the rest of the ticket do not (through the theorem) *)
  Definition tgs_val' : value :=
    VSeq [Some (VInt 4); Some (VInt 13); Some (info2 realm); Some (VBytes krbtgt); Some (pname 1 [user]);
          Some (VSeq [Some (VInt 9); Some (VBytes realm); Some (pname 1 []);
                      Some (VSeq [Some (VInt 23); None; Some (VBytes [])])]);
          Some (VSeq [Some (VInt 99); Some (VInt 7); Some (VBytes tgs_cipher)])].
  Example tgs_unchecked_fields_irrelevant : tverdict tgs_val' = Ok true.
  Proof.
    rewrite <- tgs_accepted. unfold tverdict.
    rewrite <- (app_nil_r (enc rfc_TGSRep tgs_val')), <- (app_nil_r (enc rfc_TGSRep tgs_val)). symmetry.
    apply (tgsrep_ignores_unchecked_fields skew 17 skey trq tgs_val tgs_val').
    - unfold tgs_same_checked, tgs_val, tgs_val', rep, ticket. repeat eexists.
    - exact tgs_wf.
    - vm_compute. reflexivity.
    - vm_compute. reflexivity.
    - vm_compute. reflexivity.
  Qed.

  (* (c) the AS-REP handed to the TGS verification and the converse; a truncated reply; a reply with a
     non-minimal length *)
  Example as_wire_to_tgs : tgsrep_verify_bytes skew 17 key rq as_wire now = Ok false.
  Proof.
    rewrite <- (app_nil_r as_wire). apply (tgsrep_rejects_asrep skew 17 key rq as_val as_wire [] now as_encode).
    vm_compute. reflexivity.
  Qed.
  Example as_truncated : asrep_verify_bytes skew creds_kt rq (firstn 300 as_wire) now = Ok false.
  Proof. vm_compute. reflexivity. Qed.
  Example as_wrapper_length_ignored :
    (* the outer [APPLICATION 11] length is read and not used: one of the leniencies the model reproduces *)
    match as_wire with
    | a :: l0 :: l1 :: l2 :: r => asrep_verify_bytes skew creds_kt rq (a :: l0 :: l1 :: (l2 - 1) :: r) now = Ok true
    | _ => False
    end.
  Proof. vm_compute. reflexivity. Qed.
End Ex.
