(* Well-formedness (every element a byte 0..255) of hash outputs, derived keys and AES states: what the
   block-cipher inverse theorems of prim/AESInverse.v need in order to apply to the keys the profiles derive. *)
From Gokrb5.lib Require Import Bytes JV.
From Gokrb5.prim Require Import HashCommon SHA1 SHA256 SHA512 MD5 HMAC AES AESInverse.
From Gokrb5.prim Require CBC.
From Gokrb5.model Require Import Crypto.
From Gokrb5.proofs Require Import CBCGuarded.

Lemma wf_flat_map {A} (f : A -> bytes) (l : list A) : (forall x, wf_bytes (f x)) -> wf_bytes (flat_map f l).
Proof. intros H. induction l as [|x l IH]; cbn; [constructor|]. apply wf_bytes_app; auto. Qed.

Lemma sha1_wf m : wf_bytes (sha1 m).
Proof. unfold sha1. destruct (sha1_state m) as [[[[? ?] ?] ?] ?]. apply wf_flat_map, be32_bytes_wf. Qed.
Lemma sha256_wf m : wf_bytes (sha256 m).
Proof. unfold sha256. destruct (sha256_state m) as [[[[[[[? ?] ?] ?] ?] ?] ?] ?]. apply wf_flat_map, be32_bytes_wf. Qed.
Lemma sha384_wf m : wf_bytes (sha384 m).
Proof. unfold sha384. destruct (sha512_state sha384_iv m) as [[[[[[[? ?] ?] ?] ?] ?] ?] ?]. apply wf_flat_map, be64_bytes_wf. Qed.
Lemma md5_wf m : wf_bytes (md5 m).
Proof. unfold md5. destruct (md5_state m) as [[[? ?] ?] ?]. apply wf_flat_map, le32_bytes_wf. Qed.

Lemma hmac_wf h bs k m : (forall x, wf_bytes (h x)) -> wf_bytes (hmac h bs k m).
Proof. intros H. unfold hmac. apply H. Qed.

Lemma et_hmac_wf et k d : wf_bytes (et_hmac et k d).
Proof.
  unfold et_hmac. destruct (et =? 19); [apply hmac_wf, sha256_wf|].
  destruct (et =? 20); [apply hmac_wf, sha384_wf|].
  destruct (et =? 23); [apply hmac_wf, md5_wf|apply hmac_wf, sha1_wf].
Qed.

(* AES states *)
Lemma enc_rounds_st rks : Forall wf_bytes rks -> forall s, st s -> st (enc_rounds rks s).
Proof.
  induction 1 as [|rk rest Hrk Hrest IH]; intros s Hs; cbn [enc_rounds]; [exact Hs|].
  destruct rest as [|rk2 rest2].
  - apply st_ark; [apply st_sr, st_sb, Hs | exact Hrk].
  - apply IH. apply st_ark; [apply st_mc, st_sr, st_sb, Hs | exact Hrk].
Qed.

Lemma aes_encrypt_rk_st rks blk : Forall wf_bytes rks -> st blk -> st (aes_encrypt_rk rks blk).
Proof.
  intros Hr Hb. unfold aes_encrypt_rk. destruct rks as [|rk0 rest]; [exact Hb|].
  inversion Hr as [|? ? H0 Hrest]; subst. apply enc_rounds_st; [exact Hrest|]. apply st_ark; assumption.
Qed.

Lemma aes_ecb_st key b : wf_bytes key -> length b = 16%nat -> wf_bytes b -> st (aes_ecb key b).
Proof. intros Hk Hl Hw. unfold aes_ecb. apply aes_encrypt_rk_st; [apply aes_expand_key_wf, Hk | split; assumption]. Qed.

Lemma aes_ecb_wf key : wf_bytes key -> forall b, length b = 16%nat -> wf_bytes b -> wf_bytes (aes_ecb key b).
Proof. intros. now apply aes_ecb_st. Qed.

Lemma aes_ecb_inverse key : wf_bytes key -> forall b, length b = 16%nat -> wf_bytes b -> aes_ecb_dec key (aes_ecb key b) = b.
Proof. intros Hk b Hl Hw. unfold aes_ecb, aes_ecb_dec. now apply aes_decrypt_encrypt_rk. Qed.

(* DR / DK *)
Lemma dr_blocks_wf (e : bytes -> bytes) n : (forall k, st k -> st (e k)) -> forall k, st k -> wf_bytes (dr_blocks e n k).
Proof.
  intros He. induction n as [|n IH]; intros k Hk; cbn [dr_blocks]; [constructor|].
  apply wf_bytes_app. split; [apply He, Hk | apply IH, He, Hk].
Qed.

Lemma nfold_st c : c <> [] -> st (nfold c 128).
Proof.
  intros Hc. unfold nfold.
  assert (0 < zlen c) as Hz by (unfold zlen; destruct c; [congruence|cbn [length]; lia]).
  destruct ((8 * zlen c <=? 0) || (128 <=? 0)) eqn:E.
  - apply orb_true_iff in E. destruct E as [E|E]; [apply Z.leb_le in E; lia | discriminate].
  - split; [rewrite be_bytes_length; reflexivity | apply be_bytes_wf].
Qed.

Lemma usage_const_nonempty u o : usage_const u o <> [].
Proof. unfold usage_const. intros H. apply (f_equal (@length Z)) in H. rewrite app_length in H. cbn in H. lia. Qed.

(* keys derived for the AES profiles are byte strings *)
Lemma derive_key_aes_wf et key c ke :
  (et_family et = Some FAesSha1 \/ et_family et = Some FAesSha2) -> wf_bytes key -> c <> [] ->
  derive_key et key c = Ok ke -> wf_bytes ke.
Proof.
  intros Hf Hk Hc. unfold derive_key. destruct Hf as [Hf|Hf]; rewrite Hf.
  - destruct (negb _); [discriminate|]. intros H. injection H as <-.
    unfold dr. apply wf_firstn. apply dr_blocks_wf; [|apply nfold_st, Hc].
    intros k [Hl Hw]. now apply aes_ecb_st.
  - destruct (et =? 19).
    + intros H. injection H as <-. unfold kdf_hmac_sha2. apply wf_firstn, hmac_wf, sha256_wf.
    + intros H. injection H as <-. unfold kdf_hmac_sha2. apply wf_firstn, hmac_wf, sha384_wf.
Qed.
