(* Further theorems about Client.sendToKDC's decision logic (model/Network.v), free of the no-KRB-ERROR
   hypothesis of failover_complete: what is returned was given by a configured endpoint of a permitted
   transport; every attempt goes to a configured endpoint and none is repeated; a communication error is returned
   only when every permitted endpoint is dead. *)
From Gokrb5.lib Require Import Bytes JV.
From Gokrb5.model Require Import Network.
From Gokrb5.proofs Require Import NetworkProofs.

Lemma nodup_app_l {A} (a b : list A) : NoDup (a ++ b) -> NoDup a.
Proof.
  induction a as [|x a IH]; cbn; intros H; [constructor|].
  inversion H as [|? ? Hn Hd]; subst. constructor; [|apply IH; exact Hd].
  intros Hin. apply Hn. apply in_or_app; left; exact Hin.
Qed.

Lemma nodup_app_intro {A} (a b : list A) :
  NoDup a -> NoDup b -> (forall x, In x a -> In x b -> False) -> NoDup (a ++ b).
Proof.
  induction a as [|x a IH]; cbn; intros Ha Hb Hd; [exact Hb|].
  inversion Ha as [|? ? Hn Ha']; subst. constructor.
  - intros Hin. apply in_app_or in Hin. destruct Hin as [Hin|Hin]; [contradiction|]. apply (Hd x); [left; reflexivity|exact Hin].
  - apply IH; [exact Ha'|exact Hb|]. intros y H1 H2. apply (Hd y); [right; exact H1|exact H2].
Qed.

(* the attempts of one dial loop are a prefix of the order *)
Lemma dial_send_attempts_prefix beh t order :
  exists rest, order = snd (dial_send beh t order) ++ rest.
Proof.
  induction order as [|k r IH]; cbn; [exists []; reflexivity|].
  destruct IH as (rest & E).
  destruct (beh k t); cbn; try (exists r; reflexivity);
    destruct (dial_send beh t r) as [res att]; cbn in *; exists rest; f_equal; exact E.
Qed.

Lemma dial_send_attempts_in beh t order k :
  In k (snd (dial_send beh t order)) -> In k order.
Proof.
  destruct (dial_send_attempts_prefix beh t order) as (rest & E). intros H. rewrite E. apply in_or_app; left; exact H.
Qed.

Lemma dial_send_attempts_nodup beh t order :
  NoDup order -> NoDup (snd (dial_send beh t order)).
Proof.
  destruct (dial_send_attempts_prefix beh t order) as (rest & E). intros H. rewrite E in H.
  apply nodup_app_l in H. exact H.
Qed.

Definition tagl (t : transport) (l : list Z) : list (Z * transport) := map (fun k => (k, t)) l.

Lemma send_to_kdc_shape mode beh ou ot :
  let r := send_to_kdc mode beh ou ot in
  let au := snd (dial_send beh UDP ou) in
  let at_ := snd (dial_send beh TCP ot) in
  snd r = tagl TCP at_ \/ snd r = tagl UDP au \/ snd r = tagl UDP au ++ tagl TCP at_ \/ snd r = tagl TCP at_ ++ tagl UDP au.
Proof.
  unfold send_to_kdc, tagl. cbn zeta.
  destruct (dial_send beh UDP ou) as [ru au] eqn:EU. destruct (dial_send beh TCP ot) as [rt at_] eqn:ET. cbn [snd].
  destruct (mode =? 0); [left; reflexivity|].
  destruct (mode =? 1).
  - destruct ru as [x|c|]; cbn [snd]; auto. destruct (c =? too_big); cbn [snd]; auto.
  - destruct rt as [x|c|]; cbn [snd]; auto.
Qed.

Lemma in_tagl k t t' l : In (k, t) (tagl t' l) -> t = t' /\ In k l.
Proof. unfold tagl. intros H. apply in_map_iff in H. destruct H as (x & E & Hin). injection E as -> ->. auto. Qed.

Lemma nodup_tagl t l : NoDup l -> NoDup (tagl t l).
Proof.
  unfold tagl. induction 1 as [|x l Hn Hd IH]; cbn; constructor; [|exact IH].
  intros H. apply in_map_iff in H. destruct H as (y & E & Hin). injection E as ->. contradiction.
Qed.

(* every attempt goes to a configured endpoint of its transport *)
Theorem attempts_are_configured mode beh ou ot k t :
  In (k, t) (snd (send_to_kdc mode beh ou ot)) -> In k (match t with UDP => ou | TCP => ot end).
Proof.
  intros H.
  assert (forall t' l, In (k, t) (tagl t' (snd (dial_send beh t' l))) -> t = t' /\ In k l) as A.
  { intros t' l Hin. apply in_tagl in Hin. destruct Hin as [-> Hin]. split; [reflexivity|].
    eapply dial_send_attempts_in; exact Hin. }
  destruct (send_to_kdc_shape mode beh ou ot) as [E|[E|[E|E]]]; rewrite E in H.
  - apply A in H. destruct H as [-> H]. exact H.
  - apply A in H. destruct H as [-> H]. exact H.
  - apply in_app_or in H. destruct H as [H|H]; apply A in H; destruct H as [-> H]; exact H.
  - apply in_app_or in H. destruct H as [H|H]; apply A in H; destruct H as [-> H]; exact H.
Qed.

(* no endpoint is tried twice in one exchange (GetKDCs returns each configured server once: C16) *)
Theorem no_attempt_repeated mode beh ou ot :
  NoDup ou -> NoDup ot -> NoDup (snd (send_to_kdc mode beh ou ot)).
Proof.
  intros Hu Ht.
  pose proof (nodup_tagl UDP _ (dial_send_attempts_nodup beh UDP ou Hu)) as NU.
  pose proof (nodup_tagl TCP _ (dial_send_attempts_nodup beh TCP ot Ht)) as NT.
  assert (forall a b x, In x (tagl UDP a) -> In x (tagl TCP b) -> False) as Disj.
  { intros a b [k t] H1 H2. apply in_tagl in H1. apply in_tagl in H2. destruct H1 as [-> _]. destruct H2 as [E _]. discriminate. }
  destruct (send_to_kdc_shape mode beh ou ot) as [E|[E|[E|E]]]; rewrite E; auto.
  - apply nodup_app_intro; auto. intros x H1 H2. eapply Disj; eassumption.
  - apply nodup_app_intro; auto. intros x H1 H2. eapply Disj; eassumption.
Qed.

(* a reply returned to the caller was given by a configured endpoint of a permitted transport - with or without
   KRB-ERRORs and dead endpoints around it *)
Theorem reply_sound mode beh ou ot y :
  fst (send_to_kdc mode beh ou ot) = Reply y ->
  (exists k, In k ot /\ beh k TCP = Answers y) \/ (mode <> 0 /\ exists k, In k ou /\ beh k UDP = Answers y).
Proof.
  unfold send_to_kdc.
  destruct (dial_send beh UDP ou) as [ru au] eqn:EU. destruct (dial_send beh TCP ot) as [rt at_] eqn:ET.
  pose proof (dial_send_reply_sound beh UDP ou y) as SU. rewrite EU in SU. cbn [fst] in SU.
  pose proof (dial_send_reply_sound beh TCP ot y) as ST. rewrite ET in ST. cbn [fst] in ST.
  destruct (Z.eqb_spec mode 0) as [M0|M0]; cbn [fst]; [intros H; left; apply ST; exact H|].
  destruct (mode =? 1).
  - destruct ru as [x|c|]; cbn [fst].
    + intros H. right. split; [exact M0|]. apply SU; exact H.
    + destruct (c =? too_big); cbn [fst]; [intros H; left; apply ST; exact H|discriminate].
    + intros H. left. apply ST; exact H.
  - destruct rt as [x|c|]; cbn [fst].
    + intros H. left. apply ST; exact H.
    + discriminate.
    + intros H. right. split; [exact M0|]. apply SU; exact H.
Qed.

(* the call fails with a communication error ONLY IF every endpoint of every permitted transport is dead *)
Theorem comm_err_only_if_all_dead mode beh ou ot :
  fst (send_to_kdc mode beh ou ot) = CommErr ->
  (forall k, In k ot -> dead (beh k TCP)) /\
  (mode <> 0 -> forall k, In k ou -> dead (beh k UDP) \/ (mode = 1 /\ exists j, In j ou /\ beh j UDP = KrbError too_big)).
Proof.
  unfold send_to_kdc.
  destruct (dial_send beh UDP ou) as [ru au] eqn:EU. destruct (dial_send beh TCP ot) as [rt at_] eqn:ET.
  pose proof (dial_send_commerr beh UDP ou) as CU. rewrite EU in CU. cbn [fst] in CU.
  pose proof (dial_send_commerr beh TCP ot) as CT. rewrite ET in CT. cbn [fst] in CT.
  pose proof (dial_send_krberr_sound beh UDP ou too_big) as KU. rewrite EU in KU. cbn [fst] in KU.
  destruct (Z.eqb_spec mode 0) as [M0|M0]; cbn [fst].
  - intros H. split; [apply CT; exact H|contradiction].
  - destruct (Z.eqb_spec mode 1) as [M1|M1].
    + destruct ru as [x|c|]; cbn [fst]; [discriminate| |].
      * destruct (Z.eqb_spec c too_big) as [->|Hc]; cbn [fst]; [|discriminate].
        intros H. split; [apply CT; exact H|]. intros _ k Hk. right. split; [exact M1|].
        destruct (KU eq_refl) as (j & Hj & Bj). exists j; auto.
      * intros H. split; [apply CT; exact H|]. intros _ k Hk. left. apply CU; [reflexivity|exact Hk].
    + destruct rt as [x|c|]; cbn [fst]; [discriminate|discriminate|].
      intros H. split; [apply CT; reflexivity|]. intros _ k Hk. left. apply CU; [exact H|exact Hk].
Qed.
