(* Complete characterisation of the request sequence of Client.Do: what every non-final exchange looked
   like, what is returned, and which response it is. *)
From Gokrb5.lib Require Import Bytes JV.
From Gokrb5.model Require Import HttpClient.
From Gokrb5.proofs Require Import HttpClientProofs.
Open Scope nat_scope.

(* the k-th exchange (request flags fl, script offset i) was a bare challenge to a token-less request answered
   by a request with a token, or a redirect followed by a token-less request *)
Definition step_ok (script : nat -> resp) (i : nat) (fl : list bool) (k : nat) : Prop :=
  (script (i + k) = R401Nego /\ nth k fl false = false /\ nth (S k) fl false = true)
  \/ (script (i + k) = R302 /\ nth (S k) fl false = false).

Definition returned_ok (script : nat -> resp) (i : nat) (fl : list bool) (o : outcome) : Prop :=
  let last := i + (length fl - 1) in
  match o with
  | Final r _ => r = script last /\ r <> R302 /\ (r = R401Nego -> nth (length fl - 1) fl false = true)
  | TooManyRedirects _ => script last = R302
  | OutOfFuel => False
  end.

Lemma do_trace : forall fuel script i redirects authed sent,
  do_ fuel script i redirects authed sent <> OutOfFuel ->
  exists ext,
    sent_of (do_ fuel script i redirects authed sent) = sent ++ authed :: ext /\
    returned_ok script i (authed :: ext) (do_ fuel script i redirects authed sent) /\
    (forall k, k < length ext -> step_ok script i (authed :: ext) k).
Proof.
  induction fuel as [|f IH]; intros script i redirects authed sent Hne; [cbn in Hne; congruence|].
  cbn [do_] in *.
  assert (Hsimple : forall r, script i = r -> r <> R302 -> (r = R401Nego -> authed = true) ->
            exists ext, sent_of (Final r (sent ++ [authed])) = sent ++ authed :: ext /\
              returned_ok script i (authed :: ext) (Final r (sent ++ [authed])) /\
              (forall k, k < length ext -> step_ok script i (authed :: ext) k)).
  { intros r Hr H1 H2. exists []. cbn [sent_of length]. split; [reflexivity|]. split.
    - unfold returned_ok. cbn [length]. replace (i + (1 - 1)) with i by lia. split; [congruence|]. split; [exact H1|].
      intros E. cbn. exact (H2 E).
    - intros k Hk; cbn in Hk; lia. }
  destruct (script i) eqn:Es.
  - apply Hsimple; [reflexivity|discriminate|discriminate].
  - destruct authed.
    + apply Hsimple; [reflexivity|discriminate|reflexivity].
    + destruct (IH script (S i) redirects true (sent ++ [false]) Hne) as (ext & A & B & C).
      exists (true :: ext). split; [rewrite A, <- app_assoc; reflexivity|]. split.
      * unfold returned_ok in *. cbn [length] in *.
        replace (i + (S (S (length ext)) - 1)) with (S i + (S (length ext) - 1)) by lia.
        destruct (do_ f script (S i) redirects true (sent ++ [false])); try exact B.
        destruct B as (B1 & B2 & B3). split; [exact B1|]. split; [exact B2|].
        intros E. specialize (B3 E). replace (S (S (length ext)) - 1) with (S (S (length ext) - 1)) by lia. exact B3.
      * intros k Hk. destruct k as [|k].
        -- left. replace (i + 0) with i by lia. split; [exact Es|]. split; reflexivity.
        -- cbn [length] in Hk. assert (k < length ext) as Hk' by lia. specialize (C k Hk').
           unfold step_ok in *. replace (i + S k) with (S i + k) by lia.
           destruct C as [(C1 & C2 & C3)|(C1 & C2)]; [left|right]; repeat split; assumption.
  - apply Hsimple; [reflexivity|discriminate|discriminate].
  - apply Hsimple; [reflexivity|discriminate|discriminate].
  - destruct (10 <=? redirects + 1) eqn:El.
    + exists []. cbn [sent_of length]. split; [reflexivity|]. split.
      * unfold returned_ok. cbn [length]. replace (i + (1 - 1)) with i by lia. exact Es.
      * intros k Hk; cbn in Hk; lia.
    + destruct (IH script (S i) (redirects + 1) false (sent ++ [authed]) Hne) as (ext & A & B & C).
      exists (false :: ext). split; [rewrite A, <- app_assoc; reflexivity|]. split.
      * unfold returned_ok in *. cbn [length] in *.
        replace (i + (S (S (length ext)) - 1)) with (S i + (S (length ext) - 1)) by lia.
        destruct (do_ f script (S i) (redirects + 1) false (sent ++ [authed])); try exact B.
        destruct B as (B1 & B2 & B3). split; [exact B1|]. split; [exact B2|].
        intros E. specialize (B3 E). replace (S (S (length ext)) - 1) with (S (S (length ext) - 1)) by lia. exact B3.
      * intros k Hk. destruct k as [|k].
        -- right. replace (i + 0) with i by lia. split; [exact Es|reflexivity].
        -- cbn [length] in Hk. assert (k < length ext) as Hk' by lia. specialize (C k Hk').
           unfold step_ok in *. replace (i + S k) with (S i + k) by lia.
           destruct C as [(C1 & C2 & C3)|(C1 & C2)]; [left|right]; repeat split; assumption.
  - apply Hsimple; [reflexivity|discriminate|discriminate].
Qed.

(* From a fresh client: the flags of the requests sent start with a token-less request; every exchange but
   the last is a bare challenge answered with a token or a redirect followed without one; what is returned is
   the server's response to the last request sent, which is neither a redirect (unless the redirect limit is
   the error returned) nor a bare challenge that has not been answered with a token. *)
Theorem do_trace_fresh script :
  let o := do_ 64 script 0 0 false [] in
  exists ext, sent_of o = false :: ext /\ returned_ok script 0 (false :: ext) o /\
              (forall k, k < length ext -> step_ok script 0 (false :: ext) k).
Proof.
  cbn zeta. destruct (do_terminates script) as (o & E & Hne & _). subst o.
  destruct (do_trace 64 script 0 0 false [] Hne) as (ext & A & B & C).
  exists ext. split; [exact A|]. split; assumption.
Qed.

(* a bare challenge to a token-less request is always answered: by a retry carrying a token *)
Corollary challenge_answered script k :
  let fl := sent_of (do_ 64 script 0 0 false []) in
  S k < length fl -> script k = R401Nego -> nth k fl true = false -> nth (S k) fl false = true.
Proof.
  cbn zeta. destruct (do_trace_fresh script) as (ext & A & _ & C). cbn zeta in A. rewrite A.
  intros Hk Hs Hn. cbn [length] in Hk. assert (k < length ext) as Hk' by lia.
  destruct (C k Hk') as [(C1 & C2 & C3)|(C1 & _)]; [exact C3|]. cbn in C1. congruence.
Qed.

(* the request after a redirect never carries the token of the previous hop *)
Corollary redirect_drops_token script k :
  let fl := sent_of (do_ 64 script 0 0 false []) in
  S k < length fl -> script k = R302 -> nth (S k) fl true = false.
Proof.
  cbn zeta. destruct (do_trace_fresh script) as (ext & A & _ & C). cbn zeta in A. rewrite A.
  intros Hk Hs. cbn [length] in Hk. assert (k < length ext) as Hk' by lia.
  destruct (C k Hk') as [(C1 & C2 & C3)|(C1 & C2)].
  - cbn in C1. congruence.
  - rewrite (nth_indep _ true false) by (cbn [length]; lia). exact C2.
Qed.

Example trace_example :
  returned_ok (script_of [R401Nego; R302; R401Nego] R200) 0 [false; true; false; true]
    (do_ 64 (script_of [R401Nego; R302; R401Nego] R200) 0 0 false []).
Proof. cbn. repeat split; discriminate. Qed.
