(* Look-ups on a parsed credential cache: GetEntry returns the first credential whose server name equals
   the request, Contains says whether there is one, GetEntries drops exactly the configuration entries
   (server realm starting with "X-CACHECONF") and keeps the order; a client built by NewFromCCache holds
   the first krbtgt/REALM credential as its session and exactly the tickets of the other
   non-configuration credentials, the last one per service name. *)
From Gokrb5.lib Require Import Bytes JV.
From Gokrb5.model Require Import CCache.

Definition sname (c : cred) : list bytes := cp_comps (c_server c).

Lemma comps_eqb_eq a b : comps_eqb a b = true <-> a = b.
Proof.
  revert b; induction a as [|x a IH]; intros [|y b]; cbn; try (split; congruence).
  rewrite andb_true_iff, beq_bytes_eq, IH.
  split; [intros [-> ->]; reflexivity | intros H; inversion H; auto].
Qed.

Lemma serves_iff name c : serves name c = true <-> sname c = name.
Proof. unfold serves, sname. apply comps_eqb_eq. Qed.

Lemma serves_false name c : serves name c = false <-> sname c <> name.
Proof.
  pose proof (serves_iff name c) as H. destruct (serves name c).
  - split; [discriminate|]. intros N. exfalso. apply N, H. reflexivity.
  - split; [|reflexivity]. intros _ E. apply H in E. discriminate.
Qed.

(* GetEntry: the first match, and "not found" exactly when nothing matches *)
Theorem get_entry_spec cs name :
  match get_entry cs name with
  | Some c => exists pre post, cs = pre ++ c :: post /\ sname c = name /\
                               Forall (fun c' => sname c' <> name) pre
  | None => forall c, In c cs -> sname c <> name
  end.
Proof.
  induction cs as [|c cs IH]; cbn [get_entry].
  - intros c [].
  - destruct (serves name c) eqn:E.
    + exists [], cs. split; [reflexivity|]. split; [apply serves_iff, E|constructor].
    + apply serves_false in E. destruct (get_entry cs name) as [c0|].
      * destruct IH as (pre & post & -> & Hn & Hpre).
        exists (c :: pre), post. split; [reflexivity|]. split; [exact Hn|]. constructor; assumption.
      * intros c' [<-|Hin]; [exact E|apply IH, Hin].
Qed.

Corollary get_entry_found cs name c :
  get_entry cs name = Some c -> In c cs /\ sname c = name.
Proof.
  intros E. pose proof (get_entry_spec cs name) as H. rewrite E in H.
  destruct H as (pre & post & -> & Hn & _). split; [|exact Hn]. apply in_or_app. right. left. reflexivity.
Qed.

Corollary get_entry_complete cs name :
  (exists c, In c cs /\ sname c = name) -> exists c, get_entry cs name = Some c.
Proof.
  intros (c & Hin & Hn). pose proof (get_entry_spec cs name) as H.
  destruct (get_entry cs name) as [c0|]; [eauto|]. exfalso. exact (H c Hin Hn).
Qed.

(* Contains *)
Theorem contains_spec cs name :
  contains cs name = true <-> exists c, In c cs /\ sname c = name.
Proof.
  unfold contains. rewrite existsb_exists. split; intros (c & Hin & H); exists c; split; auto;
    apply serves_iff; exact H.
Qed.

Corollary contains_get_entry cs name :
  contains cs name = match get_entry cs name with Some _ => true | None => false end.
Proof.
  induction cs as [|c cs IH]; cbn; [reflexivity|].
  destruct (serves name c); [reflexivity|exact IH].
Qed.

(* GetEntries *)
Lemma has_prefix_spec pre s : has_prefix pre s = true <-> exists t, s = pre ++ t.
Proof.
  revert s; induction pre as [|x pre IH]; intros s; cbn.
  - split; [eauto|reflexivity].
  - destruct s as [|y s].
    + split; [discriminate|]. intros (t & E). discriminate.
    + rewrite andb_true_iff, Z.eqb_eq, IH. split.
      * intros (-> & t & ->). eauto.
      * intros (t & E). injection E as -> ->. eauto.
Qed.

Definition conf_realm (c : cred) : Prop := exists t, cp_realm (c_server c) = cacheconf ++ t.

Lemma is_conf_iff c : is_conf c = true <-> conf_realm c.
Proof. apply has_prefix_spec. Qed.

Theorem get_entries_filters_conf cs :
  (forall c, In c (get_entries cs) <-> In c cs /\ ~ conf_realm c) /\
  (forall a b, get_entries (a ++ b) = get_entries a ++ get_entries b) /\
  (forall c, get_entries [c] = if is_conf c then [] else [c]).
Proof.
  split; [|split].
  - intros c. unfold get_entries. rewrite filter_In, negb_true_iff.
    pose proof (is_conf_iff c) as H. destruct (is_conf c).
    + split; [intros (_ & E); discriminate|]. intros (_ & N). exfalso. apply N, H. reflexivity.
    + split; intros (Hin & _); (split; [exact Hin|]); [|reflexivity]. intros C. apply H in C. discriminate.
  - intros a b. unfold get_entries. apply filter_app.
  - intros c. unfold get_entries. cbn [filter]. destruct (is_conf c); reflexivity.
Qed.

(* the entries krb5 itself writes ("X-CACHECONF:") are configuration entries *)
Example conf_realm_mit c : cp_realm (c_server c) = cacheconf ++ [58] -> is_conf c = true.
Proof. intros E. apply is_conf_iff. exists [58]. exact E. Qed.

(* ---------- NewFromCCache ---------- *)

Lemma first_serving_get_entry name : forall cs dec c d,
  first_serving name (combine cs dec) = Some (c, d) ->
  exists pre post, cs = pre ++ c :: post /\ sname c = name /\ Forall (fun c' => sname c' <> name) pre /\
                   nth_error dec (length pre) = Some d.
Proof.
  induction cs as [|c0 cs IH]; intros [|d0 dec] c d E; cbn [combine first_serving] in E; try discriminate.
  destruct (serves name c0) eqn:S.
  - injection E as <- <-. exists [], cs. repeat split; [apply serves_iff, S|constructor].
  - apply IH in E. destruct E as (pre & post & -> & Hn & Hpre & Hd).
    exists (c0 :: pre), post. repeat split; try assumption.
    constructor; [apply serves_false, S|assumption].
Qed.

Lemma add_entries_spec : forall l es,
  add_entries l = Ok es ->
  map (fun '(s, c) => (c, Some s)) es = filter (fun '(c, _) => negb (is_conf c)) l.
Proof.
  induction l as [|[c d] l IH]; intros es E; cbn [add_entries] in E.
  - injection E as <-. reflexivity.
  - cbn [filter]. destruct (is_conf c); cbn [negb]; [apply IH, E|].
    destruct d as [spn|]; [|discriminate].
    destruct (add_entries l) as [rest| |]; cbn [bind] in E; try discriminate.
    injection E as <-. cbn [map]. f_equal. apply IH. reflexivity.
Qed.

(* map semantics: the last entry for an SPN, nothing when there is none *)
Lemma cache_lookup_acc es spn : forall cur,
  cache_lookup es spn cur =
    match cache_lookup es spn None with Some c => Some c | None => cur end.
Proof.
  induction es as [|[s c] es IH]; intros cur; cbn [cache_lookup]; [reflexivity|].
  destruct (beq_bytes s spn); [|apply IH].
  rewrite (IH (Some c)). destruct (cache_lookup es spn None); reflexivity.
Qed.

Theorem cache_lookup_spec es spn :
  match cache_lookup es spn None with
  | Some c => exists pre post, es = pre ++ (spn, c) :: post /\ Forall (fun e => fst e <> spn) post
  | None => Forall (fun e => fst e <> spn) es
  end.
Proof.
  induction es as [|[s c] es IH]; cbn [cache_lookup]; [constructor|].
  rewrite cache_lookup_acc.
  destruct (cache_lookup es spn None) as [c1|].
  - destruct IH as (pre & post & -> & Hpost). exists ((s, c) :: pre), post. split; [reflexivity|assumption].
  - destruct (beq_bytes s spn) eqn:B.
    + apply beq_bytes_eq in B. subst s. exists [], es. split; [reflexivity|exact IH].
    + constructor; [|exact IH]. cbn. intros E. subst s. rewrite beq_bytes_refl in B. discriminate.
Qed.

(* The client holds exactly the tickets and keys of the cache:
   - its session is the FIRST credential of the file whose server name is krbtgt/<default realm>, and
     that credential's ticket decoded;
   - its ticket cache received, in file order, one addEntry per non-configuration credential, keyed by
     the service name of the decoded ticket, and every such credential decoded (else an error);
   cache_lookup_spec then says which one a later look-up by SPN finds (the last). *)
Theorem client_from_ccache_holds_exactly cc dec st :
  client_from_ccache cc dec = Ok st ->
  (exists pre post spn,
      cc_creds cc = pre ++ cs_session st :: post /\
      sname (cs_session st) = [krbtgt; cp_realm (cc_princ cc)] /\
      Forall (fun c' => sname c' <> [krbtgt; cp_realm (cc_princ cc)]) pre /\
      nth_error dec (length pre) = Some (Some spn)) /\
  map (fun '(s, c) => (c, Some s)) (cs_cache st)
    = filter (fun '(c, _) => negb (is_conf c)) (combine (cc_creds cc) dec).
Proof.
  unfold client_from_ccache. intros E.
  destruct (first_serving [krbtgt; cp_realm (cc_princ cc)] (combine (cc_creds cc) dec)) as [[tgt [spn|]]|] eqn:F;
    try discriminate.
  destruct (add_entries (combine (cc_creds cc) dec)) as [es| |] eqn:A; cbn [bind] in E; try discriminate.
  injection E as <-. cbn [cs_session cs_cache].
  split.
  - apply first_serving_get_entry in F. destruct F as (pre & post & E1 & E2 & E3 & E4).
    exists pre, post, spn. auto.
  - apply add_entries_spec, A.
Qed.

(* and it refuses a cache without a usable TGT or with an undecodable service ticket *)
Theorem client_from_ccache_rejects cc dec :
  length dec = length (cc_creds cc) ->
  ((forall c, In c (cc_creds cc) -> sname c <> [krbtgt; cp_realm (cc_princ cc)]) \/
   (exists c, In (c, None) (combine (cc_creds cc) dec) /\ is_conf c = false)) ->
  exists e, client_from_ccache cc dec = Err e.
Proof.
  intros Hlen [Hno|(c & Hin & Hc)]; unfold client_from_ccache.
  - assert (F : first_serving [krbtgt; cp_realm (cc_princ cc)] (combine (cc_creds cc) dec) = None).
    { revert dec Hlen Hno. generalize (cc_creds cc) as cs.
      induction cs as [|c0 cs IH]; intros [|d dec] Hlen Hno; try reflexivity; try discriminate.
      cbn [combine first_serving].
      assert (S : serves [krbtgt; cp_realm (cc_princ cc)] c0 = false)
        by (apply serves_false, Hno; left; reflexivity).
      rewrite S. apply IH; [cbn in Hlen; lia|]. intros c' Hin. apply Hno. right. exact Hin. }
    rewrite F. eauto.
  - assert (A : exists e, add_entries (combine (cc_creds cc) dec) = Err e).
    { revert Hin. generalize (combine (cc_creds cc) dec) as l.
      induction l as [|[c0 d0] l IH]; intros Hin; [destruct Hin|].
      cbn [add_entries]. destruct Hin as [E|Hin].
      - injection E as -> ->. rewrite Hc. eauto.
      - destruct (IH Hin) as (e & ->). destruct (is_conf c0); [eauto|]. destruct d0; cbn [bind]; eauto. }
    destruct A as (e & A).
    destruct (first_serving _ _) as [[tgt [spn|]]|]; eauto. rewrite A. cbn [bind]. eauto.
Qed.

(* Non-vacuity: a cache with a TGT, two tickets for the same service and a configuration entry. *)
Definition lk_cred (realm : bytes) (name : list bytes) (k : Z) : cred :=
  mkCred (mkCP 1 [82] [[117]]) (mkCP 2 realm name) 18 [k] 1 2 3 4 false 0 [] [] [k; k] [].

Example lookup_example :
  let tgt := lk_cred [82] [krbtgt; [82]] 1 in
  let s1 := lk_cred [82] [[72]; [104]] 2 in
  let cf := lk_cred (cacheconf ++ [58]) [[107]] 3 in
  let s2 := lk_cred [82] [[72]; [104]] 4 in
  let cs := [s1; tgt; cf; s2] in
  let cc := mkCC 4 0 [] (mkCP 1 [82] [[117]]) cs in
  get_entry cs [[72]; [104]] = Some s1 /\ get_entry cs [[72]] = None /\
  contains cs [krbtgt; [82]] = true /\ contains cs [[104]; [72]] = false /\
  get_entries cs = [s1; tgt; s2] /\
  (exists st, client_from_ccache cc [Some [72;47;104]; Some [107]; None; Some [72;47;104]] = Ok st /\
              cs_session st = tgt /\
              cache_lookup (cs_cache st) [72;47;104] None = Some s2 /\
              cache_lookup (cs_cache st) [107] None = Some tgt /\
              cache_lookup (cs_cache st) [120] None = None) /\
  client_from_ccache cc [Some [72;47;104]; None; None; Some [72;47;104]] = Err 31 /\
  client_from_ccache cc [None; Some [107]; None; Some [72;47;104]] = Err 32.
Proof.
  cbv zeta. repeat split; try (vm_compute; reflexivity).
  eexists. repeat split; vm_compute; reflexivity.
Qed.
