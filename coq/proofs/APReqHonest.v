(* COMPLETENESS of the service side, end to end: an honestly built AP-REQ is accepted.
   From the WIRE BYTES (RFC 4120 DER of the AP-REQ, model/APReqBytes.v, the Go decoder of model/GoASN1.v) through the
   REAL crypto model (model/Crypto.v: the ticket sealed by the KDC under the service key with usage 2, the authenticator
   sealed by the client under the session key) to the decision core (model/APReq.v).  Composition of
   - proofs/CryptoRoundTrip.v (what encrypt_with seals, decrypt opens),
   - proofs/APReqBytesProofs.v verify_apreq_bytes_refines_der (wire -> sealed-content model),
   - proofs/APReqProofs.v apreq_accept_iff, right to left (RFC 4120 3.2.3 conditions -> Accept).
   And the same request presented a second time is refused as a replay (KRB_AP_ERR_REPEAT = 34). *)
From Gokrb5.lib Require Import Bytes JV.
From Gokrb5.model Require Import Keytab Crypto Replay Schema DER DERCodec RFCSchemas GoASN1 APReq APReqBytes.
From Gokrb5.proofs Require Import ReplayProofs CryptoRoundTrip DERBasic DERProofs APReqProofs APReqBytesProofs.

(* ---------- sealing ---------- *)
(* the confounder length is Crypto.conf_len: 16 for the AES profiles, 8 for des3 (16) and rc4 (23) *)
Lemma conf_len_values :
  conf_len 17 = 16%nat /\ conf_len 18 = 16%nat /\ conf_len 19 = 16%nat /\ conf_len 20 = 16%nat /\
  conf_len 16 = 8%nat /\ conf_len 23 = 8%nat.
Proof. repeat split; reflexivity. Qed.

(* ct is an encryption of msg under (et, key, usage) for SOME confounder of the profile's length *)
Definition sealed (et : Z) (key : bytes) (usage : Z) (msg ct : bytes) : Prop :=
  exists conf, length conf = conf_len et /\ wf_bytes conf /\ encrypt_with et key usage conf msg = Ok ct.

(* what the round-trip theorems ask of the key: a byte string for AES (its length is checked by encrypt_with itself),
   16 octets for rc4 (decrypt checks it, encrypt_with does not), nothing for des3 *)
Definition key_ok (et : Z) (key : bytes) : Prop :=
  match et_family et with
  | Some FAesSha1 | Some FAesSha2 => wf_bytes key
  | Some FRc4 => length key = 16%nat
  | Some FDes3 | None => True
  end.

Lemma family_des3 et : et_family et = Some FDes3 -> et = 16.
Proof.
  unfold et_family. destruct ((et =? 17) || (et =? 18)); [discriminate|].
  destruct ((et =? 19) || (et =? 20)); [discriminate|].
  destruct (Z.eqb_spec et 16); [auto|]. destruct (et =? 23); discriminate.
Qed.

Lemma family_rc4 et : et_family et = Some FRc4 -> et = 23.
Proof.
  unfold et_family. destruct ((et =? 17) || (et =? 18)); [discriminate|].
  destruct ((et =? 19) || (et =? 20)); [discriminate|].
  destruct (et =? 16); [discriminate|]. destruct (Z.eqb_spec et 23); [auto|discriminate].
Qed.

Lemma family_aes_conf et : et_family et = Some FAesSha1 \/ et_family et = Some FAesSha2 -> conf_len et = 16%nat.
Proof.
  unfold et_family, conf_len. intros H.
  destruct (Z.eqb_spec et 16) as [E|]; [subst et; cbn in H; destruct H; discriminate|].
  destruct (Z.eqb_spec et 23) as [E|]; [subst et; cbn in H; destruct H; discriminate|]. reflexivity.
Qed.

Lemma sealed_family et key usage msg ct : sealed et key usage msg ct -> et_family et <> None.
Proof. intros (conf & _ & _ & E) F. unfold encrypt_with in E. rewrite F in E. discriminate. Qed.

(* WHAT IS SEALED OPENS: the plaintext comes back, followed for des3 by the zero padding RFC 3961 prescribes.
   (No hypothesis that et is a known etype: an unknown one seals nothing.) *)
Lemma sealed_decrypt et key usage msg ct :
  key_ok et key -> wf_bytes msg -> sealed et key usage msg ct ->
  exists pad, decrypt et key usage ct = Ok (msg ++ pad).
Proof.
  intros Hk Hm (conf & Hl & Hc & E). unfold key_ok in Hk.
  destruct (et_family et) as [[| | |]|] eqn:F.
  - exists []. rewrite app_nil_r. rewrite family_aes_conf in Hl by (left; exact F).
    exact (aes_sha1_roundtrip et key usage conf msg ct F Hl Hk Hc Hm E).
  - exists []. rewrite app_nil_r. rewrite family_aes_conf in Hl by (right; exact F).
    exact (aes_sha2_roundtrip et key usage conf msg ct F Hl Hk Hc Hm E).
  - apply family_des3 in F. subst et. exists (zeros ((8 - length (conf ++ msg) mod 8) mod 8)).
    exact (des3_roundtrip key usage conf msg ct Hl Hc Hm E).
  - apply family_rc4 in F. subst et. exists []. rewrite app_nil_r.
    exact (rc4_roundtrip key usage conf msg ct Hl Hk E).
  - unfold encrypt_with in E. rewrite F in E. discriminate.
Qed.

(* the pad is empty except for des3 *)
Lemma sealed_decrypt_exact et key usage msg ct :
  et <> 16 -> key_ok et key -> wf_bytes msg -> sealed et key usage msg ct -> decrypt et key usage ct = Ok msg.
Proof.
  intros Hn Hk Hm (conf & Hl & Hc & E). unfold key_ok in Hk.
  destruct (et_family et) as [[| | |]|] eqn:F.
  - rewrite family_aes_conf in Hl by (left; exact F).
    exact (aes_sha1_roundtrip et key usage conf msg ct F Hl Hk Hc Hm E).
  - rewrite family_aes_conf in Hl by (right; exact F).
    exact (aes_sha2_roundtrip et key usage conf msg ct F Hl Hk Hc Hm E).
  - apply family_des3 in F. contradiction.
  - apply family_rc4 in F. subst et. exact (rc4_roundtrip key usage conf msg ct Hl Hk E).
  - unfold encrypt_with in E. rewrite F in E. discriminate.
Qed.

(* ---------- the DER encodings of the sealed parts are byte strings ---------- *)
Lemma schema_ok_EncTicketPart : schema_ok rfc_EncTicketPart = true. Proof. vm_compute. reflexivity. Qed.
Lemma schema_ok_Authenticator : schema_ok rfc_Authenticator = true. Proof. vm_compute. reflexivity. Qed.

Lemma enc_ticket_part_wf v b : encode rfc_EncTicketPart v = Some b -> zlen b < 2 ^ 31 -> wf_bytes b.
Proof. intros E L. apply (encode_wf_bytes _ _ _ schema_ok_EncTicketPart E). lia. Qed.

Lemma authenticator_wf v b : encode rfc_Authenticator v = Some b -> zlen b < 2 ^ 31 -> wf_bytes b.
Proof. intros E L. apply (encode_wf_bytes _ _ _ schema_ok_Authenticator E). lia. Qed.

(* ---------- the decision core on a replay (any decoders) ---------- *)
Section Core.
  Variable dec_ticket : bytes -> option enc_ticket.
  Variable dec_auth : bytes -> option authenticator.

  (* every RFC 4120 3.2.3 condition holds but the authenticator is in the replay cache: KRB_AP_ERR_REPEAT,
     cache unchanged *)
  Lemma apreq_replay_rejected st kt t rc tk aet ac kv ktype kvno pt et apt au :
    get_key kt (match st_override st with Some o => o | None => tk_sname tk end)
            (tk_realm tk) (tk_kvno tk) (tk_etype tk) = Ok (kv, ktype, kvno) ->
    decrypt ktype kv 2 (tk_cipher tk) = Ok pt -> dec_ticket pt = Some et ->
    match et_start et with Some s => us s - t <= st_skew st | None => True end ->
    flag_invalid (et_flags et) = false -> t - us (et_end et) <= st_skew st ->
    (et_caddr et = [] \/ In (st_caddr st) (et_caddr et)) ->
    (st_require_addr st = true -> et_caddr et <> []) ->
    decrypt (et_keytype et) (et_key et) (auth_usage (tk_sname tk)) ac = Ok apt -> dec_auth apt = Some au ->
    au_cname au = et_cname et -> au_crealm au = et_crealm et ->
    Z.abs (t - (us (au_ctime au) + au_cusec au)) <= st_skew st ->
    In (mkAuth (join_slash (au_cname au)) (us (au_ctime au) + au_cusec au) (eff_sname st tk)) rc ->
    verify_apreq dec_ticket dec_auth st kt t rc tk aet ac = (Reject 34, rc).
  Proof.
    intros EK ED ET HS EFI HE HA HR EDA EAU ECN ECR HSK HRC. unfold verify_apreq.
    rewrite EK, ED, ET, EFI.
    assert ((match et_start et with Some s => st_skew st <? us s - t | None => false end) = false) as ->.
    { destruct (et_start et) as [s|]; [|reflexivity]. destruct (Z.ltb_spec (st_skew st) (us s - t)); [lia|reflexivity]. }
    cbn [orb].
    destruct (Z.ltb_spec (st_skew st) (t - us (et_end et))); [lia|].
    assert (negb (length (et_caddr et) =? 0)%nat && negb (existsb (addr_eqb (st_caddr st)) (et_caddr et)) = false) as ->.
    { destruct HA as [->|HA]; [reflexivity|]. apply existsb_addr in HA. rewrite HA. apply andb_false_r. }
    rewrite EDA, EAU.
    assert (names_eqb (au_cname au) (et_cname et) = true) as -> by (now apply names_eqb_eq).
    assert (beq_bytes (au_crealm au) (et_crealm et) = true) as -> by (now apply beq_bytes_eq).
    cbn [negb].
    destruct (Z.ltb_spec (st_skew st) (Z.abs (t - (us (au_ctime au) + au_cusec au)))); [lia|].
    assert (st_require_addr st && (length (et_caddr et) =? 0)%nat = false) as ->.
    { destruct (st_require_addr st); [|reflexivity]. cbn. specialize (HR eq_refl).
      destruct (et_caddr et); [congruence|reflexivity]. }
    apply existsb_auth in HRC. rewrite HRC. reflexivity.
  Qed.
End Core.

(* ---------- from the wire: the honest request ---------- *)
(* the hypotheses shared by acceptance and replay: how the request was built *)
Section Honest.
  Variables (st : settings) (kt : list entry) (tk : ticket) (aet : Z) (ac wire rest : bytes)
            (et : enc_ticket) (au : authenticator) (ept apt0 kv : bytes) (ktype kvno : Z).
  (* the AP-REQ on the wire is the RFC 4120 DER encoding of (ticket, authenticator etype, authenticator cipher) *)
  Hypothesis Hwf : wf_apreq tk aet ac = true.
  Hypothesis Hwire : encode rfc_APReq (inject_apreq tk aet ac) = Some wire.
  Hypothesis Hwlen : zlen wire < 2 ^ 31.
  (* ept / apt0 are the DER encodings of the EncTicketPart et and of the Authenticator au *)
  Hypothesis Hwet : wf_enc_ticket et = true.
  Hypothesis Hept : encode rfc_EncTicketPart (inject_enc_ticket et) = Some ept.
  Hypothesis Heptlen : zlen ept < 2 ^ 31.
  Hypothesis Hwau : wf_authenticator au = true.
  Hypothesis Hapt : encode rfc_Authenticator (inject_authenticator au) = Some apt0.
  Hypothesis Haptlen : zlen apt0 < 2 ^ 31.
  (* the service's keytab holds the key the KDC sealed the ticket with (usage 2) *)
  Hypothesis Hkey : get_key kt (match st_override st with Some o => o | None => tk_sname tk end)
                            (tk_realm tk) (tk_kvno tk) (tk_etype tk) = Ok (kv, ktype, kvno).
  Hypothesis Hkok : key_ok ktype kv.
  Hypothesis Hsealt : sealed ktype kv 2 ept (tk_cipher tk).
  (* the client sealed the authenticator under the session key of the ticket *)
  Hypothesis Hsok : key_ok (et_keytype et) (et_key et).
  Hypothesis Hseala : sealed (et_keytype et) (et_key et) (auth_usage (tk_sname tk)) apt0 ac.

  Lemma honest_refines t rc :
    exists pad apad,
      decrypt ktype kv 2 (tk_cipher tk) = Ok (ept ++ pad) /\
      decrypt (et_keytype et) (et_key et) (auth_usage (tk_sname tk)) ac = Ok (apt0 ++ apad) /\
      verify_apreq_bytes st kt t rc (wire ++ rest) =
      verify_apreq (fun _ => Some et) (fun _ => Some au) st kt t rc tk aet ac.
  Proof.
    destruct (sealed_decrypt ktype kv 2 ept (tk_cipher tk) Hkok (enc_ticket_part_wf _ _ Hept Heptlen) Hsealt)
      as [pad Hd].
    destruct (sealed_decrypt (et_keytype et) (et_key et) (auth_usage (tk_sname tk)) apt0 ac Hsok
                             (authenticator_wf _ _ Hapt Haptlen) Hseala) as [apad Hda].
    exists pad, apad. split; [exact Hd|]. split; [exact Hda|].
    apply (verify_apreq_bytes_refines_der st kt t rc tk aet ac wire rest et au ept pad apt0 apad); auto.
    - intros kv' ktype' kvno' pt Ek Ed. rewrite Hkey in Ek. injection Ek as <- <- <-.
      rewrite Hd in Ed. injection Ed as <-. reflexivity.
    - intros apt Ea. rewrite Hda in Ea. injection Ea as <-. reflexivity.
  Qed.
End Honest.

(* THE COMPLETENESS THEOREM *)
Theorem honest_apreq_accepted st kt t rc tk aet ac wire rest et au ept apt0 kv ktype kvno :
  wf_apreq tk aet ac = true -> encode rfc_APReq (inject_apreq tk aet ac) = Some wire -> zlen wire < 2 ^ 31 ->
  wf_enc_ticket et = true -> encode rfc_EncTicketPart (inject_enc_ticket et) = Some ept -> zlen ept < 2 ^ 31 ->
  wf_authenticator au = true -> encode rfc_Authenticator (inject_authenticator au) = Some apt0 -> zlen apt0 < 2 ^ 31 ->
  get_key kt (match st_override st with Some o => o | None => tk_sname tk end)
          (tk_realm tk) (tk_kvno tk) (tk_etype tk) = Ok (kv, ktype, kvno) ->
  key_ok ktype kv -> sealed ktype kv 2 ept (tk_cipher tk) ->
  key_ok (et_keytype et) (et_key et) -> sealed (et_keytype et) (et_key et) (auth_usage (tk_sname tk)) apt0 ac ->
  match et_start et with Some s => us s - t <= st_skew st | None => True end ->
  flag_invalid (et_flags et) = false -> t - us (et_end et) <= st_skew st ->
  (et_caddr et = [] \/ In (st_caddr st) (et_caddr et)) ->
  (st_require_addr st = true -> et_caddr et <> []) ->
  au_cname au = et_cname et -> au_crealm au = et_crealm et ->
  Z.abs (t - (us (au_ctime au) + au_cusec au)) <= st_skew st ->
  ~ In (mkAuth (join_slash (au_cname au)) (us (au_ctime au) + au_cusec au) (eff_sname st tk)) rc ->
  verify_apreq_bytes st kt t rc (wire ++ rest) =
  (Accept (mkIdentity (join_slash (et_cname et)) (et_crealm et) (et_cname et) (et_end et)),
   mkAuth (join_slash (au_cname au)) (us (au_ctime au) + au_cusec au) (eff_sname st tk) :: rc).
Proof.
  intros Hwf Hwire Hwlen Hwet Hept Heptlen Hwau Hapt Haptlen Hkey Hkok Hsealt Hsok Hseala
         HS EFI HE HA HR ECN ECR HSK HRC.
  destruct (honest_refines st kt tk aet ac wire rest et au ept apt0 kv ktype kvno
              Hwf Hwire Hwlen Hwet Hept Heptlen Hwau Hapt Haptlen Hkey Hkok Hsealt Hsok Hseala t rc)
    as (pad & apad & Hd & Hda & ->).
  apply (apreq_accept_iff (fun _ => Some et) (fun _ => Some au)).
  exists kv, ktype, kvno, (ept ++ pad), et, (apt0 ++ apad), au. cbv zeta.
  repeat split; auto.
Qed.

(* ... and whenever its authenticator is already in the replay cache it is refused with KRB_AP_ERR_REPEAT (34) and the
   cache stays as it is *)
Theorem honest_apreq_replayed st kt t rc tk aet ac wire rest et au ept apt0 kv ktype kvno :
  wf_apreq tk aet ac = true -> encode rfc_APReq (inject_apreq tk aet ac) = Some wire -> zlen wire < 2 ^ 31 ->
  wf_enc_ticket et = true -> encode rfc_EncTicketPart (inject_enc_ticket et) = Some ept -> zlen ept < 2 ^ 31 ->
  wf_authenticator au = true -> encode rfc_Authenticator (inject_authenticator au) = Some apt0 -> zlen apt0 < 2 ^ 31 ->
  get_key kt (match st_override st with Some o => o | None => tk_sname tk end)
          (tk_realm tk) (tk_kvno tk) (tk_etype tk) = Ok (kv, ktype, kvno) ->
  key_ok ktype kv -> sealed ktype kv 2 ept (tk_cipher tk) ->
  key_ok (et_keytype et) (et_key et) -> sealed (et_keytype et) (et_key et) (auth_usage (tk_sname tk)) apt0 ac ->
  match et_start et with Some s => us s - t <= st_skew st | None => True end ->
  flag_invalid (et_flags et) = false -> t - us (et_end et) <= st_skew st ->
  (et_caddr et = [] \/ In (st_caddr st) (et_caddr et)) ->
  (st_require_addr st = true -> et_caddr et <> []) ->
  au_cname au = et_cname et -> au_crealm au = et_crealm et ->
  Z.abs (t - (us (au_ctime au) + au_cusec au)) <= st_skew st ->
  In (mkAuth (join_slash (au_cname au)) (us (au_ctime au) + au_cusec au) (eff_sname st tk)) rc ->
  verify_apreq_bytes st kt t rc (wire ++ rest) = (Reject 34, rc).
Proof.
  intros Hwf Hwire Hwlen Hwet Hept Heptlen Hwau Hapt Haptlen Hkey Hkok Hsealt Hsok Hseala
         HS EFI HE HA HR ECN ECR HSK HRC.
  destruct (honest_refines st kt tk aet ac wire rest et au ept apt0 kv ktype kvno
              Hwf Hwire Hwlen Hwet Hept Heptlen Hwau Hapt Haptlen Hkey Hkok Hsealt Hsok Hseala t rc)
    as (pad & apad & Hd & Hda & ->).
  apply (apreq_replay_rejected (fun _ => Some et) (fun _ => Some au) st kt t rc tk aet ac
                               kv ktype kvno (ept ++ pad) et (apt0 ++ apad) au); auto.
Qed.

(* THE SAME WIRE PRESENTED AGAIN: under the hypotheses of honest_apreq_accepted (first presentation at time t against
   the cache rc), at any later time t' that still satisfies the time conditions, against the cache the first
   presentation left behind: KRB_AP_ERR_REPEAT, and that cache is kept *)
Corollary honest_apreq_then_replay_rejected st kt t t' rc tk aet ac wire rest et au ept apt0 kv ktype kvno :
  wf_apreq tk aet ac = true -> encode rfc_APReq (inject_apreq tk aet ac) = Some wire -> zlen wire < 2 ^ 31 ->
  wf_enc_ticket et = true -> encode rfc_EncTicketPart (inject_enc_ticket et) = Some ept -> zlen ept < 2 ^ 31 ->
  wf_authenticator au = true -> encode rfc_Authenticator (inject_authenticator au) = Some apt0 -> zlen apt0 < 2 ^ 31 ->
  get_key kt (match st_override st with Some o => o | None => tk_sname tk end)
          (tk_realm tk) (tk_kvno tk) (tk_etype tk) = Ok (kv, ktype, kvno) ->
  key_ok ktype kv -> sealed ktype kv 2 ept (tk_cipher tk) ->
  key_ok (et_keytype et) (et_key et) -> sealed (et_keytype et) (et_key et) (auth_usage (tk_sname tk)) apt0 ac ->
  match et_start et with Some s => us s - t <= st_skew st | None => True end ->
  flag_invalid (et_flags et) = false -> t - us (et_end et) <= st_skew st ->
  (et_caddr et = [] \/ In (st_caddr st) (et_caddr et)) ->
  (st_require_addr st = true -> et_caddr et <> []) ->
  au_cname au = et_cname et -> au_crealm au = et_crealm et ->
  Z.abs (t - (us (au_ctime au) + au_cusec au)) <= st_skew st ->
  ~ In (mkAuth (join_slash (au_cname au)) (us (au_ctime au) + au_cusec au) (eff_sname st tk)) rc ->
  (* the time conditions at the second presentation *)
  match et_start et with Some s => us s - t' <= st_skew st | None => True end ->
  t' - us (et_end et) <= st_skew st ->
  Z.abs (t' - (us (au_ctime au) + au_cusec au)) <= st_skew st ->
  let a := mkAuth (join_slash (au_cname au)) (us (au_ctime au) + au_cusec au) (eff_sname st tk) in
  let first := verify_apreq_bytes st kt t rc (wire ++ rest) in
  snd first = a :: rc /\
  verify_apreq_bytes st kt t' (snd first) (wire ++ rest) = (Reject 34, a :: rc).
Proof.
  intros Hwf Hwire Hwlen Hwet Hept Heptlen Hwau Hapt Haptlen Hkey Hkok Hsealt Hsok Hseala
         HS EFI HE HA HR ECN ECR HSK HRC HS' HE' HSK'. cbv zeta.
  rewrite (honest_apreq_accepted st kt t rc tk aet ac wire rest et au ept apt0 kv ktype kvno); auto.
  cbn [snd]. split; [reflexivity|].
  apply (honest_apreq_replayed st kt t' _ tk aet ac wire rest et au ept apt0 kv ktype kvno); auto.
  left. reflexivity.
Qed.

(* ---------- the hypotheses are satisfiable ---------- *)
(* sealed / key_ok / sealed_decrypt on concrete values: aes128-cts-hmac-sha1-96 (17) and rc4-hmac (23) *)
Example ex_sealed_17 :
  let key := repeatz 7 16 in let conf := repeatz 1 16 in let msg := [104; 105] in
  key_ok 17 key /\ wf_bytes msg /\
  match encrypt_with 17 key 2 conf msg with
  | Ok ct => sealed 17 key 2 msg ct /\ decrypt 17 key 2 ct = Ok msg
  | _ => False
  end.
Proof.
  cbv zeta. split; [apply wf_bytesb_iff; vm_compute; reflexivity|].
  split; [apply wf_bytesb_iff; vm_compute; reflexivity|].
  destruct (encrypt_with 17 (repeatz 7 16) 2 (repeatz 1 16) [104; 105]) as [ct| |] eqn:E.
  - assert (S : sealed 17 (repeatz 7 16) 2 [104; 105] ct).
    { exists (repeatz 1 16). split; [reflexivity|]. split; [apply wf_bytesb_iff; vm_compute; reflexivity|exact E]. }
    split; [exact S|]. apply sealed_decrypt_exact; [discriminate| | |exact S]; apply wf_bytesb_iff; vm_compute; reflexivity.
  - revert E. vm_compute. discriminate.
  - revert E. vm_compute. discriminate.
Qed.

Example ex_sealed_23 :
  key_ok 23 ex_svc_key /\ sealed 23 ex_svc_key 2 ex_pt (tk_cipher ex_tk) /\
  key_ok 23 ex_session /\ sealed 23 ex_session 11 ex_apt ex_ac.
Proof.
  split; [reflexivity|]. split.
  - exists ex_conf. split; [reflexivity|]. split; [apply wf_bytesb_iff; vm_compute; reflexivity|].
    vm_compute. reflexivity.
  - split; [reflexivity|]. exists ex_conf. split; [reflexivity|].
    split; [apply wf_bytesb_iff; vm_compute; reflexivity|]. vm_compute. reflexivity.
Qed.

(* every hypothesis of honest_apreq_accepted holds of the rc4-hmac request of APReqBytesProofs.v (really sealed, 403
   octets on the wire), so the theorem applies to it: the conclusion is obtained FROM THE THEOREM, then compared with
   running the model *)
Example ex_honest_accepted :
  verify_apreq_bytes ex_st ex_kt ex_now [] (ex_wire ++ [0; 0]) =
  (Accept (mkIdentity ex_user ex_realm [ex_user] 1700036000), [mkAuth ex_user 1700000100123456 ex_sname]).
Proof.
  destruct ex_sealed_23 as (K1 & S1 & K2 & S2).
  destruct ex_encodings as (E1 & E2 & E3 & L3).
  assert (W1 : wf_enc_ticket ex_et = true) by (vm_compute; reflexivity).
  assert (W2 : wf_authenticator ex_au = true) by (vm_compute; reflexivity).
  assert (W3 : wf_apreq ex_tk 23 ex_ac = true) by (vm_compute; reflexivity).
  rewrite (honest_apreq_accepted ex_st ex_kt ex_now [] ex_tk 23 ex_ac ex_wire [0; 0] ex_et ex_au ex_pt ex_apt
                                 ex_svc_key 23 3).
  - reflexivity.
  - exact W3.
  - exact E3.
  - rewrite L3. reflexivity.
  - exact W1.
  - exact E1.
  - vm_compute. reflexivity.
  - exact W2.
  - exact E2.
  - vm_compute. reflexivity.
  - vm_compute. reflexivity.
  - exact K1.
  - exact S1.
  - exact K2.
  - exact S2.
  - vm_compute. discriminate.
  - reflexivity.
  - vm_compute. discriminate.
  - right. left. reflexivity.
  - discriminate.
  - reflexivity.
  - reflexivity.
  - vm_compute. discriminate.
  - intros [].
Qed.

(* and presented again one second later against the cache it left: KRB_AP_ERR_REPEAT *)
Example ex_honest_replayed :
  verify_apreq_bytes ex_st ex_kt (ex_now + 1000000) [mkAuth ex_user 1700000100123456 ex_sname] (ex_wire ++ [0; 0]) =
  (Reject 34, [mkAuth ex_user 1700000100123456 ex_sname]).
Proof. vm_compute. reflexivity. Qed.
