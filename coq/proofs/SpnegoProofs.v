(* The wrapped handler runs only for authenticated requests; no verification API accepts a non-AP-REQ. *)
From Gokrb5.lib Require Import Bytes JV.
From Gokrb5.model Require Import APReq Spnego.

(* the mechanism token a negotiation token carries *)
Definition carried (t : neg_token) : option mech_token :=
  match t with NInit _ tok => tok | NResp _ tok => tok end.

Lemma krb5_verify_some mt id s : krb5_verify mt = (Some id, s) -> mt = MTAPReq (Some id) /\ s = SComplete.
Proof. destruct mt as [[i|]| |[|]| |]; cbn; intros H; inversion H; auto. Qed.

(* No verification API reports success for a token that does not contain an accepted AP-REQ. *)
Theorem no_verify_api_accepts_non_apreq t id s :
  accept_sec_context t = (Some id, s) -> carried t = Some (MTAPReq (Some id)) /\ s = SComplete.
Proof.
  destruct t as [[|o r] tok|m tok]; cbn.
  - discriminate.
  - destruct (is_krb5 o); [|discriminate]. unfold init_verify. destruct (existsb is_krb5 (o :: r)); [|discriminate].
    destruct tok as [mt|]; [|discriminate]. intros H. apply krb5_verify_some in H. destruct H as [-> ->]. auto.
  - destruct (is_krb5 m) eqn:E; [|discriminate]. unfold resp_verify. rewrite E.
    destruct tok as [mt|]; [|discriminate]. intros H. apply krb5_verify_some in H. destruct H as [-> ->]. auto.
Qed.

Theorem init_verify_accepts_only_apreq mechs tok id s :
  init_verify mechs tok = (Some id, s) -> tok = Some (MTAPReq (Some id)).
Proof.
  unfold init_verify. destruct (existsb is_krb5 mechs); [|discriminate].
  destruct tok as [mt|]; [|discriminate]. intros H. apply krb5_verify_some in H. destruct H as [-> _]. reflexivity.
Qed.

Theorem resp_verify_accepts_only_apreq mech tok id s :
  resp_verify mech tok = (Some id, s) -> tok = Some (MTAPReq (Some id)).
Proof.
  unfold resp_verify. destruct (is_krb5 mech); [|discriminate].
  destruct tok as [mt|]; [|discriminate]. intros H. apply krb5_verify_some in H. destruct H as [-> _]. reflexivity.
Qed.

(* The wrapped handler is invoked only for a request of an established authenticated session, or one that
   carries a token containing an accepted AP-REQ; the identity in the request context is the accepted one. *)
Theorem handler_only_if_authenticated s h id :
  r_inner (serve s h) = Some id ->
  s = Session id true \/
  (exists t, h = HToken t /\ carried t = Some (MTAPReq (Some id))).
Proof.
  unfold serve. destruct s as [|nf|sid [|]]; cbn.
  3: { intros H; injection H as ->; left; reflexivity. }
  all: destruct h as [| | |t]; cbn; try discriminate.
  all: destruct (accept_sec_context t) as [[i|] st] eqn:E; destruct st; cbn; try discriminate.
  all: try (destruct nf; cbn; try discriminate).
  all: intros H; injection H as ->; right; exists t; split; [reflexivity|];
       apply no_verify_api_accepts_non_apreq in E; apply E.
Qed.

(* Every other request is refused with 401 and a WWW-Authenticate: Negotiate challenge, or with a 5xx
   exactly when the session store fails, and never reaches the wrapped handler. *)
Theorem otherwise_refused s h :
  r_inner (serve s h) = None ->
  (r_status (serve s h) = 401 /\ r_challenge (serve s h) <> CNone /\ r_challenge (serve s h) <> CAcceptCompleted) \/
  (r_status (serve s h) = 500 /\ s = NoSession true /\
   exists t id, h = HToken t /\ accept_sec_context t = (Some id, SComplete)).
Proof.
  unfold serve. destruct s as [|nf|sid [|]]; cbn.
  3: discriminate.
  all: destruct h as [| | |t]; cbn; try (intros _; left; repeat split; discriminate).
  all: destruct (accept_sec_context t) as [[i|] st] eqn:E; destruct st; cbn;
       try (intros _; left; repeat split; discriminate); try discriminate.
  destruct nf; cbn; [|discriminate]. intros _. right. repeat split; eauto.
Qed.

Theorem served_status s h id :
  r_inner (serve s h) = Some id -> r_status (serve s h) = 200.
Proof.
  unfold serve. destruct s as [|nf|sid [|]]; cbn; try (intros _; reflexivity).
  all: destruct h as [| | |t]; cbn; try discriminate.
  all: destruct (accept_sec_context t) as [[i|] st]; destruct st; cbn; try discriminate; try (intros _; reflexivity).
  destruct nf; cbn; [discriminate|reflexivity].
Qed.

(* over request sequences: with a session manager, the session established by an accepted request serves the
   following ones; without one every request needs its own accepted token *)
Fixpoint serve_seq (s : session) (hs : list header) : list response :=
  match hs with
  | [] => []
  | h :: r =>
    let resp := serve s h in
    let s' := match s, r_inner resp with
              | NoSession false, Some id => Session id true
              | _, _ => s
              end in
    resp :: serve_seq s' r
  end.

Theorem sequence_handler_only_if_authenticated : forall hs s,
  (match s with Session _ _ => False | _ => True end) ->
  forall n resp id, nth_error (serve_seq s hs) n = Some resp -> r_inner resp = Some id ->
  exists m t, (m <= n)%nat /\ nth_error hs m = Some (HToken t) /\ carried t = Some (MTAPReq (Some id)).
Proof.
  induction hs as [|h r IH]; intros s Hs n resp id Hn Hi; [destruct n; discriminate|].
  cbn [serve_seq] in Hn. destruct n as [|n]; cbn [nth_error] in Hn.
  - injection Hn as <-. destruct (handler_only_if_authenticated s h id Hi) as [->|(t & -> & Hc)]; [contradiction|].
    exists 0%nat, t. repeat split; auto.
  - destruct s as [|nf|sid a]; try contradiction.
    + destruct (IH NoManager I n resp id Hn Hi) as (m & t & Hm & Hnth & Hc).
      exists (S m), t. repeat split; auto; lia.
    + destruct nf.
      * destruct (IH (NoSession true) I n resp id Hn Hi) as (m & t & Hm & Hnth & Hc).
        exists (S m), t. repeat split; auto; lia.
      * destruct (r_inner (serve (NoSession false) h)) as [id0|] eqn:E0.
        -- (* a session was established by this request: later responses carry its identity *)
           assert (forall hs' k resp', nth_error (serve_seq (Session id0 true) hs') k = Some resp' ->
                                       r_inner resp' = Some id0) as Hsess.
           { induction hs' as [|h' r' IH']; intros k resp' Hk; [destruct k; discriminate|].
             cbn [serve_seq] in Hk. destruct k; cbn [nth_error] in Hk.
             - injection Hk as <-. reflexivity.
             - cbn [serve r_inner] in Hk. eapply IH'; eauto. }
           pose proof (Hsess r n resp Hn) as Hid. rewrite Hi in Hid. injection Hid as ->.
           destruct (handler_only_if_authenticated (NoSession false) h id0 E0) as [Hc|(t & -> & Hc)]; [discriminate|].
           exists 0%nat, t. repeat split; auto; lia.
        -- destruct (IH (NoSession false) I n resp id Hn Hi) as (m & t & Hm & Hnth & Hc).
           exists (S m), t. repeat split; auto; lia.
Qed.

Example serve_example :
  let id := mkIdentity [117] [82] [] 0 in
  serve NoManager (HToken (NInit [OKrb5] (Some (MTAPReq (Some id))))) = mkResp 200 CAcceptCompleted (Some id) /\
  serve NoManager (HToken (NInit [OKrb5] (Some (MTKrbError true)))) = mkResp 401 CReject None /\
  serve NoManager (HToken (NInit [] None)) = mkResp 401 CReject None /\
  serve (NoSession true) (HToken (NResp OMsKrb5 (Some (MTAPReq (Some id))))) = mkResp 500 CNone None.
Proof. repeat split. Qed.
