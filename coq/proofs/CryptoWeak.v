(* RFC 3961 6.3.1 weak-key correction: no 8-octet part of a des3 random-to-key output is one of the sixteen weak
   or semi-weak DES keys (the list of the RFC / NIST SP 800-67), for every input. *)
From Gokrb5.lib Require Import Bytes JV.
From Gokrb5.model Require Import Crypto.
From Gokrb5.proofs Require Import CryptoKeys.

Definition des_weak (k : bytes) : bool := existsb (beq_bytes k) des_weak_keys.

(* correcting a weak key never lands on another weak key: finite sweep over the table *)
Lemma fix_of_weak_not_weak : forallb (fun k => negb (des_weak (fix_weak k))) des_weak_keys = true.
Proof. vm_compute. reflexivity. Qed.

Theorem fix_weak_not_weak k : des_weak (fix_weak k) = false.
Proof.
  destruct (des_weak k) eqn:W.
  - unfold des_weak in W. apply existsb_exists in W. destruct W as (w & Hin & E).
    apply beq_bytes_eq in E. subst w.
    pose proof fix_of_weak_not_weak as A. rewrite forallb_forall in A.
    specialize (A k Hin). apply negb_true_iff in A. exact A.
  - unfold fix_weak. unfold des_weak in W. rewrite W. exact W.
Qed.

(* a key that is not weak is left alone *)
Lemma fix_weak_id k : des_weak k = false -> fix_weak k = k.
Proof. unfold des_weak, fix_weak. intros ->. reflexivity. Qed.

(* and a weak one changes in its last octet only, by 0xF0 *)
Lemma fix_weak_changes_last k : des_weak k = true ->
  fix_weak k = firstn 7 k ++ [Z.lxor (nth 7 k 0) 240].
Proof. unfold des_weak, fix_weak. intros ->. reflexivity. Qed.

Theorem des3_random_to_key_no_weak_part b : (21 <= length b)%nat ->
  exists k1 k2 k3, des3_random_to_key b = k1 ++ k2 ++ k3 /\
    length k1 = 8%nat /\ length k2 = 8%nat /\ length k3 = 8%nat /\
    des_weak k1 = false /\ des_weak k2 = false /\ des_weak k3 = false.
Proof.
  intros H. unfold des3_random_to_key.
  assert (length (slice b 0 7) = 7%nat /\ length (slice b 7 14) = 7%nat /\ length (slice b 14 21) = 7%nat)
    as (E0 & E7 & E14).
  { unfold slice. rewrite !firstn_length, !skipn_length.
    change (Z.to_nat (7 - 0)) with 7%nat. change (Z.to_nat (14 - 7)) with 7%nat.
    change (Z.to_nat (21 - 14)) with 7%nat. change (Z.to_nat 0) with 0%nat.
    change (Z.to_nat 7) with 7%nat. change (Z.to_nat 14) with 14%nat. lia. }
  eexists _, _, _. split; [reflexivity|].
  repeat split; try apply fix_weak_not_weak; apply fix_weak_length; rewrite stretch56_length; congruence.
Qed.
