(* CCache.cc_unmarshal reads every file of the MIT credential-cache grammar (format versions 1 to 4) to
   exactly the cache that was written.

   The grammar `render` below is written from the MIT krb5 document "Credential cache file format"
   (doc/formats/ccache_file_format.rst).  The document is not reachable from the offline sandbox: the
   layout was derived from the knowledge of that document AND cross-checked against the reader in
   v8/credentials/ccache.go; the independent Go writer of the harness (props/c15) follows the same text.

     file       ::= 0x05 version [header (version 4 only)] principal credential*          (to end of file)
     header     ::= length(16) { tag(16) length(16) value }*     (unknown tags are to be ignored by readers;
                                                                  tag 1 = KDC time offset, always 8 bytes)
     principal  ::= [name type(32), not in version 1] count(32) (version 1: counts the realm too)
                    realm(data) component(data)*
     data       ::= length(32) bytes
     credential ::= client server keyblock authtime(32) starttime(32) endtime(32) renew_till(32)
                    is_skey(8) ticket_flags(32) addresses authdata ticket(data) second_ticket(data)
     keyblock   ::= enctype(16) [repeated in version 3] data
     addresses  ::= count(32) { addrtype(16) data }*        authdata ::= count(32) { ad_type(16) data }*
   Integers are big endian in versions 3 and 4 and in native order (little endian here) in 1 and 2. *)
From Gokrb5.lib Require Import Bytes JV.
From Gokrb5.model Require Import CCache.

(* ---------- the grammar ---------- *)

Definition cput (w : nat) (le : bool) (z : Z) : bytes := if le then le_bytes w z else be_bytes w z.

Definition cc_le (v : Z) : bool := (v =? 1) || (v =? 2).

Definition r_data (le : bool) (d : bytes) : bytes := cput 4 le (zlen d) ++ d.

Definition r_princ (v : Z) (le : bool) (p : cprinc) : bytes :=
  (if v =? 1 then [] else cput 4 le (cp_ntype p))
  ++ cput 4 le (if v =? 1 then zlen (cp_comps p) + 1 else zlen (cp_comps p))
  ++ r_data le (cp_realm p)
  ++ concat (map (r_data le) (cp_comps p)).

Definition r_tagged (le : bool) (t : tagged) : bytes := cput 2 le (fst t) ++ r_data le (snd t).

Definition r_counted (le : bool) (l : list tagged) : bytes :=
  cput 4 le (zlen l) ++ concat (map (r_tagged le) l).

Definition r_cred (v : Z) (le : bool) (c : cred) : bytes :=
  r_princ v le (c_client c) ++ r_princ v le (c_server c)
  ++ cput 2 le (c_ktype c) ++ (if v =? 3 then cput 2 le (c_ktype c) else [])
  ++ r_data le (c_key c)
  ++ cput 4 le (c_auth c) ++ cput 4 le (c_start c) ++ cput 4 le (c_end c) ++ cput 4 le (c_renew c)
  ++ cput 1 le (if c_skey c then 1 else 0)
  ++ cput 4 le (c_flags c)
  ++ r_counted le (c_addrs c) ++ r_counted le (c_authdata c)
  ++ r_data le (c_ticket c) ++ r_data le (c_ticket2 c).

Definition r_hfield (f : hfield) : bytes :=
  cput 2 false (hf_tag f) ++ cput 2 false (zlen (hf_val f)) ++ hf_val f.

Definition r_hbody (fs : list hfield) : bytes := concat (map r_hfield fs).

Definition r_header (fs : list hfield) : bytes := cput 2 false (zlen (r_hbody fs)) ++ r_hbody fs.

Definition render (m : ccache) : bytes :=
  let v := cc_version m in
  [5; v]
  ++ (if v =? 4 then r_header (cc_hfields m) else [])
  ++ r_princ v (cc_le v) (cc_princ m)
  ++ concat (map (r_cred v (cc_le v)) (cc_creds m)).

(* well-formed = every field fits the file representation *)
Definition wf_data (d : bytes) : Prop := zlen d < 2 ^ 31.

Definition wf_princ (v : Z) (p : cprinc) : Prop :=
  (v = 1 -> cp_ntype p = 0) /\ - 2 ^ 31 <= cp_ntype p < 2 ^ 31 /\
  zlen (cp_comps p) + 1 < 2 ^ 31 /\ wf_data (cp_realm p) /\ Forall wf_data (cp_comps p).

Definition wf_tagged (t : tagged) : Prop := - 2 ^ 15 <= fst t < 2 ^ 15 /\ wf_data (snd t).

Definition wf_cred (v : Z) (c : cred) : Prop :=
  wf_princ v (c_client c) /\ wf_princ v (c_server c) /\
  - 2 ^ 15 <= c_ktype c < 2 ^ 15 /\ wf_data (c_key c) /\
  - 2 ^ 31 <= c_auth c < 2 ^ 31 /\ - 2 ^ 31 <= c_start c < 2 ^ 31 /\
  - 2 ^ 31 <= c_end c < 2 ^ 31 /\ - 2 ^ 31 <= c_renew c < 2 ^ 31 /\
  0 <= c_flags c < 2 ^ 32 /\
  zlen (c_addrs c) < 2 ^ 31 /\ Forall wf_tagged (c_addrs c) /\
  zlen (c_authdata c) < 2 ^ 31 /\ Forall wf_tagged (c_authdata c) /\
  wf_data (c_ticket c) /\ wf_data (c_ticket2 c).

Definition wf_hfield (f : hfield) : Prop :=
  0 <= hf_tag f < 2 ^ 16 /\ hf_len f = zlen (hf_val f) /\ zlen (hf_val f) < 2 ^ 16 /\
  (hf_tag f = 1 -> zlen (hf_val f) = 8).

Definition wf_cc (m : ccache) : Prop :=
  1 <= cc_version m <= 4 /\
  (cc_version m = 4 ->
     cc_hlen m = zlen (r_hbody (cc_hfields m)) /\ cc_hlen m < 2 ^ 16 /\ Forall wf_hfield (cc_hfields m)) /\
  (cc_version m <> 4 -> cc_hlen m = 0 /\ cc_hfields m = []) /\
  wf_princ (cc_version m) (cc_princ m) /\
  Forall (wf_cred (cc_version m)) (cc_creds m).

(* ---------- reader lemmas ---------- *)

Lemma cput_length w le z : length (cput w le z) = w.
Proof. unfold cput; destruct le; [apply le_bytes_length | apply be_bytes_length]. Qed.

Lemma cput_zlen w le z : zlen (cput w le z) = Z.of_nat w.
Proof. unfold zlen; now rewrite cput_length. Qed.

Lemma cval_cput w le z : cval le (cput w le z) = z mod 256 ^ Z.of_nat w.
Proof. unfold cval, cput; destruct le; [apply le_val_le_bytes | apply be_val_be_bytes]. Qed.

Lemma cc_pow256 w : 256 ^ Z.of_nat w = 2 ^ (8 * Z.of_nat w).
Proof. change 256 with (2 ^ 8). rewrite <- Z.pow_mul_r by lia. reflexivity. Qed.

Lemma cc_sint_mod_signed w z : 0 < w -> - 2 ^ (w - 1) <= z < 2 ^ (w - 1) -> sint w (z mod 2 ^ w) = z.
Proof.
  intros Hw Hz. unfold sint.
  assert (2 ^ w = 2 * 2 ^ (w - 1)) as E by (rewrite <- Z.pow_succ_r by lia; f_equal; lia).
  assert (0 < 2 ^ (w - 1)) by (apply Z.pow_pos_nonneg; lia).
  rewrite Z.mod_mod by lia.
  destruct (Z_lt_le_dec z 0) as [Hneg|Hpos].
  - replace (z mod 2 ^ w) with (z + 2 ^ w).
    + destruct (Z.ltb_spec (z + 2 ^ w) (2 ^ (w - 1))); lia.
    + symmetry. replace (z + 2 ^ w) with (z + 1 * 2 ^ w) by lia.
      rewrite <- (Z.mod_add z 1 (2 ^ w)) by lia. apply Z.mod_small; lia.
  - rewrite Z.mod_small by lia. destruct (Z.ltb_spec z (2 ^ (w - 1))); lia.
Qed.

Lemma rd_bytes_app s rest : rd_bytes (zlen s) (s ++ rest) = Ok (s, rest).
Proof.
  unfold rd_bytes. pose proof (zlen_nonneg s). pose proof (zlen_nonneg rest).
  destruct (Z.ltb_spec (zlen s) 0); [lia|].
  rewrite zlen_app. destruct (Z.ltb_spec (zlen s + zlen rest) (zlen s)); [lia|].
  cbn [orb]. replace (Z.to_nat (zlen s)) with (length s) by (unfold zlen; now rewrite Nat2Z.id).
  now rewrite firstn_app_exact, skipn_app_exact.
Qed.

Lemma rd_bytes_cput w le z rest : rd_bytes (Z.of_nat w) (cput w le z ++ rest) = Ok (cput w le z, rest).
Proof. rewrite <- (cput_zlen w le z). apply rd_bytes_app. Qed.

Lemma rd_int_cput w le z rest :
  (0 < w)%nat -> - 2 ^ (8 * Z.of_nat w - 1) <= z < 2 ^ (8 * Z.of_nat w - 1) ->
  rd_int (Z.of_nat w) le (cput w le z ++ rest) = Ok (z, rest).
Proof.
  intros Hw Hz. unfold rd_int. rewrite rd_bytes_cput. cbn [bind].
  rewrite cval_cput, cc_pow256, cc_sint_mod_signed by lia. reflexivity.
Qed.

(* unsigned fields: read signed, converted back with a wrap *)
Lemma rd_int_cput_u w le z rest :
  (0 < w)%nat -> 0 <= z < 2 ^ (8 * Z.of_nat w) ->
  exists s, rd_int (Z.of_nat w) le (cput w le z ++ rest) = Ok (s, rest) /\ wrap (8 * Z.of_nat w) s = z.
Proof.
  intros Hw Hz. unfold rd_int. rewrite rd_bytes_cput. cbn [bind].
  rewrite cval_cput, cc_pow256. eexists; split; [reflexivity|].
  unfold wrap. rewrite sint_wrap by lia. rewrite Z.mod_mod by (apply Z.pow_nonzero; lia).
  apply Z.mod_small; lia.
Qed.

Lemma rd_int4 le z rest : - 2 ^ 31 <= z < 2 ^ 31 -> rd_int 4 le (cput 4 le z ++ rest) = Ok (z, rest).
Proof. intros H. apply (rd_int_cput 4 le z rest); [lia|exact H]. Qed.

Lemma rd_int2 le z rest : - 2 ^ 15 <= z < 2 ^ 15 -> rd_int 2 le (cput 2 le z ++ rest) = Ok (z, rest).
Proof. intros H. apply (rd_int_cput 2 le z rest); [lia|exact H]. Qed.

Lemma rd_int1 le z rest : - 2 ^ 7 <= z < 2 ^ 7 -> rd_int 1 le (cput 1 le z ++ rest) = Ok (z, rest).
Proof. intros H. apply (rd_int_cput 1 le z rest); [lia|exact H]. Qed.

Lemma rd_int4_u le z rest : 0 <= z < 2 ^ 32 ->
  exists s, rd_int 4 le (cput 4 le z ++ rest) = Ok (s, rest) /\ wrap 32 s = z.
Proof. intros H. apply (rd_int_cput_u 4 le z rest); [lia|exact H]. Qed.

Lemma rd_int2_u le z rest : 0 <= z < 2 ^ 16 ->
  exists s, rd_int 2 le (cput 2 le z ++ rest) = Ok (s, rest) /\ wrap 16 s = z.
Proof. intros H. apply (rd_int_cput_u 2 le z rest); [lia|exact H]. Qed.

Lemma rd_data_render le d rest : wf_data d -> rd_data le (r_data le d ++ rest) = Ok (d, rest).
Proof.
  intros Hd. unfold rd_data, r_data. rewrite <- app_assoc.
  rewrite rd_int4 by (pose proof (zlen_nonneg d); unfold wf_data in Hd; lia).
  cbn [bind]. apply rd_bytes_app.
Qed.

(* a counted loop reads back a list written element by element *)
Lemma rd_many_render {A} (rd : bytes -> res (A * bytes)) (enc : A -> bytes) (P : A -> Prop) :
  (forall x rest, P x -> rd (enc x ++ rest) = Ok (x, rest)) ->
  forall xs fuel rest, Forall P xs -> (length xs <= fuel)%nat ->
  rd_many rd fuel (zlen xs) (concat (map enc xs) ++ rest) = Ok (xs, rest).
Proof.
  intros Hrd. induction xs as [|x xs IH]; intros fuel rest HP Hf.
  - destruct fuel; reflexivity.
  - inversion HP as [|? ? Hx Hxs]; subst.
    destruct fuel as [|fuel]; [cbn in Hf; lia|].
    cbn [rd_many map concat]. rewrite zlen_cons.
    pose proof (zlen_nonneg xs).
    destruct (Z.leb_spec (1 + zlen xs) 0); [lia|].
    rewrite <- app_assoc, Hrd by assumption. cbn [bind].
    replace (1 + zlen xs - 1) with (zlen xs) by lia.
    rewrite IH by (try assumption; cbn in Hf; lia). reflexivity.
Qed.

(* every element takes at least k bytes, so the list is no longer than its rendering *)
Lemma concat_length_ge {A} (enc : A -> bytes) (k : nat) (xs : list A) :
  (forall x, k <= length (enc x))%nat -> (k * length xs <= length (concat (map enc xs)))%nat.
Proof.
  intros H. induction xs as [|x xs IH]; cbn [map concat length]; [lia|].
  rewrite app_length. specialize (H x). lia.
Qed.

Lemma r_data_length le d : (4 <= length (r_data le d))%nat.
Proof. unfold r_data. rewrite app_length, cput_length. lia. Qed.

Lemma r_tagged_length le t : (6 <= length (r_tagged le t))%nat.
Proof. unfold r_tagged. rewrite app_length, cput_length. pose proof (r_data_length le (snd t)). lia. Qed.

Lemma rd_principal_render v le p rest :
  wf_princ v p -> rd_principal v le (r_princ v le p ++ rest) = Ok (p, rest).
Proof.
  intros (Hv1 & Hnt & Hnc & Hrealm & Hcomps).
  pose proof (zlen_nonneg (cp_comps p)) as Hn0.
  unfold rd_principal, r_princ.
  assert (Hcount : forall rest',
    (do (nc0, r2) <- rd_int 4 le (cput 4 le (if v =? 1 then zlen (cp_comps p) + 1 else zlen (cp_comps p))
                                   ++ r_data le (cp_realm p) ++ concat (map (r_data le) (cp_comps p)) ++ rest');
     let nc := if v =? 1 then nc0 - 1 else nc0 in
     do (realm, r3) <- rd_data le r2;
     do (comps, r4) <- rd_many (rd_data le) (S (length r3)) nc r3;
     Ok (mkCP (if v =? 1 then 0 else cp_ntype p) realm comps, r4))
    = Ok (mkCP (if v =? 1 then 0 else cp_ntype p) (cp_realm p) (cp_comps p), rest')).
  { intros rest'. rewrite rd_int4 by (destruct (v =? 1); lia). cbn [bind]. cbv zeta.
    replace (if v =? 1 then (if v =? 1 then zlen (cp_comps p) + 1 else zlen (cp_comps p)) - 1
             else (if v =? 1 then zlen (cp_comps p) + 1 else zlen (cp_comps p)))
      with (zlen (cp_comps p)) by (destruct (v =? 1); lia).
    rewrite rd_data_render by assumption. cbn [bind].
    rewrite (rd_many_render (rd_data le) (r_data le) wf_data).
    - reflexivity.
    - intros x r Hx. apply rd_data_render, Hx.
    - assumption.
    - rewrite app_length.
      pose proof (concat_length_ge (r_data le) 4 (cp_comps p) (r_data_length le)). lia. }
  destruct p as [nt realm comps]; cbn [cp_ntype cp_realm cp_comps] in *.
  destruct (Z.eqb_spec v 1) as [E1|N1].
  - cbn [app bind]. rewrite <- !app_assoc. rewrite Hcount. rewrite (Hv1 E1). reflexivity.
  - rewrite <- !app_assoc. rewrite rd_int4 by assumption. cbn [bind]. rewrite Hcount. reflexivity.
Qed.

Lemma rd_tagged_render le t rest : wf_tagged t -> rd_tagged le (r_tagged le t ++ rest) = Ok (t, rest).
Proof.
  intros (Ht & Hd). unfold rd_tagged, r_tagged. rewrite <- app_assoc.
  rewrite rd_int2 by assumption. cbn [bind]. rewrite rd_data_render by assumption. cbn [bind].
  destruct t; reflexivity.
Qed.

Lemma rd_counted_render le l rest :
  zlen l < 2 ^ 31 -> Forall wf_tagged l -> rd_counted le (r_counted le l ++ rest) = Ok (l, rest).
Proof.
  intros Hl Hwf. pose proof (zlen_nonneg l) as H0.
  unfold rd_counted, r_counted. rewrite <- app_assoc. rewrite rd_int4 by lia. cbn [bind].
  pose proof (concat_length_ge (r_tagged le) 6 l (r_tagged_length le)) as Hlen.
  destruct (Z.ltb_spec (zlen l) 0); [lia|].
  destruct (Z.ltb_spec (zlen (concat (map (r_tagged le) l) ++ rest)) (zlen l)) as [Hbad|_].
  { exfalso. rewrite zlen_app in Hbad. pose proof (zlen_nonneg rest). unfold zlen in *. lia. }
  cbn [orb].
  apply (rd_many_render (rd_tagged le) (r_tagged le) wf_tagged).
  - intros x r Hx. apply rd_tagged_render, Hx.
  - assumption.
  - rewrite app_length. lia.
Qed.

Lemma rd_credential_render v le c rest :
  wf_cred v c -> rd_credential v le (r_cred v le c ++ rest) = Ok (c, rest).
Proof.
  intros (Hcl & Hsv & Hkt & Hkey & Ht1 & Ht2 & Ht3 & Ht4 & Hfl & Hna & Hwa & Hnd & Hwd & Htk & Htk2).
  unfold rd_credential, r_cred. rewrite <- !app_assoc.
  rewrite rd_principal_render by assumption. cbn [bind].
  rewrite rd_principal_render by assumption. cbn [bind].
  rewrite rd_int2 by assumption. cbn [bind].
  assert (Hk2 : forall rest',
    (if v =? 3 then rd_int 2 le ((if v =? 3 then cput 2 le (c_ktype c) else []) ++ rest')
     else Ok (c_ktype c, (if v =? 3 then cput 2 le (c_ktype c) else []) ++ rest'))
    = Ok (c_ktype c, rest')).
  { intros rest'. destruct (v =? 3); [apply rd_int2; assumption|reflexivity]. }
  rewrite Hk2. cbn [bind].
  rewrite rd_data_render by assumption. cbn [bind].
  rewrite rd_int4 by assumption. cbn [bind].
  rewrite rd_int4 by assumption. cbn [bind].
  rewrite rd_int4 by assumption. cbn [bind].
  rewrite rd_int4 by assumption. cbn [bind].
  rewrite rd_int1 by (destruct (c_skey c); lia). cbn [bind].
  destruct (rd_int4_u le (c_flags c)
              (r_counted le (c_addrs c) ++ r_counted le (c_authdata c) ++ r_data le (c_ticket c)
               ++ r_data le (c_ticket2 c) ++ rest) Hfl) as (s & Es & Ws).
  rewrite Es. cbn [bind]. rewrite Ws.
  rewrite rd_counted_render by assumption. cbn [bind].
  rewrite rd_counted_render by assumption. cbn [bind].
  rewrite rd_data_render by assumption. cbn [bind].
  rewrite rd_data_render by assumption. cbn [bind].
  destruct c as [cl sv kt key t1 t2 t3 t4 sk fl addrs ad tk tk2]; cbn.
  destruct sk; reflexivity.
Qed.

Lemma r_princ_length v le p : (8 <= length (r_princ v le p))%nat.
Proof.
  unfold r_princ. rewrite !app_length, cput_length. pose proof (r_data_length le (cp_realm p)). lia.
Qed.

Lemma r_cred_length v le c : (1 <= length (r_cred v le c))%nat.
Proof. unfold r_cred. rewrite app_length. pose proof (r_princ_length v le (c_client c)). lia. Qed.

Lemma rd_creds_render v le : forall cs fuel,
  Forall (wf_cred v) cs -> (length cs <= fuel)%nat ->
  rd_creds fuel v le (concat (map (r_cred v le) cs)) = Ok cs.
Proof.
  induction cs as [|c cs IH]; intros fuel Hwf Hf.
  - destruct fuel; reflexivity.
  - inversion Hwf as [|? ? Hc Hcs]; subst.
    destruct fuel as [|fuel]; [cbn in Hf; lia|].
    cbn [map concat].
    pose proof (r_cred_length v le c) as Hlen.
    destruct (r_cred v le c ++ concat (map (r_cred v le) cs)) as [|x r] eqn:E.
    { exfalso. apply (f_equal (@length _)) in E. rewrite app_length in E. cbn in E. lia. }
    cbn [rd_creds]. rewrite <- E.
    rewrite rd_credential_render by assumption. cbn [bind].
    rewrite IH by (try assumption; cbn in Hf; lia). reflexivity.
Qed.

(* ---------- the version 4 header ---------- *)

Lemma r_hfield_length f : (4 <= length (r_hfield f))%nat.
Proof. unfold r_hfield. rewrite !app_length, !cput_length. lia. Qed.

Lemma r_hfield_zlen f : zlen (r_hfield f) = 4 + zlen (hf_val f).
Proof. unfold r_hfield. rewrite !zlen_app, !cput_zlen. lia. Qed.

Lemma rd_hfields_render : forall fs fuel p hlen rest,
  Forall wf_hfield fs -> p + zlen (r_hbody fs) = 4 + hlen -> (length fs <= fuel)%nat ->
  rd_hfields fuel p hlen (r_hbody fs ++ rest) = Ok (fs, rest).
Proof.
  induction fs as [|f fs IH]; intros fuel p hlen rest Hwf Hp Hf.
  - unfold r_hbody in Hp. cbn [map concat] in Hp. rewrite zlen_nil in Hp.
    destruct fuel; cbn [rd_hfields]; destruct (Z.leb_spec p hlen); try lia; reflexivity.
  - inversion Hwf as [|? ? Hfw Hfs]; subst.
    destruct Hfw as (Htag & Hlen & Hvl & Hk).
    destruct fuel as [|fuel]; [cbn in Hf; lia|].
    unfold r_hbody in *. cbn [map concat] in *. rewrite zlen_app, r_hfield_zlen in Hp.
    pose proof (zlen_nonneg (hf_val f)) as Hv0.
    pose proof (zlen_nonneg (concat (map r_hfield fs))) as Hb0.
    cbn [rd_hfields]. destruct (Z.leb_spec p hlen); [|lia].
    unfold r_hfield at 1. rewrite <- !app_assoc.
    destruct (rd_int2_u false (hf_tag f)
                (cput 2 false (zlen (hf_val f)) ++ hf_val f ++ concat (map r_hfield fs) ++ rest) Htag)
      as (s1 & E1 & W1).
    rewrite E1. cbn [bind].
    destruct (rd_int2_u false (zlen (hf_val f)) (hf_val f ++ concat (map r_hfield fs) ++ rest)
                ltac:(lia)) as (s2 & E2 & W2).
    rewrite E2. cbn [bind]. cbv zeta. rewrite W1, W2.
    rewrite rd_bytes_app. cbn [bind].
    assert (Hval : hf_valid (hf_tag f) (zlen (hf_val f)) (hf_val f) = true).
    { unfold hf_valid. destruct (Z.eqb_spec (hf_tag f) 1) as [E|]; [|reflexivity].
      rewrite (Hk E). reflexivity. }
    rewrite Hval.
    rewrite IH by (try assumption; try (cbn in Hf; lia); lia). cbn [bind].
    destruct f as [tag len val]; cbn [hf_tag hf_len hf_val] in *. subst len. reflexivity.
Qed.

Lemma rd_header_render fs rest :
  Forall wf_hfield fs -> zlen (r_hbody fs) < 2 ^ 16 ->
  rd_header (r_header fs ++ rest) = Ok (zlen (r_hbody fs), fs, rest).
Proof.
  intros Hwf Hlen. unfold rd_header, r_header. rewrite <- app_assoc.
  destruct (rd_int2_u false (zlen (r_hbody fs)) (r_hbody fs ++ rest)
              ltac:(pose proof (zlen_nonneg (r_hbody fs)); lia)) as (s & E & W).
  rewrite E. cbn [bind]. cbv zeta. rewrite W.
  rewrite rd_hfields_render; [reflexivity|assumption|lia|].
  rewrite app_length.
  pose proof (concat_length_ge r_hfield 4 fs r_hfield_length). unfold r_hbody. lia.
Qed.

(* ---------- headline ---------- *)

(* Every well-formed cache of every format version parses to exactly what was written. *)
Theorem cc_parse_grammar m : wf_cc m -> cc_unmarshal (render m) = Ok m.
Proof.
  intros (Hv & H4 & Hn4 & Hp & Hcs).
  destruct m as [v hlen hfs pr cs]; cbn [cc_version cc_hlen cc_hfields cc_princ cc_creds] in *.
  unfold render. cbn [cc_version cc_hfields cc_princ cc_creds app]. unfold cc_unmarshal.
  cbn [Z.eqb Pos.eqb negb].
  destruct (Z.ltb_spec v 1); [lia|]. destruct (Z.ltb_spec 4 v); [lia|]. cbn [orb].
  fold (cc_le v).
  assert (Hhdr :
    (if v =? 4 then rd_header ((if v =? 4 then r_header hfs else []) ++ r_princ v (cc_le v) pr
                                 ++ concat (map (r_cred v (cc_le v)) cs))
     else Ok (0, [], (if v =? 4 then r_header hfs else []) ++ r_princ v (cc_le v) pr
                       ++ concat (map (r_cred v (cc_le v)) cs)))
    = Ok (hlen, hfs, r_princ v (cc_le v) pr ++ concat (map (r_cred v (cc_le v)) cs))).
  { destruct (Z.eqb_spec v 4) as [E4|N4].
    - destruct (H4 E4) as (Ehl & Hhl & Hwf). rewrite rd_header_render by (try assumption; lia).
      now rewrite Ehl.
    - destruct (Hn4 N4) as (-> & ->). reflexivity. }
  rewrite Hhdr. cbn [bind].
  rewrite rd_principal_render by assumption. cbn [bind].
  rewrite rd_creds_render; [reflexivity|assumption|].
  pose proof (concat_length_ge (r_cred v (cc_le v)) 1 cs (r_cred_length v (cc_le v))). lia.
Qed.

(* Non-vacuity: one concrete cache with a header field of an unknown tag, a service credential with
   addresses and authorization data, and a configuration entry; rendered and parsed in all versions. *)
Definition ex_princ (nt : Z) : cprinc := mkCP nt [84;69;83;84] [[117;115;101;114]].
Definition ex_cred (nt : Z) : cred :=
  mkCred (ex_princ nt) (mkCP nt [84;69;83;84] [[72;84;84;80];[104]]) 18 [1;2;3;4]
         1500000000 (-5) 2147483647 0 true 1088487424 [(2, [10;0;0;1])] [(1, []); (-3, [7])] [97;98;99] [].
Definition ex_conf (nt : Z) : cred :=
  mkCred (ex_princ nt) (mkCP nt [88;45;67;65;67;72;69;67;79;78;70;58] [[107];[102]]) 0 []
         0 0 0 0 false 0 [] [] [121;101;115] [].
Definition ex_cc (v : Z) : ccache :=
  let nt := if v =? 1 then 0 else 1 in
  if v =? 4
  then mkCC 4 18 [mkHF 1 8 [0;0;0;1;0;0;0;2]; mkHF 7 2 [9;9]] (ex_princ nt) [ex_cred nt; ex_conf nt]
  else mkCC v 0 [] (ex_princ nt) [ex_cred nt; ex_conf nt].

Ltac wf_tac :=
  unfold ex_cc, ex_cred, ex_conf, ex_princ, wf_cc; cbn [Z.eqb Pos.eqb];
  unfold wf_cred, wf_princ, wf_hfield, wf_tagged, wf_data;
  cbn [cc_version cc_hlen cc_hfields cc_princ cc_creds cp_ntype cp_realm cp_comps
       c_client c_server c_ktype c_key c_auth c_start c_end c_renew c_skey c_flags c_addrs c_authdata
       c_ticket c_ticket2 hf_tag hf_len hf_val fst snd];
  repeat match goal with
         | |- _ /\ _ => split
         | |- Forall _ [] => constructor
         | |- Forall _ (_ :: _) => constructor
         | |- (_ = _) -> _ => intros ?
         | |- (_ <> _) -> _ => intros ?
         end;
  unfold wf_cred, wf_princ, wf_hfield, wf_tagged, wf_data;
  cbn [cp_ntype cp_realm cp_comps
       c_client c_server c_ktype c_key c_auth c_start c_end c_renew c_skey c_flags c_addrs c_authdata
       c_ticket c_ticket2 hf_tag hf_len hf_val fst snd];
  repeat match goal with
         | |- _ /\ _ => split
         | |- Forall _ [] => constructor
         | |- Forall _ (_ :: _) => constructor
         | |- (_ = _) -> _ => intros ?
         | |- (_ <> _) -> _ => intros ?
         end;
  cbn [fst snd];
  try discriminate; try lia; try (unfold zlen; cbn [length]; lia);
  try match goal with |- _ = _ => vm_compute; reflexivity end;
  try congruence.

Example grammar_example :
  (wf_cc (ex_cc 1) /\ wf_cc (ex_cc 2) /\ wf_cc (ex_cc 3) /\ wf_cc (ex_cc 4)) /\
  cc_unmarshal (render (ex_cc 1)) = Ok (ex_cc 1) /\ cc_unmarshal (render (ex_cc 2)) = Ok (ex_cc 2) /\
  cc_unmarshal (render (ex_cc 3)) = Ok (ex_cc 3) /\ cc_unmarshal (render (ex_cc 4)) = Ok (ex_cc 4) /\
  render (ex_cc 3) <> render (ex_cc 4) /\ render (ex_cc 1) <> render (ex_cc 2).
Proof.
  split; [split; [|split; [|split]]; wf_tac|].
  split; [vm_compute; reflexivity|]. split; [vm_compute; reflexivity|].
  split; [vm_compute; reflexivity|]. split; [vm_compute; reflexivity|].
  split; vm_compute; discriminate.
Qed.
