(* client.ASExchange: bounded, and what every request of it looked like. *)
From Gokrb5.lib Require Import Bytes JV.
From Gokrb5.model Require Import ASExchange.
Open Scope nat_scope.

Definition ts_of (o : asout) : list bool :=
  match o with ASuccess ts _ => ts | AFail _ ts _ => ts | AOutOfFuel => [] end.
Definition assume_of (o : asout) : bool :=
  match o with ASuccess _ a => a | AFail _ _ a => a | AOutOfFuel => false end.

(* at most one request per referral hop plus two for the last exchange *)
Lemma as_bounded : forall fuel script i referral assume sent,
  referral <= 6 -> 7 - referral < fuel ->
  as_exchange fuel script i referral assume sent <> AOutOfFuel /\
  length (ts_of (as_exchange fuel script i referral assume sent)) <= length sent + (6 - referral) + 2.
Proof.
  induction fuel as [|f IH]; intros script i referral assume sent Hr Hf; [lia|].
  cbn [as_exchange]. destruct (script i).
  - cbn [ts_of]. rewrite app_length. cbn [length]. split; [discriminate|lia].
  - cbn [ts_of]. rewrite app_length. cbn [length]. split; [discriminate|lia].
  - destruct (script (S i)); cbn [ts_of]; rewrite !app_length; cbn [length]; (split; [discriminate|lia]).
  - destruct (script (S i)); cbn [ts_of]; rewrite !app_length; cbn [length]; (split; [discriminate|lia]).
  - destruct (Nat.ltb_spec 5 referral).
    + cbn [ts_of]. rewrite app_length. cbn [length]. split; [discriminate|lia].
    + destruct (IH script (S i) (S referral) assume (sent ++ [assume])) as [A B]; [lia|lia|].
      split; [exact A|]. rewrite app_length in B. cbn [length] in B. lia.
  - cbn [ts_of]. rewrite app_length. cbn [length]. split; [discriminate|lia].
  - cbn [ts_of]. rewrite app_length. cbn [length]. split; [discriminate|lia].
Qed.

(* For every sequence of KDC answers a login's AS exchange ends - with a reply or an error - after at most 8 requests. *)
Theorem as_terminates script assume :
  as_exchange 32 script 0 0 assume [] <> AOutOfFuel /\
  length (ts_of (as_exchange 32 script 0 0 assume [])) <= 8.
Proof. destruct (as_bounded 32 script 0 0 assume []) as [A B]; [lia|lia|]. split; [exact A|]. cbn [length] in B. lia. Qed.

(* the k-th exchange of the run (offset i, flags fl): a pre-authentication demand answered by ONE retry that carries a
   timestamp and is the last request; or a referral followed by a request with the client's standing assumption *)
Definition as_step_ok (script : nat -> asresp) (i : nat) (a0 : bool) (fl : list bool) (k : nat) : Prop :=
  ((script (i + k) = ANeedPreauth \/ script (i + k) = APreauthFailed) /\ nth (S k) fl false = true /\ S (S k) = length fl)
  \/ (script (i + k) = AWrongRealm /\ nth (S k) fl true = a0).

Definition as_result_ok (script : nat -> asresp) (i : nat) (fl : list bool) (o : asout) : Prop :=
  match o with
  | ASuccess _ _ => script (i + (length fl - 1)) = AOk
  | AFail _ _ _ => script (i + (length fl - 1)) <> AOk
  | AOutOfFuel => False
  end.

Lemma as_trace : forall fuel script i referral assume sent,
  as_exchange fuel script i referral assume sent <> AOutOfFuel ->
  exists ext,
    ts_of (as_exchange fuel script i referral assume sent) = sent ++ assume :: ext /\
    as_result_ok script i (assume :: ext) (as_exchange fuel script i referral assume sent) /\
    (forall k, k < length ext -> as_step_ok script i assume (assume :: ext) k) /\
    (assume = true -> assume_of (as_exchange fuel script i referral assume sent) = true).
Proof.
  induction fuel as [|f IH]; intros script i referral assume sent Hne; [cbn in Hne; congruence|].
  cbn [as_exchange] in *.
  assert (Simple : forall o, (o = ASuccess (sent ++ [assume]) assume /\ script i = AOk) \/
                              (exists kd, o = AFail kd (sent ++ [assume]) assume /\ script i <> AOk) ->
            exists ext, ts_of o = sent ++ assume :: ext /\ as_result_ok script i (assume :: ext) o /\
              (forall k, k < length ext -> as_step_ok script i assume (assume :: ext) k) /\
              (assume = true -> assume_of o = true)).
  { intros o H. exists []. destruct H as [[-> Hs]|(kd & -> & Hs)]; cbn [ts_of as_result_ok length assume_of];
      replace (i + (1 - 1)) with i by lia; (split; [reflexivity|]); (split; [exact Hs|]);
      (split; [intros k Hk; cbn in Hk; lia|auto]). }
  assert (Retry : forall o, script i = ANeedPreauth \/ script i = APreauthFailed ->
            (o = ASuccess ((sent ++ [assume]) ++ [true]) true /\ script (S i) = AOk) \/
            (exists kd, o = AFail kd ((sent ++ [assume]) ++ [true]) true /\ script (S i) <> AOk) ->
            exists ext, ts_of o = sent ++ assume :: ext /\ as_result_ok script i (assume :: ext) o /\
              (forall k, k < length ext -> as_step_ok script i assume (assume :: ext) k) /\
              (assume = true -> assume_of o = true)).
  { intros o Hs H. exists [true].
    assert (ts_of o = sent ++ [assume; true]) as Ets
      by (destruct H as [[-> _]|(kd & -> & _)]; cbn [ts_of]; rewrite <- app_assoc; reflexivity).
    split; [exact Ets|]. split.
    - destruct H as [[-> H2]|(kd & -> & H2)]; cbn [as_result_ok length]; replace (i + (2 - 1)) with (S i) by lia; exact H2.
    - split.
      + intros k Hk. cbn [length] in Hk. assert (k = 0) as -> by lia. left. replace (i + 0) with i by lia.
        split; [exact Hs|]. split; reflexivity.
      + intros _. destruct H as [[-> _]|(kd & -> & _)]; reflexivity. }
  destruct (script i) eqn:Es.
  - apply Simple. left. split; reflexivity.
  - apply Simple. right. exists 3%Z. split; [reflexivity|discriminate].
  - apply Retry; [left; reflexivity|].
    destruct (script (S i)) eqn:E2; [left; split; reflexivity|right..]; eexists; (split; [reflexivity|discriminate]).
  - apply Retry; [right; reflexivity|].
    destruct (script (S i)) eqn:E2; [left; split; reflexivity|right..]; eexists; (split; [reflexivity|discriminate]).
  - destruct (5 <? referral).
    + apply Simple. right. exists 4%Z. split; [reflexivity|discriminate].
    + destruct (IH script (S i) (S referral) assume (sent ++ [assume]) Hne) as (ext & A & B & C & D).
      exists (assume :: ext). split; [rewrite A, <- app_assoc; reflexivity|]. split.
      * unfold as_result_ok in *. cbn [length] in *.
        replace (i + (S (S (length ext)) - 1)) with (S i + (S (length ext) - 1)) by lia. exact B.
      * split; [|exact D].
        intros k Hk. destruct k as [|k].
        -- right. replace (i + 0) with i by lia. split; [exact Es|reflexivity].
        -- cbn [length] in Hk. assert (k < length ext) as Hk' by lia. specialize (C k Hk').
           unfold as_step_ok in *. replace (i + S k) with (S i + k) by lia. cbn [length] in *.
           destruct C as [(C1 & C2 & C3)|(C1 & C2)]; [left|right].
           ++ split; [exact C1|]. split; [exact C2|lia].
           ++ split; [exact C1|exact C2].
  - apply Simple. right. exists 1%Z. split; [reflexivity|discriminate].
  - apply Simple. right. exists 2%Z. split; [reflexivity|discriminate].
Qed.

(* From the start of a login: the first request carries a timestamp exactly when the client already assumes
   pre-authentication; every later request follows a pre-authentication demand (then it carries a timestamp and is the
   last one) or a referral (then it carries what the first one carried); success is the KDC's AS-REP to the last
   request; a client that assumed pre-authentication still does afterwards. *)
Theorem as_trace_fresh script assume :
  let o := as_exchange 32 script 0 0 assume [] in
  exists ext, ts_of o = assume :: ext /\ as_result_ok script 0 (assume :: ext) o /\
              (forall k, k < length ext -> as_step_ok script 0 assume (assume :: ext) k) /\
              (assume = true -> assume_of o = true).
Proof.
  cbn zeta. destruct (as_terminates script assume) as [Hne _].
  destruct (as_trace 32 script 0 0 assume [] Hne) as (ext & A & B & C & D). exists ext. auto.
Qed.

(* a demand for pre-authentication is answered with a timestamp, once *)
Corollary preauth_demand_answered script assume k :
  let fl := ts_of (as_exchange 32 script 0 0 assume []) in
  S k < length fl -> (script k = ANeedPreauth \/ script k = APreauthFailed) ->
  nth (S k) fl false = true /\ S (S k) = length fl.
Proof.
  cbn zeta. destruct (as_trace_fresh script assume) as (ext & A & _ & C & _). cbn zeta in A. rewrite A.
  intros Hk Hs. cbn [length] in Hk. assert (k < length ext) as Hk' by lia.
  destruct (C k Hk') as [(C1 & C2 & C3)|(C1 & _)]; [split; assumption|].
  cbn in C1. destruct Hs as [Hs|Hs]; congruence.
Qed.

Example as_examples :
  as_exchange 32 (script_of [ANeedPreauth] AOk) 0 0 false [] = ASuccess [false; true] true /\
  as_exchange 32 (script_of [AWrongRealm; ANeedPreauth] AOk) 0 0 false [] = ASuccess [false; false; true] true /\
  as_exchange 32 (script_of [] ANeedPreauth) 0 0 false [] = AFail 1 [false; true] true /\
  ts_of (as_exchange 32 (script_of [] AWrongRealm) 0 0 true []) = repeat true 7.
Proof. repeat split. Qed.
