(* Keytab.kt_unmarshal reads every file of the MIT keytab grammar to exactly the entries written,
   for both versions, with holes and with or without the 32-bit kvno; round trip as a corollary. *)
From Gokrb5.lib Require Import Bytes JV.
From Gokrb5.model Require Import Keytab.

(* ---------- the file grammar, written from the format document ---------- *)

Record wentry := mkW {
  w_realm : bytes; w_comps : list bytes; w_ntype : Z;
  w_ts : Z; w_kvno8 : Z; w_ktype : Z; w_key : bytes;
  w_tail : option Z          (* the optional trailing 32-bit kvno *)
}.
Inductive item := IEntry (e : wentry) | IHole (pad : bytes).

Definition cstr (le : bool) (s : bytes) : bytes := put 2 le (zlen s) ++ s.

Definition w_body (v : Z) (e : wentry) : bytes :=
  let le := (v =? 1) in
  put 2 le (if v =? 1 then zlen (w_comps e) + 1 else zlen (w_comps e))
  ++ cstr le (w_realm e)
  ++ concat (map (cstr le) (w_comps e))
  ++ (if v =? 1 then [] else put 4 le (w_ntype e))
  ++ put 4 le (w_ts e) ++ put 1 le (w_kvno8 e) ++ put 2 le (w_ktype e)
  ++ put 2 le (zlen (w_key e)) ++ w_key e
  ++ match w_tail e with Some k => put 4 le k | None => [] end.

Definition render_item (v : Z) (it : item) : bytes :=
  match it with
  | IEntry e => put 4 (v =? 1) (zlen (w_body v e)) ++ w_body v e
  | IHole pad => put 4 (v =? 1) (- zlen pad) ++ pad
  end.

Definition render_items (v : Z) (items : list item) : bytes := concat (map (render_item v) items).
Definition render (v : Z) (items : list item) : bytes := [5; v] ++ render_items v items.

(* what a reader is supposed to obtain *)
Definition entry_of (v : Z) (e : wentry) : entry :=
  mkEntry (mkPrincipal (zlen (w_comps e)) (w_realm e) (w_comps e) (if v =? 1 then 0 else w_ntype e))
          (w_ts e) (w_kvno8 e) (w_ktype e) (w_key e)
          (match w_tail e with
           | Some k => if k =? 0 then w_kvno8 e else k
           | None => w_kvno8 e end).

Fixpoint entries_of (v : Z) (items : list item) : list entry :=
  match items with
  | [] => []
  | IEntry e :: r => entry_of v e :: entries_of v r
  | IHole _ :: r => entries_of v r
  end.

Definition wf_wentry (v : Z) (e : wentry) : Prop :=
  zlen (w_realm e) < 2 ^ 15 /\ Forall (fun c => zlen c < 2 ^ 15) (w_comps e) /\
  zlen (w_comps e) + 1 < 2 ^ 15 /\
  - 2 ^ 31 <= w_ntype e < 2 ^ 31 /\ - 2 ^ 31 <= w_ts e < 2 ^ 31 /\
  0 <= w_kvno8 e < 2 ^ 8 /\ - 2 ^ 15 <= w_ktype e < 2 ^ 15 /\ zlen (w_key e) < 2 ^ 15 /\
  match w_tail e with Some k => 0 <= k < 2 ^ 32 | None => True end /\
  zlen (w_body v e) < 2 ^ 31.

Definition wf_item (v : Z) (it : item) : Prop :=
  match it with
  | IEntry e => wf_wentry v e
  | IHole pad => 1 <= zlen pad < 2 ^ 31
  end.

(* ---------- reader lemmas ---------- *)

Lemma put_length w le z : length (put w le z) = w.
Proof. unfold put; destruct le; [apply le_bytes_length | apply be_bytes_length]. Qed.

Lemma val_put w le z : val le (put w le z) = z mod 256 ^ Z.of_nat w.
Proof. unfold val, put; destruct le; [apply le_val_le_bytes | apply be_val_be_bytes]. Qed.

Lemma pow256 w : 256 ^ Z.of_nat w = 2 ^ (8 * Z.of_nat w).
Proof. change 256 with (2 ^ 8). rewrite <- Z.pow_mul_r by lia. reflexivity. Qed.

Lemma read_n_app w x rest : length x = w -> read_n w (x ++ rest) = Ok (x, rest).
Proof.
  intros <-. unfold read_n. rewrite app_length.
  destruct (Nat.ltb_spec (length x + length rest) (length x)); [lia|].
  now rewrite firstn_app_exact, skipn_app_exact.
Qed.

Lemma sint_mod_signed w z : 0 < w -> - 2 ^ (w - 1) <= z < 2 ^ (w - 1) -> sint w (z mod 2 ^ w) = z.
Proof.
  intros Hw Hz. unfold sint.
  assert (2 ^ w = 2 * 2 ^ (w - 1)) as E by (rewrite <- Z.pow_succ_r by lia; f_equal; lia).
  assert (0 < 2 ^ (w - 1)) by (apply Z.pow_pos_nonneg; lia).
  rewrite Z.mod_mod by lia.
  destruct (Z_lt_le_dec z 0) as [Hneg|Hpos].
  - replace (z mod 2 ^ w) with (z + 2 ^ w).
    + destruct (Z.ltb_spec (z + 2 ^ w) (2 ^ (w - 1))); lia.
    + symmetry. replace (z + 2 ^ w) with (z + 1 * 2 ^ w) by lia. rewrite <- (Z.mod_add z 1 (2 ^ w)) by lia. apply Z.mod_small; lia.
  - rewrite Z.mod_small by lia. destruct (Z.ltb_spec z (2 ^ (w - 1))); lia.
Qed.

Lemma read_int_put w le z rest :
  (0 < w)%nat -> - 2 ^ (8 * Z.of_nat w - 1) <= z < 2 ^ (8 * Z.of_nat w - 1) ->
  read_int w le (put w le z ++ rest) = Ok (z, rest).
Proof.
  intros Hw Hz. unfold read_int. rewrite read_n_app by apply put_length.
  rewrite val_put, pow256, sint_mod_signed by lia. reflexivity.
Qed.

(* unsigned fields: read signed, then converted back with a wrap *)
Lemma read_int_put_u w le z rest :
  (0 < w)%nat -> 0 <= z < 2 ^ (8 * Z.of_nat w) ->
  exists s, read_int w le (put w le z ++ rest) = Ok (s, rest) /\ wrap (8 * Z.of_nat w) s = z.
Proof.
  intros Hw Hz. unfold read_int. rewrite read_n_app by apply put_length.
  rewrite val_put, pow256. eexists; split; [reflexivity|].
  unfold wrap. rewrite sint_wrap by lia. rewrite Z.mod_mod by (apply Z.pow_nonzero; lia).
  apply Z.mod_small; lia.
Qed.

Lemma read_bytes_app s rest : read_bytes (zlen s) (s ++ rest) = Ok (s, rest).
Proof.
  unfold read_bytes. pose proof (zlen_nonneg s).
  destruct (Z.ltb_spec (zlen s) 0); [lia|].
  apply read_n_app. unfold zlen; now rewrite Nat2Z.id.
Qed.

Lemma read_cstr le s rest :
  zlen s < 2 ^ 15 ->
  exists r1, read_int 2 le (cstr le s ++ rest) = Ok (zlen s, r1) /\ read_bytes (zlen s) r1 = Ok (s, rest).
Proof.
  intros Hs. unfold cstr. rewrite <- app_assoc. exists (s ++ rest). split.
  - apply read_int_put; [lia|]. pose proof (zlen_nonneg s). change (8 * Z.of_nat 2 - 1) with 15. lia.
  - apply read_bytes_app.
Qed.

Lemma parse_comps_render le comps : forall rest acc,
  Forall (fun c => zlen c < 2 ^ 15) comps ->
  parse_comps (length comps) le (concat (map (cstr le) comps) ++ rest) acc = (acc ++ comps, rest, true).
Proof.
  induction comps as [|c comps IH]; intros rest acc Hwf; cbn [length map concat parse_comps].
  - now rewrite app_nil_r.
  - inversion Hwf as [|? ? Hc Hcs]; subst. rewrite <- app_assoc.
    destruct (read_cstr le c (concat (map (cstr le) comps) ++ rest) Hc) as (r1 & E1 & E2).
    rewrite E1, E2, IH by assumption. now rewrite <- app_assoc.
Qed.

Lemma v12_cases v : v = 1 \/ v = 2 -> ((v =? 1) = true /\ v = 1) \/ ((v =? 1) = false /\ v = 2).
Proof. intros [->| ->]; [left|right]; auto. Qed.

Lemma parse_entry_body v e :
  v = 1 \/ v = 2 -> wf_wentry v e ->
  parse_entry v (v =? 1) (w_body v e) = Ok (entry_of v e).
Proof.
  intros Hv (Hr & Hcs & Hnc & Hnt & Hts & Hk8 & Hkt & Hkl & Htail & _).
  pose proof (zlen_nonneg (w_comps e)) as Hnc0. pose proof (zlen_nonneg (w_key e)) as Hkl0.
  unfold parse_entry, parse_principal, w_body.
  destruct (v12_cases v Hv) as [[Ev ->]|[Ev ->]]; cbn [Z.eqb Pos.eqb]; cbv beta iota.
  - (* version 1 *)
    rewrite read_int_put by (change (8 * Z.of_nat 2 - 1) with 15; lia).
    replace (sint 16 (zlen (w_comps e) + 1 - 1)) with (zlen (w_comps e))
      by (rewrite sint_small; lia).
    destruct (read_cstr true (w_realm e)
               (concat (map (cstr true) (w_comps e)) ++ [] ++ put 4 true (w_ts e) ++ put 1 true (w_kvno8 e)
                ++ put 2 true (w_ktype e) ++ put 2 true (zlen (w_key e)) ++ w_key e
                ++ match w_tail e with Some k => put 4 true k | None => [] end) Hr) as (r1 & E1 & E2).
    rewrite E1, E2.
    unfold zlen at 1. rewrite Nat2Z.id, parse_comps_render by assumption. cbn [app].
    rewrite read_int_put by (change (8 * Z.of_nat 4 - 1) with 31; lia). cbn [bind].
    destruct (read_int_put_u 1 true (w_kvno8 e)
               (put 2 true (w_ktype e) ++ put 2 true (zlen (w_key e)) ++ w_key e
                ++ match w_tail e with Some k => put 4 true k | None => [] end)) as (s8 & E8 & W8);
      [lia|change (8 * Z.of_nat 1) with 8; lia|].
    rewrite E8. cbn [bind].
    rewrite read_int_put by (change (8 * Z.of_nat 2 - 1) with 15; lia). cbn [bind].
    rewrite read_int_put by (change (8 * Z.of_nat 2 - 1) with 15; lia). cbn [bind].
    rewrite read_bytes_app. cbn [bind].
    change (8 * Z.of_nat 1) with 8 in W8. rewrite W8.
    unfold entry_of. cbn [Z.eqb Pos.eqb].
    destruct (w_tail e) as [k|].
    + rewrite put_length. cbn [Nat.leb].
      rewrite <- (app_nil_r (put 4 true k)).
      destruct (read_int_put_u 4 true k []) as (s & E & W); [lia|change (8 * Z.of_nat 4) with 32; lia|].
      rewrite E. cbn [bind]. change (8 * Z.of_nat 4) with 32 in W. rewrite W. reflexivity.
    + cbn [length Nat.leb bind Z.eqb]. reflexivity.
  - (* version 2 *)
    rewrite read_int_put by (change (8 * Z.of_nat 2 - 1) with 15; lia).
    destruct (read_cstr false (w_realm e)
               (concat (map (cstr false) (w_comps e)) ++ put 4 false (w_ntype e) ++ put 4 false (w_ts e)
                ++ put 1 false (w_kvno8 e)
                ++ put 2 false (w_ktype e) ++ put 2 false (zlen (w_key e)) ++ w_key e
                ++ match w_tail e with Some k => put 4 false k | None => [] end) Hr) as (r1 & E1 & E2).
    rewrite E1, E2.
    unfold zlen at 1. rewrite Nat2Z.id, parse_comps_render by assumption. cbn [app].
    rewrite read_int_put by (change (8 * Z.of_nat 4 - 1) with 31; lia).
    rewrite read_int_put by (change (8 * Z.of_nat 4 - 1) with 31; lia). cbn [bind].
    destruct (read_int_put_u 1 false (w_kvno8 e)
               (put 2 false (w_ktype e) ++ put 2 false (zlen (w_key e)) ++ w_key e
                ++ match w_tail e with Some k => put 4 false k | None => [] end)) as (s8 & E8 & W8);
      [lia|change (8 * Z.of_nat 1) with 8; lia|].
    rewrite E8. cbn [bind].
    rewrite read_int_put by (change (8 * Z.of_nat 2 - 1) with 15; lia). cbn [bind].
    rewrite read_int_put by (change (8 * Z.of_nat 2 - 1) with 15; lia). cbn [bind].
    rewrite read_bytes_app. cbn [bind].
    change (8 * Z.of_nat 1) with 8 in W8. rewrite W8.
    unfold entry_of. cbn [Z.eqb Pos.eqb].
    destruct (w_tail e) as [k|].
    + rewrite put_length. cbn [Nat.leb].
      rewrite <- (app_nil_r (put 4 false k)).
      destruct (read_int_put_u 4 false k []) as (s & E & W); [lia|change (8 * Z.of_nat 4) with 32; lia|].
      rewrite E. cbn [bind]. change (8 * Z.of_nat 4) with 32 in W. rewrite W. reflexivity.
    + cbn [length Nat.leb bind Z.eqb]. reflexivity.
Qed.

Lemma read_int_rest_length w le r l r' : read_int w le r = Ok (l, r') -> length r' = (length r - w)%nat.
Proof.
  unfold read_int, read_n. destruct (length r <? w)%nat; [discriminate|].
  intros E. assert (r' = skipn w r) as -> by congruence. apply skipn_length.
Qed.

(* ---------- the entry loop ---------- *)

Definition kt_next (f : nat) (v : Z) (le : bool) (r : bytes) (acc : list entry) : res (list entry) :=
  if (length r <? 4)%nat then Ok acc
  else match read_int 4 le r with
       | Ok (l', r'') => kt_loop f v le l' r'' acc
       | Err c => Err c
       | Panic s => Panic s
       end.

Lemma kt_loop_unfold f v le l r acc :
  kt_loop (S f) v le l r acc =
    if l =? 0 then Ok acc
    else if l <? 0 then
      let h := sint 32 (- l) in
      if h <? 0 then Ok acc
      else if zlen r <? h then Ok acc
      else kt_next f v le (skipn (Z.to_nat h) r) acc
    else
      if zlen r <? l then Err 3
      else
        match parse_entry v le (firstn (Z.to_nat l) r) with
        | Ok e => kt_next f v le (skipn (Z.to_nat l) r) (acc ++ [e])
        | Err c => Err c
        | Panic s => Panic s
        end.
Proof. reflexivity. Qed.


Lemma kt_next_items v : v = 1 \/ v = 2 -> forall items f acc,
  Forall (wf_item v) items ->
  (length (render_items v items) <= 4 * f)%nat ->
  kt_next f v (v =? 1) (render_items v items) acc = Ok (acc ++ entries_of v items).
Proof.
  intros Hv. induction items as [|it items IH]; intros f acc Hwf Hf.
  - cbn. now rewrite app_nil_r.
  - inversion Hwf as [|? ? Hit Hits]; subst.
    unfold render_items in *. cbn [map concat] in *.
    rewrite app_length in Hf.
    unfold kt_next.
    destruct it as [e|pad]; cbn [render_item wf_item entries_of] in *.
    + (* an entry *)
      assert (Hb : 0 <= zlen (w_body v e) < 2 ^ 31) by (split; [apply zlen_nonneg|apply Hit]).
      rewrite !app_length, put_length in *.
      destruct (Nat.ltb_spec (4 + length (w_body v e) + length (concat (map (render_item v) items))) 4); [lia|].
      rewrite <- app_assoc.
      rewrite read_int_put by (change (8 * Z.of_nat 4 - 1) with 31; lia).
      destruct f as [|f]; [lia|]. rewrite kt_loop_unfold.
      assert (Hpos : 0 < zlen (w_body v e)).
      { unfold w_body. rewrite zlen_app. unfold zlen at 1. rewrite put_length.
        pose proof (zlen_nonneg (cstr (v =? 1) (w_realm e) ++
           concat (map (cstr (v =? 1)) (w_comps e)) ++
           (if v =? 1 then [] else put 4 (v =? 1) (w_ntype e)) ++
           put 4 (v =? 1) (w_ts e) ++
           put 1 (v =? 1) (w_kvno8 e) ++
           put 2 (v =? 1) (w_ktype e) ++
           put 2 (v =? 1) (zlen (w_key e)) ++
           w_key e ++ match w_tail e with
                      | Some k => put 4 (v =? 1) k
                      | None => []
                      end)). lia. }
      destruct (Z.eqb_spec (zlen (w_body v e)) 0); [lia|].
      destruct (Z.ltb_spec (zlen (w_body v e)) 0); [lia|].
      rewrite zlen_app.
      destruct (Z.ltb_spec (zlen (w_body v e) + zlen (concat (map (render_item v) items))) (zlen (w_body v e)));
        [pose proof (zlen_nonneg (concat (map (render_item v) items))); lia|].
      replace (Z.to_nat (zlen (w_body v e))) with (length (w_body v e)) by (unfold zlen; now rewrite Nat2Z.id).
      rewrite firstn_app_exact, skipn_app_exact.
      rewrite parse_entry_body by assumption.
      fold (render_items v items). rewrite IH; [now rewrite <- app_assoc|assumption|].
      unfold render_items. unfold zlen in Hpos. lia.
    + (* a hole *)
      rewrite !app_length, put_length in *.
      destruct (Nat.ltb_spec (4 + length pad + length (concat (map (render_item v) items))) 4); [lia|].
      rewrite <- app_assoc.
      rewrite read_int_put by (change (8 * Z.of_nat 4 - 1) with 31; lia).
      destruct f as [|f]; [lia|]. rewrite kt_loop_unfold.
      destruct (Z.eqb_spec (- zlen pad) 0); [lia|].
      destruct (Z.ltb_spec (- zlen pad) 0); [|lia].
      cbv zeta. replace (- - zlen pad) with (zlen pad) by lia.
      rewrite sint_small by lia.
      destruct (Z.ltb_spec (zlen pad) 0); [lia|].
      rewrite zlen_app.
      destruct (Z.ltb_spec (zlen pad + zlen (concat (map (render_item v) items))) (zlen pad));
        [pose proof (zlen_nonneg (concat (map (render_item v) items))); lia|].
      replace (Z.to_nat (zlen pad)) with (length pad) by (unfold zlen; now rewrite Nat2Z.id).
      rewrite skipn_app_exact.
      fold (render_items v items). apply IH; [assumption|].
      unfold render_items. unfold zlen in Hit. lia.
Qed.

(* Headline: every file of the grammar parses to exactly the entries written. *)
Theorem kt_parse_grammar v items :
  v = 1 \/ v = 2 -> Forall (wf_item v) items ->
  kt_unmarshal (render v items) = Ok (v, entries_of v items).
Proof.
  intros Hv Hwf. unfold render, kt_unmarshal. cbn [app].
  assert (Ev : negb ((v =? 1) || (v =? 2)) = false) by (destruct Hv as [->| ->]; reflexivity).
  cbn [Z.eqb Pos.eqb negb]. rewrite Ev.
  destruct (Nat.eqb_spec (length (render_items v items)) 0) as [E0|E0].
  - destruct items as [|it items]; [reflexivity|].
    exfalso. unfold render_items in E0. cbn [map concat] in E0. rewrite app_length in E0.
    destruct it; cbn [render_item] in E0; rewrite app_length, put_length in E0; lia.
  - pose proof (kt_next_items v Hv items (S (length (render_items v items) - 4)) [] Hwf) as H.
    unfold kt_next in H.
    assert (4 <= length (render_items v items))%nat as H4.
    { destruct items as [|it items]; [cbn in E0; lia|].
      unfold render_items. cbn [map concat]. rewrite app_length.
      destruct it; cbn [render_item]; rewrite app_length, put_length; lia. }
    destruct (Nat.ltb_spec (length (render_items v items)) 4); [lia|].
    specialize (H ltac:(lia)).
    destruct (read_int 4 (v =? 1) (render_items v items)) as [[l r']|c|s] eqn:ER; try discriminate.
    pose proof (read_int_rest_length _ _ _ _ _ ER) as Hr'.
    rewrite Hr'. rewrite H. reflexivity.
Qed.

(* ---------- Marshal is in the grammar; round trip ---------- *)

Definition w_of_entry (e : entry) : wentry :=
  mkW (p_realm (e_princ e)) (p_comps (e_princ e)) (p_ntype (e_princ e))
      (e_ts e) (e_kvno8 e) (e_ktype e) (e_key e) (Some (e_kvno e)).

(* entries Marshal can represent faithfully: NumComponents is the number of components and all
   fields are inside the ranges of their file representation *)
Definition wf_entry (v : Z) (e : entry) : Prop :=
  p_ncomp (e_princ e) = zlen (p_comps (e_princ e)) /\ wf_wentry v (w_of_entry e).

Lemma put_wrap8 le z : 0 <= z < 2 ^ 8 -> [wrap 8 z] = put 1 le z.
Proof.
  intros Hz. unfold wrap, put, be_bytes. destruct le; cbn [le_bytes rev app];
  change (2 ^ 8) with 256; reflexivity.
Qed.

Lemma entry_marshal_render v e :
  wf_entry v e -> entry_marshal v e = render_item v (IEntry (w_of_entry e)).
Proof.
  intros (Hn & Hw). unfold entry_marshal, render_item.
  assert (entry_body v e = w_body v (w_of_entry e)) as ->; [|reflexivity].
  unfold entry_body, w_body, princ_marshal, w_of_entry, marshal_string, cstr. cbn [w_realm w_comps w_ntype w_ts w_kvno8 w_ktype w_key w_tail].
  destruct Hw as (_ & _ & _ & _ & _ & Hk8 & _). cbn [w_kvno8] in Hk8.
  rewrite Hn, (put_wrap8 (v =? 1)) by assumption.
  rewrite <- !app_assoc. reflexivity.
Qed.

Lemma kt_marshal_render v es :
  Forall (wf_entry v) es -> kt_marshal v es = render v (map (fun e => IEntry (w_of_entry e)) es).
Proof.
  intros H. unfold kt_marshal, render, render_items. f_equal. f_equal.
  rewrite map_map. induction H as [|e es He Hes IH]; cbn [map]; [reflexivity|].
  now rewrite IH, entry_marshal_render.
Qed.

(* the normal form Unmarshal produces: kvno 0 is replaced by the 8-bit kvno, version 1 has no name type *)
Definition norm_entry (v : Z) (e : entry) : entry :=
  mkEntry (mkPrincipal (zlen (p_comps (e_princ e))) (p_realm (e_princ e)) (p_comps (e_princ e))
                       (if v =? 1 then 0 else p_ntype (e_princ e)))
          (e_ts e) (e_kvno8 e) (e_ktype e) (e_key e)
          (if e_kvno e =? 0 then e_kvno8 e else e_kvno e).

Theorem kt_roundtrip v es :
  v = 1 \/ v = 2 -> Forall (wf_entry v) es ->
  kt_unmarshal (kt_marshal v es) = Ok (v, map (norm_entry v) es).
Proof.
  intros Hv Hwf. rewrite kt_marshal_render by assumption.
  rewrite kt_parse_grammar; [|assumption|].
  - f_equal. f_equal. induction es as [|e es IH]; cbn [map entries_of]; [reflexivity|].
    inversion Hwf; subst. rewrite IH by assumption. reflexivity.
  - rewrite Forall_map. eapply Forall_impl; [|exact Hwf]. intros e (_ & H). exact H.
Qed.

(* entries in normal form are fixed points: "parsing the result yields the same entries" *)
Definition canonical (v : Z) (e : entry) : Prop :=
  p_ncomp (e_princ e) = zlen (p_comps (e_princ e)) /\
  (v = 1 -> p_ntype (e_princ e) = 0) /\ (e_kvno e = 0 -> e_kvno8 e = 0).

Lemma norm_canonical v e : v = 1 \/ v = 2 -> canonical v e -> norm_entry v e = e.
Proof.
  intros Hv (Hn & Ht & Hk). destruct e as [[nc realm comps nt] ts k8 kt key kv]; cbn in *.
  unfold norm_entry; cbn. subst nc. f_equal.
  - f_equal. destruct Hv as [->| ->]; cbn; [symmetry; auto|reflexivity].
  - destruct (Z.eqb_spec kv 0) as [->|]; [rewrite Hk; auto|reflexivity].
Qed.

Corollary kt_roundtrip_same v es :
  v = 1 \/ v = 2 -> Forall (wf_entry v) es -> Forall (canonical v) es ->
  kt_unmarshal (kt_marshal v es) = Ok (v, es).
Proof.
  intros Hv Hwf Hc. rewrite kt_roundtrip by assumption. f_equal. f_equal.
  induction Hc as [|e es He Hes IH]; cbn [map]; [reflexivity|].
  inversion Hwf; subst. rewrite IH, norm_canonical by assumption. reflexivity.
Qed.

(* Non-vacuity: a concrete file with a hole, an entry without and one with the 32-bit kvno. *)
Example grammar_example :
  let e1 := mkW [84;69;83;84] [[72;84;84;80];[104]] 1 1500000000 3 18 [1;2;3;4] None in
  let e2 := mkW [84] [] 1 (-5) 0 23 [9] (Some 70000) in
  Forall (wf_item 2) [IEntry e1; IHole [0;0;0]; IEntry e2] /\
  kt_unmarshal (render 2 [IEntry e1; IHole [0;0;0]; IEntry e2]) = Ok (2, [entry_of 2 e1; entry_of 2 e2]) /\
  kt_unmarshal (render 1 [IEntry e1; IHole [0;0;0]; IEntry e2]) = Ok (1, [entry_of 1 e1; entry_of 1 e2]).
Proof.
  split; [|split; vm_compute; reflexivity].
  repeat constructor; cbn; try lia; vm_compute; try reflexivity; intuition congruence.
Qed.
